import CKT.Props.C10Sem
import CKT.Sem.Instr
/-!
# C10 — the two laws of `C10Sem` hold in the Pauli-expectation semantics of dynamic circuits

Instructions on disjoint qubits and disjoint classical bits commute, and barriers do nothing, in the concrete semantics
`CKT.Sem` (any transfer matrices for the named gates and the measurement projectors).  Hence T10.4 holds there without
assumed laws: `separate_recompose_ptm`.
-/
namespace CKT.C10PTM
open CKT CKT.Sem CKT.C10Sem

variable {K : Type} [CommRing K]

/-- **the two laws hold in the Pauli-expectation semantics** -/
def ptm (G : GateSem K) : CommSem (St K) where
  ap := ap G none
  comm := fun i j s hq hc => ap_comm G i j s hq hc
  barrier := fun i s h => ap_barrier G none i s h

/-- **T10.4 in the Pauli-expectation semantics** (no assumed laws): running the separated subcircuits one after the other,
each on the qubits the qubit map assigns to it, gives the state the original circuit gives — from every start state,
whatever the gates mean -/
theorem separate_recompose_ptm (G : GateSem K) (c : Circuit) (ls : List Label) (sep : Separated)
    (h : separateCircuit c (some ls) = .ok sep) (hcl : ∀ i ∈ c.instrs, i.clbits = []) (σ : St K) :
    run (ptm G) (recompose ls sep.subcircuits) σ = run (ptm G) c.instrs σ :=
  separate_recompose (ptm G) c ls sep h hcl σ

end CKT.C10PTM
