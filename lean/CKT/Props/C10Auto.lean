import CKT.Props.C10
/-!
# C10 — T10.3: automatic labelling drops exactly the idle qubits

`autoLabels_none_iff`: the label of qubit `q` is `None` iff no instruction of the circuit acts on `q` (ignored instructions —
pre-placed cut gates in `partition_problem` — count as acting on their qubits, although they do not connect them).
The proof carries three invariants of the label-propagation table through every step of every sweep (`GoodComp`: values stay
in range, the table is idempotent, an untouched qubit is its own component and nobody else's).
-/
namespace CKT.C10
open CKT

/-- component id of qubit `x` under the table `comp` -/
abbrev cf (comp : List Nat) (x : Nat) : Nat := comp.getD x x

/-- invariants of the label-propagation table with respect to the set `T` of touched qubits -/
structure GoodComp (n : Nat) (T : List Nat) (comp : List Nat) : Prop where
  len : comp.length = n
  rng : ∀ x, x < n → cf comp x < n
  idem : ∀ x, x < n → cf comp (cf comp x) = cf comp x
  iso : ∀ x, x < n → x ∉ T → cf comp x = x ∧ ∀ y, y < n → cf comp y = x → y = x

theorem cf_range (n x : Nat) : cf (List.range n) x = x := by
  unfold cf
  by_cases h : x < n
  · simp [List.getD_eq_getElem?_getD, List.getElem?_range h]
  · have : (List.range n)[x]? = none := List.getElem?_eq_none (by simp; omega)
    simp [List.getD_eq_getElem?_getD, this]

theorem good_init (n : Nat) (T : List Nat) : GoodComp n T (List.range n) :=
  ⟨by simp, fun x hx => by rw [cf_range]; exact hx, fun x _ => by rw [cf_range, cf_range],
   fun x _ _ => ⟨cf_range n x, fun y _ hy => by rw [cf_range] at hy; exact hy⟩⟩

theorem cf_map (comp : List Nat) (f : Nat → Nat) (x : Nat) (hx : x < comp.length) : cf (comp.map f) x = f (cf comp x) := by
  simp [cf, List.getD_eq_getElem?_getD, List.getElem?_map, List.getElem?_eq_getElem hx]

/-- one instruction of one sweep -/
def sweepStep (comp : List Nat) (qs : List Nat) : List Nat :=
  let ids := qs.map (fun q => comp.getD q q)
  match ids.min? with
  | none => comp
  | some m => comp.map (fun c => if ids.contains c then m else c)

theorem sweep_eq (instrs : List (List Nat)) (comp : List Nat) : sweep instrs comp = instrs.foldl sweepStep comp := rfl

theorem good_step (n : Nat) (T : List Nat) (comp qs : List Nat) (hg : GoodComp n T comp)
    (hq : ∀ q ∈ qs, q < n ∧ q ∈ T) : GoodComp n T (sweepStep comp qs) := by
  unfold sweepStep
  simp only
  cases hm : (qs.map (fun q => comp.getD q q)).min? with
  | none => exact hg
  | some m =>
    simp only
    set ids := qs.map (fun q => comp.getD q q) with hids
    have hmem : m ∈ ids := List.min?_mem hm
    have hids_lt : ∀ c ∈ ids, c < n := by
      intro c hc
      obtain ⟨q, hq', rfl⟩ := List.mem_map.1 hc
      exact hg.rng q (hq q hq').1
    have hids_root : ∀ c ∈ ids, cf comp c = c := by
      intro c hc
      obtain ⟨q, hq', rfl⟩ := List.mem_map.1 hc
      exact hg.idem q (hq q hq').1
    have hcf : ∀ x, x < n → cf (comp.map fun c => if ids.contains c then m else c) x = if ids.contains (cf comp x) then m else cf comp x :=
      fun x hx => cf_map comp _ x (by rw [hg.len]; exact hx)
    refine ⟨by simp [hg.len], ?_, ?_, ?_⟩
    · intro x hx
      rw [hcf x hx]
      split
      · exact hids_lt m hmem
      · exact hg.rng x hx
    · intro x hx
      rw [hcf x hx]
      by_cases h : ids.contains (cf comp x) = true
      · simp only [h, if_true]
        rw [hcf m (hids_lt m hmem), hids_root m hmem]
        simp [hmem]
      · have h' : ids.contains (cf comp x) = false := by simpa using h
        simp only [h', Bool.false_eq_true, if_false]
        rw [hcf _ (hg.rng x hx), hg.idem x hx, h']
        simp
    · intro x hx hxT
      obtain ⟨hself, honly⟩ := hg.iso x hx hxT
      have hx_not : x ∉ ids := by
        intro hc
        obtain ⟨q, hq', e⟩ := List.mem_map.1 hc
        have := honly q (hq q hq').1 e
        subst this
        exact hxT (hq q hq').2
      have hxc : ids.contains x = false := by simpa using hx_not
      refine ⟨by rw [hcf x hx, hself, hxc]; simp, ?_⟩
      intro y hy hyx
      rw [hcf y hy] at hyx
      by_cases h : ids.contains (cf comp y) = true
      · simp only [h, if_true] at hyx
        rw [hyx] at hmem; exact absurd hmem hx_not
      · have h' : ids.contains (cf comp y) = false := by simpa using h
        simp only [h', Bool.false_eq_true, if_false] at hyx
        exact honly y hy hyx

theorem good_sweep (n : Nat) (T : List Nat) : ∀ (instrs : List (List Nat)) (comp : List Nat), GoodComp n T comp →
    (∀ qs ∈ instrs, ∀ q ∈ qs, q < n ∧ q ∈ T) → GoodComp n T (sweep instrs comp) := by
  intro instrs
  induction instrs with
  | nil => intro comp hg _; exact hg
  | cons qs rest ih =>
    intro comp hg h
    rw [sweep_eq, List.foldl_cons, ← sweep_eq]
    exact ih _ (good_step n T comp qs hg (h qs (by simp))) (fun qs' hqs' => h qs' (List.mem_cons_of_mem _ hqs'))

theorem good_components (n : Nat) (T : List Nat) (instrs : List (List Nat))
    (h : ∀ qs ∈ instrs, ∀ q ∈ qs, q < n ∧ q ∈ T) : GoodComp n T (components n instrs) := by
  unfold components
  have gen : ∀ (l : List Nat) (comp : List Nat), GoodComp n T comp →
      GoodComp n T (l.foldl (fun comp _ => sweep instrs comp) comp) := by
    intro l
    induction l with
    | nil => intro comp hg; exact hg
    | cons _ l ih => intro comp hg; exact ih _ (good_sweep n T instrs comp hg h)
  exact gen _ _ (good_init n T)

theorem filter_eq_range (n q : Nat) (h : q < n) : (List.range n).filter (fun y => y == q) = [q] := by
  induction n with
  | zero => omega
  | succ n ih =>
    rw [List.range_succ, List.filter_append]
    by_cases hq : q < n
    · have : n ≠ q := by omega
      simp [ih hq, this]
    · have hqn : q = n := by omega
      subst hqn
      have : (List.range q).filter (fun y => y == q) = [] := by
        rw [List.filter_eq_nil_iff]
        intro y hy
        have := List.mem_range.1 hy
        simp; omega
      simp [this]

/-- **T10.3** automatic labelling gives label `None` to exactly the idle qubits (those no instruction acts on, whether or
not the instruction is ignored for connectivity) -/
theorem autoLabels_none_iff (n : Nat) (instrs : List Instr) (ignore : Instr → Bool)
    (hrange : ∀ i ∈ instrs, ∀ q ∈ i.qubits, q < n) (q : Nat) (hq : q < n) :
    (autoLabels n instrs ignore).getD q none = none ↔ ∀ i ∈ instrs, q ∉ i.qubits := by
  set T : List Nat := (instrs.map (·.qubits)).flatten with hT
  have hTmem : ∀ x, x ∈ T ↔ ∃ i ∈ instrs, x ∈ i.qubits := by
    intro x; simp [hT, List.mem_flatten]
  set cinstrs := (instrs.filter (fun i => !ignore i)).map (·.qubits) with hc
  have hgood : GoodComp n T (components n cinstrs) := by
    apply good_components
    intro qs hqs x hx
    obtain ⟨i, hi, rfl⟩ := List.mem_map.1 hqs
    have hi' := (List.mem_filter.1 hi).1
    exact ⟨hrange i hi' x hx, (hTmem x).2 ⟨i, hi', hx⟩⟩
  set comp := components n cinstrs with hcomp
  have hlab : (autoLabels n instrs ignore).getD q none =
      (match ((List.range n).filter fun r =>
          comp.getD r r == r && !(((List.range n).filter (fun y => comp.getD y y == r)).length == 1 && !T.contains r)).idxOf? (comp.getD q q) with
        | some k => some k
        | none => none) := by
    unfold autoLabels
    simp only [List.getD_eq_getElem?_getD, List.getElem?_map, List.getElem?_range hq, Option.map_some, Option.getD_some]
    rfl
  rw [hlab]
  have hr : cf comp q < n := hgood.rng q hq
  have hrr : cf comp (cf comp q) = cf comp q := hgood.idem q hq
  have hnone : ∀ (l : List Nat) (a : Nat), (match l.idxOf? a with | some k => some k | none => (none : Option Nat)) = none ↔ a ∉ l := by
    intro l a
    cases h : l.idxOf? a with
    | none => simp [List.idxOf?_eq_none_iff.1 h]
    | some k =>
      simp only [reduceCtorEq, false_iff, not_not]
      by_contra hn
      rw [List.idxOf?_eq_none_iff.2 hn] at h; cases h
  rw [hnone]
  simp only [List.mem_filter, List.mem_range, Bool.and_eq_true, beq_iff_eq, Bool.not_eq_true', Bool.and_eq_false_imp,
    Bool.not_eq_false']
  change ¬ (cf comp q < n ∧ cf comp (cf comp q) = cf comp q ∧ _) ↔ _
  constructor
  · intro h
    have h1 : ((List.range n).filter (fun y => comp.getD y y == cf comp q)).length = 1 ∧ T.contains (cf comp q) = false := by
      by_contra hc
      apply h
      refine ⟨hr, hrr, ?_⟩
      intro hlen
      by_contra hcon
      exact hc ⟨by simpa using hlen, by simpa using hcon⟩
    obtain ⟨hlen, hun⟩ := h1
    have hqL : q ∈ (List.range n).filter (fun y => comp.getD y y == cf comp q) := by
      simp [List.mem_filter, hq, cf]
    have hrL : cf comp q ∈ (List.range n).filter (fun y => comp.getD y y == cf comp q) := by
      simp only [List.mem_filter, List.mem_range, beq_iff_eq]; exact ⟨hr, hrr⟩
    obtain ⟨a, ha⟩ := List.length_eq_one_iff.1 hlen
    rw [ha] at hqL hrL
    have e1 : q = a := by simpa using hqL
    have e2 : cf comp q = a := by simpa using hrL
    have hqr : cf comp q = q := by rw [e2, e1]
    intro i hi hqi
    have : q ∈ T := (hTmem q).2 ⟨i, hi, hqi⟩
    rw [hqr] at hun
    simp at hun
    exact hun this
  · intro hidle
    have hqT : q ∉ T := fun hm => by
      obtain ⟨i, hi, hqi⟩ := (hTmem q).1 hm
      exact hidle i hi hqi
    obtain ⟨hself, honly⟩ := hgood.iso q hq hqT
    rintro ⟨_, _, h3⟩
    have hself' : comp.getD q q = q := hself
    rw [hself'] at h3
    have hL : (List.range n).filter (fun y => comp.getD y y == q) = [q] := by
      have : (List.range n).filter (fun y => comp.getD y y == q) = (List.range n).filter (fun y => y == q) := by
        apply List.filter_congr
        intro y hy
        have hy' := List.mem_range.1 hy
        by_cases e : y = q
        · rw [e]; show (comp.getD q q == q) = (q == q); rw [hself']
        · have : comp.getD y y ≠ q := fun h => e (honly y hy' h)
          show (comp.getD y y == q) = (y == q)
          rw [beq_eq_false_iff_ne.2 this, beq_eq_false_iff_ne.2 e]
      rw [this]
      exact filter_eq_range n q hq
    have := h3 (by rw [hL]; rfl)
    have hc : q ∈ T := by simpa using this
    exact hqT hc

end CKT.C10
