import CKT.Props.C10
/-!
# C10 — T10.3: automatic labelling drops exactly the idle qubits

`autoLabels_none_iff`: the label of qubit `q` is `None` iff no instruction of the circuit acts on `q` (ignored instructions —
pre-placed cut gates in `partition_problem` — count as acting on their qubits, although they do not connect them).
The proof carries three invariants of the label-propagation table through every step of every sweep (`GoodComp`: values stay
in range, the table is idempotent, an untouched qubit is its own component and nobody else's).
-/
namespace CKT.C10
open CKT

/-- component id of qubit `x` under the table `comp` -/
abbrev cf (comp : List Nat) (x : Nat) : Nat := comp.getD x x

/-- invariants of the label-propagation table with respect to the set `T` of touched qubits -/
structure GoodComp (n : Nat) (T : List Nat) (comp : List Nat) : Prop where
  len : comp.length = n
  rng : ∀ x, x < n → cf comp x < n
  idem : ∀ x, x < n → cf comp (cf comp x) = cf comp x
  iso : ∀ x, x < n → x ∉ T → cf comp x = x ∧ ∀ y, y < n → cf comp y = x → y = x

theorem cf_range (n x : Nat) : cf (List.range n) x = x := by
  unfold cf
  by_cases h : x < n
  · simp [List.getD_eq_getElem?_getD, List.getElem?_range h]
  · have : (List.range n)[x]? = none := List.getElem?_eq_none (by simp; omega)
    simp [List.getD_eq_getElem?_getD, this]

theorem good_init (n : Nat) (T : List Nat) : GoodComp n T (List.range n) :=
  ⟨by simp, fun x hx => by rw [cf_range]; exact hx, fun x _ => by rw [cf_range, cf_range],
   fun x _ _ => ⟨cf_range n x, fun y _ hy => by rw [cf_range] at hy; exact hy⟩⟩

theorem cf_map (comp : List Nat) (f : Nat → Nat) (x : Nat) (hx : x < comp.length) : cf (comp.map f) x = f (cf comp x) := by
  simp [cf, List.getD_eq_getElem?_getD, List.getElem?_map, List.getElem?_eq_getElem hx]

/-- one instruction of one sweep -/
def sweepStep (comp : List Nat) (qs : List Nat) : List Nat :=
  let ids := qs.map (fun q => comp.getD q q)
  match ids.min? with
  | none => comp
  | some m => comp.map (fun c => if ids.contains c then m else c)

theorem sweep_eq (instrs : List (List Nat)) (comp : List Nat) : sweep instrs comp = instrs.foldl sweepStep comp := rfl

theorem good_step (n : Nat) (T : List Nat) (comp qs : List Nat) (hg : GoodComp n T comp)
    (hq : ∀ q ∈ qs, q < n ∧ q ∈ T) : GoodComp n T (sweepStep comp qs) := by
  unfold sweepStep
  simp only
  cases hm : (qs.map (fun q => comp.getD q q)).min? with
  | none => exact hg
  | some m =>
    simp only
    set ids := qs.map (fun q => comp.getD q q) with hids
    have hmem : m ∈ ids := List.min?_mem hm
    have hids_lt : ∀ c ∈ ids, c < n := by
      intro c hc
      obtain ⟨q, hq', rfl⟩ := List.mem_map.1 hc
      exact hg.rng q (hq q hq').1
    have hids_root : ∀ c ∈ ids, cf comp c = c := by
      intro c hc
      obtain ⟨q, hq', rfl⟩ := List.mem_map.1 hc
      exact hg.idem q (hq q hq').1
    have hcf : ∀ x, x < n → cf (comp.map fun c => if ids.contains c then m else c) x = if ids.contains (cf comp x) then m else cf comp x :=
      fun x hx => cf_map comp _ x (by rw [hg.len]; exact hx)
    refine ⟨by simp [hg.len], ?_, ?_, ?_⟩
    · intro x hx
      rw [hcf x hx]
      split
      · exact hids_lt m hmem
      · exact hg.rng x hx
    · intro x hx
      rw [hcf x hx]
      by_cases h : ids.contains (cf comp x) = true
      · simp only [h, if_true]
        rw [hcf m (hids_lt m hmem), hids_root m hmem]
        simp [hmem]
      · have h' : ids.contains (cf comp x) = false := by simpa using h
        simp only [h', Bool.false_eq_true, if_false]
        rw [hcf _ (hg.rng x hx), hg.idem x hx, h']
        simp
    · intro x hx hxT
      obtain ⟨hself, honly⟩ := hg.iso x hx hxT
      have hx_not : x ∉ ids := by
        intro hc
        obtain ⟨q, hq', e⟩ := List.mem_map.1 hc
        have := honly q (hq q hq').1 e
        subst this
        exact hxT (hq q hq').2
      have hxc : ids.contains x = false := by simpa using hx_not
      refine ⟨by rw [hcf x hx, hself, hxc]; simp, ?_⟩
      intro y hy hyx
      rw [hcf y hy] at hyx
      by_cases h : ids.contains (cf comp y) = true
      · simp only [h, if_true] at hyx
        rw [hyx] at hmem; exact absurd hmem hx_not
      · have h' : ids.contains (cf comp y) = false := by simpa using h
        simp only [h', Bool.false_eq_true, if_false] at hyx
        exact honly y hy hyx

theorem good_sweep (n : Nat) (T : List Nat) : ∀ (instrs : List (List Nat)) (comp : List Nat), GoodComp n T comp →
    (∀ qs ∈ instrs, ∀ q ∈ qs, q < n ∧ q ∈ T) → GoodComp n T (sweep instrs comp) := by
  intro instrs
  induction instrs with
  | nil => intro comp hg _; exact hg
  | cons qs rest ih =>
    intro comp hg h
    rw [sweep_eq, List.foldl_cons, ← sweep_eq]
    exact ih _ (good_step n T comp qs hg (h qs (by simp))) (fun qs' hqs' => h qs' (List.mem_cons_of_mem _ hqs'))

theorem good_components (n : Nat) (T : List Nat) (instrs : List (List Nat))
    (h : ∀ qs ∈ instrs, ∀ q ∈ qs, q < n ∧ q ∈ T) : GoodComp n T (components n instrs) := by
  unfold components
  have gen : ∀ (l : List Nat) (comp : List Nat), GoodComp n T comp →
      GoodComp n T (l.foldl (fun comp _ => sweep instrs comp) comp) := by
    intro l
    induction l with
    | nil => intro comp hg; exact hg
    | cons _ l ih => intro comp hg; exact ih _ (good_sweep n T instrs comp hg h)
  exact gen _ _ (good_init n T)

theorem filter_eq_range (n q : Nat) (h : q < n) : (List.range n).filter (fun y => y == q) = [q] := by
  induction n with
  | zero => omega
  | succ n ih =>
    rw [List.range_succ, List.filter_append]
    by_cases hq : q < n
    · have : n ≠ q := by omega
      simp [ih hq, this]
    · have hqn : q = n := by omega
      subst hqn
      have : (List.range q).filter (fun y => y == q) = [] := by
        rw [List.filter_eq_nil_iff]
        intro y hy
        have := List.mem_range.1 hy
        simp; omega
      simp [this]

/-- **T10.3** automatic labelling gives label `None` to exactly the idle qubits (those no instruction acts on, whether or
not the instruction is ignored for connectivity) -/
theorem autoLabels_none_iff (n : Nat) (instrs : List Instr) (ignore : Instr → Bool)
    (hrange : ∀ i ∈ instrs, ∀ q ∈ i.qubits, q < n) (q : Nat) (hq : q < n) :
    (autoLabels n instrs ignore).getD q none = none ↔ ∀ i ∈ instrs, q ∉ i.qubits := by
  set T : List Nat := (instrs.map (·.qubits)).flatten with hT
  have hTmem : ∀ x, x ∈ T ↔ ∃ i ∈ instrs, x ∈ i.qubits := by
    intro x; simp [hT, List.mem_flatten]
  set cinstrs := (instrs.filter (fun i => !ignore i)).map (·.qubits) with hc
  have hgood : GoodComp n T (components n cinstrs) := by
    apply good_components
    intro qs hqs x hx
    obtain ⟨i, hi, rfl⟩ := List.mem_map.1 hqs
    have hi' := (List.mem_filter.1 hi).1
    exact ⟨hrange i hi' x hx, (hTmem x).2 ⟨i, hi', hx⟩⟩
  set comp := components n cinstrs with hcomp
  have hlab : (autoLabels n instrs ignore).getD q none =
      (match ((List.range n).filter fun r =>
          comp.getD r r == r && !(((List.range n).filter (fun y => comp.getD y y == r)).length == 1 && !T.contains r)).idxOf? (comp.getD q q) with
        | some k => some k
        | none => none) := by
    unfold autoLabels
    simp only [List.getD_eq_getElem?_getD, List.getElem?_map, List.getElem?_range hq, Option.map_some, Option.getD_some]
    rfl
  rw [hlab]
  have hr : cf comp q < n := hgood.rng q hq
  have hrr : cf comp (cf comp q) = cf comp q := hgood.idem q hq
  have hnone : ∀ (l : List Nat) (a : Nat), (match l.idxOf? a with | some k => some k | none => (none : Option Nat)) = none ↔ a ∉ l := by
    intro l a
    cases h : l.idxOf? a with
    | none => simp [List.idxOf?_eq_none_iff.1 h]
    | some k =>
      simp only [reduceCtorEq, false_iff, not_not]
      by_contra hn
      rw [List.idxOf?_eq_none_iff.2 hn] at h; cases h
  rw [hnone]
  simp only [List.mem_filter, List.mem_range, Bool.and_eq_true, beq_iff_eq, Bool.not_eq_true', Bool.and_eq_false_imp,
    Bool.not_eq_false']
  change ¬ (cf comp q < n ∧ cf comp (cf comp q) = cf comp q ∧ _) ↔ _
  constructor
  · intro h
    have h1 : ((List.range n).filter (fun y => comp.getD y y == cf comp q)).length = 1 ∧ T.contains (cf comp q) = false := by
      by_contra hc
      apply h
      refine ⟨hr, hrr, ?_⟩
      intro hlen
      by_contra hcon
      exact hc ⟨by simpa using hlen, by simpa using hcon⟩
    obtain ⟨hlen, hun⟩ := h1
    have hqL : q ∈ (List.range n).filter (fun y => comp.getD y y == cf comp q) := by
      simp [List.mem_filter, hq, cf]
    have hrL : cf comp q ∈ (List.range n).filter (fun y => comp.getD y y == cf comp q) := by
      simp only [List.mem_filter, List.mem_range, beq_iff_eq]; exact ⟨hr, hrr⟩
    obtain ⟨a, ha⟩ := List.length_eq_one_iff.1 hlen
    rw [ha] at hqL hrL
    have e1 : q = a := by simpa using hqL
    have e2 : cf comp q = a := by simpa using hrL
    have hqr : cf comp q = q := by rw [e2, e1]
    intro i hi hqi
    have : q ∈ T := (hTmem q).2 ⟨i, hi, hqi⟩
    rw [hqr] at hun
    simp at hun
    exact hun this
  · intro hidle
    have hqT : q ∉ T := fun hm => by
      obtain ⟨i, hi, hqi⟩ := (hTmem q).1 hm
      exact hidle i hi hqi
    obtain ⟨hself, honly⟩ := hgood.iso q hq hqT
    rintro ⟨_, _, h3⟩
    have hself' : comp.getD q q = q := hself
    rw [hself'] at h3
    have hL : (List.range n).filter (fun y => comp.getD y y == q) = [q] := by
      have : (List.range n).filter (fun y => comp.getD y y == q) = (List.range n).filter (fun y => y == q) := by
        apply List.filter_congr
        intro y hy
        have hy' := List.mem_range.1 hy
        by_cases e : y = q
        · rw [e]; show (comp.getD q q == q) = (q == q); rw [hself']
        · have : comp.getD y y ≠ q := fun h => e (honly y hy' h)
          show (comp.getD y y == q) = (y == q)
          rw [beq_eq_false_iff_ne.2 this, beq_eq_false_iff_ne.2 e]
      rw [this]
      exact filter_eq_range n q hq
    have := h3 (by rw [hL]; rfl)
    have hc : q ∈ T := by simpa using this
    exact hqT hc


/-! ## soundness of the components -/

/-- connected through instructions: equivalence closure of "occur in the same instruction" -/
inductive Conn (instrs : List (List Nat)) : Nat → Nat → Prop
  | refl (x : Nat) : Conn instrs x x
  | edge (qs : List Nat) (a b : Nat) : qs ∈ instrs → a ∈ qs → b ∈ qs → Conn instrs a b
  | symm {a b : Nat} : Conn instrs a b → Conn instrs b a
  | trans {a b c : Nat} : Conn instrs a b → Conn instrs b c → Conn instrs a c

/-- every qubit is connected to its component id -/
def ConnInv (n : Nat) (instrs : List (List Nat)) (comp : List Nat) : Prop :=
  comp.length = n ∧ ∀ x, x < n → Conn instrs x (cf comp x)

theorem conn_step (n : Nat) (instrs : List (List Nat)) (comp qs : List Nat) (h : ConnInv n instrs comp)
    (hqs : qs ∈ instrs) (hq : ∀ q ∈ qs, q < n) : ConnInv n instrs (sweepStep comp qs) := by
  unfold sweepStep
  simp only
  cases hm : (qs.map (fun q => comp.getD q q)).min? with
  | none => exact h
  | some m =>
    simp only
    refine ⟨by simp [h.1], ?_⟩
    intro x hx
    rw [cf_map comp _ x (by rw [h.1]; exact hx)]
    by_cases hc : (qs.map (fun q => comp.getD q q)).contains (cf comp x) = true
    · simp only [hc, if_true]
      have hmem : m ∈ qs.map (fun q => comp.getD q q) := List.min?_mem hm
      obtain ⟨q0, hq0, e0⟩ := List.mem_map.1 hmem
      have hcm : cf comp x ∈ qs.map (fun q => comp.getD q q) := by simpa using hc
      obtain ⟨q1, hq1, e1⟩ := List.mem_map.1 hcm
      -- x ~ cf x = cf q1 ~ q1 ~ q0 ~ cf q0 = m
      have c1 : Conn instrs x (cf comp x) := h.2 x hx
      have c2 : Conn instrs q1 (cf comp q1) := h.2 q1 (hq q1 hq1)
      have c3 : Conn instrs q1 q0 := Conn.edge qs q1 q0 hqs hq1 hq0
      have c4 : Conn instrs q0 (cf comp q0) := h.2 q0 (hq q0 hq0)
      have e1' : cf comp q1 = cf comp x := e1
      have e0' : cf comp q0 = m := e0
      rw [e1'] at c2
      rw [e0'] at c4
      exact (c1.trans c2.symm).trans (c3.trans c4)
    · have hc' : (qs.map (fun q => comp.getD q q)).contains (cf comp x) = false := by simpa using hc
      simp only [hc', Bool.false_eq_true, if_false]
      exact h.2 x hx

theorem conn_sweep (n : Nat) (all : List (List Nat)) : ∀ (instrs : List (List Nat)) (comp : List Nat), ConnInv n all comp →
    (∀ qs ∈ instrs, qs ∈ all ∧ ∀ q ∈ qs, q < n) → ConnInv n all (sweep instrs comp) := by
  intro instrs
  induction instrs with
  | nil => intro comp h _; exact h
  | cons qs rest ih =>
    intro comp h hall
    rw [sweep_eq, List.foldl_cons, ← sweep_eq]
    exact ih _ (conn_step n all comp qs h (hall qs (by simp)).1 (hall qs (by simp)).2)
      (fun qs' hqs' => hall qs' (List.mem_cons_of_mem _ hqs'))

theorem conn_components (n : Nat) (instrs : List (List Nat)) (h : ∀ qs ∈ instrs, ∀ q ∈ qs, q < n) :
    ConnInv n instrs (components n instrs) := by
  unfold components
  have gen : ∀ (l : List Nat) (comp : List Nat), ConnInv n instrs comp →
      ConnInv n instrs (l.foldl (fun comp _ => sweep instrs comp) comp) := by
    intro l
    induction l with
    | nil => intro comp hg; exact hg
    | cons _ l ih => intro comp hg; exact ih _ (conn_sweep n instrs instrs comp hg (fun qs hqs => ⟨hqs, h qs hqs⟩))
  exact gen _ _ ⟨by simp, fun x _ => by rw [cf_range]; exact Conn.refl x⟩

/-- **T10.3 (soundness of the components)** two qubits that receive the same automatic label are connected through the
instructions that are not ignored -/
theorem autoLabels_same_connected (n : Nat) (instrs : List Instr) (ignore : Instr → Bool)
    (hrange : ∀ i ∈ instrs, ∀ q ∈ i.qubits, q < n) (x y k : Nat) (hx : x < n) (hy : y < n)
    (hlx : (autoLabels n instrs ignore).getD x none = some k) (hly : (autoLabels n instrs ignore).getD y none = some k) :
    Conn ((instrs.filter (fun i => !ignore i)).map (·.qubits)) x y := by
  set cinstrs := (instrs.filter (fun i => !ignore i)).map (·.qubits) with hc
  have hci : ConnInv n cinstrs (components n cinstrs) := by
    apply conn_components
    intro qs hqs q hq
    obtain ⟨i, hi, rfl⟩ := List.mem_map.1 hqs
    exact hrange i (List.mem_filter.1 hi).1 q hq
  set comp := components n cinstrs with hcomp
  set roots := (List.range n).filter fun r =>
    comp.getD r r == r && !(((List.range n).filter (fun y => comp.getD y y == r)).length == 1 &&
      !((instrs.map (·.qubits)).flatten).contains r) with hroots
  have hlab : ∀ z, z < n → (autoLabels n instrs ignore).getD z none =
      (match roots.idxOf? (comp.getD z z) with | some k => some k | none => none) := by
    intro z hz
    unfold autoLabels
    simp only [List.getD_eq_getElem?_getD, List.getElem?_map, List.getElem?_range hz, Option.map_some, Option.getD_some]
    rfl
  rw [hlab x hx] at hlx
  rw [hlab y hy] at hly
  have hkx : roots.idxOf? (comp.getD x x) = some k := by
    cases h : roots.idxOf? (comp.getD x x) with
    | none => rw [h] at hlx; cases hlx
    | some k' => rw [h] at hlx; exact hlx
  have hky : roots.idxOf? (comp.getD y y) = some k := by
    cases h : roots.idxOf? (comp.getD y y) with
    | none => rw [h] at hly; cases hly
    | some k' => rw [h] at hly; exact hly
  have heq : comp.getD x x = comp.getD y y := by
    have h1 := List.idxOf?_eq_some_iff.1 hkx
    have h2 := List.idxOf?_eq_some_iff.1 hky
    obtain ⟨hk1, e1, _⟩ := h1
    obtain ⟨hk2, e2, _⟩ := h2
    rw [← e1, ← e2]
  have cx := hci.2 x hx
  have cy := hci.2 y hy
  have : cf comp x = cf comp y := heq
  rw [this] at cx
  exact cx.trans cy.symm


/-! ## completeness of the components: `n` sweeps reach a stable table -/

/-- number of component ids in use (fixed points of the table) -/
def rootsCount (n : Nat) (comp : List Nat) : Nat := (List.range n).countP (fun x => cf comp x == x)

theorem countP_lt_of {α : Type} (p p' : α → Bool) : ∀ (l : List α), (∀ x ∈ l, p' x = true → p x = true) →
    (∃ a ∈ l, p a = true ∧ p' a = false) → l.countP p' < l.countP p := by
  intro l
  induction l with
  | nil => intro _ ⟨a, ha, _⟩; cases ha
  | cons x l ih =>
    intro himp ⟨a, ha, hpa, hpa'⟩
    have hle : l.countP p' ≤ l.countP p := by
      apply List.countP_mono_left
      intro y hy h; exact himp y (List.mem_cons_of_mem _ hy) h
    simp only [List.countP_cons]
    rcases List.mem_cons.1 ha with rfl | hal
    · simp [hpa, hpa']; omega
    · have := ih (fun y hy => himp y (List.mem_cons_of_mem _ hy)) ⟨a, hal, hpa, hpa'⟩
      by_cases h1 : p' x = true
      · have := himp x (by simp) h1
        simp [h1, this]; omega
      · by_cases h2 : p x = true <;> simp [h1, h2] <;> omega

/-- a step either leaves the table as it is or merges at least two components -/
theorem step_count (n : Nat) (T : List Nat) (comp qs : List Nat) (hg : GoodComp n T comp) (hq : ∀ q ∈ qs, q < n ∧ q ∈ T) :
    sweepStep comp qs = comp ∨ rootsCount n (sweepStep comp qs) < rootsCount n comp := by
  unfold sweepStep
  simp only
  cases hm : (qs.map (fun q => comp.getD q q)).min? with
  | none => exact Or.inl rfl
  | some m =>
    simp only
    set ids := qs.map (fun q => comp.getD q q) with hids
    have hmem : m ∈ ids := List.min?_mem hm
    have hids_lt : ∀ c ∈ ids, c < n := by
      intro c hc
      obtain ⟨q, hq', rfl⟩ := List.mem_map.1 hc
      exact hg.rng q (hq q hq').1
    have hids_root : ∀ c ∈ ids, cf comp c = c := by
      intro c hc
      obtain ⟨q, hq', rfl⟩ := List.mem_map.1 hc
      exact hg.idem q (hq q hq').1
    have hcf : ∀ x, x < n → cf (comp.map fun c => if ids.contains c then m else c) x = if ids.contains (cf comp x) then m else cf comp x :=
      fun x hx => cf_map comp _ x (by rw [hg.len]; exact hx)
    by_cases hall : ∀ c ∈ ids, c = m
    · left
      apply List.ext_getElem
      · simp
      · intro i h1 h2
        simp only [List.getElem_map]
        split
        · rename_i hc
          exact (hall _ (by simpa using hc)).symm
        · rfl
    · right
      simp only [not_forall] at hall
      obtain ⟨c, hc', hcm⟩ := hall
      have hc := hc'
      unfold rootsCount
      apply countP_lt_of
      · intro x hx h
        have hx' := List.mem_range.1 hx
        simp only [beq_iff_eq] at h ⊢
        rw [hcf x hx'] at h
        by_cases hcx : ids.contains (cf comp x) = true
        · simp only [hcx, if_true] at h
          rw [← h]; exact hids_root m hmem
        · have : ids.contains (cf comp x) = false := by simpa using hcx
          simp only [this, Bool.false_eq_true, if_false] at h
          exact h
      · refine ⟨c, List.mem_range.2 (hids_lt c hc), by simpa using hids_root c hc, ?_⟩
        have hcc : ids.contains (cf comp c) = true := by rw [hids_root c hc]; simpa using hc
        simp only [beq_eq_false_iff_ne, ne_eq]
        rw [hcf c (hids_lt c hc), hcc]
        simp only [if_true]
        exact fun e => hcm e.symm

/-- the table is stable: no instruction changes it any more -/
def Stable (instrs : List (List Nat)) (comp : List Nat) : Prop := ∀ qs ∈ instrs, sweepStep comp qs = comp

theorem sweep_stable (instrs : List (List Nat)) (comp : List Nat) (h : Stable instrs comp) : sweep instrs comp = comp := by
  rw [sweep_eq]
  have gen : ∀ (l : List (List Nat)), (∀ qs ∈ l, sweepStep comp qs = comp) → l.foldl sweepStep comp = comp := by
    intro l
    induction l with
    | nil => intro _; rfl
    | cons qs l ih =>
      intro hl
      rw [List.foldl_cons, hl qs (by simp)]
      exact ih (fun qs' hq' => hl qs' (List.mem_cons_of_mem _ hq'))
  exact gen instrs h

/-- one sweep: the number of components never grows, and it shrinks unless the table was already stable -/
theorem sweep_count (n : Nat) (T : List Nat) (all : List (List Nat)) (hall : ∀ qs ∈ all, ∀ q ∈ qs, q < n ∧ q ∈ T) :
    ∀ (instrs : List (List Nat)) (comp : List Nat), GoodComp n T comp → (∀ qs ∈ instrs, qs ∈ all) →
      rootsCount n (sweep instrs comp) ≤ rootsCount n comp ∧
      ((∀ qs ∈ instrs, sweepStep comp qs = comp) ∨ rootsCount n (sweep instrs comp) < rootsCount n comp) := by
  intro instrs
  induction instrs with
  | nil => intro comp _ _; exact ⟨le_refl _, Or.inl (fun qs h => by cases h)⟩
  | cons qs rest ih =>
    intro comp hg hsub
    have hqs := hall qs (hsub qs (by simp))
    have hg' := good_step n T comp qs hg hqs
    have hrest : ∀ qs' ∈ rest, qs' ∈ all := fun qs' h => hsub qs' (List.mem_cons_of_mem _ h)
    obtain ⟨hle, hor⟩ := ih (sweepStep comp qs) hg' hrest
    rw [sweep_eq, List.foldl_cons, ← sweep_eq]
    rcases step_count n T comp qs hg hqs with hsame | hlt
    · rw [hsame] at hle hor ⊢
      refine ⟨hle, ?_⟩
      rcases hor with hs | hl
      · left
        intro qs' hq'
        rcases List.mem_cons.1 hq' with rfl | hq'
        · exact hsame
        · exact hs qs' hq'
      · exact Or.inr hl
    · exact ⟨le_trans hle (le_of_lt hlt), Or.inr (lt_of_le_of_lt hle hlt)⟩

/-- after `n` sweeps the table is stable -/
theorem components_stable (n : Nat) (T : List Nat) (instrs : List (List Nat))
    (h : ∀ qs ∈ instrs, ∀ q ∈ qs, q < n ∧ q ∈ T) : Stable instrs (components n instrs) := by
  unfold components
  have gen : ∀ (k : Nat) (l : List Nat), l.length = k →
      GoodComp n T (l.foldl (fun comp _ => sweep instrs comp) (List.range n)) ∧
      (Stable instrs (l.foldl (fun comp _ => sweep instrs comp) (List.range n)) ∨
        rootsCount n (l.foldl (fun comp _ => sweep instrs comp) (List.range n)) + k ≤ n) := by
    intro k
    induction k with
    | zero =>
      intro l hl
      have : l = [] := List.length_eq_zero_iff.1 hl
      subst this
      refine ⟨good_init n T, Or.inr ?_⟩
      simp only [List.foldl_nil, rootsCount, Nat.add_zero]
      exact le_trans (List.countP_le_length) (by simp)
    | succ k ih =>
      intro l hl
      obtain ⟨l', a, rfl⟩ : ∃ l' a, l = l' ++ [a] := by
        rcases List.eq_nil_or_concat l with rfl | ⟨l', a, rfl⟩
        · simp at hl
        · exact ⟨l', a, by simp⟩
      have hl' : l'.length = k := by simpa using hl
      obtain ⟨hg, hor⟩ := ih l' hl'
      rw [List.foldl_append]
      simp only [List.foldl_cons, List.foldl_nil]
      set c := l'.foldl (fun comp _ => sweep instrs comp) (List.range n) with hc
      have hg' := good_sweep n T instrs c hg h
      refine ⟨hg', ?_⟩
      rcases hor with hs | hcnt
      · left; rw [sweep_stable instrs c hs]; exact hs
      · obtain ⟨hle, hor2⟩ := sweep_count n T instrs h instrs c hg (fun qs hq => hq)
        rcases hor2 with hs | hlt
        · left; rw [sweep_stable instrs c hs]; exact hs
        · right; omega
  obtain ⟨hg, hor⟩ := gen n (List.range n) (by simp)
  rcases hor with hs | hcnt
  · exact hs
  · -- no component left: impossible unless there is no qubit at all
    by_cases hn : n = 0
    · subst hn
      intro qs hqs
      have hempty : qs = [] := by
        cases qs with
        | nil => rfl
        | cons q _ => exact absurd (h _ hqs q (by simp)).1 (by omega)
      subst hempty
      simp [sweepStep]
    · exfalso
      have h0 : 0 < n := Nat.pos_of_ne_zero hn
      set c := (List.range n).foldl (fun comp _ => sweep instrs comp) (List.range n) with hc
      have hroot : cf c (cf c 0) = cf c 0 := hg.idem 0 h0
      have hlt : cf c 0 < n := hg.rng 0 h0
      have : 0 < rootsCount n c := by
        unfold rootsCount
        rw [List.countP_pos_iff]
        exact ⟨cf c 0, List.mem_range.2 hlt, by simpa using hroot⟩
      omega

theorem stable_ids (n : Nat) (T : List Nat) (comp qs : List Nat) (hg : GoodComp n T comp) (hq : ∀ q ∈ qs, q < n ∧ q ∈ T)
    (hs : sweepStep comp qs = comp) : ∀ a ∈ qs, ∀ b ∈ qs, cf comp a = cf comp b := by
  unfold sweepStep at hs
  simp only at hs
  cases hm : (qs.map (fun q => comp.getD q q)).min? with
  | none =>
    intro a ha
    have : qs.map (fun q => comp.getD q q) = [] := by simpa using hm
    have : qs = [] := by simpa using this
    subst this; cases ha
  | some m =>
    rw [hm] at hs
    simp only at hs
    have key : ∀ a ∈ qs, cf comp a = m := by
      intro a ha
      by_contra hne
      have halt : cf comp a < n := hg.rng a (hq a ha).1
      have hroot : cf comp (cf comp a) = cf comp a := hg.idem a (hq a ha).1
      have hlen : cf comp a < comp.length := by rw [hg.len]; exact halt
      have h1 : cf (comp.map fun c => if (qs.map (fun q => comp.getD q q)).contains c then m else c) (cf comp a) = cf comp (cf comp a) :=
        congrArg (fun l => cf l (cf comp a)) hs
      rw [cf_map comp _ _ hlen, hroot] at h1
      have hc : (qs.map (fun q => comp.getD q q)).contains (cf comp a) = true := by
        simp only [List.contains_eq_mem, List.mem_map, decide_eq_true_eq]
        exact ⟨a, ha, rfl⟩
      simp only [hc, if_true] at h1
      exact hne h1.symm
    intro a ha b hb
    rw [key a ha, key b hb]

theorem conn_same_id (n : Nat) (T : List Nat) (instrs : List (List Nat)) (comp : List Nat) (hg : GoodComp n T comp)
    (h : ∀ qs ∈ instrs, ∀ q ∈ qs, q < n ∧ q ∈ T) (hs : Stable instrs comp) :
    ∀ a b, Conn instrs a b → cf comp a = cf comp b := by
  intro a b hc
  induction hc with
  | refl x => rfl
  | edge qs a b hqs ha hb => exact stable_ids n T comp qs hg (h qs hqs) (hs qs hqs) a ha b hb
  | symm _ ih => exact ih.symm
  | trans _ _ ih1 ih2 => exact ih1.trans ih2

/-- **T10.3 (completeness of the components)** qubits connected through the non-ignored instructions get the same automatic label -/
theorem autoLabels_connected_same (n : Nat) (instrs : List Instr) (ignore : Instr → Bool)
    (hrange : ∀ i ∈ instrs, ∀ q ∈ i.qubits, q < n) (x y : Nat) (hx : x < n) (hy : y < n)
    (hc : Conn ((instrs.filter (fun i => !ignore i)).map (·.qubits)) x y) :
    (autoLabels n instrs ignore).getD x none = (autoLabels n instrs ignore).getD y none := by
  set cinstrs := (instrs.filter (fun i => !ignore i)).map (·.qubits) with hci
  set T : List Nat := (instrs.map (·.qubits)).flatten with hT
  have hin : ∀ qs ∈ cinstrs, ∀ q ∈ qs, q < n ∧ q ∈ T := by
    intro qs hqs q hq
    obtain ⟨i, hi, rfl⟩ := List.mem_map.1 hqs
    have hi' := (List.mem_filter.1 hi).1
    exact ⟨hrange i hi' q hq, by simp only [hT, List.mem_flatten, List.mem_map]; exact ⟨i.qubits, ⟨i, hi', rfl⟩, hq⟩⟩
  have hg := good_components n T cinstrs hin
  have hs := components_stable n T cinstrs hin
  have heq := conn_same_id n T cinstrs _ hg hin hs x y hc
  have hlab : ∀ z, z < n → (autoLabels n instrs ignore).getD z none =
      (match ((List.range n).filter fun r =>
          (components n cinstrs).getD r r == r && !(((List.range n).filter (fun y => (components n cinstrs).getD y y == r)).length == 1 &&
            !T.contains r)).idxOf? ((components n cinstrs).getD z z) with | some k => some k | none => none) := by
    intro z hz
    unfold autoLabels
    simp only [List.getD_eq_getElem?_getD, List.getElem?_map, List.getElem?_range hz, Option.map_some, Option.getD_some]
    rfl
  rw [hlab x hx, hlab y hy]
  have : (components n cinstrs).getD x x = (components n cinstrs).getD y y := heq
  rw [this]

/-! ## automatic separation never refuses -/

theorem mem_splitBarriersGo : ∀ (l : List Instr) (k : Nat) (i : Instr), i ∈ splitBarriersGo l k →
    (i ∈ l ∧ ¬ (isBarrier i = true ∧ i.qubits.length ≠ 1)) ∨ (∃ b ∈ l, ∃ q ∈ b.qubits, i.qubits = [q]) := by
  intro l
  induction l with
  | nil => intro k i h; cases h
  | cons x rest ih =>
    intro k i h
    simp only [splitBarriersGo] at h
    split at h
    · rcases List.mem_append.1 h with h | h
      · obtain ⟨q, hq, rfl⟩ := List.mem_map.1 h
        exact Or.inr ⟨x, by simp, q, hq, rfl⟩
      · rcases ih _ i h with ⟨h1, h2⟩ | ⟨b, hb, q, hq, e⟩
        · exact Or.inl ⟨List.mem_cons_of_mem _ h1, h2⟩
        · exact Or.inr ⟨b, List.mem_cons_of_mem _ hb, q, hq, e⟩
    · rename_i hx
      rcases List.mem_cons.1 h with rfl | h
      · refine Or.inl ⟨by simp, ?_⟩
        simpa using hx
      · rcases ih _ i h with ⟨h1, h2⟩ | ⟨b, hb, q, hq, e⟩
        · exact Or.inl ⟨List.mem_cons_of_mem _ h1, h2⟩
        · exact Or.inr ⟨b, List.mem_cons_of_mem _ hb, q, hq, e⟩

theorem uniq_all_eq {α : Type} [DecidableEq α] (a : α) : ∀ (l : List α), l ≠ [] → (∀ x ∈ l, x = a) → uniq l = [a] := by
  intro l
  induction l with
  | nil => intro h; exact absurd rfl h
  | cons x l ih =>
    intro _ hall
    have hx : x = a := hall x (by simp)
    subst hx
    simp only [uniq]
    by_cases hl : l = []
    · subst hl; simp [uniq]
    · rw [ih hl (fun y hy => hall y (List.mem_cons_of_mem _ hy))]
      simp

theorem checkAllLabels_of_all (labels : List Label) : ∀ (l : List Instr), (∀ i ∈ l, ∃ lab, instrLabel labels i = .ok lab) →
    checkAllLabels labels l = .ok () := by
  intro l
  induction l with
  | nil => intro _; rfl
  | cons x rest ih =>
    intro h
    obtain ⟨lab, hlab⟩ := h x (by simp)
    simp only [checkAllLabels, hlab]
    exact ih (fun i hi => h i (List.mem_cons_of_mem _ hi))

/-- **T10.3 (no spurious refusal)** with automatic labels `separate_circuit` always succeeds (qubit arguments in range; every
instruction other than a barrier acts on at least one qubit) -/
theorem separate_auto_ok (c : Circuit) (hr : ∀ i ∈ c.instrs, ∀ q ∈ i.qubits, q < c.nq)
    (hne : ∀ i ∈ c.instrs, isBarrier i = false → i.qubits ≠ []) : ∃ s, separateCircuit c none = .ok s := by
  set split := splitBarriers c.instrs with hsplit
  have hmem := fun i (hi : i ∈ split) => mem_splitBarriersGo c.instrs 0 i hi
  have hrs : ∀ i ∈ split, ∀ q ∈ i.qubits, q < c.nq := by
    intro i hi q hq
    rcases hmem i hi with ⟨h1, _⟩ | ⟨b, hb, q', hq', e⟩
    · exact hr i h1 q hq
    · rw [e] at hq; simp at hq; rw [hq]; exact hr b hb q' hq'
  have hnes : ∀ i ∈ split, i.qubits ≠ [] := by
    intro i hi
    rcases hmem i hi with ⟨h1, h2⟩ | ⟨b, hb, q', hq', e⟩
    · by_cases hb : isBarrier i = true
      · intro he
        apply h2
        exact ⟨hb, by rw [he]; simp⟩
      · exact hne i h1 (by simpa using hb)
    · rw [e]; simp
  set labels := autoLabels c.nq split (fun _ => false) with hlabels
  have hlen : labels.length = c.nq := by simp [hlabels, autoLabels]
  have hfilter : (split.filter (fun i => !(fun _ => false) i)) = split := by simp
  have hall : ∀ i ∈ split, ∃ lab, instrLabel labels i = .ok lab := by
    intro i hi
    -- label of the first qubit
    obtain ⟨q0, hq0⟩ : ∃ q0, q0 ∈ i.qubits := List.exists_mem_of_ne_nil _ (hnes i hi)
    have hsome : ∀ q ∈ i.qubits, labels.getD q none ≠ none := by
      intro q hq hnone
      have := (autoLabels_none_iff c.nq split (fun _ => false) hrs q (hrs i hi q hq)).1 hnone
      exact this i hi hq
    have hsame : ∀ q ∈ i.qubits, labels.getD q none = labels.getD q0 none := by
      intro q hq
      apply autoLabels_connected_same c.nq split (fun _ => false) hrs q q0 (hrs i hi q hq) (hrs i hi q0 hq0)
      rw [hfilter]
      exact Conn.edge i.qubits q q0 (List.mem_map.2 ⟨i, hi, rfl⟩) hq hq0
    cases hl0 : labels.getD q0 none with
    | none => exact absurd hl0 (hsome q0 hq0)
    | some l0 =>
      refine ⟨l0, ?_⟩
      unfold instrLabel
      have hany : (i.qubits.any fun q => (labels.getD q none).isNone) = false := by
        rw [List.any_eq_false]
        intro q hq
        rw [hsame q hq, hl0]; simp
      simp only [hany, Bool.false_eq_true, if_false]
      have hfm : i.qubits.filterMap (fun q => labels.getD q none) ≠ [] ∧
          ∀ x ∈ i.qubits.filterMap (fun q => labels.getD q none), x = l0 := by
        constructor
        · intro he
          have : l0 ∈ i.qubits.filterMap (fun q => labels.getD q none) := List.mem_filterMap.2 ⟨q0, hq0, hl0⟩
          rw [he] at this; cases this
        · intro x hx
          obtain ⟨q, hq, e⟩ := List.mem_filterMap.1 hx
          rw [hsame q hq, hl0] at e
          injection e with e; exact e.symm
      rw [uniq_all_eq l0 _ hfm.1 hfm.2]
  have hcheck := checkAllLabels_of_all labels split hall
  unfold separateCircuit
  simp only [← hsplit, ← hlabels, hlen, bne_self_eq_false, Bool.false_eq_true, if_false, hcheck]
  exact ⟨_, rfl⟩

end CKT.C10
