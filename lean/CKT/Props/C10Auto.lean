import CKT.Props.C10
/-!
# C10 — T10.3: automatic labelling drops exactly the idle qubits

`autoLabels_none_iff`: the label of qubit `q` is `None` iff no instruction of the circuit acts on `q` (ignored instructions —
pre-placed cut gates in `partition_problem` — count as acting on their qubits, although they do not connect them).
The proof carries three invariants of the label-propagation table through every step of every sweep (`GoodComp`: values stay
in range, the table is idempotent, an untouched qubit is its own component and nobody else's).
-/
namespace CKT.C10
open CKT

/-- component id of qubit `x` under the table `comp` -/
abbrev cf (comp : List Nat) (x : Nat) : Nat := comp.getD x x

/-- invariants of the label-propagation table with respect to the set `T` of touched qubits -/
structure GoodComp (n : Nat) (T : List Nat) (comp : List Nat) : Prop where
  len : comp.length = n
  rng : ∀ x, x < n → cf comp x < n
  idem : ∀ x, x < n → cf comp (cf comp x) = cf comp x
  iso : ∀ x, x < n → x ∉ T → cf comp x = x ∧ ∀ y, y < n → cf comp y = x → y = x

theorem cf_range (n x : Nat) : cf (List.range n) x = x := by
  unfold cf
  by_cases h : x < n
  · simp [List.getD_eq_getElem?_getD, List.getElem?_range h]
  · have : (List.range n)[x]? = none := List.getElem?_eq_none (by simp; omega)
    simp [List.getD_eq_getElem?_getD, this]

theorem good_init (n : Nat) (T : List Nat) : GoodComp n T (List.range n) :=
  ⟨by simp, fun x hx => by rw [cf_range]; exact hx, fun x _ => by rw [cf_range, cf_range],
   fun x _ _ => ⟨cf_range n x, fun y _ hy => by rw [cf_range] at hy; exact hy⟩⟩

theorem cf_map (comp : List Nat) (f : Nat → Nat) (x : Nat) (hx : x < comp.length) : cf (comp.map f) x = f (cf comp x) := by
  simp [cf, List.getD_eq_getElem?_getD, List.getElem?_map, List.getElem?_eq_getElem hx]

/-- one instruction of one sweep -/
def sweepStep (comp : List Nat) (qs : List Nat) : List Nat :=
  let ids := qs.map (fun q => comp.getD q q)
  match ids.min? with
  | none => comp
  | some m => comp.map (fun c => if ids.contains c then m else c)

theorem sweep_eq (instrs : List (List Nat)) (comp : List Nat) : sweep instrs comp = instrs.foldl sweepStep comp := rfl

theorem good_step (n : Nat) (T : List Nat) (comp qs : List Nat) (hg : GoodComp n T comp)
    (hq : ∀ q ∈ qs, q < n ∧ q ∈ T) : GoodComp n T (sweepStep comp qs) := by
  unfold sweepStep
  simp only
  cases hm : (qs.map (fun q => comp.getD q q)).min? with
  | none => exact hg
  | some m =>
    simp only
    set ids := qs.map (fun q => comp.getD q q) with hids
    have hmem : m ∈ ids := List.min?_mem hm
    have hids_lt : ∀ c ∈ ids, c < n := by
      intro c hc
      obtain ⟨q, hq', rfl⟩ := List.mem_map.1 hc
      exact hg.rng q (hq q hq').1
    have hids_root : ∀ c ∈ ids, cf comp c = c := by
      intro c hc
      obtain ⟨q, hq', rfl⟩ := List.mem_map.1 hc
      exact hg.idem q (hq q hq').1
    have hcf : ∀ x, x < n → cf (comp.map fun c => if ids.contains c then m else c) x = if ids.contains (cf comp x) then m else cf comp x :=
      fun x hx => cf_map comp _ x (by rw [hg.len]; exact hx)
    refine ⟨by simp [hg.len], ?_, ?_, ?_⟩
    · intro x hx
      rw [hcf x hx]
      split
      · exact hids_lt m hmem
      · exact hg.rng x hx
    · intro x hx
      rw [hcf x hx]
      by_cases h : ids.contains (cf comp x) = true
      · simp only [h, if_true]
        rw [hcf m (hids_lt m hmem), hids_root m hmem]
        simp [hmem]
      · have h' : ids.contains (cf comp x) = false := by simpa using h
        simp only [h', Bool.false_eq_true, if_false]
        rw [hcf _ (hg.rng x hx), hg.idem x hx, h']
        simp
    · intro x hx hxT
      obtain ⟨hself, honly⟩ := hg.iso x hx hxT
      have hx_not : x ∉ ids := by
        intro hc
        obtain ⟨q, hq', e⟩ := List.mem_map.1 hc
        have := honly q (hq q hq').1 e
        subst this
        exact hxT (hq q hq').2
      have hxc : ids.contains x = false := by simpa using hx_not
      refine ⟨by rw [hcf x hx, hself, hxc]; simp, ?_⟩
      intro y hy hyx
      rw [hcf y hy] at hyx
      by_cases h : ids.contains (cf comp y) = true
      · simp only [h, if_true] at hyx
        rw [hyx] at hmem; exact absurd hmem hx_not
      · have h' : ids.contains (cf comp y) = false := by simpa using h
        simp only [h', Bool.false_eq_true, if_false] at hyx
        exact honly y hy hyx

theorem good_sweep (n : Nat) (T : List Nat) : ∀ (instrs : List (List Nat)) (comp : List Nat), GoodComp n T comp →
    (∀ qs ∈ instrs, ∀ q ∈ qs, q < n ∧ q ∈ T) → GoodComp n T (sweep instrs comp) := by
  intro instrs
  induction instrs with
  | nil => intro comp hg _; exact hg
  | cons qs rest ih =>
    intro comp hg h
    rw [sweep_eq, List.foldl_cons, ← sweep_eq]
    exact ih _ (good_step n T comp qs hg (h qs (by simp))) (fun qs' hqs' => h qs' (List.mem_cons_of_mem _ hqs'))

theorem good_components (n : Nat) (T : List Nat) (instrs : List (List Nat))
    (h : ∀ qs ∈ instrs, ∀ q ∈ qs, q < n ∧ q ∈ T) : GoodComp n T (components n instrs) := by
  unfold components
  have gen : ∀ (l : List Nat) (comp : List Nat), GoodComp n T comp →
      GoodComp n T (l.foldl (fun comp _ => sweep instrs comp) comp) := by
    intro l
    induction l with
    | nil => intro comp hg; exact hg
    | cons _ l ih => intro comp hg; exact ih _ (good_sweep n T instrs comp hg h)
  exact gen _ _ (good_init n T)

theorem filter_eq_range (n q : Nat) (h : q < n) : (List.range n).filter (fun y => y == q) = [q] := by
  induction n with
  | zero => omega
  | succ n ih =>
    rw [List.range_succ, List.filter_append]
    by_cases hq : q < n
    · have : n ≠ q := by omega
      simp [ih hq, this]
    · have hqn : q = n := by omega
      subst hqn
      have : (List.range q).filter (fun y => y == q) = [] := by
        rw [List.filter_eq_nil_iff]
        intro y hy
        have := List.mem_range.1 hy
        simp; omega
      simp [this]

/-- **T10.3** automatic labelling gives label `None` to exactly the idle qubits (those no instruction acts on, whether or
not the instruction is ignored for connectivity) -/
theorem autoLabels_none_iff (n : Nat) (instrs : List Instr) (ignore : Instr → Bool)
    (hrange : ∀ i ∈ instrs, ∀ q ∈ i.qubits, q < n) (q : Nat) (hq : q < n) :
    (autoLabels n instrs ignore).getD q none = none ↔ ∀ i ∈ instrs, q ∉ i.qubits := by
  set T : List Nat := (instrs.map (·.qubits)).flatten with hT
  have hTmem : ∀ x, x ∈ T ↔ ∃ i ∈ instrs, x ∈ i.qubits := by
    intro x; simp [hT, List.mem_flatten]
  set cinstrs := (instrs.filter (fun i => !ignore i)).map (·.qubits) with hc
  have hgood : GoodComp n T (components n cinstrs) := by
    apply good_components
    intro qs hqs x hx
    obtain ⟨i, hi, rfl⟩ := List.mem_map.1 hqs
    have hi' := (List.mem_filter.1 hi).1
    exact ⟨hrange i hi' x hx, (hTmem x).2 ⟨i, hi', hx⟩⟩
  set comp := components n cinstrs with hcomp
  have hlab : (autoLabels n instrs ignore).getD q none =
      (match ((List.range n).filter fun r =>
          comp.getD r r == r && !(((List.range n).filter (fun y => comp.getD y y == r)).length == 1 && !T.contains r)).idxOf? (comp.getD q q) with
        | some k => some k
        | none => none) := by
    unfold autoLabels
    simp only [List.getD_eq_getElem?_getD, List.getElem?_map, List.getElem?_range hq, Option.map_some, Option.getD_some]
    rfl
  rw [hlab]
  have hr : cf comp q < n := hgood.rng q hq
  have hrr : cf comp (cf comp q) = cf comp q := hgood.idem q hq
  have hnone : ∀ (l : List Nat) (a : Nat), (match l.idxOf? a with | some k => some k | none => (none : Option Nat)) = none ↔ a ∉ l := by
    intro l a
    cases h : l.idxOf? a with
    | none => simp [List.idxOf?_eq_none_iff.1 h]
    | some k =>
      simp only [reduceCtorEq, false_iff, not_not]
      by_contra hn
      rw [List.idxOf?_eq_none_iff.2 hn] at h; cases h
  rw [hnone]
  simp only [List.mem_filter, List.mem_range, Bool.and_eq_true, beq_iff_eq, Bool.not_eq_true', Bool.and_eq_false_imp,
    Bool.not_eq_false']
  change ¬ (cf comp q < n ∧ cf comp (cf comp q) = cf comp q ∧ _) ↔ _
  constructor
  · intro h
    have h1 : ((List.range n).filter (fun y => comp.getD y y == cf comp q)).length = 1 ∧ T.contains (cf comp q) = false := by
      by_contra hc
      apply h
      refine ⟨hr, hrr, ?_⟩
      intro hlen
      by_contra hcon
      exact hc ⟨by simpa using hlen, by simpa using hcon⟩
    obtain ⟨hlen, hun⟩ := h1
    have hqL : q ∈ (List.range n).filter (fun y => comp.getD y y == cf comp q) := by
      simp [List.mem_filter, hq, cf]
    have hrL : cf comp q ∈ (List.range n).filter (fun y => comp.getD y y == cf comp q) := by
      simp only [List.mem_filter, List.mem_range, beq_iff_eq]; exact ⟨hr, hrr⟩
    obtain ⟨a, ha⟩ := List.length_eq_one_iff.1 hlen
    rw [ha] at hqL hrL
    have e1 : q = a := by simpa using hqL
    have e2 : cf comp q = a := by simpa using hrL
    have hqr : cf comp q = q := by rw [e2, e1]
    intro i hi hqi
    have : q ∈ T := (hTmem q).2 ⟨i, hi, hqi⟩
    rw [hqr] at hun
    simp at hun
    exact hun this
  · intro hidle
    have hqT : q ∉ T := fun hm => by
      obtain ⟨i, hi, hqi⟩ := (hTmem q).1 hm
      exact hidle i hi hqi
    obtain ⟨hself, honly⟩ := hgood.iso q hq hqT
    rintro ⟨_, _, h3⟩
    have hself' : comp.getD q q = q := hself
    rw [hself'] at h3
    have hL : (List.range n).filter (fun y => comp.getD y y == q) = [q] := by
      have : (List.range n).filter (fun y => comp.getD y y == q) = (List.range n).filter (fun y => y == q) := by
        apply List.filter_congr
        intro y hy
        have hy' := List.mem_range.1 hy
        by_cases e : y = q
        · rw [e]; show (comp.getD q q == q) = (q == q); rw [hself']
        · have : comp.getD y y ≠ q := fun h => e (honly y hy' h)
          show (comp.getD y y == q) = (y == q)
          rw [beq_eq_false_iff_ne.2 this, beq_eq_false_iff_ne.2 e]
      rw [this]
      exact filter_eq_range n q hq
    have := h3 (by rw [hL]; rfl)
    have hc : q ∈ T := by simpa using this
    exact hqT hc


/-! ## soundness of the components -/

/-- connected through instructions: equivalence closure of "occur in the same instruction" -/
inductive Conn (instrs : List (List Nat)) : Nat → Nat → Prop
  | refl (x : Nat) : Conn instrs x x
  | edge (qs : List Nat) (a b : Nat) : qs ∈ instrs → a ∈ qs → b ∈ qs → Conn instrs a b
  | symm {a b : Nat} : Conn instrs a b → Conn instrs b a
  | trans {a b c : Nat} : Conn instrs a b → Conn instrs b c → Conn instrs a c

/-- every qubit is connected to its component id -/
def ConnInv (n : Nat) (instrs : List (List Nat)) (comp : List Nat) : Prop :=
  comp.length = n ∧ ∀ x, x < n → Conn instrs x (cf comp x)

theorem conn_step (n : Nat) (instrs : List (List Nat)) (comp qs : List Nat) (h : ConnInv n instrs comp)
    (hqs : qs ∈ instrs) (hq : ∀ q ∈ qs, q < n) : ConnInv n instrs (sweepStep comp qs) := by
  unfold sweepStep
  simp only
  cases hm : (qs.map (fun q => comp.getD q q)).min? with
  | none => exact h
  | some m =>
    simp only
    refine ⟨by simp [h.1], ?_⟩
    intro x hx
    rw [cf_map comp _ x (by rw [h.1]; exact hx)]
    by_cases hc : (qs.map (fun q => comp.getD q q)).contains (cf comp x) = true
    · simp only [hc, if_true]
      have hmem : m ∈ qs.map (fun q => comp.getD q q) := List.min?_mem hm
      obtain ⟨q0, hq0, e0⟩ := List.mem_map.1 hmem
      have hcm : cf comp x ∈ qs.map (fun q => comp.getD q q) := by simpa using hc
      obtain ⟨q1, hq1, e1⟩ := List.mem_map.1 hcm
      -- x ~ cf x = cf q1 ~ q1 ~ q0 ~ cf q0 = m
      have c1 : Conn instrs x (cf comp x) := h.2 x hx
      have c2 : Conn instrs q1 (cf comp q1) := h.2 q1 (hq q1 hq1)
      have c3 : Conn instrs q1 q0 := Conn.edge qs q1 q0 hqs hq1 hq0
      have c4 : Conn instrs q0 (cf comp q0) := h.2 q0 (hq q0 hq0)
      have e1' : cf comp q1 = cf comp x := e1
      have e0' : cf comp q0 = m := e0
      rw [e1'] at c2
      rw [e0'] at c4
      exact (c1.trans c2.symm).trans (c3.trans c4)
    · have hc' : (qs.map (fun q => comp.getD q q)).contains (cf comp x) = false := by simpa using hc
      simp only [hc', Bool.false_eq_true, if_false]
      exact h.2 x hx

theorem conn_sweep (n : Nat) (all : List (List Nat)) : ∀ (instrs : List (List Nat)) (comp : List Nat), ConnInv n all comp →
    (∀ qs ∈ instrs, qs ∈ all ∧ ∀ q ∈ qs, q < n) → ConnInv n all (sweep instrs comp) := by
  intro instrs
  induction instrs with
  | nil => intro comp h _; exact h
  | cons qs rest ih =>
    intro comp h hall
    rw [sweep_eq, List.foldl_cons, ← sweep_eq]
    exact ih _ (conn_step n all comp qs h (hall qs (by simp)).1 (hall qs (by simp)).2)
      (fun qs' hqs' => hall qs' (List.mem_cons_of_mem _ hqs'))

theorem conn_components (n : Nat) (instrs : List (List Nat)) (h : ∀ qs ∈ instrs, ∀ q ∈ qs, q < n) :
    ConnInv n instrs (components n instrs) := by
  unfold components
  have gen : ∀ (l : List Nat) (comp : List Nat), ConnInv n instrs comp →
      ConnInv n instrs (l.foldl (fun comp _ => sweep instrs comp) comp) := by
    intro l
    induction l with
    | nil => intro comp hg; exact hg
    | cons _ l ih => intro comp hg; exact ih _ (conn_sweep n instrs instrs comp hg (fun qs hqs => ⟨hqs, h qs hqs⟩))
  exact gen _ _ ⟨by simp, fun x _ => by rw [cf_range]; exact Conn.refl x⟩

/-- **T10.3 (soundness of the components)** two qubits that receive the same automatic label are connected through the
instructions that are not ignored -/
theorem autoLabels_same_connected (n : Nat) (instrs : List Instr) (ignore : Instr → Bool)
    (hrange : ∀ i ∈ instrs, ∀ q ∈ i.qubits, q < n) (x y k : Nat) (hx : x < n) (hy : y < n)
    (hlx : (autoLabels n instrs ignore).getD x none = some k) (hly : (autoLabels n instrs ignore).getD y none = some k) :
    Conn ((instrs.filter (fun i => !ignore i)).map (·.qubits)) x y := by
  set cinstrs := (instrs.filter (fun i => !ignore i)).map (·.qubits) with hc
  have hci : ConnInv n cinstrs (components n cinstrs) := by
    apply conn_components
    intro qs hqs q hq
    obtain ⟨i, hi, rfl⟩ := List.mem_map.1 hqs
    exact hrange i (List.mem_filter.1 hi).1 q hq
  set comp := components n cinstrs with hcomp
  set roots := (List.range n).filter fun r =>
    comp.getD r r == r && !(((List.range n).filter (fun y => comp.getD y y == r)).length == 1 &&
      !((instrs.map (·.qubits)).flatten).contains r) with hroots
  have hlab : ∀ z, z < n → (autoLabels n instrs ignore).getD z none =
      (match roots.idxOf? (comp.getD z z) with | some k => some k | none => none) := by
    intro z hz
    unfold autoLabels
    simp only [List.getD_eq_getElem?_getD, List.getElem?_map, List.getElem?_range hz, Option.map_some, Option.getD_some]
    rfl
  rw [hlab x hx] at hlx
  rw [hlab y hy] at hly
  have hkx : roots.idxOf? (comp.getD x x) = some k := by
    cases h : roots.idxOf? (comp.getD x x) with
    | none => rw [h] at hlx; cases hlx
    | some k' => rw [h] at hlx; exact hlx
  have hky : roots.idxOf? (comp.getD y y) = some k := by
    cases h : roots.idxOf? (comp.getD y y) with
    | none => rw [h] at hly; cases hly
    | some k' => rw [h] at hly; exact hly
  have heq : comp.getD x x = comp.getD y y := by
    have h1 := List.idxOf?_eq_some_iff.1 hkx
    have h2 := List.idxOf?_eq_some_iff.1 hky
    obtain ⟨hk1, e1, _⟩ := h1
    obtain ⟨hk2, e2, _⟩ := h2
    rw [← e1, ← e2]
  have cx := hci.2 x hx
  have cy := hci.2 y hy
  have : cf comp x = cf comp y := heq
  rw [this] at cx
  exact cx.trans cy.symm

end CKT.C10
