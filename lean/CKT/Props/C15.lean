import CKT.Props.C02
import CKT.Model.BasisState
import CKT.Generated.DocTable
import Mathlib.Analysis.SpecialFunctions.Trigonometric.Basic
/-!
# C15 — sampling overheads match the documented closed forms

`kappaAt ρ b = Σᵢ |cᵢ(ρ)|` for the symbolic bases of `CKT.Model.Gates` / `Bases` (the same objects whose
exactness is proved in C02 and whose coefficients are compared with the implementation on every run).
-/
namespace CKT.C15
open CKT Real CKT.C02

noncomputable def kappaAt (ρ : Nat → ℝ) (b : SBasis) : ℝ := (b.coeffs.map fun p => |Poly.eval ρ p|).sum

theorem evalPO_mul (ρ : Nat → ℝ) (hs : Poly.Sat ρ stdRules) (a b : Poly) :
    Poly.eval ρ (PO.mul a b) = Poly.eval ρ a * Poly.eval ρ b :=
  (evalHom ρ stdRules 2 hs).mul a b

theorem env0 (t : ℝ) : envAngle t 0 = cos t := rfl
theorem env1 (t : ℝ) : envAngle t 1 = sin t := by simp [envAngle]
theorem env2 (t : ℝ) : envAngle t 2 = √2 / 2 := by simp [envAngle]

theorem rot_coeffs (n : String) (a : Angle) (pre : Option SOp) :
    (rotFamilyBasis n a pre).coeffs = [a.c2, a.s2, Poly.neg a.cs, a.cs, Poly.neg a.cs, a.cs] := rfl

/-- every member of the rotation family (rxx, ryy, rzz at θ' = −θ/2; crx, cry, crz, cp at θ' = θ/4) -/
theorem kappa_rot (t : ℝ) (n : String) (pre : Option SOp) :
    kappaAt (envAngle t) (rotFamilyBasis n genericAngle pre) = 1 + 2 * |sin (2 * t)| := by
  have hs := sat_angle t
  simp only [kappaAt, rot_coeffs, genericAngle, List.map_cons, List.map_nil, List.sum_cons, List.sum_nil,
    Poly.eval_neg, evalPO_mul _ hs, X0, X1, pv, Poly.eval_var, env0, env1, abs_neg]
  rw [abs_of_nonneg (mul_self_nonneg _), abs_of_nonneg (mul_self_nonneg _), sin_two_mul]
  have h : |2 * sin t * cos t| = 2 * |cos t * sin t| := by
    rw [show 2 * sin t * cos t = 2 * (cos t * sin t) by ring, abs_mul]; simp
  rw [h]
  nlinarith [sin_sq_add_cos_sq t]

theorem kappa_rxx (θ : ℝ) : kappaAt (envAngle (-θ / 2)) (rotFamilyBasis "rxx" genericAngle) = 1 + 2 * |sin θ| := by
  rw [kappa_rot]; congr 2; rw [show 2 * (-θ / 2) = -θ by ring, sin_neg, abs_neg]
theorem kappa_ryy (θ : ℝ) : kappaAt (envAngle (-θ / 2)) (rotFamilyBasis "ryy" genericAngle) = 1 + 2 * |sin θ| := by
  rw [kappa_rot]; congr 2; rw [show 2 * (-θ / 2) = -θ by ring, sin_neg, abs_neg]
theorem kappa_rzz (θ : ℝ) : kappaAt (envAngle (-θ / 2)) (rotFamilyBasis "rzz" genericAngle) = 1 + 2 * |sin θ| := by
  rw [kappa_rot]; congr 2; rw [show 2 * (-θ / 2) = -θ by ring, sin_neg, abs_neg]
theorem kappa_crx (θ : ℝ) : kappaAt (envAngle (θ / 4)) (rotFamilyBasis "crx" genericAngle) = 1 + 2 * |sin (θ / 2)| := by
  rw [kappa_rot]; congr 3; ring
theorem kappa_cry (θ : ℝ) : kappaAt (envAngle (θ / 4)) (rotFamilyBasis "cry" genericAngle) = 1 + 2 * |sin (θ / 2)| := by
  rw [kappa_rot]; congr 3; ring
theorem kappa_crz (θ : ℝ) : kappaAt (envAngle (θ / 4)) (rotFamilyBasis "crz" genericAngle) = 1 + 2 * |sin (θ / 2)| := by
  rw [kappa_rot]; congr 3; ring
theorem kappa_cp (θ : ℝ) : kappaAt (envAngle (θ / 4))
    (rotFamilyBasis "crz" genericAngle (some (rotOp "p" 3 genericAngle.rc genericAngle.rs))) = 1 + 2 * |sin (θ / 2)| := by
  rw [kappa_rot]; congr 3; ring

theorem sqrt2_half_pos : (0 : ℝ) < √2 / 2 := by positivity
theorem sqrt2_half_lt_one : (√2 / 2 : ℝ) < 1 := by
  have : √2 < 2 := by
    rw [show (2 : ℝ) = √4 by rw [show (4:ℝ) = 2 ^ 2 by norm_num, Real.sqrt_sq (by norm_num)]]
    exact Real.sqrt_lt_sqrt (by norm_num) (by norm_num)
  linarith

/-- cs, csdg, csx, csxdg -/
theorem kappa_cs_family (t : ℝ) (n : String) (neg : Bool) (pre : Option SOp) :
    kappaAt (envAngle t) (rotFamilyBasis n (piOver8 neg) pre) = 1 + √2 := by
  have hp := sqrt2_half_pos
  have hl := sqrt2_half_lt_one
  simp only [kappaAt, rot_coeffs, piOver8, List.map_cons, List.map_nil, List.sum_cons, List.sum_nil,
    Poly.eval_neg, Poly.eval_add, Poly.eval_sub, Poly.eval_scale, pc, Poly.eval_const, Rr, pv, Poly.eval_var, env2, abs_neg]
  have e1 : |((1/2 : ℚ) : ℝ) + ((1/2 : ℚ) : ℝ) * (√2 / 2)| = 1/2 + 1/2 * (√2/2) := by
    rw [abs_of_nonneg]; · push_cast; ring
    · push_cast; nlinarith
  have e2 : |((1/2 : ℚ) : ℝ) - ((1/2 : ℚ) : ℝ) * (√2 / 2)| = 1/2 - 1/2 * (√2/2) := by
    rw [abs_of_nonneg]; · push_cast; ring
    · push_cast; nlinarith
  have e3 : |(((if neg = true then (-1 : ℚ) else 1) / 2 : ℚ) : ℝ) * (√2 / 2)| = 1/2 * (√2/2) := by
    cases neg
    · simp only [Bool.false_eq_true, if_false]
      rw [abs_of_nonneg (by push_cast; positivity)]; push_cast; ring
    · simp only [if_true]
      rw [abs_of_nonpos (by push_cast; nlinarith)]; push_cast; ring
  rw [e1, e2, e3]; ring

theorem cx_coeffs (n : String) : (cxFamilyBasis n).coeffs = [pc (1/2), pc (1/2), pc (1/2), pc (-1/2), pc (1/2), pc (-1/2)] := rfl

/-- cx, cy, cz, ch -/
theorem kappa_cx_family (ρ : Nat → ℝ) (n : String) : kappaAt ρ (cxFamilyBasis n) = 3 := by
  simp only [kappaAt, cx_coeffs, List.map_cons, List.map_nil, List.sum_cons, List.sum_nil, pc, Poly.eval_const]
  norm_num [abs_of_pos, abs_of_neg]

theorem kappa_ecr (ρ : Nat → ℝ) : kappaAt ρ ecrBasis = 3 := by
  have : ecrBasis.coeffs = (cxFamilyBasis "cx").coeffs := rfl
  unfold kappaAt; rw [this]; exact kappa_cx_family ρ "cx"

theorem kappa_move (ρ : Nat → ℝ) : kappaAt ρ moveBasis = 4 := by
  have : moveBasis.coeffs = [pc (1/2), pc (1/2), pc (1/2), pc (-1/2), pc (1/2), pc (-1/2), pc (1/2), pc (-1/2)] := rfl
  simp only [kappaAt, this, List.map_cons, List.map_nil, List.sum_cons, List.sum_nil, pc, Poly.eval_const]
  norm_num [abs_of_pos, abs_of_neg]

/-! ### constant-coefficient bases (swap, iswap, dcx): κ is computed by the kernel -/

def constVal : Poly → Option Rat
  | [] => some 0
  | [([], q)] => some q
  | _ => none

def kappaConst (b : SBasis) : Option Rat :=
  b.coeffs.foldr (fun p acc => match constVal p, acc with
    | some q, some s => some (qabs q + s)
    | _, _ => none) (some 0)

theorem eval_of_constVal (ρ : Nat → ℝ) (p : Poly) (q : Rat) (h : constVal p = some q) : Poly.eval ρ p = (q : ℝ) := by
  unfold constVal at h
  split at h
  · injection h with h; subst h; simp
  · injection h with h; subst h; simp [Poly.evalTerm, Poly.evalMono]
  · simp at h

theorem qabs_cast (q : Rat) : ((qabs q : Rat) : ℝ) = |(q : ℝ)| := by
  unfold qabs
  split
  · rename_i h
    have : (q : ℝ) < 0 := by exact_mod_cast h
    rw [abs_of_neg this]; push_cast; ring
  · rename_i h
    have : (0 : ℝ) ≤ (q : ℝ) := by exact_mod_cast (not_lt.mp h)
    rw [abs_of_nonneg this]

theorem kappaAt_of_kappaConst (ρ : Nat → ℝ) (b : SBasis) (k : Rat) (h : kappaConst b = some k) : kappaAt ρ b = (k : ℝ) := by
  unfold kappaAt kappaConst at *
  generalize b.coeffs = cs at h
  induction cs generalizing k with
  | nil => simp at h; subst h; simp
  | cons p cs ih =>
    simp only [List.foldr_cons] at h
    cases hc : constVal p with
    | none => simp [hc] at h
    | some q =>
      cases ha : cs.foldr (fun p acc => match constVal p, acc with
        | some q, some s => some (qabs q + s)
        | _, _ => none) (some 0) with
      | none => simp [hc, ha] at h
      | some s =>
        simp [hc, ha] at h
        subst h
        simp only [List.map_cons, List.sum_cons, ih s ha, eval_of_constVal ρ p q hc]
        push_cast
        rw [qabs_cast]

theorem kappaConst_swap : kappaConst (kakTableBasis swapU) = some 7 := by decide +kernel
theorem kappaConst_iswap : kappaConst (kakTableBasis iswapU) = some 7 := by decide +kernel

theorem kappa_swap (ρ : Nat → ℝ) : kappaAt ρ (kakTableBasis swapU) = 7 := by
  rw [kappaAt_of_kappaConst ρ _ 7 kappaConst_swap]; norm_num
theorem kappa_iswap (ρ : Nat → ℝ) : kappaAt ρ (kakTableBasis iswapU) = 7 := by
  rw [kappaAt_of_kappaConst ρ _ 7 kappaConst_iswap]; norm_num
theorem kappa_dcx (ρ : Nat → ℝ) : kappaAt ρ (dcxDress (kakTableBasis iswapU)) = 7 := kappa_iswap ρ


/-! ### the KAK path: κ as a function of `u` only -/

def reN (re : Fin 4 → ℝ) (k : Nat) : ℝ := if h : k < 4 then re ⟨k, h⟩ else 0

/-- real value of a coefficient expression of the 58-row table -/
noncomputable def kcoefReal (re im : Fin 4 → ℝ) : KCoef → ℝ
  | .abs2 k => reN re k * reN re k + reN im k * reN im k
  | .re f j k => (f : ℝ) * (reN re j * reN re k + reN im j * reN im k)
  | .im f j k => (f : ℝ) * (reN im j * reN re k - reN re j * reN im k)

/-- `κ_u = Σ_rows |coefficient|` — a function of `u` alone -/
noncomputable def kappaU (re im : Fin 4 → ℝ) : ℝ := ((Generated.kakRows.map (·.1)).map fun kc => |kcoefReal re im kc|).sum

theorem eval_uVars (re im : Fin 4 → ℝ) (k : Nat) :
    Poly.eval (envU re im) (uVars.getD k Z0).re = reN re k ∧ Poly.eval (envU re im) (uVars.getD k Z0).im = reN im k := by
  rcases k with _ | _ | _ | _ | k
  · simp [uVars, List.range, List.range.loop, pv, Poly.eval_var, envU, reN]
  · simp [uVars, List.range, List.range.loop, pv, Poly.eval_var, envU, reN]
  · simp [uVars, List.range, List.range.loop, pv, Poly.eval_var, envU, reN]
  · simp [uVars, List.range, List.range.loop, pv, Poly.eval_var, envU, reN]
  · have : ¬ (k + 1 + 1 + 1 + 1 < 4) := by omega
    simp [uVars, List.range, List.range.loop, Z0, cq, pc, Poly.eval_const, reN, this]

theorem eval_kcoef (re im : Fin 4 → ℝ) (kc : KCoef) :
    Poly.eval (envU re im) (kc.poly uVars) = kcoefReal re im kc := by
  have hs := sat_u re im
  cases kc with
  | abs2 k =>
    simp only [KCoef.poly, kcoefReal, Poly.eval_add, evalPO_mul _ hs, (eval_uVars re im k).1, (eval_uVars re im k).2]
  | re f j k =>
    simp only [KCoef.poly, kcoefReal, Poly.eval_scale, Ops.cmul, Ops.conj, Ops.sub, PO, polyOpsR]
    have e := evalPO_mul _ hs
    simp only [PO, polyOpsR] at e
    simp only [Poly.eval_add, Poly.eval_neg, e, (eval_uVars re im j).1, (eval_uVars re im j).2,
      (eval_uVars re im k).1, (eval_uVars re im k).2]
    ring
  | im f j k =>
    simp only [KCoef.poly, kcoefReal, Poly.eval_scale, Ops.cmul, Ops.conj, Ops.sub, PO, polyOpsR]
    have e := evalPO_mul _ hs
    simp only [PO, polyOpsR] at e
    simp only [Poly.eval_add, Poly.eval_neg, e, (eval_uVars re im j).1, (eval_uVars re im j).2,
      (eval_uVars re im k).1, (eval_uVars re im k).2]
    ring

/-- the κ of the KAK table is `kappaU`, whatever local unitaries are later wrapped around the maps -/
theorem kappa_kak (re im : Fin 4 → ℝ) : kappaAt (envU re im) (kakTableBasis uVars) = kappaU re im := by
  unfold kappaAt kappaU kakTableBasis kakBasis
  simp only [List.map_map]
  congr 1
  apply List.map_congr_left
  intro r _
  simp only [Function.comp_def, eval_kcoef]

/-- Re(u_j conj u_k), Im(u_j conj u_k) -/
noncomputable def RR (re im : Fin 4 → ℝ) (j k : Fin 4) : ℝ := re j * re k + im j * im k
noncomputable def II (re im : Fin 4 → ℝ) (j k : Fin 4) : ℝ := im j * re k - re j * im k

theorem reN_0 (re : Fin 4 → ℝ) : reN re 0 = re 0 := by unfold reN; rw [dif_pos (by norm_num)]; rfl
theorem reN_1 (re : Fin 4 → ℝ) : reN re 1 = re 1 := by unfold reN; rw [dif_pos (by norm_num)]; rfl
theorem reN_2 (re : Fin 4 → ℝ) : reN re 2 = re 2 := by unfold reN; rw [dif_pos (by norm_num)]; rfl
theorem reN_3 (re : Fin 4 → ℝ) : reN re 3 = re 3 := by unfold reN; rw [dif_pos (by norm_num)]; rfl

theorem kappaU_formula (re im : Fin 4 → ℝ) :
    kappaU re im = (re 0 ^ 2 + im 0 ^ 2 + re 1 ^ 2 + im 1 ^ 2 + re 2 ^ 2 + im 2 ^ 2 + re 3 ^ 2 + im 3 ^ 2)
      + 4 * (|RR re im 0 1| + |RR re im 0 2| + |RR re im 0 3| + |RR re im 1 2| + |RR re im 2 3| + |RR re im 3 1|)
      + 4 * (|II re im 0 1| + |II re im 0 2| + |II re im 0 3| + |II re im 1 2| + |II re im 2 3| + |II re im 3 1|) := by
  simp only [kappaU, Generated.kakRows, List.map_cons, List.map_nil, List.sum_cons, List.sum_nil, kcoefReal, reN_0, reN_1, reN_2, reN_3, abs_mul]
  norm_num [RR, II]
  have a0 : |re 0 * re 0 + im 0 * im 0| = re 0 * re 0 + im 0 * im 0 := abs_of_nonneg (by nlinarith [mul_self_nonneg (re 0), mul_self_nonneg (im 0)])
  have a1 : |re 1 * re 1 + im 1 * im 1| = re 1 * re 1 + im 1 * im 1 := abs_of_nonneg (by nlinarith [mul_self_nonneg (re 1), mul_self_nonneg (im 1)])
  have a2 : |re 2 * re 2 + im 2 * im 2| = re 2 * re 2 + im 2 * im 2 := abs_of_nonneg (by nlinarith [mul_self_nonneg (re 2), mul_self_nonneg (im 2)])
  have a3 : |re 3 * re 3 + im 3 * im 3| = re 3 * re 3 + im 3 * im 3 := abs_of_nonneg (by nlinarith [mul_self_nonneg (re 3), mul_self_nonneg (im 3)])
  rw [a0, a1, a2, a3]
  ring

/-- κ ≥ 1 on the KAK path: for a unitary `Σ u_α σ_α⊗σ_α` the vector `u` has norm one -/
theorem kappaU_ge_one (re im : Fin 4 → ℝ)
    (hu : re 0 ^ 2 + im 0 ^ 2 + re 1 ^ 2 + im 1 ^ 2 + re 2 ^ 2 + im 2 ^ 2 + re 3 ^ 2 + im 3 ^ 2 = 1) : 1 ≤ kappaU re im := by
  rw [kappaU_formula, hu]
  have : ∀ x : ℝ, 0 ≤ |x| := abs_nonneg
  nlinarith [this (RR re im 0 1), this (RR re im 0 2), this (RR re im 0 3), this (RR re im 1 2), this (RR re im 2 3),
    this (RR re im 3 1), this (II re im 0 1), this (II re im 0 2), this (II re im 0 3), this (II re im 1 2),
    this (II re im 2 3), this (II re im 3 1)]

/-- Weyl coordinates `(a, 0, 0)`: `u = (cos a, i sin a, 0, 0)` — RZX(θ) has `a = |θ/2|` (and so have rxx, ryy, rzz) -/
theorem kappaU_a00 (a : ℝ) : kappaU ![cos a, 0, 0, 0] ![0, sin a, 0, 0] = 1 + 2 * |sin (2 * a)| := by
  rw [kappaU_formula]
  simp [RR, II, sin_two_mul]
  ring

theorem kappa_rzx (θ : ℝ) : kappaU ![cos (θ / 2), 0, 0, 0] ![0, sin (θ / 2), 0, 0] = 1 + 2 * |sin θ| := by
  rw [kappaU_a00]; congr 3; ring

/-- Weyl coordinates `(a, a, 0)`: `u = (cos²a, i sin a cos a, i sin a cos a, sin²a)` — XX±YY(θ, β) has `a = |θ/4|` -/
theorem kappaU_aa0 (a : ℝ) :
    kappaU ![cos a ^ 2, 0, 0, sin a ^ 2] ![0, sin a * cos a, sin a * cos a, 0]
      = 1 + 4 * |sin (2 * a)| + 2 * sin (2 * a) ^ 2 := by
  rw [kappaU_formula]
  simp [RR, II, sin_two_mul]
  have hc := sin_sq_add_cos_sq a
  have hx : |sin a| * |cos a| * (|sin a| * |cos a|) = sin a ^ 2 * cos a ^ 2 := by
    rw [mul_mul_mul_comm, abs_mul_abs_self, abs_mul_abs_self]; ring
  have hc2 : cos a ^ 2 = 1 - sin a ^ 2 := by linarith
  rw [hx, show 2 * |sin a| * |cos a| = 2 * (|sin a| * |cos a|) by ring]
  generalize |sin a| * |cos a| = x
  rw [show (2 * sin a * cos a) ^ 2 = 4 * sin a ^ 2 * cos a ^ 2 by ring, show (sin a * cos a) ^ 2 = sin a ^ 2 * cos a ^ 2 by ring, hc2]
  ring

theorem kappa_xx_plus_minus_yy (θ : ℝ) :
    kappaU ![cos (θ / 4) ^ 2, 0, 0, sin (θ / 4) ^ 2] ![0, sin (θ / 4) * cos (θ / 4), sin (θ / 4) * cos (θ / 4), 0]
      = 1 + 4 * |sin (θ / 2)| + 2 * sin (θ / 2) ^ 2 := by
  rw [kappaU_aa0]; congr 3 <;> ring_nf

/-- every closed form is at least one -/
theorem closed_forms_ge_one (x : ℝ) : 1 ≤ 1 + 2 * |sin x| ∧ 1 ≤ 1 + 4 * |sin x| + 2 * sin x ^ 2 ∧ (1:ℝ) ≤ 1 + √2 := by
  refine ⟨by nlinarith [abs_nonneg (sin x)], by nlinarith [abs_nonneg (sin x), sq_nonneg (sin x)], ?_⟩
  nlinarith [Real.sqrt_nonneg 2]

/-! ### the coefficient setter -/

theorem qabs_nonneg (x : Rat) : 0 ≤ qabs x := by
  unfold qabs; split <;> [exact le_of_lt (by linarith); exact not_lt.mp ‹_›]

theorem kappa1_nonneg (cs : List Rat) : 0 ≤ kappa1 cs := by
  unfold kappa1
  induction cs with
  | nil => simp
  | cons c cs ih => simp only [List.map_cons, List.sum_cons]; exact add_nonneg (qabs_nonneg c) ih

theorem setCoeffs_ok (b : BasisState) (cs : List Rat) (h : cs.length = b.nmaps) :
    b.setCoeffs cs = .ok { b with coeffs := cs, kappa := kappa1 cs, probs := cs.map fun c => qabs c / kappa1 cs } := by
  simp [BasisState.setCoeffs, h]

/-- kappa is the 1-norm, the probabilities are the normalised absolute coefficients, the overhead is kappa² -/
theorem setter_spec (b b' : BasisState) (cs : List Rat) (h : b.setCoeffs cs = .ok b') :
    b'.coeffs = cs ∧ b'.kappa = (cs.map qabs).sum ∧ b'.probs = cs.map (fun c => qabs c / b'.kappa)
      ∧ b'.overhead = b'.kappa * b'.kappa ∧ b'.nmaps = b.nmaps := by
  unfold BasisState.setCoeffs at h
  split at h
  · cases h
  · injection h with h; subst h; simp [kappa1, BasisState.overhead]

theorem sum_map_div (cs : List Rat) (f : Rat → Rat) (k : Rat) : (cs.map fun c => f c / k).sum = (cs.map f).sum / k := by
  induction cs with
  | nil => simp
  | cons c cs ih => simp only [List.map_cons, List.sum_cons, ih]; ring

theorem probs_sum_one (b b' : BasisState) (cs : List Rat) (h : b.setCoeffs cs = .ok b') (hk : b'.kappa ≠ 0) :
    b'.probs.sum = 1 := by
  obtain ⟨_, h2, h3, _, _⟩ := setter_spec b b' cs h
  rw [h3, sum_map_div, ← h2]; exact div_self hk

/-- reassignment: the state after an accepted assignment depends only on that assignment (nothing stale survives) -/
theorem reassign (b b1 : BasisState) (c1 c2 : List Rat) (h1 : b.setCoeffs c1 = .ok b1) : b1.setCoeffs c2 = b.setCoeffs c2 := by
  obtain ⟨_, _, _, _, hn⟩ := setter_spec b b1 c1 h1
  unfold BasisState.setCoeffs at *
  split at h1
  · cases h1
  · injection h1 with h1; subst h1; simp

/-- a vector of the wrong length is refused -/
theorem setter_refuses (b : BasisState) (cs : List Rat) (h : cs.length ≠ b.nmaps) : ∃ m, b.setCoeffs cs = .error (.value m) := by
  simp [BasisState.setCoeffs, h]

/-- after any history of assignments the derived quantities are those of the last accepted vector -/
theorem run_invariant (b : BasisState) (hist : List (List Rat))
    (hb : b.kappa = kappa1 b.coeffs ∧ b.probs = b.coeffs.map fun c => qabs c / kappa1 b.coeffs) :
    (b.run hist).kappa = kappa1 (b.run hist).coeffs
      ∧ (b.run hist).probs = (b.run hist).coeffs.map fun c => qabs c / kappa1 (b.run hist).coeffs := by
  induction hist generalizing b with
  | nil => exact hb
  | cons cs rest ih =>
    simp only [BasisState.run]
    cases h : b.setCoeffs cs with
    | error e => exact ih b hb
    | ok b' =>
      apply ih
      obtain ⟨h1, h2, h3, _, _⟩ := setter_spec b b' cs h
      rw [h1]; exact ⟨h2, by rw [h3, h2]; rfl⟩

example : (BasisState.mk' 3 [1/2, -1/4, 1/4]).toOption.map (·.kappa) = some 1 := by decide +kernel

/-! ### the documented table (regenerated from docs/explanation/index.rst on every run) -/

/-- the documentation rows, each matched to the theorem that proves its closed form:
CS family ↦ `kappa_cs_family` ((1+√2)² = 3+2√2), CX family ↦ `kappa_cx_family`/`kappa_ecr`, iSwap/DCX/Swap ↦ `kappa_iswap`/`kappa_dcx`/
`kappa_swap`, RXX/RYY/RZZ ↦ `kappa_rxx..rzz`, RZX ↦ `kappa_rzx`, CRX/CRY/CRZ/CPhase ↦ `kappa_crx..cp`, XX±YY ↦
`kappa_xx_plus_minus_yy`, Move ↦ `kappa_move` -/
theorem docTable_rows : Generated.docTable =
    [ (["CSGate", "CSdgGate", "CSXGate"], "3+2\\sqrt{2} \\approx 5.828"),
      (["CXGate", "CYGate", "CZGate", "CHGate", "ECRGate"], "3^2=9"),
      (["iSwapGate", "DCXGate"], "7^2=49"),
      (["SwapGate"], "7^2=49"),
      (["RXXGate", "RYYGate", "RZZGate", "RZXGate"], "\\left[1 + 2 \\left|\\sin(\\theta)\\right| \\right]^2"),
      (["CRXGate", "CRYGate", "CRZGate", "CPhaseGate"], "\\left[1 + 2 \\left|\\sin(\\theta/2)\\right| \\right]^2"),
      (["XXPlusYYGate", "XXMinusYYGate"], "\\left[1+4\\left|\\sin(\\theta/2)\\right|+2\\sin^2(\\theta/2)\\right]^2"),
      (["Move"], "4^2=16") ] := by decide

theorem doc_cs_value : (1 + √2) ^ 2 = 3 + 2 * √2 := by
  have := Real.sq_sqrt (show (0:ℝ) ≤ 2 by norm_num)
  nlinarith

end CKT.C15
