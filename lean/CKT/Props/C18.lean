import CKT.Model.Validation
import CKT.Model.Partition
import CKT.Model.Decompose
import CKT.Model.CutFinding
import CKT.Model.Weights
import Mathlib.Data.List.Basic
import Mathlib.Algebra.Order.Field.Rat
import Mathlib.Tactic.Linarith
/-!
# C18 — malformed requests are refused with the documented error, never mis-computed

One theorem per documented class of invalid input.  Each says: whatever else the request contains, and wherever in
the request the offending element sits, the model function returns `.error (.value _)` (= `ValueError`) — and an
`Except.error` carries no result, so nothing is returned.  "Without modifying the arguments" is a statement about
Python objects and is checked at run time by snapshots (the correspondence run of this property and C16).
Refusals proved next to their functions elsewhere are part of this property's obligations as well:
`C02.unsupported_refused`, `C04.refuses_small_budget`, `C06.reconstruct_refuses_count_mismatch`,
`C10.separate_refuses_length`, `C13.conditioned_refused`, `C13.classical_arg_refused`, `C14.assignMapIds_refuses_length`,
`C14.decompose_refuses_invalid`, `C15.setter_refuses`, `C17.expandObservables_refuses_count/_missing`.
-/
namespace CKT.C18
open CKT CKT.Validation

def IsValueError {α : Type} (r : R α) : Prop := ∃ m, r = .error (.value m)

/-! ### partition_problem -/

theorem partition_refuses_label_count (o : CutOracle) (c : Circuit) (nb : Nat) (ls : List Label) (obs : Option (List PauliStr))
    (h : ls.length ≠ c.nq) : IsValueError (partitionProblem o c nb (some ls) obs) := by
  simp [IsValueError, partitionProblem, h]

theorem partition_refuses_observable_size (o : CutOracle) (c : Circuit) (nb : Nat) (ls : List Label) (os : List PauliStr)
    (hl : ls.length = c.nq) (h : ∃ ob ∈ os, ob.letters.length ≠ c.nq) : IsValueError (partitionProblem o c nb (some ls) (some os)) := by
  obtain ⟨ob, hob, hne⟩ := h
  have : os.any (fun ob => ob.letters.length != c.nq) = true := List.any_eq_true.2 ⟨ob, hob, by simpa using hne⟩
  simp [IsValueError, partitionProblem, hl, partitionProblem.go, this]

/-- a phase on any observable, at any position of the list -/
theorem partition_refuses_phase (o : CutOracle) (c : Circuit) (nb : Nat) (ls : List Label) (os : List PauliStr)
    (hl : ls.length = c.nq) (hs : ∀ ob ∈ os, ob.letters.length = c.nq) (h : ∃ ob ∈ os, ob.phase ≠ 0) :
    IsValueError (partitionProblem o c nb (some ls) (some os)) := by
  obtain ⟨ob, hob, hne⟩ := h
  have h1 : os.any (fun ob => ob.letters.length != c.nq) = false := by
    rw [List.any_eq_false]; intro x hx; simpa using hs x hx
  have h2 : os.any (fun ob => ob.phase != 0) = true := List.any_eq_true.2 ⟨ob, hob, by simpa using hne⟩
  simp [IsValueError, partitionProblem, hl, partitionProblem.go, h1, h2]

theorem partition_refuses_classical_bits (o : CutOracle) (c : Circuit) (nb : Nat) (ls : List Label)
    (hl : ls.length = c.nq) (h : c.cregs ≠ []) : IsValueError (partitionProblem o c nb (some ls) none) := by
  have : c.cregs.isEmpty = false := by cases hc : c.cregs with | nil => exact absurd hc h | cons a b => rfl
  simp [IsValueError, partitionProblem, hl, partitionProblem.go, partitionProblem.go2, this]

/-- `cut_gates` / `find_cuts`: a circuit with any classical register or any classical bit (registered or loose) is refused, one
without is accepted -/
theorem cut_gates_refuses_classical (nregs nbits : Nat) (h : nregs ≠ 0 ∨ nbits ≠ 0) :
    IsValueError (Validation.checkNoClassical nregs nbits) := by
  simp [IsValueError, Validation.checkNoClassical, h]

theorem cut_gates_accepts_quantum_only : Validation.checkNoClassical 0 0 = .ok () := by
  simp [Validation.checkNoClassical]

/-- a gate on more than two qubits that would have to be cut, at any position of the circuit -/
theorem cut_refuses_big_gate (o : CutOracle) (labels : List Label) : ∀ (pre : List Instr) (g : Instr) (post : List Instr) (nb : Nat),
    spansCut labels g = true → g.qubits.length > 2 → (∀ i ∈ pre, spansCut labels i = false) →
    IsValueError (partitionCircuitQubitsGo o labels (pre ++ g :: post) nb) := by
  intro pre
  induction pre with
  | nil => intro g post nb hs hb _; simp [IsValueError, partitionCircuitQubitsGo, hs, hb]
  | cons a pre ih =>
    intro g post nb hs hb hpre
    have ha : spansCut labels a = false := hpre a (by simp)
    obtain ⟨m, hm⟩ := ih g post nb hs hb (fun i hi => hpre i (List.mem_cons_of_mem _ hi))
    exact ⟨m, by simp [partitionCircuitQubitsGo, ha, hm]⟩

/-- an instruction the decomposition table refuses (unsupported / unbound parameters), at any position -/
theorem cut_refuses_unsupported (o : CutOracle) (labels : List Label) : ∀ (pre : List Instr) (g : Instr) (post : List Instr) (nb : Nat),
    spansCut labels g = true → ¬ g.qubits.length > 2 → g.name ≠ "qpd_2q" → o.supported g = false →
    (∀ i ∈ pre, spansCut labels i = false) → IsValueError (partitionCircuitQubitsGo o labels (pre ++ g :: post) nb) := by
  intro pre
  induction pre with
  | nil =>
    intro g post nb hs hb hn ho _
    have : partitionCircuitQubitsGo.isQpd2' g = false := by simp [partitionCircuitQubitsGo.isQpd2', hn]
    simp [IsValueError, partitionCircuitQubitsGo, hs, hb, this, ho]
  | cons a pre ih =>
    intro g post nb hs hb hn ho hpre
    have ha : spansCut labels a = false := hpre a (by simp)
    obtain ⟨m, hm⟩ := ih g post nb hs hb hn ho (fun i hi => hpre i (List.mem_cons_of_mem _ hi))
    exact ⟨m, by simp [partitionCircuitQubitsGo, ha, hm]⟩

/-! ### generate_cutting_experiments, reconstruct_expectation_values -/

theorem generate_refuses_budget (c ob : Form) (n : Budget) (h : n.geOne = false) : IsValueError (checkGenerateArgs c ob n) := by
  unfold checkGenerateArgs IsValueError
  split
  · exact ⟨_, rfl⟩
  · split
    · exact ⟨_, rfl⟩
    · simp [h]

theorem budget_nan_refused : Budget.nan.geOne = false := rfl
theorem budget_below_one_refused (q : Rat) (h : q < 1) : (Budget.fin q).geOne = false := by
  simp only [Budget.geOne, decide_eq_false_iff_not, not_le]; exact h

theorem generate_refuses_mismatched_forms (n : Budget) :
    IsValueError (checkGenerateArgs .single .dict n) ∧ IsValueError (checkGenerateArgs .dict .single n)
    ∧ IsValueError (checkGenerateArgs .single .other n) ∧ IsValueError (checkGenerateArgs .dict .other n) := by
  refine ⟨?_, ?_, ?_, ?_⟩ <;> simp [IsValueError, checkGenerateArgs]

theorem reconstruct_refuses_forms (phases : List Nat) (k1 k2 : List Nat) :
    IsValueError (checkReconstructArgs .single .dict phases k1 k2) ∧ IsValueError (checkReconstructArgs .dict .single phases k1 k2)
    ∧ ∀ r, IsValueError (checkReconstructArgs .other r phases k1 k2) := by
  refine ⟨by simp [IsValueError, checkReconstructArgs], by simp [IsValueError, checkReconstructArgs], fun r => by simp [IsValueError, checkReconstructArgs]⟩

/-- partition keys of observables and results differ (a key missing on either side) -/
theorem reconstruct_refuses_keys (phases : List Nat) (k1 k2 : List Nat) (h : (∃ k ∈ k1, k ∉ k2) ∨ (∃ k ∈ k2, k ∉ k1)) :
    IsValueError (checkReconstructArgs .dict .dict phases k1 k2) := by
  have : (k1.all (· ∈ k2) && k2.all (· ∈ k1)) = false := by
    rw [Bool.and_eq_false_iff]
    rcases h with ⟨k, hk, hn⟩ | ⟨k, hk, hn⟩
    · left; rw [List.all_eq_false]; exact ⟨k, hk, by simpa using hn⟩
    · right; rw [List.all_eq_false]; exact ⟨k, hk, by simpa using hn⟩
  simp [IsValueError, checkReconstructArgs, this]

theorem reconstruct_refuses_phase (f : Form) (phases : List Nat) (k : List Nat) (h : ∃ p ∈ phases, p ≠ 0) (hf : f = .single ∨ f = .dict) :
    IsValueError (checkReconstructArgs f f phases k k) := by
  obtain ⟨p, hp, hne⟩ := h
  have h2 : ∃ x, x ∈ phases ∧ ¬ x = 0 := ⟨p, hp, hne⟩
  rcases hf with rfl | rfl
  · simp [IsValueError, checkReconstructArgs, h2]
  · simp [IsValueError, checkReconstructArgs, h2]

/-! ### find_cuts settings -/

theorem find_cuts_refuses_gamma (cfg : CF.Settings) (W : Int) (h : cfg.maxGamma < 1) : IsValueError (CF.validate cfg W) := by
  simp [IsValueError, CF.validate, h]

theorem find_cuts_refuses_width (cfg : CF.Settings) (W : Int) (hg : ¬ cfg.maxGamma < 1) (h : W < 1) : IsValueError (CF.validate cfg W) := by
  simp [IsValueError, CF.validate, hg, h]

/-- a gate on more than two qubits reached by the search (greedy or best-first) aborts it -/
theorem search_refuses_big_gate (cfg : CF.Settings) (gates : List CF.Gate) (W : Nat) (s : CF.St) (g : CF.Gate)
    (hg : gates[s.level]? = some g) (h : g.qubits.length ≠ 2) : IsValueError (CF.nextStates cfg gates W s) := by
  simp [IsValueError, CF.nextStates, hg, h]

/-! ### QPD gate objects and bases -/

theorem basis_id_out_of_range (nmaps : Nat) (i : Int) (h : i < 0 ∨ (nmaps : Int) ≤ i) : IsValueError (Validation.setBasisId nmaps (some i)) := by
  have : ¬ (0 ≤ i ∧ i < nmaps) := by omega
  simp [IsValueError, Validation.setBasisId, this]

theorem basis_id_in_range (nmaps : Nat) (i : Int) (h : 0 ≤ i ∧ i < nmaps) : Validation.setBasisId nmaps (some i) = .ok (some i.toNat) := by
  simp [Validation.setBasisId, h]

theorem half_index_too_large (nq qid : Nat) (h : nq ≤ qid) : IsValueError (mkSingleQubitGate nq qid) := by
  simp [IsValueError, mkSingleQubitGate, h]

theorem two_qubit_gate_needs_two_qubit_basis (nq : Nat) (h : nq ≠ 2) : IsValueError (mkTwoQubitGate nq) := by
  simp [IsValueError, mkTwoQubitGate, h]

theorem basis_refuses (arities : List Nat) (n : Nat) :
    (arities = [] → IsValueError (mkBasis arities n)) ∧
    (∀ a rest, arities = a :: rest → a > 2 → IsValueError (mkBasis arities n)) ∧
    (∀ a rest, arities = a :: rest → ¬ a > 2 → (∃ b ∈ rest, b ≠ a) → IsValueError (mkBasis arities n)) ∧
    (∀ a rest, arities = a :: rest → ¬ a > 2 → (∀ b ∈ rest, b = a) → n ≠ arities.length → IsValueError (mkBasis arities n)) := by
  refine ⟨?_, ?_, ?_, ?_⟩
  · rintro rfl; exact ⟨_, rfl⟩
  · rintro a rest rfl h; simp [IsValueError, mkBasis, h]
  · rintro a rest rfl h ⟨b, hb, hne⟩
    have h2 : ∃ x ∈ rest, ¬ x = a := ⟨b, hb, hne⟩
    simp [IsValueError, mkBasis, h, h2]
  · rintro a rest rfl h hall hn
    have h2 : ¬ ∃ x ∈ rest, ¬ x = a := by
      rintro ⟨x, hx, hne⟩; exact hne (hall x hx)
    have h3 : ¬ n = rest.length + 1 := by simpa using hn
    simp [IsValueError, mkBasis, h, h2, h3]

/-- decompose_qpd_instructions: a map index outside the basis -/
theorem map_id_out_of_range (bases : List Basis) (g : Instr) (b : Basis) (m : Int) (hb : basisOfInstr bases g = some b)
    (h : m < 0 ∨ (b.maps.length : Int) ≤ m) : IsValueError (CKT.setBasisId bases g m) := by
  have : ¬ (0 ≤ m ∧ m < b.maps.length) := by omega
  simp [IsValueError, CKT.setBasisId, hb, this]

end CKT.C18
