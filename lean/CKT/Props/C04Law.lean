import CKT.Props.C04Mass
/-!
# C04 — T04.4: the conditional tables make the tail unbiased
-/
namespace CKT.C04
open CKT

def condsOf (ys : List Y) : List (List Nat × List Rat) :=
  ys.filterMap fun | Y.full _ _ => none | Y.cond s arr => some (s, arr)

def fullsOf (ys : List Y) : List (List Nat) :=
  ys.filterMap fun | Y.full s _ => some s | Y.cond _ _ => none

def keyOf : Y → List Nat
  | Y.full s _ => s
  | Y.cond s _ => s

/-- probability that the recursive sampler (`_populate_samples`), standing at `state`, goes on to draw exactly `suffix`:
with a table for the state the next index is drawn from the table, without one every remaining basis is drawn independently
from its own row -/
def law (all : List (List Rat)) (cond : List (List Nat × List Rat)) : List Nat → List Nat → Rat
  | _, [] => 1
  | state, j :: s =>
    match cond.find? (fun e => e.1 == state) with
    | some e => e.2.getD j 0 * law all cond (state ++ [j]) s
    | none => probOf (all.drop state.length) (j :: s)

theorem condsOf_append (a b : List Y) : condsOf (a ++ b) = condsOf a ++ condsOf b := by
  simp [condsOf, List.filterMap_append]

theorem fullsOf_append (a b : List Y) : fullsOf (a ++ b) = fullsOf a ++ fullsOf b := by
  simp [fullsOf, List.filterMap_append]

theorem law_congr (all : List (List Rat)) (C C' : List (List Nat × List Rat)) :
    ∀ (s state : List Nat), (∀ st, state <+: st → C.find? (fun e => e.1 == st) = C'.find? (fun e => e.1 == st)) →
      law all C state s = law all C' state s := by
  intro s
  induction s with
  | nil => intro state _; simp [law]
  | cons j s ih =>
    intro state h
    unfold law
    rw [h state (List.prefix_refl _)]
    have := ih (state ++ [j]) (fun st hst => h st (List.IsPrefix.trans (List.prefix_append _ _) hst))
    rw [this]

theorem mem_condsOf {ys : List Y} {e : List Nat × List Rat} (h : e ∈ condsOf ys) : ∃ y ∈ ys, keyOf y = e.1 := by
  unfold condsOf at h
  obtain ⟨y, hy, hye⟩ := List.mem_filterMap.1 h
  refine ⟨y, hy, ?_⟩
  cases y with
  | full s p => simp at hye
  | cond s arr => simp at hye; subst hye; rfl

theorem mem_fullsOf {ys : List Y} {k : List Nat} (h : k ∈ fullsOf ys) : ∃ y ∈ ys, keyOf y = k := by
  unfold fullsOf at h
  obtain ⟨y, hy, hye⟩ := List.mem_filterMap.1 h
  refine ⟨y, hy, ?_⟩
  cases y with
  | full s p => simp at hye; subst hye; rfl
  | cond s arr => simp at hye

theorem finish_keys (top : Bool) (pre : List Nat) (arr : List Rat) (ys : List Y) (htop : top = true → pre = []) :
    ∀ y ∈ (finish top pre arr ys).1, y ∈ ys ∨ keyOf y = pre := by
  intro y hy
  unfold finish at hy
  simp only at hy
  split at hy
  · rename_i ht
    rcases List.mem_append.1 hy with h | h
    · exact Or.inl h
    · simp at h; subst h; right; simp [keyOf, htop ht]
  · split at hy
    · rcases List.mem_append.1 hy with h | h
      · exact Or.inl h
      · simp at h; subst h; right; rfl
    · exact Or.inl hy

/-- every item yielded beneath a node carries a key that extends the node's prefix; items of children are strictly longer -/
theorem dfs_keys (thr atol : Rat) : ∀ (rows : List (List Rat)) (top : Bool) (pre : List Nat) (p : Rat), (top = true → pre = []) →
    ∀ y ∈ (dfs thr atol rows top pre p).1, pre <+: keyOf y := by
  intro rows
  induction rows with
  | nil => intro top pre p _ y hy; simp [dfs] at hy
  | cons row rest ih =>
    intro top pre p htop y hy
    cases rest with
    | nil =>
      simp only [dfs] at hy
      split at hy
      · rename_i he
        simp at he
        simp [he] at hy
      · rcases finish_keys top pre _ _ htop y hy with h | h
        · obtain ⟨jx, _, rfl⟩ := List.mem_map.1 h
          simp [keyOf]
        · rw [h]
    | cons r2 rest' =>
      simp only [dfs] at hy
      have hk : ∀ y ∈ ((visited thr p row).map fun jx => (jx.1, dfs thr atol (r2 :: rest') false (pre ++ [jx.1]) (p * jx.2))).flatMap (fun k => k.2.1),
          pre <+: keyOf y := by
        intro y hy
        obtain ⟨k, hk, hyk⟩ := List.mem_flatMap.1 hy
        obtain ⟨jx, _, rfl⟩ := List.mem_map.1 hk
        have := ih false (pre ++ [jx.1]) (p * jx.2) (by simp) y hyk
        exact List.IsPrefix.trans (List.prefix_append _ _) this
      split at hy
      · exact hk y hy
      · rcases finish_keys top pre _ _ htop y hy with h | h
        · exact hk y h
        · rw [h]

theorem prefix_snoc_inj {pre : List Nat} {i j : Nat} {s : List Nat} (h : pre ++ [i] <+: pre ++ j :: s) : i = j := by
  rw [List.prefix_append_right_inj] at h
  obtain ⟨t, ht⟩ := h
  simp at ht
  exact ht.1

theorem two_prefix {pre st : List Nat} {i j : Nat} (h1 : pre ++ [i] <+: st) (h2 : pre ++ [j] <+: st) : i = j := by
  obtain ⟨t1, rfl⟩ := h1
  obtain ⟨t2, h2⟩ := h2
  simp only [List.append_assoc, List.append_cancel_left_eq] at h2
  simp at h2
  exact h2.1.symm

theorem find_none_of_prefix {C : List (List Nat × List Rat)} {pre st : List Nat} {i j : Nat}
    (hC : ∀ e ∈ C, pre ++ [i] <+: e.1) (hst : pre ++ [j] <+: st) (hij : i ≠ j) :
    C.find? (fun e => e.1 == st) = none := by
  rw [List.find?_eq_none]
  intro e he hc
  have : e.1 = st := by simpa using hc
  have h1 := hC e he
  rw [this] at h1
  exact hij (two_prefix h1 hst)

theorem condsOf_flatMap_range (v : Nat) (f : Nat → List Y) :
    condsOf ((List.range v).flatMap f) = (List.range v).flatMap (fun i => condsOf (f i)) := by
  induction v with
  | zero => simp [condsOf]
  | succ v ih => rw [List.range_succ, List.flatMap_append, condsOf_append, ih, List.flatMap_append]; simp

theorem fullsOf_flatMap_range (v : Nat) (f : Nat → List Y) :
    fullsOf ((List.range v).flatMap f) = (List.range v).flatMap (fun i => fullsOf (f i)) := by
  induction v with
  | zero => simp [fullsOf]
  | succ v ih => rw [List.range_succ, List.flatMap_append, fullsOf_append, ih, List.flatMap_append]; simp

/-- looking up a state below child `j` in the tables of all children only ever finds tables of child `j` -/
theorem find_restrict (v : Nat) (f : Nat → List Y) (pre st : List Nat) (j : Nat)
    (hkeys : ∀ i, ∀ y ∈ f i, pre ++ [i] <+: keyOf y) (hst : pre ++ [j] <+: st) :
    (condsOf ((List.range v).flatMap f)).find? (fun e => e.1 == st) =
      if j < v then (condsOf (f j)).find? (fun e => e.1 == st) else none := by
  have hC : ∀ i, ∀ e ∈ condsOf (f i), pre ++ [i] <+: e.1 := by
    intro i e he
    obtain ⟨y, hy, hk⟩ := mem_condsOf he
    rw [← hk]; exact hkeys i y hy
  rw [condsOf_flatMap_range]
  induction v with
  | zero => simp
  | succ v ih =>
    rw [List.range_succ, List.flatMap_append, List.find?_append, ih]
    simp only [List.flatMap_cons, List.flatMap_nil, List.append_nil]
    by_cases h : j < v
    · have h' : j < v + 1 := by omega
      simp only [h, h', if_true]
      cases hf : (condsOf (f j)).find? (fun e => e.1 == st) with
      | some e => simp
      | none =>
        simp only [Option.none_or]
        exact find_none_of_prefix (hC v) hst (by omega)
    · simp only [h, if_false, Option.none_or]
      by_cases h2 : j = v
      · subst h2; simp
      · have : ¬ j < v + 1 := by omega
        simp only [this, if_false]
        exact find_none_of_prefix (hC v) hst (fun e => h2 e.symm)

theorem mem_fulls_flatMap (v : Nat) (f : Nat → List Y) (pre s : List Nat) (j : Nat)
    (hkeys : ∀ i, ∀ y ∈ f i, pre ++ [i] <+: keyOf y) :
    pre ++ j :: s ∈ fullsOf ((List.range v).flatMap f) ↔ j < v ∧ (pre ++ [j]) ++ s ∈ fullsOf (f j) := by
  rw [fullsOf_flatMap_range, List.mem_flatMap]
  constructor
  · rintro ⟨i, hi, hm⟩
    obtain ⟨y, hy, hk⟩ := mem_fullsOf hm
    have := hkeys i y hy
    rw [hk] at this
    have hij := prefix_snoc_inj this
    subst hij
    exact ⟨List.mem_range.1 hi, by simpa using hm⟩
  · rintro ⟨hj, hm⟩
    exact ⟨j, List.mem_range.2 hj, by simpa using hm⟩

theorem law_nil (all : List (List Rat)) : ∀ (s state : List Nat), law all [] state s = probOf (all.drop state.length) s := by
  intro s state
  cases s with
  | nil => simp [law, probOf]
  | cons j s => simp [law]

theorem probOf_cons (row : List Rat) (rest : List (List Rat)) (j : Nat) (s : List Nat) :
    probOf (row :: rest) (j :: s) = row.getD j 0 * probOf rest s := by
  simp [probOf]

theorem fullsOf_finish (top : Bool) (pre : List Nat) (arr : List Rat) (ys : List Y) :
    fullsOf (finish top pre arr ys).1 = fullsOf ys := by
  unfold finish
  simp only
  split
  · simp [fullsOf_append, fullsOf]
  · split
    · simp [fullsOf_append, fullsOf]
    · rfl

theorem condsOf_single (s : List Nat) (arr : List Rat) : condsOf [Y.cond s arr] = [(s, arr)] := rfl

theorem find_single (k st : List Nat) (arr : List Rat) :
    [(k, arr)].find? (fun e => e.1 == st) = if k = st then some (k, arr) else none := by
  by_cases h : k = st <;> simp [h]

theorem find_finish_other (top : Bool) (pre : List Nat) (arr : List Rat) (ys : List Y) (htop : top = true → pre = []) (st : List Nat)
    (hne : st ≠ pre) :
    (condsOf (finish top pre arr ys).1).find? (fun e => e.1 == st) = (condsOf ys).find? (fun e => e.1 == st) := by
  have hne' : ¬ pre = st := fun e => hne e.symm
  unfold finish
  simp only
  split
  · rename_i ht
    have : ¬ ([] : List Nat) = st := by rw [← htop ht]; exact hne'
    rw [condsOf_append, condsOf_single, List.find?_append, find_single, if_neg this, Option.or_none]
  · split
    · rw [condsOf_append, condsOf_single, List.find?_append, find_single, if_neg hne', Option.or_none]
    · rfl

theorem find_finish_own (top : Bool) (pre : List Nat) (arr : List Rat) (ys : List Y) (htop : top = true → pre = [])
    (hno : (condsOf ys).find? (fun e => e.1 == pre) = none) :
    (condsOf (finish top pre arr ys).1).find? (fun e => e.1 == pre) =
      if top then some (pre, arr) else if arr.sum != 0 then some (pre, arr.map (· / arr.sum)) else none := by
  unfold finish
  simp only
  split
  · rename_i ht
    have hp := htop ht
    subst hp
    rw [condsOf_append, condsOf_single, List.find?_append, find_single, hno]
    simp
  · rename_i ht
    split
    · rename_i hn
      rw [condsOf_append, condsOf_single, List.find?_append, find_single, hno]
      simp [hn]
    · rename_i hn
      rw [hno]

theorem sum_zero_nonneg : ∀ (l : List Rat), (∀ x ∈ l, 0 ≤ x) → l.sum = 0 → ∀ x ∈ l, x = 0 := by
  intro l
  induction l with
  | nil => simp
  | cons a l ih =>
    intro hnn hs x hx
    have ha : 0 ≤ a := hnn a (by simp)
    have hl : 0 ≤ l.sum := List.sum_nonneg (fun y hy => hnn y (List.mem_cons_of_mem _ hy))
    simp only [List.sum_cons] at hs
    have ha0 : a = 0 := by linarith
    have hl0 : l.sum = 0 := by linarith
    rcases List.mem_cons.1 hx with h | h
    · rw [h]; exact ha0
    · exact ih (fun y hy => hnn y (List.mem_cons_of_mem _ hy)) hl0 x h

theorem getD_zero_of_all_zero (l : List Rat) (h : ∀ x ∈ l, x = 0) (j : Nat) : l.getD j 0 = 0 := by
  rw [List.getD_eq_getElem?_getD]
  cases hj : l[j]? with
  | none => rfl
  | some x => simp; exact h x (List.mem_of_getElem? hj)

/-- what a node that closes with `finish` contributes: the law through its own table -/
theorem node_law (all : List (List Rat)) (top : Bool) (pre : List Nat) (arr : List Rat) (ys : List Y) (n : Nat) (T : Nat → List Nat → Rat)
    (htop : top = true → pre = [])
    (hkeys : ∀ y ∈ ys, ∃ i, pre ++ [i] <+: keyOf y)
    (harr : ∀ x ∈ arr, 0 ≤ x)
    (hval : ∀ j s', s'.length = n → arr.getD j 0 * law all (condsOf ys) (pre ++ [j]) s' = T j s') :
    ∀ j s', s'.length = n →
      law all (condsOf (finish top pre arr ys).1) pre (j :: s') * (if top then 1 else arr.sum) = T j s' := by
  intro j s' hs'
  have hno : (condsOf ys).find? (fun e => e.1 == pre) = none := by
    rw [List.find?_eq_none]
    intro e he hc
    have hk : e.1 = pre := by simpa using hc
    obtain ⟨y, hy, hky⟩ := mem_condsOf he
    obtain ⟨i, hi⟩ := hkeys y hy
    rw [hky, hk] at hi
    have := hi.length_le
    simp at this
  have hcong : law all (condsOf (finish top pre arr ys).1) (pre ++ [j]) s' = law all (condsOf ys) (pre ++ [j]) s' := by
    apply law_congr
    intro st hst
    apply find_finish_other top pre arr ys htop
    intro e
    rw [e] at hst
    have := hst.length_le
    simp at this
  unfold law
  rw [find_finish_own top pre arr ys htop hno, hcong]
  by_cases ht : top = true
  · simp only [ht, if_true, mul_one]
    exact hval j s' hs'
  · simp only [ht, Bool.false_eq_true, if_false]
    by_cases hz : arr.sum = 0
    · have hall := sum_zero_nonneg arr harr hz
      have h0 : arr.getD j 0 = 0 := getD_zero_of_all_zero arr hall j
      have := hval j s' hs'
      rw [h0, zero_mul] at this
      simp [hz, ← this]
    · have hne : (arr.sum != 0) = true := by simpa using hz
      simp only [hne, if_true]
      rw [← hval j s' hs']
      have : (arr.map (· / arr.sum)).getD j 0 = arr.getD j 0 / arr.sum := by
        simp only [List.getD_eq_getElem?_getD, List.getElem?_map]
        cases arr[j]? <;> simp
      rw [this]
      field_simp

theorem dfs_none_nil (thr atol : Rat) : ∀ (rows : List (List Rat)) (top : Bool) (pre : List Nat) (p : Rat),
    (dfs thr atol rows top pre p).2 = none → (dfs thr atol rows top pre p).1 = [] := by
  intro rows
  induction rows with
  | nil => intro top pre p _; simp [dfs]
  | cons row rest ih =>
    intro top pre p h
    cases rest with
    | nil =>
      simp only [dfs] at h ⊢
      split at h
      · rename_i he
        simp at he
        simp [he]
      · rw [(finish_mass top pre _ _).2] at h
        simp at h
    | cons r2 rest' =>
      simp only [dfs] at h ⊢
      split at h
      · rename_i hall
        simp only [hall, if_true]
        rw [List.flatMap_eq_nil_iff]
        intro k hk
        rw [List.all_eq_true] at hall
        have hn := hall k hk
        obtain ⟨jx, _, rfl⟩ := List.mem_map.1 hk
        exact ih false _ _ (by simpa using hn)
      · rw [(finish_mass top pre _ _).2] at h
        simp at h

theorem getD_weighted (row : List Rat) (c : Nat → Rat) (j : Nat) :
    (row.zipIdx.map (fun (x : Rat × Nat) => x.1 * c x.2)).getD j 0 = row.getD j 0 * c j := by
  rw [zipIdx_map_range]
  simp only [List.getD_eq_getElem?_getD, List.getElem?_map]
  by_cases hj : j < row.length
  · simp [List.getElem?_range hj, List.getElem?_eq_getElem hj]
  · have h1 : (List.range row.length)[j]? = none := by simp; omega
    have h2 : row[j]? = none := by simp; omega
    simp [h1, h2]

theorem weighted_nonneg (row : List Rat) (c : Nat → Rat) (hrow : ∀ x ∈ row, 0 ≤ x) (hc : ∀ j, 0 ≤ c j) :
    ∀ x ∈ row.zipIdx.map (fun (x : Rat × Nat) => x.1 * c x.2), 0 ≤ x := by
  intro x hx
  obtain ⟨y, hy, rfl⟩ := List.mem_map.1 hx
  have : y.1 ∈ row := by
    have := List.fst_mem_of_mem_zipIdx (x := y) hy
    exact this
  exact mul_nonneg (hrow _ this) (hc _)

theorem fullsOf_map_full {α : Type} (l : List α) (f : α → List Nat) (g : α → Rat) :
    fullsOf (l.map fun a => Y.full (f a) (g a)) = l.map f := by
  induction l with
  | nil => rfl
  | cons a l ih => simp only [List.map_cons]; rw [← ih]; rfl

def NonnegRows (rows : List (List Rat)) : Prop := ∀ r ∈ rows, ∀ x ∈ r, 0 ≤ x

theorem drop_succ_of_drop {α : Type} (all : List α) (n : Nat) (a : α) (rest : List α) (h : all.drop n = a :: rest) :
    all.drop (n + 1) = rest := by
  have : all.drop (n + 1) = (all.drop n).drop 1 := by rw [List.drop_drop]
  rw [this, h]; rfl

/-- **T04.4 at every node** (cut-off 0, non-negative rows).  Below a node standing at `pre`, the probability that the recursive
sampler — which consults exactly the tables yielded beneath the node — completes `pre` by `s`, multiplied by the residual mass the
node reports (for the top level: the unnormalised table is used as it is), equals the joint probability of `s` if the completed map
was not emitted as an exact weight, and zero if it was. -/
theorem dfs_law (thr : Rat) : ∀ (rows : List (List Rat)) (top : Bool) (pre : List Nat) (p : Rat) (all : List (List Rat)),
    (top = true → pre = []) → all.drop pre.length = rows → NonnegRows rows →
    0 ≤ resid (dfs thr 0 rows top pre p).2 ∧
    ∀ s, s.length = rows.length →
      law all (condsOf (dfs thr 0 rows top pre p).1) pre s * (if top then 1 else resid (dfs thr 0 rows top pre p).2) =
        if pre ++ s ∈ fullsOf (dfs thr 0 rows top pre p).1 then 0 else probOf rows s := by
  intro rows
  induction rows with
  | nil =>
    intro top pre p all _ _ _
    refine ⟨by simp [dfs, resid], ?_⟩
    intro s hs
    have : s = [] := by simpa using hs
    subst this
    simp [dfs, law, resid, fullsOf, probOf]
  | cons row rest ih =>
    intro top pre p all htop hall hnn
    have hrow : ∀ x ∈ row, 0 ≤ x := hnn row (by simp)
    obtain ⟨v, hv, hvis⟩ := visited_eq thr p row
    -- a node without exact weights beneath: no tables, everything is drawn independently
    have hnone : ∀ (out : List Y × Option Rat), out.2 = none → out.1 = [] →
        0 ≤ resid out.2 ∧ ∀ s, s.length = (row :: rest).length →
          law all (condsOf out.1) pre s * (if top then 1 else resid out.2) =
            if pre ++ s ∈ fullsOf out.1 then 0 else probOf (row :: rest) s := by
      intro out h2 h1
      rw [h1, h2]
      refine ⟨by simp [resid], ?_⟩
      intro s _
      have : condsOf [] = [] := rfl
      rw [this, law_nil, hall]
      simp [resid, fullsOf]
    cases rest with
    | nil =>
      by_cases hv0 : v = 0
      · apply hnone
        · simp [dfs, hvis, hv0]
        · simp [dfs, hvis, hv0]
      · have hne : ((List.range v).map (fun j => (j, row.getD j 0))).isEmpty = false := by
          cases v with
          | zero => exact absurd rfl hv0
          | succ n => simp [List.range_succ]
        simp only [dfs, hvis, hne, Bool.false_eq_true, if_false, List.length_map, List.length_range, List.map_map, Function.comp_def]
        rw [(finish_mass top pre _ _).2, zeroSmall_zero, fullsOf_finish]
        have harr : (row.zipIdx.map fun (x : Rat × Nat) => if x.2 < v then (0 : Rat) else x.1) =
            row.zipIdx.map (fun (x : Rat × Nat) => x.1 * (if x.2 < v then (0 : Rat) else 1)) := by
          apply List.map_congr_left
          intro x _
          by_cases h : x.2 < v <;> simp [h]
        rw [harr]
        set c : Nat → Rat := fun j => if j < v then (0 : Rat) else 1 with hc
        have hcn : ∀ j, 0 ≤ c j := by intro j; simp only [hc]; split <;> norm_num
        have hnn' := weighted_nonneg row c hrow hcn
        refine ⟨by simp only [resid]; exact List.sum_nonneg hnn', ?_⟩
        intro s hs
        obtain ⟨j, rfl⟩ : ∃ j, s = [j] := by
          match s, hs with
          | [j], _ => exact ⟨j, rfl⟩
        have hfull : fullsOf ((List.range v).map fun j => Y.full (pre ++ [j]) (p * row.getD j 0)) = (List.range v).map (fun j => pre ++ [j]) :=
          fullsOf_map_full _ _ _
        have := node_law all top pre (row.zipIdx.map (fun (x : Rat × Nat) => x.1 * c x.2))
          ((List.range v).map fun j => Y.full (pre ++ [j]) (p * row.getD j 0)) 0
          (fun j s' => if pre ++ j :: s' ∈ (List.range v).map (fun j => pre ++ [j]) then 0 else probOf [row] (j :: s'))
          htop
          (by
            intro y hy
            obtain ⟨i, _, rfl⟩ := List.mem_map.1 hy
            exact ⟨i, by simp [keyOf]⟩)
          hnn'
          (by
            intro j s' hs'
            have : s' = [] := by simpa using hs'
            subst this
            rw [getD_weighted]
            simp only [law, mul_one, probOf_cons, hc]
            by_cases hj : j < v
            · simp [hj]
            · simp [hj, probOf])
          j [] rfl
        simp only [resid]
        rw [hfull]
        exact this
    | cons r2 rest' =>
      have hnn2 : NonnegRows (r2 :: rest') := fun r hr => hnn r (List.mem_cons_of_mem _ hr)
      set D : Nat → List Y × Option Rat := fun j => dfs thr 0 (r2 :: rest') false (pre ++ [j]) (p * row.getD j 0) with hD
      have hdrop : ∀ j, all.drop (pre ++ [j]).length = r2 :: rest' := by
        intro j
        simp only [List.length_append, List.length_singleton]
        exact drop_succ_of_drop all pre.length row _ hall
      have hIH := fun j => ih false (pre ++ [j]) (p * row.getD j 0) all (by simp) (hdrop j) hnn2
      have hkeysD : ∀ i, ∀ y ∈ (D i).1, pre ++ [i] <+: keyOf y :=
        fun i y hy => dfs_keys thr 0 (r2 :: rest') false (pre ++ [i]) _ (by simp) y hy
      have hdfs : dfs thr 0 (row :: r2 :: rest') top pre p =
          (if ((List.range v).map (fun j => (j, D j))).all (fun k => k.2.2.isNone) then
            (((List.range v).map (fun j => (j, D j))).flatMap (fun k => k.2.1), none)
          else finish top pre (zeroSmall 0 (row.zipIdx.map fun (x : Rat × Nat) =>
              match ((List.range v).map (fun j => (j, D j))).find? (fun k => k.1 == x.2) with
              | some k => (match k.2.2 with | some norm => x.1 * norm | none => x.1)
              | none => x.1)) (((List.range v).map (fun j => (j, D j))).flatMap (fun k => k.2.1))) := by
        simp only [dfs, hvis, List.map_map, Function.comp_def, hD]
        rfl
      have hflat : ((List.range v).map (fun j => (j, D j))).flatMap (fun k => k.2.1) = (List.range v).flatMap (fun j => (D j).1) := by
        rw [List.flatMap_map]
      rw [hdfs, hflat]
      by_cases hallN : ((List.range v).map (fun j => (j, D j))).all (fun k => k.2.2.isNone) = true
      · simp only [hallN, if_true]
        refine hnone ((List.range v).flatMap (fun j => (D j).1), none) rfl ?_
        show (List.range v).flatMap (fun j => (D j).1) = []
        rw [List.flatMap_eq_nil_iff]
        intro j hj
        rw [List.all_eq_true] at hallN
        have hn := hallN (j, D j) (List.mem_map.2 ⟨j, hj, rfl⟩)
        have hn' : (D j).2 = none := by simpa using hn
        exact dfs_none_nil thr 0 (r2 :: rest') false (pre ++ [j]) (p * row.getD j 0) hn'
      · have hall' : ((List.range v).map (fun j => (j, D j))).all (fun k => k.2.2.isNone) = false := by simpa using hallN
        simp only [hall', Bool.false_eq_true, if_false]
        rw [(finish_mass top pre _ _).2, zeroSmall_zero, fullsOf_finish]
        set c : Nat → Rat := fun j => if j < v then resid (D j).2 else 1 with hc
        have harr : (row.zipIdx.map fun (x : Rat × Nat) =>
              match ((List.range v).map (fun j => (j, D j))).find? (fun k => k.1 == x.2) with
              | some k => (match k.2.2 with | some norm => x.1 * norm | none => x.1)
              | none => x.1) = row.zipIdx.map (fun (x : Rat × Nat) => x.1 * c x.2) := by
          apply List.map_congr_left
          intro x _
          rw [find_kids v D x.2]
          simp only [hc]
          by_cases h : x.2 < v
          · simp only [h, if_true]
            cases (D x.2).2 <;> simp [resid]
          · simp [h]
        rw [harr]
        have hcn : ∀ j, 0 ≤ c j := by
          intro j
          simp only [hc]
          split
          · exact (hIH j).1
          · norm_num
        have hnn' := weighted_nonneg row c hrow hcn
        refine ⟨by simp only [resid]; exact List.sum_nonneg hnn', ?_⟩
        intro s hs
        obtain ⟨j, s', rfl, hs'⟩ : ∃ j s', s = j :: s' ∧ s'.length = (r2 :: rest').length := by
          match s, hs with
          | j :: s', h => exact ⟨j, s', rfl, by simpa using h⟩
        have := node_law all top pre (row.zipIdx.map (fun (x : Rat × Nat) => x.1 * c x.2))
          ((List.range v).flatMap (fun j => (D j).1)) (r2 :: rest').length
          (fun j s' => if pre ++ j :: s' ∈ fullsOf ((List.range v).flatMap (fun j => (D j).1)) then 0 else probOf (row :: r2 :: rest') (j :: s'))
          htop
          (by
            intro y hy
            obtain ⟨i, _, hyi⟩ := List.mem_flatMap.1 hy
            exact ⟨i, hkeysD i y hyi⟩)
          hnn'
          (by
            intro j s' hs'
            rw [getD_weighted, probOf_cons]
            simp only [mem_fulls_flatMap v (fun j => (D j).1) pre s' j hkeysD]
            by_cases hj : j < v
            · have hcong : law all (condsOf ((List.range v).flatMap (fun j => (D j).1))) (pre ++ [j]) s' = law all (condsOf (D j).1) (pre ++ [j]) s' := by
                apply law_congr
                intro st hst
                rw [find_restrict v (fun j => (D j).1) pre st j hkeysD hst, if_pos hj]
              have hI := (hIH j).2 s' hs'
              simp only [Bool.false_eq_true, if_false] at hI
              rw [hcong]
              simp only [hc, hj, if_true, true_and]
              rw [mul_assoc, mul_comm (resid (D j).2), hI]
              split <;> simp
            · have hcong : law all (condsOf ((List.range v).flatMap (fun j => (D j).1))) (pre ++ [j]) s' = law all [] (pre ++ [j]) s' := by
                apply law_congr
                intro st hst
                rw [find_restrict v (fun j => (D j).1) pre st j hkeysD hst, if_neg hj]
                rfl
              rw [hcong, law_nil, hdrop j]
              simp [hc, hj])
          j s' hs'
        simp only [resid]
        exact this

/-- top level, sorted rows, table as yielded (unnormalised): the sampler's law of a joint map is its probability if it was not
emitted as an exact weight, and zero if it was -/
theorem genSorted_law (rows : List (List Rat)) (thr : Rat) (hnn : NonnegRows rows) (s : List Nat) (hs : s.length = rows.length) :
    law rows (condsOf (genSorted rows thr 0)) [] s = if s ∈ fullsOf (genSorted rows thr 0) then 0 else probOf rows s := by
  have := (dfs_law thr rows true [] 1 rows (fun _ => rfl) rfl hnn).2 s hs
  simp only [↓reduceIte, mul_one, List.nil_append] at this
  unfold genSorted
  exact this

/-- `_generate_qpd_weights` normalises the top-level table in place -/
def normTop (w : Rat) (C : List (List Nat × List Rat)) : List (List Nat × List Rat) :=
  C.map fun e => if e.1 == [] then (e.1, e.2.map (· / w)) else e

theorem find_normTop (w : Rat) (C : List (List Nat × List Rat)) (st : List Nat) :
    (normTop w C).find? (fun e => e.1 == st) =
      (C.find? (fun e => e.1 == st)).map (fun e => if e.1 == [] then (e.1, e.2.map (· / w)) else e) := by
  unfold normTop
  rw [List.find?_map]
  congr 1
  apply congrArg (fun q => List.find? q C)
  funext e
  simp only [Function.comp]
  split <;> rfl

theorem law_normTop (all : List (List Rat)) (C : List (List Nat × List Rat)) (w : Rat) :
    ∀ (s state : List Nat), state ≠ [] → law all (normTop w C) state s = law all C state s := by
  intro s
  induction s with
  | nil => intro state _; simp [law]
  | cons j s ih =>
    intro state hne
    unfold law
    rw [find_normTop, ih (state ++ [j]) (by simp)]
    cases hf : C.find? (fun e => e.1 == state) with
    | none => simp
    | some e =>
      have hk : e.1 = state := by simpa using List.find?_some hf
      have : ¬ e.1 = [] := by rw [hk]; exact hne
      simp [this]

/-- the single-draw law with the normalised top-level table, times the tail mass, is the law with the table as yielded -/
theorem law_normTop_top (all : List (List Rat)) (C : List (List Nat × List Rat)) (w : Rat) (hw : w ≠ 0) (e : List Nat × List Rat)
    (hf : C.find? (fun e => e.1 == []) = some e) (j : Nat) (s : List Nat) :
    w * law all (normTop w C) [] (j :: s) = law all C [] (j :: s) := by
  unfold law
  rw [find_normTop, hf, law_normTop all C w s ([] ++ [j]) (by simp)]
  have hk : e.1 = [] := by simpa using List.find?_some hf
  have : (e.2.map (· / w)).getD j 0 = e.2.getD j 0 / w := by
    simp only [List.getD_eq_getElem?_getD, List.getElem?_map]
    cases e.2[j]? <;> simp
  simp only [hk, beq_self_eq_true, if_true, Option.map_some, this]
  field_simp

/-- **T04.4 (sorted generator)**: with `w₀` the mass of the top-level table and `⌈N·w₀⌉` draws of weight `N·w₀/⌈N·w₀⌉` each, the
expected weight `⌈N·w₀⌉ · (N·w₀/⌈N·w₀⌉) · law(m)` of every joint map `m` that is not an exact weight is `N · p(m)`; a map that is an
exact weight is never drawn. -/
theorem tail_unbiased (rows : List (List Rat)) (thr n : Rat) (hnn : NonnegRows rows) (e : List Nat × List Rat)
    (hf : (condsOf (genSorted rows thr 0)).find? (fun e => e.1 == []) = some e) (hw : e.2.sum ≠ 0)
    (m : List Nat) (hm : m.length = rows.length) (hrows : rows ≠ []) (needed : Rat) (hneeded : needed ≠ 0) :
    needed * (e.2.sum * n / needed) * law rows (normTop e.2.sum (condsOf (genSorted rows thr 0))) [] m =
      if m ∈ fullsOf (genSorted rows thr 0) then 0 else n * probOf rows m := by
  obtain ⟨j, s, rfl⟩ : ∃ j s, m = j :: s := by
    cases m with
    | nil => cases rows with
      | nil => exact absurd rfl hrows
      | cons _ _ => simp at hm
    | cons j s => exact ⟨j, s, rfl⟩
  have h1 := law_normTop_top rows _ e.2.sum hw e hf j s
  have h2 := genSorted_law rows thr hnn (j :: s) hm
  have : needed * (e.2.sum * n / needed) * law rows (normTop e.2.sum (condsOf (genSorted rows thr 0))) [] (j :: s) =
      n * (e.2.sum * law rows (normTop e.2.sum (condsOf (genSorted rows thr 0))) [] (j :: s)) := by
    field_simp
  rw [this, h1, h2]
  split <;> simp

/-- non-vacuity: a two-basis case with two exact weights and a renormalised tail -/
example : let rows : List (List Rat) := [[1/2, 1/2], [3/4, 1/4]]
    (fullsOf (genSorted rows (1/3) 0) = [[0, 0], [1, 0]]) ∧
    (condsOf (genSorted rows (1/3) 0)).find? (fun e => e.1 == []) = some ([], [1/8, 1/8]) ∧
    law rows (normTop (1/4) (condsOf (genSorted rows (1/3) 0))) [] [0, 1] = 1/2 := by
  decide +kernel

end CKT.C04
