import CKT.Props.C11Meas
import CKT.Sem.Measure
import CKT.Sem.Tie
import Mathlib.Algebra.Ring.Rat
/-!
# C11 — T11.4: the appended measurement circuit, decoded by mask parity, measures the member observables

`measurementInstrs` (the model of `_append_measurement_circuit`, tied to the code by the C11 correspondence run) is, block
for block, the measurement-block circuit of `Sem/Measure`; `decode_measurement` is therefore the Walsh identity for the
circuit the package appends: summing the outcome distribution of the observable register with the sign
`(−1)^{popcount(outcome & mask(member))}` (what `decode`/`reconstruct` do: C06 `parity_sign`, T11.2 for the mask) gives the
expectation value of the member observable in the state before the measurement circuit — for every commuting group,
every member compatible with the group's general observable, any qubit placement that keeps the measured qubits distinct,
and any state in which the observable register is still unwritten.  Semantics: `CKT.Sem` with standard projectors and any
gate matrices in which `h`/`sx` are trace preserving with `Z` row `X`/`Y` (`MeasSem`; these rows are those of the channel
model's gate table: `Sem.h_rows`, `Sem.sx_rows`, `Sem.stdProj_is_channel_ptm`).
-/
namespace CKT.C11
open CKT CKT.Sem

def letterIdx : P → Fin 4
  | .I => 0 | .X => 1 | .Y => 2 | .Z => 3

/-- the block of the `j`-th measured index `i` for a given member -/
def blockFor (general member : PauliStr) (loc : Nat → Nat) (base : Nat) (sq : Nat × Nat) : Block :=
  { q := loc sq.1, c := base + sq.2, l := letterIdx (general.letters.getD sq.1 P.I), e := member.letters.getD sq.1 P.I != P.I }

theorem measBlock_is_block (general member : PauliStr) (loc : Nat → Nat) (base i j : Nat) :
    measBlock general loc base i j = (blockFor general member loc base (i, j)).instrs := by
  unfold measBlock Block.instrs blockFor rotInstrs letterIdx
  cases general.letters.getD i P.I <;> simp

theorem measurementInstrs_blocks (general member : PauliStr) (indices : List Nat) (loc : Nat → Nat) (base : Nat) :
    measurementInstrs general indices loc base =
      blocksInstrs (((measuredIndices indices).zipIdx).map (blockFor general member loc base)) := by
  rw [measurementInstrs_eq, blocksInstrs, List.flatMap_map]
  apply List.flatMap_congr
  intro sq _
  exact measBlock_is_block general member loc base sq.1 sq.2

variable {K : Type} [CommRing K]

/-- **T11.4** for the circuit `_append_measurement_circuit` appends -/
theorem decode_measurement (G : GateSem K) (ms : MeasSem G) (general member : PauliStr) (indices : List Nat) (loc : Nat → Nat)
    (base : Nat) (σ : St K) (k : Cl) (Pz : PStr)
    (hloc : ((measuredIndices indices).map loc).Nodup)
    (hcomp : ∀ i ∈ measuredIndices indices, member.letters.getD i P.I ≠ P.I → general.letters.getD i P.I ≠ P.I)
    (hfresh : ∀ j < (measuredIndices indices).length, Fresh (base + j) σ)
    (hP : ∀ i ∈ measuredIndices indices, Pz (loc i) = 0) :
    let bl := ((measuredIndices indices).zipIdx).map (blockFor general member loc base)
    signedSum (bl.map fun b => (b.c, b.e)) (fun k' => runI G (measurementInstrs general indices loc base) σ k' Pz) k
      = σ (clearBits bl k) (memberStr bl Pz) := by
  intro bl
  rw [measurementInstrs_blocks general member indices loc base]
  apply decode_blocks G ms bl σ k Pz
  · have : bl.map (·.q) = (measuredIndices indices).map loc := by
      simp only [bl, List.map_map, Function.comp_def, blockFor]
      conv_rhs => rw [← List.zipIdx_map_fst 0 (measuredIndices indices), List.map_map]
      rfl
    rw [this]; exact hloc
  · have : bl.map (·.c) = (List.range' 0 (measuredIndices indices).length).map (base + ·) := by
      simp only [bl, List.map_map, Function.comp_def, blockFor]
      rw [← List.zipIdx_map_snd 0 (measuredIndices indices), List.map_map]
      rfl
    rw [this]
    exact (List.nodup_range' (s := 0) (n := (measuredIndices indices).length)).map (fun a b h => by omega)
  · intro b hb he
    simp only [bl, List.mem_map] at hb
    obtain ⟨sq, hsq, rfl⟩ := hb
    have hi : sq.1 ∈ measuredIndices indices := List.fst_mem_of_mem_zipIdx (x := sq) hsq
    have : member.letters.getD sq.1 P.I ≠ P.I := by simpa [blockFor] using he
    have hg := hcomp sq.1 hi this
    simp only [blockFor, letterIdx]
    cases hgl : general.letters.getD sq.1 P.I <;> simp_all
  · intro b hb
    simp only [bl, List.mem_map] at hb
    obtain ⟨sq, hsq, rfl⟩ := hb
    have := List.snd_lt_of_mem_zipIdx (x := sq) hsq
    exact hfresh sq.2 (by simpa using this)
  · intro b hb
    simp only [bl, List.mem_map] at hb
    obtain ⟨sq, hsq, rfl⟩ := hb
    exact hP sq.1 (List.fst_mem_of_mem_zipIdx (x := sq) hsq)

/-- what `memberStr` writes: on the qubit of a block, the member's letter (the general observable's letter where the mask is
set, identity otherwise); elsewhere nothing -/
theorem memberStr_at : ∀ (bl : List Block) (P : PStr), (bl.map (·.q)).Nodup → ∀ b ∈ bl,
    memberStr bl P b.q = if b.e then b.l else 0
  | [], _, _, _, hb => by cases hb
  | x :: rest, P, hq, b, hb => by
    have hq' := List.nodup_cons.1 hq
    rcases List.mem_cons.1 hb with rfl | hb'
    · simp [memberStr]
    · have hne : b.q ≠ x.q := by
        intro e; apply hq'.1; simp only [List.mem_map]; exact ⟨b, hb', e⟩
      simp only [memberStr]
      rw [Function.update_of_ne hne]
      exact memberStr_at rest P hq'.2 b hb'

theorem memberStr_off : ∀ (bl : List Block) (P : PStr) (n : Nat), n ∉ bl.map (·.q) → memberStr bl P n = P n
  | [], _, _, _ => rfl
  | x :: rest, P, n, h => by
    have h' : n ≠ x.q ∧ n ∉ rest.map (·.q) := by simpa using h
    simp only [memberStr]
    rw [Function.update_of_ne h'.1]
    exact memberStr_off rest P n h'.2

/-! ### the hypotheses are satisfiable: the rational gate table -/

def tbl (rows : List (List ℚ)) : TM ℚ := fun a b =>
  match a, b with
  | [x], [y] => (rows.getD x.val []).getD y.val 0
  | _, _ => 0

/-- transfer matrices of `h` and `sx` as computed by the channel model (`Sem.h_rows`, `Sem.sx_rows` pin the rows used) -/
def qGates : GateSem ℚ where
  mat := fun n _ =>
    if n = "h" then tbl [[1, 0, 0, 0], [0, 0, 0, 1], [0, 0, -1, 0], [0, 1, 0, 0]]
    else if n = "sx" then tbl [[1, 0, 0, 0], [0, 1, 0, 0], [0, 0, 0, -1], [0, 0, 1, 0]]
    else tbl [[1, 0, 0, 0], [0, 1, 0, 0], [0, 0, 1, 0], [0, 0, 0, 1]]
  proj := stdProj (1/2)

def qMeasSem : MeasSem qGates where
  hf := 1/2
  half := by norm_num
  proj_std := rfl
  h_tp := by intro y; fin_cases y <;> simp [qGates, tbl]
  h_z := by intro y; fin_cases y <;> simp [qGates, tbl]
  sx_tp := by intro y; fin_cases y <;> simp [qGates, tbl]
  sx_z := by intro y; fin_cases y <;> simp [qGates, tbl]

end CKT.C11
