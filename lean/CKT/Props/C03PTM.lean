import CKT.Props.C03Fresh
import CKT.Props.C03Sem
import CKT.Sem.Instr
import CKT.Sem.Tie
/-!
# C03 — the four laws of `C03Sem` hold in the Pauli-expectation semantics of dynamic circuits

`Rep m s s'` is "the reduced state of `s'` on the positions `m 0, …, m (nq-1)` is `s`": in the Pauli-expectation picture,
`s k P = s' k (place m P)` for every string `P` supported on the logical qubits, where `place m P` carries the letter of
logical qubit `q` at position `m q` and the identity elsewhere.  The four laws (`rep_init`, `rep_gate`, `rep_move`,
`rep_ev`) are proved for any transfer matrices of the named gates and of the measurement projectors, with `Move` =
`reset` of the destination followed by `swap`.  Hence T03.3 holds there without assumed laws:
`transform_preserves_expectations_ptm`.
-/
namespace CKT.C03PTM
open CKT CKT.Sem CKT.C03 CKT.C03Sem

variable {K : Type} [CommRing K]

def place (nq : Nat) (m : Nat → Nat) (P : PStr) : PStr := fun n =>
  match (List.range nq).find? (fun q => m q == n) with
  | some q => P q
  | none => 0

def Supp (nq : Nat) (P : PStr) : Prop := ∀ q, nq ≤ q → P q = 0

def trunc (nq : Nat) (O : PStr) : PStr := fun q => if q < nq then O q else 0

theorem supp_trunc (nq : Nat) (O : PStr) : Supp nq (trunc nq O) := by
  intro q hq; simp [trunc, Nat.not_lt.2 hq]

def Rep (nq : Nat) (m : Nat → Nat) (s s' : St K) : Prop := ∀ k P, Supp nq P → s k P = s' k (place nq m P)

section place
variable {nq : Nat} {m : Nat → Nat}

theorem place_at (hm : InjLt nq m) (P : PStr) (q : Nat) (hq : q < nq) : place nq m P (m q) = P q := by
  unfold place
  cases h : (List.range nq).find? (fun q' => m q' == m q) with
  | none =>
    have := List.find?_eq_none.1 h q (List.mem_range.2 hq)
    simp at this
  | some q0 =>
    have h1 : m q0 = m q := by simpa using List.find?_some h
    have h2 : q0 < nq := List.mem_range.1 (List.mem_of_find?_eq_some h)
    rw [hm q0 q h2 hq h1]

theorem place_off (P : PStr) (n : Nat) (h : ∀ q < nq, m q ≠ n) : place nq m P n = 0 := by
  unfold place
  cases hf : (List.range nq).find? (fun q' => m q' == n) with
  | none => rfl
  | some q0 =>
    have h1 : m q0 = n := by simpa using List.find?_some hf
    have h2 : q0 < nq := List.mem_range.1 (List.mem_of_find?_eq_some hf)
    exact absurd h1 (h q0 h2)

theorem place_cases (P : PStr) (n : Nat) : place nq m P n = 0 ∨ ∃ q < nq, m q = n ∧ place nq m P n = P q := by
  unfold place
  cases hf : (List.range nq).find? (fun q' => m q' == n) with
  | none => exact Or.inl rfl
  | some q0 =>
    have h1 : m q0 = n := by simpa using List.find?_some hf
    have h2 : q0 < nq := List.mem_range.1 (List.mem_of_find?_eq_some hf)
    exact Or.inr ⟨q0, h2, h1, rfl⟩

theorem place_update (hm : InjLt nq m) (P : PStr) (q : Nat) (hq : q < nq) (b : Fin 4) :
    place nq m (Function.update P q b) = Function.update (place nq m P) (m q) b := by
  funext n
  by_cases hn : n = m q
  · subst hn
    rw [place_at hm _ q hq]; simp
  · rw [Function.update_of_ne hn]
    unfold place
    cases hf : (List.range nq).find? (fun q' => m q' == n) with
    | none => rfl
    | some q0 =>
      have h1 : m q0 = n := by simpa using List.find?_some hf
      have : q0 ≠ q := fun e => hn (by rw [← h1, e])
      simp [Function.update_of_ne this]

theorem place_updL (hm : InjLt nq m) : ∀ (qs : List Nat) (bs : List (Fin 4)) (P : PStr), (∀ q ∈ qs, q < nq) →
    place nq m (updL P qs bs) = updL (place nq m P) (qs.map m) bs
  | [], _, _, _ => by simp [updL]
  | _ :: _, [], _, _ => by simp [updL]
  | q :: qs, b :: bs, P, h => by
    simp only [updL, List.map_cons]
    rw [place_update hm _ q (h q (by simp)) b, place_updL hm qs bs P (fun q' hq' => h q' (by simp [hq']))]

theorem map_place (hm : InjLt nq m) (P : PStr) (qs : List Nat) (h : ∀ q ∈ qs, q < nq) :
    (qs.map m).map (place nq m P) = qs.map P := by
  rw [List.map_map]
  apply List.map_congr_left
  intro q hq
  exact place_at hm P q (h q hq)

theorem supp_updL (P : PStr) (hP : Supp nq P) : ∀ (qs : List Nat) (bs : List (Fin 4)), (∀ q ∈ qs, q < nq) →
    Supp nq (updL P qs bs)
  | [], _, _ => by simpa [updL] using hP
  | _ :: _, [], _ => by simpa [updL] using hP
  | q :: qs, b :: bs, h => by
    intro n hn
    simp only [updL]
    have : n ≠ q := by have := h q (by simp); omega
    rw [Function.update_of_ne this]
    exact supp_updL P hP qs bs (fun q' hq' => h q' (by simp [hq'])) n hn

/-- acting on logical qubits = acting on the positions that hold them (one vector) -/
theorem applyL_rep (hm : InjLt nq m) (qs : List Nat) (M : TM K) (v v' : Vec K) (h : ∀ q ∈ qs, q < nq)
    (hv : ∀ P, Supp nq P → v P = v' (place nq m P)) :
    ∀ P, Supp nq P → applyL qs M v P = applyL (qs.map m) M v' (place nq m P) := by
  intro P hP
  simp only [applyL, List.length_map]
  apply sumL_congr
  intro bs _
  rw [map_place hm P qs h, ← place_updL hm qs bs P h, hv _ (supp_updL P hP qs bs h)]

end place

/-! ### primitives and instructions under a placement -/

def renamePrim (m : Nat → Nat) : Prim K → Prim K
  | .gate qs M => .gate (qs.map m) M
  | .meas q c pr => .meas (m q) c pr

theorem prim_rep {nq : Nat} {m : Nat → Nat} (hm : InjLt nq m) (p : Prim K) (hp : ∀ q ∈ p.qubits, q < nq) (s s' : St K)
    (h : Rep nq m s s') : Rep nq m (p.act s) ((renamePrim m p).act s') := by
  cases p with
  | gate qs M =>
    intro k P hP
    exact applyL_rep hm qs M (s k) (s' k) hp (h k) P hP
  | meas q c pr =>
    intro k P hP
    simp only [Prim.act, renamePrim]
    apply Finset.sum_congr rfl
    intro o _
    have := applyL_rep hm [q] (pr (k c)) (s (Function.update k c o)) (s' (Function.update k c o)) hp (h _) P hP
    simpa using this

theorem actL_rep {nq : Nat} {m : Nat → Nat} (hm : InjLt nq m) : ∀ (ps : List (Prim K)) (s s' : St K),
    (∀ p ∈ ps, ∀ q ∈ p.qubits, q < nq) → Rep nq m s s' → Rep nq m (actL ps s) (actL (ps.map (renamePrim m)) s')
  | [], _, _, _, h => h
  | p :: ps, s, s', hp, h => by
    simp only [List.map_cons, actL_cons]
    exact actL_rep hm ps _ _ (fun x hx => hp x (List.mem_cons_of_mem _ hx)) (prim_rep hm p (hp p (by simp)) s s' h)

theorem prims_rename (G : GateSem K) (m : Nat → Nat) (i : Instr) :
    prims G none { i with qubits := i.qubits.map m } = (prims G none i).map (renamePrim m) := by
  unfold prims
  have e1 : isBarrier { i with qubits := i.qubits.map m } = isBarrier i := rfl
  have e2 : isReset { i with qubits := i.qubits.map m } = isReset i := rfl
  have e3 : isMoveLike { i with qubits := i.qubits.map m } = isMoveLike i := rfl
  simp only [e1, e2, e3]
  split
  · rfl
  · split
    · cases hq : i.qubits with
      | nil => simp
      | cons q qs => simp [renamePrim]
    · split
      · cases hq : i.qubits with
        | nil => simp
        | cons q qs =>
          cases qs with
          | nil =>
            cases hc : i.clbits with
            | nil => simp
            | cons c cs =>
              cases cs with
              | nil => simp [renamePrim]
              | cons c' cs' => simp
          | cons q' qs' => simp
      · split
        · cases hq : i.qubits with
          | nil => simp
          | cons a qs =>
            cases qs with
            | nil => simp
            | cons b qs' =>
              cases qs' with
              | nil => simp [renamePrim]
              | cons c qs'' => simp
        · simp [renamePrim]

theorem ap_rep (G : GateSem K) {nq : Nat} {m : Nat → Nat} (hm : InjLt nq m) (i : Instr) (hq : ∀ q ∈ i.qubits, q < nq)
    (s s' : St K) (h : Rep nq m s s') :
    Rep nq m (ap G none i s) (ap G none { i with qubits := i.qubits.map m } s') := by
  unfold ap
  rw [prims_rename]
  apply actL_rep hm _ s s' _ h
  intro p hp q hqp
  exact hq q ((prims_support G i p hp).1 q hqp)

/-! ### the Move -/

theorem prims_mkMove (G : GateSem K) (wrap : Bool) (p nb : Nat) :
    prims G none (mkMove wrap p nb) = [Prim.gate [p + 1] resetM, Prim.gate [p, p + 1] swapM] := by
  cases wrap <;> simp [mkMove, prims, isBarrier, isReset, isMoveLike]

theorem move_rep (G : GateSem K) {nq : Nat} (m : Nat → Nat) (s s' : St K) (q : Nat) (wrap : Bool) (nb : Nat)
    (hm : InjLt nq m) (h : Rep nq m s s') (hq : q < nq) (hfree : ∀ q' < nq, m q' ≠ m q + 1) :
    Rep nq (Function.update m q (m q + 1)) s (ap G none (mkMove wrap (m q) nb) s') := by
  have hm' : InjLt nq (Function.update m q (m q + 1)) := by
    intro a b ha hb hab
    by_cases ea : a = q <;> by_cases eb : b = q
    · rw [ea, eb]
    · subst ea
      rw [Function.update_self, Function.update_of_ne eb] at hab
      exact absurd hab.symm (hfree b hb)
    · subst eb
      rw [Function.update_self, Function.update_of_ne ea] at hab
      exact absurd hab (hfree a ha)
    · rw [Function.update_of_ne ea, Function.update_of_ne eb] at hab
      exact hm a b ha hb hab
  intro k P hP
  unfold ap
  rw [prims_mkMove]
  simp only [actL_cons, actL_nil, Prim.act]
  rw [applyL_swap]
  set m' := Function.update m q (m q + 1) with hm'def
  set R := place nq m' P with hR
  have hR1 : R (m q + 1) = P q := by
    have := place_at hm' P q hq
    rwa [hm'def, Function.update_self] at this
  have hR0 : R (m q) = 0 := by
    apply place_off
    intro q' hq' e
    by_cases eq : q' = q
    · subst eq; rw [hm'def, Function.update_self] at e; omega
    · rw [hm'def, Function.update_of_ne eq] at e
      exact eq (hm q' q hq' hq e)
  have hplace : Function.update (Function.update R (m q + 1) (R (m q))) (m q) (R (m q + 1)) = place nq m P := by
    funext n
    by_cases e0 : n = m q
    · subst e0
      rw [Function.update_self, hR1, place_at hm P q hq]
    · rw [Function.update_of_ne e0]
      by_cases e1 : n = m q + 1
      · subst e1
        rw [Function.update_self, hR0, place_off P _ hfree]
      · rw [Function.update_of_ne e1, hR]
        unfold place
        have : (fun q' => m' q' == n) = (fun q' => m q' == n) := by
          funext q'
          by_cases eq : q' = q
          · subst eq
            rw [hm'def, Function.update_self]
            have a1 : (m q' + 1 == n) = false := by simpa using fun e => e1 e.symm
            have a2 : (m q' == n) = false := by simpa using fun e => e0 e.symm
            rw [a1, a2]
          · rw [hm'def, Function.update_of_ne eq]
        rw [this]
  rw [hplace, applyL_reset]
  have hz : place nq m P (m q + 1) = 0 := place_off P _ hfree
  simp only [hz, true_or, if_true]
  rw [h k P hP]
  congr 1
  funext n
  by_cases e : n = m q + 1
  · subst e; simp [hz]
  · rw [Function.update_of_ne e]

/-! ### the initial state and the observables -/

open Classical in
theorem init_rep {nq : Nat} (m : Nat → Nat) (hm : InjLt nq m) : Rep (K := K) nq m init init := by
  intro k P hP
  unfold init
  apply if_congr _ rfl rfl
  apply and_congr Iff.rfl
  constructor
  · intro hall n
    rcases place_cases (nq := nq) (m := m) P n with h0 | ⟨q, _, _, hq⟩
    · exact Or.inl h0
    · rw [hq]; exact hall q
  · intro hall n
    by_cases hn : n < nq
    · have := hall (m n)
      rwa [place_at hm P n hn] at this
    · exact Or.inl (hP n (Nat.le_of_not_lt hn))

/-- **the four laws of `C03Sem.EmbSem` hold in the Pauli-expectation semantics** (observables: Pauli strings on the
logical qubits; values: the expectation per value of the classical register) -/
noncomputable def ptm (G : GateSem K) (nq : Nat) : EmbSem (St K) (St K) PStr (Cl → K) nq where
  ap := ap G none
  ap' := ap G none
  init := init
  init' := init
  Rep := Rep nq
  ev := fun O s k => s k (trunc nq O)
  ev' := fun m O s' k => s' k (place nq m (trunc nq O))
  rep_init := fun m hm => init_rep m hm
  rep_gate := fun m s s' i hm h _ hq => ap_rep G hm i hq s s' h
  rep_move := fun m s s' q wrap nb hm h hq hfree => move_rep G m s s' q wrap nb hm h hq hfree
  rep_ev := fun m s s' O _ h => by
    funext k
    exact (h k _ (supp_trunc nq O)).symm

/-- **T03.3 in the Pauli-expectation semantics** (no assumed laws): on the circuit produced by `cut_wires`
(markers replaced by Moves, plain or wrapped as cut placeholders), the expectation of every Pauli observable whose
letters are moved to `finalPos` — for every value of the classical register — is the expectation of the observable
on the original circuit with the markers ignored, whatever the gates mean -/
theorem transform_preserves_expectations_ptm (G : GateSem K) (wrap : Bool) (c : Circuit) (qregs : List (String × List Nat))
    (nb : Nat) (O : PStr) (hq : QubitsInRange c.nq c.instrs) (hm : MarkersInRange c.nq c.instrs) (k : Cl) :
    run' (ptm G c.nq) (transformCutWires wrap c qregs nb).instrs init k (place c.nq (finalPos c.instrs) (trunc c.nq O)) =
      runOrig (ptm G c.nq) c.instrs init k (trunc c.nq O) :=
  congrFun (transform_preserves_expectations (ptm G c.nq) wrap c qregs nb O rfl hq hm) k

end CKT.C03PTM
