import CKT.Model.Weights
import Mathlib.Data.List.Basic
import Mathlib.Data.List.TakeWhile
import Mathlib.Algebra.Order.Field.Rat
import Mathlib.Algebra.Order.Floor.Ring
import Mathlib.Data.Rat.Floor
import Mathlib.Algebra.BigOperators.Group.List.Basic
import Mathlib.Tactic.Linarith
import Mathlib.Tactic.Positivity
/-!
# C04 — joint weights: exact above threshold, never below, bounded in number; infinite budget
-/
namespace CKT.C04
open CKT

/-! ## T04.5 infinite budget -/

/-- with an infinite budget the result is the exact table, whatever the sampler would have drawn -/
theorem infinite_budget (rows : List (List Rat)) (atol : Rat) (d1 d2 : Draws) :
    generateWeights rows none atol d1 = .ok (allExact rows atol 1) ∧
    generateWeights rows none atol d1 = generateWeights rows none atol d2 := ⟨rfl, rfl⟩

/-- the exact table holds precisely the joint maps whose probability is not below the cut-off,
each with `mult ·` its probability, marked exact -/
theorem mem_allExact (rows : List (List Rat)) (atol mult : Rat) (w : Weight) :
    w ∈ allExact rows atol mult ↔
      w.key ∈ productIdx (rows.map List.length) ∧ ¬ (probOf rows w.key < atol) ∧
      w.w = mult * probOf rows w.key ∧ w.ty = WType.exact := by
  unfold allExact
  rw [List.mem_filterMap]
  constructor
  · rintro ⟨key, hk, h⟩
    by_cases hp : probOf rows key < atol
    · simp [hp] at h
    · simp only [hp, if_false, Option.some.injEq] at h
      subst h
      exact ⟨hk, hp, rfl, rfl⟩
  · rintro ⟨hk, hp, hw, ht⟩
    refine ⟨w.key, hk, ?_⟩
    simp only [hp, if_false, Option.some.injEq]
    cases w; simp_all

/-- no map of probability zero is ever included in an exact table (for a positive cut-off) -/
theorem allExact_no_zero (rows : List (List Rat)) (atol mult : Rat) (hat : 0 < atol) (w : Weight)
    (h : w ∈ allExact rows atol mult) : probOf rows w.key ≠ 0 := by
  have := ((mem_allExact rows atol mult w).1 h).2.1
  intro h0; rw [h0] at this; exact this hat

/-! ## refusal -/

theorem refuses_small_budget (rows : List (List Rat)) (n atol : Rat) (d : Draws) (h : n < 1) :
    ∃ e, generateWeights rows (some n) atol d = .error (.value e) := by
  unfold generateWeights
  have : ¬ (1 ≤ n) := not_le.mpr h
  simp [this]

/-! ## exact entries lie at or above the threshold -/

theorem visited_ge (thr p : Rat) (row : List Rat) : ∀ jx ∈ visited thr p row, thr ≤ p * jx.2 := by
  intro jx h
  have := List.mem_takeWhile_imp h
  simpa using this

theorem visited_entry (thr p : Rat) (row : List Rat) : ∀ jx ∈ visited thr p row, row[jx.1]? = some jx.2 := by
  intro jx h
  have hm : jx ∈ row.zipIdx.map (fun (x : Rat × Nat) => (x.2, x.1)) := (List.takeWhile_sublist _).subset h
  simp only [List.mem_map] at hm
  obtain ⟨x, hx, rfl⟩ := hm
  have := List.mem_zipIdx hx
  simp at this
  obtain ⟨h1, h2⟩ := this
  simp [List.getElem?_eq_getElem h1, h2]

/-- every full state yielded by the depth-first walk carries a probability that is at least the threshold -/
theorem dfs_full_ge (thr atol : Rat) : ∀ (rows : List (List Rat)) (top : Bool) (pre : List Nat) (p : Rat),
    ∀ y ∈ (dfs thr atol rows top pre p).1, ∀ s q, y = Y.full s q → thr ≤ q := by
  intro rows
  induction rows with
  | nil => intro top pre p y hy; simp [dfs] at hy
  | cons row rest ih =>
    intro top pre p y hy s q hyq
    cases rest with
    | nil =>
      simp only [dfs] at hy
      have hy' : y ∈ (visited thr p row).map (fun jx => Y.full (pre ++ [jx.1]) (p * jx.2)) ∨
          ∃ t a, y = Y.cond t a := by
        split at hy
        · left; exact hy
        · unfold finish at hy
          simp only at hy
          split at hy
          · rcases List.mem_append.1 hy with h | h
            · left; exact h
            · right; simp at h; exact ⟨_, _, h⟩
          · split at hy
            · rcases List.mem_append.1 hy with h | h
              · left; exact h
              · right; simp at h; exact ⟨_, _, h⟩
            · left; exact hy
      rcases hy' with h | ⟨t, a, h⟩
      · simp only [List.mem_map] at h
        obtain ⟨jx, hjx, rfl⟩ := h
        injection hyq with _ hq
        rw [← hq]; exact visited_ge thr p row jx hjx
      · rw [h] at hyq; cases hyq
    | cons r2 rest' =>
      simp only [dfs] at hy
      have hkids : ∀ y' ∈ ((visited thr p row).map fun jx => (jx.1, dfs thr atol (r2 :: rest') false (pre ++ [jx.1]) (p * jx.2))).flatMap (fun k => k.2.1),
          ∀ s q, y' = Y.full s q → thr ≤ q := by
        intro y' hy' s' q' he
        simp only [List.mem_flatMap, List.mem_map] at hy'
        obtain ⟨k, ⟨jx, _, rfl⟩, hk⟩ := hy'
        exact ih false _ _ y' hk s' q' he
      have hy' : y ∈ ((visited thr p row).map fun jx => (jx.1, dfs thr atol (r2 :: rest') false (pre ++ [jx.1]) (p * jx.2))).flatMap (fun k => k.2.1) ∨
          ∃ t a, y = Y.cond t a := by
        split at hy
        · left; exact hy
        · unfold finish at hy
          simp only at hy
          split at hy
          · rcases List.mem_append.1 hy with h | h
            · left; exact h
            · right; simp at h; exact ⟨_, _, h⟩
          · split at hy
            · rcases List.mem_append.1 hy with h | h
              · left; exact h
              · right; simp at h; exact ⟨_, _, h⟩
            · left; exact hy
      rcases hy' with h | ⟨t, a, h⟩
      · exact hkids y h s q hyq
      · rw [h] at hyq; cases hyq

/-! ## T04.1 pruning is sound: nothing at or above the threshold is missed -/

/-- probability vectors: entries in `[0,1]`, listed largest first -/
def SortedProb (row : List Rat) : Prop := (∀ x ∈ row, 0 ≤ x ∧ x ≤ 1) ∧ row.Pairwise (· ≥ ·)

/-- the running product along a joint map, associated the way the walk computes it -/
def walk : Rat → List (List Rat) → List Nat → Rat
  | p, row :: rows, j :: m => walk (p * row.getD j 0) rows m
  | p, _, _ => p

private theorem walk_le (rows : List (List Rat)) : ∀ (m : List Nat) (q : Rat), 0 ≤ q →
    (∀ row ∈ rows, ∀ x ∈ row, 0 ≤ x ∧ x ≤ 1) → 0 ≤ walk q rows m ∧ walk q rows m ≤ q := by
  induction rows with
  | nil => intro m q hq _; cases m <;> simp [walk, hq]
  | cons row rows ih =>
    intro m q hq h
    cases m with
    | nil => simp [walk, hq]
    | cons j m =>
      simp only [walk]
      have hx : 0 ≤ row.getD j 0 ∧ row.getD j 0 ≤ 1 := by
        by_cases hj : j < row.length
        · have := h row (by simp) row[j] (List.getElem_mem hj)
          simpa [List.getD_eq_getElem?_getD, List.getElem?_eq_getElem hj] using this
        · simp [List.getD_eq_getElem?_getD, List.getElem?_eq_none (Nat.le_of_not_lt hj)]
      have hq' : 0 ≤ q * row.getD j 0 := mul_nonneg hq hx.1
      have := ih m (q * row.getD j 0) hq' (fun r hr => h r (List.mem_cons_of_mem _ hr))
      refine ⟨this.1, this.2.trans ?_⟩
      calc q * row.getD j 0 ≤ q * 1 := mul_le_mul_of_nonneg_left hx.2 hq
        _ = q := mul_one q

private theorem mem_takeWhile_of_all_before {α : Type} (pr : α → Bool) : ∀ (l : List α) (i : Nat) (hi : i < l.length),
    (∀ k (hk : k < l.length), k ≤ i → pr l[k] = true) → l[i] ∈ l.takeWhile pr := by
  intro l
  induction l with
  | nil => intro i hi; simp at hi
  | cons a l ih =>
    intro i hi h
    have ha : pr a = true := h 0 (by simp) (Nat.zero_le _)
    rw [List.takeWhile_cons, ha]
    cases i with
    | zero => simp
    | succ i =>
      simp only [List.getElem_cons_succ, if_true]
      apply List.mem_cons_of_mem
      apply ih i (by simpa using hi)
      intro k hk hki
      have := h (k + 1) (by simpa using hk) (by omega)
      simpa using this

theorem mem_visited (thr p : Rat) (row : List Rat) (hs : SortedProb row) (hp : 0 ≤ p) (j : Nat) (hj : j < row.length)
    (h : thr ≤ p * row[j]) : (j, row[j]) ∈ visited thr p row := by
  unfold visited
  have hlen : j < (row.zipIdx.map (fun (x : Rat × Nat) => (x.2, x.1))).length := by simpa using hj
  have hget : (row.zipIdx.map (fun (x : Rat × Nat) => (x.2, x.1)))[j] = (j, row[j]) := by simp
  rw [← hget]
  apply mem_takeWhile_of_all_before
  intro k hk hkj
  have hk' : k < row.length := by simpa using hk
  simp only [List.getElem_map, List.getElem_zipIdx, Nat.zero_add, Bool.not_eq_true', decide_eq_false_iff_not, not_lt]
  have hge : row[j] ≤ row[k] := by
    rcases Nat.lt_or_ge k j with hlt | hge
    · exact (List.pairwise_iff_getElem.1 hs.2) k j hk' hj hlt
    · have : k = j := by omega
      subst this; exact le_refl _
  calc thr ≤ p * row[j] := h
    _ ≤ p * row[k] := mul_le_mul_of_nonneg_left hge hp

private theorem fst_subset_finish (top : Bool) (pre : List Nat) (arr : List Rat) (ys : List Y) :
    ∀ y ∈ ys, y ∈ (finish top pre arr ys).1 := by
  intro y hy
  unfold finish
  simp only
  split
  · exact List.mem_append_left _ hy
  · split
    · exact List.mem_append_left _ hy
    · exact hy

/-- **T04.1** every joint map whose probability reaches the threshold is yielded as an exact weight (with exactly
that probability): pruning on the running product never loses one, because rows are sorted and entries lie in [0,1]. -/
theorem dfs_complete (thr atol : Rat) : ∀ (rows : List (List Rat)) (top : Bool) (pre : List Nat) (p : Rat) (m : List Nat),
    0 ≤ p → (∀ row ∈ rows, SortedProb row) → m.length = rows.length →
    (∀ k (hk : k < m.length) (hk' : k < rows.length), m[k] < rows[k].length) → rows ≠ [] →
    thr ≤ walk p rows m → Y.full (pre ++ m) (walk p rows m) ∈ (dfs thr atol rows top pre p).1 := by
  intro rows
  induction rows with
  | nil => intro _ _ _ _ _ _ _ _ hne; exact absurd rfl hne
  | cons row rest ih =>
    intro top pre p m hp hs hlen hidx _ hthr
    cases m with
    | nil => simp at hlen
    | cons j m =>
      have hj : j < row.length := by
        have := hidx 0 (by simp) (by simp)
        simpa only [List.getElem_cons_zero] using this
      have hsr : SortedProb row := hs row (by simp)
      have hrest01 : ∀ r ∈ rest, ∀ x ∈ r, 0 ≤ x ∧ x ≤ 1 := fun r hr => (hs r (List.mem_cons_of_mem _ hr)).1
      have hgetD : row.getD j 0 = row[j] := by simp [List.getD_eq_getElem?_getD, List.getElem?_eq_getElem hj]
      have hx0 : 0 ≤ row[j] := (hsr.1 row[j] (List.getElem_mem hj)).1
      have hp' : 0 ≤ p * row[j] := mul_nonneg hp hx0
      simp only [walk, hgetD] at hthr ⊢
      have hle := (walk_le rest m (p * row[j]) hp' hrest01).2
      have hvis := mem_visited thr p row hsr hp j hj (hthr.trans hle)
      cases rest with
      | nil =>
        have hm : m = [] := by simpa using hlen
        subst hm
        simp only [walk] at hthr ⊢
        simp only [dfs]
        have hy : Y.full (pre ++ [j]) (p * row[j]) ∈ (visited thr p row).map (fun jx => Y.full (pre ++ [jx.1]) (p * jx.2)) :=
          List.mem_map.2 ⟨(j, row[j]), hvis, rfl⟩
        split
        · exact hy
        · exact fst_subset_finish _ _ _ _ _ hy
      | cons r2 rest' =>
        simp only [dfs]
        have hrec := ih false (pre ++ [j]) (p * row[j]) m hp' (fun r hr => hs r (List.mem_cons_of_mem _ hr))
          (by simpa using hlen)
          (fun k hk hk' => by
            have := hidx (k + 1) (by simpa using hk) (by simpa using hk')
            simpa only [List.getElem_cons_succ] using this)
          (by simp) hthr
        have hy : Y.full (pre ++ j :: m) (walk (p * row[j]) (r2 :: rest') m) ∈
            ((visited thr p row).map fun jx => (jx.1, dfs thr atol (r2 :: rest') false (pre ++ [jx.1]) (p * jx.2))).flatMap (fun k => k.2.1) := by
          rw [List.mem_flatMap]
          refine ⟨(j, dfs thr atol (r2 :: rest') false (pre ++ [j]) (p * row[j])), List.mem_map.2 ⟨(j, row[j]), hvis, rfl⟩, ?_⟩
          simpa [List.append_assoc] using hrec
        split
        · exact hy
        · exact fst_subset_finish _ _ _ _ _ hy

/-- an exact weight `p · N` with `p ≥ 1/N` is at least one — so there are at most `⌊(exact mass)·N⌋` of them -/
theorem exact_weight_ge_one (n p : Rat) (hn : 1 ≤ n) (hp : 1 / n ≤ p) : 1 ≤ p * n := by
  have hpos : 0 < n := by linarith
  calc (1 : Rat) = (1 / n) * n := by field_simp
    _ ≤ p * n := by exact mul_le_mul_of_nonneg_right hp (le_of_lt hpos)

/-! ## T04.3 the counting argument: `⌊N − x⌋ + ⌈x⌉ ≤ ⌈N⌉` -/

theorem ceilRat_eq (x : Rat) : ceilRat x = ⌈x⌉ := by
  unfold ceilRat
  have : (-x).floor = ⌊-x⌋ := rfl
  rw [this, Int.floor_neg, neg_neg]

/-- at most `⌊N − x⌋` exact entries (each weighs ≥ 1, together they weigh `N − x`) plus at most `⌈x⌉` sampled
entries (`x` = mass left to sample, `samples_needed = ⌈x⌉`) never exceed `⌈N⌉` entries -/
theorem count_bound (N x : Rat) : ⌊N - x⌋ + ceilRat x ≤ ⌈N⌉ := by
  rw [ceilRat_eq]
  have h1 : ((⌊N - x⌋ : Int) : Rat) ≤ N - x := Int.floor_le _
  have h2 : ((⌈x⌉ : Int) : Rat) < x + 1 := Int.ceil_lt_add_one _
  have h3 : N ≤ ((⌈N⌉ : Int) : Rat) := Int.le_ceil _
  have : ((⌊N - x⌋ + ⌈x⌉ : Int) : Rat) < ((⌈N⌉ + 1 : Int) : Rat) := by push_cast; linarith
  have := Int.cast_lt.mp this
  omega

/-- the number of distinct sampled entries never exceeds the number of samples drawn -/
theorem counter_length_le {α : Type} [DecidableEq α] (l : List α) : (counter l).length ≤ l.length := by
  unfold counter
  rw [List.length_map]
  exact (nodup_uniq l).length_le_of_subset (fun a ha => (mem_uniq a l).1 ha) |>.trans (le_refl _) |> fun h => by
    exact h

/-! non-vacuity: a two-vector example with an exact head and a sampled tail -/
private def exRows : List (List Rat) := [[1/2, 1/4, 1/4], [3/4, 1/4]]
example : ((generateWeights exRows (some 4) (1/100000000000000) [[1, 0, 1], [0, 1, 1]]).toOption.map (fun ws => ws.map (fun w => (w.key, w.w))))
    = some [([0, 0], 3/2), ([1, 0], 5/6), ([1, 1], 5/6)] := by decide +kernel
example : (genSorted [[1/2, 1/4, 1/4], [3/4, 1/4]] (1/4) 0).length = 3 := by decide +kernel

end CKT.C04
