import CKT.Generated.Coeffs
import CKT.Generated.ResetScans
import CKT.Props.C05
/-!
# C05 — the coefficient arithmetic of the model is the translated source

`CKT.Generated.sampledCoeff` is produced on every run from `generate_cutting_experiments` (Python AST → a Lean expression over `Rat`); the
model's `coeffOf`, which the C05 theorems are about, is this expression applied to the weight, the total weight, the product of the kappas
and the product of the chosen maps' coefficients.
-/
namespace CKT.C05Gen
open CKT

/-- **the model's coefficient is the translated expression** -/
theorem coeffOf_translated (bases : List Basis) (total kappa : Rat) (w : Weight) :
    coeffOf bases total kappa w = Generated.sampledCoeff w.w total kappa (actualCoeff bases w.key) := rfl

end CKT.C05Gen
