import Mathlib.Algebra.Algebra.Basic
import Mathlib.Algebra.BigOperators.Group.List.Basic
import Mathlib.Data.List.Sections
import Mathlib.Tactic.Ring
import CKT.Props.C05
import CKT.Props.C06
/-!
# C01 — cutting gates and reconstructing reproduces the uncut expectation values

The mathematics of the round trip, proved once and for all in an arbitrary algebra `R` over a commutative ring `K`
(`R` = superoperators on the density operators of the whole register, product = composition):

* `expansion` (T01.1, multilinearity): a circuit in which some slots are linear combinations `Σᵢ cᵢ • Fᵢ` (the exact
  decompositions of C02) equals the sum, over all joint choices of one term per slot, of the product of the chosen
  coefficients times the circuit with the chosen terms — for any number of slots and terms, in any positions.
* `blocks_factor` (T01.2, structural half): if every operation of block A commutes with every operation of block B
  (operations on disjoint qubits), a circuit that interleaves them in any order equals (all A operations in order) ·
  (all B operations in order).
* `round_trip` (T01.4, abstract): with an evaluation functional that is multiplicative across the two blocks
  (expectation of a product observable in a product initial state), the value of the uncut circuit is
  `Σ_choices (Π_j c_j) · E_A(choice) · E_B(choice)` — which is what `generate_cutting_experiments(∞)` /
  `reconstruct_expectation_values` compute: coefficients `Π c` (C05 `exact_coeff`), estimator `Σᵢ coeffᵢ · Π_p E_{i,p}`
  (C06 `reconstructImpl_eq_spec`).
What is **not** proved in Lean: that the concrete n-qubit channels of Qiskit's gates instantiate `R` with these
commutation and multiplicativity hypotheses (tensor-product structure of quantum mechanics); the end-to-end run of the
correspondence check (independent density-matrix simulation of every subexperiment against the uncut circuit) covers it.
-/
namespace CKT.C01
open List

variable {K R : Type} [CommRing K] [Ring R] [Algebra K R]

/-- value of one slot: `Σᵢ cᵢ • Fᵢ` -/
def slotVal (s : List (K × R)) : R := (s.map fun t => t.1 • t.2).sum

/-- value of one joint choice: `(Π c) • (Π F)` (operators multiplied in circuit order) -/
def choiceVal (ch : List (K × R)) : R := (ch.map (·.1)).prod • (ch.map (·.2)).prod

theorem sum_map_mul_left' (l : List R) (x : R) : x * l.sum = (l.map (x * ·)).sum := by
  induction l with
  | nil => simp
  | cons a l ih => simp [mul_add, ih]

theorem sum_map_mul_right' (l : List R) (x : R) : l.sum * x = (l.map (· * x)).sum := by
  induction l with
  | nil => simp
  | cons a l ih => simp [add_mul, ih]

/-- all joint choices of one element per slot (first slot varies slowest) -/
def choices {α : Type} : List (List α) → List (List α)
  | [] => [[]]
  | s :: rest => s.flatMap fun x => (choices rest).map fun ch => x :: ch

theorem sum_flatMap' {α : Type} (l : List α) (f : α → List R) : (l.flatMap f).sum = (l.map fun a => (f a).sum).sum := by
  induction l with
  | nil => simp
  | cons a l ih => simp [List.flatMap_cons, List.sum_append, ih]

/-- **T01.1 multilinear expansion**: `Π_j (Σᵢ c_{j,i} • F_{j,i}) = Σ_{choices} (Π_j c_{j,m_j}) • Π_j F_{j,m_j}` -/
theorem expansion (slots : List (List (K × R))) :
    (slots.map slotVal).prod = ((choices slots).map choiceVal).sum := by
  induction slots with
  | nil => simp [choices, choiceVal]
  | cons s rest ih =>
    rw [List.map_cons, List.prod_cons, ih, choices, List.map_flatMap, sum_flatMap']
    unfold slotVal
    rw [sum_map_mul_right']
    simp only [List.map_map, Function.comp_def]
    congr 1
    apply List.map_congr_left
    intro t _
    rw [sum_map_mul_left']
    simp only [List.map_map, Function.comp_def]
    congr 1
    apply List.map_congr_left
    intro ch _
    simp only [choiceVal, List.map_cons, List.prod_cons]
    rw [smul_mul_smul_comm]

/-- **T01.2 (structural half)**: a circuit interleaving two mutually commuting families equals the product of the two
sub-circuits (each in its own order).  Tag `true` = block A, `false` = block B. -/
theorem blocks_factor (ops : List (Bool × R))
    (hc : ∀ x ∈ ops, ∀ y ∈ ops, x.1 = true → y.1 = false → Commute x.2 y.2) :
    (ops.map (·.2)).prod = ((ops.filter (·.1)).map (·.2)).prod * ((ops.filter (fun o => !o.1)).map (·.2)).prod := by
  induction ops with
  | nil => simp
  | cons o rest ih =>
    have ih' := ih (fun x hx y hy => hc x (List.mem_cons_of_mem _ hx) y (List.mem_cons_of_mem _ hy))
    rcases o with ⟨tag, r⟩
    cases tag with
    | true =>
      simp only [List.map_cons, List.prod_cons, List.filter_cons, Bool.not_true, if_true, Bool.false_eq_true, if_false]
      rw [ih', mul_assoc]
    | false =>
      simp only [List.map_cons, List.prod_cons, List.filter_cons, Bool.not_false, if_true, Bool.false_eq_true, if_false]
      rw [ih']
      -- r commutes with every A element of the rest
      have hcomm : Commute r ((rest.filter (·.1)).map (·.2)).prod := by
        apply Commute.list_prod_right
        intro x hx
        simp only [List.mem_map, List.mem_filter] at hx
        obtain ⟨y, ⟨hy, hyt⟩, rfl⟩ := hx
        exact (hc y (List.mem_cons_of_mem _ hy) (false, r) (by simp) hyt rfl).symm
      rw [← mul_assoc, hcomm.eq, mul_assoc]

/-- a term of a slot across two blocks: coefficient, operation on block A, operation on block B
(a block-local gate is `(1, F, 1)` or `(1, 1, F)`; a cut gate contributes one such term per map of its basis) -/
structure Term (K R : Type) where
  c : K
  a : R
  b : R

def termVal (t : Term K R) : R := t.c • (t.a * t.b)

theorem pair_prod_factor (ch : List (Term K R))
    (hc : ∀ x ∈ ch, ∀ y ∈ ch, Commute x.a y.b) :
    (ch.map fun t => t.a * t.b).prod = (ch.map (·.a)).prod * (ch.map (·.b)).prod := by
  induction ch with
  | nil => simp
  | cons t rest ih =>
    simp only [List.map_cons, List.prod_cons]
    rw [ih (fun x hx y hy => hc x (List.mem_cons_of_mem _ hx) y (List.mem_cons_of_mem _ hy))]
    have hcomm : Commute t.b (rest.map (·.a)).prod := by
      apply Commute.list_prod_right
      intro x hx
      simp only [List.mem_map] at hx
      obtain ⟨y, hy, rfl⟩ := hx
      exact (hc y (List.mem_cons_of_mem _ hy) t (by simp)).symm
    calc t.a * t.b * ((rest.map (·.a)).prod * (rest.map (·.b)).prod)
        = t.a * (t.b * (rest.map (·.a)).prod) * (rest.map (·.b)).prod := by simp only [mul_assoc]
      _ = t.a * ((rest.map (·.a)).prod * t.b) * (rest.map (·.b)).prod := by rw [hcomm.eq]
      _ = t.a * (rest.map (·.a)).prod * (t.b * (rest.map (·.b)).prod) := by simp only [mul_assoc]

theorem choices_map {α β : Type} (f : α → β) (slots : List (List α)) :
    choices (slots.map fun s => s.map f) = (choices slots).map fun ch => ch.map f := by
  induction slots with
  | nil => simp [choices]
  | cons s rest ih =>
    simp only [List.map_cons, choices, ih, List.flatMap_map, List.map_flatMap, List.map_map, Function.comp_def, List.map_cons]

theorem mem_choices {α : Type} : ∀ (slots : List (List α)) (ch : List α), ch ∈ choices slots →
    List.Forall₂ (fun x s => x ∈ s) ch slots := by
  intro slots
  induction slots with
  | nil => intro ch h; simp [choices] at h; subst h; exact List.Forall₂.nil
  | cons s rest ih =>
    intro ch h
    simp only [choices, List.mem_flatMap, List.mem_map] at h
    obtain ⟨x, hx, ch', hch', rfl⟩ := h
    exact List.Forall₂.cons hx (ih ch' hch')

theorem mem_choice_slot {α : Type} (slots : List (List α)) (ch : List α) (h : List.Forall₂ (fun x s => x ∈ s) ch slots)
    (z : α) (hz : z ∈ ch) : ∃ s ∈ slots, z ∈ s := by
  induction h with
  | nil => cases hz
  | cons h _ ih =>
    rcases List.mem_cons.1 hz with rfl | hz
    · exact ⟨_, by simp, h⟩
    · obtain ⟨s, hs, hzs⟩ := ih hz
      exact ⟨s, List.mem_cons_of_mem _ hs, hzs⟩

/-- **T01.4 (abstract round trip)**.  `ev` is the value functional of the whole register (`Tr(O · E(ρ₀))`), `evA`, `evB`
those of the two blocks; `hfac` says `ev` is multiplicative across the blocks (product observable, product initial state).
Every slot of the circuit is a list of terms `c • (a·b)` whose A-parts commute with all B-parts.  Then the uncut value is
the sum over all joint choices of `(Π c) · evA(A-circuit of the choice) · evB(B-circuit of the choice)`. -/
theorem round_trip (ev : R →ₗ[K] K) (evA evB : R → K) (slots : List (List (Term K R)))
    (hc : ∀ s ∈ slots, ∀ x ∈ s, ∀ s' ∈ slots, ∀ y ∈ s', Commute x.a y.b)
    (hfac : ∀ ch ∈ choices slots, ev ((ch.map (·.a)).prod * (ch.map (·.b)).prod) = evA (ch.map (·.a)).prod * evB (ch.map (·.b)).prod) :
    ev ((slots.map fun s => (s.map termVal).sum).prod)
      = ((choices slots).map fun ch => (ch.map (·.c)).prod * (evA (ch.map (·.a)).prod * evB (ch.map (·.b)).prod)).sum := by
  have hslots : (slots.map fun s => (s.map termVal).sum) = (slots.map fun s => s.map fun t => (t.c, t.a * t.b)).map slotVal := by
    rw [List.map_map]
    apply List.map_congr_left
    intro s _
    simp only [Function.comp_def, slotVal, List.map_map]
    rfl
  rw [hslots, expansion, choices_map, List.map_map, map_list_sum, List.map_map]
  congr 1
  apply List.map_congr_left
  intro ch hch
  simp only [Function.comp_def, choiceVal, List.map_map, map_smul, smul_eq_mul]
  congr 1
  -- the chosen terms' A parts commute with all B parts: factor the product
  have hmem := mem_choices slots ch hch
  have hcomm : ∀ x ∈ ch, ∀ y ∈ ch, Commute x.a y.b := by
    intro x hx y hy
    obtain ⟨s, hs, hxs⟩ := mem_choice_slot slots ch hmem x hx
    obtain ⟨s', hs', hys⟩ := mem_choice_slot slots ch hmem y hy
    exact hc s hs x hxs s' hs' y hys
  have := pair_prod_factor ch hcomm
  rw [this, hfac ch hch]

/-- non-vacuity: one cut gate with two terms between two local gates, in the commutative algebra `K = R = ℚ` -/
example : choices [[(1 : ℚ), 2], [3]] = [[1, 3], [2, 3]] := by decide

end CKT.C01
