import CKT.Props.C08Wire
import Mathlib.Data.Finset.Card
/-!
# C08 — useless cuts can be removed, wire cuts included: T08.4 in full

`C08Wire.optimize_min_over_plans_any_budget` bounds the reported minimum by every width-feasible plan *without useless cuts*.  Here: a plan
with a useless cut is dominated.  Dropping a useless gate cut changes nothing but the cost (`drop_gcut`).  Dropping a useless wire cut
(`drop_wire`): the wire `d` the cut would have allocated is identified with the wire `o` the qubit was on (`phi`), every later wire moves
down by one; the plan without the cut replays to the `phi`-image of the original bookkeeping (`Sim`), its subcircuits are the `phi`-images of
the original ones — `o` and `d` were in one subcircuit, that is what useless means — so no subcircuit grows (`feasible_drop`), and the cost
falls by a factor four.  By induction on the number of cuts (`prune_exists`) every width-feasible plan is dominated by a width-feasible
plan without useless cuts, hence

  `optimize_min_over_all_plans` — flag set ⇒ the reported overhead is at most the overhead of **every** width-feasible plan.
-/
namespace CKT.C08Wire
open CKT CKT.CF CKT.C07 CKT.C08 CKT.C08Link

/-- identify wire `d` with wire `o`; wires above `d` move down -/
def phi (d o w : Nat) : Nat := if w < d then w else if w = d then o else w - 1

/-- a section of `phi` that avoids `d` -/
def sig (d x : Nat) : Nat := if x < d then x else x + 1

theorem phi_sig (d o x : Nat) : phi d o (sig d x) = x := by
  unfold phi sig
  by_cases h : x < d
  · simp [h]
  · have h1 : ¬ x + 1 < d := by omega
    have h2 : x + 1 ≠ d := by omega
    simp [h, h1, h2]

theorem phi_lt (d o w : Nat) (h : w < d) : phi d o w = w := by simp [phi, h]
theorem phi_d (d o : Nat) : phi d o d = o := by simp [phi]
theorem phi_gt (d o w : Nat) (h : d < w) : phi d o w = w - 1 := by
  have h1 : ¬ w < d := by omega
  have h2 : w ≠ d := by omega
  simp [phi, h1, h2]

/-- the fibres of `phi` are single wires, except `{o, d}` -/
theorem phi_fibre (d o x y : Nat) (hod : o < d) (h : phi d o x = phi d o y) : x = y ∨ (x = d ∧ y = o) ∨ (x = o ∧ y = d) := by
  unfold phi at h
  by_cases hx : x < d <;> by_cases hy : y < d
  · simp only [hx, hy, if_true] at h; exact Or.inl h
  · by_cases hy2 : y = d
    · simp only [hx, hy, hy2, if_true, if_false, lt_irrefl] at h
      subst hy2
      right; right
      constructor
      · simpa using h
      · rfl
    · simp only [hx, hy, hy2, if_true, if_false] at h; omega
  · by_cases hx2 : x = d
    · simp only [hx, hy, hx2, if_true, if_false, lt_irrefl] at h
      subst hx2
      right; left
      constructor
      · rfl
      · simpa using h.symm
    · simp only [hx, hy, hx2, if_true, if_false] at h; omega
  · by_cases hx2 : x = d <;> by_cases hy2 : y = d
    · left; rw [hx2, hy2]
    · simp only [hx, hy, hx2, hy2, if_true, if_false, lt_irrefl] at h; omega
    · simp only [hx, hy, hx2, hy2, if_true, if_false, lt_irrefl] at h; omega
    · simp only [hx, hy, hx2, hy2, if_false] at h; left; omega

/-- the bookkeeping of the plan without the cut is the `phi`-image of the original one -/
structure Sim (ws ws1 : WS) (d o : Nat) : Prop where
  wm : ws1.wm = ws.wm.map (phi d o)
  nw : ws1.nw + 1 = ws.nw
  dlt : d < ws.nw

theorem sim_step (ws ws1 : WS) (d o : Nat) (h : Sim ws ws1 d o) (g : Gate) (c : Choice) : Sim (wsStep ws g c) (wsStep ws1 g c) d o := by
  obtain ⟨hwm, hnw, hd⟩ := h
  have e0 : phi d o ws.nw = ws1.nw := by rw [phi_gt d o ws.nw hd]; omega
  have e1 : phi d o (ws.nw + 1) = ws1.nw + 1 := by rw [phi_gt d o (ws.nw + 1) (by omega)]; omega
  cases c with
  | app => exact ⟨hwm, hnw, hd⟩
  | gcut => exact ⟨hwm, hnw, hd⟩
  | left => exact ⟨by simp only [wsStep, hwm, List.map_set, e0], by simp only [wsStep]; omega, by simp only [wsStep]; omega⟩
  | right => exact ⟨by simp only [wsStep, hwm, List.map_set, e0], by simp only [wsStep]; omega, by simp only [wsStep]; omega⟩
  | both => exact ⟨by simp only [wsStep, hwm, List.map_set, e0, e1], by simp only [wsStep]; omega, by simp only [wsStep]; omega⟩

theorem sim_wire (ws ws1 : WS) (d o : Nat) (h : Sim ws ws1 d o) (q : Nat) (hq : q < ws.wm.length) : ws1.wire q = phi d o (ws.wire q) := by
  simp [WS.wire, h.wm, List.getD_eq_getElem?_getD, List.getElem?_map, List.getElem?_eq_getElem hq]

theorem wsAt_congr (gates : List Gate) (p p1 : Nat → Choice) (n : Nat) : ∀ m, (∀ j, j < m → p1 j = p j) → wsAt gates p1 n m = wsAt gates p n m
  | 0, _ => rfl
  | m + 1, h => by
    simp only [wsAt]
    rw [wsAt_congr gates p p1 n m (fun j hj => h j (by omega)), h m (by omega)]

/-! ### dropping one wire allocation -/

/-- `p1` is `p` with the wire allocation of wire `d` at gate `i` dropped (the qubit stays on wire `o`), and the cut was useless -/
structure Drop (gates : List Gate) (p p1 : Nat → Choice) (n i d o : Nat) : Prop where
  circ : CircOKW gates n
  ilt : i < gates.length
  agree : ∀ j, j ≠ i → p1 j = p j
  nei : p i ≠ .gcut
  nei1 : p1 i ≠ .gcut
  sim : Sim (wsAt gates p n (i + 1)) (wsAt gates p1 n (i + 1)) d o
  dge : (wsAt gates p n i).nw ≤ d
  od : o < d
  useless : ConnP gates p n o d

section
variable {gates : List Gate} {p p1 : Nat → Choice} {n i d o : Nat}

theorem Drop.sim_all (h : Drop gates p p1 n i d o) : ∀ m, i + 1 ≤ m → Sim (wsAt gates p n m) (wsAt gates p1 n m) d o := by
  intro m hm
  induction m with
  | zero => omega
  | succ m ih =>
    by_cases hmi : m = i
    · subst hmi; exact h.sim
    · have ih' := ih (by omega)
      simp only [wsAt]
      cases gates[m]? with
      | none => exact ih'
      | some g =>
        simp only
        rw [h.agree m hmi]
        exact sim_step _ _ d o ih' g (p m)

theorem Drop.before (h : Drop gates p p1 n i d o) (m : Nat) (hm : m ≤ i) : wsAt gates p1 n m = wsAt gates p n m :=
  wsAt_congr gates p p1 n m (fun j hj => h.agree j (by omega))

theorem Drop.wire_rel (h : Drop gates p p1 n i d o) (j q : Nat) (hq : q < n) :
    (wsAt gates p1 n (j + 1)).wire q = phi d o ((wsAt gates p n (j + 1)).wire q) := by
  by_cases hj : j + 1 ≤ i
  · rw [h.before (j + 1) hj]
    have hlt := wsAt_wire_lt gates p n (j + 1) q hq
    have hmono := wsAt_nw_mono gates p n (j + 1) i hj
    rw [phi_lt]
    have := h.dge
    omega
  · exact sim_wire _ _ d o (h.sim_all (j + 1) (by omega)) q (by rw [wsAt_len]; exact hq)

theorem Drop.flag (h : Drop gates p p1 n i d o) (j : Nat) : p1 j ≠ .gcut ↔ p j ≠ .gcut := by
  by_cases hj : j = i
  · subst hj; exact ⟨fun _ => h.nei, fun _ => h.nei1⟩
  · rw [h.agree j hj]

/-- subcircuits of `p` map into subcircuits of `p1` -/
theorem Drop.conn_fwd (h : Drop gates p p1 n i d o) (x y : Nat) (hc : ConnP gates p n x y) : ConnP gates p1 n (phi d o x) (phi d o y) := by
  induction hc with
  | rel x y hxy =>
    obtain ⟨j, g, hg, hne, rfl, rfl⟩ := hxy
    have hmem : g ∈ gates := List.mem_of_getElem? hg
    obtain ⟨hq1, hq2⟩ := h.circ.lt g hmem
    rw [← h.wire_rel j _ hq1, ← h.wire_rel j _ hq2]
    exact Relation.EqvGen.rel _ _ ⟨j, g, hg, (h.flag j).2 hne, rfl, rfl⟩
  | refl x => exact connP_refl _
  | symm x y _ ih => exact connP_symm ih
  | trans x y z _ _ ih1 ih2 => exact connP_trans ih1 ih2

/-- two wires with the same image are in one subcircuit of `p` -/
theorem Drop.fibre_conn (h : Drop gates p p1 n i d o) (x y : Nat) (hxy : phi d o x = phi d o y) : ConnP gates p n x y := by
  rcases phi_fibre d o x y h.od hxy with rfl | ⟨rfl, rfl⟩ | ⟨rfl, rfl⟩
  · exact connP_refl _
  · exact connP_symm h.useless
  · exact h.useless

/-- subcircuits of `p1` pull back into subcircuits of `p` -/
theorem Drop.conn_bwd (h : Drop gates p p1 n i d o) (x' y' : Nat) (hc : ConnP gates p1 n x' y') :
    ∀ x y, phi d o x = x' → phi d o y = y' → ConnP gates p n x y := by
  induction hc with
  | rel x' y' hxy =>
    obtain ⟨j, g, hg, hne, rfl, rfl⟩ := hxy
    have hmem : g ∈ gates := List.mem_of_getElem? hg
    obtain ⟨hq1, hq2⟩ := h.circ.lt g hmem
    intro x y hx hy
    rw [h.wire_rel j _ hq1] at hx
    rw [h.wire_rel j _ hq2] at hy
    exact connP_trans (h.fibre_conn _ _ hx)
      (connP_trans (Relation.EqvGen.rel _ _ ⟨j, g, hg, (h.flag j).1 hne, rfl, rfl⟩) (connP_symm (h.fibre_conn _ _ hy)))
  | refl x' =>
    intro x y hx hy
    exact h.fibre_conn x y (hx.trans hy.symm)
  | symm x' y' _ ih =>
    intro x y hx hy
    exact connP_symm (ih y x hy hx)
  | trans x' y' z' _ _ ih1 ih2 =>
    intro x z hx hz
    exact connP_trans (ih1 x (sig d y') hx (phi_sig d o y')) (ih2 (sig d y') z (phi_sig d o y') hz)

theorem Drop.nw_final (h : Drop gates p p1 n i d o) : (wsAt gates p1 n gates.length).nw + 1 = (wsAt gates p n gates.length).nw :=
  (h.sim_all gates.length (by have := h.ilt; omega)).nw

end

/-! ### counting through an injection -/

theorem countP_range_eq_card (P : Nat → Bool) (N : Nat) : (List.range N).countP P = ((Finset.range N).filter fun x => P x = true).card := by
  induction N with
  | zero => simp
  | succ N ih =>
    rw [countP_range_succ, ih, Finset.range_add_one, Finset.filter_insert]
    by_cases hP : P N = true
    · simp [hP]
    · simp [hP]

theorem countP_le_of_inj (P Q : Nat → Bool) (M N : Nat) (σ : Nat → Nat) (hσ : ∀ x y, σ x = σ y → x = y)
    (hr : ∀ x, x < M → σ x < N) (hPQ : ∀ x, x < M → P x = true → Q (σ x) = true) :
    (List.range M).countP P ≤ (List.range N).countP Q := by
  rw [countP_range_eq_card, countP_range_eq_card]
  apply Finset.card_le_card_of_injOn σ
  · intro x hx
    simp only [Finset.coe_filter, Finset.mem_range, Set.mem_ofPred_eq] at hx ⊢
    exact ⟨hr x hx.1, hPQ x hx.1 hx.2⟩
  · intro x _ y _ hxy
    exact hσ x y hxy

theorem sig_inj (d x y : Nat) (h : sig d x = sig d y) : x = y := by
  unfold sig at h
  by_cases hx : x < d <;> by_cases hy : y < d <;> simp [hx, hy] at h <;> omega

section
variable {gates : List Gate} {p p1 : Nat → Choice} {n i d o W : Nat}

open Classical in
/-- **no subcircuit grows** when a useless wire cut is dropped -/
theorem Drop.feasible (h : Drop gates p p1 n i d o)
    (hf : ∀ w, w < (wsAt gates p n gates.length).nw → compSizeP gates p n w ≤ W) :
    ∀ w, w < (wsAt gates p1 n gates.length).nw → compSizeP gates p1 n w ≤ W := by
  intro w hw
  have hnw := h.nw_final
  have hsw : sig d w < (wsAt gates p n gates.length).nw := by unfold sig; split <;> omega
  refine le_trans ?_ (hf (sig d w) hsw)
  unfold compSizeP
  apply countP_le_of_inj _ _ _ _ (sig d) (sig_inj d)
  · intro x hx; unfold sig; split <;> omega
  · intro x _ hx
    simp only [decide_eq_true_eq] at hx ⊢
    exact h.conn_bwd w x hx (sig d w) (sig d x) (phi_sig d o w) (phi_sig d o x)

end

/-! ### list helpers -/

theorem wsAt_all_lt (gates : List Gate) (p : Nat → Choice) (n m : Nat) : ∀ x ∈ (wsAt gates p n m).wm, x < (wsAt gates p n m).nw := by
  intro x hx
  obtain ⟨q, hq, rfl⟩ := List.getElem_of_mem hx
  have hq' : q < n := by rw [wsAt_len] at hq; exact hq
  have := wsAt_wire_lt gates p n m q hq'
  simp only [WS.wire, List.getD_eq_getElem?_getD, List.getElem?_eq_getElem hq, Option.getD_some] at this
  exact this

theorem map_phi_id (wm : List Nat) (d o : Nat) (h : ∀ x ∈ wm, x < d) : wm.map (phi d o) = wm := by
  conv_rhs => rw [← List.map_id wm]
  apply List.map_congr_left
  intro x hx
  simp [phi_lt d o x (h x hx)]

theorem set_getD_self (wm : List Nat) (q : Nat) (hq : q < wm.length) : wm.set q (wm.getD q 0) = wm := by
  rw [List.getD_eq_getElem?_getD, List.getElem?_eq_getElem hq]
  simp

/-! ### the cost never grows, the number of cuts falls -/

theorem factor_nonneg (g : Gate) (hγ : ∀ x, g.gamma = some x → 1 ≤ x) (c : Choice) : 1 ≤ factor g c := by
  cases c with
  | app => simp [factor]
  | gcut =>
    simp only [factor]
    cases hg : g.gamma with
    | none => simp
    | some x => simpa using hγ x hg
  | left => norm_num [factor]
  | right => norm_num [factor]
  | both => norm_num [factor]

theorem costUpTo_mono (gates : List Gate) (p p1 : Nat → Choice) (hγ : ∀ g ∈ gates, ∀ x, g.gamma = some x → 1 ≤ x)
    (hle : ∀ j g, gates[j]? = some g → factor g (p1 j) ≤ factor g (p j)) :
    ∀ m, 0 ≤ costUpTo gates p1 m ∧ costUpTo gates p1 m ≤ costUpTo gates p m
  | 0 => by simp [costUpTo]
  | m + 1 => by
    obtain ⟨h0, h1⟩ := costUpTo_mono gates p p1 hγ hle m
    simp only [costUpTo]
    cases hg : gates[m]? with
    | none => exact ⟨h0, h1⟩
    | some g =>
      have hmem : g ∈ gates := List.mem_of_getElem? hg
      have f1 := factor_nonneg g (hγ g hmem) (p1 m)
      have f2 := hle m g hg
      simp only
      constructor
      · nlinarith
      · calc costUpTo gates p1 m * factor g (p1 m) ≤ costUpTo gates p1 m * factor g (p m) := by nlinarith
          _ ≤ costUpTo gates p m * factor g (p m) := by nlinarith

def wt : Choice → Nat
  | .app => 0
  | .gcut => 1
  | .left => 1
  | .right => 1
  | .both => 2

/-- number of cuts among the first `m` decisions (a both-wires cut counts twice) -/
def muUpTo (p : Nat → Choice) : Nat → Nat
  | 0 => 0
  | m + 1 => muUpTo p m + wt (p m)

theorem muUpTo_update (p : Nat → Choice) (i : Nat) (c : Choice) : ∀ m,
    muUpTo (Function.update p i c) m + (if i < m then wt (p i) else 0) = muUpTo p m + (if i < m then wt c else 0)
  | 0 => by simp [muUpTo]
  | m + 1 => by
    have ih := muUpTo_update p i c m
    simp only [muUpTo]
    by_cases hmi : m = i
    · subst hmi
      simp only [Function.update_self, lt_irrefl, if_false, Nat.lt_succ_self, if_true] at ih ⊢
      omega
    · rw [Function.update_of_ne hmi]
      by_cases hlt : i < m
      · have : i < m + 1 := by omega
        simp only [hlt, this, if_true] at ih ⊢
        omega
      · have : ¬ i < m + 1 := by omega
        simp only [hlt, this, if_false] at ih ⊢
        omega

theorem mu_lt (p : Nat → Choice) (i m : Nat) (c : Choice) (hi : i < m) (hw : wt c < wt (p i)) :
    muUpTo (Function.update p i c) m < muUpTo p m := by
  have := muUpTo_update p i c m
  simp only [hi, if_true] at this
  omega

/-! ### the four ways of dropping a useless wire cut -/

section
variable {gates : List Gate} {p : Nat → Choice} {n : Nat}

theorem upd_before (p : Nat → Choice) (i : Nat) (c : Choice) (gates : List Gate) (n : Nat) :
    wsAt gates (Function.update p i c) n i = wsAt gates p n i :=
  wsAt_congr gates p _ n i (fun j hj => Function.update_of_ne (by omega) _ _)

theorem upd_succ (p : Nat → Choice) (i : Nat) (c : Choice) (gates : List Gate) (n : Nat) (g : Gate) (hg : gates[i]? = some g) :
    wsAt gates (Function.update p i c) n (i + 1) = wsStep (wsAt gates p n i) g c := by
  rw [ws_succ gates _ n i g hg, upd_before, Function.update_self]

theorem drop_left (hc : CircOKW gates n) (i : Nat) (g : Gate) (hg : gates[i]? = some g) (hci : p i = .left)
    (hconn : ConnP gates p n ((wsAt gates p n i).wire (g.qubits.getD 0 0)) ((wsAt gates p n i).wire (g.qubits.getD 1 0))) :
    Drop gates p (Function.update p i .app) n i (wsAt gates p n i).nw ((wsAt gates p n i).wire (g.qubits.getD 0 0)) := by
  have hmem : g ∈ gates := List.mem_of_getElem? hg
  obtain ⟨hq1, hq2⟩ := hc.lt g hmem
  have hq12 := hc.ne g hmem
  have hlen := wsAt_len gates p n i
  have hs : wsAt gates p n (i + 1) = wsStep (wsAt gates p n i) g .left := by rw [ws_succ gates p n i g hg, hci]
  have hw1 : (wsAt gates p n (i + 1)).wire (g.qubits.getD 0 0) = (wsAt gates p n i).nw := by
    rw [hs]; exact wire_set_same _ _ _ (by rw [hlen]; exact hq1)
  have hw2 : (wsAt gates p n (i + 1)).wire (g.qubits.getD 1 0) = (wsAt gates p n i).wire (g.qubits.getD 1 0) := by
    rw [hs]; exact wire_set_other _ _ _ _ hq12
  have hedge := connP_edge (gates := gates) (p := p) (n := n) i g hg (by rw [hci]; decide)
  rw [hw1, hw2] at hedge
  refine ⟨hc, ?_, fun j hj => Function.update_of_ne hj _ _, by rw [hci]; decide, by rw [Function.update_self]; decide, ?_, le_refl _,
    wsAt_wire_lt gates p n i _ hq1, connP_trans hconn (connP_symm hedge)⟩
  · by_contra h
    rw [List.getElem?_eq_none (not_lt.mp h)] at hg
    cases hg
  · rw [hs, upd_succ p i .app gates n g hg]
    refine ⟨?_, rfl, by simp [wsStep]⟩
    show (wsAt gates p n i).wm = (((wsAt gates p n i).wm.set (g.qubits.getD 0 0) (wsAt gates p n i).nw)).map (phi _ _)
    rw [List.map_set, map_phi_id _ _ _ (wsAt_all_lt gates p n i), phi_d]
    exact (set_getD_self _ _ (by rw [hlen]; exact hq1)).symm

theorem drop_right (hc : CircOKW gates n) (i : Nat) (g : Gate) (hg : gates[i]? = some g) (hci : p i = .right)
    (hconn : ConnP gates p n ((wsAt gates p n i).wire (g.qubits.getD 0 0)) ((wsAt gates p n i).wire (g.qubits.getD 1 0))) :
    Drop gates p (Function.update p i .app) n i (wsAt gates p n i).nw ((wsAt gates p n i).wire (g.qubits.getD 1 0)) := by
  have hmem : g ∈ gates := List.mem_of_getElem? hg
  obtain ⟨hq1, hq2⟩ := hc.lt g hmem
  have hq12 := hc.ne g hmem
  have hlen := wsAt_len gates p n i
  have hs : wsAt gates p n (i + 1) = wsStep (wsAt gates p n i) g .right := by rw [ws_succ gates p n i g hg, hci]
  have hw2 : (wsAt gates p n (i + 1)).wire (g.qubits.getD 1 0) = (wsAt gates p n i).nw := by
    rw [hs]; exact wire_set_same _ _ _ (by rw [hlen]; exact hq2)
  have hw1 : (wsAt gates p n (i + 1)).wire (g.qubits.getD 0 0) = (wsAt gates p n i).wire (g.qubits.getD 0 0) := by
    rw [hs]; exact wire_set_other _ _ _ _ (fun e => hq12 e.symm)
  have hedge := connP_edge (gates := gates) (p := p) (n := n) i g hg (by rw [hci]; decide)
  rw [hw1, hw2] at hedge
  refine ⟨hc, ?_, fun j hj => Function.update_of_ne hj _ _, by rw [hci]; decide, by rw [Function.update_self]; decide, ?_, le_refl _,
    wsAt_wire_lt gates p n i _ hq2, connP_trans (connP_symm hconn) hedge⟩
  · by_contra h
    rw [List.getElem?_eq_none (not_lt.mp h)] at hg
    cases hg
  · rw [hs, upd_succ p i .app gates n g hg]
    refine ⟨?_, rfl, by simp [wsStep]⟩
    show (wsAt gates p n i).wm = (((wsAt gates p n i).wm.set (g.qubits.getD 1 0) (wsAt gates p n i).nw)).map (phi _ _)
    rw [List.map_set, map_phi_id _ _ _ (wsAt_all_lt gates p n i), phi_d]
    exact (set_getD_self _ _ (by rw [hlen]; exact hq2)).symm

theorem drop_both1 (hc : CircOKW gates n) (i : Nat) (g : Gate) (hg : gates[i]? = some g) (hci : p i = .both)
    (hconn : ConnP gates p n ((wsAt gates p n i).wire (g.qubits.getD 0 0)) ((wsAt gates p n (i + 1)).wire (g.qubits.getD 0 0))) :
    Drop gates p (Function.update p i .right) n i (wsAt gates p n i).nw ((wsAt gates p n i).wire (g.qubits.getD 0 0)) := by
  have hmem : g ∈ gates := List.mem_of_getElem? hg
  obtain ⟨hq1, hq2⟩ := hc.lt g hmem
  have hq12 := hc.ne g hmem
  have hlen := wsAt_len gates p n i
  have hs : wsAt gates p n (i + 1) = wsStep (wsAt gates p n i) g .both := by rw [ws_succ gates p n i g hg, hci]
  have hw1 : (wsAt gates p n (i + 1)).wire (g.qubits.getD 0 0) = (wsAt gates p n i).nw := by
    rw [hs]
    show (((wsAt gates p n i).wm.set (g.qubits.getD 0 0) (wsAt gates p n i).nw).set (g.qubits.getD 1 0) ((wsAt gates p n i).nw + 1)).getD
      (g.qubits.getD 0 0) 0 = _
    rw [wire_set_other _ _ _ _ (fun e => hq12 e.symm)]
    exact wire_set_same _ _ _ (by rw [hlen]; exact hq1)
  rw [hw1] at hconn
  refine ⟨hc, ?_, fun j hj => Function.update_of_ne hj _ _, by rw [hci]; decide, by rw [Function.update_self]; decide, ?_, le_refl _,
    wsAt_wire_lt gates p n i _ hq1, hconn⟩
  · by_contra h
    rw [List.getElem?_eq_none (not_lt.mp h)] at hg
    cases hg
  · rw [hs, upd_succ p i .right gates n g hg]
    refine ⟨?_, rfl, by simp [wsStep]⟩
    show (wsAt gates p n i).wm.set (g.qubits.getD 1 0) (wsAt gates p n i).nw =
      ((((wsAt gates p n i).wm.set (g.qubits.getD 0 0) (wsAt gates p n i).nw)).set (g.qubits.getD 1 0) ((wsAt gates p n i).nw + 1)).map (phi _ _)
    rw [List.map_set, List.map_set, map_phi_id _ _ _ (wsAt_all_lt gates p n i), phi_d, phi_gt _ _ _ (Nat.lt_succ_self _)]
    simp only [WS.wire]
    rw [set_getD_self _ _ (by rw [hlen]; exact hq1)]
    rfl

theorem drop_both2 (hc : CircOKW gates n) (i : Nat) (g : Gate) (hg : gates[i]? = some g) (hci : p i = .both)
    (hconn : ConnP gates p n ((wsAt gates p n i).wire (g.qubits.getD 1 0)) ((wsAt gates p n (i + 1)).wire (g.qubits.getD 1 0))) :
    Drop gates p (Function.update p i .left) n i ((wsAt gates p n i).nw + 1) ((wsAt gates p n i).wire (g.qubits.getD 1 0)) := by
  have hmem : g ∈ gates := List.mem_of_getElem? hg
  obtain ⟨hq1, hq2⟩ := hc.lt g hmem
  have hq12 := hc.ne g hmem
  have hlen := wsAt_len gates p n i
  have hs : wsAt gates p n (i + 1) = wsStep (wsAt gates p n i) g .both := by rw [ws_succ gates p n i g hg, hci]
  have hw2 : (wsAt gates p n (i + 1)).wire (g.qubits.getD 1 0) = (wsAt gates p n i).nw + 1 := by
    rw [hs]
    exact wire_set_same _ _ _ (by rw [List.length_set, hlen]; exact hq2)
  rw [hw2] at hconn
  have ho2 := wsAt_wire_lt gates p n i _ hq2
  refine ⟨hc, ?_, fun j hj => Function.update_of_ne hj _ _, by rw [hci]; decide, by rw [Function.update_self]; decide, ?_, by omega,
    by omega, hconn⟩
  · by_contra h
    rw [List.getElem?_eq_none (not_lt.mp h)] at hg
    cases hg
  · rw [hs, upd_succ p i .left gates n g hg]
    refine ⟨?_, rfl, by simp [wsStep]⟩
    show (wsAt gates p n i).wm.set (g.qubits.getD 0 0) (wsAt gates p n i).nw =
      ((((wsAt gates p n i).wm.set (g.qubits.getD 0 0) (wsAt gates p n i).nw)).set (g.qubits.getD 1 0) ((wsAt gates p n i).nw + 1)).map (phi _ _)
    rw [List.map_set, List.map_set, map_phi_id _ _ _ (fun x hx => Nat.lt_succ_of_lt (wsAt_all_lt gates p n i x hx)),
      phi_lt _ _ _ (Nat.lt_succ_self _), phi_d]
    have : ((wsAt gates p n i).wm.set (g.qubits.getD 0 0) (wsAt gates p n i).nw).getD (g.qubits.getD 1 0) 0 =
        (wsAt gates p n i).wire (g.qubits.getD 1 0) := wire_set_other _ _ _ _ hq12
    rw [← this]
    exact (set_getD_self _ _ (by rw [List.length_set, hlen]; exact hq2)).symm

end

/-! ### dropping a useless gate cut -/

section
variable {gates : List Gate} {p : Nat → Choice} {n : Nat}

theorem gcut_ws (i : Nat) (hci : p i = .gcut) : ∀ m, wsAt gates (Function.update p i .app) n m = wsAt gates p n m
  | 0 => rfl
  | m + 1 => by
    simp only [wsAt]
    rw [gcut_ws i hci m]
    cases gates[m]? with
    | none => rfl
    | some g =>
      by_cases hm : m = i
      · subst hm; rw [Function.update_self, hci]; rfl
      · rw [Function.update_of_ne hm]

theorem gcut_conn (i : Nat) (g : Gate) (hg : gates[i]? = some g) (hci : p i = .gcut)
    (hconn : ConnP gates p n ((wsAt gates p n i).wire (g.qubits.getD 0 0)) ((wsAt gates p n i).wire (g.qubits.getD 1 0))) (x y : Nat) :
    ConnP gates (Function.update p i .app) n x y ↔ ConnP gates p n x y := by
  have hs : wsAt gates p n (i + 1) = wsAt gates p n i := by rw [ws_succ gates p n i g hg, hci]; rfl
  constructor
  · intro h
    induction h with
    | rel x y hxy =>
      obtain ⟨j, g', hg', hne, rfl, rfl⟩ := hxy
      rw [gcut_ws i hci]
      by_cases hj : j = i
      · subst hj
        rw [hg] at hg'
        injection hg' with e
        subst e
        rw [hs]; exact hconn
      · rw [Function.update_of_ne hj] at hne
        exact Relation.EqvGen.rel _ _ ⟨j, g', hg', hne, rfl, rfl⟩
    | refl x => exact connP_refl _
    | symm x y _ ih => exact connP_symm ih
    | trans x y z _ _ ih1 ih2 => exact connP_trans ih1 ih2
  · intro h
    induction h with
    | rel x y hxy =>
      obtain ⟨j, g', hg', hne, rfl, rfl⟩ := hxy
      have hj : j ≠ i := by
        intro e; subst e; exact hne hci
      rw [← gcut_ws (gates := gates) (n := n) i hci (j + 1)]
      exact Relation.EqvGen.rel _ _ ⟨j, g', hg', by rw [Function.update_of_ne hj]; exact hne, rfl, rfl⟩
    | refl x => exact connP_refl _
    | symm x y _ ih => exact connP_symm ih
    | trans x y z _ _ ih1 ih2 => exact connP_trans ih1 ih2

end

/-! ### every width-feasible plan is dominated by one without useless cuts -/

def Feasible (gates : List Gate) (p : Nat → Choice) (n W : Nat) : Prop :=
  ∀ w, w < (wsAt gates p n gates.length).nw → compSizeP gates p n w ≤ W

section
variable {gates : List Gate} {n W : Nat}

theorem factor_upd_le (p : Nat → Choice) (i : Nat) (c : Choice) (hle : ∀ g, gates[i]? = some g → factor g c ≤ factor g (p i)) :
    ∀ j g, gates[j]? = some g → factor g (Function.update p i c j) ≤ factor g (p j) := by
  intro j g hg
  by_cases hj : j = i
  · subst hj; rw [Function.update_self]; exact hle g hg
  · rw [Function.update_of_ne hj]

theorem allowed_upd (cfg : Settings) (p : Nat → Choice) (i : Nat) (c : Choice) (hal : Allowed cfg p)
    (h1 : c = .gcut → cfg.gateLO = true) (h2 : c = .left ∨ c = .right ∨ c = .both → cfg.wireLO = true) :
    Allowed cfg (Function.update p i c) := by
  intro j
  by_cases hj : j = i
  · subst hj; rw [Function.update_self]; exact ⟨h1, h2⟩
  · rw [Function.update_of_ne hj]; exact hal j

open Classical in
/-- one useless cut less -/
theorem improve (cfg : Settings) (hc : CircOKW gates n) (hγ : ∀ g ∈ gates, ∀ x, g.gamma = some x → 1 ≤ x) (p : Nat → Choice)
    (hf : Feasible gates p n W) (hnu : ¬ NoUseless gates p n) :
    ∃ p1, Feasible gates p1 n W ∧ costUpTo gates p1 gates.length ≤ costUpTo gates p gates.length ∧
      muUpTo p1 gates.length < muUpTo p gates.length ∧ (Allowed cfg p → Allowed cfg p1) := by
  have ilt : ∀ i g, gates[i]? = some g → i < gates.length := by
    intro i g hg
    by_contra h
    rw [List.getElem?_eq_none (not_lt.mp h)] at hg
    cases hg
  have hone : ∀ g ∈ gates, (1 : Rat) ≤ g.gamma.getD 1 := by
    intro g hg
    cases hgam : g.gamma with
    | none => simp
    | some x => simpa using hγ g hg x hgam
  by_cases h1 : ∀ i g, gates[i]? = some g → p i = .gcut →
      ¬ ConnP gates p n ((wsAt gates p n i).wire (g.qubits.getD 0 0)) ((wsAt gates p n i).wire (g.qubits.getD 1 0))
  swap
  · push_neg at h1
    obtain ⟨i, g, hg, hci, hconn⟩ := h1
    refine ⟨Function.update p i .app, ?_, ?_, mu_lt p i _ .app (ilt i g hg) (by rw [hci]; decide),
      fun hal => allowed_upd cfg p i .app hal (by intro e; cases e) (by rintro (e | e | e) <;> cases e)⟩
    · intro w hw
      rw [gcut_ws i hci] at hw
      have := hf w hw
      unfold compSizeP at this ⊢
      rw [gcut_ws i hci]
      refine le_trans (le_of_eq ?_) this
      apply List.countP_congr
      intro x _
      simp only [decide_eq_true_eq]
      exact gcut_conn i g hg hci hconn w x
    · refine (costUpTo_mono gates p _ hγ (factor_upd_le p i .app ?_) gates.length).2
      intro g' hg'
      rw [hg] at hg'; injection hg' with e; subst e
      rw [hci]
      simpa [factor] using hone g (List.mem_of_getElem? hg)
  by_cases h2 : ∀ i g, gates[i]? = some g → p i = .left →
      ¬ ConnP gates p n ((wsAt gates p n i).wire (g.qubits.getD 0 0)) ((wsAt gates p n i).wire (g.qubits.getD 1 0))
  swap
  · push_neg at h2
    obtain ⟨i, g, hg, hci, hconn⟩ := h2
    have hd := drop_left hc i g hg hci hconn
    refine ⟨Function.update p i .app, hd.feasible hf, ?_, mu_lt p i _ .app (ilt i g hg) (by rw [hci]; decide),
      fun hal => allowed_upd cfg p i .app hal (by intro e; cases e) (by rintro (e | e | e) <;> cases e)⟩
    refine (costUpTo_mono gates p _ hγ (factor_upd_le p i .app ?_) gates.length).2
    intro g' _
    rw [hci]; norm_num [factor]
  by_cases h3 : ∀ i g, gates[i]? = some g → p i = .right →
      ¬ ConnP gates p n ((wsAt gates p n i).wire (g.qubits.getD 0 0)) ((wsAt gates p n i).wire (g.qubits.getD 1 0))
  swap
  · push_neg at h3
    obtain ⟨i, g, hg, hci, hconn⟩ := h3
    have hd := drop_right hc i g hg hci hconn
    refine ⟨Function.update p i .app, hd.feasible hf, ?_, mu_lt p i _ .app (ilt i g hg) (by rw [hci]; decide),
      fun hal => allowed_upd cfg p i .app hal (by intro e; cases e) (by rintro (e | e | e) <;> cases e)⟩
    refine (costUpTo_mono gates p _ hγ (factor_upd_le p i .app ?_) gates.length).2
    intro g' _
    rw [hci]; norm_num [factor]
  by_cases h4 : ∀ i g, gates[i]? = some g → p i = .both →
      ¬ ConnP gates p n ((wsAt gates p n i).wire (g.qubits.getD 0 0)) ((wsAt gates p n (i + 1)).wire (g.qubits.getD 0 0))
  swap
  · push_neg at h4
    obtain ⟨i, g, hg, hci, hconn⟩ := h4
    have hd := drop_both1 hc i g hg hci hconn
    refine ⟨Function.update p i .right, hd.feasible hf, ?_, mu_lt p i _ .right (ilt i g hg) (by rw [hci]; decide),
      fun hal => allowed_upd cfg p i .right hal (by intro e; cases e) (fun _ => (hal i).2 (Or.inr (Or.inr hci)))⟩
    refine (costUpTo_mono gates p _ hγ (factor_upd_le p i .right ?_) gates.length).2
    intro g' _
    rw [hci]; norm_num [factor]
  by_cases h5 : ∀ i g, gates[i]? = some g → p i = .both →
      ¬ ConnP gates p n ((wsAt gates p n i).wire (g.qubits.getD 1 0)) ((wsAt gates p n (i + 1)).wire (g.qubits.getD 1 0))
  swap
  · push_neg at h5
    obtain ⟨i, g, hg, hci, hconn⟩ := h5
    have hd := drop_both2 hc i g hg hci hconn
    refine ⟨Function.update p i .left, hd.feasible hf, ?_, mu_lt p i _ .left (ilt i g hg) (by rw [hci]; decide),
      fun hal => allowed_upd cfg p i .left hal (by intro e; cases e) (fun _ => (hal i).2 (Or.inr (Or.inr hci)))⟩
    refine (costUpTo_mono gates p _ hγ (factor_upd_le p i .left ?_) gates.length).2
    intro g' _
    rw [hci]; norm_num [factor]
  exact absurd ⟨h1, h2, h3, h4, h5⟩ hnu

open Classical in
/-- **useless cuts can be removed** (gate cuts and wire cuts): every width-feasible plan is dominated by a width-feasible plan
without useless cuts that uses no kind of cut the original does not use -/
theorem prune_exists (cfg : Settings) (hc : CircOKW gates n) (hγ : ∀ g ∈ gates, ∀ x, g.gamma = some x → 1 ≤ x) :
    ∀ (k : Nat) (p : Nat → Choice), muUpTo p gates.length = k → Feasible gates p n W →
      ∃ p', NoUseless gates p' n ∧ Feasible gates p' n W ∧ costUpTo gates p' gates.length ≤ costUpTo gates p gates.length ∧
        (Allowed cfg p → Allowed cfg p') := by
  intro k
  induction k using Nat.strong_induction_on with
  | _ k ih =>
    intro p hk hf
    by_cases hnu : NoUseless gates p n
    · exact ⟨p, hnu, hf, le_refl _, id⟩
    · obtain ⟨p1, hf1, hc1, hm1, ha1⟩ := improve cfg hc hγ p hf hnu
      obtain ⟨p', hnu', hf', hc', ha'⟩ := ih (muUpTo p1 gates.length) (by omega) p1 rfl hf1
      exact ⟨p', hnu', hf', le_trans hc' hc1, fun h => ha' (ha1 h)⟩

end

/-- **T08.4 in full** (the greedy pass found an incumbent `gs`): when `optimize` reports that the minimum was reached, the reported overhead
is at most the overhead of **every** plan — any choice, gate by gate, of apply / gate cut / left, right or both-wires cut that the settings
permit — whose subcircuits (classes of wires joined by the gates that are not gate-cut) have at most `W` wires -/
theorem optimize_min_over_all_plans (cfg : Settings) (gates : List Gate) (n W : Nat) (hW : 1 ≤ W)
    (rnds : List Rat) (fuel : Nat) (r : Result) (hn : (gates.map (·.idx)).Nodup) (hγ : ∀ g ∈ gates, ∀ x, g.gamma = some x → 1 ≤ x)
    (h : optimize cfg gates n W rnds fuel = .ok r) (hflag : r.minReached = true)
    (p : Nat → Choice) (hal : Allowed cfg p) (gs : St)
    (hg0 : greedy cfg gates W (gates.length + 1) (St.init n (gates.map (·.qubits.length)).sum) = .ok (some gs))
    (hbig : gs.gammaUB + 1 ≤ (2 : Rat) ^ 4096)
    (hc : CircOKW gates n) (hfeas : Feasible gates p n W) :
    r.best.gammaUB ≤ costUpTo gates p gates.length := by
  obtain ⟨p', hnu', hf', hc', ha'⟩ := prune_exists (W := W) cfg hc hγ _ p rfl hfeas
  exact le_trans (optimize_min_over_plans_any_budget cfg gates n W hW rnds fuel r hn hγ h hflag p' (ha' hal) gs hg0 hbig hc hnu' hf') hc'

/-- non-vacuity: cx(0,1); cx(0,1) with the second gate cut — width-feasible for two qubits per subcircuit, and the cut is useless (the
first gate already joins the two wires), so this plan is outside `C08Wire.optimize_min_over_plans_any_budget` and inside this file's theorem -/
example : let gates : List Gate := [⟨0, [0, 1], some 3⟩, ⟨1, [0, 1], some 3⟩]
    let p : Nat → Choice := fun i => if i = 1 then .gcut else .app
    Feasible gates p 2 2 ∧ ¬ NoUseless gates p 2 := by
  intro gates p
  constructor
  · intro w _
    unfold compSizeP
    have hnw : (wsAt gates p 2 gates.length).nw = 2 := by decide
    rw [hnw]
    exact le_trans List.countP_le_length (by simp)
  · intro hnu
    refine hnu.gcut 1 ⟨1, [0, 1], some 3⟩ rfl rfl ?_
    have := connP_edge (gates := gates) (p := p) (n := 2) 0 ⟨0, [0, 1], some 3⟩ rfl (by decide)
    exact this

end CKT.C08Wire
