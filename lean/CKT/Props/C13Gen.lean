import CKT.Generated.Keys
import CKT.Props.C13Std
/-!
# C13 — the outcome-key arithmetic of the model is the translated source

`CKT.Generated.key0`, `key1`, `flipperMeasure`, `flipperReset` are produced on every run from `simulate_statevector_outcomes` (Python AST → Lean
expressions over `Nat`).  The model's `key0` / `key1` and the flipper values its `step` hands to `split` are exactly these.
-/
namespace CKT.C13Gen
open CKT CKT.Sampler

/-- **the model's key arithmetic is the translated source** -/
theorem keys_translated (k f : Nat) : key0 k f = Generated.key0 k f ∧ key1 k f = Generated.key1 k f := ⟨rfl, rfl⟩

/-- a measurement / a reset step of the model uses the translated flipper values -/
theorem step_flippers {V : Type} (B : Backend V) (tol : Rat) (bs : List (Branch V)) (i : SInstr) (hc : i.conditioned = false) :
    (i.name = "measure" → step B tol bs i = .ok (split B tol (i.qubits.getD 0 0) (Generated.flipperMeasure (i.clbits.getD 0 0)) false bs)) ∧
    (i.name = "reset" → step B tol bs i = .ok (split B tol (i.qubits.getD 0 0) Generated.flipperReset true bs)) := by
  constructor
  · intro h
    simp [step, hc, h, Generated.flipperMeasure]
  · intro h
    have : i.name ≠ "measure" := by rw [h]; decide
    simp [step, hc, h, this, Generated.flipperReset]

end CKT.C13Gen
