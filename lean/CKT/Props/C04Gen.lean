import CKT.Generated.WeightArith
import CKT.Props.C04Pop
/-!
# C04 — the scalar arithmetic of the model is the translated source

`CKT.Generated.threshold`, `exactWeight`, `rescaled`, `samplesNeeded`, `singleSampleWeight` and the three branch tests are produced on every run
from `_generate_qpd_weights` (Python AST → Lean definitions over `Rat`).  The model's `generateWeights`, which the C04 theorems are about, computes
with exactly these (the tree walk, the conditional tables and the sampler loop around them are hand-written and validated by the correspondence run).
-/
namespace CKT.C04Gen
open CKT

/-- `generateWeights` for a finite budget, written with the translated arithmetic -/
def generateWeightsT (rows : List (List Rat)) (n : Rat) (atol : Rat) (draws : Draws) : R (List Weight) :=
  if Generated.budgetRefused n then .error (.value "num_samples must be at least 1") else
  let thr := Generated.threshold n
  let smallest := (rows.map fun r => (minNonzero atol r).getD 0).prod
  if Generated.allExactBranch smallest thr then .ok (allExact rows atol (Generated.multiplierFinite n)) else
  let largest := (rows.map maxOf).prod
  let ys := if Generated.someExactBranch largest thr then genUnsorted rows thr atol else []
  let exact : List Weight := ys.filterMap fun
    | Y.full s p => some { key := s, w := Generated.exactWeight p n, ty := .exact }
    | Y.cond _ _ => none
  let conds : List (List Nat × List Rat) := ys.filterMap fun
    | Y.full _ _ => none
    | Y.cond s arr => some (s, arr)
  let wts0 : Rat := match conds.find? (fun e => e.1 == []) with
    | some e => e.2.sum
    | none => 1
  if !conds.isEmpty && wts0 == 0 then .ok exact else
  let conds := conds.map fun e => if e.1 == [] then (e.1, e.2.map (· / wts0)) else e
  let wts := Generated.rescaled wts0 n
  let needed := Generated.samplesNeeded wts 1
  if needed < 1 then .error (.other "AssertionError") else
  let single := Generated.singleSampleWeight wts (needed : Rat)
  match (if conds.isEmpty then none else singleLeftover rows conds rows.length []) with
  | some key => .ok (exact ++ [{ key, w := wts, ty := .exact }])
  | none =>
    let samples := (populate rows conds (rows.length + 1) [] needed.toNat draws).1
    .ok (exact ++ samples.map fun sc => { key := sc.1, w := (sc.2 : Rat) * single, ty := .sampled })

/-- **the model computes with the translated arithmetic** -/
theorem generateWeights_translated (rows : List (List Rat)) (n : Rat) (atol : Rat) (draws : Draws) :
    generateWeights rows (some n) atol draws = generateWeightsT rows n atol draws := by
  unfold generateWeights generateWeightsT Generated.budgetRefused Generated.threshold Generated.allExactBranch Generated.someExactBranch
    Generated.multiplierFinite Generated.exactWeight Generated.rescaled Generated.samplesNeeded Generated.singleSampleWeight
  simp only [mul_one]
  rfl

/-- the infinite budget: every map exactly, multiplier one -/
theorem generateWeights_infinite (rows : List (List Rat)) (atol : Rat) (draws : Draws) :
    generateWeights rows none atol draws = .ok (allExact rows atol Generated.multiplierInfinite) := rfl

end CKT.C04Gen
