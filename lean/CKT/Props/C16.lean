import CKT.Model.Ownership
import Mathlib.Data.List.Basic
/-!
# C16 — public functions neither modify their inputs nor share state between results  (partial by nature)

* `frame_sound`: a framed skeleton (every write targets an object allocated earlier in the same call) leaves every
  argument-reachable object at its version, for every heap — and every public function's skeleton is framed
  (`all_framed`).  This is the first clause of the property, full strength, over the model.
* `sharing_table`: the sharing classes each function can produce, as a function of the input's features;
  `separation_partial`: on inputs without pre-placed placeholders, payload-carrying gates, parametrised operations
  and parametrised map operations, no result references any mutable argument object; `separation_counterexample`: with those features the
  second clause of the property fails (classes S1–S4) — these are the recorded known findings, re-executed on the real
  code on every run.
The skeletons are transcriptions; what ties them to the code is the runtime audit (fingerprints of all arguments
before/after, identity of mutable objects between arguments and results with references kept alive, destructive edits).
-/
namespace CKT.C16
open CKT.Own

theorem exec_frame (sk : Skeleton) : ∀ (al : List Nat) (h : Obj → Nat), framedFrom al sk = true →
    ∀ name, exec h sk (.arg name) = h (.arg name) := by
  induction sk with
  | nil => intro al h _ name; rfl
  | cons s rest ih =>
    intro al h hf name
    cases s with
    | alloc n => simp only [framedFrom] at hf; simp only [exec]; exact ih (n :: al) h hf name
    | keep c => simp only [framedFrom] at hf; simp only [exec]; exact ih al h hf name
    | write o =>
      cases o with
      | arg nm => simp [framedFrom] at hf
      | fresh n =>
        simp only [framedFrom, Bool.and_eq_true] at hf
        simp only [exec]
        rw [ih al _ hf.2 name]
        simp

/-- T16.1: whatever the heap, a framed skeleton leaves every object reachable from the arguments untouched -/
theorem frame_sound (sk : Skeleton) (h : Obj → Nat) (hf : framed sk = true) (name : String) :
    exec h sk (.arg name) = h (.arg name) := exec_frame sk [] h hf name

theorem all_framed : table.all (fun e => framed e.2) = true := by decide

/-- a skeleton that wrote to an argument would not be framed (the check is not vacuous) -/
example : framed [.alloc 0, .write (.arg "circuit.data[0].operation.label")] = false := by decide

/-- T16.2: the predicted sharing sets -/
theorem sharing_table (f : Features) :
    shares cutGates f = ([Share.S1, .S2].filter (possible f)) ∧
    shares partitionCircuitQubits f = ([Share.S1, .S2].filter (possible f)) ∧
    shares partitionProblem f = ([Share.S1, .S2].filter (possible f)) ∧
    shares cutWires f = ([Share.S4, .S2].filter (possible f)) ∧
    shares findCuts f = ([Share.S2].filter (possible f)) ∧
    shares generateExperiments f = ([Share.S3, .S2].filter (possible f)) ∧
    shares decomposeQpd f = ([Share.S3, .S2].filter (possible f)) ∧
    shares expandObservables f = [] ∧ shares reconstruct f = [] := by
  rcases f with ⟨a, b, c, d⟩
  cases a <;> cases b <;> cases c <;> cases d <;> decide

/-- T16.2_partial: without pre-placed placeholders, payload-carrying gates and parametrised map operations no public
function returns anything that references a mutable object of its arguments -/
theorem separation_partial : table.all (fun e => shares e.2 ⟨false, false, false, false⟩ = []) = true := by decide

/-- T16.2 fails at full strength: the four sharing classes are reachable (known findings D6/S1–S4) -/
theorem separation_counterexample :
    Share.S1 ∈ shares partitionProblem ⟨true, false, false, false⟩ ∧ Share.S2 ∈ shares findCuts ⟨false, true, false, false⟩ ∧
    Share.S3 ∈ shares generateExperiments ⟨false, false, true, false⟩ ∧ Share.S4 ∈ shares cutWires ⟨false, false, false, true⟩ := by decide

end CKT.C16
