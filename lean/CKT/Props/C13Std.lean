import CKT.Props.C13Sem
import CKT.Props.C01Seq
/-!
# C13 — the law `reset_eq` of `ExSem` holds for the standard matrices

`ExSem` asks that the backend's reset (project on outcome 0, or project on outcome 1 and flip) is the reset channel of the
semantics: `resetM = Π₀ + X·Π₁` as transfer matrices.  With the standard projectors of `Sem/Measure` (tied to the channel
model: `Sem.stdProj_is_channel_ptm`) and the transfer matrix of `X` this is a matrix identity, proved here — so the law is
not an extra assumption about quantum mechanics but a fact about the concrete matrices.
-/
namespace CKT.C13Sem
open CKT CKT.Sem CKT.C01PTM

/-- transfer matrix of the Pauli `X` gate: `I, X ↦ +`, `Y, Z ↦ −` -/
def xM : TM ℚ := fun a b =>
  match a, b with
  | [x], [y] => if x = y then (if x = 0 ∨ x = 1 then 1 else -1) else 0
  | _, _ => 0

theorem reset_eq_std (q : Nat) (v : Vec ℚ) :
    applyL [q] resetM v = fun P => applyL [q] (stdProj (1/2) false) v P + applyL [q] xM (applyL [q] (stdProj (1/2) true) v) P := by
  rw [applyL_comp1]
  have h := applyL_addM [q] (stdProj (1/2 : ℚ) false) (mulTM xM (stdProj (1/2) true)) v
  rw [← h]
  apply applyL_congr1
  intro x y
  fin_cases x <;> fin_cases y <;> simp [resetM, stdProj, mulTM, xM, Fin.sum_univ_four] <;> norm_num

end CKT.C13Sem
