import CKT.Props.C13Collect
import CKT.Sem.Measure
import Mathlib.Algebra.Ring.Rat
import Mathlib.Algebra.Module.Pi
/-!
# C13 — T13.1: the branch table of the exact sampler refines the Pauli-expectation semantics

`agg bs` is the state denoted by a branch table: for every value `κ` of the classical register, the sum of the
expectation vectors of the branches whose outcome key spells `κ`.  For a backend whose state vectors have expectation
vectors (`ExSem`: gates and projections act on them through transfer matrices, `reset = Π₀ + X·Π₁`, the squared norm is
the expectation of the identity, a vector of norm 0 has zero expectations), **every step of the sampler's bookkeeping**
(splitting, key update `k xor (k and f)` / `k or f`, the flip completing a reset, pruning of zero branches, mapping of
unitaries over the table) is the corresponding step of the semantics `CKT.Sem`:

* `step_refines`, `run_refines` — `agg (run …) = specRun …`;
* `collect_value` — the number returned for outcome `k` is the weight of the identity string in the semantic state at the
  register value `k`, i.e. the probability of `k` (T13.2, strengthening `run_total`: the *distribution* is right, not just
  its total).
The tolerance is 0 in the theorem (the implementation prunes below 1e-16); floats are outside the model.
-/
namespace CKT.C13Sem
open CKT CKT.Sampler CKT.Sem CKT.C13

variable {V : Type}

/-- the classical register spelled by an outcome key -/
def cl (k : Nat) : Cl := fun c => k.testBit c

theorem cl_injective {a b : Nat} (h : cl a = cl b) : a = b :=
  Nat.eq_of_testBit_eq (fun i => congrFun h i)

theorem cl_key0 (k c : Nat) : cl (key0 k (1 <<< c)) = Function.update (cl k) c false := by
  funext j
  by_cases h : j = c
  · subst h; simp [cl, key0_bit]
  · simp [cl, Function.update_of_ne h, key0_other k c j h]

theorem cl_key1 (k c : Nat) : cl (key1 k (1 <<< c)) = Function.update (cl k) c true := by
  funext j
  by_cases h : j = c
  · subst h; simp [cl, key1_bit]
  · simp [cl, Function.update_of_ne h, key1_other k c j h]

/-- expectation vectors for the states of a backend -/
structure ExSem (B : Backend V) where
  ex : V → Vec ℚ
  mat : SInstr → TM ℚ
  pr : Bool → TM ℚ
  xm : TM ℚ
  ex_apply : ∀ i v v', B.apply i v = some v' → ex v' = applyL i.qubits (mat i) (ex v)
  ex_proj : ∀ q b v, ex (B.proj q b v) = applyL [q] (pr b) (ex v)
  ex_flip : ∀ q v, ex (B.flip q v) = applyL [q] xm (ex v)
  reset_eq : ∀ q (v : Vec ℚ), applyL [q] resetM v = fun P => applyL [q] (pr false) v P + applyL [q] xm (applyL [q] (pr true) v) P
  norm : ∀ v, B.norm2 v = ex v (fun _ => 0)
  zero_of_norm : ∀ v, B.norm2 v ≤ 0 → ex v = fun _ => 0

variable {B : Backend V} (E : ExSem B)

/-- the state denoted by a single branch -/
noncomputable def agg1 (b : Branch V) : St ℚ := fun κ => open Classical in if cl b.1 = κ then E.ex b.2 else fun _ => 0

/-- the state denoted by a branch table -/
noncomputable def agg (bs : List (Branch V)) : St ℚ := (bs.map (agg1 E)).sum

theorem agg_nil : agg E [] = 0 := rfl
theorem agg_cons (b : Branch V) (bs : List (Branch V)) : agg E (b :: bs) = agg1 E b + agg E bs := by simp [agg]
theorem agg_append (a b : List (Branch V)) : agg E (a ++ b) = agg E a + agg E b := by simp [agg]

/-- the step of the semantics for a sampler instruction -/
def specStep (i : SInstr) (σ : St ℚ) : St ℚ :=
  if i.name = "measure" then (Prim.meas (i.qubits.getD 0 0) (i.clbits.getD 0 0) E.pr).act σ
  else if i.name = "reset" then (Prim.gate [i.qubits.getD 0 0] resetM).act σ
  else (Prim.gate i.qubits (E.mat i)).act σ

/-! ### linearity of the primitive actions -/

theorem applyL_add' (qs : List Nat) (M : TM ℚ) (v w : Vec ℚ) : applyL qs M (v + w) = applyL qs M v + applyL qs M w := by
  funext P
  simp only [applyL, Pi.add_apply, mul_add]
  exact sumL_add _ _ _

theorem act_add (p : Prim ℚ) (σ τ : St ℚ) : p.act (σ + τ) = p.act σ + p.act τ := by
  cases p with
  | gate qs M =>
    funext k
    simp only [Prim.act, Pi.add_apply]
    exact applyL_add' qs M _ _
  | meas q c pr =>
    funext k P
    simp only [Prim.act, Pi.add_apply, Fintype.sum_bool]
    rw [applyL_add', applyL_add']
    simp only [Pi.add_apply]
    ring

theorem act_zero (p : Prim ℚ) : p.act (0 : St ℚ) = 0 := by
  cases p with
  | gate qs M =>
    funext k
    simp only [Prim.act, Pi.zero_apply]
    exact applyL_zero_vec qs M
  | meas q c pr =>
    funext k P
    simp only [Prim.act, Pi.zero_apply, Fintype.sum_bool]
    have : (0 : Vec ℚ) = fun _ => 0 := rfl
    rw [this, applyL_zero_vec]
    simp

theorem specStep_add (i : SInstr) (σ τ : St ℚ) : specStep E i (σ + τ) = specStep E i σ + specStep E i τ := by
  unfold specStep; split_ifs <;> exact act_add _ _ _

theorem specStep_zero (i : SInstr) : specStep E i 0 = 0 := by
  unfold specStep; split_ifs <;> exact act_zero _

/-! ### one branch -/

/-- the (possibly pruned) child of a branch denotes the same state as the unpruned one -/
theorem agg_pruned (k : Nat) (v w : V) (hw : B.norm2 v ≤ 0 → E.ex w = fun _ => 0) :
    agg E (if B.norm2 v ≤ 0 then [] else [(k, w)]) = agg1 E (k, w) := by
  by_cases h : B.norm2 v ≤ 0
  · simp only [h, if_true, agg_nil]
    funext κ
    simp only [agg1, hw h]
    split <;> rfl
  · simp [h, agg]

theorem upd_eq_iff (f κ : Cl) (c : Nat) (x : Bool) :
    Function.update f c x = κ ↔ κ c = x ∧ ∀ j, j ≠ c → f j = κ j := by
  constructor
  · intro e
    subst e
    exact ⟨by simp, fun j hj => by simp [Function.update_of_ne hj]⟩
  · rintro ⟨h1, h2⟩
    funext j
    by_cases hj : j = c
    · subst hj; simp [h1]
    · simp [Function.update_of_ne hj, h2 j hj]

theorem eq_upd_iff (f κ : Cl) (c : Nat) (o : Bool) :
    f = Function.update κ c o ↔ f c = o ∧ ∀ j, j ≠ c → f j = κ j := by
  constructor
  · intro e
    subst e
    exact ⟨by simp, fun j hj => by simp [Function.update_of_ne hj]⟩
  · rintro ⟨h1, h2⟩
    funext j
    by_cases hj : j = c
    · subst hj; simp [h1]
    · simp [Function.update_of_ne hj, h2 j hj]

open Classical in
theorem measure_branch (q c : Nat) (b : Branch V) :
    agg1 E (key0 b.1 (1 <<< c), B.proj q false b.2) + agg1 E (key1 b.1 (1 <<< c), B.proj q true b.2)
      = (Prim.meas q c E.pr).act (agg1 E b) := by
  funext κ P
  simp only [Pi.add_apply, agg1, Prim.act, cl_key0, cl_key1, E.ex_proj, Fintype.sum_bool, upd_eq_iff, eq_upd_iff]
  by_cases hA : ∀ (j : ℕ), ¬j = c → cl b.1 j = κ j
  · cases hκ : κ c <;> cases hb : cl b.1 c <;> simp [eq_true hA, applyL_zero_vec]
  · simp [eq_false hA, applyL_zero_vec]

open Classical in
theorem reset_branch (q : Nat) (b : Branch V) :
    agg1 E (key0 b.1 0, B.proj q false b.2) + agg1 E (key1 b.1 0, B.flip q (B.proj q true b.2))
      = (Prim.gate [q] resetM).act (agg1 E b) := by
  funext κ
  simp only [Pi.add_apply, agg1, Prim.act, (reset_keys b.1).1, (reset_keys b.1).2, E.ex_proj, E.ex_flip]
  by_cases h : cl b.1 = κ
  · simp only [h, if_true]
    rw [E.reset_eq]
    rfl
  · simp only [h, if_false]
    rw [applyL_zero_vec]
    funext P; simp

open Classical in
theorem gate_branch (i : SInstr) (b : Branch V) (v' : V) (h : B.apply i b.2 = some v') :
    agg1 E (b.1, v') = (Prim.gate i.qubits (E.mat i)).act (agg1 E b) := by
  funext κ
  simp only [agg1, Prim.act]
  by_cases hk : cl b.1 = κ
  · simp [hk, E.ex_apply i b.2 v' h]
  · simp only [hk, if_false]
    rw [applyL_zero_vec]

/-! ### one step, all steps -/

theorem split_cons (q f : Nat) (reset : Bool) (b : Branch V) (rest : List (Branch V)) :
    split B 0 q f reset (b :: rest) =
      (if B.norm2 (B.proj q false b.2) ≤ 0 then [] else [(key0 b.1 f, B.proj q false b.2)]) ++
      (if B.norm2 (B.proj q true b.2) ≤ 0 then [] else [(key1 b.1 f, if reset then B.flip q (B.proj q true b.2) else B.proj q true b.2)]) ++
      split B 0 q f reset rest := by
  simp [split]

theorem split_measure (q c : Nat) : ∀ bs : List (Branch V),
    agg E (split B 0 q (1 <<< c) false bs) = (Prim.meas q c E.pr).act (agg E bs)
  | [] => by rw [agg_nil, act_zero]; rfl
  | b :: rest => by
    rw [split_cons, agg_append, agg_append, agg_cons, act_add, split_measure q c rest, ← measure_branch E q c b]
    rw [agg_pruned E _ _ _ (E.zero_of_norm _), agg_pruned E _ _ _ (by simpa using E.zero_of_norm _)]
    rfl

theorem split_reset (q : Nat) : ∀ bs : List (Branch V),
    agg E (split B 0 q 0 true bs) = (Prim.gate [q] resetM).act (agg E bs)
  | [] => by rw [agg_nil, act_zero]; rfl
  | b :: rest => by
    rw [split_cons, agg_append, agg_append, agg_cons, act_add, split_reset q rest, ← reset_branch E q b]
    rw [agg_pruned E _ _ _ (E.zero_of_norm _),
      agg_pruned E _ _ _ (by intro h; simp only [if_true]; rw [E.ex_flip, E.zero_of_norm _ h, applyL_zero_vec])]
    rfl

theorem mapM_gate (i : SInstr) : ∀ (bs out : List (Branch V)),
    (bs.mapM fun b => match B.apply i b.2 with
      | some v => (Except.ok (b.1, v) : R (Branch V))
      | none => .error (.other ("unsupported gate " ++ i.name))) = .ok out →
    agg E out = (Prim.gate i.qubits (E.mat i)).act (agg E bs) := by
  intro bs
  induction bs with
  | nil => intro out h; simp [List.mapM_nil, pure, Except.pure] at h; subst h; rw [agg_nil, act_zero]
  | cons b rest ih =>
    intro out h
    rw [List.mapM_cons] at h
    cases hv : B.apply i b.2 with
    | none => simp [hv, bind, Except.bind] at h
    | some v =>
      simp only [hv, bind, Except.bind] at h
      cases hr : (rest.mapM fun b => match B.apply i b.2 with
        | some v => (Except.ok (b.1, v) : R (Branch V))
        | none => .error (.other ("unsupported gate " ++ i.name))) with
      | error e => rw [hr] at h; cases h
      | ok out' =>
        rw [hr] at h
        simp only [pure, Except.pure] at h
        injection h with h; subst h
        rw [agg_cons, agg_cons, act_add, ih out' hr, gate_branch E i b v hv]

/-- **T13.1, one instruction**: the sampler's step on the branch table is the semantics' step on the denoted state -/
theorem step_refines (bs out : List (Branch V)) (i : SInstr) (h : step B 0 bs i = .ok out) :
    agg E out = specStep E i (agg E bs) := by
  unfold step at h
  unfold specStep
  split at h
  · cases h
  · split at h
    · rename_i hm
      injection h with h; subst h
      simp only [hm, if_true]
      exact split_measure E _ _ bs
    · rename_i hm
      split at h
      · rename_i hr
        injection h with h; subst h
        simp only [hm, hr, if_true, if_false]
        exact split_reset E _ bs
      · rename_i hr
        split at h
        · cases h
        · simp only [hm, hr, if_false]
          exact mapM_gate E i bs out h

def specRun (instrs : List SInstr) (σ : St ℚ) : St ℚ := instrs.foldl (fun σ i => specStep E i σ) σ

/-- **T13.1**: after any program the branch table denotes the state the semantics assigns to the program -/
theorem run_refines (init : V) (instrs : List SInstr) (out : List (Branch V)) (h : run B 0 init instrs = .ok out) :
    agg E out = specRun E instrs (agg E [(0, init)]) := by
  unfold run at h
  have gen : ∀ (instrs : List SInstr) (bs out : List (Branch V)),
      instrs.foldlM (step B 0) bs = .ok out → agg E out = specRun E instrs (agg E bs) := by
    intro instrs
    induction instrs with
    | nil => intro bs out h; simp [List.foldlM, pure, Except.pure] at h; subst h; rfl
    | cons i rest ih =>
      intro bs out h
      rw [List.foldlM_cons] at h
      cases hs : step B 0 bs i with
      | error e => rw [hs] at h; cases h
      | ok mid =>
        rw [hs] at h
        simp only [bind, Except.bind] at h
        rw [ih mid out h, step_refines E bs mid i hs]
        rfl
  exact gen instrs _ out h

/-- the number the sampler reports for outcome `k`: the sum of the squared norms of the branches with key `k` -/
def valueOf (B : Backend V) (bs : List (Branch V)) (k : Nat) : Rat := ((bs.filter (·.1 = k)).map (fun b => B.norm2 b.2)).sum

open Classical in
/-- **T13.2**: the reported number for outcome `k` is the probability the semantics assigns to the register value `k` -/
theorem collect_value (bs : List (Branch V)) (k : Nat) : valueOf B bs k = agg E bs (cl k) (fun _ => 0) := by
  induction bs with
  | nil => rfl
  | cons b rest ih =>
    rw [agg_cons]
    simp only [valueOf, Pi.add_apply] at *
    by_cases h : b.1 = k
    · simp only [List.filter_cons, h, decide_true, if_true, List.map_cons, List.sum_cons, ih]
      simp [agg1, h, E.norm]
    · have : ¬ cl b.1 = cl k := fun e => h (cl_injective e)
      simp only [List.filter_cons, h, decide_false, Bool.false_eq_true, if_false, ih]
      simp [agg1, this]

/-- **C13 in one statement**: if the sampler returns a table for a program, then for every outcome `k` the reported
probability is the weight of the identity string, at register value `k`, of the state the Pauli-expectation semantics
assigns to the program started from the backend's initial state -/
theorem sampler_correct (init : V) (instrs : List SInstr) (out : List (Branch V)) (h : run B 0 init instrs = .ok out) (k : Nat) :
    valueOf B out k = specRun E instrs (agg E [(0, init)]) (cl k) (fun _ => 0) := by
  rw [collect_value E, run_refines E init instrs out h]

/-- **the dictionary returned by `simulate_statevector_outcomes`**: every listed value is the probability the semantics
assigns to its outcome (that every outcome is listed exactly once, in increasing order, is `C13.collect_keys`) -/
theorem simulate_correct (init : V) (instrs : List SInstr) (res : List (Nat × Rat)) (h : simulate B 0 init instrs = .ok res) :
    ∀ kp ∈ res, kp.2 = specRun E instrs (agg E [(0, init)]) (cl kp.1) (fun _ => 0) := by
  unfold simulate at h
  cases hr : run B 0 init instrs with
  | error e => rw [hr] at h; cases h
  | ok out =>
    rw [hr] at h
    simp only [bind, Except.bind] at h
    injection h with h; subst h
    intro kp hkp
    simp only [collect, List.mem_map] at hkp
    obtain ⟨k, _, rfl⟩ := hkp
    exact sampler_correct E init instrs out hr k

end CKT.C13Sem
