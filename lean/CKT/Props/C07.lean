import CKT.Model.CutFinding
import Mathlib.Data.List.Basic
import Mathlib.Algebra.BigOperators.Group.List.Basic
import Mathlib.Algebra.Order.Field.Rat
import Mathlib.Tactic.Ring
import Mathlib.Tactic.Linarith
/-!
# C07 — automatic cut finding returns a feasible, faithfully accounted cut circuit

Proved here, for **every** reachable search state (any circuit, width limit, settings, random stream):
* `step_accounting` / `path_accounting`: the state's `gammaUB` is the product of the costs of the cut actions it
  records (`γ` of the gate for a gate cut, 4 for one wire, 16 for both wires), and `apply` records nothing;
* `step_inv` / `path_inv`: the bookkeeping invariants — every root's recorded width is at most the width limit,
  untouched wires have width 1, roots never exceed their wires, every qubit sits on an allocated wire;
* `export_*`: the export adds only markers (the non-marker subsequence is the input, with exactly the chosen gates
  wrapped), the metadata lists exactly the positions and kinds of the markers, and the reported overhead is the
  square of that product.
Not proved (validated on every run by the independent segment analysis and the brute force of the harness): that a
root's recorded width equals the number of wires of its class, and that the classes are the connected components of
the cut circuit.
-/
namespace CKT.C07
open CKT CKT.CF

/-! ### cost accounting -/

def gammaOfIdx (gates : List Gate) (i : Nat) : Rat :=
  match gates.find? (fun g => g.idx = i) with
  | some g => g.gamma.getD 1
  | none => 1

def actCost (gates : List Gate) (a : Act) : Rat :=
  match a.kind with
  | .gateCut => gammaOfIdx gates a.gate
  | .left => 4
  | .right => 4
  | .both => 16

/-- what one action does to the accounting data -/
def Accounts (gates : List Gate) (s t : St) : Prop :=
  (t.actions = s.actions ∧ t.gammaUB = s.gammaUB) ∨
  (∃ a, t.actions = s.actions ++ [a] ∧ t.gammaUB = s.gammaUB * actCost gates a)

theorem merge_actions (s : St) (a b : Nat) : (s.merge a b).actions = s.actions ∧ (s.merge a b).gammaUB = s.gammaUB
    ∧ (s.merge a b).noMerge = s.noMerge ∧ (s.merge a b).numWires = s.numWires ∧ (s.merge a b).wiremap = s.wiremap
    ∧ (s.merge a b).maxWires = s.maxWires := by
  simp [St.merge]

theorem newWire_fields (s : St) (q : Nat) : (s.newWire q).1.actions = s.actions ∧ (s.newWire q).1.gammaUB = s.gammaUB
    ∧ (s.newWire q).1.root = s.root ∧ (s.newWire q).1.width = s.width ∧ (s.newWire q).2 = s.numWires
    ∧ (s.newWire q).1.numWires = s.numWires + 1 ∧ (s.newWire q).1.noMerge = s.noMerge := by
  simp [St.newWire]

theorem find_idx (gates : List Gate) (g : Gate) (hg : g ∈ gates) (hn : (gates.map (·.idx)).Nodup) :
    gates.find? (fun x => x.idx = g.idx) = some g := by
  induction gates with
  | nil => cases hg
  | cons x xs ih =>
    simp only [List.map_cons, List.nodup_cons] at hn
    simp only [List.find?_cons]
    by_cases hx : x.idx = g.idx
    · simp only [hx, decide_true]
      rcases List.mem_cons.1 hg with rfl | h
      · rfl
      · exact absurd (List.mem_map.2 ⟨g, h, hx.symm⟩) hn.1
    · simp only [hx, decide_false]
      rcases List.mem_cons.1 hg with rfl | h
      · exact absurd rfl hx
      · exact ih h hn.2

theorem step_accounting (cfg : Settings) (gates : List Gate) (W : Nat) (hn : (gates.map (·.idx)).Nodup)
    (s t : St) (ns : List St) (h : nextStates cfg gates W s = .ok ns) (ht : t ∈ ns) : Accounts gates s t ∧ t.level = s.level + 1 := by
  unfold nextStates at h
  cases hg : gates[s.level]? with
  | none => rw [hg] at h; injection h with h; subst h; cases ht
  | some g =>
    rw [hg] at h
    simp only at h
    split at h
    · cases h
    · injection h with h; subst h
      have hmem : g ∈ gates := List.mem_of_getElem? hg
      simp only [List.mem_filterMap] at ht
      obtain ⟨a, ha, hat⟩ := ht
      simp only [actionList, List.mem_append, List.mem_cons, List.not_mem_nil, or_false] at ha
      rcases ha with (rfl | ha) | ha
      · -- apply
        unfold applyGate at hat
        simp only at hat
        split at hat
        · cases hat
        · split at hat
          · cases hat
          · injection hat with hat; subst hat
            refine ⟨Or.inl ?_, rfl⟩
            split <;> simp [merge_actions]
      · -- gate cut
        split at ha
        · simp only [List.mem_cons, List.not_mem_nil, or_false] at ha; subst ha
          unfold cutGate at hat
          split at hat
          · cases hat
          · rename_i gam hgam
            simp only at hat
            split at hat
            · cases hat
            · injection hat with hat; subst hat
              refine ⟨Or.inr ⟨_, rfl, ?_⟩, rfl⟩
              simp [actCost, gammaOfIdx, find_idx gates g hmem hn, hgam]
        · cases ha
      · split at ha
        · simp only [List.mem_cons, List.not_mem_nil, or_false] at ha
          rcases ha with rfl | rfl | rfl
          · unfold cutLeft at hat
            split at hat
            · cases hat
            · simp only at hat
              split at hat
              · cases hat
              · split at hat
                · cases hat
                · injection hat with hat; subst hat
                  refine ⟨Or.inr ⟨⟨.left, g.idx, [(1, s.wire (g.qubits.getD 0 0), (s.newWire (g.qubits.getD 0 0)).2)]⟩, ?_, ?_⟩, rfl⟩ <;> simp [merge_actions, newWire_fields, actCost]
          · unfold cutRight at hat
            split at hat
            · cases hat
            · simp only at hat
              split at hat
              · cases hat
              · split at hat
                · cases hat
                · injection hat with hat; subst hat
                  refine ⟨Or.inr ⟨⟨.right, g.idx, [(2, s.wire (g.qubits.getD 1 0), (s.newWire (g.qubits.getD 1 0)).2)]⟩, ?_, ?_⟩, rfl⟩ <;> simp [merge_actions, newWire_fields, actCost]
          · unfold cutBoth at hat
            split at hat
            · cases hat
            · split at hat
              · cases hat
              · simp only at hat
                injection hat with hat; subst hat
                refine ⟨Or.inr ⟨⟨.both, g.idx, [(1, s.wire (g.qubits.getD 0 0), (s.newWire (g.qubits.getD 0 0)).2), (2, s.wire (g.qubits.getD 1 0), ((s.newWire (g.qubits.getD 0 0)).1.newWire (g.qubits.getD 1 0)).2)]⟩, ?_, ?_⟩, rfl⟩ <;> simp [merge_actions, newWire_fields, actCost]
        · cases ha

/-- reachability in the search tree -/
inductive Path (cfg : Settings) (gates : List Gate) (W : Nat) : St → St → Prop
  | refl (s : St) : Path cfg gates W s s
  | step (s t u : St) (ns : List St) : Path cfg gates W s t → nextStates cfg gates W t = .ok ns → u ∈ ns → Path cfg gates W s u

/-- T07.4: along every path the recorded gamma is the product of the costs of the recorded cut actions -/
theorem path_accounting (cfg : Settings) (gates : List Gate) (W : Nat) (hn : (gates.map (·.idx)).Nodup) (s t : St)
    (h : Path cfg gates W s t) :
    ∃ extra, t.actions = s.actions ++ extra ∧ t.gammaUB = s.gammaUB * (extra.map (actCost gates)).prod
      ∧ t.level = s.level + (t.level - s.level) ∧ s.level ≤ t.level := by
  induction h with
  | refl => exact ⟨[], by simp, by simp, by omega, le_refl _⟩
  | step t u ns _ hnext hu ih =>
    obtain ⟨extra, h1, h2, _, h4⟩ := ih
    obtain ⟨hacc, hl⟩ := step_accounting cfg gates W hn t u ns hnext hu
    rcases hacc with ⟨ha, hg⟩ | ⟨a, ha, hg⟩
    · exact ⟨extra, by rw [ha, h1], by rw [hg, h2], by omega, by omega⟩
    · refine ⟨extra ++ [a], by rw [ha, h1, List.append_assoc], ?_, by omega, by omega⟩
      rw [hg, h2, List.map_append, List.prod_append]; simp [mul_assoc]

theorem init_accounting (gates : List Gate) (n k : Nat) : (St.init n k).gammaUB = ((St.init n k).actions.map (actCost gates)).prod := by
  simp [St.init]

/-- from the start state: `gammaUB = Π cost(action)` -/
theorem reachable_gamma (cfg : Settings) (gates : List Gate) (W n k : Nat) (hn : (gates.map (·.idx)).Nodup) (t : St)
    (h : Path cfg gates W (St.init n k) t) : t.gammaUB = (t.actions.map (actCost gates)).prod := by
  obtain ⟨extra, h1, h2, _, _⟩ := path_accounting cfg gates W hn _ t h
  rw [h2, h1]; simp [St.init]

/-- the instruction ids handed to the search are pairwise distinct -/
theorem multiqubitGates_idx_nodup (instrs : List CInstr) (nq : Nat) : ((multiqubitGates instrs nq).map (·.idx)).Nodup := by
  unfold multiqubitGates
  simp only [List.map_map]
  have : ∀ (l : List (CInstr × Nat)), (l.map (·.2)).Nodup →
      ∀ p, ((l.filter p).map ((fun (g : Gate) => g.idx) ∘ fun (ik : CInstr × Nat) =>
        ({ idx := ik.2, qubits := ik.1.qubits.map (idOf (assignIds instrs nq)), gamma := ik.1.gamma } : Gate))).Nodup := by
    intro l hl p
    have e : ((fun (g : Gate) => g.idx) ∘ fun (ik : CInstr × Nat) =>
        ({ idx := ik.2, qubits := ik.1.qubits.map (idOf (assignIds instrs nq)), gamma := ik.1.gamma } : Gate)) = (·.2) := by
      funext ik; rfl
    rw [e]
    exact (hl.sublist ((List.filter_sublist).map _))
  apply this
  rw [List.zipIdx_map_snd]
  exact List.nodup_range' ..

/-- the reported overhead is the square of gamma -/
theorem export_overhead (instrs : List CInstr) (best : St) (b : Bool) :
    (exportCuts instrs best b).overhead = best.gammaUB * best.gammaUB ∧ (exportCuts instrs best b).minReached = b := by
  simp [exportCuts]

/-! ### bookkeeping invariants -/

theorem getD_set (l : List Nat) (i j v d : Nat) :
    (l.set i v).getD j d = if i = j ∧ i < l.length then v else l.getD j d := by
  simp only [List.getD_eq_getElem?_getD, List.getElem?_set]
  by_cases h : i = j
  · subst h
    by_cases hl : i < l.length
    · simp [hl]
    · simp [hl, List.getElem?_eq_none (not_lt.mp hl)]
  · simp [h]

theorem rootOf_merge (s : St) (a b w : Nat) :
    (s.merge a b).rootOf w = if s.rootOf w = max a b ∧ w < s.root.length then min a b else s.rootOf w := by
  simp only [St.rootOf, St.merge, List.getD_eq_getElem?_getD, List.getElem?_map]
  by_cases hw : w < s.root.length
  · simp [hw, List.getElem?_eq_getElem hw]
  · simp [hw, List.getElem?_eq_none (not_lt.mp hw)]

theorem widthOf_merge (s : St) (a b r : Nat) :
    (s.merge a b).widthOf r = if min a b = r ∧ min a b < s.width.length then s.widthOf (min a b) + s.widthOf (max a b) else s.widthOf r := by
  simp only [St.widthOf, St.merge, getD_set]

structure Inv (W n : Nat) (s : St) : Prop where
  width_le : ∀ r, s.widthOf r ≤ W
  fresh : ∀ w, s.numWires ≤ w → s.widthOf w ≤ 1
  root_le : ∀ w, s.rootOf w ≤ w
  wire_lt : ∀ q, q < n → s.wire q < s.numWires
  wm_len : s.wiremap.length = n

theorem init_inv (W n k : Nat) (hW : 1 ≤ W) : Inv W n (St.init n k) := by
  refine ⟨?_, ?_, ?_, ?_, by simp [St.init]⟩
  · intro r
    simp only [St.widthOf, St.init, List.getD_eq_getElem?_getD, List.getElem?_replicate]
    split <;> simp <;> omega
  · intro w _
    simp only [St.widthOf, St.init, List.getD_eq_getElem?_getD, List.getElem?_replicate]
    split <;> simp
  · intro w
    simp only [St.rootOf, St.init, List.getD_eq_getElem?_getD]
    by_cases hw : w < n + k
    · simp [List.getElem?_range hw]
    · have : (List.range (n + k))[w]? = none := List.getElem?_eq_none (by simp; omega)
      simp [this]
  · intro q hq
    simp [St.wire, St.init, List.getD_eq_getElem?_getD, List.getElem?_range, hq]

theorem qroot_lt {W n : Nat} {s : St} (hi : Inv W n s) (q : Nat) (hq : q < n) : s.qroot q < s.numWires :=
  lt_of_le_of_lt (hi.root_le _) (hi.wire_lt q hq)

theorem merge_inv {W n : Nat} {s : St} (hi : Inv W n s) (a b : Nat) (hmin : min a b < s.numWires)
    (hsum : s.widthOf (min a b) + s.widthOf (max a b) ≤ W) : Inv W n (s.merge a b) := by
  refine ⟨?_, ?_, ?_, ?_, by simp [merge_actions, hi.wm_len]⟩
  · intro r; rw [widthOf_merge]; split
    · exact hsum
    · exact hi.width_le r
  · intro w hw
    rw [(merge_actions s a b).2.2.2.1] at hw
    rw [widthOf_merge]; split
    · rename_i h; omega
    · exact hi.fresh w hw
  · intro w; rw [rootOf_merge]; split
    · rename_i h
      have := hi.root_le w
      have : min a b ≤ max a b := le_trans (min_le_left _ _) (le_max_left _ _)
      omega
    · exact hi.root_le w
  · intro q hq
    have := hi.wire_lt q hq
    simpa [St.wire, merge_actions] using this

theorem newWire_inv {W n : Nat} {s : St} (hi : Inv W n s) (q : Nat) :
    Inv W n (s.newWire q).1 ∧ (s.newWire q).1.widthOf s.numWires ≤ 1 := by
  refine ⟨⟨?_, ?_, ?_, ?_, by simp [St.newWire, hi.wm_len]⟩, ?_⟩
  · intro r; simpa [St.widthOf, St.newWire] using hi.width_le r
  · intro w hw
    have : s.numWires ≤ w := by simp [St.newWire] at hw; omega
    simpa [St.widthOf, St.newWire] using hi.fresh w this
  · intro w; simpa [St.rootOf, St.newWire] using hi.root_le w
  · intro q' hq'
    simp only [St.wire, St.newWire, getD_set]
    split
    · omega
    · have := hi.wire_lt q' hq'
      simp only [St.wire] at this; omega
  · simpa [St.widthOf, St.newWire] using hi.fresh s.numWires (le_refl _)

/-- every action keeps the invariants: in particular no root's recorded width ever exceeds the limit -/
theorem step_inv (cfg : Settings) (gates : List Gate) (W n : Nat)
    (hq : ∀ g ∈ gates, g.qubits.getD 0 0 < n ∧ g.qubits.getD 1 0 < n)
    (s t : St) (ns : List St) (hi : Inv W n s) (h : nextStates cfg gates W s = .ok ns) (ht : t ∈ ns) : Inv W n t := by
  unfold nextStates at h
  cases hg : gates[s.level]? with
  | none => rw [hg] at h; injection h with h; subst h; cases ht
  | some g =>
    rw [hg] at h
    simp only at h
    split at h
    · cases h
    · injection h with h; subst h
      have hmem : g ∈ gates := List.mem_of_getElem? hg
      obtain ⟨hq1, hq2⟩ := hq g hmem
      have hr1 := qroot_lt hi _ hq1
      have hr2 := qroot_lt hi _ hq2
      simp only [List.mem_filterMap] at ht
      obtain ⟨a, ha, hat⟩ := ht
      simp only [actionList, List.mem_append, List.mem_cons, List.not_mem_nil, or_false] at ha
      rcases ha with (rfl | ha) | ha
      · unfold applyGate at hat
        simp only at hat
        split at hat
        · cases hat
        · rename_i hguard
          split at hat
          · cases hat
          · injection hat with hat; subst hat
            split
            · rename_i hne
              have hsum : s.widthOf (min (s.qroot (g.qubits.getD 0 0)) (s.qroot (g.qubits.getD 1 0)))
                  + s.widthOf (max (s.qroot (g.qubits.getD 0 0)) (s.qroot (g.qubits.getD 1 0))) ≤ W := by
                have : ¬ (s.widthOf (s.qroot (g.qubits.getD 0 0)) + s.widthOf (s.qroot (g.qubits.getD 1 0)) > W) := fun hh => hguard ⟨hne, hh⟩
                rcases le_total (s.qroot (g.qubits.getD 0 0)) (s.qroot (g.qubits.getD 1 0)) with hle | hle
                · rw [min_eq_left hle, max_eq_right hle]; omega
                · rw [min_eq_right hle, max_eq_left hle]; omega
              have hm := merge_inv hi _ _ (lt_of_le_of_lt (min_le_left _ _) hr1) hsum
              exact ⟨hm.width_le, hm.fresh, hm.root_le, hm.wire_lt, hm.wm_len⟩
            · exact ⟨hi.width_le, hi.fresh, hi.root_le, hi.wire_lt, hi.wm_len⟩
      · split at ha
        · simp only [List.mem_cons, List.not_mem_nil, or_false] at ha; subst ha
          unfold cutGate at hat
          split at hat
          · cases hat
          · simp only at hat
            split at hat
            · cases hat
            · injection hat with hat; subst hat
              exact ⟨hi.width_le, hi.fresh, hi.root_le, hi.wire_lt, hi.wm_len⟩
        · cases ha
      · split at ha
        · simp only [List.mem_cons, List.not_mem_nil, or_false] at ha
          rcases ha with rfl | rfl | rfl
          · unfold cutLeft at hat
            split at hat
            · cases hat
            · simp only at hat
              split at hat
              · cases hat
              · split at hat
                · cases hat
                · rename_i hw
                  injection hat with hat; subst hat
                  obtain ⟨hn1, hn2⟩ := newWire_inv hi (g.qubits.getD 0 0)
                  have hw' : s.widthOf (s.qroot (g.qubits.getD 1 0)) + 1 ≤ W := by simpa using hw
                  have hmin : min (s.newWire (g.qubits.getD 0 0)).2 (s.qroot (g.qubits.getD 1 0)) = s.qroot (g.qubits.getD 1 0) := by
                    simp only [newWire_fields]; exact min_eq_right (le_of_lt hr2)
                  have hmax : max (s.newWire (g.qubits.getD 0 0)).2 (s.qroot (g.qubits.getD 1 0)) = s.numWires := by
                    simp only [newWire_fields]; exact max_eq_left (le_of_lt hr2)
                  have hm := merge_inv hn1 (s.newWire (g.qubits.getD 0 0)).2 (s.qroot (g.qubits.getD 1 0))
                    (by rw [hmin]; simp only [newWire_fields]; omega)
                    (by rw [hmin, hmax]
                        have e : (s.newWire (g.qubits.getD 0 0)).1.widthOf (s.qroot (g.qubits.getD 1 0)) = s.widthOf (s.qroot (g.qubits.getD 1 0)) := by
                          simp [St.widthOf, St.newWire]
                        rw [e]; omega)
                  exact ⟨hm.width_le, hm.fresh, hm.root_le, hm.wire_lt, hm.wm_len⟩
          · unfold cutRight at hat
            split at hat
            · cases hat
            · simp only at hat
              split at hat
              · cases hat
              · split at hat
                · cases hat
                · rename_i hw
                  injection hat with hat; subst hat
                  obtain ⟨hn1, hn2⟩ := newWire_inv hi (g.qubits.getD 1 0)
                  have hw' : s.widthOf (s.qroot (g.qubits.getD 0 0)) + 1 ≤ W := by simpa using hw
                  have hmin : min (s.qroot (g.qubits.getD 0 0)) (s.newWire (g.qubits.getD 1 0)).2 = s.qroot (g.qubits.getD 0 0) := by
                    simp only [newWire_fields]; exact min_eq_left (le_of_lt hr1)
                  have hmax : max (s.qroot (g.qubits.getD 0 0)) (s.newWire (g.qubits.getD 1 0)).2 = s.numWires := by
                    simp only [newWire_fields]; exact max_eq_right (le_of_lt hr1)
                  have hm := merge_inv hn1 (s.qroot (g.qubits.getD 0 0)) (s.newWire (g.qubits.getD 1 0)).2
                    (by rw [hmin]; simp only [newWire_fields]; omega)
                    (by rw [hmin, hmax]
                        have e : (s.newWire (g.qubits.getD 1 0)).1.widthOf (s.qroot (g.qubits.getD 0 0)) = s.widthOf (s.qroot (g.qubits.getD 0 0)) := by
                          simp [St.widthOf, St.newWire]
                        rw [e]; omega)
                  exact ⟨hm.width_le, hm.fresh, hm.root_le, hm.wire_lt, hm.wm_len⟩
          · unfold cutBoth at hat
            split at hat
            · cases hat
            · split at hat
              · cases hat
              · rename_i hW2
                simp only at hat
                injection hat with hat; subst hat
                obtain ⟨hn1, hf1⟩ := newWire_inv hi (g.qubits.getD 0 0)
                obtain ⟨hn2, hf2⟩ := newWire_inv hn1 (g.qubits.getD 1 0)
                have e1 : (s.newWire (g.qubits.getD 0 0)).1.numWires = s.numWires + 1 := by simp [St.newWire]
                have hmin : min (s.newWire (g.qubits.getD 0 0)).2 ((s.newWire (g.qubits.getD 0 0)).1.newWire (g.qubits.getD 1 0)).2 = s.numWires := by
                  simp [St.newWire]
                have hmax : max (s.newWire (g.qubits.getD 0 0)).2 ((s.newWire (g.qubits.getD 0 0)).1.newWire (g.qubits.getD 1 0)).2 = s.numWires + 1 := by
                  simp [St.newWire]
                have hm := merge_inv hn2 (s.newWire (g.qubits.getD 0 0)).2 ((s.newWire (g.qubits.getD 0 0)).1.newWire (g.qubits.getD 1 0)).2
                  (by rw [hmin]; simp [St.newWire]; omega)
                  (by rw [hmin, hmax]
                      have a1 : ((s.newWire (g.qubits.getD 0 0)).1.newWire (g.qubits.getD 1 0)).1.widthOf s.numWires ≤ 1 := by
                        have := hf1; simpa [St.widthOf, St.newWire] using this
                      have a2 : ((s.newWire (g.qubits.getD 0 0)).1.newWire (g.qubits.getD 1 0)).1.widthOf (s.numWires + 1) ≤ 1 := by
                        have := hf2; rw [e1] at this; exact this
                      omega)
                exact ⟨hm.width_le, hm.fresh, hm.root_le, hm.wire_lt, hm.wm_len⟩
        · cases ha

/-- T07.1 (bookkeeping part): in every reachable state no root's recorded width exceeds the limit -/
theorem path_inv (cfg : Settings) (gates : List Gate) (W n : Nat)
    (hq : ∀ g ∈ gates, g.qubits.getD 0 0 < n ∧ g.qubits.getD 1 0 < n) (s t : St) (hi : Inv W n s)
    (h : Path cfg gates W s t) : Inv W n t := by
  induction h with
  | refl => exact hi
  | step t u ns _ hnext hu ih => exact step_inv cfg gates W n hq t u ns ih hnext hu

theorem reachable_width (cfg : Settings) (gates : List Gate) (W n k : Nat) (hW : 1 ≤ W)
    (hq : ∀ g ∈ gates, g.qubits.getD 0 0 < n ∧ g.qubits.getD 1 0 < n) (t : St)
    (h : Path cfg gates W (St.init n k) t) : ∀ r, t.widthOf r ≤ W :=
  (path_inv cfg gates W n hq _ t (init_inv W n k hW) h).width_le

/-- non-vacuity: a concrete reachable state with a wire cut -/
example : ∃ t, cutLeft (St.init 2 4) ⟨0, [0, 1], some 3⟩ 2 = some t ∧ t.gammaUB = 4 ∧ t.numWires = 3 := by
  refine ⟨_, rfl, ?_, ?_⟩ <;> decide +kernel

/-! ### the export adds only markers -/

def isMarker : OutItem → Bool
  | .marker _ => true
  | _ => false

theorem markersOf_all (instrs : List CInstr) (a : Act) : ∀ m ∈ markersOf instrs a, isMarker m = true := by
  intro m hm
  simp only [markersOf, List.mem_map] at hm
  obtain ⟨_, _, rfl⟩ := hm; rfl

theorem filter_insertAt (items ms : List OutItem) (pos : Nat) (hm : ∀ m ∈ ms, isMarker m = true) :
    (insertAt items pos ms).filter (fun it => !isMarker it) = items.filter (fun it => !isMarker it) := by
  unfold insertAt
  rw [List.filter_append, List.filter_append]
  have : ms.filter (fun it => !isMarker it) = [] := by
    rw [List.filter_eq_nil_iff]; intro m hm'; simp [hm m hm']
  rw [this, List.append_nil, ← List.filter_append, List.take_append_drop]

/-- T07.3 (first half): deleting the wire-cut markers from the output gives back the input instruction list, in order,
with exactly the gate-cut gates wrapped -/
theorem export_nonmarkers (instrs : List CInstr) (best : St) (b : Bool) :
    (exportCuts instrs best b).items.filter (fun it => !isMarker it)
      = (List.range instrs.length).map fun i =>
          if i ∈ (best.actions.filter (·.kind = .gateCut)).map (·.gate) then OutItem.cut i else OutItem.orig i := by
  unfold exportCuts
  simp only
  generalize (sortByGate (best.actions.filter (·.kind ≠ .gateCut))) = wires
  have base_ok : ∀ (base : List OutItem) (c : Nat),
      ((wires.foldl (fun (acc : List OutItem × Nat) a =>
        (insertAt acc.1 (a.gate + acc.2) (markersOf instrs a), acc.2 + (markersOf instrs a).length)) (base, c)).1).filter (fun it => !isMarker it)
        = base.filter (fun it => !isMarker it) := by
    induction wires with
    | nil => intro base c; rfl
    | cons a ws ih =>
      intro base c
      simp only [List.foldl_cons]
      rw [ih, filter_insertAt _ _ _ (markersOf_all instrs a)]
  rw [base_ok]
  rw [List.filter_eq_self]
  intro it hit
  simp only [List.mem_map] at hit
  obtain ⟨i, _, rfl⟩ := hit
  split <;> rfl

/-- T07.3 (metadata): `cuts` lists exactly the positions of the wrapped gates and of the markers, with their kinds -/
theorem export_cuts_spec (instrs : List CInstr) (best : St) (b : Bool) (kind : String) (pos : Nat) :
    (kind, pos) ∈ (exportCuts instrs best b).cuts ↔
      ∃ it, (exportCuts instrs best b).items[pos]? = some it ∧
        ((∃ i, it = .cut i ∧ kind = "Gate Cut") ∨ (∃ q, it = .marker q ∧ kind = "Wire Cut")) := by
  have hc : (exportCuts instrs best b).cuts = ((exportCuts instrs best b).items.zipIdx.filterMap fun (ik : OutItem × Nat) => match ik.1 with
      | .cut _ => some ("Gate Cut", ik.2)
      | .marker _ => some ("Wire Cut", ik.2)
      | .orig _ => none) := by
    unfold exportCuts; rfl
  rw [hc, List.mem_filterMap]
  constructor
  · rintro ⟨⟨it, k⟩, hmem, hm⟩
    have hk := List.mem_zipIdx hmem
    simp only at hm
    cases it with
    | orig i => simp at hm
    | cut i =>
      simp only [Option.some.injEq, Prod.mk.injEq] at hm
      obtain ⟨rfl, rfl⟩ := hm
      exact ⟨.cut i, by rw [List.getElem?_eq_getElem (by simpa using hk.2.1)]; exact congrArg some hk.2.2.symm, Or.inl ⟨i, rfl, rfl⟩⟩
    | marker q =>
      simp only [Option.some.injEq, Prod.mk.injEq] at hm
      obtain ⟨rfl, rfl⟩ := hm
      exact ⟨.marker q, by rw [List.getElem?_eq_getElem (by simpa using hk.2.1)]; exact congrArg some hk.2.2.symm, Or.inr ⟨q, rfl, rfl⟩⟩
  · rintro ⟨it, hit, h⟩
    have hmem : (it, pos) ∈ (exportCuts instrs best b).items.zipIdx := by
      rw [List.mem_zipIdx_iff_getElem?]; simpa using hit
    rcases h with ⟨i, rfl, rfl⟩ | ⟨q, rfl, rfl⟩
    · exact ⟨(.cut i, pos), hmem, rfl⟩
    · exact ⟨(.marker q, pos), hmem, rfl⟩

/-! ### separation invariants of the partition bookkeeping -/

def rootL (root : List Nat) (w : Nat) : Nat := root.getD w w

theorem rootOf_eq (s : St) (w : Nat) : s.rootOf w = rootL s.root w := rfl

/-- structural invariants; they depend only on the root map, the wire counters and the no-merge clauses -/
structure Inv2' (root : List Nat) (maxWires numWires : Nat) (noMerge : List (Nat × Nat)) : Prop where
  root_len : root.length = maxWires
  nw_le : numWires ≤ maxWires
  root_le : ∀ w, rootL root w ≤ w
  root_idem : ∀ w, rootL root (rootL root w) = rootL root w
  points_old : ∀ w, numWires ≤ rootL root w → rootL root w = w   -- nobody points to an unallocated wire
  fresh_root : ∀ w, numWires ≤ w → rootL root w = w              -- an unallocated wire is its own root
  clause_lt : ∀ c ∈ noMerge, c.1 < numWires ∧ c.2 < numWires
  sep : ∀ c ∈ noMerge, rootL root c.1 ≠ rootL root c.2

def Inv2 (s : St) : Prop := Inv2' s.root s.maxWires s.numWires s.noMerge

theorem rootL_range (n w : Nat) : rootL (List.range n) w = w := by
  simp only [rootL, List.getD_eq_getElem?_getD]
  by_cases hw : w < n
  · simp [List.getElem?_range hw]
  · have : (List.range n)[w]? = none := List.getElem?_eq_none (by simp; omega)
    simp [this]

theorem init_inv2 (n k : Nat) : Inv2 (St.init n k) := by
  unfold Inv2
  simp only [St.init]
  exact ⟨by simp, by omega, fun w => by rw [rootL_range], fun w => by rw [rootL_range, rootL_range], fun w _ => rootL_range _ w,
    fun w _ => rootL_range _ w, (fun c hc => by cases hc), (fun c hc => by cases hc)⟩

theorem rootL_oob (root : List Nat) (w : Nat) (h : root.length ≤ w) : rootL root w = w := by
  simp [rootL, List.getD_eq_getElem?_getD, List.getElem?_eq_none h]

theorem rootL_map (root : List Nat) (f : Nat → Nat) (w : Nat) (hw : w < root.length) : rootL (root.map f) w = f (rootL root w) := by
  simp [rootL, List.getD_eq_getElem?_getD, List.getElem?_map, List.getElem?_eq_getElem hw]

/-- the root map after `merge_roots` -/
theorem rootL_merge (root : List Nat) (mw nw : Nat) (nm : List (Nat × Nat)) (hi : Inv2' root mw nw nm) (a b w : Nat) (hlt : max a b < nw) :
    rootL (root.map fun r => if r = max a b then min a b else r) w = if rootL root w = max a b then min a b else rootL root w := by
  by_cases hw : w < root.length
  · rw [rootL_map _ _ _ hw]
  · have h1 := rootL_oob root w (not_lt.mp hw)
    have h2 : rootL (root.map fun r => if r = max a b then min a b else r) w = w := rootL_oob _ w (by simpa using not_lt.mp hw)
    rw [h2, h1]
    have : w ≠ max a b := by
      have := hi.nw_le; have := hi.root_len; omega
    simp [this]

theorem merge_inv2' (root : List Nat) (mw nw : Nat) (nm : List (Nat × Nat)) (hi : Inv2' root mw nw nm) (a b : Nat)
    (ha : rootL root a = a) (hb : rootL root b = b) (hab : a ≠ b) (hlt : max a b < nw)
    (hns : ∀ c ∈ nm, ¬ ((rootL root c.1 = a ∧ rootL root c.2 = b) ∨ (rootL root c.1 = b ∧ rootL root c.2 = a))) :
    Inv2' (root.map fun r => if r = max a b then min a b else r) mw nw nm := by
  have hr := rootL_merge root mw nw nm hi a b
  have hmin_root : rootL root (min a b) = min a b := by
    rcases le_total a b with h | h
    · rw [min_eq_left h]; exact ha
    · rw [min_eq_right h]; exact hb
  have hmin_ne : min a b ≠ max a b := by
    rcases le_total a b with h | h
    · rw [min_eq_left h, max_eq_right h]; exact hab
    · rw [min_eq_right h, max_eq_left h]; exact fun e => hab e.symm
  have hmin_lt : min a b < nw := lt_of_le_of_lt (le_trans (min_le_left _ _) (le_max_left _ _)) hlt
  refine ⟨by simp [hi.root_len], hi.nw_le, ?_, ?_, ?_, ?_, hi.clause_lt, ?_⟩
  · intro w; rw [hr w hlt]; split
    · rename_i h
      have := hi.root_le w
      have : min a b ≤ max a b := le_trans (min_le_left _ _) (le_max_left _ _)
      omega
    · exact hi.root_le w
  · intro w
    rw [hr w hlt]
    split
    · rw [hr _ hlt, hmin_root]; simp [hmin_ne]
    · rename_i h
      rw [hr _ hlt, hi.root_idem w]; simp [h]
  · intro w hw
    rw [hr w hlt] at hw ⊢
    split at hw
    · omega
    · rename_i h
      simp only [h, if_false]
      exact hi.points_old w hw
  · intro w hw
    rw [hr w hlt, hi.fresh_root w hw]
    have : w ≠ max a b := by omega
    simp [this]
  · intro c hc heq
    rw [hr c.1 hlt, hr c.2 hlt] at heq
    have hsep := hi.sep c hc
    have hno := hns c hc
    by_cases h1 : rootL root c.1 = max a b <;> by_cases h2 : rootL root c.2 = max a b
    · exact hsep (by rw [h1, h2])
    · simp only [h1, h2, if_true, if_false] at heq
      apply hno
      rcases le_total a b with h | h
      · rw [min_eq_left h] at heq; rw [max_eq_right h] at h1
        exact Or.inr ⟨h1, heq.symm⟩
      · rw [min_eq_right h] at heq; rw [max_eq_left h] at h1
        exact Or.inl ⟨h1, heq.symm⟩
    · simp only [h1, h2, if_true, if_false] at heq
      apply hno
      rcases le_total a b with h | h
      · rw [min_eq_left h] at heq; rw [max_eq_right h] at h2
        exact Or.inl ⟨heq, h2⟩
      · rw [min_eq_right h] at heq; rw [max_eq_left h] at h2
        exact Or.inr ⟨heq, h2⟩
    · simp only [h1, h2, if_false] at heq
      exact hsep heq

theorem newWire_inv2' (root : List Nat) (mw nw : Nat) (nm : List (Nat × Nat)) (hi : Inv2' root mw nw nm) (h : nw + 1 ≤ mw) :
    Inv2' root mw (nw + 1) nm :=
  ⟨hi.root_len, h, hi.root_le, hi.root_idem, fun w hw => hi.points_old w (by omega), fun w hw => hi.fresh_root w (by omega),
   fun c hc => ⟨by have := (hi.clause_lt c hc).1; omega, by have := (hi.clause_lt c hc).2; omega⟩, hi.sep⟩

theorem clause_inv2' (root : List Nat) (mw nw : Nat) (nm : List (Nat × Nat)) (hi : Inv2' root mw nw nm) (x y : Nat)
    (hx : x < nw) (hy : y < nw) (hne : rootL root x ≠ rootL root y) : Inv2' root mw nw (nm ++ [(x, y)]) := by
  refine ⟨hi.root_len, hi.nw_le, hi.root_le, hi.root_idem, hi.points_old, hi.fresh_root, ?_, ?_⟩
  · intro c hc
    rcases List.mem_append.1 hc with hc | hc
    · exact hi.clause_lt c hc
    · simp at hc; subst hc; exact ⟨hx, hy⟩
  · intro c hc
    rcases List.mem_append.1 hc with hc | hc
    · exact hi.sep c hc
    · simp at hc; subst hc; exact hne


theorem forbidden_false_iff (s : St) (a b : Nat) : s.forbidden a b = false ↔
    ∀ c ∈ s.noMerge, ¬ ((rootL s.root c.1 = a ∧ rootL s.root c.2 = b) ∨ (rootL s.root c.1 = b ∧ rootL s.root c.2 = a)) := by
  unfold St.forbidden
  rw [List.any_eq_false]
  constructor
  · intro h c hc hor
    apply h c hc
    simp only [Bool.or_eq_true, Bool.and_eq_true, beq_iff_eq]
    exact hor
  · intro h c hc hor
    simp only [Bool.or_eq_true, Bool.and_eq_true, beq_iff_eq] at hor
    exact h c hc hor

theorem forbidden_self (s : St) (hi : Inv2 s) (r : Nat) : s.forbidden r r = false := by
  rw [forbidden_false_iff]
  intro c hc hor
  have := hi.sep c hc
  rcases hor with ⟨h1, h2⟩ | ⟨h1, h2⟩ <;> exact this (by rw [h1, h2])

/-- every action keeps the separation invariants (given the bookkeeping invariants of `Inv`) -/
theorem step_inv2 (cfg : Settings) (gates : List Gate) (W n : Nat)
    (hq : ∀ g ∈ gates, g.qubits.getD 0 0 < n ∧ g.qubits.getD 1 0 < n)
    (s t : St) (ns : List St) (hi : Inv W n s) (h2 : Inv2 s) (h : nextStates cfg gates W s = .ok ns) (ht : t ∈ ns) : Inv2 t := by
  unfold nextStates at h
  cases hg : gates[s.level]? with
  | none => rw [hg] at h; injection h with h; subst h; cases ht
  | some g =>
    rw [hg] at h
    simp only at h
    split at h
    · cases h
    · injection h with h; subst h
      have hmem : g ∈ gates := List.mem_of_getElem? hg
      obtain ⟨hq1, hq2⟩ := hq g hmem
      have hr1 := qroot_lt hi _ hq1
      have hr2 := qroot_lt hi _ hq2
      have hroot1 : rootL s.root (s.qroot (g.qubits.getD 0 0)) = s.qroot (g.qubits.getD 0 0) := h2.root_idem _
      have hroot2 : rootL s.root (s.qroot (g.qubits.getD 1 0)) = s.qroot (g.qubits.getD 1 0) := h2.root_idem _
      simp only [List.mem_filterMap] at ht
      obtain ⟨a, ha, hat⟩ := ht
      simp only [actionList, List.mem_append, List.mem_cons, List.not_mem_nil, or_false] at ha
      rcases ha with (rfl | ha) | ha
      · -- apply
        unfold applyGate at hat
        simp only at hat
        split at hat
        · cases hat
        · split at hat
          · cases hat
          · rename_i hforb
            injection hat with hat; subst hat
            split
            · rename_i hne
              have hf : s.forbidden (s.qroot (g.qubits.getD 0 0)) (s.qroot (g.qubits.getD 1 0)) = false := by simpa using hforb
              exact merge_inv2' s.root s.maxWires s.numWires s.noMerge h2 _ _ hroot1 hroot2 hne
                (max_lt hr1 hr2) ((forbidden_false_iff s _ _).1 hf)
            · exact h2
      · split at ha
        · simp only [List.mem_cons, List.not_mem_nil, or_false] at ha; subst ha
          unfold cutGate at hat
          split at hat
          · cases hat
          · simp only at hat
            split at hat
            · cases hat
            · rename_i hne
              injection hat with hat; subst hat
              exact clause_inv2' s.root s.maxWires s.numWires s.noMerge h2 _ _ hr1 hr2 (by rw [hroot1, hroot2]; exact hne)
        · cases ha
      · split at ha
        · simp only [List.mem_cons, List.not_mem_nil, or_false] at ha
          rcases ha with rfl | rfl | rfl
          · unfold cutLeft at hat
            split at hat
            · cases hat
            · rename_i hcan
              simp only at hat
              split at hat
              · cases hat
              · rename_i hne
                split at hat
                · cases hat
                · injection hat with hat; subst hat
                  have hcan' : s.numWires + 1 ≤ s.maxWires := by simpa [St.canAddWires] using hcan
                  have i1 := newWire_inv2' s.root s.maxWires s.numWires s.noMerge h2 hcan'
                  have hfresh : rootL s.root s.numWires = s.numWires := h2.fresh_root _ (le_refl _)
                  have i2 := merge_inv2' s.root s.maxWires (s.numWires + 1) s.noMerge i1 s.numWires (s.qroot (g.qubits.getD 1 0))
                    hfresh hroot2 (by omega) (by rw [max_eq_left (le_of_lt hr2)]; omega)
                    (by
                      intro c hc hor
                      have hc1 := (h2.clause_lt c hc)
                      have l1 := h2.root_le c.1
                      have l2 := h2.root_le c.2
                      rcases hor with ⟨e, _⟩ | ⟨_, e⟩ <;> omega)
                  have hm := rootL_merge s.root s.maxWires (s.numWires + 1) s.noMerge i1 s.numWires (s.qroot (g.qubits.getD 1 0))
                  have hmax : max s.numWires (s.qroot (g.qubits.getD 1 0)) = s.numWires := max_eq_left (le_of_lt hr2)
                  have hlt' : max s.numWires (s.qroot (g.qubits.getD 1 0)) < s.numWires + 1 := by rw [hmax]; omega
                  refine clause_inv2' _ s.maxWires (s.numWires + 1) s.noMerge i2 _ _ (by omega) (by omega) ?_
                  rw [hm _ hlt', hm _ hlt', hroot1, hroot2, hmax]
                  have a1 : s.qroot (g.qubits.getD 0 0) ≠ s.numWires := by omega
                  have a2 : s.qroot (g.qubits.getD 1 0) ≠ s.numWires := by omega
                  simp only [a1, a2, if_false]
                  exact hne
          · unfold cutRight at hat
            split at hat
            · cases hat
            · rename_i hcan
              simp only at hat
              split at hat
              · cases hat
              · rename_i hne
                split at hat
                · cases hat
                · injection hat with hat; subst hat
                  have hcan' : s.numWires + 1 ≤ s.maxWires := by simpa [St.canAddWires] using hcan
                  have i1 := newWire_inv2' s.root s.maxWires s.numWires s.noMerge h2 hcan'
                  have hfresh : rootL s.root s.numWires = s.numWires := h2.fresh_root _ (le_refl _)
                  have i2 := merge_inv2' s.root s.maxWires (s.numWires + 1) s.noMerge i1 (s.qroot (g.qubits.getD 0 0)) s.numWires
                    hroot1 hfresh (by omega) (by rw [max_eq_right (le_of_lt hr1)]; omega)
                    (by
                      intro c hc hor
                      have hc1 := (h2.clause_lt c hc)
                      have l1 := h2.root_le c.1
                      have l2 := h2.root_le c.2
                      rcases hor with ⟨_, e⟩ | ⟨e, _⟩ <;> omega)
                  have hm := rootL_merge s.root s.maxWires (s.numWires + 1) s.noMerge i1 (s.qroot (g.qubits.getD 0 0)) s.numWires
                  have hmax : max (s.qroot (g.qubits.getD 0 0)) s.numWires = s.numWires := max_eq_right (le_of_lt hr1)
                  have hlt' : max (s.qroot (g.qubits.getD 0 0)) s.numWires < s.numWires + 1 := by rw [hmax]; omega
                  refine clause_inv2' _ s.maxWires (s.numWires + 1) s.noMerge i2 _ _ (by omega) (by omega) ?_
                  rw [hm _ hlt', hm _ hlt', hroot1, hroot2, hmax]
                  have a1 : s.qroot (g.qubits.getD 0 0) ≠ s.numWires := by omega
                  have a2 : s.qroot (g.qubits.getD 1 0) ≠ s.numWires := by omega
                  simp only [a1, a2, if_false]
                  exact hne
          · unfold cutBoth at hat
            split at hat
            · cases hat
            · rename_i hcan
              split at hat
              · cases hat
              · simp only at hat
                injection hat with hat; subst hat
                have hcan' : s.numWires + 2 ≤ s.maxWires := by simpa [St.canAddWires] using hcan
                have i1 := newWire_inv2' s.root s.maxWires s.numWires s.noMerge h2 (by omega)
                have i1' := newWire_inv2' s.root s.maxWires (s.numWires + 1) s.noMerge i1 (by omega)
                have hf1 : rootL s.root s.numWires = s.numWires := h2.fresh_root _ (le_refl _)
                have hf2 : rootL s.root (s.numWires + 1) = s.numWires + 1 := h2.fresh_root _ (by omega)
                have hmax : max s.numWires (s.numWires + 1) = s.numWires + 1 := max_eq_right (by omega)
                have hmin : min s.numWires (s.numWires + 1) = s.numWires := min_eq_left (by omega)
                have hlt' : max s.numWires (s.numWires + 1) < s.numWires + 1 + 1 := by rw [hmax]; omega
                have i2 := merge_inv2' s.root s.maxWires (s.numWires + 1 + 1) s.noMerge i1' s.numWires (s.numWires + 1)
                  hf1 hf2 (by omega) hlt'
                  (by
                    intro c hc hor
                    have hc1 := (h2.clause_lt c hc)
                    have l1 := h2.root_le c.1
                    have l2 := h2.root_le c.2
                    rcases hor with ⟨e, _⟩ | ⟨_, e⟩ <;> omega)
                have hm := rootL_merge s.root s.maxWires (s.numWires + 1 + 1) s.noMerge i1' s.numWires (s.numWires + 1)
                have c1 := clause_inv2' _ s.maxWires (s.numWires + 1 + 1) s.noMerge i2 (s.qroot (g.qubits.getD 0 0)) s.numWires
                  (by omega) (by omega) (by
                    rw [hm _ hlt', hm _ hlt', hroot1, hf1, hmax]
                    have a1 : s.qroot (g.qubits.getD 0 0) ≠ s.numWires + 1 := by omega
                    have a2 : s.numWires ≠ s.numWires + 1 := by omega
                    simp only [a1, a2, if_false]; omega)
                have c2 := clause_inv2' _ s.maxWires (s.numWires + 1 + 1) _ c1 (s.qroot (g.qubits.getD 1 0)) (s.numWires + 1)
                  (by omega) (by omega) (by
                    rw [hm _ hlt', hm _ hlt', hroot2, hf2, hmax, hmin]
                    have a1 : s.qroot (g.qubits.getD 1 0) ≠ s.numWires + 1 := by omega
                    simp only [a1, if_false, if_true]; omega)
                simpa [Inv2, St.merge, St.newWire, List.append_assoc] using c2
        · cases ha

/-! ### T07.5 — the cut finder fails only when no placement of the permitted cuts can meet the width limit -/

theorem argminCost_mem : ∀ (l : List St) (t : St), argminCost l = some t → t ∈ l := by
  intro l
  induction l with
  | nil => intro t h; cases h
  | cons a rest ih =>
    intro t h
    simp only [argminCost] at h
    cases hr : argminCost rest with
    | none => rw [hr] at h; injection h with h; subst h; simp
    | some u =>
      rw [hr] at h
      simp only at h
      split at h
      · injection h with h; subst h; exact List.mem_cons_of_mem _ (ih u hr)
      · injection h with h; subst h; simp

theorem argminCost_none (l : List St) (h : argminCost l = none) : l = [] := by
  cases l with
  | nil => rfl
  | cons a rest =>
    simp only [argminCost] at h
    cases hr : argminCost rest with
    | none => rw [hr] at h; cases h
    | some u => rw [hr] at h; simp only at h; split at h <;> cases h

/-- with gate cuts permitted, a two-qubit gate that has a gamma always has a successor:
either its qubits sit in different subcircuits (cut it) or in the same one (apply it) -/
theorem progress_gate_cut (cfg : Settings) (gates : List Gate) (W : Nat) (s : St) (g : Gate) (x : Rat)
    (h2 : Inv2 s) (hg : gates[s.level]? = some g) (hlen : g.qubits.length = 2) (hx : g.gamma = some x) (hlo : cfg.gateLO = true) :
    ∃ ns, nextStates cfg gates W s = .ok ns ∧ ns ≠ [] := by
  unfold nextStates
  rw [hg]
  simp only [hlen, ne_eq, not_true_eq_false, if_false]
  refine ⟨_, rfl, ?_⟩
  by_cases hr : s.qroot (g.qubits.getD 0 0) = s.qroot (g.qubits.getD 1 0)
  · -- apply
    have hap : ∃ t, applyGate s g W = some t := by
      unfold applyGate
      simp only [hr, ne_eq, not_true_eq_false, false_and, if_false, forbidden_self s h2]
      exact ⟨_, rfl⟩
    obtain ⟨t, ht⟩ := hap
    intro hnil
    have : t ∈ (actionList cfg).filterMap fun a => a s g W :=
      List.mem_filterMap.2 ⟨applyGate, by simp [actionList], ht⟩
    rw [hnil] at this; cases this
  · have hcut : ∃ t, cutGate s g W = some t := by
      unfold cutGate
      simp only [hx, hr, if_false]
      exact ⟨_, rfl⟩
    obtain ⟨t, ht⟩ := hcut
    intro hnil
    have : t ∈ (actionList cfg).filterMap fun a => a s g W :=
      List.mem_filterMap.2 ⟨cutGate, by simp [actionList, hlo], ht⟩
    rw [hnil] at this; cases this

/-- the greedy pass never dead-ends when gate cuts are permitted and every multi-qubit gate is a two-qubit gate with a gamma -/
theorem greedy_some_gate_cut (cfg : Settings) (gates : List Gate) (W n : Nat) (hlo : cfg.gateLO = true)
    (hn : (gates.map (·.idx)).Nodup)
    (hq : ∀ g ∈ gates, g.qubits.getD 0 0 < n ∧ g.qubits.getD 1 0 < n)
    (hgates : ∀ g ∈ gates, g.qubits.length = 2 ∧ ∃ x, g.gamma = some x) :
    ∀ (fuel : Nat) (s : St), Inv W n s → Inv2 s → gates.length ≤ s.level + fuel →
      ∃ t, greedy cfg gates W fuel s = .ok (some t) := by
  intro fuel
  induction fuel with
  | zero =>
    intro s _ _ hl
    have : isGoal gates s = true := by simp [isGoal]; omega
    exact ⟨s, by simp [greedy, this]⟩
  | succ fuel ih =>
    intro s hi h2 hl
    unfold greedy
    by_cases hgoal : isGoal gates s = true
    · exact ⟨s, by simp [hgoal]⟩
    · simp only [hgoal, if_false]
      have hlev : s.level < gates.length := by simpa [isGoal] using hgoal
      have hg : gates[s.level]? = some gates[s.level] := List.getElem?_eq_getElem hlev
      obtain ⟨hlen, x, hx⟩ := hgates _ (List.getElem_mem hlev)
      obtain ⟨ns, hns, hne⟩ := progress_gate_cut cfg gates W s _ x h2 hg hlen hx hlo
      rw [hns]
      simp only [bind, Except.bind]
      cases ha : argminCost ns with
      | none => exact absurd (argminCost_none ns ha) hne
      | some t =>
        simp only
        have htm := argminCost_mem ns t ha
        have hlvl := (step_accounting cfg gates W hn s t ns hns htm).2
        exact ih t (step_inv cfg gates W n hq s t ns hi hns htm) (step_inv2 cfg gates W n hq s t ns hi h2 hns htm) (by omega)

theorem nextStates_ok (cfg : Settings) (gates : List Gate) (W : Nat) (hgates : ∀ g ∈ gates, g.qubits.length = 2) (s : St) :
    ∃ ns, nextStates cfg gates W s = .ok ns := by
  unfold nextStates
  cases hg : gates[s.level]? with
  | none => exact ⟨_, rfl⟩
  | some g =>
    have := hgates g (List.mem_of_getElem? hg)
    simp only [this, ne_eq, not_true_eq_false, if_false]
    exact ⟨_, rfl⟩

theorem loop_ok {S : Type} (f : Fns S) (hnext : ∀ s, ∃ ns, f.next s = .ok ns) (mincost : Option Rat) (maxBJ : Option Nat) :
    ∀ (fuel : Nat) (q : Search S) (prev : Option Nat), ∃ r, Search.loop f mincost maxBJ fuel q prev = .ok r := by
  intro fuel
  induction fuel with
  | zero => intro q prev; exact ⟨_, rfl⟩
  | succ fuel ih =>
    intro q prev
    unfold Search.loop
    split
    · exact ⟨_, rfl⟩
    · rename_i k s rest _
      split
      · exact ⟨_, rfl⟩
      · simp only
        split
        · exact ⟨_, rfl⟩
        · split
          · exact ⟨_, rfl⟩
          · obtain ⟨ns, hns⟩ := hnext s
            rw [hns]
            simp only [bind, Except.bind]
            exact ih _ _

theorem pass_ok {S : Type} (f : Fns S) (hnext : ∀ s, ∃ ns, f.next s = .ok ns) (mincost : Option Rat) (maxBJ : Option Nat)
    (fuel : Nat) (q : Search S) : ∃ r, Search.pass f mincost maxBJ fuel q = .ok r := by
  unfold Search.pass
  obtain ⟨⟨q1, r1⟩, h⟩ := loop_ok f hnext mincost maxBJ fuel q none
  rw [h]
  simp only [bind, Except.bind]
  cases r1 <;> exact ⟨_, rfl⟩

theorem passes_ok (f : Fns St) (hnext : ∀ s, ∃ ns, f.next s = .ok ns) (cfg : Settings) (g : St) (fuel : Nat) :
    ∀ (n : Nat) (q : Search St) (returned : Bool) (out : List (Rat × St)), (returned = true → out ≠ []) →
      ∃ q' out', passes f cfg (some g) fuel n q returned out = .ok (q', out') ∧ (out ≠ [] → out' ≠ []) ∧ (1 ≤ n → out' ≠ []) := by
  intro n
  induction n with
  | zero => intro q returned out _; exact ⟨q, out, rfl, fun h => h, fun h => by omega⟩
  | succ n ih =>
    intro q returned out hret
    simp only [passes]
    obtain ⟨⟨q1, r1⟩, hp⟩ := pass_ok f hnext (some cfg.maxGamma) cfg.maxBackjumps fuel q
    rw [hp]
    simp only [bind, Except.bind]
    cases r1 with
    | some sc =>
      obtain ⟨s, c⟩ := sc
      simp only
      obtain ⟨q', out', h1, h2, _⟩ := ih q1 true (out ++ [(c, s)]) (fun _ => by simp)
      exact ⟨q', out', h1, fun _ => h2 (by simp), fun _ => h2 (by simp)⟩
    | none =>
      simp only
      cases returned with
      | true =>
        simp only [Bool.not_true, Bool.false_eq_true, if_false]
        exact ⟨q1, out, rfl, fun h => h, fun _ => hret rfl⟩
      | false =>
        simp only [Bool.not_false, if_true]
        obtain ⟨q', out', h1, h2, _⟩ := ih q1 true (out ++ [(g.gammaUB, g)]) (fun _ => by simp)
        exact ⟨q', out', h1, fun _ => h2 (by simp), fun _ => h2 (by simp)⟩

theorem firstMin_some (out : List (Rat × St)) (h : out ≠ []) : ∃ b, firstMin out = some b := by
  cases out with
  | nil => exact absurd rfl h
  | cons x rest =>
    simp only [firstMin]
    cases firstMin rest with
    | none => exact ⟨_, rfl⟩
    | some y => simp only; split <;> exact ⟨_, rfl⟩

/-- **T07.5 (gate cuts permitted)**: if every multi-qubit gate of the circuit is a two-qubit gate with a gamma and gate cuts
are permitted, the optimiser never fails, for any width limit ≥ 1, any limits, seed stream and fuel ≥ 1 — indeed a placement
always exists then (cut every gate whose qubits are still apart). -/
theorem optimize_never_fails_gate_cut (cfg : Settings) (gates : List Gate) (numQubits W : Nat) (rnds : List Rat) (fuel : Nat)
    (hW : 1 ≤ W) (hfuel : 1 ≤ fuel) (hlo : cfg.gateLO = true) (hn : (gates.map (·.idx)).Nodup)
    (hq : ∀ g ∈ gates, g.qubits.getD 0 0 < numQubits ∧ g.qubits.getD 1 0 < numQubits)
    (hgates : ∀ g ∈ gates, g.qubits.length = 2 ∧ ∃ x, g.gamma = some x) :
    ∃ r, optimize cfg gates numQubits W rnds fuel = .ok r := by
  unfold optimize
  simp only [bind, Except.bind]
  obtain ⟨g0, hg0⟩ := greedy_some_gate_cut cfg gates W numQubits hlo hn hq hgates (gates.length + 1)
    (St.init numQubits (gates.map (·.qubits.length)).sum) (init_inv W numQubits _ hW) (init_inv2 _ _) (by simp [St.init])
  rw [hg0]
  simp only
  have hnext : ∀ s, ∃ ns, (searchFns cfg gates W).next s = .ok ns := fun s => nextStates_ok cfg gates W (fun g hg => (hgates g hg).1) s
  obtain ⟨q', out', h1, _, h3⟩ := passes_ok (searchFns cfg gates W) hnext cfg g0 fuel fuel
    (startSearch (searchFns cfg gates W) (St.init numQubits (wireBudget cfg (gates.map (·.qubits.length)).sum (some g0))) (some g0) rnds)
    false [] (fun h => by cases h)
  rw [h1]
  simp only
  obtain ⟨b, hb⟩ := firstMin_some out' (h3 hfuel)
  rw [hb]
  exact ⟨_, rfl⟩


/-- every action keeps the wire budget and allocates at most two wires -/
theorem step_budget (cfg : Settings) (gates : List Gate) (W : Nat) (s t : St) (ns : List St)
    (h : nextStates cfg gates W s = .ok ns) (ht : t ∈ ns) :
    t.maxWires = s.maxWires ∧ t.numWires ≤ s.numWires + 2 ∧ t.level = s.level + 1 := by
  unfold nextStates at h
  cases hg : gates[s.level]? with
  | none => rw [hg] at h; injection h with h; subst h; cases ht
  | some g =>
    rw [hg] at h
    simp only at h
    split at h
    · cases h
    · injection h with h; subst h
      simp only [List.mem_filterMap] at ht
      obtain ⟨a, ha, hat⟩ := ht
      simp only [actionList, List.mem_append, List.mem_cons, List.not_mem_nil, or_false] at ha
      rcases ha with (rfl | ha) | ha
      · unfold applyGate at hat
        simp only at hat
        split at hat
        · cases hat
        · split at hat
          · cases hat
          · injection hat with hat; subst hat
            split <;> simp [St.merge]
      · split at ha
        · simp only [List.mem_cons, List.not_mem_nil, or_false] at ha; subst ha
          unfold cutGate at hat
          split at hat
          · cases hat
          · simp only at hat
            split at hat
            · cases hat
            · injection hat with hat; subst hat; simp
        · cases ha
      · split at ha
        · simp only [List.mem_cons, List.not_mem_nil, or_false] at ha
          rcases ha with rfl | rfl | rfl
          · unfold cutLeft at hat
            split at hat
            · cases hat
            · simp only at hat
              split at hat
              · cases hat
              · split at hat
                · cases hat
                · injection hat with hat; subst hat; simp [St.merge, St.newWire]
          · unfold cutRight at hat
            split at hat
            · cases hat
            · simp only at hat
              split at hat
              · cases hat
              · split at hat
                · cases hat
                · injection hat with hat; subst hat; simp [St.merge, St.newWire]
          · unfold cutBoth at hat
            split at hat
            · cases hat
            · split at hat
              · cases hat
              · simp only at hat
                injection hat with hat; subst hat; simp [St.merge, St.newWire]
        · cases ha

/-- with wire cuts permitted and a width limit of at least two, cutting both input wires is always possible while the
wire budget lasts -/
theorem progress_wire_cut (cfg : Settings) (gates : List Gate) (W : Nat) (s : St) (g : Gate)
    (hg : gates[s.level]? = some g) (hlen : g.qubits.length = 2) (hlo : cfg.wireLO = true) (hW : 2 ≤ W)
    (hb : s.numWires + 2 ≤ s.maxWires) : ∃ ns, nextStates cfg gates W s = .ok ns ∧ ns ≠ [] := by
  unfold nextStates
  rw [hg]
  simp only [hlen, ne_eq, not_true_eq_false, if_false]
  refine ⟨_, rfl, ?_⟩
  have hcut : ∃ t, cutBoth s g W = some t := by
    unfold cutBoth
    have h1 : s.canAddWires 2 = true := by simpa [St.canAddWires] using hb
    have h2 : ¬ W < 2 := by omega
    simp only [h1, Bool.not_true, Bool.false_eq_true, if_false, h2]
    exact ⟨_, rfl⟩
  obtain ⟨t, ht⟩ := hcut
  intro hnil
  have : t ∈ (actionList cfg).filterMap fun a => a s g W :=
    List.mem_filterMap.2 ⟨cutBoth, by simp [actionList, hlo], ht⟩
  rw [hnil] at this; cases this

theorem greedy_some_wire_cut (cfg : Settings) (gates : List Gate) (W n : Nat) (hlo : cfg.wireLO = true) (hW : 2 ≤ W)
    (hgates : ∀ g ∈ gates, g.qubits.length = 2) :
    ∀ (fuel : Nat) (s : St), s.maxWires = n + 2 * gates.length → s.numWires ≤ n + 2 * s.level → gates.length ≤ s.level + fuel →
      ∃ t, greedy cfg gates W fuel s = .ok (some t) := by
  intro fuel
  induction fuel with
  | zero =>
    intro s _ _ hl
    have : isGoal gates s = true := by simp [isGoal]; omega
    exact ⟨s, by simp [greedy, this]⟩
  | succ fuel ih =>
    intro s hm hnw hl
    unfold greedy
    by_cases hgoal : isGoal gates s = true
    · exact ⟨s, by simp [hgoal]⟩
    · simp only [hgoal]
      have hlev : s.level < gates.length := by simpa [isGoal] using hgoal
      have hg : gates[s.level]? = some gates[s.level] := List.getElem?_eq_getElem hlev
      have hlen := hgates _ (List.getElem_mem hlev)
      obtain ⟨ns, hns, hne⟩ := progress_wire_cut cfg gates W s _ hg hlen hlo hW (by omega)
      rw [hns]
      simp only [bind, Except.bind]
      cases ha : argminCost ns with
      | none => exact absurd (argminCost_none ns ha) hne
      | some t =>
        simp only
        have htm := argminCost_mem ns t ha
        obtain ⟨b1, b2, b3⟩ := step_budget cfg gates W s t ns hns htm
        exact ih t (by rw [b1, hm]) (by omega) (by omega)

/-- **T07.5 (wire cuts permitted, width limit ≥ 2)**: the optimiser never fails either — cutting both input wires of
every gate is always a placement -/
theorem optimize_never_fails_wire_cut (cfg : Settings) (gates : List Gate) (numQubits W : Nat) (rnds : List Rat) (fuel : Nat)
    (hW : 2 ≤ W) (hfuel : 1 ≤ fuel) (hlo : cfg.wireLO = true) (hgates : ∀ g ∈ gates, g.qubits.length = 2) :
    ∃ r, optimize cfg gates numQubits W rnds fuel = .ok r := by
  unfold optimize
  simp only [bind, Except.bind]
  have hsum : (gates.map (·.qubits.length)).sum = 2 * gates.length := by
    clear hfuel hlo hW
    induction gates with
    | nil => rfl
    | cons g rest ih =>
      simp only [List.map_cons, List.sum_cons, List.length_cons]
      rw [ih (fun g' hg' => hgates g' (List.mem_cons_of_mem _ hg')), hgates g (by simp)]; omega
  obtain ⟨g0, hg0⟩ := greedy_some_wire_cut cfg gates W numQubits hlo hW hgates (gates.length + 1)
    (St.init numQubits (gates.map (·.qubits.length)).sum) (by simp [St.init, hsum]) (by simp [St.init]) (by simp [St.init])
  rw [hg0]
  simp only
  have hnext : ∀ s, ∃ ns, (searchFns cfg gates W).next s = .ok ns := fun s => nextStates_ok cfg gates W hgates s
  obtain ⟨q', out', h1, _, h3⟩ := passes_ok (searchFns cfg gates W) hnext cfg g0 fuel fuel
    (startSearch (searchFns cfg gates W) (St.init numQubits (wireBudget cfg (gates.map (·.qubits.length)).sum (some g0))) (some g0) rnds)
    false [] (fun h => by cases h)
  rw [h1]
  simp only
  obtain ⟨b, hb⟩ := firstMin_some out' (h3 hfuel)
  rw [hb]
  exact ⟨_, rfl⟩

/-- conversely the only error the optimiser itself can produce (all gates two-qubit) is "no state found", and only when
the greedy pass dead-ended -/
theorem optimize_error_only_if_greedy_none (cfg : Settings) (gates : List Gate) (numQubits W : Nat) (rnds : List Rat) (fuel : Nat)
    (hfuel : 1 ≤ fuel) (hgates : ∀ g ∈ gates, g.qubits.length = 2) (e : Err)
    (h : optimize cfg gates numQubits W rnds fuel = .error e) :
    greedy cfg gates W (gates.length + 1) (St.init numQubits (gates.map (·.qubits.length)).sum) = .ok none := by
  unfold optimize at h
  simp only [bind, Except.bind] at h
  cases hg : greedy cfg gates W (gates.length + 1) (St.init numQubits (gates.map (·.qubits.length)).sum) with
  | error e' =>
    -- greedy cannot raise: nextStates never does
    exfalso
    have : ∀ (fuel : Nat) (s : St), ∃ r, greedy cfg gates W fuel s = .ok r := by
      intro fuel
      induction fuel with
      | zero => intro s; exact ⟨_, rfl⟩
      | succ fuel ih =>
        intro s
        unfold greedy
        split
        · exact ⟨_, rfl⟩
        · obtain ⟨ns, hns⟩ := nextStates_ok cfg gates W hgates s
          rw [hns]; simp only [bind, Except.bind]
          cases argminCost ns with
          | none => exact ⟨_, rfl⟩
          | some t => exact ih t
    obtain ⟨r, hr⟩ := this (gates.length + 1) (St.init numQubits (gates.map (·.qubits.length)).sum)
    rw [hr] at hg; cases hg
  | ok g0 =>
    cases g0 with
    | none => rfl
    | some g1 =>
      exfalso
      rw [hg] at h
      simp only at h
      have hnext : ∀ s, ∃ ns, (searchFns cfg gates W).next s = .ok ns := fun s => nextStates_ok cfg gates W hgates s
      obtain ⟨q', out', h1, _, h3⟩ := passes_ok (searchFns cfg gates W) hnext cfg g1 fuel fuel
        (startSearch (searchFns cfg gates W) (St.init numQubits (wireBudget cfg (gates.map (·.qubits.length)).sum (some g1))) (some g1) rnds)
        false [] (fun h => by cases h)
      rw [h1] at h
      simp only at h
      obtain ⟨b, hb⟩ := firstMin_some out' (h3 hfuel)
      rw [hb] at h
      cases h


theorem path_cases (cfg : Settings) (gates : List Gate) (W : Nat) (s g : St) (h : Path cfg gates W s g) :
    g = s ∨ ∃ ns c, nextStates cfg gates W s = .ok ns ∧ c ∈ ns ∧ Path cfg gates W c g := by
  induction h with
  | refl => exact Or.inl rfl
  | step t u ns _ hnext hu ih =>
    rcases ih with rfl | ⟨ns', c, h1, h2, h3⟩
    · exact Or.inr ⟨ns, u, hnext, hu, Path.refl u⟩
    · exact Or.inr ⟨ns', c, h1, h2, Path.step c t u ns h3 hnext hu⟩

/-- **T07.5 (no cuts permitted)**: the search tree is a single path; if the greedy pass dead-ends, no goal state exists at all
(the uncut circuit does not fit the width limit), so refusing is the only correct answer -/
theorem greedy_none_no_cuts (cfg : Settings) (gates : List Gate) (W : Nat) (hg : cfg.gateLO = false) (hw : cfg.wireLO = false) :
    ∀ (fuel : Nat) (s : St), gates.length ≤ s.level + fuel → greedy cfg gates W fuel s = .ok none →
      ∀ t, Path cfg gates W s t → isGoal gates t = false := by
  intro fuel
  induction fuel with
  | zero =>
    intro s hl h
    have : isGoal gates s = true := by simp [isGoal]; omega
    simp [greedy, this] at h
  | succ fuel ih =>
    intro s hl h t hp
    unfold greedy at h
    by_cases hgoal : isGoal gates s = true
    · simp [hgoal] at h
    · simp only [hgoal] at h
      cases hns : nextStates cfg gates W s with
      | error e => rw [hns] at h; simp [bind, Except.bind] at h
      | ok ns =>
        rw [hns] at h
        simp only [bind, Except.bind] at h
        -- at most one successor: only `apply` is available
        have hone : ns.length ≤ 1 := by
          unfold nextStates at hns
          cases hgt : gates[s.level]? with
          | none => rw [hgt] at hns; injection hns with hns; subst hns; simp
          | some g =>
            rw [hgt] at hns
            simp only at hns
            split at hns
            · cases hns
            · injection hns with hns; subst hns
              simp only [actionList, hg, hw, Bool.false_eq_true, if_false, List.append_nil]
              exact le_trans (List.length_filterMap_le _ _) (by simp)
        rcases path_cases cfg gates W s t hp with rfl | ⟨ns', c, h1, h2, h3⟩
        · simpa using hgoal
        · rw [hns] at h1; injection h1 with h1; subst h1
          cases ha : argminCost ns with
          | none => rw [argminCost_none ns ha] at h2; cases h2
          | some u =>
            rw [ha] at h
            simp only at h
            have hu := argminCost_mem ns u ha
            have hcu : c = u := by
              match ns, hone, h2, hu with
              | [x], _, h2, hu => simp at h2 hu; rw [h2, hu]
            subst hcu
            have hlvl := (step_budget cfg gates W s c ns hns hu).2.2
            exact ih c (by omega) h t h3


end CKT.C07
