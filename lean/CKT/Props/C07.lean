import CKT.Model.CutFinding
import Mathlib.Data.List.Basic
import Mathlib.Algebra.BigOperators.Group.List.Basic
import Mathlib.Algebra.Order.Field.Rat
import Mathlib.Tactic.Ring
import Mathlib.Tactic.Linarith
/-!
# C07 — automatic cut finding returns a feasible, faithfully accounted cut circuit

Proved here, for **every** reachable search state (any circuit, width limit, settings, random stream):
* `step_accounting` / `path_accounting`: the state's `gammaUB` is the product of the costs of the cut actions it
  records (`γ` of the gate for a gate cut, 4 for one wire, 16 for both wires), and `apply` records nothing;
* `step_inv` / `path_inv`: the bookkeeping invariants — every root's recorded width is at most the width limit,
  untouched wires have width 1, roots never exceed their wires, every qubit sits on an allocated wire;
* `export_*`: the export adds only markers (the non-marker subsequence is the input, with exactly the chosen gates
  wrapped), the metadata lists exactly the positions and kinds of the markers, and the reported overhead is the
  square of that product.
Not proved (validated on every run by the independent segment analysis and the brute force of the harness): that a
root's recorded width equals the number of wires of its class, and that the classes are the connected components of
the cut circuit.
-/
namespace CKT.C07
open CKT CKT.CF

/-! ### cost accounting -/

def gammaOfIdx (gates : List Gate) (i : Nat) : Rat :=
  match gates.find? (fun g => g.idx = i) with
  | some g => g.gamma.getD 1
  | none => 1

def actCost (gates : List Gate) (a : Act) : Rat :=
  match a.kind with
  | .gateCut => gammaOfIdx gates a.gate
  | .left => 4
  | .right => 4
  | .both => 16

/-- what one action does to the accounting data -/
def Accounts (gates : List Gate) (s t : St) : Prop :=
  (t.actions = s.actions ∧ t.gammaUB = s.gammaUB) ∨
  (∃ a, t.actions = s.actions ++ [a] ∧ t.gammaUB = s.gammaUB * actCost gates a)

theorem merge_actions (s : St) (a b : Nat) : (s.merge a b).actions = s.actions ∧ (s.merge a b).gammaUB = s.gammaUB
    ∧ (s.merge a b).noMerge = s.noMerge ∧ (s.merge a b).numWires = s.numWires ∧ (s.merge a b).wiremap = s.wiremap
    ∧ (s.merge a b).maxWires = s.maxWires := by
  simp [St.merge]

theorem newWire_fields (s : St) (q : Nat) : (s.newWire q).1.actions = s.actions ∧ (s.newWire q).1.gammaUB = s.gammaUB
    ∧ (s.newWire q).1.root = s.root ∧ (s.newWire q).1.width = s.width ∧ (s.newWire q).2 = s.numWires
    ∧ (s.newWire q).1.numWires = s.numWires + 1 ∧ (s.newWire q).1.noMerge = s.noMerge := by
  simp [St.newWire]

theorem find_idx (gates : List Gate) (g : Gate) (hg : g ∈ gates) (hn : (gates.map (·.idx)).Nodup) :
    gates.find? (fun x => x.idx = g.idx) = some g := by
  induction gates with
  | nil => cases hg
  | cons x xs ih =>
    simp only [List.map_cons, List.nodup_cons] at hn
    simp only [List.find?_cons]
    by_cases hx : x.idx = g.idx
    · simp only [hx, decide_true]
      rcases List.mem_cons.1 hg with rfl | h
      · rfl
      · exact absurd (List.mem_map.2 ⟨g, h, hx.symm⟩) hn.1
    · simp only [hx, decide_false]
      rcases List.mem_cons.1 hg with rfl | h
      · exact absurd rfl hx
      · exact ih h hn.2

theorem step_accounting (cfg : Settings) (gates : List Gate) (W : Nat) (hn : (gates.map (·.idx)).Nodup)
    (s t : St) (ns : List St) (h : nextStates cfg gates W s = .ok ns) (ht : t ∈ ns) : Accounts gates s t ∧ t.level = s.level + 1 := by
  unfold nextStates at h
  cases hg : gates[s.level]? with
  | none => rw [hg] at h; injection h with h; subst h; cases ht
  | some g =>
    rw [hg] at h
    simp only at h
    split at h
    · cases h
    · injection h with h; subst h
      have hmem : g ∈ gates := List.mem_of_getElem? hg
      simp only [List.mem_filterMap] at ht
      obtain ⟨a, ha, hat⟩ := ht
      simp only [actionList, List.mem_append, List.mem_cons, List.not_mem_nil, or_false] at ha
      rcases ha with (rfl | ha) | ha
      · -- apply
        unfold applyGate at hat
        simp only at hat
        split at hat
        · cases hat
        · split at hat
          · cases hat
          · injection hat with hat; subst hat
            refine ⟨Or.inl ?_, rfl⟩
            split <;> simp [merge_actions]
      · -- gate cut
        split at ha
        · simp only [List.mem_cons, List.not_mem_nil, or_false] at ha; subst ha
          unfold cutGate at hat
          split at hat
          · cases hat
          · rename_i gam hgam
            simp only at hat
            split at hat
            · cases hat
            · injection hat with hat; subst hat
              refine ⟨Or.inr ⟨_, rfl, ?_⟩, rfl⟩
              simp [actCost, gammaOfIdx, find_idx gates g hmem hn, hgam]
        · cases ha
      · split at ha
        · simp only [List.mem_cons, List.not_mem_nil, or_false] at ha
          rcases ha with rfl | rfl | rfl
          · unfold cutLeft at hat
            split at hat
            · cases hat
            · simp only at hat
              split at hat
              · cases hat
              · split at hat
                · cases hat
                · injection hat with hat; subst hat
                  refine ⟨Or.inr ⟨⟨.left, g.idx, [(1, s.wire (g.qubits.getD 0 0), (s.newWire (g.qubits.getD 0 0)).2)]⟩, ?_, ?_⟩, rfl⟩ <;> simp [merge_actions, newWire_fields, actCost]
          · unfold cutRight at hat
            split at hat
            · cases hat
            · simp only at hat
              split at hat
              · cases hat
              · split at hat
                · cases hat
                · injection hat with hat; subst hat
                  refine ⟨Or.inr ⟨⟨.right, g.idx, [(2, s.wire (g.qubits.getD 1 0), (s.newWire (g.qubits.getD 1 0)).2)]⟩, ?_, ?_⟩, rfl⟩ <;> simp [merge_actions, newWire_fields, actCost]
          · unfold cutBoth at hat
            split at hat
            · cases hat
            · split at hat
              · cases hat
              · simp only at hat
                injection hat with hat; subst hat
                refine ⟨Or.inr ⟨⟨.both, g.idx, [(1, s.wire (g.qubits.getD 0 0), (s.newWire (g.qubits.getD 0 0)).2), (2, s.wire (g.qubits.getD 1 0), ((s.newWire (g.qubits.getD 0 0)).1.newWire (g.qubits.getD 1 0)).2)]⟩, ?_, ?_⟩, rfl⟩ <;> simp [merge_actions, newWire_fields, actCost]
        · cases ha

/-- reachability in the search tree -/
inductive Path (cfg : Settings) (gates : List Gate) (W : Nat) : St → St → Prop
  | refl (s : St) : Path cfg gates W s s
  | step (s t u : St) (ns : List St) : Path cfg gates W s t → nextStates cfg gates W t = .ok ns → u ∈ ns → Path cfg gates W s u

/-- T07.4: along every path the recorded gamma is the product of the costs of the recorded cut actions -/
theorem path_accounting (cfg : Settings) (gates : List Gate) (W : Nat) (hn : (gates.map (·.idx)).Nodup) (s t : St)
    (h : Path cfg gates W s t) :
    ∃ extra, t.actions = s.actions ++ extra ∧ t.gammaUB = s.gammaUB * (extra.map (actCost gates)).prod
      ∧ t.level = s.level + (t.level - s.level) ∧ s.level ≤ t.level := by
  induction h with
  | refl => exact ⟨[], by simp, by simp, by omega, le_refl _⟩
  | step t u ns _ hnext hu ih =>
    obtain ⟨extra, h1, h2, _, h4⟩ := ih
    obtain ⟨hacc, hl⟩ := step_accounting cfg gates W hn t u ns hnext hu
    rcases hacc with ⟨ha, hg⟩ | ⟨a, ha, hg⟩
    · exact ⟨extra, by rw [ha, h1], by rw [hg, h2], by omega, by omega⟩
    · refine ⟨extra ++ [a], by rw [ha, h1, List.append_assoc], ?_, by omega, by omega⟩
      rw [hg, h2, List.map_append, List.prod_append]; simp [mul_assoc]

theorem init_accounting (gates : List Gate) (n k : Nat) : (St.init n k).gammaUB = ((St.init n k).actions.map (actCost gates)).prod := by
  simp [St.init]

/-- from the start state: `gammaUB = Π cost(action)` -/
theorem reachable_gamma (cfg : Settings) (gates : List Gate) (W n k : Nat) (hn : (gates.map (·.idx)).Nodup) (t : St)
    (h : Path cfg gates W (St.init n k) t) : t.gammaUB = (t.actions.map (actCost gates)).prod := by
  obtain ⟨extra, h1, h2, _, _⟩ := path_accounting cfg gates W hn _ t h
  rw [h2, h1]; simp [St.init]

/-- the instruction ids handed to the search are pairwise distinct -/
theorem multiqubitGates_idx_nodup (instrs : List CInstr) (nq : Nat) : ((multiqubitGates instrs nq).map (·.idx)).Nodup := by
  unfold multiqubitGates
  simp only [List.map_map]
  have : ∀ (l : List (CInstr × Nat)), (l.map (·.2)).Nodup →
      ∀ p, ((l.filter p).map ((fun (g : Gate) => g.idx) ∘ fun (ik : CInstr × Nat) =>
        ({ idx := ik.2, qubits := ik.1.qubits.map (idOf (assignIds instrs nq)), gamma := ik.1.gamma } : Gate))).Nodup := by
    intro l hl p
    have e : ((fun (g : Gate) => g.idx) ∘ fun (ik : CInstr × Nat) =>
        ({ idx := ik.2, qubits := ik.1.qubits.map (idOf (assignIds instrs nq)), gamma := ik.1.gamma } : Gate)) = (·.2) := by
      funext ik; rfl
    rw [e]
    exact (hl.sublist ((List.filter_sublist).map _))
  apply this
  rw [List.zipIdx_map_snd]
  exact List.nodup_range' ..

/-- the reported overhead is the square of gamma -/
theorem export_overhead (instrs : List CInstr) (best : St) (b : Bool) :
    (exportCuts instrs best b).overhead = best.gammaUB * best.gammaUB ∧ (exportCuts instrs best b).minReached = b := by
  simp [exportCuts]

/-! ### bookkeeping invariants -/

theorem getD_set (l : List Nat) (i j v d : Nat) :
    (l.set i v).getD j d = if i = j ∧ i < l.length then v else l.getD j d := by
  simp only [List.getD_eq_getElem?_getD, List.getElem?_set]
  by_cases h : i = j
  · subst h
    by_cases hl : i < l.length
    · simp [hl]
    · simp [hl, List.getElem?_eq_none (not_lt.mp hl)]
  · simp [h]

theorem rootOf_merge (s : St) (a b w : Nat) :
    (s.merge a b).rootOf w = if s.rootOf w = max a b ∧ w < s.root.length then min a b else s.rootOf w := by
  simp only [St.rootOf, St.merge, List.getD_eq_getElem?_getD, List.getElem?_map]
  by_cases hw : w < s.root.length
  · simp [hw, List.getElem?_eq_getElem hw]
  · simp [hw, List.getElem?_eq_none (not_lt.mp hw)]

theorem widthOf_merge (s : St) (a b r : Nat) :
    (s.merge a b).widthOf r = if min a b = r ∧ min a b < s.width.length then s.widthOf (min a b) + s.widthOf (max a b) else s.widthOf r := by
  simp only [St.widthOf, St.merge, getD_set]

structure Inv (W n : Nat) (s : St) : Prop where
  width_le : ∀ r, s.widthOf r ≤ W
  fresh : ∀ w, s.numWires ≤ w → s.widthOf w ≤ 1
  root_le : ∀ w, s.rootOf w ≤ w
  wire_lt : ∀ q, q < n → s.wire q < s.numWires
  wm_len : s.wiremap.length = n

theorem init_inv (W n k : Nat) (hW : 1 ≤ W) : Inv W n (St.init n k) := by
  refine ⟨?_, ?_, ?_, ?_, by simp [St.init]⟩
  · intro r
    simp only [St.widthOf, St.init, List.getD_eq_getElem?_getD, List.getElem?_replicate]
    split <;> simp <;> omega
  · intro w _
    simp only [St.widthOf, St.init, List.getD_eq_getElem?_getD, List.getElem?_replicate]
    split <;> simp
  · intro w
    simp only [St.rootOf, St.init, List.getD_eq_getElem?_getD]
    by_cases hw : w < n + k
    · simp [List.getElem?_range hw]
    · have : (List.range (n + k))[w]? = none := List.getElem?_eq_none (by simp; omega)
      simp [this]
  · intro q hq
    simp [St.wire, St.init, List.getD_eq_getElem?_getD, List.getElem?_range, hq]

theorem qroot_lt {W n : Nat} {s : St} (hi : Inv W n s) (q : Nat) (hq : q < n) : s.qroot q < s.numWires :=
  lt_of_le_of_lt (hi.root_le _) (hi.wire_lt q hq)

theorem merge_inv {W n : Nat} {s : St} (hi : Inv W n s) (a b : Nat) (hmin : min a b < s.numWires)
    (hsum : s.widthOf (min a b) + s.widthOf (max a b) ≤ W) : Inv W n (s.merge a b) := by
  refine ⟨?_, ?_, ?_, ?_, by simp [merge_actions, hi.wm_len]⟩
  · intro r; rw [widthOf_merge]; split
    · exact hsum
    · exact hi.width_le r
  · intro w hw
    rw [(merge_actions s a b).2.2.2.1] at hw
    rw [widthOf_merge]; split
    · rename_i h; omega
    · exact hi.fresh w hw
  · intro w; rw [rootOf_merge]; split
    · rename_i h
      have := hi.root_le w
      have : min a b ≤ max a b := le_trans (min_le_left _ _) (le_max_left _ _)
      omega
    · exact hi.root_le w
  · intro q hq
    have := hi.wire_lt q hq
    simpa [St.wire, merge_actions] using this

theorem newWire_inv {W n : Nat} {s : St} (hi : Inv W n s) (q : Nat) :
    Inv W n (s.newWire q).1 ∧ (s.newWire q).1.widthOf s.numWires ≤ 1 := by
  refine ⟨⟨?_, ?_, ?_, ?_, by simp [St.newWire, hi.wm_len]⟩, ?_⟩
  · intro r; simpa [St.widthOf, St.newWire] using hi.width_le r
  · intro w hw
    have : s.numWires ≤ w := by simp [St.newWire] at hw; omega
    simpa [St.widthOf, St.newWire] using hi.fresh w this
  · intro w; simpa [St.rootOf, St.newWire] using hi.root_le w
  · intro q' hq'
    simp only [St.wire, St.newWire, getD_set]
    split
    · omega
    · have := hi.wire_lt q' hq'
      simp only [St.wire] at this; omega
  · simpa [St.widthOf, St.newWire] using hi.fresh s.numWires (le_refl _)

/-- every action keeps the invariants: in particular no root's recorded width ever exceeds the limit -/
theorem step_inv (cfg : Settings) (gates : List Gate) (W n : Nat)
    (hq : ∀ g ∈ gates, g.qubits.getD 0 0 < n ∧ g.qubits.getD 1 0 < n)
    (s t : St) (ns : List St) (hi : Inv W n s) (h : nextStates cfg gates W s = .ok ns) (ht : t ∈ ns) : Inv W n t := by
  unfold nextStates at h
  cases hg : gates[s.level]? with
  | none => rw [hg] at h; injection h with h; subst h; cases ht
  | some g =>
    rw [hg] at h
    simp only at h
    split at h
    · cases h
    · injection h with h; subst h
      have hmem : g ∈ gates := List.mem_of_getElem? hg
      obtain ⟨hq1, hq2⟩ := hq g hmem
      have hr1 := qroot_lt hi _ hq1
      have hr2 := qroot_lt hi _ hq2
      simp only [List.mem_filterMap] at ht
      obtain ⟨a, ha, hat⟩ := ht
      simp only [actionList, List.mem_append, List.mem_cons, List.not_mem_nil, or_false] at ha
      rcases ha with (rfl | ha) | ha
      · unfold applyGate at hat
        simp only at hat
        split at hat
        · cases hat
        · rename_i hguard
          split at hat
          · cases hat
          · injection hat with hat; subst hat
            split
            · rename_i hne
              have hsum : s.widthOf (min (s.qroot (g.qubits.getD 0 0)) (s.qroot (g.qubits.getD 1 0)))
                  + s.widthOf (max (s.qroot (g.qubits.getD 0 0)) (s.qroot (g.qubits.getD 1 0))) ≤ W := by
                have : ¬ (s.widthOf (s.qroot (g.qubits.getD 0 0)) + s.widthOf (s.qroot (g.qubits.getD 1 0)) > W) := fun hh => hguard ⟨hne, hh⟩
                rcases le_total (s.qroot (g.qubits.getD 0 0)) (s.qroot (g.qubits.getD 1 0)) with hle | hle
                · rw [min_eq_left hle, max_eq_right hle]; omega
                · rw [min_eq_right hle, max_eq_left hle]; omega
              have hm := merge_inv hi _ _ (lt_of_le_of_lt (min_le_left _ _) hr1) hsum
              exact ⟨hm.width_le, hm.fresh, hm.root_le, hm.wire_lt, hm.wm_len⟩
            · exact ⟨hi.width_le, hi.fresh, hi.root_le, hi.wire_lt, hi.wm_len⟩
      · split at ha
        · simp only [List.mem_cons, List.not_mem_nil, or_false] at ha; subst ha
          unfold cutGate at hat
          split at hat
          · cases hat
          · simp only at hat
            split at hat
            · cases hat
            · injection hat with hat; subst hat
              exact ⟨hi.width_le, hi.fresh, hi.root_le, hi.wire_lt, hi.wm_len⟩
        · cases ha
      · split at ha
        · simp only [List.mem_cons, List.not_mem_nil, or_false] at ha
          rcases ha with rfl | rfl | rfl
          · unfold cutLeft at hat
            split at hat
            · cases hat
            · simp only at hat
              split at hat
              · cases hat
              · split at hat
                · cases hat
                · rename_i hw
                  injection hat with hat; subst hat
                  obtain ⟨hn1, hn2⟩ := newWire_inv hi (g.qubits.getD 0 0)
                  have hw' : s.widthOf (s.qroot (g.qubits.getD 1 0)) + 1 ≤ W := by simpa using hw
                  have hmin : min (s.newWire (g.qubits.getD 0 0)).2 (s.qroot (g.qubits.getD 1 0)) = s.qroot (g.qubits.getD 1 0) := by
                    simp only [newWire_fields]; exact min_eq_right (le_of_lt hr2)
                  have hmax : max (s.newWire (g.qubits.getD 0 0)).2 (s.qroot (g.qubits.getD 1 0)) = s.numWires := by
                    simp only [newWire_fields]; exact max_eq_left (le_of_lt hr2)
                  have hm := merge_inv hn1 (s.newWire (g.qubits.getD 0 0)).2 (s.qroot (g.qubits.getD 1 0))
                    (by rw [hmin]; simp only [newWire_fields]; omega)
                    (by rw [hmin, hmax]
                        have e : (s.newWire (g.qubits.getD 0 0)).1.widthOf (s.qroot (g.qubits.getD 1 0)) = s.widthOf (s.qroot (g.qubits.getD 1 0)) := by
                          simp [St.widthOf, St.newWire]
                        rw [e]; omega)
                  exact ⟨hm.width_le, hm.fresh, hm.root_le, hm.wire_lt, hm.wm_len⟩
          · unfold cutRight at hat
            split at hat
            · cases hat
            · simp only at hat
              split at hat
              · cases hat
              · split at hat
                · cases hat
                · rename_i hw
                  injection hat with hat; subst hat
                  obtain ⟨hn1, hn2⟩ := newWire_inv hi (g.qubits.getD 1 0)
                  have hw' : s.widthOf (s.qroot (g.qubits.getD 0 0)) + 1 ≤ W := by simpa using hw
                  have hmin : min (s.qroot (g.qubits.getD 0 0)) (s.newWire (g.qubits.getD 1 0)).2 = s.qroot (g.qubits.getD 0 0) := by
                    simp only [newWire_fields]; exact min_eq_left (le_of_lt hr1)
                  have hmax : max (s.qroot (g.qubits.getD 0 0)) (s.newWire (g.qubits.getD 1 0)).2 = s.numWires := by
                    simp only [newWire_fields]; exact max_eq_right (le_of_lt hr1)
                  have hm := merge_inv hn1 (s.qroot (g.qubits.getD 0 0)) (s.newWire (g.qubits.getD 1 0)).2
                    (by rw [hmin]; simp only [newWire_fields]; omega)
                    (by rw [hmin, hmax]
                        have e : (s.newWire (g.qubits.getD 1 0)).1.widthOf (s.qroot (g.qubits.getD 0 0)) = s.widthOf (s.qroot (g.qubits.getD 0 0)) := by
                          simp [St.widthOf, St.newWire]
                        rw [e]; omega)
                  exact ⟨hm.width_le, hm.fresh, hm.root_le, hm.wire_lt, hm.wm_len⟩
          · unfold cutBoth at hat
            split at hat
            · cases hat
            · split at hat
              · cases hat
              · rename_i hW2
                simp only at hat
                injection hat with hat; subst hat
                obtain ⟨hn1, hf1⟩ := newWire_inv hi (g.qubits.getD 0 0)
                obtain ⟨hn2, hf2⟩ := newWire_inv hn1 (g.qubits.getD 1 0)
                have e1 : (s.newWire (g.qubits.getD 0 0)).1.numWires = s.numWires + 1 := by simp [St.newWire]
                have hmin : min (s.newWire (g.qubits.getD 0 0)).2 ((s.newWire (g.qubits.getD 0 0)).1.newWire (g.qubits.getD 1 0)).2 = s.numWires := by
                  simp [St.newWire]
                have hmax : max (s.newWire (g.qubits.getD 0 0)).2 ((s.newWire (g.qubits.getD 0 0)).1.newWire (g.qubits.getD 1 0)).2 = s.numWires + 1 := by
                  simp [St.newWire]
                have hm := merge_inv hn2 (s.newWire (g.qubits.getD 0 0)).2 ((s.newWire (g.qubits.getD 0 0)).1.newWire (g.qubits.getD 1 0)).2
                  (by rw [hmin]; simp [St.newWire]; omega)
                  (by rw [hmin, hmax]
                      have a1 : ((s.newWire (g.qubits.getD 0 0)).1.newWire (g.qubits.getD 1 0)).1.widthOf s.numWires ≤ 1 := by
                        have := hf1; simpa [St.widthOf, St.newWire] using this
                      have a2 : ((s.newWire (g.qubits.getD 0 0)).1.newWire (g.qubits.getD 1 0)).1.widthOf (s.numWires + 1) ≤ 1 := by
                        have := hf2; rw [e1] at this; exact this
                      omega)
                exact ⟨hm.width_le, hm.fresh, hm.root_le, hm.wire_lt, hm.wm_len⟩
        · cases ha

/-- T07.1 (bookkeeping part): in every reachable state no root's recorded width exceeds the limit -/
theorem path_inv (cfg : Settings) (gates : List Gate) (W n : Nat)
    (hq : ∀ g ∈ gates, g.qubits.getD 0 0 < n ∧ g.qubits.getD 1 0 < n) (s t : St) (hi : Inv W n s)
    (h : Path cfg gates W s t) : Inv W n t := by
  induction h with
  | refl => exact hi
  | step t u ns _ hnext hu ih => exact step_inv cfg gates W n hq t u ns ih hnext hu

theorem reachable_width (cfg : Settings) (gates : List Gate) (W n k : Nat) (hW : 1 ≤ W)
    (hq : ∀ g ∈ gates, g.qubits.getD 0 0 < n ∧ g.qubits.getD 1 0 < n) (t : St)
    (h : Path cfg gates W (St.init n k) t) : ∀ r, t.widthOf r ≤ W :=
  (path_inv cfg gates W n hq _ t (init_inv W n k hW) h).width_le

/-- non-vacuity: a concrete reachable state with a wire cut -/
example : ∃ t, cutLeft (St.init 2 4) ⟨0, [0, 1], some 3⟩ 2 = some t ∧ t.gammaUB = 4 ∧ t.numWires = 3 := by
  refine ⟨_, rfl, ?_, ?_⟩ <;> decide +kernel

/-! ### the export adds only markers -/

def isMarker : OutItem → Bool
  | .marker _ => true
  | _ => false

theorem markersOf_all (instrs : List CInstr) (a : Act) : ∀ m ∈ markersOf instrs a, isMarker m = true := by
  intro m hm
  simp only [markersOf, List.mem_map] at hm
  obtain ⟨_, _, rfl⟩ := hm; rfl

theorem filter_insertAt (items ms : List OutItem) (pos : Nat) (hm : ∀ m ∈ ms, isMarker m = true) :
    (insertAt items pos ms).filter (fun it => !isMarker it) = items.filter (fun it => !isMarker it) := by
  unfold insertAt
  rw [List.filter_append, List.filter_append]
  have : ms.filter (fun it => !isMarker it) = [] := by
    rw [List.filter_eq_nil_iff]; intro m hm'; simp [hm m hm']
  rw [this, List.append_nil, ← List.filter_append, List.take_append_drop]

/-- T07.3 (first half): deleting the wire-cut markers from the output gives back the input instruction list, in order,
with exactly the gate-cut gates wrapped -/
theorem export_nonmarkers (instrs : List CInstr) (best : St) (b : Bool) :
    (exportCuts instrs best b).items.filter (fun it => !isMarker it)
      = (List.range instrs.length).map fun i =>
          if i ∈ (best.actions.filter (·.kind = .gateCut)).map (·.gate) then OutItem.cut i else OutItem.orig i := by
  unfold exportCuts
  simp only
  generalize (sortByGate (best.actions.filter (·.kind ≠ .gateCut))) = wires
  have base_ok : ∀ (base : List OutItem) (c : Nat),
      ((wires.foldl (fun (acc : List OutItem × Nat) a =>
        (insertAt acc.1 (a.gate + acc.2) (markersOf instrs a), acc.2 + (markersOf instrs a).length)) (base, c)).1).filter (fun it => !isMarker it)
        = base.filter (fun it => !isMarker it) := by
    induction wires with
    | nil => intro base c; rfl
    | cons a ws ih =>
      intro base c
      simp only [List.foldl_cons]
      rw [ih, filter_insertAt _ _ _ (markersOf_all instrs a)]
  rw [base_ok]
  rw [List.filter_eq_self]
  intro it hit
  simp only [List.mem_map] at hit
  obtain ⟨i, _, rfl⟩ := hit
  split <;> rfl

/-- T07.3 (metadata): `cuts` lists exactly the positions of the wrapped gates and of the markers, with their kinds -/
theorem export_cuts_spec (instrs : List CInstr) (best : St) (b : Bool) (kind : String) (pos : Nat) :
    (kind, pos) ∈ (exportCuts instrs best b).cuts ↔
      ∃ it, (exportCuts instrs best b).items[pos]? = some it ∧
        ((∃ i, it = .cut i ∧ kind = "Gate Cut") ∨ (∃ q, it = .marker q ∧ kind = "Wire Cut")) := by
  have hc : (exportCuts instrs best b).cuts = ((exportCuts instrs best b).items.zipIdx.filterMap fun (ik : OutItem × Nat) => match ik.1 with
      | .cut _ => some ("Gate Cut", ik.2)
      | .marker _ => some ("Wire Cut", ik.2)
      | .orig _ => none) := by
    unfold exportCuts; rfl
  rw [hc, List.mem_filterMap]
  constructor
  · rintro ⟨⟨it, k⟩, hmem, hm⟩
    have hk := List.mem_zipIdx hmem
    simp only at hm
    cases it with
    | orig i => simp at hm
    | cut i =>
      simp only [Option.some.injEq, Prod.mk.injEq] at hm
      obtain ⟨rfl, rfl⟩ := hm
      exact ⟨.cut i, by rw [List.getElem?_eq_getElem (by simpa using hk.2.1)]; exact congrArg some hk.2.2.symm, Or.inl ⟨i, rfl, rfl⟩⟩
    | marker q =>
      simp only [Option.some.injEq, Prod.mk.injEq] at hm
      obtain ⟨rfl, rfl⟩ := hm
      exact ⟨.marker q, by rw [List.getElem?_eq_getElem (by simpa using hk.2.1)]; exact congrArg some hk.2.2.symm, Or.inr ⟨q, rfl, rfl⟩⟩
  · rintro ⟨it, hit, h⟩
    have hmem : (it, pos) ∈ (exportCuts instrs best b).items.zipIdx := by
      rw [List.mem_zipIdx_iff_getElem?]; simpa using hit
    rcases h with ⟨i, rfl, rfl⟩ | ⟨q, rfl, rfl⟩
    · exact ⟨(.cut i, pos), hmem, rfl⟩
    · exact ⟨(.marker q, pos), hmem, rfl⟩

end CKT.C07
