import CKT.Model.Sampler
import Mathlib.Algebra.BigOperators.Group.List.Basic
import Mathlib.Algebra.Order.Field.Rat
import Mathlib.Data.Nat.Bitwise
import Mathlib.Tactic.Linarith
/-!
# C13 — the exact sampler returns the true outcome distribution of dynamic circuits

For any backend obeying the three laws of quantum mechanics used here (`Lawful`: unitaries preserve the squared norm,
the two projections of a qubit split it, norms are non-negative):
* `run_total`: after every instruction the probabilities of all branches add up to the initial norm (with the pruning
  tolerance 0; the implementation prunes below 1e-16) — hence the returned values sum to one;
* `key0_*`, `key1_*`: a measurement into bit `c` clears / sets exactly that bit of the outcome key, whatever it held
  before (written once or overwritten), and a reset leaves every key unchanged;
* `conditioned_refused`, `classical_arg_refused`: the two refusal cases.
Floating point, Qiskit's `Statevector.evolve/probabilities` and the 1e-16 tolerance are outside the model; the concrete
Clifford backend used in the correspondence run is validated against the implementation, not proved `Lawful`.
-/
namespace CKT.C13
open CKT CKT.Sampler

variable {V : Type}

structure Lawful (B : Backend V) : Prop where
  apply_norm : ∀ i v v', B.apply i v = some v' → B.norm2 v' = B.norm2 v
  proj_split : ∀ q v, B.norm2 (B.proj q false v) + B.norm2 (B.proj q true v) = B.norm2 v
  flip_norm : ∀ q v, B.norm2 (B.flip q v) = B.norm2 v
  nonneg : ∀ v, 0 ≤ B.norm2 v

def total (B : Backend V) (bs : List (Branch V)) : Rat := (bs.map fun b => B.norm2 b.2).sum

theorem split_total (B : Backend V) (hB : Lawful B) (q f : Nat) (reset : Bool) (bs : List (Branch V)) :
    total B (split B 0 q f reset bs) = total B bs := by
  induction bs with
  | nil => rfl
  | cons b rest ih =>
    simp only [split, List.flatMap_cons, total, List.map_append, List.sum_append, List.map_cons, List.sum_cons] at ih ⊢
    rw [ih]
    congr 1
    have h0 := hB.nonneg (B.proj q false b.2)
    have h1 := hB.nonneg (B.proj q true b.2)
    have hs := hB.proj_split q b.2
    have hf : B.norm2 (if reset then B.flip q (B.proj q true b.2) else B.proj q true b.2) = B.norm2 (B.proj q true b.2) := by
      cases reset <;> simp [hB.flip_norm]
    by_cases c0 : B.norm2 (B.proj q false b.2) ≤ 0 <;> by_cases c1 : B.norm2 (B.proj q true b.2) ≤ 0 <;>
      simp [c0, c1, hf] <;> linarith

theorem mapM_total (B : Backend V) (hB : Lawful B) (i : SInstr) :
    ∀ (bs out : List (Branch V)),
      (bs.mapM fun b => match B.apply i b.2 with
        | some v => (Except.ok (b.1, v) : R (Branch V))
        | none => .error (.other ("unsupported gate " ++ i.name))) = .ok out → total B out = total B bs := by
  intro bs
  induction bs with
  | nil => intro out h; simp [List.mapM_nil, pure, Except.pure] at h; subst h; rfl
  | cons b rest ih =>
    intro out h
    rw [List.mapM_cons] at h
    cases hv : B.apply i b.2 with
    | none => simp [hv, bind, Except.bind] at h
    | some v =>
      simp only [hv, bind, Except.bind] at h
      cases hr : (rest.mapM fun b => match B.apply i b.2 with
        | some v => (Except.ok (b.1, v) : R (Branch V))
        | none => .error (.other ("unsupported gate " ++ i.name))) with
      | error e => rw [hr] at h; cases h
      | ok out' =>
        rw [hr] at h
        simp only [pure, Except.pure] at h
        injection h with h; subst h
        simp only [total, List.map_cons, List.sum_cons]
        have := ih out' hr
        simp only [total] at this
        rw [this, hB.apply_norm i b.2 v hv]

theorem step_total (B : Backend V) (hB : Lawful B) (bs out : List (Branch V)) (i : SInstr)
    (h : step B 0 bs i = .ok out) : total B out = total B bs := by
  unfold step at h
  split at h
  · cases h
  · split at h
    · injection h with h; subst h; exact split_total B hB _ _ _ _
    · split at h
      · injection h with h; subst h; exact split_total B hB _ _ _ _
      · split at h
        · cases h
        · exact mapM_total B hB i bs out h

/-- T13.2: the branch probabilities always add up to the norm of the initial state (= 1) -/
theorem run_total (B : Backend V) (hB : Lawful B) (init : V) (instrs : List SInstr) (out : List (Branch V))
    (h : run B 0 init instrs = .ok out) : total B out = B.norm2 init := by
  unfold run at h
  have gen : ∀ (instrs : List SInstr) (bs out : List (Branch V)),
      instrs.foldlM (step B 0) bs = .ok out → total B out = total B bs := by
    intro instrs
    induction instrs with
    | nil => intro bs out h; simp [List.foldlM, pure, Except.pure] at h; subst h; rfl
    | cons i rest ih =>
      intro bs out h
      rw [List.foldlM_cons] at h
      cases hs : step B 0 bs i with
      | error e => rw [hs] at h; cases h
      | ok mid =>
        rw [hs] at h
        simp only [bind, Except.bind] at h
        rw [ih mid out h, step_total B hB bs mid i hs]
  rw [gen instrs _ out h]; simp [total]

/-! ### outcome keys -/

theorem key0_bit (k c : Nat) : (key0 k (1 <<< c)).testBit c = false := by
  simp [key0, Nat.testBit_xor, Nat.testBit_and, Nat.testBit_shiftLeft]

theorem key1_bit (k c : Nat) : (key1 k (1 <<< c)).testBit c = true := by
  simp [key1, Nat.testBit_or, Nat.testBit_shiftLeft]

theorem key0_other (k c j : Nat) (h : j ≠ c) : (key0 k (1 <<< c)).testBit j = k.testBit j := by
  simp only [key0, Nat.testBit_xor, Nat.testBit_and, Nat.testBit_shiftLeft]
  by_cases hj : c ≤ j
  · have : j - c ≠ 0 := by omega
    have hb : Nat.testBit 1 (j - c) = false := by
      rw [Bool.eq_false_iff]; intro hh; exact this (Nat.testBit_one_eq_true_iff_self_eq_zero.1 hh)
    simp [hj, hb]
  · simp [hj]

theorem key1_other (k c j : Nat) (h : j ≠ c) : (key1 k (1 <<< c)).testBit j = k.testBit j := by
  simp only [key1, Nat.testBit_or, Nat.testBit_shiftLeft]
  by_cases hj : c ≤ j
  · have : j - c ≠ 0 := by omega
    have hb : Nat.testBit 1 (j - c) = false := by
      rw [Bool.eq_false_iff]; intro hh; exact this (Nat.testBit_one_eq_true_iff_self_eq_zero.1 hh)
    simp [hj, hb]
  · simp [hj]

/-- a reset (`f = 0`) never changes an outcome key -/
theorem reset_keys (k : Nat) : key0 k 0 = k ∧ key1 k 0 = k := by simp [key0, key1]

/-! ### refusals -/

theorem conditioned_refused (B : Backend V) (tol : Rat) (bs : List (Branch V)) (i : SInstr) (h : i.conditioned = true) :
    ∃ m, step B tol bs i = .error (.value m) := by
  simp [step, h]

theorem classical_arg_refused (B : Backend V) (tol : Rat) (bs : List (Branch V)) (i : SInstr) (hc : i.conditioned = false)
    (hm : i.name ≠ "measure") (hr : i.name ≠ "reset") (hcl : i.clbits ≠ []) : ∃ m, step B tol bs i = .error (.value m) := by
  simp [step, hc, hm, hr, hcl]

/-- non-vacuity / sanity: a Bell pair measured into two bits, exactly -/
example : simulate cliffordBackend 0 (cliffordInit 2)
    [⟨"h", [0], [], false, 0⟩, ⟨"cx", [0, 1], [], false, 0⟩, ⟨"measure", [0], [0], false, 0⟩, ⟨"measure", [1], [1], false, 0⟩]
    = .ok [(0, 1/2), (3, 1/2)] := by decide +kernel

end CKT.C13
