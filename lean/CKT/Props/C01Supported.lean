import CKT.Props.C01Exact
import CKT.Props.C01Seq
import CKT.Props.C01Full
import CKT.Props.C01C06
import CKT.Props.C02
/-!
# C01 for the supported gates: the round trip holds with the bases of `qpd/decompositions.py`

Every basis that `Props/C02` proves exact (all real angles for the parametrised families, the fixed gates, the Move,
the 58-row KAK table for every `u ∈ ℂ⁴`) satisfies the exactness hypothesis of `C01PTM.cut_and_reconstruct`; the
corollary `supported_round_trip` states the round trip for circuits all of whose cut gates carry such a basis.
-/
namespace CKT.C01PTM
open CKT CKT.Sem CKT.C02

/-- the cut gate built from a symbolic basis and its target, at an environment `ρ`, on qubits `(qa, qb)` -/
noncomputable def cutOf (ρ : Nat → ℝ) (target : Ops.Kraus Poly) (b : SBasis) (qa qb : Nat) : CGate ℝ :=
  CGate.cut qa qb (tmOf2 ((fieldOps ℝ).ptm2 (evalKraus ρ target))) (evalTerms ρ b)

/-- every supported name, at every angle (resp. every `u`), gives an exact cut gate on any two distinct qubits -/
theorem supported_exact (name : String) (b : SBasis) (tg : Ops.Kraus Poly) (hb : basisOf name = some (b, tg))
    (hc : checkName name = true) (ρ : Nat → ℝ) (hs : Poly.Sat ρ stdRules) (qa qb : Nat) (hab : qa ≠ qb) :
    (cutOf ρ tg b qa qb).Exact :=
  exact_of_exactAt ρ tg b (checkBasis_sound' ρ hs name b tg hb hc) qa qb hab

theorem cut_rzz_exact (t : ℝ) (qa qb : Nat) (hab : qa ≠ qb) :
    (cutOf (envAngle t) (targetRot2 3) (rotFamilyBasis "rzz" genericAngle) qa qb).Exact :=
  exact_of_exactAt _ _ _ (exact_rzz t) qa qb hab

theorem cut_cx_exact (qa qb : Nat) (hab : qa ≠ qb) :
    (cutOf (envAngle 0) [(false, ctrl uX)] (cxFamilyBasis "cx") qa qb).Exact :=
  exact_of_exactAt _ _ _ exact_cx qa qb hab

theorem cut_move_exact (qa qb : Nat) (hab : qa ≠ qb) : (cutOf (envAngle 0) targetMove moveBasis qa qb).Exact :=
  exact_of_exactAt _ _ _ exact_move qa qb hab

theorem cut_kak_exact (re im : Fin 4 → ℝ) (qa qb : Nat) (hab : qa ≠ qb) :
    (cutOf (envU re im) [(false, uKak uVars)] (kakTableBasis uVars) qa qb).Exact :=
  exact_of_exactAt _ _ _ (exact_kak re im) qa qb hab

/-- a gate of a circuit to be cut: an arbitrary plain operation, or a supported gate (by name, at an environment satisfying
the rules: the angle, resp. the Weyl vector) marked for cutting -/
inductive SGate where
  | plain (qs : List Nat) (M : TM ℝ)
  | cut (name : String) (ρ : Nat → ℝ) (qa qb : Nat)

noncomputable def SGate.toC : SGate → CGate ℝ
  | .plain qs M => CGate.plain qs M
  | .cut name ρ qa qb =>
    match basisOf name with
    | some (b, tg) => cutOf ρ tg b qa qb
    | none => CGate.plain [] (fun _ _ => 0)

def SGate.Ok : SGate → Prop
  | .plain _ _ => True
  | .cut name ρ qa qb => checkName name = true ∧ Poly.Sat ρ stdRules ∧ qa ≠ qb

theorem SGate.exact (g : SGate) (h : g.Ok) : g.toC.Exact := by
  cases g with
  | plain qs M => trivial
  | cut name ρ qa qb =>
    obtain ⟨hc, hs, hab⟩ := h
    cases hb : basisOf name with
    | none => simp [checkName, hb] at hc
    | some bt =>
      obtain ⟨b, tg⟩ := bt
      have : (SGate.cut name ρ qa qb).toC = cutOf ρ tg b qa qb := by simp [SGate.toC, hb]
      rw [this]
      exact supported_exact name b tg hb hc ρ hs qa qb hab

/-- **C01 for the package's bases**: in a circuit whose cut gates are supported gates (each with the basis of
`qpd/decompositions.py`, exact by C02 — `checkName name = true` is what `check_<name>` establishes by kernel computation),
the uncut expectation value equals the reconstruction formula over all joint map choices and partitions -/
theorem supported_round_trip (lab : Nat → Nat) (S : Finset Nat) (gs : List SGate) (O : PStr)
    (hok : ∀ g ∈ gs, g.Ok) (hloc : ∀ g ∈ gs, g.toC.Local lab S) (hO : ∀ n, lab n ∉ S → O n = 0) :
    runOps ((gs.map SGate.toC).map CGate.op) init0 O =
      ((C01.choices ((gs.map SGate.toC).map CGate.slot)).map fun ch => choiceCoeff ch *
        ∏ p ∈ S, runOps ((choiceOps ch).filter fun o => blockOf lab o == p) init0 (restr lab p O)).sum := by
  apply cut_and_reconstruct lab S _ O _ _ hO
  · intro g hg
    simp only [List.mem_map] at hg
    obtain ⟨s, hs, rfl⟩ := hg
    exact SGate.exact s (hok s hs)
  · intro g hg
    simp only [List.mem_map] at hg
    obtain ⟨s, hs, rfl⟩ := hg
    exact hloc s hs

/-! ### the same with the maps as the operation sequences that get spliced in -/

/-- the cut gate with its basis given as operation sequences (the lists `decompose_qpd_instructions` splices) -/
noncomputable def cutSeqOf (ρ : Nat → ℝ) (target : Ops.Kraus Poly) (b : SBasis) (qa qb : Nat) : QGate ℝ :=
  QGate.cut qa qb (tmOf2 ((fieldOps ℝ).ptm2 (evalKraus ρ target))) (evalSeqTerms ρ b)

noncomputable def SGate.toQ : SGate → QGate ℝ
  | .plain qs M => QGate.plain qs M
  | .cut name ρ qa qb =>
    match basisOf name with
    | some (b, tg) => cutSeqOf ρ tg b qa qb
    | none => QGate.plain [] (fun _ _ => 0)

theorem SGate.exact_seq (g : SGate) (h : g.Ok) : g.toQ.toC.Exact := by
  cases g with
  | plain qs M => trivial
  | cut name ρ qa qb =>
    obtain ⟨hc, hs, hab⟩ := h
    cases hb : basisOf name with
    | none => simp [checkName, hb] at hc
    | some bt =>
      obtain ⟨b, tg⟩ := bt
      have : (SGate.cut name ρ qa qb).toQ = cutSeqOf ρ tg b qa qb := by simp [SGate.toQ, hb]
      rw [this]
      exact exact_of_exactAt_seq ρ tg b (checkBasis_sound' ρ hs name b tg hb hc) qa qb hab

/-- **C01 for the package's bases, with the spliced operation sequences**: every chosen map contributes, on each side, the
sequence of one-qubit operations listed in `qpd/decompositions.py` (each with its transfer matrix from the channel model) -/
theorem supported_round_trip_seq (lab : Nat → Nat) (S : Finset Nat) (gs : List SGate) (O : PStr)
    (hok : ∀ g ∈ gs, g.Ok) (hloc : ∀ g ∈ gs, g.toQ.toC.Local lab S) (hO : ∀ n, lab n ∉ S → O n = 0) :
    runOps ((gs.map SGate.toQ).map fun g => g.toC.op) init0 O =
      ((C01.choices ((gs.map SGate.toQ).map QGate.slot)).map fun ch => choiceCoeff ch *
        ∏ p ∈ S, runOps ((choiceOps ch).filter fun o => blockOf lab o == p) init0 (restr lab p O)).sum := by
  apply cut_and_reconstruct_seq lab S _ O _ _ hO
  · intro g hg
    simp only [List.mem_map] at hg
    obtain ⟨s, hs, rfl⟩ := hg
    exact SGate.exact_seq s (hok s hs)
  · intro g hg
    simp only [List.mem_map] at hg
    obtain ⟨s, hs, rfl⟩ := hg
    exact hloc s hs

/-- non-vacuity: the hypotheses of `supported_round_trip` are met by a concrete problem — `rzz(θ)` between qubits 0 and 1
(any θ) followed by a `cz` between qubits 1 and 2, both cut, three one-qubit partitions, observable `Z Z Z` -/
example (t : ℝ) :
    let gs := [SGate.cut "rzz" (envAngle t) 0 1, SGate.cut "cz" (envAngle 0) 1 2]
    let O : PStr := fun n => if n < 3 then 3 else 0
    runOps ((gs.map SGate.toC).map CGate.op) init0 O =
      ((C01.choices ((gs.map SGate.toC).map CGate.slot)).map fun ch => choiceCoeff ch *
        ∏ p ∈ ({0, 1, 2} : Finset Nat), runOps ((choiceOps ch).filter fun o => blockOf id o == p) init0 (restr id p O)).sum := by
  intro gs O
  apply supported_round_trip id {0, 1, 2} gs O
  · intro g hg
    simp only [gs, List.mem_cons, List.not_mem_nil, or_false] at hg
    rcases hg with rfl | rfl
    · exact ⟨check_rzz, sat_angle t, by decide⟩
    · exact ⟨check_cz, sat_angle 0, by decide⟩
  · intro g hg
    simp only [gs, List.mem_cons, List.not_mem_nil, or_false] at hg
    rcases hg with rfl | rfl <;> simp [SGate.toC, basisOf, cutOf, CGate.Local]
  · intro n hn
    have : ¬ n < 3 := by
      intro h
      apply hn
      simp only [id, Finset.mem_insert, Finset.mem_singleton]
      omega
    simp [O, this]

end CKT.C01PTM
