import CKT.Props.C12Sem
import CKT.Sem.Instr
import CKT.Sem.Tie
/-!
# C12 / C19 — the four reset laws hold in the Pauli-expectation semantics of dynamic circuits

`C12Sem` proves that the reset optimisations preserve the measurement statistics for every semantics obeying four
laws.  Here the laws are *proved* for the concrete semantics `CKT.Sem` (one Pauli-expectation vector per value of the
classical register; any transfer matrices for the named gates and for the measurement projectors), so T12.3 becomes a
theorem about that semantics without assumptions: `optimizeResets_statistics`.
-/
namespace CKT.C12PTM
open CKT CKT.Sem CKT.C12Sem

variable {K : Type} [CommRing K]

theorem isBarrier_of_isReset {r : Instr} (h : isReset r = true) : isBarrier r = false := by
  simp only [isReset, beq_iff_eq] at h
  simp [isBarrier, h]

theorem prims_reset (G : GateSem K) (r : Instr) (h : isReset r = true) :
    prims G (some 0) r = [Prim.gate [rq r] resetM] := by
  unfold prims
  simp only [isBarrier_of_isReset h, h, if_true, Bool.false_eq_true, if_false]
  cases hq : r.qubits with
  | nil => simp [rq, hq]
  | cons q qs => simp [rq, hq]

theorem ap_reset (G : GateSem K) (r : Instr) (h : isReset r = true) (σ : St K) :
    ap G (some 0) r σ = fun k => applyL [rq r] resetM (σ k) := by
  simp [ap, prims_reset G r h, Prim.act]

theorem prims_not_reset (G : GateSem K) (d : Option Nat) (i : Instr) (h : isReset i = false) :
    prims G d i = prims G none i := by
  unfold prims
  simp [h]

theorem reset_reset (q : Nat) (v : Vec K) : applyL [q] resetM (applyL [q] resetM v) = applyL [q] resetM v := by
  funext P
  rw [applyL_reset, applyL_reset, applyL_reset]
  by_cases h : P q = 0 ∨ P q = 3
  · simp [h]
  · simp [h]

theorem ap_reset_comm (G : GateSem K) (r i : Instr) (σ : St K) (hr : isReset r = true) (hq : rq r ∉ i.qubits) :
    ap G (some 0) r (ap G (some 0) i σ) = ap G (some 0) i (ap G (some 0) r σ) := by
  by_cases hi : isReset i = true
  · rw [ap_reset G r hr, ap_reset G i hi, ap_reset G r hr, ap_reset G i hi]
    funext k
    by_cases e : rq r = rq i
    · rw [e]
    · exact applyL_comm [rq r] [rq i] resetM resetM (σ k) (by simpa using e)
  · have hi' : isReset i = false := by simpa using hi
    unfold ap
    rw [prims_reset G r hr, prims_not_reset G (some 0) i hi']
    apply actL_comm
    intro p hp x hx
    simp only [List.mem_singleton] at hp
    subst hp
    have hs := prims_support G i x hx
    exact ⟨fun q hq1 hq2 => by
      simp only [Prim.qubits, List.mem_singleton] at hq1
      subst hq1
      exact hq (hs.1 _ hq2), fun c hc => by simp [Prim.clbits] at hc⟩

open Classical in
theorem init_reset (q : Nat) (k : Cl) : applyL [q] resetM (init (K := K) k) = init k := by
  funext P
  rw [applyL_reset]
  unfold init
  by_cases h : P q = 0 ∨ P q = 3
  · simp only [h, if_true]
    have : (∀ n, Function.update P q 0 n = 0 ∨ Function.update P q 0 n = 3) ↔ (∀ n, P n = 0 ∨ P n = 3) := by
      constructor
      · intro hall n
        by_cases e : n = q
        · subst e; exact h
        · have := hall n; rwa [Function.update_of_ne e] at this
      · intro hall n
        by_cases e : n = q
        · subst e; simp
        · rw [Function.update_of_ne e]; exact hall n
    exact if_congr (and_congr Iff.rfl this) rfl rfl
  · simp only [h, if_false]
    have : ¬ (∀ n, P n = 0 ∨ P n = 3) := fun hall => h (hall q)
    simp [this]

/-- **the four reset laws hold in the Pauli-expectation semantics**, for any transfer matrices of the named gates and of
the measurement projectors -/
noncomputable def ptm (G : GateSem K) : ResetSem (St K) (Cl → K) where
  ap := ap G (some 0)
  init := init
  obs := obs
  comm := fun r i s hr hq => ap_reset_comm G r i s hr hq
  idem := fun r r' s hr hr' e => by
    rw [ap_reset G r' hr', ap_reset G r hr]
    funext k
    rw [← e]
    exact reset_reset (rq r) (s k)
  init_fixed := fun r hr => by
    rw [ap_reset G r hr]
    funext k
    exact init_reset (rq r) k
  obs_reset := fun r s hr => by
    rw [ap_reset G r hr]
    funext k
    simp [obs, applyL_reset]

/-- **T12.3 in the Pauli-expectation semantics** (no assumed laws): the three reset optimisations, in the order
`generate_cutting_experiments` applies them, leave the distribution of the classical register of every well-formed
program unchanged, whatever the gates mean -/
theorem optimizeResets_statistics (G : GateSem K) (nq : Nat) (l : List Instr) (hwf : ResetsAux.WF nq l) :
    obs (run (ptm G) (optimizeResets nq l) init) = obs (run (ptm G) l init) :=
  optimizeResets_obs (ptm G) nq l hwf

theorem each_pass_statistics (G : GateSem K) (nq : Nat) (l : List Instr) (hwf : ResetsAux.WF nq l) (s : St K) :
    obs (run (ptm G) (consolidateResets l) s) = obs (run (ptm G) l s) ∧
    obs (run (ptm G) (removeFinalResets nq l) s) = obs (run (ptm G) l s) ∧
    obs (run (ptm G) (removeInitialResets nq l) init) = obs (run (ptm G) l init) :=
  each_pass_obs (ptm G) nq l hwf s

end CKT.C12PTM
