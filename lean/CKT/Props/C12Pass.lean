import CKT.Props.C12PTM
/-!
# C12 — the two transpiler passes (`RemoveFinalReset`, `ConsolidateResets`) preserve the measurement statistics

The passes are modelled on the per-wire successor structure of the DAG (`Model/Resets`: `passRemoveFinalReset`,
`passConsolidateResets`, tied to the code by the C12 correspondence run, per-wire order only).  Both are head recursions
(`pfr_eq`, `pcr_eq`: whether position `k` is kept depends on the suffix after `k` only), and for every semantics obeying the
reset laws of `C12Sem` — plus, for the consolidation pass, "two resets of the same qubit act alike" (the pass keeps the
*last* reset of a run, the list function the first) — dropping the reset leaves the observation unchanged:

* `passRemoveFinalReset_obs`: a reset that is the last operation on its wire commutes to the end and is invisible;
* `passConsolidateResets_run`: a reset whose successor on its wire is a reset commutes up to that successor and is absorbed.
Instantiated with the Pauli-expectation semantics (`C12PTM.ptm`): `passes_statistics`.
-/
namespace CKT.C12Pass
open CKT CKT.ResetsAux CKT.C12Sem

/-! ### the passes as head recursions -/

def pfr : List Instr → List Instr
  | [] => []
  | i :: rest => if isReset i && !(rest.any fun j => j.qubits.contains (i.qubits.headD 0)) then pfr rest else i :: pfr rest

def pcr : List Instr → List Instr
  | [] => []
  | i :: rest =>
    if isReset i && (match rest.find? (fun j => j.qubits.contains (i.qubits.headD 0)) with
                      | some j => isReset j
                      | none => false)
    then pcr rest else i :: pcr rest

theorem pfr_cons (i : Instr) (rest : List Instr) : pfr (i :: rest) =
    if isReset i && !(rest.any fun j => j.qubits.contains (i.qubits.headD 0)) then pfr rest else i :: pfr rest := rfl

theorem pcr_cons (i : Instr) (rest : List Instr) : pcr (i :: rest) =
    if isReset i && (match rest.find? (fun j => j.qubits.contains (i.qubits.headD 0)) with
                      | some j => isReset j
                      | none => false)
    then pcr rest else i :: pcr rest := rfl

theorem keepIdx_cons (i : Instr) (rest : List Instr) (p : Nat → Bool) :
    keepIdx (i :: rest) p = (if p 0 then [i] else []) ++ keepIdx rest (fun k => p (k + 1)) := by
  unfold keepIdx
  rw [List.zipIdx_cons']
  simp only [List.filter_cons, List.filter_map, List.map_map, Function.comp_def]
  by_cases h : p 0 = true
  · simp [h, Prod.map]
  · simp [h, Prod.map]

def keepFinal (l : List Instr) (k : Nat) : Bool :=
  match l[k]? with
  | some i => !(isReset i && isLastOnWire l (i.qubits.headD 0) k)
  | none => true

def keepCons (l : List Instr) (k : Nat) : Bool :=
  match l[k]? with
  | some i => (match nextOnWire l (i.qubits.headD 0) k with
    | some j => !(isReset i && isReset j)
    | none => true)
  | none => true

theorem passRemoveFinalReset_def (l : List Instr) : passRemoveFinalReset l = keepIdx l (keepFinal l) := rfl
theorem passConsolidateResets_def (l : List Instr) : passConsolidateResets l = keepIdx l (keepCons l) := rfl

theorem keepFinal_succ (i : Instr) (rest : List Instr) (k : Nat) : keepFinal (i :: rest) (k + 1) = keepFinal rest k := by
  unfold keepFinal
  simp only [List.getElem?_cons_succ]
  cases rest[k]? with
  | none => rfl
  | some x => simp [isLastOnWire, List.drop_succ_cons]

theorem keepFinal_zero (i : Instr) (rest : List Instr) :
    keepFinal (i :: rest) 0 = !(isReset i && !(rest.any fun j => j.qubits.contains (i.qubits.headD 0))) := by
  simp [keepFinal, isLastOnWire]

theorem keepCons_succ (i : Instr) (rest : List Instr) (k : Nat) : keepCons (i :: rest) (k + 1) = keepCons rest k := by
  unfold keepCons
  simp only [List.getElem?_cons_succ]
  cases rest[k]? with
  | none => rfl
  | some x => simp [nextOnWire, List.drop_succ_cons]

theorem keepCons_zero (i : Instr) (rest : List Instr) :
    keepCons (i :: rest) 0 = !(isReset i && (match rest.find? (fun j => j.qubits.contains (i.qubits.headD 0)) with
                      | some j => isReset j
                      | none => false)) := by
  simp only [keepCons, List.getElem?_cons_zero, nextOnWire, List.drop_succ_cons, List.drop_zero]
  cases rest.find? (fun j => j.qubits.contains (i.qubits.headD 0)) with
  | none => simp
  | some j => simp

theorem pfr_eq : ∀ l : List Instr, passRemoveFinalReset l = pfr l
  | [] => by simp [passRemoveFinalReset, keepIdx, pfr]
  | i :: rest => by
    rw [passRemoveFinalReset_def, keepIdx_cons]
    simp only [keepFinal_succ, keepFinal_zero]
    rw [← passRemoveFinalReset_def, pfr_eq rest, pfr_cons]
    generalize (isReset i && !(rest.any fun j => j.qubits.contains (i.qubits.headD 0))) = c
    cases c <;> simp

theorem pcr_eq : ∀ l : List Instr, passConsolidateResets l = pcr l
  | [] => by simp [passConsolidateResets, keepIdx, pcr]
  | i :: rest => by
    rw [passConsolidateResets_def, keepIdx_cons]
    simp only [keepCons_succ, keepCons_zero]
    rw [← passConsolidateResets_def, pcr_eq rest, pcr_cons]
    generalize (isReset i && (match rest.find? (fun j => j.qubits.contains (i.qubits.headD 0)) with
                      | some j => isReset j
                      | none => false)) = c
    cases c <;> simp

/-! ### semantics -/

variable {S O : Type} (M : ResetSem S O)

/-- a reset commutes with a run of instructions that do not touch its qubit -/
theorem reset_run_comm (r : Instr) (hr : isReset r = true) : ∀ (l : List Instr) (s : S),
    (∀ j ∈ l, rq r ∉ j.qubits) → M.ap r (run M l s) = run M l (M.ap r s)
  | [], _, _ => rfl
  | j :: rest, s, h => by
    simp only [run_cons]
    rw [reset_run_comm r hr rest _ (fun x hx => h x (List.mem_cons_of_mem _ hx)), M.comm r j s hr (h j (by simp))]

theorem pfr_obs : ∀ (l : List Instr) (s : S), M.obs (run M (pfr l) s) = M.obs (run M l s)
  | [], _ => rfl
  | i :: rest, s => by
    rw [pfr_cons]
    by_cases h : (isReset i && !(rest.any fun j => j.qubits.contains (i.qubits.headD 0))) = true
    · simp only [h, if_true, run_cons]
      have hr : isReset i = true := by simp only [Bool.and_eq_true] at h; exact h.1
      have hfree : ∀ j ∈ rest, rq i ∉ j.qubits := by
        intro j hj hq
        simp only [Bool.and_eq_true, Bool.not_eq_true', List.any_eq_false] at h
        exact h.2 j hj (by simpa [rq] using hq)
      rw [pfr_obs rest s, ← reset_run_comm M i hr rest s hfree, M.obs_reset i _ hr]
    · simp only [h, run_cons]
      exact pfr_obs rest _

/-- **`RemoveFinalReset` preserves the statistics**, from any start state -/
theorem passRemoveFinalReset_obs (l : List Instr) (s : S) :
    M.obs (run M (passRemoveFinalReset l) s) = M.obs (run M l s) := by
  rw [pfr_eq]; exact pfr_obs M l s

theorem find_split (p : Instr → Bool) : ∀ (l : List Instr) (j : Instr), l.find? p = some j →
    ∃ a b, l = a ++ j :: b ∧ (∀ x ∈ a, p x = false)
  | [], _, h => by cases h
  | x :: rest, j, h => by
    by_cases hx : p x = true
    · simp only [List.find?_cons, hx] at h
      injection h with h; subst h
      exact ⟨[], rest, rfl, by simp⟩
    · have hx' : p x = false := by simpa using hx
      simp only [List.find?_cons, hx'] at h
      obtain ⟨a, b, hab, ha⟩ := find_split p rest j h
      refine ⟨x :: a, b, by simp [hab], ?_⟩
      intro y hy
      rcases List.mem_cons.1 hy with rfl | hy
      · exact hx'
      · exact ha y hy

theorem pcr_run (hsame : ∀ r r', isReset r = true → isReset r' = true → rq r = rq r' → M.ap r = M.ap r') :
    ∀ (l : List Instr), (∀ i ∈ l, isReset i = true → i.qubits = [rq i]) → ∀ (s : S), run M (pcr l) s = run M l s
  | [], _, _ => rfl
  | i :: rest, hq, s => by
    have hq' : ∀ x ∈ rest, isReset x = true → x.qubits = [rq x] := fun x hx => hq x (List.mem_cons_of_mem _ hx)
    rw [pcr_cons]
    by_cases h : (isReset i && (match rest.find? (fun j => j.qubits.contains (i.qubits.headD 0)) with
                      | some j => isReset j
                      | none => false)) = true
    · simp only [h, if_true, run_cons]
      have hr : isReset i = true := by simp only [Bool.and_eq_true] at h; exact h.1
      have h2 : (match rest.find? (fun j => j.qubits.contains (i.qubits.headD 0)) with
                      | some j => isReset j
                      | none => false) = true := by simp only [Bool.and_eq_true] at h; exact h.2
      cases hf : rest.find? (fun j => j.qubits.contains (i.qubits.headD 0)) with
      | none => rw [hf] at h2; cases h2
      | some j =>
        rw [hf] at h2
        have hj : isReset j = true := h2
        obtain ⟨a, b, hab, ha⟩ := find_split _ rest j hf
        have hjq : j.qubits.contains (i.qubits.headD 0) = true := by
          have := List.find?_some hf
          simpa using this
        have hjmem : j ∈ rest := by rw [hab]; simp
        have hrq : rq i = rq j := by
          have := hq' j hjmem hj
          rw [this] at hjq
          simpa [rq] using hjq
        rw [pcr_run hsame rest hq' s]
        rw [hab, run_append, run_append, run_cons, run_cons]
        have hfree : ∀ x ∈ a, rq i ∉ x.qubits := by
          intro x hx hmem
          have := ha x hx
          simp only [rq] at hmem
          simp only [List.contains_eq_mem, decide_eq_false_iff_not] at this
          exact this hmem
        rw [← reset_run_comm M i hr a s hfree]
        have : M.ap j (M.ap i (run M a s)) = M.ap j (run M a s) := by
          rw [← hsame i j hr hj hrq]
          exact M.idem i i _ hr hr rfl
        rw [this]
    · simp only [h, run_cons]
      exact pcr_run hsame rest hq' _

/-- **`ConsolidateResets` preserves the state** (hence the statistics), from any start state, for well-formed programs -/
theorem passConsolidateResets_run (hsame : ∀ r r', isReset r = true → isReset r' = true → rq r = rq r' → M.ap r = M.ap r')
    (nq : Nat) (l : List Instr) (hwf : WF nq l) (s : S) : run M (passConsolidateResets l) s = run M l s := by
  rw [pcr_eq]
  apply pcr_run M hsame l _ s
  intro i hi hr
  obtain ⟨q, hq⟩ := (hwf i hi).2 hr
  simp [rq, hq]

/-! ### in the Pauli-expectation semantics -/

open CKT.Sem in
/-- **both transpiler passes preserve the distribution of the classical register** in the Pauli-expectation semantics
(any gate matrices, any projectors), from any start state -/
theorem passes_statistics {K : Type} [CommRing K] (G : GateSem K) (nq : Nat) (l : List Instr) (hwf : WF nq l) (s : St K) :
    obs (run (C12PTM.ptm G) (passRemoveFinalReset l) s) = obs (run (C12PTM.ptm G) l s) ∧
    obs (run (C12PTM.ptm G) (passConsolidateResets l) s) = obs (run (C12PTM.ptm G) l s) := by
  refine ⟨passRemoveFinalReset_obs (C12PTM.ptm G) l s, ?_⟩
  rw [passConsolidateResets_run (C12PTM.ptm G) _ nq l hwf s]
  intro r r' hr hr' e
  funext σ
  show ap G (some 0) r σ = ap G (some 0) r' σ
  rw [C12PTM.ap_reset G r hr, C12PTM.ap_reset G r' hr', e]

end CKT.C12Pass
