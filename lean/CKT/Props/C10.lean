import CKT.Model.Partition
import Mathlib.Data.List.Basic
import Mathlib.Data.List.Range
import Mathlib.Algebra.BigOperators.Group.List.Basic
/-!
# C10 — separating and partitioning a circuit preserves its structure
(the semantic half — recomposition is equivalent to the original — is `CKT.Props.C10Sem`)
-/
namespace CKT.C10
open CKT

/-! ## T10.1 qubits of a label, qubit map -/

theorem mem_qubitsOf (labels : List Label) (l q : Nat) :
    q ∈ qubitsOf labels l ↔ q < labels.length ∧ labels.getD q none = some l := by
  simp [qubitsOf, List.mem_filter]

/-- a label's qubits are listed in original (ascending) order, each once -/
theorem qubitsOf_sorted_nodup (labels : List Label) (l : Nat) : (qubitsOf labels l).Pairwise (· < ·) :=
  List.Pairwise.filter _ List.pairwise_lt_range

private theorem filter_range_getElem (p : Nat → Bool) (n j : Nat) (hj : j < n) (hp : p j = true) :
    ((List.range n).filter p)[((List.range j).filter p).length]? = some j := by
  have hsplit : List.range n = List.range j ++ j :: List.range' (j + 1) (n - j - 1) := by
    have h1 : List.range n = List.range' 0 n := List.range_eq_range' 
    have h2 : List.range j = List.range' 0 j := List.range_eq_range'
    rw [h1, h2]
    have : n = j + (1 + (n - j - 1)) := by omega
    conv_lhs => rw [this]
    rw [← List.range'_append_1, ← List.range'_append_1]
    simp [List.range'_one] 
  rw [hsplit, List.filter_append, List.filter_cons, hp]
  simp

/-- the qubit map is consistent with the subcircuits: entry `(l, k)` for qubit `j` means the `k`-th qubit of
subcircuit `l` is `j`; `None`-labelled qubits map to `(None, None)`. -/
theorem qubitMap_spec (labels : List Label) (j : Nat) (hj : j < labels.length) :
    (qubitMap labels)[j]? = some (qmEntry labels j) ∧
    (labels.getD j none = none → qmEntry labels j = none) ∧
    ∀ l k, (qubitMap labels)[j]? = some (some (l, k)) → labels.getD j none = some l ∧ (qubitsOf labels l)[k]? = some j := by
  have h1 : (qubitMap labels)[j]? = some (qmEntry labels j) := by
    simp [qubitMap, List.getElem?_map, List.getElem?_range hj]
  refine ⟨h1, ?_, ?_⟩
  · intro h; unfold qmEntry; rw [h]
  intro l k h
  rw [h1] at h
  unfold qmEntry at h
  cases hl : labels.getD j none with
  | none => rw [hl] at h; simp at h
  | some l' =>
    rw [hl] at h
    simp only [Option.some.injEq, Prod.mk.injEq] at h
    obtain ⟨rfl, rfl⟩ := h
    refine ⟨rfl, ?_⟩
    exact filter_range_getElem (fun i => labels.getD i none == some l') labels.length j hj (by rw [hl]; simp)

/-! ## T10.2 barriers are split and re-joined; nothing else moves -/

theorem splitBarriersGo_non_barrier : ∀ (l : List Instr) (k : Nat),
    (splitBarriersGo l k).filter (fun i => !isBarrier i) = l.filter (fun i => !isBarrier i) := by
  intro l
  induction l with
  | nil => intro k; rfl
  | cons i rest ih =>
    intro k
    simp only [splitBarriersGo]
    split
    · rename_i h
      have hb : isBarrier i = true := by simp at h; exact h.1
      have hf : (i.qubits.map fun q => ({ name := "barrier", qubits := [q], label := some s!"_uuid={k}" } : Instr)).filter
          (fun i => !isBarrier i) = [] := by
        rw [List.filter_eq_nil_iff]
        intro x hx
        simp only [List.mem_map] at hx
        obtain ⟨q, _, rfl⟩ := hx
        simp [isBarrier]
      rw [List.filter_append, hf, ih, List.filter_cons]
      simp [hb]
    · rename_i h
      simp [List.filter_cons, ih]

/-- every non-barrier instruction survives splitting, in order -/
theorem splitBarriers_non_barrier (l : List Instr) :
    (splitBarriers l).filter (fun i => !isBarrier i) = l.filter (fun i => !isBarrier i) :=
  splitBarriersGo_non_barrier l 0

theorem splitBarriersGo_qubits : ∀ (l : List Instr) (k : Nat),
    ((splitBarriersGo l k).map (·.qubits)).flatten = (l.map (·.qubits)).flatten := by
  intro l
  induction l with
  | nil => intro k; rfl
  | cons i rest ih =>
    intro k
    simp only [splitBarriersGo]
    split
    · rw [List.map_append, List.flatten_append, ih]
      have : ∀ qs : List Nat, (qs.map (fun x => [x])).flatten = qs := by
        intro qs; induction qs <;> simp_all
      simp [List.map_map, Function.comp_def, this]
    · simp [ih]

/-- the pieces of a split barrier cover exactly the barrier's qubits, in order -/
theorem splitBarriers_qubits (l : List Instr) :
    ((splitBarriers l).map (·.qubits)).flatten = (l.map (·.qubits)).flatten := splitBarriersGo_qubits l 0

theorem combineBarriersGo_non_tagged (all : List Instr) : ∀ (l : List Instr) (seen : List String),
    (combineBarriersGo all l seen).filter (fun i => !isBarrier i) = l.filter (fun i => !isBarrier i) := by
  intro l
  induction l with
  | nil => intro seen; rfl
  | cons i rest ih =>
    intro seen
    simp only [combineBarriersGo]
    split
    · rename_i h
      have hb : isBarrier i = true := by simp [isTagged] at h; exact h.1.1
      split
      · rw [ih]; simp [List.filter_cons, hb]
      · have hn : i.name = "barrier" := by simpa [isBarrier] using hb
        rw [List.filter_cons, ih, List.filter_cons]
        simp [isBarrier, hn]
    · simp [List.filter_cons, ih]

/-- re-joining barriers leaves every other instruction in place and in order -/
theorem combineBarriers_non_tagged (l : List Instr) :
    (combineBarriers l).filter (fun i => !isBarrier i) = l.filter (fun i => !isBarrier i) :=
  combineBarriersGo_non_tagged l l []

theorem combineBarriersGo_no_tag (all : List Instr) : ∀ (l : List Instr) (seen : List String),
    ∀ i ∈ combineBarriersGo all l seen, isTagged i = false := by
  intro l
  induction l with
  | nil => intro seen i hi; simp [combineBarriersGo] at hi
  | cons x rest ih =>
    intro seen i hi
    simp only [combineBarriersGo] at hi
    split at hi
    · split at hi
      · exact ih _ i hi
      · rcases List.mem_cons.1 hi with rfl | hi
        · simp [isTagged]
        · exact ih _ i hi
    · rename_i hx
      rcases List.mem_cons.1 hi with rfl | hi
      · simpa using hx
      · exact ih _ i hi

/-- no uuid-tagged single-qubit barrier is left behind -/
theorem combineBarriers_no_tag_left (l : List Instr) : ∀ i ∈ combineBarriers l, isTagged i = false :=
  combineBarriersGo_no_tag l l []

/-! ## every instruction lands in exactly one subcircuit -/

theorem checkAllLabels_ok (labels : List Label) : ∀ (l : List Instr), checkAllLabels labels l = .ok () →
    ∀ i ∈ l, ∃ lab, instrLabel labels i = .ok lab := by
  intro l
  induction l with
  | nil => intro _ i hi; cases hi
  | cons x rest ih =>
    intro h i hi
    simp only [checkAllLabels] at h
    cases hx : instrLabel labels x with
    | error e => rw [hx] at h; cases h
    | ok lab =>
      rw [hx] at h
      rcases List.mem_cons.1 hi with rfl | hi
      · exact ⟨lab, hx⟩
      · exact ih h i hi

theorem instrLabel_mem (labels : List Label) (i : Instr) (lab : Nat) (h : instrLabel labels i = .ok lab) :
    lab ∈ labelOrder labels := by
  unfold instrLabel at h
  split at h
  · cases h
  · split at h
    · rename_i l heq
      injection h with h; subst h
      have hm : l ∈ uniq (i.qubits.filterMap (fun q => labels.getD q none)) := by rw [heq]; simp
      rw [mem_uniq, List.mem_filterMap] at hm
      obtain ⟨q, _, hq⟩ := hm
      unfold labelOrder
      rw [mem_uniq, List.mem_filterMap]
      have hlt : q < labels.length := by
        by_contra hc
        simp [List.getD_eq_getElem?_getD, List.getElem?_eq_none (Nat.le_of_not_lt hc)] at hq
      refine ⟨labels[q], List.getElem_mem hlt, ?_⟩
      simpa [List.getD_eq_getElem?_getD, List.getElem?_eq_getElem hlt] using hq
    · cases h

private theorem sum_indicator (L : List Nat) (hn : L.Nodup) (l0 : Nat) (hm : l0 ∈ L) :
    (L.map (fun l => if l0 = l then 1 else 0)).sum = 1 := by
  induction L with
  | nil => cases hm
  | cons a L ih =>
    have hn' := List.nodup_cons.1 hn
    simp only [List.map_cons, List.sum_cons]
    rcases List.mem_cons.1 hm with rfl | hm'
    · have : (L.map (fun l => if l0 = l then 1 else 0)).sum = 0 := by
        apply List.sum_eq_zero
        intro x hx
        simp only [List.mem_map] at hx
        obtain ⟨l, hl, rfl⟩ := hx
        have : l0 ≠ l := fun h => hn'.1 (h ▸ hl)
        simp [this]
      simp [this]
    · have : l0 ≠ a := fun h => hn'.1 (h ▸ hm')
      simp [this, ih hn'.2 hm']

/-- **T10.2** when separation succeeds, the per-label instruction lists partition the (barrier-split) instruction
list: their lengths add up to its length, and each is a subsequence of it (order preserved). -/
theorem subInstrs_partition (labels : List Label) (l : List Instr) (h : checkAllLabels labels l = .ok ()) :
    ((labelOrder labels).map (fun lab => (subInstrs labels lab l).length)).sum = l.length := by
  have hnd : (labelOrder labels).Nodup := nodup_uniq _
  induction l with
  | nil => simp [subInstrs]
  | cons x rest ih =>
    have hx := checkAllLabels_ok labels (x :: rest) h x (by simp)
    obtain ⟨lab, hlab⟩ := hx
    have hrest : checkAllLabels labels rest = .ok () := by
      simp only [checkAllLabels, hlab] at h; exact h
    have hmem := instrLabel_mem labels x lab hlab
    have hstep : ∀ lab', (subInstrs labels lab' (x :: rest)).length
        = (if lab = lab' then 1 else 0) + (subInstrs labels lab' rest).length := by
      intro lab'
      simp only [subInstrs, List.length_map, List.filter_cons, hlab]
      by_cases he : lab = lab'
      · simp [he]; omega
      · have : (lab == lab') = false := by simpa using he
        simp [this, he]
    simp only [hstep]
    rw [List.sum_map_add, sum_indicator _ hnd lab hmem, ih hrest]
    simp; omega

theorem subInstrs_sublist (labels : List Label) (lab : Nat) (l : List Instr) :
    ∃ sub : List Instr, sub.Sublist l ∧ (subInstrs labels lab l).map (·.name) = sub.map (·.name) := by
  refine ⟨l.filter (fun i => match instrLabel labels i with | .ok l' => l' == lab | .error _ => false),
    List.filter_sublist, ?_⟩
  unfold subInstrs
  simp only [List.map_map]
  rfl

/-! ## refusals -/

theorem separate_refuses_length (c : Circuit) (ls : List Label) (h : ls.length ≠ c.nq) :
    ∃ e, separateCircuit c (some ls) = .error (.value e) := by
  unfold separateCircuit; simp [h]

/-- a successful separation used one label per qubit and found every instruction inside one partition -/
theorem separate_ok_labels (c : Circuit) (ls : List Label) (s : Separated) (h : separateCircuit c (some ls) = .ok s) :
    ls.length = c.nq ∧ checkAllLabels ls (splitBarriers c.instrs) = .ok () ∧ s.qubitMap = qubitMap ls ∧
    s.subcircuits.map (·.1) = labelOrder ls := by
  unfold separateCircuit at h
  simp only at h
  split at h
  · cases h
  · rename_i hl
    split at h
    · cases h
    · rename_i hc
      injection h with h; subst h
      refine ⟨by simpa using hl, hc, rfl, ?_⟩
      simp [List.map_map, Function.comp_def]

/-! ## T10.5 cut numbering and halves -/

def is2q (i : Instr) : Bool := i.name == "qpd_2q"

/-- the `n`-th two-qubit placeholder gets label suffix `_n`; nothing else is touched -/
theorem numberCuts_labels : ∀ (l : List Instr) (k : Nat),
    ((numberCuts l k).filter is2q).map (fun i => (i.label, i.basis, i.qubits)) =
      ((l.filter is2q).zipIdx k).map (fun p => (some s!"{p.1.label.getD "None"}_{p.2}", p.1.basis, p.1.qubits)) := by
  intro l
  induction l with
  | nil => intro k; rfl
  | cons i rest ih =>
    intro k
    simp only [numberCuts]
    by_cases h : i.name == "qpd_2q"
    · have h2 : is2q i = true := h
      simp only [h, if_true, List.filter_cons, h2]
      have : is2q { i with label := some s!"{i.label.getD "None"}_{k}" } = true := h2
      simp only [this, if_true, List.map_cons, List.zipIdx_cons]
      rw [ih (k + 1)]
    · have h2 : is2q i = false := by simpa [is2q] using h
      simp only [h, Bool.false_eq_true, if_false, List.filter_cons, h2]
      exact ih k

/-- every two-qubit placeholder becomes exactly two halves carrying its label (hence its cut index), its basis,
half indices 0 and 1 on its two qubits; the basis list is ordered by cut index. -/
theorem splitHalves_pairs (l : List Instr) (hno : ∀ i ∈ l, i.name ≠ "qpd_1q") :
    ((splitHalves l).filter (fun i => i.name == "qpd_1q")).map (fun i => (i.label, i.basis, i.half, i.qubits)) =
      (l.filter is2q).flatMap (fun g =>
        [(g.label, g.basis, some 0, [g.qubits.getD 0 0]), (g.label, g.basis, some 1, [g.qubits.getD 1 0])]) := by
  induction l with
  | nil => rfl
  | cons i rest ih =>
    have ih' := ih (fun j hj => hno j (List.mem_cons_of_mem _ hj))
    simp only [splitHalves, List.flatMap_cons] at ih' ⊢
    by_cases h : i.name == "qpd_2q"
    · have h2 : is2q i = true := h
      simp only [h, if_true, List.filter_append, List.map_append, List.filter_cons, h2, List.flatMap_cons]
      rw [ih']
      simp
    · have h2 : is2q i = false := by simpa [is2q] using h
      have h1 : (i.name == "qpd_1q") = false := by simpa using hno i (by simp)
      simp only [h, Bool.false_eq_true, if_false, List.filter_append, List.map_append, List.filter_cons, h2, h1]
      simpa using ih'

/-! non-vacuity -/
private def exInstrs : List Instr := [
  { name := "h", qubits := [0] }, { name := "barrier", qubits := [0, 1, 2] }, { name := "cx", qubits := [0, 2] },
  { name := "x", qubits := [1] } ]
private def exLabels : List Label := [some 4, some 9, some 4]

example : checkAllLabels exLabels (splitBarriers exInstrs) = .ok () := by decide
example : qubitMap exLabels = [some (4, 0), some (9, 0), some (4, 1)] := by decide
example : (combineBarriers (subInstrs exLabels 4 (splitBarriers exInstrs))).map (fun i => (i.name, i.qubits))
    = [("h", [0]), ("barrier", [0, 1]), ("cx", [0, 1])] := by decide +kernel

end CKT.C10
