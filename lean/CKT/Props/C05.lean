import CKT.Model.Experiments
import Mathlib.Data.List.Basic
import Mathlib.Data.List.Perm.Basic
import Mathlib.Algebra.Order.Field.Rat
import Mathlib.Algebra.BigOperators.Group.List.Basic
import Mathlib.Tactic.Linarith
import Mathlib.Tactic.FieldSimp
import Mathlib.Tactic.Ring
import Mathlib.Algebra.Order.Ring.Abs
import Mathlib.Algebra.BigOperators.Ring.List
/-!
# C05 — generated subexperiments and coefficients follow the documented contract
-/
namespace CKT.C05
open CKT

/-! ## ordering by weight is a stable permutation -/

theorem insertByWeight_perm (x : Weight) : ∀ l : List Weight, (insertByWeight x l).Perm (x :: l) := by
  intro l
  induction l with
  | nil => exact List.Perm.refl _
  | cons y ys ih =>
    simp only [insertByWeight]
    split
    · exact ((List.Perm.cons y ih).trans (List.Perm.swap x y ys))
    · exact List.Perm.refl _

theorem sortByWeight_perm : ∀ l : List Weight, (sortByWeight l).Perm l := by
  intro l
  induction l with
  | nil => exact List.Perm.refl _
  | cons x xs ih =>
    simp only [sortByWeight, List.foldr_cons]
    exact (insertByWeight_perm x _).trans (List.Perm.cons x ih)

theorem sortByWeight_length (l : List Weight) : (sortByWeight l).length = l.length :=
  (sortByWeight_perm l).length_eq

/-! ## T05.1 / T05.2 coefficients -/

theorem absR_eq_abs (x : Rat) : absR x = |x| := by
  unfold absR
  split
  · rename_i h; rw [abs_of_neg h]
  · rename_i h; rw [abs_of_nonneg (not_lt.mp h)]

theorem abs_signR (x : Rat) (h : x ≠ 0) : |signR x| = 1 := by
  unfold signR
  split
  · simp
  · simp [h]

/-- `|coefficient| = (weight / total) · κ` whenever the chosen maps' coefficient product is non-zero -/
theorem abs_coeffOf (bases : List Basis) (total kappa : Rat) (w : Weight)
    (hw : 0 ≤ w.w) (ht : 0 < total) (hk : 0 ≤ kappa) (ha : actualCoeff bases w.key ≠ 0) :
    |coeffOf bases total kappa w| = (w.w / total) * kappa := by
  unfold coeffOf
  rw [abs_mul, abs_mul, abs_signR _ ha, mul_one, abs_of_nonneg (div_nonneg hw (le_of_lt ht)), abs_of_nonneg hk]

/-- **T05.1** the absolute values of the coefficients sum to the product of the kappas
(for any weights that are non-negative, not all zero, and only hit maps with non-zero coefficient product). -/
theorem sum_abs_coeff (bases : List Basis) (kappa : Rat) (ws : List Weight)
    (hw : ∀ w ∈ ws, 0 ≤ w.w) (ht : 0 < (ws.map (·.w)).sum) (hk : 0 ≤ kappa)
    (ha : ∀ w ∈ ws, actualCoeff bases w.key ≠ 0) :
    ((sortByWeight ws).map (fun w => |coeffOf bases (ws.map (·.w)).sum kappa w|)).sum = kappa := by
  have hperm := sortByWeight_perm ws
  rw [(hperm.map _).sum_eq]
  have : ws.map (fun w => |coeffOf bases (ws.map (·.w)).sum kappa w|) =
      ws.map (fun w => w.w * (kappa / (ws.map (·.w)).sum)) := by
    apply List.map_congr_left
    intro w hwm
    rw [abs_coeffOf bases _ kappa w (hw w hwm) ht hk (ha w hwm)]
    field_simp
  rw [this, List.sum_map_mul_right]
  field_simp

/-- the sign of a coefficient is the sign of the product of the chosen maps' coefficients -/
theorem sign_coeffOf (bases : List Basis) (total kappa : Rat) (w : Weight)
    (hw : 0 < w.w) (ht : 0 < total) (hk : 0 < kappa) :
    signR (coeffOf bases total kappa w) = signR (actualCoeff bases w.key) := by
  unfold coeffOf
  have hpos : 0 < w.w / total * kappa := mul_pos (div_pos hw ht) hk
  generalize actualCoeff bases w.key = a
  have e : w.w / total * (kappa * signR a) = (w.w / total * kappa) * signR a := by ring
  rw [e]
  generalize w.w / total * kappa = c at hpos
  by_cases h1 : a < 0
  · have hs : signR a = -1 := by simp [signR, h1]
    rw [hs]
    have : c * (-1) < 0 := by linarith
    simp only [signR, this, if_true]
  · by_cases h2 : a = 0
    · simp [signR, h2]
    · have hs : signR a = 1 := by simp [signR, h1, h2]
      rw [hs]
      have h3 : ¬ (c * 1 < 0) := by linarith
      have h4 : c * 1 ≠ 0 := by linarith
      simp only [signR, h3, h4, if_false]

/-- **T05.2** with exact weights (`w = |Π c| / κ`, total mass 1) the coefficient is the product of the map coefficients -/
theorem exact_coeff (bases : List Basis) (kappa : Rat) (w : Weight) (hk : kappa ≠ 0)
    (hw : w.w = |actualCoeff bases w.key| / kappa) :
    coeffOf bases 1 kappa w = actualCoeff bases w.key := by
  unfold coeffOf
  rw [hw]
  generalize actualCoeff bases w.key = a
  unfold signR
  by_cases h1 : a < 0
  · simp only [h1, if_true, abs_of_neg h1]; field_simp
  · by_cases h2 : a = 0
    · simp [h2]
    · simp only [h1, h2, if_false, abs_of_nonneg (not_lt.mp h1)]; field_simp

/-! ## T05.3 counts and order -/

theorem forMR_length {α β : Type} (f : α → R β) : ∀ (l : List α) (r : List β), forMR f l = .ok r → r.length = l.length := by
  intro l
  induction l with
  | nil => intro r h; simp [forMR] at h; subst h; rfl
  | cons a as ih =>
    intro r h
    simp only [forMR] at h
    split at h
    · cases h
    · split at h
      · rename_i bs hbs
        injection h with h; subst h
        simp [ih bs hbs]
      · cases h

theorem forMR_mem {α β : Type} (f : α → R β) : ∀ (l : List α) (r : List β), forMR f l = .ok r →
    ∀ b ∈ r, ∃ a ∈ l, f a = .ok b := by
  intro l
  induction l with
  | nil => intro r h b hb; simp [forMR] at h; subst h; cases hb
  | cons a as ih =>
    intro r h b hb
    simp only [forMR] at h
    split at h
    · cases h
    · rename_i b0 hb0
      split at h
      · rename_i bs hbs
        injection h with h; subst h
        rcases List.mem_cons.1 hb with rfl | hb
        · exact ⟨a, by simp, hb0⟩
        · obtain ⟨a', ha', hf⟩ := ih bs hbs b hb
          exact ⟨a', by simp [ha'], hf⟩
      · cases h

/-- **T05.3** one coefficient per sampled joint map, and for every partition exactly
`#coefficients × #groups` circuits (sample-major: circuit `i·G + g` belongs to sample `i`, group `g`). -/
theorem counts (table : List Basis) (parts : List PartIn) (sep : Bool) (ws : List Weight) (o : ExperimentsOut)
    (h : generateExperiments table parts sep ws = .ok o) :
    o.coefficients.length = ws.length ∧
    ∀ e ∈ o.experiments, ∃ p ∈ parts, e.1 = p.label ∧ e.2.length = ws.length * p.groups.length := by
  unfold generateExperiments at h
  simp only at h
  split at h
  · cases h
  · rename_i ps baseRefs hprep
    split at h
    · cases h
    · rename_i exps hexps
      injection h with h; subst h
      refine ⟨by simp [sortByWeight_length], ?_⟩
      intro e he
      obtain ⟨x, hx, hfx⟩ := forMR_mem _ _ _ hexps e he
      -- x.1 is one of the input parts
      have hxp : x.1 ∈ parts := by
        by_cases hs : sep = true
        · simp only [hs, if_true] at hprep
          split at hprep
          · cases hprep
          · rename_i ps' hps'
            injection hprep with hprep
            have : ps = ps' := (Prod.mk.inj hprep).1.symm
            subst this
            obtain ⟨a, ha, hfa⟩ := forMR_mem _ _ _ hps' x hx
            split at hfa
            · injection hfa with hfa; rw [← hfa]; exact ha
            · cases hfa
        · simp only [hs, Bool.false_eq_true, if_false] at hprep
          split at hprep
          · rename_i p
            split at hprep
            · cases hprep
            · injection hprep with hprep
              have := (Prod.mk.inj hprep).1
              subst this
              simp at hx; subst hx; simp
          · cases hprep
      refine ⟨x.1, hxp, ?_⟩
      split at hfx
      · rename_i css hcss
        injection hfx with hfx; subst hfx
        refine ⟨rfl, ?_⟩
        have hl := forMR_length _ _ _ hcss
        have hall : ∀ cs ∈ css, cs.length = x.1.groups.length := by
          intro cs hcs
          obtain ⟨w, _, hw⟩ := forMR_mem _ _ _ hcss cs hcs
          exact forMR_length _ _ _ hw
        rw [List.length_flatten]
        have : css.map List.length = List.replicate css.length x.1.groups.length := by
          apply List.eq_replicate_iff.2
          refine ⟨by simp, ?_⟩
          intro n hn
          simp only [List.mem_map] at hn
          obtain ⟨cs, hcs, rfl⟩ := hn
          exact hall cs hcs
        rw [this, List.sum_replicate, hl, sortByWeight_length]
        simp
      · cases hfx

end CKT.C05
