import CKT.Props.C08ConvW
import CKT.Props.C07Gen
/-!
# C08 — the search actions the C08 theorems are about are the translated source

`C07Gen.run_eq_model` / `C07Gen.actionList_translated`: the hand-written actions `applyGate`, `cutGate`, `cutLeft`, `cutRight`, `cutBoth` and the
order of `actionList` are what `harness/translate/actions.py` reads off `cut_finding/cutting_actions.py` on every run.  Restated for the
successor function of the search: the children of a state are the results of the translated programs that are switched on.
-/
namespace CKT.C08Gen
open CKT CKT.CF CKT.CutIR CKT.Generated

/-- `nextStates` in terms of the translated programs -/
theorem nextStates_translated (cfg : Settings) (gates : List Gate) (W : Nat) (s : St) (g : Gate) (hg : gates[s.level]? = some g)
    (h2 : g.qubits.length = 2) :
    nextStates cfg gates W s = .ok (((cutActions.filter (enabled cfg)).map fun a => run a s g W).filterMap id) := by
  unfold nextStates
  rw [hg]
  simp only [h2, ne_eq, not_true_eq_false, if_false]
  rw [← C07Gen.actionList_translated cfg s g W, List.filterMap_map]
  rfl

end CKT.C08Gen
