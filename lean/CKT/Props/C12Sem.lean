import CKT.Props.C12
/-!
# C12 / C19 — semantic half: the reset optimisations never change the measurement statistics

The statement is proved for **every** semantics of instruction lists that obeys four laws (`ResetSem`); states are
abstract (density operator of the quantum register together with the classical register):

* `comm`  — a reset commutes with any instruction that does not act on the reset qubit (a reset uses no classical bit);
* `idem`  — resetting twice is resetting once;
* `init_fixed` — the initial state is invariant under every reset (all qubits start in |0⟩);
* `obs_reset`  — the observation (distribution of the classical register) is blind to a reset (a reset is trace
                 preserving and writes no classical bit).

That the density-matrix semantics of Qiskit circuits obeys the four laws is standard quantum mechanics; it is *not*
proved here (the harness checks the conclusion numerically on every generated program: `harness/props/c12.py`).  The laws
are satisfiable by a semantics in which resets matter (`classical`: reversible classical circuits), and the conclusion
fails there for an arbitrary deleted reset (last `example`), so the theorem is not vacuous.
The two transpiler passes (`RemoveFinalReset`, `ConsolidateResets`) are characterised per wire in `Props/C12`; their
semantic soundness is validated by simulation only.
-/
namespace CKT.C12Sem
open CKT CKT.ResetsAux

/-- the qubit a reset acts on (as the implementation reads it: first qubit argument) -/
def rq (i : Instr) : Nat := i.qubits.headD 0

structure ResetSem (S O : Type) where
  ap   : Instr → S → S
  init : S
  obs  : S → O
  comm : ∀ (r i : Instr) (s : S), isReset r = true → rq r ∉ i.qubits → ap r (ap i s) = ap i (ap r s)
  idem : ∀ (r r' : Instr) (s : S), isReset r = true → isReset r' = true → rq r = rq r' → ap r' (ap r s) = ap r s
  init_fixed : ∀ (r : Instr), isReset r = true → ap r init = init
  obs_reset : ∀ (r : Instr) (s : S), isReset r = true → obs (ap r s) = obs s

variable {S O : Type} (M : ResetSem S O)

def run (l : List Instr) (s : S) : S := l.foldl (fun s i => M.ap i s) s

@[simp] theorem run_nil (s : S) : run M [] s = s := rfl
@[simp] theorem run_cons (i : Instr) (l : List Instr) (s : S) : run M (i :: l) s = run M l (M.ap i s) := rfl
theorem run_append (a b : List Instr) (s : S) : run M (a ++ b) s = run M b (run M a s) := by
  simp [run, List.foldl_append]

/-- every reset of qubit `q` leaves `s` unchanged (`q` is in |0⟩ and uncorrelated) -/
def Fixed (q : Nat) (s : S) : Prop := ∀ r : Instr, isReset r = true → rq r = q → M.ap r s = s

theorem fixed_after_reset (r : Instr) (hr : isReset r = true) (s : S) : Fixed M (rq r) (M.ap r s) :=
  fun r' hr' hq => M.idem r r' s hr hr' hq.symm

theorem fixed_preserved (q : Nat) (i : Instr) (s : S) (hq : q ∉ i.qubits) (h : Fixed M q s) : Fixed M q (M.ap i s) := by
  intro r hr hrq
  rw [M.comm r i s hr (hrq ▸ hq), h r hr hrq]

theorem reset_qubits {nq : Nat} {i : Instr} {l : List Instr} (hwf : WF nq (i :: l)) (hr : isReset i = true) :
    i.qubits = [rq i] := by
  obtain ⟨q, hq⟩ := (hwf i (List.mem_cons_self ..)).2 hr
  simp [rq, hq]

/-! ## resets of untouched qubits -/

theorem removeInitialGo_run (nq : Nat) : ∀ (l : List Instr) (A : List Nat) (s : S), WF nq l →
    (∀ q, q ∉ A → Fixed M q s) → run M (removeInitialGo nq l A) s = run M l s := by
  intro l
  induction l with
  | nil => intro A s _ _; rfl
  | cons i rest ih =>
    intro A s hwf hfix
    unfold removeInitialGo
    by_cases hr : isReset i = true
    · simp only [hr, if_true]
      have hqs := reset_qubits hwf hr
      by_cases hA : A.contains (i.qubits.headD 0) = true
      · simp only [hA, if_true, run_cons]
        apply ih _ _ hwf.tail
        intro q hq
        by_cases hqi : q = rq i
        · subst hqi; exact fixed_after_reset M i hr s
        · exact fixed_preserved M q i s (by rw [hqs]; simpa using hqi) (hfix q hq)
      · have hA' : A.contains (i.qubits.headD 0) = false := by simpa using hA
        simp only [hA', Bool.false_eq_true, if_false, run_cons]
        have hq : rq i ∉ A := by simpa [rq] using hA'
        rw [hfix (rq i) hq i hr rfl]
        exact ih A s hwf.tail hfix
    · have hr' : isReset i = false := by simpa using hr
      simp only [hr', Bool.false_eq_true, if_false]
      split
      · rfl
      · simp only [run_cons]
        apply ih _ _ hwf.tail
        intro q hq
        have hq' : q ∉ A ∧ q ∉ i.qubits := by
          rw [mem_addAll] at hq; exact not_or.1 hq
        exact fixed_preserved M q i s hq'.2 (hfix q hq'.1)

theorem removeInitial_run (nq : Nat) (l : List Instr) (hwf : WF nq l) :
    run M (removeInitialResets nq l) M.init = run M l M.init :=
  removeInitialGo_run M nq l [] M.init hwf (fun _ _ r hr _ => M.init_fixed r hr)

/-! ## merging consecutive resets (from any state) -/

theorem consolidateGo_run (nq : Nat) : ∀ (l : List Instr) (F : List Nat) (s : S), WF nq l →
    (∀ q ∈ F, Fixed M q s) → run M (consolidateGo l F) s = run M l s := by
  intro l
  induction l with
  | nil => intro F s _ _; rfl
  | cons i rest ih =>
    intro F s hwf hfix
    unfold consolidateGo
    by_cases hr : isReset i = true
    · simp only [hr, if_true]
      have hqs := reset_qubits hwf hr
      by_cases hF : F.contains (i.qubits.headD 0) = true
      · simp only [hF, if_true, run_cons]
        have hq : rq i ∈ F := by simpa [rq] using hF
        rw [hfix (rq i) hq i hr rfl]
        exact ih F s hwf.tail hfix
      · have hF' : F.contains (i.qubits.headD 0) = false := by simpa using hF
        simp only [hF', Bool.false_eq_true, if_false, run_cons]
        apply ih _ _ hwf.tail
        intro q hq
        rcases List.mem_cons.1 hq with rfl | hq
        · exact fixed_after_reset M i hr s
        · by_cases hqi : q = rq i
          · subst hqi; exact fixed_after_reset M i hr s
          · exact fixed_preserved M q i s (by rw [hqs]; simpa using hqi) (hfix q hq)
    · have hr' : isReset i = false := by simpa using hr
      simp only [hr', Bool.false_eq_true, if_false, run_cons]
      apply ih _ _ hwf.tail
      intro q hq
      rw [List.mem_filter] at hq
      exact fixed_preserved M q i s (by simpa using hq.2) (hfix q hq.1)

theorem consolidate_run (nq : Nat) (l : List Instr) (hwf : WF nq l) (s : S) :
    run M (consolidateResets l) s = run M l s :=
  consolidateGo_run M nq l [] s hwf (by simp)

/-! ## resets after which nothing happens on the qubit (observation only) -/

/-- the observation continuation `K` is blind to resets of the qubits in `E` -/
def Blind (K : S → O) (E : List Nat) : Prop := ∀ (r : Instr) (s : S), isReset r = true → rq r ∈ E → K (M.ap r s) = K s

theorem removeFinalGo_run (nq : Nat) : ∀ (l : List Instr) (E : List Nat) (K : S → O) (s : S), WF nq l →
    Blind M K E → K (run M (removeFinalGo l E).reverse s) = K (run M l.reverse s) := by
  intro l
  induction l with
  | nil => intro E K s _ _; rfl
  | cons i rest ih =>
    intro E K s hwf hK
    unfold removeFinalGo
    by_cases hr : isReset i = true
    · simp only [hr, if_true]
      have hqs := reset_qubits hwf hr
      by_cases hE : E.contains (i.qubits.headD 0) = true
      · simp only [hE, if_true, List.reverse_cons, run_append, run_cons, run_nil]
        have hq : rq i ∈ E := by simpa [rq] using hE
        rw [hK i _ hr hq]
        exact ih E K s hwf.tail hK
      · have hE' : E.contains (i.qubits.headD 0) = false := by simpa using hE
        have hq : rq i ∉ E := by simpa [rq] using hE'
        simp only [hE', Bool.false_eq_true, if_false, List.reverse_cons, run_append, run_cons, run_nil]
        apply ih E (fun x => K (M.ap i x)) s hwf.tail
        intro r x hr' hrE
        have hne : rq r ∉ i.qubits := by
          rw [hqs]; simp; intro h; exact hq (h ▸ hrE)
        show K (M.ap i (M.ap r x)) = K (M.ap i x)
        rw [← M.comm r i x hr' hne, hK r _ hr' hrE]
    · have hr' : isReset i = false := by simpa using hr
      simp only [hr', Bool.false_eq_true, if_false]
      split
      · rfl
      · simp only [List.reverse_cons, run_append, run_cons, run_nil]
        apply ih _ (fun x => K (M.ap i x)) s hwf.tail
        intro r x hr'' hrE
        rw [List.mem_filter] at hrE
        have hne : rq r ∉ i.qubits := by simpa using hrE.2
        show K (M.ap i (M.ap r x)) = K (M.ap i x)
        rw [← M.comm r i x hr'' hne, hK r _ hr'' hrE.1]

theorem removeFinal_obs (nq : Nat) (l : List Instr) (hwf : WF nq l) (s : S) :
    M.obs (run M (removeFinalResets nq l) s) = M.obs (run M l s) := by
  have := removeFinalGo_run M nq l.reverse (List.range nq) M.obs s hwf.reverse
    (fun r x hr _ => M.obs_reset r x hr)
  simpa [removeFinalResets] using this

/-- **T12.3** the three optimisations, in the order `generate_cutting_experiments` applies them, leave the measurement
statistics of every well-formed program unchanged — for every semantics obeying the four laws. -/
theorem optimizeResets_obs (nq : Nat) (l : List Instr) (hwf : WF nq l) :
    M.obs (run M (optimizeResets nq l) M.init) = M.obs (run M l M.init) := by
  have w1 : WF nq (removeInitialResets nq l) := C12.WF_of_only (C12.removeInitial_only nq l) hwf
  have w2 : WF nq (removeFinalResets nq (removeInitialResets nq l)) := C12.WF_of_only (C12.removeFinal_only nq _) w1
  unfold optimizeResets
  rw [consolidate_run M nq _ w2, removeFinal_obs M nq _ w1, removeInitial_run M nq l hwf]

/-- each pass on its own: merging consecutive resets and dropping trailing resets are sound from *any* start state,
dropping leading resets from the initial state -/
theorem each_pass_obs (nq : Nat) (l : List Instr) (hwf : WF nq l) (s : S) :
    M.obs (run M (consolidateResets l) s) = M.obs (run M l s) ∧
    M.obs (run M (removeFinalResets nq l) s) = M.obs (run M l s) ∧
    M.obs (run M (removeInitialResets nq l) M.init) = M.obs (run M l M.init) :=
  ⟨by rw [consolidate_run M nq l hwf], removeFinal_obs M nq l hwf s, by rw [removeInitial_run M nq l hwf]⟩

/-! ## the laws are satisfiable by a semantics in which resets matter: classical reversible circuits -/

/-- qubit values and classical register -/
abbrev CS := (Nat → Bool) × (Nat → Bool)

def upd (f : Nat → Bool) (k : Nat) (v : Bool) : Nat → Bool := fun j => if j = k then v else f j

def capply (i : Instr) (s : CS) : CS :=
  if i.name == "reset" then (upd s.1 (rq i) false, s.2)
  else match i.name, i.qubits with
    | "x", [q] => (upd s.1 q (!s.1 q), s.2)
    | "cx", [c, t] => if c = t then s else (upd s.1 t (xor (s.1 t) (s.1 c)), s.2)
    | "measure", [q] => (s.1, upd s.2 (i.clbits.headD 0) (s.1 q))
    | _, _ => s

theorem upd_comm (f : Nat → Bool) (a b : Nat) (x y : Bool) (h : a ≠ b) : upd (upd f a x) b y = upd (upd f b y) a x := by
  funext j; unfold upd; by_cases h1 : j = a <;> by_cases h2 : j = b <;> simp_all

def classical : ResetSem CS (Nat → Bool) where
  ap := capply
  init := (fun _ => false, fun _ => false)
  obs := fun s => s.2
  comm := by
    intro r i s hr hq
    have hrn : r.name = "reset" := by simpa [isReset] using hr
    unfold capply
    simp only [hrn, beq_self_eq_true, if_true]
    by_cases h1 : i.name = "reset"
    · simp only [h1, beq_self_eq_true, if_true]
      by_cases hne : rq r = rq i
      · simp [hne]
      · simp [upd_comm _ _ _ _ _ hne]
    · have h1' : (i.name == "reset") = false := by simpa using h1
      simp only [h1', Bool.false_eq_true, if_false]
      split
      · rename_i q _ hq'
        have : rq r ≠ q := by intro h; apply hq; simp [hq', h]
        rw [upd_comm _ _ _ _ _ this.symm]; simp [upd, this.symm]
      · rename_i c t _ hq'
        have h2 : rq r ≠ c ∧ rq r ≠ t := by
          constructor <;> intro h <;> apply hq <;> simp [hq', h]
        by_cases hct : c = t
        · simp [hct]
        · simp only [hct, if_false]; rw [upd_comm _ _ _ _ _ h2.2.symm]; simp [upd, h2.1.symm, h2.2.symm]
      · rename_i q _ hq'
        have : rq r ≠ q := by intro h; apply hq; simp [hq', h]
        simp [upd, this.symm]
      · rfl
  idem := by
    intro r r' s hr hr' hq
    have hrn : r.name = "reset" := by simpa [isReset] using hr
    have hrn' : r'.name = "reset" := by simpa [isReset] using hr'
    unfold capply
    simp only [hrn, hrn', beq_self_eq_true, if_true, ← hq]
    congr 1
    funext j; unfold upd; by_cases h : j = rq r <;> simp [h]
  init_fixed := by
    intro r hr
    have hrn : r.name = "reset" := by simpa [isReset] using hr
    unfold capply
    simp only [hrn, beq_self_eq_true, if_true]
    congr 1
    funext j; unfold upd; by_cases h : j = rq r <;> simp [h]
  obs_reset := by
    intro r s hr
    have hrn : r.name = "reset" := by simpa [isReset] using hr
    unfold capply
    simp [hrn]

private def x0 : Instr := { name := "x", qubits := [0] }
private def r0 : Instr := { name := "reset", qubits := [0] }
private def m0 : Instr := { name := "measure", qubits := [0], clbits := [0] }

/-- resets matter in this semantics: deleting the reset of `x; reset; measure` changes the observation … -/
example : classical.obs (run classical [x0, r0, m0] classical.init) 0 = false ∧
    classical.obs (run classical [x0, m0] classical.init) 0 = true := by decide
/-- … while the optimisations only delete the harmless ones -/
example : (optimizeResets 1 [r0, x0, r0, r0, m0, r0]).map (·.name) = ["x", "reset", "measure"] := by decide

end CKT.C12Sem
