import CKT.Props.C13
/-!
# C13 — the returned distribution (`collect`): every outcome once, in increasing order, values adding up to the total
`simulate_total`: for a lawful backend the probabilities returned by the exact sampler add up to the squared norm of the
initial state, each outcome key being listed exactly once (`collect_keys`: strictly increasing, exactly the keys of the branches).
-/
namespace CKT.C13
open CKT CKT.Sampler

variable {V : Type}

def dedupKeys (ks : List Nat) : List Nat := ks.foldl (fun acc k => if k ∈ acc then acc else acc ++ [k]) []
def sortKeys (ks : List Nat) : List Nat :=
  ks.foldl (fun acc k => (acc.filter (· < k)) ++ [k] ++ (acc.filter (fun x => !(x < k)))) []

theorem collect_eq (B : Backend V) (bs : List (Branch V)) :
    collect B bs = (sortKeys (dedupKeys (bs.map (·.1)))).map fun k => (k, ((bs.filter (·.1 = k)).map (fun b => B.norm2 b.2)).sum) := rfl

theorem dedup_spec : ∀ (ks acc : List Nat), acc.Nodup →
    (ks.foldl (fun acc k => if k ∈ acc then acc else acc ++ [k]) acc).Nodup ∧
    ∀ x, x ∈ ks.foldl (fun acc k => if k ∈ acc then acc else acc ++ [k]) acc ↔ x ∈ acc ∨ x ∈ ks := by
  intro ks
  induction ks with
  | nil => intro acc h; exact ⟨h, by simp⟩
  | cons k ks ih =>
    intro acc h
    simp only [List.foldl_cons]
    by_cases hk : k ∈ acc
    · simp only [hk, if_true]
      obtain ⟨h1, h2⟩ := ih acc h
      refine ⟨h1, fun x => ?_⟩
      rw [h2 x]
      constructor
      · rintro (h | h); exact Or.inl h; exact Or.inr (List.mem_cons_of_mem _ h)
      · rintro (h | h)
        · exact Or.inl h
        · rcases List.mem_cons.1 h with rfl | h
          · exact Or.inl hk
          · exact Or.inr h
    · simp only [hk, if_false]
      have hnd : (acc ++ [k]).Nodup := by
        rw [List.nodup_append]
        exact ⟨h, by simp, by intro a ha b hb; simp at hb; subst hb; exact fun e => hk (e ▸ ha)⟩
      obtain ⟨h1, h2⟩ := ih (acc ++ [k]) hnd
      refine ⟨h1, fun x => ?_⟩
      rw [h2 x]
      simp only [List.mem_append, List.mem_cons, List.mem_nil_iff, or_false]
      tauto

theorem dedupKeys_spec (ks : List Nat) : (dedupKeys ks).Nodup ∧ ∀ x, x ∈ dedupKeys ks ↔ x ∈ ks := by
  have := dedup_spec ks [] List.nodup_nil
  exact ⟨this.1, fun x => by rw [dedupKeys, this.2 x]; simp⟩

theorem sort_spec : ∀ (ks acc : List Nat), acc.Pairwise (· < ·) → (acc ++ ks).Nodup →
    (ks.foldl (fun acc k => (acc.filter (· < k)) ++ [k] ++ (acc.filter (fun x => !(x < k)))) acc).Pairwise (· < ·) ∧
    ∀ x, x ∈ ks.foldl (fun acc k => (acc.filter (· < k)) ++ [k] ++ (acc.filter (fun x => !(x < k)))) acc ↔ x ∈ acc ∨ x ∈ ks := by
  intro ks
  induction ks with
  | nil => intro acc h _; exact ⟨h, by simp⟩
  | cons k ks ih =>
    intro acc hs hnd
    simp only [List.foldl_cons]
    have hk : k ∉ acc := by
      intro hm
      rw [List.nodup_append] at hnd
      exact hnd.2.2 k hm k (by simp) rfl
    have hmem : ∀ x, x ∈ (acc.filter (· < k)) ++ [k] ++ (acc.filter (fun x => !(x < k))) ↔ x ∈ acc ∨ x = k := by
      intro x
      simp only [List.mem_append, List.mem_filter, List.mem_cons, List.mem_nil_iff, or_false, decide_eq_true_eq, Bool.not_eq_true',
        decide_eq_false_iff_not]
      constructor
      · rintro ((⟨h, _⟩ | h) | ⟨h, _⟩)
        · exact Or.inl h
        · exact Or.inr h
        · exact Or.inl h
      · rintro (h | h)
        · by_cases hx : x < k
          · exact Or.inl (Or.inl ⟨h, hx⟩)
          · exact Or.inr ⟨h, hx⟩
        · exact Or.inl (Or.inr h)
    have hsorted : ((acc.filter (· < k)) ++ [k] ++ (acc.filter (fun x => !(x < k)))).Pairwise (· < ·) := by
      rw [List.pairwise_append, List.pairwise_append]
      refine ⟨⟨hs.filter _, by simp, ?_⟩, hs.filter _, ?_⟩
      · intro a ha b hb
        simp at hb; subst hb
        simpa using (List.mem_filter.1 ha).2
      · intro a ha b hb
        have hb' := List.mem_filter.1 hb
        have hbk : ¬ b < k := by simpa using hb'.2
        have hbne : b ≠ k := fun e => hk (e ▸ hb'.1)
        rcases List.mem_append.1 ha with ha | ha
        · have : a < k := by simpa using (List.mem_filter.1 ha).2
          omega
        · simp at ha; subst ha; omega
    have hnd' : (((acc.filter (· < k)) ++ [k] ++ (acc.filter (fun x => !(x < k)))) ++ ks).Nodup := by
      rw [List.nodup_append]
      rw [List.nodup_append] at hnd
      refine ⟨hsorted.imp (fun h => Nat.ne_of_lt h), (List.nodup_cons.1 hnd.2.1).2, ?_⟩
      intro a ha b hb
      rcases (hmem a).1 ha with h | h
      · exact hnd.2.2 a h b (List.mem_cons_of_mem _ hb)
      · subst h; exact fun e => (List.nodup_cons.1 hnd.2.1).1 (e ▸ hb)
    obtain ⟨h1, h2⟩ := ih _ hsorted hnd'
    refine ⟨h1, fun x => ?_⟩
    rw [h2 x, hmem x]
    simp only [List.mem_cons]
    tauto

theorem sortKeys_spec (ks : List Nat) (h : ks.Nodup) : (sortKeys ks).Pairwise (· < ·) ∧ ∀ x, x ∈ sortKeys ks ↔ x ∈ ks := by
  have := sort_spec ks [] List.Pairwise.nil (by simpa using h)
  exact ⟨this.1, fun x => by rw [sortKeys, this.2 x]; simp⟩

/-- the outcome keys of the result are strictly increasing (each listed once) and are exactly the keys of the branches -/
theorem collect_keys (B : Backend V) (bs : List (Branch V)) :
    ((collect B bs).map (·.1)).Pairwise (· < ·) ∧ ∀ k, k ∈ (collect B bs).map (·.1) ↔ ∃ b ∈ bs, b.1 = k := by
  rw [collect_eq]
  obtain ⟨hnd, hmem⟩ := dedupKeys_spec (bs.map (·.1))
  obtain ⟨hs, hm2⟩ := sortKeys_spec _ hnd
  simp only [List.map_map, Function.comp_def, List.map_id']
  refine ⟨hs, fun k => ?_⟩
  rw [hm2 k, hmem k]
  simp

theorem sum_indicator_rat (K : List Nat) (hn : K.Nodup) (a : Nat) (ha : a ∈ K) (c : Rat) :
    (K.map (fun k => if a = k then c else 0)).sum = c := by
  induction K with
  | nil => cases ha
  | cons x K ih =>
    have hn' := List.nodup_cons.1 hn
    simp only [List.map_cons, List.sum_cons]
    rcases List.mem_cons.1 ha with rfl | ha'
    · have : (K.map (fun k => if a = k then c else 0)).sum = 0 := by
        apply List.sum_eq_zero
        intro y hy
        obtain ⟨k, hk, rfl⟩ := List.mem_map.1 hy
        have : a ≠ k := fun e => hn'.1 (e ▸ hk)
        simp [this]
      simp [this]
    · have : a ≠ x := fun e => hn'.1 (e ▸ ha')
      simp [this, ih hn'.2 ha']

theorem sum_by_key (f : Branch V → Rat) : ∀ (bs : List (Branch V)) (K : List Nat), K.Nodup → (∀ b ∈ bs, b.1 ∈ K) →
    (K.map (fun k => ((bs.filter (·.1 = k)).map f).sum)).sum = (bs.map f).sum := by
  intro bs
  induction bs with
  | nil => intro K _ _; simp
  | cons b rest ih =>
    intro K hn hmem
    have hb : b.1 ∈ K := hmem b (by simp)
    have hrest : ∀ b' ∈ rest, b'.1 ∈ K := fun b' h => hmem b' (List.mem_cons_of_mem _ h)
    have hstep : ∀ k, (((b :: rest).filter (·.1 = k)).map f).sum =
        (if b.1 = k then f b else 0) + ((rest.filter (·.1 = k)).map f).sum := by
      intro k
      by_cases h : b.1 = k <;> simp [List.filter_cons, h]
    simp only [hstep]
    rw [List.sum_map_add, sum_indicator_rat K hn b.1 hb (f b), ih K hn hrest]
    simp

/-- the values returned add up to the total probability of all branches -/
theorem collect_sum (B : Backend V) (bs : List (Branch V)) : ((collect B bs).map (·.2)).sum = total B bs := by
  rw [collect_eq]
  obtain ⟨hnd, hmem⟩ := dedupKeys_spec (bs.map (·.1))
  obtain ⟨hs, hm2⟩ := sortKeys_spec _ hnd
  simp only [List.map_map, Function.comp_def]
  have hK : (sortKeys (dedupKeys (bs.map (·.1)))).Nodup := hs.imp (fun h => Nat.ne_of_lt h)
  have := sum_by_key (fun b => B.norm2 b.2) bs _ hK (fun b hb => by
    rw [hm2, hmem]; exact List.mem_map.2 ⟨b, hb, rfl⟩)
  simpa [total] using this

/-- **T13.2 for the returned distribution** the probabilities returned by the exact sampler add up to the squared norm of the initial
state (one), with every outcome listed once, in increasing order -/
theorem simulate_total (B : Backend V) (hB : Lawful B) (init : V) (instrs : List SInstr) (out : List (Nat × Rat))
    (h : simulate B 0 init instrs = .ok out) :
    (out.map (·.2)).sum = B.norm2 init ∧ (out.map (·.1)).Pairwise (· < ·) := by
  unfold simulate at h
  simp only [bind, Except.bind] at h
  cases hr : run B 0 init instrs with
  | error e => rw [hr] at h; cases h
  | ok bs =>
    rw [hr] at h
    injection h with h
    subst h
    exact ⟨by rw [collect_sum, run_total B hB init instrs bs hr], (collect_keys B bs).1⟩

end CKT.C13
