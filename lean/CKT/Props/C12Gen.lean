import CKT.Generated.ResetScans
import CKT.Props.C12Pass
/-!
# C12 / C19 — the model's reset optimisations are the translated source

`CKT.Generated.removeInitialSpec`, `removeFinalSpec`, `consolidateSpec` are produced on every run from the three functions of
`cutting_experiments.py` (Python AST → `ScanSpec`).  The generic scan on them is the hand-written model the C12 / C19 / C05 theorems are about.
-/
namespace CKT.C12Gen
open CKT CKT.Generated

theorem removeInitialGo_translated (nq : Nat) : ∀ (l : List Instr) (set : List Nat),
    scanGo removeInitialSpec nq l set = removeInitialGo nq l set
  | [], _ => rfl
  | i :: rest, set => by
    have ih := removeInitialGo_translated nq rest
    unfold scanGo removeInitialGo
    simp only [show removeInitialSpec.removeWhenIn = false from rfl, show removeInitialSpec.resetAdds = false from rfl,
      show removeInitialSpec.otherAdds = true from rfl, show removeInitialSpec.exitWhen = some true from rfl, ih]
    by_cases hr : isReset i = true <;> by_cases hc : set.contains (i.qubits.headD 0) = true <;>
      by_cases he : ((addAll set i.qubits).length == nq) = true <;> simp [hr, hc, he]

theorem removeFinalGo_translated (nq : Nat) : ∀ (l : List Instr) (set : List Nat),
    scanGo removeFinalSpec nq l set = removeFinalGo l set
  | [], _ => rfl
  | i :: rest, set => by
    have ih := removeFinalGo_translated nq rest
    unfold scanGo removeFinalGo
    simp only [show removeFinalSpec.removeWhenIn = true from rfl, show removeFinalSpec.resetAdds = false from rfl,
      show removeFinalSpec.otherAdds = false from rfl, show removeFinalSpec.exitWhen = some false from rfl, ih]
    by_cases hr : isReset i = true <;> by_cases hc : set.contains (i.qubits.headD 0) = true <;>
      by_cases he : (set.filter fun q => !i.qubits.contains q).isEmpty = true <;> simp [hr, hc, he]

theorem consolidateGo_translated (nq : Nat) : ∀ (l : List Instr) (set : List Nat),
    scanGo consolidateSpec nq l set = consolidateGo l set
  | [], _ => rfl
  | i :: rest, set => by
    have ih := consolidateGo_translated nq rest
    unfold scanGo consolidateGo
    simp only [show consolidateSpec.removeWhenIn = true from rfl, show consolidateSpec.resetAdds = true from rfl,
      show consolidateSpec.otherAdds = false from rfl, show consolidateSpec.exitWhen = none from rfl, ih]
    by_cases hr : isReset i = true <;> by_cases hc : set.contains (i.qubits.headD 0) = true <;> simp [hr, hc]

/-- **the three model passes are the translated source** -/
theorem passes_translated (nq : Nat) (l : List Instr) :
    scan removeInitialSpec nq l = removeInitialResets nq l ∧
    scan removeFinalSpec nq l = removeFinalResets nq l ∧
    scan consolidateSpec nq l = consolidateResets l := by
  refine ⟨?_, ?_, ?_⟩
  · unfold scan
    simp only [show removeInitialSpec.reversed = false from rfl, show removeInitialSpec.initAll = false from rfl, Bool.false_eq_true, if_false]
    exact removeInitialGo_translated nq l []
  · unfold scan
    simp only [show removeFinalSpec.reversed = true from rfl, show removeFinalSpec.initAll = true from rfl, if_true]
    rw [removeFinalGo_translated nq l.reverse (List.range nq)]
    rfl
  · unfold scan
    simp only [show consolidateSpec.reversed = false from rfl, show consolidateSpec.initAll = false from rfl, Bool.false_eq_true, if_false]
    exact consolidateGo_translated nq l []

/-- the composition `generate_cutting_experiments` applies -/
theorem optimizeResets_translated (nq : Nat) (l : List Instr) :
    optimizeResets nq l = scan consolidateSpec nq (scan removeFinalSpec nq (scan removeInitialSpec nq l)) := by
  rw [(passes_translated nq l).1, (passes_translated nq _).2.1, (passes_translated nq _).2.2]
  rfl

end CKT.C12Gen
