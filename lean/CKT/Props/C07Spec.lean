import CKT.Props.C07Conn
import CKT.Props.C07Gen
import CKT.Props.C08ConvW
/-!
# C07 — the returned cuts respect the width limit in the *specification* (all kinds of cut)

`C07.reachable_width` / `C07Conn.connected_wires_le_width` bound the widths the model records.  `C08Wire.optimize_result_is_planW`
(Props/C08ConvW) identifies the state `optimize` returns with a plan of the specification — apply / gate cut / left, right or both-wires cut
per gate — whose subcircuits (classes of wires joined by the gates that are not gate-cut, a wire cut giving the qubit a fresh wire) have at
most `W` wires, whose overhead is the reported one and which uses only the kinds of cut the settings permit.  Restated here under C07's name.
-/
namespace CKT.C07
open CKT CKT.CF CKT.C08Wire

/-- **T07.1 at specification level**: whatever the limits and the random stream, the cuts `optimize` returns form a width-feasible plan with
the reported overhead, made of permitted kinds of cut only -/
theorem returned_cuts_feasible (cfg : Settings) (gates : List Gate) (n W : Nat) (hW : 1 ≤ W) (rnds : List Rat) (fuel : Nat) (r : Result)
    (hc : CircOKW gates n) (hn : (gates.map (·.idx)).Nodup) (hγ : ∀ g ∈ gates, ∀ x, g.gamma = some x → 1 ≤ x)
    (h : optimize cfg gates n W rnds fuel = .ok r) :
    ∃ p, Feasible gates p n W ∧ costUpTo gates p gates.length = r.best.gammaUB ∧ Allowed cfg p :=
  optimize_result_is_planW cfg gates n W hW rnds fuel r hc hn hγ h

end CKT.C07
