import CKT.Props.C08
import CKT.Props.C04
/-!
# C09 — cut finding is reproducible under a seed and independent of call history

The process-global state that the cut finder touches is made explicit: the action registry
(`disjoint_subcircuit_actions`), the two module-level function tables (`cut_optimization_search_funcs` in
`cut_optimization.py` and in `lo_cuts_optimizer.py`) and the decomposition registry.  A public call is a step
`Globals → Call → Globals × Out`.  The only writes any call performs are the `cast` re-assignments of the greedy pass
(`search_space_funcs.goal_state_func = cast(Callable, search_space_funcs.goal_state_func)` …), which store the value
just read.  Hence every step returns the globals it was given (`step_preserves`), and therefore the output of a call
is the same after any two histories (`history_independent`).  The random stream is an explicit argument of the model
(`findCuts … rnds`): it is `Generator(seed)`, never a global generator; and exact-weight generation never consults
the sampling oracle (`exact_weights_pure`, from C04).

What the model cannot exhibit is Python-level aliasing or interpreter state; that half is carried by the runtime
monitors of the correspondence run (fingerprints of the three global objects before/after every call, global RNG
states before/after, outputs across permuted histories and a fresh interpreter).
-/
namespace CKT.C09
open CKT CKT.CF

/-- identities of the five search-space functions held by a module-level `SearchFunctions` object -/
structure FnTable where
  cost : Nat
  next : Nat
  goal : Nat
  upper : Nat
  mincost : Option Nat
  deriving DecidableEq, Repr

structure Globals where
  actions : List String            -- registration order of the action objects
  tableCO : FnTable                -- cut_optimization.cut_optimization_search_funcs
  tableLO : FnTable                -- lo_cuts_optimizer.cut_optimization_search_funcs
  decomp : List String             -- names registered in `_qpdbasis_from_instruction_funcs`
  deriving DecidableEq, Repr

/-- the three `cast` assignments at the top of `greedy_best_first_search` -/
def greedyWrites (t : FnTable) : FnTable :=
  let t1 := { t with goal := t.goal }
  let t2 := { t1 with cost := t1.cost }
  { t2 with next := t2.next }

theorem greedyWrites_id (t : FnTable) : greedyWrites t = t := rfl

structure FindArgs where
  instrs : List CInstr
  nq : Nat
  cfg : Settings
  W : Nat
  seedStream : List Rat            -- `numpy.random.default_rng(seed)`: a function of the integer seed only
  fuel : Nat

inductive Call where
  | find (a : FindArgs)
  | exactWeights (rows : List (List Rat)) (atol : Rat)

inductive Out where
  | cuts (r : R Output)
  | weights (r : R (List Weight))

/-- one public call against the explicit global state: `find_cuts` runs its greedy pass over the table of
`lo_cuts_optimizer` (the default `search_engine_config`), which performs the writes above -/
def step (g : Globals) : Call → Globals × Out
  | .find a => ({ g with tableLO := greedyWrites g.tableLO }, .cuts (findCuts a.instrs a.nq a.cfg a.W a.seedStream a.fuel))
  | .exactWeights rows atol => (g, .weights (generateWeights rows none atol []))

theorem step_preserves (g : Globals) (c : Call) : (step g c).1 = g := by
  cases c <;> simp [step, greedyWrites_id]

def run (g : Globals) : List Call → Globals
  | [] => g
  | c :: cs => run (step g c).1 cs

theorem run_preserves (g : Globals) (h : List Call) : run g h = g := by
  induction h generalizing g with
  | nil => rfl
  | cons c cs ih => simp [run, step_preserves, ih]

/-- T09.1: the result of a call does not depend on the calls made before it -/
theorem history_independent (g : Globals) (h1 h2 : List Call) (c : Call) :
    (step (run g h1) c).2 = (step (run g h2) c).2 := by
  rw [run_preserves, run_preserves]

/-- T09.2: the same circuit, constraints and seed stream give the same circuit and metadata, whatever came before -/
theorem find_cuts_reproducible (g : Globals) (h1 h2 : List Call) (a : FindArgs) :
    (step (run g h1) (.find a)).2 = .cuts (findCuts a.instrs a.nq a.cfg a.W a.seedStream a.fuel) ∧
    (step (run g h2) (.find a)).2 = .cuts (findCuts a.instrs a.nq a.cfg a.W a.seedStream a.fuel) := by
  rw [run_preserves, run_preserves]; exact ⟨rfl, rfl⟩

/-- T09.3: exact (infinite-budget) weight generation never consults the sampling oracle -/
theorem exact_weights_pure (rows : List (List Rat)) (atol : Rat) (d1 d2 : Draws) :
    generateWeights rows none atol d1 = generateWeights rows none atol d2 :=
  (CKT.C04.infinite_budget rows atol d1 d2).2

/-- non-vacuity: a history that does exercise the greedy writes leaves a concrete global state unchanged -/
example : run ⟨["apply", "CutTwoQubitGate"], ⟨1, 2, 3, 4, some 5⟩, ⟨1, 2, 3, 4, some 5⟩, ["cx"]⟩
    [.find ⟨[⟨"cx", [0, 1], some 3⟩], 2, ⟨1024, none, true, true⟩, 1, [], 100⟩, .exactWeights [[1/2, 1/2]] 0]
    = ⟨["apply", "CutTwoQubitGate"], ⟨1, 2, 3, 4, some 5⟩, ⟨1, 2, 3, 4, some 5⟩, ["cx"]⟩ := by
  rw [run_preserves]

end CKT.C09
