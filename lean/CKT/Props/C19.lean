import CKT.Props.C12
/-!
# C19 — shape of subexperiments after the reset passes
T19.2: in every workflow, after the three passes no wire starts with a reset, none ends with a reset and
no two resets are adjacent on a wire.  (T19.1, reset-freeness for fresh-qubit Moves, is in `CKT.Props.C19Moves`.)
-/
namespace CKT.C19
open CKT CKT.ResetsAux CKT.C12

def NoAdjResets : List Instr → Prop
  | [] => True
  | [_] => True
  | a :: b :: rest => ¬(isReset a = true ∧ isReset b = true) ∧ NoAdjResets (b :: rest)

private theorem head_dropWhile (p : Instr → Bool) : ∀ (w : List Instr) (x : Instr), (w.dropWhile p).head? = some x → p x = false := by
  intro w
  induction w with
  | nil => intro x h; simp at h
  | cons a w ih =>
    intro x h
    rw [List.dropWhile_cons] at h
    split at h
    · exact ih x h
    · simp at h; subst h; simpa using ‹¬ p a = true›

private theorem last_rdropWhile (p : Instr → Bool) (w : List Instr) (x : Instr)
    (h : (rdropWhile' p w).getLast? = some x) : p x = false := by
  unfold rdropWhile' at h
  rw [List.getLast?_reverse] at h
  exact head_dropWhile p _ x h

private theorem dropWhile_append_of_notp (p : Instr → Bool) (a : Instr) (ha : p a = false) :
    ∀ (w : List Instr), ∃ w', (w ++ [a]).dropWhile p = w' ++ [a] := by
  intro w
  induction w with
  | nil => exact ⟨[], by simp [List.dropWhile_cons, ha]⟩
  | cons b w ih =>
    obtain ⟨w', hw'⟩ := ih
    by_cases hb : p b = true
    · exact ⟨w', by simp [List.dropWhile_cons, hb, hw']⟩
    · exact ⟨b :: w, by simp [List.dropWhile_cons, hb]⟩

private theorem head_rdropWhile (p : Instr → Bool) (a : Instr) (d : List Instr) (ha : p a = false) :
    ∃ d', rdropWhile' p (a :: d) = a :: d' := by
  unfold rdropWhile'
  rw [List.reverse_cons]
  obtain ⟨w', hw'⟩ := dropWhile_append_of_notp p a ha d.reverse
  exact ⟨w'.reverse, by rw [hw']; simp⟩

private theorem head_collapse : ∀ (w : List Instr), (collapseFrom false w).head? = w.head? := by
  intro w
  cases w with
  | nil => rfl
  | cons a w => simp only [collapseFrom]; split <;> simp

private theorem collapse_cases (b : Bool) (a : Instr) (w : List Instr) :
    collapseFrom b (a :: w) = collapseFrom true w ∧ isReset a = true ∧ b = true
    ∨ collapseFrom b (a :: w) = a :: collapseFrom true w ∧ isReset a = true ∧ b = false
    ∨ collapseFrom b (a :: w) = a :: collapseFrom false w ∧ isReset a = false := by
  simp only [collapseFrom]
  by_cases hr : isReset a = true
  · cases b <;> simp [hr]
  · simp [hr]

private theorem last_collapse : ∀ (w : List Instr) (b : Bool) (x : Instr), w.getLast? = some x → isReset x = false →
    (collapseFrom b w).getLast? = some x := by
  intro w
  induction w with
  | nil => intro b x h; simp at h
  | cons a w ih =>
    intro b x h hx
    cases w with
    | nil =>
      simp at h; subst h
      simp [collapseFrom, hx]
    | cons c w =>
      have hl : (c :: w).getLast? = some x := by simpa [List.getLast?_cons_cons] using h
      rcases collapse_cases b a (c :: w) with ⟨e, _, _⟩ | ⟨e, _, _⟩ | ⟨e, _⟩
      · rw [e]; exact ih true x hl hx
      · rw [e]
        have := ih true x hl hx
        cases hcc : collapseFrom true (c :: w) with
        | nil => rw [hcc] at this; simp at this
        | cons y ys => rw [hcc] at this; simpa [List.getLast?_cons_cons] using this
      · rw [e]
        have := ih false x hl hx
        cases hcc : collapseFrom false (c :: w) with
        | nil => rw [hcc] at this; simp at this
        | cons y ys => rw [hcc] at this; simpa [List.getLast?_cons_cons] using this

private theorem noAdj_collapse : ∀ (w : List Instr) (b : Bool),
    NoAdjResets (collapseFrom b w) ∧ (b = true → ∀ x, (collapseFrom b w).head? = some x → isReset x = false) := by
  intro w
  induction w with
  | nil => intro b; simp [collapseFrom, NoAdjResets]
  | cons a w ih =>
    intro b
    rcases collapse_cases b a w with ⟨e, _, hb⟩ | ⟨e, ha, hb⟩ | ⟨e, ha⟩
    · rw [e]; exact ⟨(ih true).1, fun _ => (ih true).2 rfl⟩
    · rw [e]
      refine ⟨?_, fun h => by rw [hb] at h; cases h⟩
      have h1 := ih true
      cases hcc : collapseFrom true w with
      | nil => simp [NoAdjResets]
      | cons y ys =>
        rw [hcc] at h1
        refine ⟨fun hh => ?_, h1.1⟩
        have := h1.2 rfl y rfl
        rw [this] at hh; exact absurd hh.2 (by simp)
    · rw [e]
      refine ⟨?_, fun _ x hx => by simp at hx; subst hx; exact ha⟩
      have h1 := ih false
      cases hcc : collapseFrom false w with
      | nil => simp [NoAdjResets]
      | cons y ys =>
        rw [hcc] at h1
        exact ⟨fun hh => by rw [ha] at hh; exact absurd hh.1 (by simp), h1.1⟩

/-- what the three passes leave on a wire -/
theorem optimizeResets_wire (nq q : Nat) (hq : q < nq) (l : List Instr) (hwf : WF nq l) :
    wire q (optimizeResets nq l) =
      collapseResets (rdropWhile' isReset ((wire q l).dropWhile isReset)) := by
  unfold optimizeResets
  have h1 := removeInitial_only nq l
  have w1 := WF_of_only h1 hwf
  have h2 := removeFinal_only nq (removeInitialResets nq l)
  have w2 := WF_of_only h2 w1
  rw [consolidate_wire nq q _ w2, removeFinal_wire nq q hq _ w1, removeInitial_wire nq q hq l hwf]

/-- **T19.2** after the passes: no wire starts with a reset, none ends with one, no two are adjacent. -/
theorem optimizeResets_shape (nq q : Nat) (hq : q < nq) (l : List Instr) (hwf : WF nq l) :
    (∀ x, (wire q (optimizeResets nq l)).head? = some x → isReset x = false) ∧
    (∀ x, (wire q (optimizeResets nq l)).getLast? = some x → isReset x = false) ∧
    NoAdjResets (wire q (optimizeResets nq l)) := by
  rw [optimizeResets_wire nq q hq l hwf]
  unfold collapseResets
  set d := (wire q l).dropWhile isReset with hd
  refine ⟨?_, ?_, (noAdj_collapse _ false).1⟩
  · intro x hx
    rw [head_collapse] at hx
    cases hdd : d with
    | nil => rw [hdd] at hx; simp [rdropWhile'] at hx
    | cons a d' =>
      have ha : isReset a = false := head_dropWhile isReset (wire q l) a (by rw [← hd, hdd]; rfl)
      obtain ⟨d'', hd''⟩ := head_rdropWhile isReset a d' ha
      rw [hdd, hd''] at hx
      simp at hx; subst hx; exact ha
  · intro x hx
    cases hrl : (rdropWhile' isReset d).getLast? with
    | none =>
      have : rdropWhile' isReset d = [] := by simpa [List.getLast?_eq_none_iff] using hrl
      rw [this] at hx; simp [collapseFrom] at hx
    | some y =>
      have hy := last_rdropWhile isReset d y hrl
      have := last_collapse _ false y hrl hy
      rw [this] at hx; injection hx with hx; subst hx; exact hy

/-- the passes never touch anything but resets (so T12.1 applies to the composition) -/
theorem optimizeResets_only (nq : Nat) (l : List Instr) : OnlyResetsRemoved (optimizeResets nq l) l :=
  ((consolidate_only _).trans (removeFinal_only nq _)).trans (removeInitial_only nq l)

end CKT.C19
