import CKT.Proofs.Resets
/-!
# C12 — reset-removal optimisations (structure; the semantic half is in `CKT.Props.C12Sem`)
-/
namespace CKT.C12
open CKT CKT.ResetsAux

/-! ## T12.1 each optimisation deletes reset instructions only; everything else keeps its order -/

theorem removeInitial_only (nq : Nat) (l : List Instr) : OnlyResetsRemoved (removeInitialResets nq l) l :=
  removeInitialGo_only nq l []

theorem removeFinal_only (nq : Nat) (l : List Instr) : OnlyResetsRemoved (removeFinalResets nq l) l := by
  have := (removeFinalGo_only l.reverse (List.range nq)).reverse
  simpa [removeFinalResets] using this

theorem consolidate_only (l : List Instr) : OnlyResetsRemoved (consolidateResets l) l :=
  consolidateGo_only l []

theorem passRemoveFinalReset_only (l : List Instr) : OnlyResetsRemoved (passRemoveFinalReset l) l := by
  apply keepIdx_only
  intro k x hx hp
  simp only [hx] at hp
  simp at hp
  exact hp.1

theorem passConsolidateResets_only (l : List Instr) : OnlyResetsRemoved (passConsolidateResets l) l := by
  apply keepIdx_only
  intro k x hx hp
  simp only [hx] at hp
  split at hp
  · simp at hp; exact hp.1
  · cases hp

/-! ## T12.2 which resets go: the per-wire characterisation -/

/-- dropping resets of untouched qubits = on every wire, the leading run of resets disappears -/
theorem removeInitial_wire (nq q : Nat) (hq : q < nq) (l : List Instr) (hwf : WF nq l) :
    wire q (removeInitialResets nq l) = (wire q l).dropWhile isReset := by
  have := removeInitialGo_wire nq q hq l [] hwf List.nodup_nil (by simp)
  simpa [removeInitialResets] using this

theorem wire_reverse (q : Nat) (l : List Instr) : wire q l.reverse = (wire q l).reverse := by
  simp [wire, List.filter_reverse]

/-- dropping trailing resets = on every wire, the trailing run of resets disappears -/
theorem removeFinal_wire (nq q : Nat) (hq : q < nq) (l : List Instr) (hwf : WF nq l) :
    wire q (removeFinalResets nq l) = rdropWhile' isReset (wire q l) := by
  unfold removeFinalResets rdropWhile'
  rw [wire_reverse, removeFinalGo_wire nq q l.reverse (List.range nq) hwf.reverse, wire_reverse]
  simp [hq]

/-- merging consecutive resets = on every wire, each run of resets collapses to its first element -/
theorem consolidate_wire (nq q : Nat) (l : List Instr) (hwf : WF nq l) :
    wire q (consolidateResets l) = collapseResets (wire q l) := by
  have := consolidateGo_wire nq q l [] hwf
  simpa [consolidateResets, collapseResets] using this

/-- well-formedness survives every optimisation -/
theorem WF_of_only {nq : Nat} {out l : List Instr} (h : OnlyResetsRemoved out l) (hwf : WF nq l) : WF nq out :=
  fun i hi => hwf i (h.1.subset hi)

/-! non-vacuity -/
private def ex : List Instr := [
  { name := "reset", qubits := [0] }, { name := "h", qubits := [0] }, { name := "reset", qubits := [1] },
  { name := "reset", qubits := [1] }, { name := "cx", qubits := [0, 1] }, { name := "reset", qubits := [0] },
  { name := "reset", qubits := [0] }, { name := "measure", qubits := [1], clbits := [0] }, { name := "reset", qubits := [1] } ]

example : (optimizeResets 2 ex).map (·.name) = ["h", "cx", "measure"] := by decide
example : (removeInitialResets 2 ex).length = 6 ∧ (removeFinalResets 2 ex).length = 6 ∧ (consolidateResets ex).length = 7 := by decide
example : WF 2 ex := by
  intro i hi
  simp [ex] at hi
  rcases hi with rfl | rfl | rfl | rfl | rfl | rfl | rfl | rfl | rfl <;> simp [isReset]

end CKT.C12
