import CKT.Props.C03
/-!
# C03 — semantic half: replacing wire-cut markers by Moves preserves every expectation value

Proved for **every** pair of semantics (original register / widened register) related by a representation relation
`Rep m s s'` ("logical qubit `q` of `s` is held at position `m q` of `s'`") that obeys four laws (`EmbSem`):
`rep_init` (all qubits start in |0⟩), `rep_gate` (acting on logical qubits = acting on the positions holding them),
`rep_move` (Move = reset destination; swap: if the destination holds no logical qubit, the logical qubit at the source is
afterwards held at the destination) and `rep_ev` (expanded observables read the logical qubits where they are held).
For density matrices `Rep` is "the reduced state of `s'` on the positions `m ·` is `s`"; that this satisfies the laws is
standard and *not* proved here (validated numerically: `harness/props/c03.py`).  The laws are satisfiable
(`classical`: reversible classical circuits).  What *is* proved is everything the code is responsible for: which positions
the loop uses (`transformGo`), that they never collide, and that the observable positions `finalPos` are where the
logical qubits end up.
-/
namespace CKT.C03Sem
open CKT CKT.C03

/-- the Move instruction the model inserts at position `p` (plain, or wrapped as a cut placeholder by `cut_wires`) -/
def mkMove (wrap : Bool) (p nb : Nat) : Instr :=
  if wrap then { name := "qpd_2q", qubits := [p, p + 1], label := some "cut_move", basis := some nb }
  else { name := "move", qubits := [p, p + 1] }

def InjLt (nq : Nat) (m : Nat → Nat) : Prop := ∀ q q', q < nq → q' < nq → m q = m q' → q = q'

/-- A pair of semantics (original register of `nq` qubits, widened register) related by `Rep m s s'`:
"logical qubit `q` of `s` is held at position `m q` of `s'`" (reduced state of `s'` on the positions `m ·`, classical
registers equal). -/
structure EmbSem (S S' Ob V : Type) (nq : Nat) where
  ap    : Instr → S → S
  ap'   : Instr → S' → S'
  init  : S
  init' : S'
  Rep   : (Nat → Nat) → S → S' → Prop
  ev    : Ob → S → V
  /-- expectation of the observable expanded along `m` -/
  ev'   : (Nat → Nat) → Ob → S' → V
  /-- all qubits start in |0⟩: any injective placement represents the initial state -/
  rep_init : ∀ m, InjLt nq m → Rep m init init'
  /-- acting on logical qubits = acting on the positions that hold them -/
  rep_gate : ∀ m s s' (i : Instr), InjLt nq m → Rep m s s' → isCutWire i = false → (∀ q ∈ i.qubits, q < nq) →
    Rep m (ap i s) (ap' { i with qubits := i.qubits.map m } s')
  /-- Move = reset the destination, swap: if the destination holds no logical qubit, the logical qubit at the source
  is afterwards held at the destination -/
  rep_move : ∀ m s s' (q : Nat) (wrap : Bool) (nb : Nat), InjLt nq m → Rep m s s' → q < nq → (∀ q' < nq, m q' ≠ m q + 1) →
    Rep (Function.update m q (m q + 1)) s (ap' (mkMove wrap (m q) nb) s')
  /-- expanded observables read the logical qubits where they are held -/
  rep_ev : ∀ m s s' (O : Ob), InjLt nq m → Rep m s s' → ev' m O s' = ev O s

variable {S S' Ob V : Type} {nq : Nat} (M : EmbSem S S' Ob V nq)

/-- the original circuit with the markers ignored -/
def runOrig (l : List Instr) (s : S) : S := l.foldl (fun s i => if isCutWire i then s else M.ap i s) s
def run' (l : List Instr) (s : S') : S' := l.foldl (fun s i => M.ap' i s) s

theorem injLt_posAfter (all pre suf : List Instr) (h : all = pre ++ suf) : InjLt nq (posAfter all pre) := by
  intro q q' _ _ he
  by_contra hne
  exact posAfter_injective all pre suf h q q' hne he

theorem mappingAfter_getD' (all pre : List Instr) (nq q : Nat) (hq : q < nq) :
    (mappingAfter all pre nq).getD q 0 = posAfter all pre q := by
  simp [mappingAfter, posAfter, List.getD_eq_getElem?_getD, List.getElem?_map, List.getElem?_range hq]

theorem markerFreq_snoc (pre : List Instr) (i : Instr) (q : Nat) :
    markerFreq (pre ++ [i]) q = markerFreq pre q + (if isCutWire i && i.qubits.headD 0 == q then 1 else 0) := by
  simp only [markerFreq, List.filter_append, List.length_append, List.filter_cons, List.filter_nil]
  split <;> simp

theorem mappingAfter_set (all pre : List Instr) (i : Instr) (hc : isCutWire i = true) (hlt : i.qubits.headD 0 < nq) :
    (mappingAfter all pre nq).set (i.qubits.headD 0) (posAfter all pre (i.qubits.headD 0) + 1) = mappingAfter all (pre ++ [i]) nq := by
  apply List.ext_getElem
  · simp [mappingAfter]
  · intro n h1 h2
    have hn : n < nq := by simpa [mappingAfter] using h2
    simp only [mappingAfter, List.getElem_set, List.getElem_map, List.getElem_range, List.length_map, List.length_range]
    rw [markerFreq_snoc]
    generalize i.qubits.headD 0 = q0
    by_cases hnq : q0 = n
    · subst hnq; simp [hc, posAfter]; omega
    · simp [hnq, hc]

theorem mappingAfter_keep (all pre : List Instr) (i : Instr) (hc : isCutWire i = false) :
    mappingAfter all pre nq = mappingAfter all (pre ++ [i]) nq := by
  apply List.ext_getElem
  · simp [mappingAfter]
  · intro n h1 h2
    simp only [mappingAfter, List.getElem_map, List.getElem_range]
    rw [markerFreq_snoc]; simp [hc]

theorem posAfter_snoc_marker (all pre : List Instr) (i : Instr) (hc : isCutWire i = true) :
    posAfter all (pre ++ [i]) = Function.update (posAfter all pre) (i.qubits.headD 0) (posAfter all pre (i.qubits.headD 0) + 1) := by
  funext q
  unfold posAfter
  rw [markerFreq_snoc]
  generalize i.qubits.headD 0 = q0
  by_cases h : q = q0
  · subst h; simp [hc]; omega
  · have h' : ¬ (q0 = q) := fun e => h e.symm
    simp [Function.update, h, h', hc]

theorem posAfter_snoc_other (all pre : List Instr) (i : Instr) (hc : isCutWire i = false) :
    posAfter all (pre ++ [i]) = posAfter all pre := by
  funext q
  unfold posAfter
  rw [markerFreq_snoc]; simp [hc]

/-- **T03.3** (for every semantics obeying the four laws): after any prefix, the widened circuit holds the state of the
original circuit (markers ignored), logical qubit `q` sitting at `posAfter q`. -/
theorem transformGo_rep (wrap : Bool) (all : List Instr) :
    ∀ (suf pre : List Instr) (nb : Nat) (s : S) (s' : S'), all = pre ++ suf → QubitsInRange nq suf → MarkersInRange nq suf →
      M.Rep (posAfter all pre) s s' →
      M.Rep (posAfter all all) (runOrig M suf s) (run' M (transformGo wrap suf (mappingAfter all pre nq) nb) s') := by
  intro suf
  induction suf with
  | nil =>
    intro pre nb s s' hall _ _ hrep
    simp at hall; subst hall
    simpa [runOrig, run', transformGo] using hrep
  | cons i rest ih =>
    intro pre nb s s' hall hq hm hrep
    have hall' : all = (pre ++ [i]) ++ rest := by simp [hall]
    have hq' : QubitsInRange nq rest := fun j hj => hq j (List.mem_cons_of_mem _ hj)
    have hm' : MarkersInRange nq rest := fun j hj => hm j (List.mem_cons_of_mem _ hj)
    have hinj := injLt_posAfter (nq := nq) all pre (i :: rest) hall
    by_cases hc : isCutWire i = true
    · have hlt := hm i (by simp) hc
      simp only [transformGo, hc, if_true, runOrig, run', List.foldl_cons]
      rw [mappingAfter_getD' all pre nq _ hlt, mappingAfter_set all pre i hc hlt]
      have hfree : ∀ q' < nq, posAfter all pre q' ≠ posAfter all pre (i.qubits.headD 0) + 1 := by
        intro q' _ he
        by_cases hqq : q' = i.qubits.headD 0
        · subst hqq; omega
        · have h1 := posAfter_in_range all pre (i :: rest) hall q'
          have h2 := move_target_in_range all pre rest i hall hc
          have h3 := posAfter_in_range all pre (i :: rest) hall (i.qubits.headD 0)
          rcases Nat.lt_or_gt_of_ne hqq with hl | hl
          · have := basePos_mono all q' _ hl; omega
          · have := basePos_mono all _ q' hl; omega
      have hstep := M.rep_move (posAfter all pre) s s' (i.qubits.headD 0) wrap nb hinj hrep hlt hfree
      have hstep' : M.Rep (posAfter all (pre ++ [i])) s
          (M.ap' (mkMove wrap (posAfter all pre (i.qubits.headD 0)) nb) s') := by
        rw [posAfter_snoc_marker all pre i hc]; exact hstep
      have := ih (pre ++ [i]) (nb + 1) s _ hall' hq' hm' hstep'
      simpa [runOrig, run', mkMove] using this
    · have hc' : isCutWire i = false := by simpa using hc
      simp only [transformGo, hc', Bool.false_eq_true, if_false, runOrig, run', List.foldl_cons]
      have hqi : ∀ q ∈ i.qubits, q < nq := hq i (by simp)
      have hmap : i.qubits.map (fun q => (mappingAfter all pre nq).getD q 0) = i.qubits.map (posAfter all pre) :=
        List.map_congr_left (fun q hqm => mappingAfter_getD' all pre nq q (hqi q hqm))
      rw [hmap, mappingAfter_keep all pre i hc']
      have hstep := M.rep_gate (posAfter all pre) s s' i hinj hrep hc' hqi
      have hstep' : M.Rep (posAfter all (pre ++ [i])) (M.ap i s)
          (M.ap' { i with qubits := i.qubits.map (posAfter all pre) } s') := by
        rw [posAfter_snoc_other all pre i hc']; exact hstep
      have := ih (pre ++ [i]) nb _ _ hall' hq' hm' hstep'
      simpa [runOrig, run'] using this

theorem posAfter_all (all : List Instr) : posAfter all all = finalPos all := rfl
theorem posAfter_nil (all : List Instr) : posAfter all [] = basePos all := by
  funext q; simp [posAfter, markerFreq]

/-- **T03.3** end to end: every observable, expanded onto the transformed circuit (letters moved to `finalPos`), has the
expectation value it has on the original circuit with the markers ignored. -/
theorem transform_preserves_expectations (wrap : Bool) (c : Circuit) (qregs : List (String × List Nat)) (nb : Nat) (O : Ob)
    (hnq : c.nq = nq) (hq : QubitsInRange nq c.instrs) (hm : MarkersInRange nq c.instrs) :
    M.ev' (finalPos c.instrs) O (run' M (transformCutWires wrap c qregs nb).instrs M.init') =
      M.ev O (runOrig M c.instrs M.init) := by
  have hinj0 : InjLt nq (posAfter c.instrs []) := injLt_posAfter c.instrs [] c.instrs (by simp)
  have h := transformGo_rep M wrap c.instrs c.instrs [] nb M.init M.init' (by simp) hq hm (M.rep_init _ hinj0)
  have hinj : InjLt nq (finalPos c.instrs) := by
    have := injLt_posAfter (nq := nq) c.instrs c.instrs [] (by simp)
    simpa [posAfter_all] using this
  rw [posAfter_all] at h
  have hm0 : (List.range c.nq).map (basePos c.instrs) = mappingAfter c.instrs [] nq := by
    subst hnq
    simp [mappingAfter, markerFreq]
  simp only [transformCutWires, hm0]
  exact M.rep_ev _ _ _ O hinj h

/-! ## the laws are satisfiable: classical reversible circuits (bit values instead of amplitudes) -/

def upd (f : Nat → Bool) (k : Nat) (v : Bool) : Nat → Bool := fun j => if j = k then v else f j

def flipOp (q : Nat) (s : Nat → Bool) : Nat → Bool := upd s q (!s q)
def cxOp (c t : Nat) (s : Nat → Bool) : Nat → Bool := if c = t then s else upd s t (xor (s t) (s c))
/-- reset the destination, then swap -/
def mvOp (a b : Nat) (s : Nat → Bool) : Nat → Bool := if a = b then s else upd (upd s b (s a)) a false

def capply (i : Instr) (s : Nat → Bool) : Nat → Bool :=
  if i.name = "x" then (match i.qubits with | [q] => flipOp q s | _ => s)
  else if i.name = "cx" then (match i.qubits with | [c, t] => cxOp c t s | _ => s)
  else if i.name = "move" ∨ i.name = "qpd_2q" then (match i.qubits with | [a, b] => mvOp a b s | _ => s)
  else s

section cov
variable {nq : Nat} {m : Nat → Nat} {s s' : Nat → Bool} (hinj : InjLt nq m) (hrep : ∀ q < nq, s' (m q) = s q)
include hinj hrep

theorem flip_cov (q0 : Nat) (h0 : q0 < nq) : ∀ q < nq, flipOp (m q0) s' (m q) = flipOp q0 s q := by
  intro q hqn
  unfold flipOp
  by_cases h : q = q0
  · subst h; simp [upd, hrep q hqn]
  · have : m q ≠ m q0 := fun e => h (hinj q q0 hqn h0 e)
    simp [upd, this, h, hrep q hqn]

theorem cx_cov (c t : Nat) (hc : c < nq) (ht : t < nq) : ∀ q < nq, cxOp (m c) (m t) s' (m q) = cxOp c t s q := by
  intro q hqn
  unfold cxOp
  by_cases hct : c = t
  · subst hct; simp [hrep q hqn]
  · have hm : m c ≠ m t := fun e => hct (hinj c t hc ht e)
    simp only [hct, hm, if_false]
    by_cases h : q = t
    · subst h; simp [upd, hrep q hqn, hrep c hc]
    · have : m q ≠ m t := fun e => h (hinj q t hqn ht e)
      simp [upd, this, h, hrep q hqn]

theorem mv_cov (a b : Nat) (ha : a < nq) (hb : b < nq) : ∀ q < nq, mvOp (m a) (m b) s' (m q) = mvOp a b s q := by
  intro q hqn
  unfold mvOp
  by_cases hab : a = b
  · subst hab; simp [hrep q hqn]
  · have hm : m a ≠ m b := fun e => hab (hinj a b ha hb e)
    simp only [hab, hm, if_false]
    by_cases h1 : q = a
    · subst h1; simp [upd]
    · have h1' : m q ≠ m a := fun e => h1 (hinj q a hqn ha e)
      by_cases h2 : q = b
      · subst h2; simp [upd, h1, h1', hrep a ha]
      · have h2' : m q ≠ m b := fun e => h2 (hinj q b hqn hb e)
        simp [upd, h1, h1', h2, h2', hrep q hqn]
end cov

def classical (nq : Nat) : EmbSem (Nat → Bool) (Nat → Bool) (Fin nq) Bool nq where
  ap := capply
  ap' := capply
  init := fun _ => false
  init' := fun _ => false
  Rep := fun m s s' => ∀ q < nq, s' (m q) = s q
  ev := fun O s => s O.1
  ev' := fun m O s' => s' (m O.1)
  rep_init := by intro m _ q _; rfl
  rep_gate := by
    intro m s s' i hinj hrep _ hq q hqn
    unfold capply
    simp only
    rcases hqs : i.qubits with _ | ⟨a, _ | ⟨b, _ | ⟨c, r⟩⟩⟩
    · simp [hrep q hqn]
    · have ha : a < nq := hq a (by simp [hqs])
      by_cases h1 : i.name = "x"
      · simp only [h1, if_true, List.map_cons, List.map_nil]; exact flip_cov hinj hrep a ha q hqn
      · by_cases h2 : i.name = "cx" <;> by_cases h3 : i.name = "move" ∨ i.name = "qpd_2q" <;> simp [h1, h2, h3, hrep q hqn]
    · have ha : a < nq := hq a (by simp [hqs])
      have hb : b < nq := hq b (by simp [hqs])
      by_cases h1 : i.name = "x"
      · simp [h1, hrep q hqn]
      · by_cases h2 : i.name = "cx"
        · simp only [h1, h2, if_true, if_false, List.map_cons, List.map_nil]; exact cx_cov hinj hrep a b ha hb q hqn
        · by_cases h3 : i.name = "move" ∨ i.name = "qpd_2q"
          · simp only [h1, h2, h3, if_true, if_false, List.map_cons, List.map_nil]; exact mv_cov hinj hrep a b ha hb q hqn
          · simp [h1, h2, h3, hrep q hqn]
    · by_cases h1 : i.name = "x" <;> by_cases h2 : i.name = "cx" <;> by_cases h3 : i.name = "move" ∨ i.name = "qpd_2q" <;>
        simp [h1, h2, h3, hrep q hqn]
  rep_move := by
    intro m s s' q wrap nb hinj hrep hq hfree q' hq'
    have hne : m q ≠ m q + 1 := by omega
    have hcap : capply (mkMove wrap (m q) nb) s' = mvOp (m q) (m q + 1) s' := by
      unfold capply mkMove; cases wrap <;> simp
    rw [hcap]
    unfold mvOp
    simp only [hne, if_false]
    by_cases h : q' = q
    · subst h; simp [upd, hrep q' hq']
    · have h1 : m q' ≠ m q := fun e => h (hinj q' q hq' hq e)
      have h2 := hfree q' hq'
      simp [Function.update, h, upd, h1, h2, hrep q' hq']
  rep_ev := by
    intro m s s' O _ hrep
    exact hrep O.1 O.2

/-- in this semantics the D1 input (first defect found, §3 of DESIGN.md) is handled correctly: the value of qubit 0 at the
end of the original circuit is found at position `finalPos 0 = 2` of the widened circuit -/
example : run' (classical 2) (transformGo false
      [{ name := "x", qubits := [0] }, { name := "cut_wire", qubits := [0] }, { name := "cx", qubits := [0, 1] },
       { name := "cut_wire", qubits := [1] }, { name := "cut_wire", qubits := [0] }] [0, 3] 0) (fun _ => false) 2 = true := by
  decide

end CKT.C03Sem
