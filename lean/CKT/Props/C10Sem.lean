import CKT.Props.C10
import CKT.Props.C10Auto
/-!
# C10 — semantic half: re-composing the separated subcircuits is equivalent to the original circuit

Proved for **every** semantics in which (`CommSem`) instructions on disjoint qubits and disjoint classical bits commute and
barriers do nothing (standard; not proved for density matrices here, validated by `harness/props/c10.py`).
`run_flatMap_grp` is the general statement (grouping an instruction list by any key whose classes commute);
`separate_recompose` instantiates it with the model of `separate_circuit` (split barriers → per-label sublists with
renumbered qubits → re-joined barriers) and the inverse of the reported qubit map.
-/
namespace CKT.C10Sem
open CKT

structure CommSem (S : Type) where
  ap : Instr → S → S
  /-- instructions on disjoint qubits and disjoint classical bits commute -/
  comm : ∀ (i j : Instr) (s : S), (∀ q ∈ i.qubits, q ∉ j.qubits) → (∀ c ∈ i.clbits, c ∉ j.clbits) → ap i (ap j s) = ap j (ap i s)
  /-- barriers do nothing -/
  barrier : ∀ (i : Instr) (s : S), isBarrier i = true → ap i s = s

variable {S : Type} (M : CommSem S)

def run (l : List Instr) (s : S) : S := l.foldl (fun s i => M.ap i s) s

@[simp] theorem run_nil (s : S) : run M [] s = s := rfl
@[simp] theorem run_cons (i : Instr) (l : List Instr) (s : S) : run M (i :: l) s = run M l (M.ap i s) := rfl
theorem run_append (a b : List Instr) (s : S) : run M (a ++ b) s = run M b (run M a s) := by
  simp [run, List.foldl_append]

theorem run_filter_barrier (l : List Instr) : ∀ s, run M (l.filter (fun i => !isBarrier i)) s = run M l s := by
  induction l with
  | nil => intro s; rfl
  | cons i rest ih =>
    intro s
    by_cases hb : isBarrier i = true
    · simp [List.filter_cons, hb, M.barrier i s hb, ih]
    · have hb' : isBarrier i = false := by simpa using hb
      simp [List.filter_cons, hb', ih]

/-- an instruction that commutes with every element of a list can be moved across it -/
theorem run_comm (x : Instr) (l : List Instr) (h : ∀ j ∈ l, ∀ s, M.ap x (M.ap j s) = M.ap j (M.ap x s)) :
    ∀ s, M.ap x (run M l s) = run M l (M.ap x s) := by
  induction l with
  | nil => intro s; rfl
  | cons j rest ih =>
    intro s
    have hj := h j (by simp)
    have hrest : ∀ j' ∈ rest, ∀ s, M.ap x (M.ap j' s) = M.ap j' (M.ap x s) := fun j' hj' => h j' (List.mem_cons_of_mem _ hj')
    simp only [run_cons]
    rw [ih hrest, hj]

/-! ### grouping a list by a key and concatenating the groups -/

section group
variable (key : Instr → Nat)

def grp (L : List Instr) (b : Nat) : List Instr := L.filter (fun i => key i == b)

theorem grp_cons_ne (x : Instr) (L : List Instr) (b : Nat) (h : key x ≠ b) : grp key (x :: L) b = grp key L b := by
  simp [grp, List.filter_cons, h]

theorem grp_cons_eq (x : Instr) (L : List Instr) : grp key (x :: L) (key x) = x :: grp key L (key x) := by
  simp [grp, List.filter_cons]

theorem flatMap_grp_step (x : Instr) (rest : List Instr)
    (hc : ∀ j ∈ rest, key j ≠ key x → ∀ s, M.ap x (M.ap j s) = M.ap j (M.ap x s)) :
    ∀ (K : List Nat), K.Nodup → key x ∈ K → ∀ s,
      run M (K.flatMap (grp key (x :: rest))) s = run M (K.flatMap (grp key rest)) (M.ap x s) := by
  intro K
  induction K with
  | nil => intro _ hm; cases hm
  | cons b K' ih =>
    intro hnd hm s
    have hnd' := List.nodup_cons.1 hnd
    by_cases hb : b = key x
    · subst hb
      have hK' : K'.flatMap (grp key (x :: rest)) = K'.flatMap (grp key rest) := by
        apply List.flatMap_congr
        intro b' hb'
        exact grp_cons_ne key x rest b' (fun e => hnd'.1 (e ▸ hb'))
      simp only [List.flatMap_cons, grp_cons_eq, hK', List.cons_append, run_cons]
    · have hm' : key x ∈ K' := by
        rcases List.mem_cons.1 hm with h | h
        · exact absurd h.symm hb
        · exact h
      have hne : key x ≠ b := fun e => hb e.symm
      simp only [List.flatMap_cons, grp_cons_ne key x rest b hne, run_append]
      rw [ih hnd'.2 hm']
      congr 1
      apply run_comm
      intro j hj s'
      have hj' : j ∈ rest ∧ key j = b := by simpa [grp] using hj
      exact hc j hj'.1 (by rw [hj'.2]; exact hb) s'

/-- concatenating the groups (in any fixed order of the keys) is equivalent to the original list when instructions with
different keys commute -/
theorem run_flatMap_grp (K : List Nat) (hK : K.Nodup) : ∀ (L : List Instr), (∀ i ∈ L, key i ∈ K) →
    (∀ i ∈ L, ∀ j ∈ L, key i ≠ key j → ∀ s, M.ap i (M.ap j s) = M.ap j (M.ap i s)) →
    ∀ s, run M (K.flatMap (grp key L)) s = run M L s := by
  intro L
  induction L with
  | nil =>
    intro _ _ s
    have : K.flatMap (grp key []) = [] := by simp [grp]
    rw [this]
  | cons x rest ih =>
    intro hkey hcomm s
    rw [flatMap_grp_step M key x rest (fun j hj hne s' => hcomm x (by simp) j (List.mem_cons_of_mem _ hj) (fun e => hne e.symm) s')
      K hK (hkey x (by simp)) s]
    simp only [run_cons]
    exact ih (fun i hi => hkey i (List.mem_cons_of_mem _ hi))
      (fun i hi j hj => hcomm i (List.mem_cons_of_mem _ hi) j (List.mem_cons_of_mem _ hj)) _
end group

/-! ### separation -/

open CKT.C10

def labKey (labels : List Label) (i : Instr) : Nat :=
  match instrLabel labels i with | .ok l => l | .error _ => 0

/-- put a subcircuit instruction back onto the original qubits (the inverse of the qubit map) -/
def liftInstr (qs : List Nat) (i : Instr) : Instr := { i with qubits := i.qubits.map (fun k => qs.getD k 0) }

/-- re-composition of the subcircuits through the qubit map, one partition after the other -/
def recompose (labels : List Label) (subs : List (Nat × Circuit)) : List Instr :=
  subs.flatMap fun p => p.2.instrs.map (liftInstr (qubitsOf labels p.1))

theorem instrLabel_qubits (labels : List Label) (i : Instr) (l : Nat) (h : instrLabel labels i = .ok l) :
    ∀ q ∈ i.qubits, labels.getD q none = some l := by
  intro q hq
  unfold instrLabel at h
  split at h
  · cases h
  · rename_i hnone
    split at h
    · rename_i l' heq
      injection h with h; subst h
      cases hl : labels.getD q none with
      | none =>
        exfalso; apply hnone
        simp only [List.any_eq_true]
        exact ⟨q, hq, by rw [hl]; rfl⟩
      | some l'' =>
        have : l'' ∈ uniq (i.qubits.filterMap (fun q => labels.getD q none)) := by
          rw [mem_uniq, List.mem_filterMap]; exact ⟨q, hq, hl⟩
        rw [heq] at this
        simp at this; rw [this]
    · cases h

theorem getD_idxOf (qs : List Nat) (q : Nat) (h : q ∈ qs) : qs.getD (qs.idxOf q) 0 = q := by
  have hlt : qs.idxOf q < qs.length := List.idxOf_lt_length_of_mem h
  simp [List.getD_eq_getElem?_getD, List.getElem?_eq_getElem hlt]

theorem lt_of_label (labels : List Label) (q l : Nat) (h : labels.getD q none = some l) : q < labels.length := by
  by_contra hc
  simp [List.getD_eq_getElem?_getD, List.getElem?_eq_none (Nat.le_of_not_lt hc)] at h

theorem lift_sub (labels : List Label) (l : Nat) (i : Instr) (h : instrLabel labels i = .ok l) :
    liftInstr (qubitsOf labels l) { i with qubits := i.qubits.map (fun q => (qubitsOf labels l).idxOf q) } = i := by
  unfold liftInstr
  simp only [List.map_map]
  have : i.qubits.map ((fun k => (qubitsOf labels l).getD k 0) ∘ fun q => (qubitsOf labels l).idxOf q) = i.qubits := by
    conv_rhs => rw [← List.map_id i.qubits]
    apply List.map_congr_left
    intro q hq
    simp only [Function.comp, id]
    apply getD_idxOf
    rw [mem_qubitsOf]
    exact ⟨lt_of_label labels q l (instrLabel_qubits labels i l h q hq), instrLabel_qubits labels i l h q hq⟩
  rw [this]

theorem isBarrier_lift (qs : List Nat) (i : Instr) : isBarrier (liftInstr qs i) = isBarrier i := rfl

theorem subInstrs_cons (labels : List Label) (l : Nat) (x : Instr) (rest : List Instr) :
    subInstrs labels l (x :: rest) = subInstrs labels l [x] ++ subInstrs labels l rest := by
  unfold subInstrs
  rw [← List.map_append, ← List.filter_append]; rfl

theorem subInstrs_single (labels : List Label) (l lab : Nat) (x : Instr) (h : instrLabel labels x = .ok lab) :
    subInstrs labels l [x] =
      if lab = l then [{ x with qubits := x.qubits.map (fun q => (qubitsOf labels l).idxOf q) }] else [] := by
  unfold subInstrs
  by_cases hl : lab = l <;> simp [List.filter_cons, h, hl]

theorem filt_sub (labels : List Label) (l : Nat) : ∀ (L : List Instr), (∀ i ∈ L, ∃ lab, instrLabel labels i = .ok lab) →
    ((subInstrs labels l L).filter (fun i => !isBarrier i)).map (liftInstr (qubitsOf labels l)) =
      grp (labKey labels) (L.filter (fun i => !isBarrier i)) l := by
  intro L
  induction L with
  | nil => intro _; rfl
  | cons x rest ih =>
    intro hok
    have hrest : ∀ i ∈ rest, ∃ lab, instrLabel labels i = .ok lab := fun i hi => hok i (List.mem_cons_of_mem _ hi)
    obtain ⟨lab, hlab⟩ := hok x (by simp)
    have hkey : labKey labels x = lab := by simp [labKey, hlab]
    rw [subInstrs_cons, List.filter_append, List.map_append, ih hrest, subInstrs_single labels l lab x hlab]
    by_cases hb : isBarrier x = true
    · have hx : (List.filter (fun i => !isBarrier i) (x :: rest)) = List.filter (fun i => !isBarrier i) rest := by
        simp [List.filter_cons, hb]
      rw [hx]
      by_cases hl : lab = l
      · have hb2 : isBarrier ({ x with qubits := x.qubits.map (fun q => (qubitsOf labels l).idxOf q) } : Instr) = true := hb
        simp [hl, List.filter_cons, hb2]
      · simp [hl]
    · have hb' : isBarrier x = false := by simpa using hb
      have hx : (List.filter (fun i => !isBarrier i) (x :: rest)) = x :: List.filter (fun i => !isBarrier i) rest := by
        simp [List.filter_cons, hb']
      rw [hx]
      by_cases hl : lab = l
      · subst hl
        have hb2 : isBarrier ({ x with qubits := x.qubits.map (fun q => (qubitsOf labels lab).idxOf q) } : Instr) = false := hb'
        have := lift_sub labels lab x hlab
        simp only [if_true, List.filter_cons, hb2, Bool.not_false, List.map_cons, List.map_nil, this,
          List.cons_append, List.nil_append, List.filter_nil]
        rw [← hkey]
        rw [grp_cons_eq]
      · simp only [hl, if_false, List.filter_nil, List.map_nil, List.nil_append]
        rw [grp_cons_ne]
        rw [hkey]; exact hl

/-- the non-barrier part of a partition's (barrier-split, re-joined, renumbered) instruction list, lifted back, is the
sublist of the original non-barrier instructions that carry this label -/
theorem lifted_sub (labels : List Label) (l : Nat) (L : List Instr) (hok : ∀ i ∈ L, ∃ lab, instrLabel labels i = .ok lab) :
    (((combineBarriers (subInstrs labels l L)).map (liftInstr (qubitsOf labels l))).filter (fun i => !isBarrier i)) =
      grp (labKey labels) (L.filter (fun i => !isBarrier i)) l := by
  have h1 : ((combineBarriers (subInstrs labels l L)).map (liftInstr (qubitsOf labels l))).filter (fun i => !isBarrier i)
      = ((combineBarriers (subInstrs labels l L)).filter (fun i => !isBarrier i)).map (liftInstr (qubitsOf labels l)) := by
    rw [List.filter_map]; rfl
  rw [h1, combineBarriers_non_tagged]
  exact filt_sub labels l L hok

/-- **T10.4 (semantic half)** for every semantics in which instructions on disjoint qubits commute and barriers do nothing:
running the subcircuits one after the other, each on the qubits the qubit map assigns to it, is equivalent to running the
original circuit (circuits without classical bits, as `partition_problem` requires). -/
theorem separate_recompose (c : Circuit) (ls : List Label) (sep : Separated)
    (h : separateCircuit c (some ls) = .ok sep) (hcl : ∀ i ∈ c.instrs, i.clbits = []) :
    ∀ s, run M (recompose ls sep.subcircuits) s = run M c.instrs s := by
  intro s
  have hlab := (separate_ok_labels c ls sep h).2.1
  have hok := checkAllLabels_ok ls (splitBarriers c.instrs) hlab
  have hsub : sep.subcircuits = (labelOrder ls).map fun l =>
      (l, ({ nq := (qubitsOf ls l).length, cregs := c.cregs,
             instrs := combineBarriers (subInstrs ls l (splitBarriers c.instrs)) } : Circuit)) := by
    unfold separateCircuit at h
    simp only at h
    split at h
    · cases h
    · split at h
      · cases h
      · injection h with h; subst h; rfl
  have hL0 : (splitBarriers c.instrs).filter (fun i => !isBarrier i) = c.instrs.filter (fun i => !isBarrier i) :=
    splitBarriers_non_barrier c.instrs
  rw [← run_filter_barrier M (recompose ls sep.subcircuits) s, ← run_filter_barrier M c.instrs s]
  have hre : (recompose ls sep.subcircuits).filter (fun i => !isBarrier i) =
      (labelOrder ls).flatMap (grp (labKey ls) (c.instrs.filter (fun i => !isBarrier i))) := by
    rw [hsub]
    unfold recompose
    rw [List.flatMap_map, List.filter_flatMap]
    apply List.flatMap_congr
    intro l _
    simp only
    rw [lifted_sub ls l (splitBarriers c.instrs) hok, hL0]
  rw [hre]
  have hmem : ∀ i ∈ c.instrs.filter (fun i => !isBarrier i), i ∈ splitBarriers c.instrs ∧ i ∈ c.instrs := by
    intro i hi
    refine ⟨?_, (List.mem_filter.1 hi).1⟩
    rw [← hL0] at hi
    exact (List.mem_filter.1 hi).1
  apply run_flatMap_grp M (labKey ls) (labelOrder ls) (nodup_uniq _)
  · intro i hi
    obtain ⟨lab, hl⟩ := hok i (hmem i hi).1
    have : labKey ls i = lab := by simp [labKey, hl]
    rw [this]; exact instrLabel_mem ls i lab hl
  · intro i hi j hj hne s'
    obtain ⟨li, hli⟩ := hok i (hmem i hi).1
    obtain ⟨lj, hlj⟩ := hok j (hmem j hj).1
    have hki : labKey ls i = li := by simp [labKey, hli]
    have hkj : labKey ls j = lj := by simp [labKey, hlj]
    apply M.comm
    · intro q hq hq'
      have h1 := instrLabel_qubits ls i li hli q hq
      have h2 := instrLabel_qubits ls j lj hlj q hq'
      rw [h1] at h2
      injection h2 with h2
      exact hne (by rw [hki, hkj, h2])
    · intro cb hcb
      rw [hcl i (hmem i hi).2] at hcb
      cases hcb

end CKT.C10Sem
