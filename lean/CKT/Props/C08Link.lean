import CKT.Props.C07Cnt
import CKT.Props.C08Full
/-!
# C08 — T08.4 for gate cuts: every feasible plan without useless cuts is a goal of the model's search tree

`C08.optimize_flag_sound` bounds the returned overhead by every goal of the *model's* search tree.  The tree does not contain all plans:
an apply is refused when it would exceed the width limit or re-join what a cut separated (`no-merge` clauses), a gate cut is refused
inside one subcircuit.  Here: for **gate-cut plans** (every gate is either applied or cut), a plan whose subcircuits — the connected
components of its applied gates — respect the width limit and which has no useless cut (`C08Spec.useless_cuts_removable` shows such a
plan exists at no greater cost for every feasible plan) is executed step by step by the model: no guard ever fires (`plan_step`), so a
goal state with exactly the plan's overhead is reachable (`plan_reachable`).  Invariant carried along the path (`Link`): the classes of the
union-find state lie inside the plan's components, and every no-merge clause joins two different components.
-/
namespace CKT.C08Link
open CKT CKT.CF CKT.C07 CKT.C08

/-- two qubits lie in the same subcircuit of the plan (`a i = true`: gate `i` is cut) -/
def Conn (gates : List Gate) (a : Nat → Bool) : Nat → Nat → Prop :=
  Relation.EqvGen fun x y => ∃ i g, gates[i]? = some g ∧ a i = false ∧ g.qubits.getD 0 0 = x ∧ g.qubits.getD 1 0 = y

section
variable (gates : List Gate) (a : Nat → Bool) (W n : Nat)

open Classical in
/-- size of the subcircuit of qubit `q` -/
noncomputable def compSize (q : Nat) : Nat := (List.range n).countP fun w => decide (Conn gates a q w)

structure Link (s : St) : Prop where
  wm : s.wiremap = List.range n
  nw : s.numWires = n
  inv : Inv W n s
  inv2 : Inv2 s
  cnt : CntS s
  same : ∀ w1 w2, w1 < n → w2 < n → rootL s.root w1 = rootL s.root w2 → Conn gates a w1 w2
  sepC : ∀ c ∈ s.noMerge, ¬ Conn gates a c.1 c.2

variable {gates a W n}

theorem conn_symm {x y : Nat} (h : Conn gates a x y) : Conn gates a y x := Relation.EqvGen.symm _ _ h
theorem conn_trans {x y z : Nat} (h1 : Conn gates a x y) (h2 : Conn gates a y z) : Conn gates a x z := Relation.EqvGen.trans _ _ _ h1 h2

theorem Link.wire (s : St) (hl : Link gates a W n s) (q : Nat) (hq : q < n) : s.wire q = q := by
  simp [St.wire, hl.wm, List.getD_eq_getElem?_getD, List.getElem?_range hq]

theorem Link.qroot (s : St) (hl : Link gates a W n s) (q : Nat) (hq : q < n) : s.qroot q = rootL s.root q := by
  simp [St.qroot, hl.wire s q hq, rootOf_eq]

/-- a wire is connected to its root -/
theorem Link.to_root (s : St) (hl : Link gates a W n s) (w : Nat) (hw : w < n) : Conn gates a w (rootL s.root w) := by
  apply hl.same w (rootL s.root w) hw
  · exact lt_of_le_of_lt (hl.inv2.root_le w) hw
  · exact (hl.inv2.root_idem w).symm

end

/-- hypotheses on the circuit and the plan -/
structure PlanOK (gates : List Gate) (a : Nat → Bool) (W n : Nat) : Prop where
  two : ∀ g ∈ gates, g.qubits.length = 2
  lt : ∀ g ∈ gates, g.qubits.getD 0 0 < n ∧ g.qubits.getD 1 0 < n
  gam : ∀ g ∈ gates, g.gamma.isSome = true
  no_useless : ∀ i g, gates[i]? = some g → a i = true → ¬ Conn gates a (g.qubits.getD 0 0) (g.qubits.getD 1 0)
  feasible : ∀ q, q < n → compSize gates a n q ≤ W

/-- the child states of the two gate actions -/
def cutSt (s : St) (g : Gate) (γ : Rat) : St :=
  { s with noMerge := s.noMerge ++ [(s.qroot (g.qubits.getD 0 0), s.qroot (g.qubits.getD 1 0))], gammaUB := s.gammaUB * γ,
           actions := s.actions ++ [⟨.gateCut, g.idx, [(1, s.wire (g.qubits.getD 0 0), 0), (2, s.wire (g.qubits.getD 1 0), 0)]⟩],
           level := s.level + 1 }

def appSt (s : St) (g : Gate) : St :=
  let r1 := s.qroot (g.qubits.getD 0 0)
  let r2 := s.qroot (g.qubits.getD 1 0)
  { (if r1 ≠ r2 then s.merge r1 r2 else s) with level := s.level + 1 }

theorem appSt_ne (s : St) (g : Gate) (h : s.qroot (g.qubits.getD 0 0) ≠ s.qroot (g.qubits.getD 1 0)) :
    appSt s g = { s.merge (s.qroot (g.qubits.getD 0 0)) (s.qroot (g.qubits.getD 1 0)) with level := s.level + 1 } := by
  unfold appSt; simp only [if_pos h]

theorem appSt_eq (s : St) (g : Gate) (h : ¬ s.qroot (g.qubits.getD 0 0) ≠ s.qroot (g.qubits.getD 1 0)) :
    appSt s g = { s with level := s.level + 1 } := by
  unfold appSt; simp only [if_neg h]

open Classical in
/-- **one step**: at level `k` the model executes the plan's decision for gate `k` -/
theorem plan_step (cfg : Settings) (hlo : cfg.gateLO = true) (gates : List Gate) (a : Nat → Bool) (W n : Nat)
    (hp : PlanOK gates a W n) (s : St) (g : Gate) (hg : gates[s.level]? = some g) (hl : Link gates a W n s) :
    ∃ ns t, nextStates cfg gates W s = .ok ns ∧ t ∈ ns ∧ Link gates a W n t ∧ t.level = s.level + 1 ∧
      t.gammaUB = s.gammaUB * (if a s.level then g.gamma.getD 1 else 1) := by
  have hmem : g ∈ gates := List.mem_of_getElem? hg
  obtain ⟨hq1, hq2⟩ := hp.lt g hmem
  have htwo := hp.two g hmem
  have hr1 : s.qroot (g.qubits.getD 0 0) = rootL s.root (g.qubits.getD 0 0) := hl.qroot s (g.qubits.getD 0 0) hq1
  have hr2 : s.qroot (g.qubits.getD 1 0) = rootL s.root (g.qubits.getD 1 0) := hl.qroot s (g.qubits.getD 1 0) hq2
  have hns : nextStates cfg gates W s = .ok ((actionList cfg).filterMap fun act => act s g W) := by
    unfold nextStates
    rw [hg]
    simp [htwo]
  have hqs : ∀ g' ∈ gates, g'.qubits.getD 0 0 < n ∧ g'.qubits.getD 1 0 < n := hp.lt
  refine ⟨(actionList cfg).filterMap fun act => act s g W, ?_⟩
  by_cases ha : a s.level = true
  · -- the plan cuts the gate
    obtain ⟨γ, hγ⟩ := Option.isSome_iff_exists.1 (hp.gam g hmem)
    have hne : rootL s.root (g.qubits.getD 0 0) ≠ rootL s.root (g.qubits.getD 1 0) := by
      intro e
      exact hp.no_useless s.level g hg ha (hl.same (g.qubits.getD 0 0) (g.qubits.getD 1 0) hq1 hq2 e)
    have hcut : cutGate s g W = some (cutSt s g γ) := by
      unfold cutGate
      simp only [hγ]
      have : ¬ s.qroot (g.qubits.getD 0 0) = s.qroot (g.qubits.getD 1 0) := by
        rw [hr1, hr2]; exact hne
      rw [if_neg this]; rfl
    have hmemt : cutSt s g γ ∈ (actionList cfg).filterMap fun act => act s g W := by
      simp only [List.mem_filterMap]
      exact ⟨cutGate, by simp [actionList, hlo], hcut⟩
    refine ⟨cutSt s g γ, hns, hmemt, ?_, rfl, ?_⟩
    · refine ⟨hl.wm, hl.nw, step_inv cfg gates W n hqs s _ _ hl.inv hns hmemt, step_inv2 cfg gates W n hqs s _ _ hl.inv hl.inv2 hns hmemt,
        step_cnt cfg gates W n hqs s _ _ hl.inv hl.inv2 hl.cnt hns hmemt, hl.same, ?_⟩
      intro c hc
      have hc : c ∈ s.noMerge ++ [(s.qroot (g.qubits.getD 0 0), s.qroot (g.qubits.getD 1 0))] := hc
      simp only [List.mem_append, List.mem_singleton] at hc
      rcases hc with hc | rfl
      · exact hl.sepC c hc
      · simp only [hr1, hr2]
        intro hcon
        apply hp.no_useless s.level g hg ha
        exact conn_trans (hl.to_root s (g.qubits.getD 0 0) hq1) (conn_trans hcon (conn_symm (hl.to_root s (g.qubits.getD 1 0) hq2)))
    · simp [ha, hγ, cutSt]
  · -- the plan applies the gate
    have ha' : a s.level = false := by simpa using ha
    have hconn : Conn gates a (g.qubits.getD 0 0) (g.qubits.getD 1 0) := Relation.EqvGen.rel _ _ ⟨s.level, g, hg, ha', rfl, rfl⟩
    have hnotforb : s.forbidden (s.qroot (g.qubits.getD 0 0)) (s.qroot (g.qubits.getD 1 0)) = false := by
      rw [forbidden_false_iff]
      intro c hc hor
      have hclt := hl.inv2.clause_lt c hc
      rw [hl.nw] at hclt
      apply hl.sepC c hc
      rcases hor with ⟨h1, h2⟩ | ⟨h1, h2⟩
      · rw [hr1] at h1; rw [hr2] at h2
        exact conn_trans (hl.same c.1 (g.qubits.getD 0 0) hclt.1 hq1 h1) (conn_trans hconn (conn_symm (hl.same c.2 (g.qubits.getD 1 0) hclt.2 hq2 h2)))
      · rw [hr2] at h1; rw [hr1] at h2
        exact conn_trans (hl.same c.1 (g.qubits.getD 1 0) hclt.1 hq2 h1) (conn_trans (conn_symm hconn) (conn_symm (hl.same c.2 (g.qubits.getD 0 0) hclt.2 hq1 h2)))
    have hwidth : s.qroot (g.qubits.getD 0 0) ≠ s.qroot (g.qubits.getD 1 0) → s.widthOf (s.qroot (g.qubits.getD 0 0)) + s.widthOf (s.qroot (g.qubits.getD 1 0)) ≤ W := by
      intro hne
      rw [hr1, hr2] at hne ⊢
      have hlt1 : rootL s.root (g.qubits.getD 0 0) < s.numWires := by rw [hl.nw]; exact lt_of_le_of_lt (hl.inv2.root_le (g.qubits.getD 0 0)) hq1
      have hlt2 : rootL s.root (g.qubits.getD 1 0) < s.numWires := by rw [hl.nw]; exact lt_of_le_of_lt (hl.inv2.root_le (g.qubits.getD 1 0)) hq2
      have e1 := hl.cnt.size _ hlt1 (hl.inv2.root_idem (g.qubits.getD 0 0))
      have e2 := hl.cnt.size _ hlt2 (hl.inv2.root_idem (g.qubits.getD 1 0))
      simp only [St.widthOf, e1, e2, classSize, hl.nw]
      rw [← countP_or_disjoint (List.range n) (fun w => decide (rootL s.root w = rootL s.root (g.qubits.getD 0 0))) (fun w => decide (rootL s.root w = rootL s.root (g.qubits.getD 1 0)))
        (by intro x hx; simp only [decide_eq_true_eq] at hx; exact hne (hx.1.symm.trans hx.2))]
      refine le_trans ?_ (hp.feasible (g.qubits.getD 0 0) hq1)
      unfold compSize
      apply List.countP_mono_left
      intro w hw hor
      have hwn : w < n := List.mem_range.1 hw
      simp only [Bool.or_eq_true, decide_eq_true_eq] at hor ⊢
      rcases hor with h | h
      · exact hl.same (g.qubits.getD 0 0) w hq1 hwn h.symm
      · exact conn_trans hconn (hl.same (g.qubits.getD 1 0) w hq2 hwn h.symm)
    have happ : applyGate s g W = some (appSt s g) := by
      unfold applyGate
      have h1 : ¬ (s.qroot (g.qubits.getD 0 0) ≠ s.qroot (g.qubits.getD 1 0) ∧ s.widthOf (s.qroot (g.qubits.getD 0 0)) + s.widthOf (s.qroot (g.qubits.getD 1 0)) > W) := by
        intro ⟨hne, hgt⟩
        have := hwidth hne
        omega
      unfold appSt
      simp only [if_neg h1, hnotforb, Bool.false_eq_true, if_false]
    have hmemt : appSt s g
        ∈ (actionList cfg).filterMap fun act => act s g W := by
      simp only [List.mem_filterMap]
      exact ⟨applyGate, by simp [actionList], happ⟩
    refine ⟨_, hns, hmemt, ?_, ?_, ?_⟩
    · have hi' := step_inv cfg gates W n hqs s _ _ hl.inv hns hmemt
      have hi2' := step_inv2 cfg gates W n hqs s _ _ hl.inv hl.inv2 hns hmemt
      have hc' := step_cnt cfg gates W n hqs s _ _ hl.inv hl.inv2 hl.cnt hns hmemt
      by_cases hne : s.qroot (g.qubits.getD 0 0) ≠ s.qroot (g.qubits.getD 1 0)
      · rw [appSt_ne s g hne] at hi' hi2' hc' ⊢
        refine ⟨by simpa [St.merge] using hl.wm, by simpa [St.merge] using hl.nw, hi', hi2', hc', ?_, by simpa [St.merge] using hl.sepC⟩
        intro w1 w2 hw1 hw2 heq
        have hmax : max (s.qroot (g.qubits.getD 0 0)) (s.qroot (g.qubits.getD 1 0)) < s.numWires := by
          rw [hr1, hr2, hl.nw]
          exact max_lt (lt_of_le_of_lt (hl.inv2.root_le (g.qubits.getD 0 0)) hq1) (lt_of_le_of_lt (hl.inv2.root_le (g.qubits.getD 1 0)) hq2)
        have hroot : ({ s.merge (s.qroot (g.qubits.getD 0 0)) (s.qroot (g.qubits.getD 1 0)) with level := s.level + 1 } : St).root
            = s.root.map fun r => if r = max (s.qroot (g.qubits.getD 0 0)) (s.qroot (g.qubits.getD 1 0)) then min (s.qroot (g.qubits.getD 0 0)) (s.qroot (g.qubits.getD 1 0)) else r := rfl
        rw [hroot, rootL_merge s.root s.maxWires s.numWires s.noMerge hl.inv2 _ _ w1 hmax,
          rootL_merge s.root s.maxWires s.numWires s.noMerge hl.inv2 _ _ w2 hmax] at heq
        -- old roots are equal, or they are the two merged roots
        have hr12 : Conn gates a (s.qroot (g.qubits.getD 0 0)) (s.qroot (g.qubits.getD 1 0)) := by
          rw [hr1, hr2]
          exact conn_trans (conn_symm (hl.to_root s (g.qubits.getD 0 0) hq1)) (conn_trans hconn (hl.to_root s (g.qubits.getD 1 0) hq2))
        have hmm : Conn gates a (max (s.qroot (g.qubits.getD 0 0)) (s.qroot (g.qubits.getD 1 0))) (min (s.qroot (g.qubits.getD 0 0)) (s.qroot (g.qubits.getD 1 0))) := by
          rcases le_total (s.qroot (g.qubits.getD 0 0)) (s.qroot (g.qubits.getD 1 0)) with h | h
          · rw [max_eq_right h, min_eq_left h]; exact conn_symm hr12
          · rw [max_eq_left h, min_eq_right h]; exact hr12
        have t1 := hl.to_root s w1 hw1
        have t2 := hl.to_root s w2 hw2
        by_cases c1 : rootL s.root w1 = max (s.qroot (g.qubits.getD 0 0)) (s.qroot (g.qubits.getD 1 0)) <;> by_cases c2 : rootL s.root w2 = max (s.qroot (g.qubits.getD 0 0)) (s.qroot (g.qubits.getD 1 0))
        · exact conn_trans t1 (by rw [c1, ← c2]; exact conn_symm t2)
        · simp only [c1, c2, if_true, if_false] at heq
          exact conn_trans t1 (by rw [c1]; exact conn_trans hmm (by rw [heq]; exact conn_symm t2))
        · simp only [c1, c2, if_true, if_false] at heq
          exact conn_trans t1 (by rw [heq]; exact conn_trans (conn_symm hmm) (by rw [← c2]; exact conn_symm t2))
        · simp only [c1, c2, if_false] at heq
          exact conn_trans t1 (by rw [heq]; exact conn_symm t2)
      · rw [appSt_eq s g hne] at hi' hi2' hc' ⊢
        exact ⟨hl.wm, hl.nw, hi', hi2', hc', hl.same, hl.sepC⟩
    · by_cases hne : s.qroot (g.qubits.getD 0 0) ≠ s.qroot (g.qubits.getD 1 0)
      · rw [appSt_ne s g hne]
      · rw [appSt_eq s g hne]
    · by_cases hne : s.qroot (g.qubits.getD 0 0) ≠ s.qroot (g.qubits.getD 1 0)
      · rw [appSt_ne s g hne]; simp [ha', St.merge]
      · rw [appSt_eq s g hne]; simp [ha']

/-! ### from one step to a path, and the link with `C08Spec` and `optimize_flag_sound` -/

/-- the gate as the specification of `C08Spec` sees it -/
def toG (g : Gate) : C08Spec.G := ⟨g.qubits.getD 0 0, g.qubits.getD 1 0, g.gamma.getD 1⟩

theorem conn_eq (gates : List Gate) (a : Nat → Bool) : Conn gates a = C08Spec.Conn (gates.map toG) a := by
  unfold Conn C08Spec.Conn
  congr 1
  funext x y
  apply propext
  constructor
  · rintro ⟨i, g, hg, ha, rfl, rfl⟩
    exact ⟨toG g, (C08Spec.mem_applied _ a _).2 ⟨i, by simp [List.getElem?_map, hg], ha⟩, rfl, rfl⟩
  · rintro ⟨g', hg', rfl, rfl⟩
    obtain ⟨i, hi, ha⟩ := (C08Spec.mem_applied _ a _).1 hg'
    rw [List.getElem?_map] at hi
    cases hgi : gates[i]? with
    | none => rw [hgi] at hi; cases hi
    | some g =>
      rw [hgi] at hi
      injection hi with hi
      subst hi
      exact ⟨i, g, hgi, ha, rfl, rfl⟩

theorem cost_take_succ (gs : List C08Spec.G) (a : Nat → Bool) (m : Nat) (g : C08Spec.G) (hg : gs[m]? = some g) :
    C08Spec.cost (gs.take (m + 1)) a = C08Spec.cost (gs.take m) a * (if a m then g.gamma else 1) := by
  have hm : m < gs.length := by
    by_contra h
    rw [List.getElem?_eq_none (not_lt.mp h)] at hg
    cases hg
  unfold C08Spec.cost
  rw [List.take_add_one, hg, List.zipIdx_append, List.filter_append, List.map_append, List.prod_append]
  have hl : (gs.take m).length = m := by rw [List.length_take]; omega
  congr 1
  simp only [Option.toList_some, List.zipIdx_cons, List.zipIdx_nil, hl, Nat.zero_add, List.filter_cons, List.filter_nil]
  by_cases h : a m = true <;> simp [h]

theorem link_init (gates : List Gate) (a : Nat → Bool) (W n k : Nat) (hW : 1 ≤ W) : Link gates a W n (St.init n k) := by
  refine ⟨rfl, rfl, init_inv W n k hW, init_inv2 n k, init_cnt n k, ?_, ?_⟩
  · intro w1 w2 _ _ h
    simp only [St.init, rootL_range] at h
    subst h
    exact Relation.EqvGen.refl _
  · intro c hc
    cases hc

/-- **the plan is a path of the search tree**: after `m` gates the model is in a state whose cost is the product of the γ of the plan's cuts so far -/
theorem plan_path (cfg : Settings) (hlo : cfg.gateLO = true) (gates : List Gate) (a : Nat → Bool) (W n k : Nat) (hW : 1 ≤ W)
    (hp : PlanOK gates a W n) : ∀ m, m ≤ gates.length →
    ∃ t, Desc (cutFns cfg gates W) (St.init n k) t ∧ Link gates a W n t ∧ t.level = m ∧ t.gammaUB = C08Spec.cost ((gates.map toG).take m) a
  | 0, _ => ⟨St.init n k, Desc.refl _, link_init gates a W n k hW, rfl, by simp [C08Spec.cost, St.init]⟩
  | m + 1, hm => by
    obtain ⟨t, hd, hl, hlev, hcost⟩ := plan_path cfg hlo gates a W n k hW hp m (by omega)
    have hmlt : m < gates.length := by omega
    have hg : gates[t.level]? = some gates[m] := by rw [hlev]; exact List.getElem?_eq_getElem hmlt
    obtain ⟨ns, t', hns, hmem, hl', hlev', hcost'⟩ := plan_step cfg hlo gates a W n hp t gates[m] hg hl
    refine ⟨t', desc_trans _ _ _ _ hd (Desc.head _ _ _ ⟨ns, hns, hmem⟩ (Desc.refl _)), hl', by omega, ?_⟩
    rw [hcost', hcost, hlev, cost_take_succ (gates.map toG) a m (toG gates[m]) (by simp [List.getElem?_map, List.getElem?_eq_getElem hmlt])]
    rfl

/-- a feasible gate-cut plan without useless cuts is a goal state of the model's search tree, with exactly its overhead -/
theorem plan_reachable (cfg : Settings) (hlo : cfg.gateLO = true) (gates : List Gate) (a : Nat → Bool) (W n k : Nat) (hW : 1 ≤ W)
    (hp : PlanOK gates a W n) :
    ∃ t, Desc (cutFns cfg gates W) (St.init n k) t ∧ isGoal gates t = true ∧ t.gammaUB = C08Spec.cost (gates.map toG) a := by
  obtain ⟨t, hd, _, hlev, hcost⟩ := plan_path cfg hlo gates a W n k hW hp gates.length (le_refl _)
  refine ⟨t, hd, by simp [isGoal, hlev], ?_⟩
  rw [hcost]
  congr 1
  rw [← List.length_map (f := toG), List.take_length]

/-- circuits the statement is about: two-qubit gates on qubits `< n` that can all be cut, every γ at least one -/
structure CircOK (gates : List Gate) (n : Nat) : Prop where
  two : ∀ g ∈ gates, g.qubits.length = 2
  lt : ∀ g ∈ gates, g.qubits.getD 0 0 < n ∧ g.qubits.getD 1 0 < n
  gam : ∀ g ∈ gates, g.gamma.isSome = true
  ge : ∀ g ∈ gates, ∀ x, g.gamma = some x → 1 ≤ x
  nodup : (gates.map (·.idx)).Nodup

/-- **T08.4 for gate cuts**: when `optimize` reports that the minimum was reached, its overhead is at most that of *every* plan
(`a i = true`: gate `i` is cut, any combination, useless cuts included) whose subcircuits respect the width limit -/
theorem optimize_min_over_gate_plans (cfg : Settings) (hlo : cfg.gateLO = true) (gates : List Gate) (n W : Nat) (hW : 1 ≤ W)
    (rnds : List Rat) (fuel : Nat) (r : Result) (hc : CircOK gates n)
    (h : optimize cfg gates n W rnds fuel = .ok r) (hflag : r.minReached = true)
    (a : Nat → Bool) (hfeas : ∀ q, q < n → compSize gates a n q ≤ W) :
    r.best.gammaUB ≤ C08Spec.cost (gates.map toG) a := by
  obtain ⟨g0, _, hall⟩ := optimize_flag_sound cfg gates n W rnds fuel r hc.nodup hc.ge h hflag
  have hge : ∀ g ∈ gates.map toG, 1 ≤ g.gamma := by
    intro g' hg'
    obtain ⟨g, hg, rfl⟩ := List.mem_map.1 hg'
    obtain ⟨x, hx⟩ := Option.isSome_iff_exists.1 (hc.gam g hg)
    simp only [toG, hx, Option.getD_some]
    exact hc.ge g hg x hx
  set a' := C08Spec.prune (gates.map toG) a with ha'
  have hconn : Conn gates a' = Conn gates a := by rw [conn_eq, conn_eq, ha', C08Spec.conn_prune]
  have hp : PlanOK gates a' W n := by
    refine ⟨hc.two, hc.lt, hc.gam, ?_, ?_⟩
    · intro i g hg hcut
      rw [conn_eq]
      exact C08Spec.prune_no_useless (gates.map toG) a i (toG g) (by simp [List.getElem?_map, hg]) hcut
    · intro q hq
      unfold compSize
      rw [hconn]
      exact hfeas q hq
  obtain ⟨t, hd, hgoal, hcost⟩ := plan_reachable cfg hlo gates a' W n _ hW hp
  calc r.best.gammaUB ≤ t.gammaUB := hall t hd hgoal
    _ = C08Spec.cost (gates.map toG) a' := hcost
    _ ≤ C08Spec.cost (gates.map toG) a := C08Spec.cost_prune_le _ a hge

/-- non-vacuity: two cx gates on three qubits, width limit 2 — cutting the second gate is a feasible plan -/
example : CircOK [⟨0, [0, 1], some 3⟩, ⟨1, [1, 2], some 3⟩] 3 := by
  refine ⟨by decide, by decide, by decide, ?_, by decide⟩
  intro g hg x hx
  simp only [List.mem_cons, List.not_mem_nil, or_false] at hg
  rcases hg with rfl | rfl <;> (injection hx with hx; subst hx; norm_num)

end CKT.C08Link
