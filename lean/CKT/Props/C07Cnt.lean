import CKT.Props.C07
/-!
# C07 — T07.2 (bookkeeping half): the recorded width of every root is the number of wires in its class
-/
namespace CKT.C07
open CKT CKT.CF

/-- number of allocated wires whose root is `r` -/
def classSize (root : List Nat) (nw r : Nat) : Nat := (List.range nw).countP (fun w => decide (rootL root w = r))

structure Cnt' (root width : List Nat) (mw nw : Nat) : Prop where
  width_len : width.length = mw
  size : ∀ r, r < nw → rootL root r = r → width.getD r 0 = classSize root nw r
  fresh_one : ∀ w, nw ≤ w → w < mw → width.getD w 0 = 1

def CntS (s : St) : Prop := Cnt' s.root s.width s.maxWires s.numWires

theorem countP_or_disjoint (l : List Nat) (p q : Nat → Bool) (h : ∀ x, ¬ (p x = true ∧ q x = true)) :
    l.countP (fun x => p x || q x) = l.countP p + l.countP q := by
  induction l with
  | nil => rfl
  | cons a l ih =>
    simp only [List.countP_cons, ih]
    have := h a
    cases hp : p a <;> cases hq : q a <;> simp_all <;> omega

theorem countP_none (l : List Nat) (p : Nat → Bool) (h : ∀ x ∈ l, p x = false) : l.countP p = 0 := by
  rw [List.countP_eq_zero]; intro x hx; simp [h x hx]

theorem countP_eq_range (n r : Nat) : (List.range n).countP (fun w => decide (w = r)) = if r < n then 1 else 0 := by
  induction n with
  | zero => simp
  | succ n ih =>
    rw [List.range_succ, List.countP_append, ih]
    simp only [List.countP_cons, List.countP_nil]
    by_cases h1 : r < n
    · have : n ≠ r := by omega
      simp [h1, this]; omega
    · by_cases h2 : n = r
      · subst h2; simp
      · have : ¬ r < n + 1 := by omega
        simp [h1, h2, this]

theorem init_cnt (n k : Nat) : CntS (St.init n k) := by
  unfold CntS
  simp only [St.init]
  refine ⟨by simp, ?_, ?_⟩
  · intro r hr _
    have hw : (List.replicate (n + k) 1).getD r 0 = 1 := by
      have : r < n + k := by omega
      simp [List.getD_eq_getElem?_getD, List.getElem?_replicate, this]
    rw [hw]
    unfold classSize
    have h1 : (List.range n).countP (fun w => decide (rootL (List.range (n + k)) w = r)) = (List.range n).countP (fun w => decide (w = r)) := by
      apply List.countP_congr
      intro w _
      simp [rootL_range]
    rw [h1, countP_eq_range, if_pos hr]
  · intro w _ hw
    simp [List.getD_eq_getElem?_getD, List.getElem?_replicate, hw]

theorem merge_cnt' (root width : List Nat) (mw nw : Nat) (nm : List (Nat × Nat)) (hi : Inv2' root mw nw nm)
    (hc : Cnt' root width mw nw) (a b : Nat) (ha : rootL root a = a) (hb : rootL root b = b) (hab : a ≠ b) (hlt : max a b < nw) :
    Cnt' (root.map fun r => if r = max a b then min a b else r)
      (width.set (min a b) (width.getD (min a b) 0 + width.getD (max a b) 0)) mw nw := by
  have hr := fun w => rootL_merge root mw nw nm hi a b w hlt
  have hminmax : min a b ≠ max a b := by
    rcases le_total a b with h | h
    · rw [min_eq_left h, max_eq_right h]; exact hab
    · rw [min_eq_right h, max_eq_left h]; exact fun e => hab e.symm
  have hmin_lt : min a b < nw := lt_of_le_of_lt (le_trans (min_le_left _ _) (le_max_left _ _)) hlt
  have hmin_root : rootL root (min a b) = min a b := by
    rcases le_total a b with h | h
    · rw [min_eq_left h]; exact ha
    · rw [min_eq_right h]; exact hb
  have hmax_root : rootL root (max a b) = max a b := by
    rcases le_total a b with h | h
    · rw [max_eq_right h]; exact hb
    · rw [max_eq_left h]; exact ha
  refine ⟨by simp [hc.width_len], ?_, ?_⟩
  · intro r hrn hroot
    rw [hr r] at hroot
    have hne_max : rootL root r ≠ max a b := by
      intro e
      rw [e] at hroot
      simp only [if_true] at hroot
      -- r = min, but rootL r = max
      rw [← hroot, hmin_root] at e
      exact hminmax e
    simp only [hne_max, if_false] at hroot
    have hr_ne_max : r ≠ max a b := by rw [← hroot]; exact hne_max
    rw [getD_set]
    by_cases hrm : min a b = r
    · subst hrm
      have hl : min a b < width.length := by rw [hc.width_len]; exact lt_of_lt_of_le hmin_lt hi.nw_le
      simp only [true_and, hl, if_true]
      rw [hc.size _ hmin_lt hmin_root, hc.size _ hlt hmax_root]
      unfold classSize
      have : (List.range nw).countP (fun w => decide (rootL (root.map fun r => if r = max a b then min a b else r) w = min a b)) =
          (List.range nw).countP (fun w => decide (rootL root w = min a b) || decide (rootL root w = max a b)) := by
        apply List.countP_congr
        intro w _
        rw [hr w]
        by_cases e : rootL root w = max a b
        · simp [e]
        · simp only [e, if_false]
          simp
      rw [this, countP_or_disjoint]
      intro x hx
      simp only [decide_eq_true_eq] at hx
      exact hminmax (hx.1.symm.trans hx.2)
    · simp only [hrm, false_and, if_false]
      rw [hc.size r hrn hroot]
      unfold classSize
      apply List.countP_congr
      intro w _
      rw [hr w]
      by_cases e : rootL root w = max a b
      · simp only [e, if_true, decide_eq_true_eq]
        constructor
        · intro h; exact absurd h.symm hr_ne_max
        · intro h; exact absurd h hrm
      · simp [e]
  · intro w hw hwm
    rw [getD_set]
    have : min a b ≠ w := by omega
    simp only [this, false_and, if_false]
    exact hc.fresh_one w hw hwm

theorem newWire_cnt' (root width : List Nat) (mw nw : Nat) (nm : List (Nat × Nat)) (hi : Inv2' root mw nw nm)
    (hc : Cnt' root width mw nw) (h : nw + 1 ≤ mw) : Cnt' root width mw (nw + 1) := by
  refine ⟨hc.width_len, ?_, fun w hw hwm => hc.fresh_one w (by omega) hwm⟩
  intro r hr hroot
  have hfresh : rootL root nw = nw := hi.fresh_root nw (le_refl _)
  unfold classSize
  rw [List.range_succ, List.countP_append]
  simp only [List.countP_cons, List.countP_nil, hfresh]
  by_cases hrn : r < nw
  · have : nw ≠ r := by omega
    simp only [this, decide_false, Bool.false_eq_true, if_false, Nat.add_zero]
    exact hc.size r hrn hroot
  · have hrn' : r = nw := by omega
    subst hrn'
    simp only [decide_true, if_true]
    rw [hc.fresh_one r (le_refl _) (by omega)]
    have : (List.range r).countP (fun w => decide (rootL root w = r)) = 0 := by
      apply countP_none
      intro x hx
      have := hi.root_le x
      have hx' := List.mem_range.1 hx
      simp; omega
    rw [this]

/-- every action keeps the counting invariant -/
theorem step_cnt (cfg : Settings) (gates : List Gate) (W n : Nat)
    (hq : ∀ g ∈ gates, g.qubits.getD 0 0 < n ∧ g.qubits.getD 1 0 < n)
    (s t : St) (ns : List St) (hi : Inv W n s) (h2 : Inv2 s) (hc : CntS s)
    (h : nextStates cfg gates W s = .ok ns) (ht : t ∈ ns) : CntS t := by
  unfold nextStates at h
  cases hg : gates[s.level]? with
  | none => rw [hg] at h; injection h with h; subst h; cases ht
  | some g =>
    rw [hg] at h
    simp only at h
    split at h
    · cases h
    · injection h with h; subst h
      have hmem : g ∈ gates := List.mem_of_getElem? hg
      obtain ⟨hq1, hq2⟩ := hq g hmem
      have hr1 := qroot_lt hi _ hq1
      have hr2 := qroot_lt hi _ hq2
      have hroot1 : rootL s.root (s.qroot (g.qubits.getD 0 0)) = s.qroot (g.qubits.getD 0 0) := h2.root_idem _
      have hroot2 : rootL s.root (s.qroot (g.qubits.getD 1 0)) = s.qroot (g.qubits.getD 1 0) := h2.root_idem _
      simp only [List.mem_filterMap] at ht
      obtain ⟨a, ha, hat⟩ := ht
      simp only [actionList, List.mem_append, List.mem_cons, List.not_mem_nil, or_false] at ha
      rcases ha with (rfl | ha) | ha
      · -- apply
        unfold applyGate at hat
        simp only at hat
        split at hat
        · cases hat
        · split at hat
          · cases hat
          · injection hat with hat; subst hat
            split
            · rename_i hne
              have := merge_cnt' s.root s.width s.maxWires s.numWires s.noMerge h2 hc _ _ hroot1 hroot2 hne (max_lt hr1 hr2)
              simpa [CntS, St.merge, St.widthOf] using this
            · exact hc
      · split at ha
        · simp only [List.mem_cons, List.not_mem_nil, or_false] at ha; subst ha
          unfold cutGate at hat
          split at hat
          · cases hat
          · simp only at hat
            split at hat
            · cases hat
            · injection hat with hat; subst hat
              exact hc
        · cases ha
      · split at ha
        · simp only [List.mem_cons, List.not_mem_nil, or_false] at ha
          rcases ha with rfl | rfl | rfl
          · unfold cutLeft at hat
            split at hat
            · cases hat
            · rename_i hcan
              simp only at hat
              split at hat
              · cases hat
              · split at hat
                · cases hat
                · injection hat with hat; subst hat
                  have hcan' : s.numWires + 1 ≤ s.maxWires := by simpa [St.canAddWires] using hcan
                  have i1 := newWire_inv2' s.root s.maxWires s.numWires s.noMerge h2 hcan'
                  have c1 := newWire_cnt' s.root s.width s.maxWires s.numWires s.noMerge h2 hc hcan'
                  have hfresh : rootL s.root s.numWires = s.numWires := h2.fresh_root _ (le_refl _)
                  have := merge_cnt' s.root s.width s.maxWires (s.numWires + 1) s.noMerge i1 c1 s.numWires (s.qroot (g.qubits.getD 1 0))
                    hfresh hroot2 (by omega) (by rw [max_eq_left (le_of_lt hr2)]; omega)
                  simpa [CntS, St.merge, St.newWire, St.widthOf] using this
          · unfold cutRight at hat
            split at hat
            · cases hat
            · rename_i hcan
              simp only at hat
              split at hat
              · cases hat
              · split at hat
                · cases hat
                · injection hat with hat; subst hat
                  have hcan' : s.numWires + 1 ≤ s.maxWires := by simpa [St.canAddWires] using hcan
                  have i1 := newWire_inv2' s.root s.maxWires s.numWires s.noMerge h2 hcan'
                  have c1 := newWire_cnt' s.root s.width s.maxWires s.numWires s.noMerge h2 hc hcan'
                  have hfresh : rootL s.root s.numWires = s.numWires := h2.fresh_root _ (le_refl _)
                  have := merge_cnt' s.root s.width s.maxWires (s.numWires + 1) s.noMerge i1 c1 (s.qroot (g.qubits.getD 0 0)) s.numWires
                    hroot1 hfresh (by omega) (by rw [max_eq_right (le_of_lt hr1)]; omega)
                  simpa [CntS, St.merge, St.newWire, St.widthOf] using this
          · unfold cutBoth at hat
            split at hat
            · cases hat
            · rename_i hcan
              split at hat
              · cases hat
              · simp only at hat
                injection hat with hat; subst hat
                have hcan' : s.numWires + 2 ≤ s.maxWires := by simpa [St.canAddWires] using hcan
                have i1 := newWire_inv2' s.root s.maxWires s.numWires s.noMerge h2 (by omega)
                have i1' := newWire_inv2' s.root s.maxWires (s.numWires + 1) s.noMerge i1 (by omega)
                have c1 := newWire_cnt' s.root s.width s.maxWires s.numWires s.noMerge h2 hc (by omega)
                have c1' := newWire_cnt' s.root s.width s.maxWires (s.numWires + 1) s.noMerge i1 c1 (by omega)
                have hf1 : rootL s.root s.numWires = s.numWires := h2.fresh_root _ (le_refl _)
                have hf2 : rootL s.root (s.numWires + 1) = s.numWires + 1 := h2.fresh_root _ (by omega)
                have hmax : max s.numWires (s.numWires + 1) = s.numWires + 1 := max_eq_right (by omega)
                have := merge_cnt' s.root s.width s.maxWires (s.numWires + 1 + 1) s.noMerge i1' c1' s.numWires (s.numWires + 1)
                  hf1 hf2 (by omega) (by rw [hmax]; omega)
                simpa [CntS, St.merge, St.newWire, St.widthOf] using this
        · cases ha

/-- **T07.2 (bookkeeping half)**: in every reachable state, the width recorded for a root is exactly the number of allocated
wires in its class, so (with `reachable_width`) no class of wires ever has more than `W` members. -/
theorem reachable_class_size (cfg : Settings) (gates : List Gate) (W n k : Nat) (hW : 1 ≤ W)
    (hq : ∀ g ∈ gates, g.qubits.getD 0 0 < n ∧ g.qubits.getD 1 0 < n) (t : St)
    (h : Path cfg gates W (St.init n k) t) :
    ∀ r, r < t.numWires → rootL t.root r = r → t.widthOf r = classSize t.root t.numWires r ∧ classSize t.root t.numWires r ≤ W := by
  have key : Inv W n t ∧ Inv2 t ∧ CntS t := by
    induction h with
    | refl => exact ⟨init_inv W n k hW, init_inv2 n k, init_cnt n k⟩
    | step t u ns _ hnext hu ih =>
      exact ⟨step_inv cfg gates W n hq t u ns ih.1 hnext hu, step_inv2 cfg gates W n hq t u ns ih.1 ih.2.1 hnext hu,
        step_cnt cfg gates W n hq t u ns ih.1 ih.2.1 ih.2.2 hnext hu⟩
  intro r hr hroot
  have e := key.2.2.size r hr hroot
  refine ⟨e, ?_⟩
  have := key.1.width_le r
  unfold St.widthOf at this
  omega

end CKT.C07
