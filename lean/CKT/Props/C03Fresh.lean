import CKT.Props.C03
/-!
# C03 — the Move operations act on fresh qubits, and a moved-from qubit is never used again

In the output of the marker-to-Move transformation (closed form of `transformGo`, `C03.transformGo_closed`) let the `k`-th input
instruction be a wire-cut marker; it becomes a Move from position `p` to position `p + 1`.  Then

* `move_target_fresh` — no earlier output instruction touches `p + 1` (the target is a freshly allocated qubit in state |0⟩), and
* `move_source_retired` — no later output instruction touches `p` (the measured qubit is never re-used).

This is the "no re-use" shape that `C19` asks of the workflows it speaks about (T19.1's hypotheses, there evaluated per workflow).
-/
namespace CKT.C03
open CKT

theorem markerFreq_append (a b : List Instr) (q : Nat) : markerFreq (a ++ b) q = markerFreq a q + markerFreq b q := by
  simp [markerFreq, List.filter_append]

theorem markerFreq_take_mono (all : List Instr) (j k : Nat) (h : j ≤ k) (q : Nat) :
    markerFreq (all.take j) q ≤ markerFreq (all.take k) q := by
  obtain ⟨d, rfl⟩ := Nat.exists_eq_add_of_le h
  rw [List.take_add, markerFreq_append]
  omega

theorem take_succ_eq (all : List Instr) (j : Nat) (hj : j < all.length) : all.take (j + 1) = all.take j ++ [all.getD j default] := by
  rw [List.take_add_one, List.getD_eq_getElem?_getD, List.getElem?_eq_getElem hj]
  rfl

theorem markerFreq_single (i : Instr) (q : Nat) (hc : isCutWire i = true) (hq : i.qubits.headD 0 = q) : markerFreq [i] q = 1 := by
  subst hq
  simp only [markerFreq, List.filter_cons, hc, beq_self_eq_true, Bool.and_self, if_true, List.filter_nil, List.length_singleton]

theorem markerFreq_take_strict (all : List Instr) (j k : Nat) (h : j < k) (hj : j < all.length) (q : Nat)
    (hc : isCutWire (all.getD j default) = true) (hq : (all.getD j default).qubits.headD 0 = q) :
    markerFreq (all.take j) q + 1 ≤ markerFreq (all.take k) q := by
  have h1 := markerFreq_take_mono all (j + 1) k h q
  rw [take_succ_eq all j hj, markerFreq_append] at h1
  have := markerFreq_single (all.getD j default) q hc hq
  omega

theorem split_at (all : List Instr) (j : Nat) (hj : j < all.length) : all = all.take j ++ all.getD j default :: all.drop (j + 1) := by
  conv_lhs => rw [← List.take_append_drop j all]
  congr 1
  rw [List.getD_eq_getElem?_getD, List.getElem?_eq_getElem hj]
  exact List.drop_eq_getElem_cons hj

/-- the qubits of the `j`-th output instruction -/
theorem closedForm_qubits (wrap : Bool) (all pre : List Instr) (nb : Nat) (i : Instr) :
    (closedForm wrap all pre nb i).qubits =
      if isCutWire i then [posAfter all pre (i.qubits.headD 0), posAfter all pre (i.qubits.headD 0) + 1]
      else i.qubits.map (posAfter all pre) := by
  unfold closedForm
  by_cases hc : isCutWire i = true
  · cases wrap <;> simp [hc]
  · simp [hc]

/-- positions of two different logical qubits, at any two moments, differ — also when one of them is a Move target -/
theorem ranges_disjoint (all : List Instr) (q q' : Nat) (hne : q ≠ q') (x y : Nat)
    (hx : basePos all q ≤ x ∧ x ≤ finalPos all q) (hy : basePos all q' ≤ y ∧ y ≤ finalPos all q') : x ≠ y := by
  rcases Nat.lt_or_gt_of_ne hne with hlt | hlt
  · have := basePos_mono all q q' hlt; omega
  · have := basePos_mono all q' q hlt; omega

theorem out_qubit_in_range (wrap : Bool) (all : List Instr) (nb j : Nat) (hj : j < all.length) (x : Nat)
    (hx : x ∈ (closedForm wrap all (all.take j) nb (all.getD j default)).qubits) :
    ∃ q, basePos all q ≤ x ∧ x ≤ finalPos all q ∧
      ((x = posAfter all (all.take j) q) ∨
       (x = posAfter all (all.take j) q + 1 ∧ isCutWire (all.getD j default) = true ∧ (all.getD j default).qubits.headD 0 = q)) := by
  rw [closedForm_qubits] at hx
  have hsplit := split_at all j hj
  by_cases hc : isCutWire (all.getD j default) = true
  · simp only [hc, if_true, List.mem_cons, List.not_mem_nil, or_false] at hx
    have hr := posAfter_in_range all (all.take j) _ hsplit ((all.getD j default).qubits.headD 0)
    have ht := move_target_in_range all (all.take j) (all.drop (j + 1)) (all.getD j default) hsplit hc
    rcases hx with rfl | rfl
    · exact ⟨_, hr.1, hr.2, Or.inl rfl⟩
    · exact ⟨_, by omega, ht, Or.inr ⟨rfl, hc, rfl⟩⟩
  · simp only [hc, Bool.false_eq_true, if_false, List.mem_map] at hx
    obtain ⟨q, _, rfl⟩ := hx
    have hr := posAfter_in_range all (all.take j) _ hsplit q
    exact ⟨q, hr.1, hr.2, Or.inl rfl⟩

/-- **the Move target is fresh**: no earlier output instruction touches it -/
theorem move_target_fresh (wrap : Bool) (all : List Instr) (nb j k : Nat) (hjk : j < k) (hk : k < all.length)
    (hc : isCutWire (all.getD k default) = true) :
    posAfter all (all.take k) ((all.getD k default).qubits.headD 0) + 1 ∉
      (closedForm wrap all (all.take j) nb (all.getD j default)).qubits := by
  intro hx
  have hj : j < all.length := by omega
  obtain ⟨q, hlo, hhi, hor⟩ := out_qubit_in_range wrap all nb j hj _ hx
  generalize hq0 : (all.getD k default).qubits.headD 0 = q0 at *
  have hr0 := posAfter_in_range all (all.take k) _ (split_at all k hk) q0
  have ht0 := move_target_in_range all (all.take k) (all.drop (k + 1)) (all.getD k default) (split_at all k hk) hc
  rw [hq0] at ht0
  by_cases hq : q = q0
  · rw [hq] at hor hlo hhi
    rcases hor with h | ⟨h, hcj, hqj⟩
    · have := markerFreq_take_mono all j k (by omega) q0
      simp only [posAfter] at h; omega
    · have := markerFreq_take_strict all j k hjk hj q0 hcj hqj
      simp only [posAfter] at h; omega
  · exact ranges_disjoint all q q0 hq _ _ ⟨hlo, hhi⟩ ⟨by omega, ht0⟩ rfl

/-- **the Move source is retired**: no later output instruction touches it -/
theorem move_source_retired (wrap : Bool) (all : List Instr) (nb j k : Nat) (hkj : k < j) (hj : j < all.length)
    (hc : isCutWire (all.getD k default) = true) :
    posAfter all (all.take k) ((all.getD k default).qubits.headD 0) ∉
      (closedForm wrap all (all.take j) nb (all.getD j default)).qubits := by
  intro hx
  have hk : k < all.length := by omega
  obtain ⟨q, hlo, hhi, hor⟩ := out_qubit_in_range wrap all nb j hj _ hx
  have hstrict := markerFreq_take_strict all k j hkj hk _ hc rfl
  generalize hq0 : (all.getD k default).qubits.headD 0 = q0 at *
  have hr0 := posAfter_in_range all (all.take k) _ (split_at all k hk) q0
  by_cases hq : q = q0
  · rw [hq] at hor hlo hhi
    rcases hor with h | ⟨h, _, _⟩ <;> (simp only [posAfter] at h; omega)
  · exact ranges_disjoint all q q0 hq _ _ ⟨hlo, hhi⟩ hr0 rfl

/-- non-vacuity on the D1 input: the Move met at index 5 goes from position 1 to position 2; positions 2 is untouched before, 1 after -/
example : let all : List Instr := [
      { name := "h", qubits := [0] }, { name := "cut_wire", qubits := [0] }, { name := "cx", qubits := [0, 1] },
      { name := "cut_wire", qubits := [1] }, { name := "cx", qubits := [0, 1] }, { name := "cut_wire", qubits := [0] },
      { name := "h", qubits := [0] } ]
    isCutWire (all.getD 5 default) = true ∧ posAfter all (all.take 5) 0 = 1 ∧
      (closedForm false all (all.take 6) 0 (all.getD 6 default)).qubits = [2] := by decide

end CKT.C03
