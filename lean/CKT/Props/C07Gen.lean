import CKT.Generated.CutActions
import CKT.Props.C07
import Mathlib.Tactic.SplitIfs
/-!
# C07 / C08 — the model's search actions are the translated source

`CKT.Generated.cutActions` is produced on every run from `cut_finding/cutting_actions.py` (Python AST → IR programs, in registration
order).  Interpreting the programs (`CutIR.run`) gives exactly the hand-written model actions the C07/C08 theorems are about
(`run_eq_model`), and the model's `actionList` is the registered list filtered by the groups that are switched on (`actionList_translated`).
A change to a guard, to a cost constant, to what a wire cut allocates, merges or forbids, or to the registrations therefore breaks one of
these obligations.
-/
namespace CKT.C07Gen
open CKT CKT.CF CKT.CutIR CKT.Generated

/-- names, groups and order of the registered actions -/
theorem registered : cutActions.map (fun a => (a.cls, a.name, a.groups)) =
    [("ActionApplyGate", none, [none, some "TwoQubitGates"]),
     ("ActionCutTwoQubitGate", some "CutTwoQubitGate", [some "GateCut", some "TwoQubitGates"]),
     ("ActionCutLeftWire", some "CutLeftWire", [some "WireCut", some "TwoQubitGates"]),
     ("ActionCutRightWire", some "CutRightWire", [some "WireCut", some "TwoQubitGates"]),
     ("ActionCutBothWires", some "CutBothWires", [some "WireCut", some "TwoQubitGates"])] := by decide

theorem run_apply (s : St) (g : Gate) (W : Nat) : run (cutActions.getD 0 default) s g W = applyGate s g W := by
  simp only [cutActions, List.getD_cons_zero, run, interp, Env.ref, applyGate]
  by_cases h1 : s.qroot (g.qubits.getD 0 0) = s.qroot (g.qubits.getD 1 0) <;>
    by_cases h2 : s.widthOf (s.qroot (g.qubits.getD 0 0)) + s.widthOf (s.qroot (g.qubits.getD 1 0)) > W <;>
    by_cases h3 : s.forbidden (s.qroot (g.qubits.getD 0 0)) (s.qroot (g.qubits.getD 1 0)) = true <;> simp [h1, h2, h3]

theorem run_gcut (s : St) (g : Gate) (W : Nat) : run (cutActions.getD 1 default) s g W = cutGate s g W := by
  simp only [cutActions, List.getD_cons_succ, List.getD_cons_zero, run, interp, Env.ref, cutGate]
  cases g.gamma with
  | none => rfl
  | some gam =>
    by_cases h1 : s.qroot (g.qubits.getD 0 0) = s.qroot (g.qubits.getD 1 0) <;> simp [h1]

theorem run_left (s : St) (g : Gate) (W : Nat) : run (cutActions.getD 2 default) s g W = cutLeft s g W := by
  simp only [cutActions, List.getD_cons_succ, List.getD_cons_zero, run, interp, Env.ref, cutLeft]
  by_cases h0 : s.canAddWires 1 = true <;>
    by_cases h1 : s.qroot (g.qubits.getD 0 0) = s.qroot (g.qubits.getD 1 0) <;>
    by_cases h2 : s.widthOf (s.qroot (g.qubits.getD 1 0)) + 1 ≤ W <;> simp [h0, h1, h2, St.newWire]

theorem run_right (s : St) (g : Gate) (W : Nat) : run (cutActions.getD 3 default) s g W = cutRight s g W := by
  simp only [cutActions, List.getD_cons_succ, List.getD_cons_zero, run, interp, Env.ref, cutRight]
  by_cases h0 : s.canAddWires 1 = true <;>
    by_cases h1 : s.qroot (g.qubits.getD 0 0) = s.qroot (g.qubits.getD 1 0) <;>
    by_cases h2 : s.widthOf (s.qroot (g.qubits.getD 0 0)) + 1 ≤ W <;> simp [h0, h1, h2, St.newWire]

theorem run_both (s : St) (g : Gate) (W : Nat) : run (cutActions.getD 4 default) s g W = cutBoth s g W := by
  simp only [cutActions, List.getD_cons_succ, List.getD_cons_zero, run, interp, Env.ref, cutBoth]
  by_cases h0 : s.canAddWires 2 = true <;> by_cases h1 : W < 2 <;> simp [h0, h1, St.newWire, St.merge]

/-- **the translated programs are the model actions** -/
theorem run_eq_model (s : St) (g : Gate) (W : Nat) :
    cutActions.map (fun a => run a s g W) = [applyGate s g W, cutGate s g W, cutLeft s g W, cutRight s g W, cutBoth s g W] := by
  have h0 := run_apply s g W
  have h1 := run_gcut s g W
  have h2 := run_left s g W
  have h3 := run_right s g W
  have h4 := run_both s g W
  simp only [cutActions, List.getD_cons_succ, List.getD_cons_zero] at h0 h1 h2 h3 h4
  simp only [cutActions, List.map_cons, List.map_nil, h0, h1, h2, h3, h4]

/-- **the model's action list is the registered list filtered by the enabled groups**, in registration order -/
theorem actionList_translated (cfg : Settings) (s : St) (g : Gate) (W : Nat) :
    (actionList cfg).map (fun act => act s g W) = (cutActions.filter (enabled cfg)).map (fun a => run a s g W) := by
  have h := run_eq_model s g W
  simp only [cutActions, List.map_cons, List.map_nil, List.cons.injEq, and_true] at h
  obtain ⟨h0, h1, h2, h3, h4⟩ := h
  cases hg : cfg.gateLO <;> cases hw : cfg.wireLO <;>
    simp [actionList, cutActions, enabled, hg, hw, List.filter, h0, h1, h2, h3, h4]

end CKT.C07Gen
