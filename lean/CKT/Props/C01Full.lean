import CKT.Props.C01PTM
import CKT.Sem.Signed
import CKT.Props.C11Walsh
/-!
# C01 — the number `reconstruct_expectation_values` computes from exact outcome distributions is the uncut value

`C01PTM.cut_and_reconstruct` expresses the uncut expectation value through the per-partition values `E_p(choice)` of *linear*
programs in which the `qpd_measure` marker is the signed pair `+Π₀, −Π₁`.  A real subexperiment instead **measures**: QPD
measurements into the bits of the `qpd_measurements` register, then basis rotations and measurements into the
`observable_measurements` register; the estimator sums the outcome distribution with the sign
`(−1)^{popcount(qpd bits) + popcount(obs bits & mask)}` (C06 `reconstructImpl_eq_spec`, `parity_sign`; T11.2 for the mask).
`SubExp.decoded` is that signed sum over the outcome distribution the semantics `CKT.Sem` assigns to the subexperiment;
`decoded_eq` (from `Sem.decode_full`: signed sums over fresh bits + Walsh identity) shows it equals `E_p`; hence

`reconstruction_correct`:  `uncut value = Σ_choices (Π c) · Π_p decoded_p(choice)`

for any number of partitions and cuts, any exact bases, any gate matrices (with standard projectors and `h`/`sx` rotating
`Z` to `X`/`Y`).  The identification of `SubExp` with what `generate_cutting_experiments` emits (body = partition's
subcircuit with the chosen maps spliced in, blocks = `_append_measurement_circuit`) is by the C05/C10/C11/C14 ties and
their structure theorems.
-/
namespace CKT.C01PTM
open CKT CKT.Sem CKT.C01 Finset

variable {K : Type} [CommRing K]

/-- a primitive as a linear operation: a measurement becomes the signed projector pair selected by `e` -/
def lop (e : Nat → Bool) : Prim K → LOp K
  | .gate qs M => (qs, M)
  | .meas q c pr => ([q], signedProj pr (e c))

theorem linRun_eq_runOps (e : Nat → Bool) : ∀ (ps : List (Prim K)) (v : Vec K), linRun e ps v = runOps (ps.map (lop e)) v
  | [], _ => rfl
  | p :: ps, v => by
    simp only [linRun_cons, List.map_cons, runOps_cons]
    rw [linRun_eq_runOps e ps]
    cases p <;> rfl

def allFalse : Cl := fun _ => false

open Classical in
theorem init_allFalse : (init : St K) allFalse = init0 := by
  funext P
  have : (allFalse = fun _ => false) = True := eq_true rfl
  simp only [init, init0, this, true_and]

open Classical in
theorem fresh_init (c : Nat) : Fresh c (init : St K) := by
  intro k hk
  funext P
  have : ¬ k = fun _ => false := by
    intro e; rw [e] at hk; cases hk
  simp [init, this]

theorem clearL_allFalse : ∀ cs : List Nat, clearL cs allFalse = allFalse
  | [] => rfl
  | c :: cs => by
    simp only [clearL, clearL_allFalse cs]
    funext n
    by_cases h : n = c
    · subst h; simp [allFalse]
    · simp [Function.update_of_ne h]

/-- a subexperiment: body (gates and QPD measurements), then the measurement blocks of one commuting group -/
structure SubExp (K : Type) where
  body : List (Prim K)
  blocks : List Block

structure SubExp.WF (x : SubExp K) : Prop where
  qpd_bits : (measBits x.body).Nodup
  block_qubits : (x.blocks.map (·.q)).Nodup
  block_bits : (x.blocks.map (·.c)).Nodup
  disjoint : ∀ b ∈ x.blocks, b.c ∉ measBits x.body
  letters : ∀ b ∈ x.blocks, b.e = true → b.l ≠ 0

/-- the estimator's value for one subexperiment: the outcome distribution summed with the parity sign of the QPD bits
selected by `e` and of the masked observable bits -/
noncomputable def SubExp.decoded (G : GateSem K) (e : Nat → Bool) (x : SubExp K) : K :=
  signedSum ((measBits x.body).map fun c => (c, e c))
    (fun k1 => signedSum (x.blocks.map fun b => (b.c, b.e))
      (fun k2 => runI G (blocksInstrs x.blocks) (actL x.body init) k2 (fun _ => 0)) k1) allFalse

theorem decoded_eq (G : GateSem K) (ms : MeasSem G) (e : Nat → Bool) (x : SubExp K) (h : x.WF) :
    x.decoded G e = runOps (x.body.map (lop e)) init0 (memberStr x.blocks (fun _ => 0)) := by
  unfold SubExp.decoded
  rw [decode_full G ms x.body x.blocks init allFalse (fun _ => 0) e h.qpd_bits h.block_qubits h.block_bits h.disjoint h.letters
    (fun c _ => fresh_init c) (fun b _ => fresh_init b.c) (fun _ _ => rfl)]
  rw [clearBits_eq_clearL, clearL_allFalse, clearL_allFalse, init_allFalse, linRun_eq_runOps]

/-- **C01, semantic end-to-end statement**: the uncut expectation value equals the sum over all joint map choices of the
product of the chosen coefficients times the product over partitions of the *decoded outcome distributions* of the
subexperiments — where the subexperiment of partition `p` for a choice linearises to the chosen partition-local operations
and its measurement blocks spell the observable's restriction to `p`. -/
theorem reconstruction_correct (G : GateSem K) (ms : MeasSem G) (e : Nat → Bool) (lab : Nat → Nat) (S : Finset Nat)
    (gs : List (CGate K)) (O : PStr) (sub : Nat → List (LTerm K) → SubExp K)
    (hex : ∀ g ∈ gs, g.Exact) (hloc : ∀ g ∈ gs, g.Local lab S) (hO : ∀ n, lab n ∉ S → O n = 0)
    (hsub : ∀ p ∈ S, ∀ ch ∈ choices (gs.map CGate.slot), (sub p ch).WF ∧
      (sub p ch).body.map (lop e) = (choiceOps ch).filter (fun o => blockOf lab o == p) ∧
      memberStr (sub p ch).blocks (fun _ => 0) = restr lab p O) :
    runOps (gs.map CGate.op) init0 O =
      ((choices (gs.map CGate.slot)).map fun ch => choiceCoeff ch * ∏ p ∈ S, (sub p ch).decoded G e).sum := by
  rw [cut_and_reconstruct lab S gs O hex hloc hO]
  congr 1
  apply List.map_congr_left
  intro ch hch
  congr 1
  apply Finset.prod_congr rfl
  intro p hp
  obtain ⟨hwf, hbody, hmem⟩ := hsub p hp ch hch
  rw [decoded_eq G ms e _ hwf, hbody, hmem]

/-! ### instruction lists as primitive programs -/

theorem actL_append (a b : List (Prim K)) (σ : St K) : actL (a ++ b) σ = actL b (actL a σ) := by
  simp [actL, List.foldl_append]

/-- running an instruction list is running the concatenation of the primitives of its instructions: the body of a
subexperiment given as an instruction list (what `generate_cutting_experiments` emits before the measurement circuit) is the
primitive program `instrs.flatMap (prims G none)` -/
theorem runI_eq_actL (G : GateSem K) : ∀ (l : List Instr) (σ : St K), runI G l σ = actL (l.flatMap (prims G none)) σ
  | [], _ => rfl
  | i :: l, σ => by
    rw [List.flatMap_cons, actL_append, ← runI_eq_actL G l]
    rfl

/-- a subexperiment given by instruction lists: body, then the measurement blocks -/
def SubExp.ofInstrs (G : GateSem K) (body : List Instr) (blocks : List Block) : SubExp K :=
  { body := body.flatMap (prims G none), blocks := blocks }

theorem SubExp.ofInstrs_final (G : GateSem K) (body : List Instr) (blocks : List Block) (σ : St K) :
    runI G (blocksInstrs blocks) (actL (SubExp.ofInstrs G body blocks).body σ) = runI G (body ++ blocksInstrs blocks) σ := by
  rw [runI_append, runI_eq_actL G body]
  rfl

/-! ### the hypotheses of `reconstruction_correct` can always be met -/

/-- the measurement blocks that read the letters of `O` on the qubits `qs` into the bits `0, 1, …` -/
def obsBlocks (O : PStr) (qs : List Nat) : List Block := qs.zipIdx.map fun qj => { q := qj.1, c := qj.2, l := O qj.1, e := true }

/-- the canonical subexperiment of partition `p` for a choice: the chosen partition-local operations as gates (the
`qpd_measure` markers in their signed-pair form, so no QPD bit is needed) followed by the blocks measuring `O` on `p` -/
def canonicalSub (lab : Nat → Nat) (O : PStr) (supp : Nat → List Nat) (p : Nat) (ch : List (LTerm K)) : SubExp K :=
  { body := ((choiceOps ch).filter fun o => blockOf lab o == p).map fun o => Prim.gate o.1 o.2,
    blocks := obsBlocks O (supp p) }

/-- **non-vacuity of `reconstruction_correct`, for every problem**: whenever the support of the observable inside each
partition is listed (`supp p`: the qubits of partition `p` on which `O` is not the identity, without repetition), the
canonical subexperiments satisfy all hypotheses about `sub` -/
theorem canonicalSub_ok (e : Nat → Bool) (lab : Nat → Nat) (O : PStr) (supp : Nat → List Nat) (p : Nat) (ch : List (LTerm K))
    (hnd : (supp p).Nodup) (hsupp : ∀ n, n ∈ supp p ↔ (lab n = p ∧ O n ≠ 0)) :
    (canonicalSub lab O supp p ch).WF ∧
    (canonicalSub lab O supp p ch).body.map (lop e) = (choiceOps ch).filter (fun o => blockOf lab o == p) ∧
    memberStr (canonicalSub lab O supp p ch).blocks (fun _ => 0) = restr lab p O := by
  have hq : ((obsBlocks O (supp p)).map (·.q)) = supp p := by
    simp only [obsBlocks, List.map_map, Function.comp_def]
    conv_rhs => rw [← List.zipIdx_map_fst 0 (supp p)]
  have hbits : (measBits (canonicalSub lab O supp p ch).body) = [] := by
    simp only [canonicalSub, measBits]
    induction (List.filter (fun o => blockOf lab o == p) (choiceOps ch)) with
    | nil => rfl
    | cons o rest ih => simpa [Prim.clbits] using ih
  refine ⟨⟨?_, ?_, ?_, ?_, ?_⟩, ?_, ?_⟩
  · rw [hbits]; exact List.nodup_nil
  · show ((obsBlocks O (supp p)).map (·.q)).Nodup
    rw [hq]; exact hnd
  · show ((obsBlocks O (supp p)).map (·.c)).Nodup
    have : (obsBlocks O (supp p)).map (·.c) = List.range' 0 (supp p).length := by
      simp only [obsBlocks, List.map_map, Function.comp_def]
      rw [← List.zipIdx_map_snd 0 (supp p)]
    rw [this]; exact List.nodup_range'
  · intro b _
    rw [hbits]; simp
  · intro b hb _
    simp only [canonicalSub, obsBlocks, List.mem_map] at hb
    obtain ⟨qj, hqj, rfl⟩ := hb
    have : qj.1 ∈ supp p := List.fst_mem_of_mem_zipIdx (x := qj) hqj
    exact ((hsupp qj.1).1 this).2
  · simp only [canonicalSub, List.map_map, Function.comp_def, lop]
    exact List.map_id' _
  · funext n
    show memberStr (obsBlocks O (supp p)) (fun _ => 0) n = restr lab p O n
    by_cases hn : n ∈ supp p
    · have hnq : n ∈ (obsBlocks O (supp p)).map (·.q) := by rw [hq]; exact hn
      simp only [List.mem_map] at hnq
      obtain ⟨b, hb, rfl⟩ := hnq
      have hqnd : ((obsBlocks O (supp p)).map (·.q)).Nodup := by rw [hq]; exact hnd
      rw [CKT.C11.memberStr_at _ _ hqnd b hb]
      simp only [obsBlocks, List.mem_map] at hb
      obtain ⟨qj, _, rfl⟩ := hb
      simp [restr, ((hsupp qj.1).1 hn).1]
    · have hnq : n ∉ (obsBlocks O (supp p)).map (·.q) := by rw [hq]; exact hn
      rw [CKT.C11.memberStr_off _ _ n hnq]
      unfold restr
      by_cases hl : lab n = p
      · have : O n = 0 := by
          by_contra h0
          exact hn ((hsupp n).2 ⟨hl, h0⟩)
        simp [hl, this]
      · simp [hl]

/-- `reconstruction_correct` with the canonical subexperiments: no hypothesis about `sub` is left -/
theorem reconstruction_correct_canonical (G : GateSem K) (ms : MeasSem G) (e : Nat → Bool) (lab : Nat → Nat) (S : Finset Nat)
    (gs : List (CGate K)) (O : PStr) (supp : Nat → List Nat)
    (hex : ∀ g ∈ gs, g.Exact) (hloc : ∀ g ∈ gs, g.Local lab S) (hO : ∀ n, lab n ∉ S → O n = 0)
    (hnd : ∀ p ∈ S, (supp p).Nodup) (hsupp : ∀ p ∈ S, ∀ n, n ∈ supp p ↔ (lab n = p ∧ O n ≠ 0)) :
    runOps (gs.map CGate.op) init0 O =
      ((choices (gs.map CGate.slot)).map fun ch => choiceCoeff ch *
        ∏ p ∈ S, (canonicalSub lab O supp p ch).decoded G e).sum :=
  reconstruction_correct G ms e lab S gs O (canonicalSub lab O supp) hex hloc hO
    (fun p hp ch _ => canonicalSub_ok e lab O supp p ch (hnd p hp) (hsupp p hp))

end CKT.C01PTM
