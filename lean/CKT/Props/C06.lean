import CKT.Model.Reconstruct
import Mathlib.Algebra.BigOperators.Group.List.Basic
import Mathlib.Algebra.Order.Field.Rat
import Mathlib.Tactic.Ring
import Mathlib.Tactic.Linarith
/-!
# C06 — reconstruction computes the defined estimator, V1 ≡ V2
Property theorems only (helper lemmas are `private`/local and never weaken a statement).
-/
namespace CKT.C06
open CKT

/-! ## T06.3 parity signs -/

theorem paritySign_eq_neg_one_pow (x : Nat) : paritySign x = (-1 : Int) ^ bitCount x := by
  unfold paritySign
  rw [Nat.and_one_is_mod]
  rcases Nat.mod_two_eq_zero_or_one (bitCount x) with h | h
  · rw [h]
    have : Even (bitCount x) := Nat.even_iff.mpr h
    simp [this.neg_one_pow]
  · rw [h]
    have : Odd (bitCount x) := Nat.odd_iff.mpr h
    simp [this.neg_one_pow]

theorem bitCount_eq_card_bits (n : Nat) : ∀ x, x < 2 ^ n →
    bitCount x = ((List.range n).filter (fun i => x.testBit i)).length := by
  induction n with
  | zero => intro x hx; have : x = 0 := by simpa using hx
            subst this; simp [bitCount]
  | succ n ih =>
    intro x hx
    cases x with
    | zero => simp [bitCount]
    | succ y =>
      rw [bitCount, List.range_succ_eq_map, List.filter_cons, List.filter_map]
      have hlt : (y + 1) / 2 < 2 ^ n := by
        rw [Nat.div_lt_iff_lt_mul (by decide)]; rw [Nat.pow_succ] at hx; omega
      rw [ih _ hlt]
      have h2 : ((fun i => (y + 1).testBit i) ∘ Nat.succ) = fun i => ((y + 1) / 2).testBit i := by
        funext i; simp [Nat.testBit_succ]
      rw [h2]
      rcases Nat.mod_two_eq_zero_or_one (y + 1) with h | h
      · have : (y + 1).testBit 0 = false := by simp [Nat.testBit_zero, h]
        simp [this, h]
      · have : (y + 1).testBit 0 = true := by simp [Nat.testBit_zero, h]
        simp [this, h]; omega

/-- the sign attached to an outcome is the product over the measured bits selected by the mask -/
theorem paritySign_and_mask (n x m : Nat) (hx : x < 2 ^ n) :
    paritySign (x &&& m) =
      (-1 : Int) ^ ((List.range n).filter (fun i => x.testBit i && m.testBit i)).length := by
  rw [paritySign_eq_neg_one_pow, bitCount_eq_card_bits n]
  · congr 2; apply List.filter_congr; intro i _; simp [Nat.testBit_and]
  · exact Nat.lt_of_le_of_lt Nat.and_le_left hx

/-! ## T06.2 V1 key = observable bits + QPD bits shifted -/

theorem processOutcome_split (c : Cog) (obs qpd : Nat) (h : obs < 2 ^ c.numMeasBits) :
    processOutcome c (obs + qpd * 2 ^ c.numMeasBits) = processOutcomeV2 c obs qpd := by
  unfold processOutcome
  have hpos : 0 < 2 ^ c.numMeasBits := Nat.two_pow_pos _
  have h1 : (obs + qpd * 2 ^ c.numMeasBits) &&& ((1 <<< c.numMeasBits) - 1) = obs := by
    rw [Nat.one_shiftLeft, Nat.and_two_pow_sub_one_eq_mod, Nat.add_mul_mod_self_right, Nat.mod_eq_of_lt h]
  have h2 : (obs + qpd * 2 ^ c.numMeasBits) >>> c.numMeasBits = qpd := by
    rw [Nat.shiftRight_eq_div_pow, Nat.add_mul_div_right _ _ hpos, Nat.div_eq_of_lt h, Nat.zero_add]
  simp only [h1, h2]

/-! ## the accumulator loops compute sums -/

private theorem vadd_length (a b : List Rat) (h : a.length = b.length) : (vadd a b).length = a.length := by
  simp [vadd, h]

private theorem vadd_getD (a b : List Rat) (j : Nat) (h : a.length = b.length) :
    (vadd a b).getD j 0 = a.getD j 0 + b.getD j 0 := by
  unfold vadd
  by_cases hj : j < a.length
  · have hj' : j < b.length := h ▸ hj
    simp [List.getD_eq_getElem?_getD, List.getElem?_zipWith, List.getElem?_eq_getElem hj, List.getElem?_eq_getElem hj']
  · have hj' : ¬ j < b.length := h ▸ hj
    simp [List.getD_eq_getElem?_getD, List.getElem?_zipWith, List.getElem?_eq_none (Nat.le_of_not_lt hj),
      List.getElem?_eq_none (Nat.le_of_not_lt hj')]

private theorem fold_vadd {α : Type} (f : α → List Rat) (n : Nat) (hf : ∀ a, (f a).length = n) :
    ∀ (l : List α) (acc : List Rat), acc.length = n →
      (l.foldl (fun acc a => vadd acc (f a)) acc).length = n ∧
      ∀ j, (l.foldl (fun acc a => vadd acc (f a)) acc).getD j 0 = acc.getD j 0 + (l.map (fun a => (f a).getD j 0)).sum := by
  intro l
  induction l with
  | nil => intro acc h; simp [h]
  | cons a l ih =>
    intro acc h
    have hl : (vadd acc (f a)).length = n := by rw [vadd_length _ _ (by rw [h, hf])]; exact h
    obtain ⟨h1, h2⟩ := ih (vadd acc (f a)) hl
    refine ⟨by simpa using h1, ?_⟩
    intro j
    simp only [List.foldl_cons, List.map_cons, List.sum_cons]
    rw [h2 j, vadd_getD _ _ _ (by rw [h, hf])]; ring

private theorem vscale_length (p : Rat) (v : List Int) : (vscale p v).length = v.length := by simp [vscale]
private theorem processOutcomeV2_length (c : Cog) (o q : Nat) : (processOutcomeV2 c o q).length = c.masks.length := by
  simp [processOutcomeV2]
private theorem processOutcome_length (c : Cog) (o : Nat) : (processOutcome c o).length = c.masks.length := by
  simp [processOutcome, processOutcomeV2]

/-- E for quasi-distribution data: `Σ_outcomes quasi_prob · sign` (component `j`). -/
theorem groupExpvals_v1_sum (c : Cog) (dist : List (Nat × Rat)) (j : Nat) :
    (groupExpvals c (.v1 dist)).getD j 0 =
      (dist.map fun op => (vscale op.2 (processOutcome c op.1)).getD j 0).sum := by
  unfold groupExpvals
  have := (fold_vadd (fun op : Nat × Rat => vscale op.2 (processOutcome c op.1)) c.masks.length
    (by intro a; rw [vscale_length, processOutcome_length]) dist (vzero c.masks.length) (by simp [vzero])).2 j
  rw [this]; simp [vzero, List.getD_eq_getElem?_getD, List.getElem?_replicate]
  split <;> simp

/-- E for per-shot data: the average over shots of the sign (component `j`). -/
theorem groupExpvals_v2_sum (c : Cog) (shots : List (Nat × Nat)) (j : Nat) :
    (groupExpvals c (.v2 shots)).getD j 0 =
      (shots.map fun s => (vscale (1 / (shots.length : Rat)) (processOutcomeV2 c s.1 s.2)).getD j 0).sum := by
  unfold groupExpvals
  have := (fold_vadd (fun s : Nat × Nat => vscale (1 / (shots.length : Rat)) (processOutcomeV2 c s.1 s.2)) c.masks.length
    (by intro a; rw [vscale_length, processOutcomeV2_length]) shots (vzero c.masks.length) (by simp [vzero])).2 j
  simp only [] at this ⊢
  rw [this]; simp [vzero, List.getD_eq_getElem?_getD, List.getElem?_replicate]
  split <;> simp

theorem groupExpvals_length (c : Cog) (d : ExpData) : (groupExpvals c d).length = c.masks.length := by
  cases d with
  | v1 dist =>
    exact (fold_vadd (fun op : Nat × Rat => vscale op.2 (processOutcome c op.1)) c.masks.length
      (by intro a; rw [vscale_length, processOutcome_length]) dist (vzero c.masks.length) (by simp [vzero])).1
  | v2 shots =>
    exact (fold_vadd (fun s : Nat × Nat => vscale (1 / (shots.length : Rat)) (processOutcomeV2 c s.1 s.2)) c.masks.length
      (by intro a; rw [vscale_length, processOutcomeV2_length]) shots (vzero c.masks.length) (by simp [vzero])).1

private theorem list_ext_getD (a b : List Rat) (hl : a.length = b.length) (h : ∀ j, a.getD j 0 = b.getD j 0) : a = b := by
  apply List.ext_getElem hl
  intro i h1 h2
  have := h i
  simpa [List.getD_eq_getElem?_getD, List.getElem?_eq_getElem h1, List.getElem?_eq_getElem h2] using this

/-- V1 (quasi-distribution keyed by `obs + qpd·2^nb`) and V2 (per-shot registers) agree. -/
theorem groupExpvals_v1_eq_v2 (c : Cog) (shots : List (Nat × Nat))
    (h : ∀ s ∈ shots, s.1 < 2 ^ c.numMeasBits) :
    groupExpvals c (.v1 (distOfShots c.numMeasBits shots)) = groupExpvals c (.v2 shots) := by
  apply list_ext_getD _ _ (by rw [groupExpvals_length, groupExpvals_length])
  intro j
  rw [groupExpvals_v1_sum, groupExpvals_v2_sum]
  unfold distOfShots
  rw [List.map_map]
  congr 1
  apply List.map_congr_left
  intro s hs
  simp only [Function.comp]
  rw [processOutcome_split c s.1 s.2 (h s hs)]

/-- The order in which outcomes are listed (dict iteration order) does not matter. -/
theorem groupExpvals_v1_perm_invariant (c : Cog) (d d' : List (Nat × Rat)) (h : d.Perm d') :
    groupExpvals c (.v1 d) = groupExpvals c (.v1 d') := by
  apply list_ext_getD _ _ (by rw [groupExpvals_length, groupExpvals_length])
  intro j
  rw [groupExpvals_v1_sum, groupExpvals_v1_sum]
  exact (h.map _).sum_eq

/-- Aggregating two entries with the same key (what a dict does) does not change the value. -/
theorem groupExpvals_v1_merge (c : Cog) (k : Nat) (p q : Rat) (d : List (Nat × Rat)) :
    groupExpvals c (.v1 ((k, p) :: (k, q) :: d)) = groupExpvals c (.v1 ((k, p + q) :: d)) := by
  apply list_ext_getD _ _ (by rw [groupExpvals_length, groupExpvals_length])
  intro j
  rw [groupExpvals_v1_sum, groupExpvals_v1_sum]
  simp only [List.map_cons, List.sum_cons, ← add_assoc]
  congr 1
  simp only [vscale, List.getD_eq_getElem?_getD, List.getElem?_map]
  cases (processOutcome c k)[j]? <;> simp; ring

/-! ## T06.1 the loops of `reconstruct_expectation_values` compute the estimator -/

private theorem vmul_length (a b : List Rat) (h : a.length = b.length) : (vmul a b).length = a.length := by
  simp [vmul, h]

private theorem vmul_getD (a b : List Rat) (j : Nat) (h : a.length = b.length) :
    (vmul a b).getD j 1 = a.getD j 1 * b.getD j 1 := by
  unfold vmul
  by_cases hj : j < a.length
  · have hj' : j < b.length := h ▸ hj
    simp [List.getD_eq_getElem?_getD, List.getElem?_zipWith, List.getElem?_eq_getElem hj, List.getElem?_eq_getElem hj']
  · have hj' : ¬ j < b.length := h ▸ hj
    simp [List.getD_eq_getElem?_getD, List.getElem?_zipWith, List.getElem?_eq_none (Nat.le_of_not_lt hj),
      List.getElem?_eq_none (Nat.le_of_not_lt hj')]

private theorem fold_vmul {α : Type} (f : α → List Rat) (n : Nat) :
    ∀ (l : List α), (∀ a ∈ l, (f a).length = n) → ∀ (acc : List Rat), acc.length = n →
      (l.foldl (fun acc a => vmul acc (f a)) acc).length = n ∧
      ∀ j, (l.foldl (fun acc a => vmul acc (f a)) acc).getD j 1 = acc.getD j 1 * (l.map (fun a => (f a).getD j 1)).prod := by
  intro l
  induction l with
  | nil => intro _ acc h; simp [h]
  | cons a l ih =>
    intro hf acc h
    have hfa : (f a).length = n := hf a (by simp)
    have hl : (vmul acc (f a)).length = n := by rw [vmul_length _ _ (by rw [h, hfa])]; exact h
    obtain ⟨h1, h2⟩ := ih (fun b hb => hf b (by simp [hb])) (vmul acc (f a)) hl
    refine ⟨by simpa using h1, ?_⟩
    intro j
    simp only [List.foldl_cons, List.map_cons, List.prod_cons]
    rw [h2 j, vmul_getD _ _ _ (by rw [h, hfa])]; ring

private theorem getD_of_lt (a : List Rat) (d : Rat) (j : Nat) (h : j < a.length) : a.getD j d = a[j] := by
  simp [List.getD_eq_getElem?_getD, List.getElem?_eq_getElem h]

private theorem zipIdx_map_eq_range_map {β : Type} (l : List Rat) (f : Rat × Nat → β) (d : Rat) :
    l.zipIdx.map f = (List.range l.length).map (fun i => f (l.getD i d, i)) := by
  apply List.ext_getElem
  · simp
  · intro i h1 h2
    have hi : i < l.length := by simpa using h1
    simp [List.getD_eq_getElem?_getD, List.getElem?_eq_getElem hi]

/-- Full statement: for well-formed input (every partition lists one `lookup` entry per observable)
the accumulator loops return exactly `Σ_i coeff_i · Π_partitions E_{i,partition}[k]`. -/
theorem reconstructImpl_eq_spec (subs : List Subsystem) (coeffs : List Rat) (nobs : Nat)
    (hv : validateCounts subs coeffs.length = true)
    (hl : ∀ s ∈ subs, s.lookup.length = nobs) :
    reconstructImpl subs coeffs nobs = .ok (reconstructSpec subs coeffs nobs) := by
  unfold reconstructImpl
  simp only [hv, Bool.not_true, Bool.false_eq_true, if_false]
  congr 1
  -- inner product loop
  have hinner : ∀ i : Nat,
      (subs.foldl (fun cur s => vmul cur (subsystemFactors s i)) (List.replicate nobs 1)).length = nobs ∧
      ∀ k, (subs.foldl (fun cur s => vmul cur (subsystemFactors s i)) (List.replicate nobs 1)).getD k 1
        = (List.replicate nobs (1:Rat)).getD k 1 * (subs.map fun s => (subsystemFactors s i).getD k 1).prod := by
    intro i
    exact fold_vmul (fun s => subsystemFactors s i) nobs subs
      (by intro s hs; simp [subsystemFactors, hl s hs]) _ (by simp)
  -- outer sum loop
  have houter := fold_vadd (fun ci : Rat × Nat =>
      (subs.foldl (fun cur s => vmul cur (subsystemFactors s ci.2)) (List.replicate nobs 1)).map (ci.1 * ·)) nobs
      (by intro a; simp [(hinner a.2).1]) coeffs.zipIdx (vzero nobs) (by simp [vzero])
  apply List.ext_getElem
  · rw [houter.1]; simp [reconstructSpec]
  · intro k h1 h2
    have hk : k < nobs := by rw [houter.1] at h1; exact h1
    have e1 := houter.2 k
    rw [getD_of_lt _ _ _ h1] at e1
    rw [e1]
    simp only [reconstructSpec, List.getElem_map, List.getElem_range]
    rw [zipIdx_map_eq_range_map _ _ (0 : Rat)]
    have hz : (vzero nobs).getD k 0 = 0 := by simp [vzero, List.getD_eq_getElem?_getD, List.getElem?_replicate, hk]
    rw [hz, zero_add]
    congr 1
    apply List.map_congr_left
    intro i _
    have hi := hinner i
    have hlen : k < (subs.foldl (fun cur s => vmul cur (subsystemFactors s i)) (List.replicate nobs 1)).length := by
      rw [hi.1]; exact hk
    have e2 := hi.2 k
    rw [getD_of_lt _ _ _ hlen] at e2
    have hr : (List.replicate nobs (1:Rat)).getD k 1 = 1 := by simp [List.getD_eq_getElem?_getD, List.getElem?_replicate, hk]
    rw [hr, one_mul] at e2
    simp only [List.getD_eq_getElem?_getD, List.getElem?_map, List.getElem?_eq_getElem hlen, Option.map_some, Option.getD_some]
    rw [e2]
    simp [List.getD_eq_getElem?_getD]

theorem reconstruct_refuses_count_mismatch (subs : List Subsystem) (coeffs : List Rat) (nobs : Nat)
    (h : validateCounts subs coeffs.length = false) :
    ∃ m, reconstructImpl subs coeffs nobs = .error (.value m) := by
  unfold reconstructImpl; simp [h]

/-! ## T06.5 the key formats denote the intended integer -/

private theorem digitVal_digitChar : ∀ d, d < 16 → digitVal (digitChar d) = some d := by
  decide

private theorem digitChar_ne_space : ∀ d, d < 16 → (digitChar d != ' ') = true := by
  decide

private def pstep (base : Nat) (acc : Option Nat) (c : Char) : Option Nat :=
  match acc, digitVal c with
  | some a, some d => if d < base then some (a * base + d) else none
  | _, _ => none

private theorem parseDigits_eq (base : Nat) (cs : List Char) (h : cs ≠ []) :
    parseDigits base cs = cs.foldl (pstep base) (some 0) := by
  unfold parseDigits
  have : cs.isEmpty = false := by cases cs <;> simp_all
  simp only [this, Bool.false_eq_true, if_false]
  rfl

private theorem foldr_digitsRev (b : Nat) (hb : 2 ≤ b) (hb' : b ≤ 16) : ∀ n,
    (digitsRev b n).foldr (fun c acc => pstep b acc c) (some 0) = some n := by
  intro n
  induction n using Nat.strong_induction_on with
  | _ n ih =>
    rw [digitsRev]
    split
    · rename_i h
      have hn : n < b := by omega
      simp [pstep, digitVal_digitChar n (by omega), hn]
    · rename_i h
      have hn : ¬ n < b := by omega
      have hlt : n / b < n := Nat.div_lt_self (by omega) (by omega)
      simp only [List.foldr_cons]
      rw [ih _ hlt]
      have hm : n % b < b := Nat.mod_lt _ (by omega)
      simp [pstep, digitVal_digitChar (n % b) (by omega), hm]
      exact Nat.div_add_mod' n b

private theorem digitsRev_ne_nil (b n : Nat) : digitsRev b n ≠ [] := by
  rw [digitsRev]; split <;> simp

private theorem digits_ne_nil (b n : Nat) : digits b n ≠ [] := by
  simp [digits, digitsRev_ne_nil]

private theorem parseDigits_digits (b : Nat) (hb : 2 ≤ b) (hb' : b ≤ 16) (n : Nat) :
    parseDigits b (digits b n) = some n := by
  rw [parseDigits_eq _ _ (digits_ne_nil b n)]
  unfold digits
  rw [List.foldl_reverse]
  exact foldr_digitsRev b hb hb' n

private theorem digitsRev_mem (b : Nat) (hb : 2 ≤ b) : ∀ n, ∀ c ∈ digitsRev b n, ∃ d, d < b ∧ c = digitChar d := by
  intro n
  induction n using Nat.strong_induction_on with
  | _ n ih =>
    intro c hc
    rw [digitsRev] at hc
    split at hc
    · rename_i h
      simp at hc
      exact ⟨n, by omega, hc⟩
    · rename_i h
      simp at hc
      rcases hc with hc | hc
      · exact ⟨n % b, Nat.mod_lt _ (by omega), hc⟩
      · exact ih _ (Nat.div_lt_self (by omega) (by omega)) c hc

private theorem filter_nospace (l : List Char) (h : ∀ c ∈ l, (c != ' ') = true) : l.filter (· != ' ') = l := by
  rw [List.filter_eq_self]; exact h

/-- hex keys (`hex(n)`): `"0x" ++ hexdigits` parses to `n`. -/
theorem outcomeToInt_hex (n : Nat) : outcomeToIntChars ('0' :: 'x' :: digits 16 n) = some n := by
  unfold outcomeToIntChars
  have hmem : ∀ c ∈ digits 16 n, (c != ' ') = true := by
    intro c hc
    obtain ⟨d, hd, rfl⟩ := digitsRev_mem 16 (by decide) n c (by simpa [digits] using hc)
    exact digitChar_ne_space d hd
  have : ('0' :: 'x' :: digits 16 n).filter (· != ' ') = '0' :: 'x' :: digits 16 n := by
    apply filter_nospace
    intro c hc
    simp at hc
    rcases hc with rfl | rfl | hc
    · decide
    · decide
    · exact hmem c hc
  simp only [this]
  have hx0 : ¬ ('x' = '0' ∨ 'x' = '1') := by decide
  simp only [hx0, if_false, true_and, true_or, if_true]
  exact parseDigits_digits 16 (by decide) (by decide) n

private theorem foldl_zeros (k : Nat) : (List.replicate k '0').foldl (pstep 2) (some 0) = some 0 := by
  induction k with
  | zero => rfl
  | succ k ih => rw [List.replicate_succ, List.foldl_cons]; simpa [pstep, digitVal] using ih

/-- binary keys, zero-padded to any width (`format(n,"b").zfill(w)`), parse to `n`. -/
theorem outcomeToInt_binary (n k : Nat) :
    outcomeToIntChars (List.replicate k '0' ++ digits 2 n) = some n := by
  have hbin : ∀ c ∈ List.replicate k '0' ++ digits 2 n, c = '0' ∨ c = '1' := by
    intro c hc
    rw [List.mem_append] at hc
    rcases hc with hc | hc
    · left; exact (List.mem_replicate.mp hc).2
    · obtain ⟨d, hd, rfl⟩ := digitsRev_mem 2 (by decide) n c (by simpa [digits] using hc)
      have : d = 0 ∨ d = 1 := by omega
      rcases this with rfl | rfl
      · left; decide
      · right; decide
  have hne : List.replicate k '0' ++ digits 2 n ≠ [] := by
    simp [digits_ne_nil]
  have hval : parseDigits 2 (List.replicate k '0' ++ digits 2 n) = some n := by
    rw [parseDigits_eq _ _ hne, List.foldl_append, foldl_zeros]
    rw [← parseDigits_eq _ _ (digits_ne_nil 2 n)]
    exact parseDigits_digits 2 (by decide) (by decide) n
  unfold outcomeToIntChars
  have hf : (List.replicate k '0' ++ digits 2 n).filter (· != ' ') = List.replicate k '0' ++ digits 2 n := by
    apply filter_nospace
    intro c hc
    rcases hbin c hc with rfl | rfl <;> decide
  simp only [hf]
  generalize hL : List.replicate k '0' ++ digits 2 n = L at *
  match L, hne, hbin with
  | [c], _, _ => simpa using hval
  | c0 :: c1 :: rest, _, hb =>
    have : c1 = '0' ∨ c1 = '1' := hb c1 (by simp)
    simp only [this, if_true]
    exact hval

end CKT.C06
