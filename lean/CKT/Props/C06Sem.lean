import CKT.Props.C06
import CKT.Sem.Signed
import Mathlib.Algebra.Ring.Rat
import Mathlib.Algebra.BigOperators.Intervals
/-!
# C06 ↔ `CKT.Sem`: the estimator applied to an exact outcome distribution is a signed sum over the classical bits

`groupExpvals` (the model of the accumulator loop of `reconstruct_expectation_values`, C06) on the quasi-distribution that
lists, for every key `n < 2^N`, the weight `g (bits of n)` computes, for the `j`-th member of the group,

  `Σ_n g(n) · paritySign(qpd part of n) · paritySign(observable part of n & mask_j)`.

`estimator_is_signedSum` shows that this number is `Sem.signedSum` over the `N` classical bits, with the sign applied to
every QPD bit and to the masked observable bits — the quantity that `Sem.decode_full` / `C01Full.decoded_eq` evaluate to
the expectation value `E_p`.  (Key layout: observable register = the low `nb` bits, QPD register above it, T06.2.)
-/
namespace CKT.C06Sem
open CKT CKT.Sem CKT.C06 Finset

/-- the register value whose first `N` bits spell `n` and which agrees with `k0` above -/
def overlay (k0 : Cl) (n N : Nat) : Cl := fun c => if c < N then n.testBit c else k0 c

/-- the bits `N-1, …, 0`, each with its sign flag -/
def bitsDesc (e : Nat → Bool) : Nat → List (Nat × Bool)
  | 0 => []
  | N + 1 => (N, e N) :: bitsDesc e N

/-- product of the signs of the set bits of `n` among the first `N` bits -/
def sgnProd (e : Nat → Bool) (n : Nat) : Nat → ℚ
  | 0 => 1
  | N + 1 => sgn (e N) (n.testBit N) * sgnProd e n N

theorem sgnProd_congr (e : Nat → Bool) (n m : Nat) : ∀ N, (∀ c < N, n.testBit c = m.testBit c) → sgnProd e n N = sgnProd e m N
  | 0, _ => rfl
  | N + 1, h => by
    simp only [sgnProd, h N (Nat.lt_succ_self N)]
    rw [sgnProd_congr e n m N (fun c hc => h c (Nat.lt_succ_of_lt hc))]

theorem overlay_low (k0 : Cl) (n N : Nat) (hn : n < 2 ^ N) : overlay k0 n (N + 1) = overlay (Function.update k0 N false) n N := by
  funext c
  unfold overlay
  by_cases h1 : c < N
  · simp [h1, Nat.lt_succ_of_lt h1]
  · by_cases h2 : c = N
    · subst h2
      simp [Nat.testBit_lt_two_pow hn]
    · have : ¬ c < N + 1 := by omega
      simp [h1, this, Function.update_of_ne h2]

theorem overlay_high (k0 : Cl) (n N : Nat) (hn : n < 2 ^ N) : overlay k0 (2 ^ N + n) (N + 1) = overlay (Function.update k0 N true) n N := by
  funext c
  unfold overlay
  by_cases h1 : c < N
  · simp [h1, Nat.lt_succ_of_lt h1, Nat.testBit_two_pow_add_gt h1]
  · by_cases h2 : c = N
    · subst h2
      simp [Nat.testBit_two_pow_add_eq, Nat.testBit_lt_two_pow hn]
    · have : ¬ c < N + 1 := by omega
      simp [h1, this, Function.update_of_ne h2]

/-- a signed sum over the first `N` bits is a sum over the keys `n < 2^N` -/
theorem signedSum_bitsDesc (e : Nat → Bool) (g : Cl → ℚ) : ∀ (N : Nat) (k0 : Cl),
    signedSum (bitsDesc e N) g k0 = ∑ n ∈ Finset.range (2 ^ N), sgnProd e n N * g (overlay k0 n N)
  | 0, k0 => by
    have : overlay k0 0 0 = k0 := by funext c; simp [overlay]
    simp [bitsDesc, signedSum, sgnProd, this]
  | N + 1, k0 => by
    simp only [bitsDesc, signedSum, Fintype.sum_bool]
    rw [signedSum_bitsDesc e g N, signedSum_bitsDesc e g N]
    have h2 : 2 ^ (N + 1) = 2 ^ N + 2 ^ N := by rw [pow_succ]; ring
    rw [h2, Finset.sum_range_add, Finset.mul_sum, Finset.mul_sum, add_comm]
    congr 1
    · apply Finset.sum_congr rfl
      intro n hn
      have hn' : n < 2 ^ N := Finset.mem_range.1 hn
      rw [overlay_low k0 n N hn']
      simp only [sgnProd, Nat.testBit_lt_two_pow hn']
      ring
    · apply Finset.sum_congr rfl
      intro n hn
      have hn' : n < 2 ^ N := Finset.mem_range.1 hn
      rw [overlay_high k0 n N hn']
      have hb : (2 ^ N + n).testBit N = true := by simp [Nat.testBit_two_pow_add_eq, Nat.testBit_lt_two_pow hn']
      simp only [sgnProd, hb]
      rw [sgnProd_congr e (2 ^ N + n) n N (fun c hc => Nat.testBit_two_pow_add_gt hc n)]
      ring

/-! ### the sign the estimator attaches to a key -/

theorem sgnProd_eq_pow (e : Nat → Bool) (n : Nat) : ∀ N,
    sgnProd e n N = (-1 : ℚ) ^ ((List.range N).filter fun c => e c && n.testBit c).length
  | 0 => by simp [sgnProd]
  | N + 1 => by
    rw [sgnProd, sgnProd_eq_pow e n N, List.range_succ, List.filter_append, List.length_append]
    by_cases h : (e N && n.testBit N) = true
    · simp [sgn, h, pow_succ]
    · have h' : (e N && n.testBit N) = false := by simpa using h
      simp [sgn, h']

/-- sign flags of the layout "observable register = low `nb` bits (masked), QPD register above" -/
def flags (nb mask : Nat) (c : Nat) : Bool := if c < nb then mask.testBit c else true

theorem filter_range_split (N nb : Nat) (h : nb ≤ N) (p : Nat → Bool) :
    ((List.range N).filter p).length = ((List.range nb).filter p).length + ((List.range (N - nb)).filter fun i => p (nb + i)).length := by
  have : N = nb + (N - nb) := by omega
  conv_lhs => rw [this, List.range_add, List.filter_append, List.length_append, List.filter_map, List.length_map]
  rfl

/-- the sign `_process_outcome` attaches to key `n` for a member with bitmask `mask` is the product of the bit signs -/
theorem outcome_sign (N nb mask n : Nat) (hnb : nb ≤ N) (hn : n < 2 ^ N) :
    ((paritySign (n >>> nb) * paritySign ((n &&& ((1 <<< nb) - 1)) &&& mask) : Int) : ℚ) = sgnProd (flags nb mask) n N := by
  rw [sgnProd_eq_pow, filter_range_split N nb hnb]
  have hlow : n &&& ((1 <<< nb) - 1) < 2 ^ nb := by
    rw [Nat.one_shiftLeft, Nat.and_two_pow_sub_one_eq_mod]
    exact Nat.mod_lt _ (Nat.two_pow_pos nb)
  have hhigh : n >>> nb < 2 ^ (N - nb) := by
    rw [Nat.shiftRight_eq_div_pow]
    apply Nat.div_lt_of_lt_mul
    rw [← pow_add]
    have : nb + (N - nb) = N := by omega
    rw [this]; exact hn
  rw [paritySign_and_mask nb _ mask hlow, paritySign_eq_neg_one_pow, bitCount_eq_card_bits (N - nb) _ hhigh]
  push_cast
  rw [mul_comm, ← pow_add]
  congr 2
  · apply congrArg
    apply List.filter_congr
    intro i hi
    have hi' : i < nb := List.mem_range.1 hi
    have : (n &&& ((1 <<< nb) - 1)).testBit i = n.testBit i := by
      rw [Nat.one_shiftLeft, Nat.testBit_and, Nat.testBit_two_pow_sub_one]
      simp [hi']
    simp [flags, hi', this, Bool.and_comm]
  · apply congrArg
    apply List.filter_congr
    intro i _
    have : ¬ nb + i < nb := by omega
    simp [flags, this, Nat.testBit_shiftRight]

/-! ### signed sums do not depend on the order in which the bits are listed -/

theorem signedSum_append (l1 l2 : List (Nat × Bool)) (f : Cl → ℚ) (k : Cl) :
    signedSum (l1 ++ l2) f k = signedSum l1 (fun k1 => signedSum l2 f k1) k := by
  induction l1 generalizing k with
  | nil => rfl
  | cons ce rest ih =>
    obtain ⟨c, e⟩ := ce
    simp only [List.cons_append, signedSum, ih]

theorem signedSum_swap (c c' : Nat) (e e' : Bool) (hne : c ≠ c') (l : List (Nat × Bool)) (f : Cl → ℚ) (k : Cl) :
    signedSum ((c, e) :: (c', e') :: l) f k = signedSum ((c', e') :: (c, e) :: l) f k := by
  simp only [signedSum, Fintype.sum_bool, Function.update_comm hne]
  ring

theorem signedSum_perm {l l' : List (Nat × Bool)} (h : l.Perm l') (hnd : (l.map (·.1)).Nodup) (f : Cl → ℚ) :
    ∀ k, signedSum l f k = signedSum l' f k := by
  induction h with
  | nil => intro k; rfl
  | cons x _ ih =>
    intro k
    obtain ⟨c, e⟩ := x
    rw [List.map_cons] at hnd
    have hnd' := (List.nodup_cons.1 hnd).2
    simp only [signedSum, ih hnd']
  | swap x y l =>
    intro k
    obtain ⟨c, e⟩ := x
    obtain ⟨c', e'⟩ := y
    have : c' ≠ c := by
      rw [List.map_cons, List.map_cons] at hnd
      have := (List.nodup_cons.1 hnd).1
      intro e; apply this; simp [e]
    exact signedSum_swap c' c e' e this l f k
  | trans h1 h2 ih1 ih2 =>
    intro k
    rw [ih1 hnd, ih2 ((h1.map (·.1)).nodup_iff.1 hnd)]

/-- the exact quasi-distribution over the keys `n < 2^N` -/
def exactDist (N : Nat) (g : Cl → ℚ) (k0 : Cl) : List (Nat × Rat) := (List.range (2 ^ N)).map fun n => (n, g (overlay k0 n N))

/-- **the estimator on an exact distribution is the signed sum over the classical bits** (member `j` of the group) -/
theorem estimator_is_signedSum (c : Cog) (N : Nat) (hN : c.numMeasBits ≤ N) (g : Cl → ℚ) (k0 : Cl) (j : Nat) (hj : j < c.masks.length) :
    (groupExpvals c (.v1 (exactDist N g k0))).getD j 0 =
      signedSum (bitsDesc (flags c.numMeasBits (c.masks.getD j 0)) N) g k0 := by
  rw [groupExpvals_v1_sum, signedSum_bitsDesc]
  unfold exactDist
  rw [List.map_map, ← List.sum_toFinset _ (List.nodup_range), List.toFinset_range]
  · apply Finset.sum_congr rfl
    intro n hn
    have hn' : n < 2 ^ N := Finset.mem_range.1 hn
    simp only [Function.comp_def, vscale, processOutcome, processOutcomeV2, List.map_map]
    rw [List.getD_eq_getElem?_getD, List.getElem?_map]
    have : c.masks[j]? = some (c.masks.getD j 0) := by
      rw [List.getD_eq_getElem?_getD]
      simp [List.getElem?_eq_getElem hj]
    rw [this]
    simp only [Option.map_some, Option.getD_some]
    rw [outcome_sign N c.numMeasBits (c.masks.getD j 0) n hN hn']
    ring

end CKT.C06Sem
