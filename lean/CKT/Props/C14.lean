import CKT.Model.Decompose
import Mathlib.Data.List.Basic
import Mathlib.Tactic.Ring
/-!
# C14 — decomposing cut placeholders puts the selected operations in the right place
-/
namespace CKT.C14
open CKT

/-! ## the running-offset loop is a splice -/

/-- index-based specification of one stage: element at index `k` is replaced iff `k` is listed -/
def spliceSpec {α : Type} (f : α → List α) : List α → Nat → List Nat → List α
  | [], _, _ => []
  | x :: xs, k, idxs => (if k ∈ idxs then f x else [x]) ++ spliceSpec f xs (k + 1) idxs

private theorem spliceSpec_skip {α : Type} (f : α → List α) (idxs : List Nat) :
    ∀ (d : Nat) (xs : List α) (k : Nat), d ≤ xs.length → (∀ i ∈ idxs, i < k ∨ k + d ≤ i) →
      spliceSpec f xs k idxs = xs.take d ++ spliceSpec f (xs.drop d) (k + d) idxs := by
  intro d
  induction d with
  | zero => intro xs k _ _; simp
  | succ d ih =>
    intro xs k hd h
    cases xs with
    | nil => simp at hd
    | cons x xs =>
      have hk : k ∉ idxs := fun hm => by rcases h k hm with h | h <;> omega
      simp only [spliceSpec, hk, if_false, List.take_succ_cons, List.drop_succ_cons, List.singleton_append, List.cons_append]
      rw [ih xs (k + 1) (by simp at hd; omega) (fun i hi => by rcases h i hi with h | h <;> omega)]
      have e : k + 1 + d = k + (d + 1) := by omega
      rw [e]; simp

private theorem spliceSpec_drop_head {α : Type} (f : α → List α) (i : Nat) (rest : List Nat) :
    ∀ (xs : List α) (k : Nat), i < k → spliceSpec f xs k (i :: rest) = spliceSpec f xs k rest := by
  intro xs
  induction xs with
  | nil => intro k _; rfl
  | cons x xs ih =>
    intro k hk
    have : (k ∈ i :: rest) ↔ k ∈ rest := by simp; omega
    simp only [spliceSpec]
    rw [ih (k + 1) (by omega)]
    by_cases hm : k ∈ rest <;> simp [this, hm]

private theorem spliceSpec_nil {α : Type} (f : α → List α) : ∀ (xs : List α) (k : Nat), spliceSpec f xs k [] = xs := by
  intro xs; induction xs with
  | nil => intro k; rfl
  | cons x xs ih => intro k; simp [spliceSpec, ih]

/-- **Core lemma.** Processing strictly ascending, in-range indices with a running offset
replaces exactly the listed elements, leaving everything else and all relative order untouched. -/
theorem spliceLoop_eq_spec {α : Type} (f : α → List α) :
    ∀ (idxs : List Nat) (xs pre : List α) (k : Nat),
      idxs.Pairwise (· < ·) → (∀ i ∈ idxs, k ≤ i ∧ i - k < xs.length) →
      spliceLoop f (pre ++ xs) idxs ((pre.length : Int) - k) = pre ++ spliceSpec f xs k idxs := by
  intro idxs
  induction idxs with
  | nil => intro xs pre k _ _; simp [spliceLoop, spliceSpec_nil]
  | cons i rest ih =>
    intro xs pre k hp hr
    obtain ⟨hki, hlt⟩ := hr i (by simp)
    have hp' := List.pairwise_cons.1 hp
    have hpos : (((i : Int) + ((pre.length : Int) - k))).toNat = pre.length + (i - k) := by omega
    have hget : (pre ++ xs)[pre.length + (i - k)]? = some (xs[i - k]'hlt) := by
      rw [List.getElem?_append_right (by omega)]
      simp [List.getElem?_eq_getElem hlt]
    rw [spliceLoop]
    simp only [hpos, hget]
    -- the new current list
    have htake : (pre ++ xs).take (pre.length + (i - k)) = pre ++ xs.take (i - k) := by
      rw [List.take_append]; simp [List.take_of_length_le]
    have hdrop : (pre ++ xs).drop (pre.length + (i - k) + 1) = xs.drop (i - k + 1) := by
      rw [List.drop_append]
      have h1 : List.drop (pre.length + (i - k) + 1) pre = [] := List.drop_eq_nil_of_le (by omega)
      have h2 : pre.length + (i - k) + 1 - pre.length = i - k + 1 := by omega
      rw [h1, h2]; simp
    rw [htake, hdrop]
    have hassoc : pre ++ xs.take (i - k) ++ f (xs[i - k]'hlt) ++ xs.drop (i - k + 1)
        = (pre ++ xs.take (i - k) ++ f (xs[i - k]'hlt)) ++ xs.drop (i - k + 1) := by simp
    have hoff : ((pre.length : Int) - k + ((f (xs[i - k]'hlt)).length : Int) - 1)
        = (((pre ++ xs.take (i - k) ++ f (xs[i - k]'hlt)).length : Nat) : Int) - ((i + 1 : Nat) : Int) := by
      simp [List.length_append, List.length_take]; omega
    rw [hoff]
    rw [ih (xs.drop (i - k + 1)) (pre ++ xs.take (i - k) ++ f (xs[i - k]'hlt)) (i + 1) hp'.2
      (fun j hj => by
        have h1 := hp'.1 j hj
        have h2 := (hr j (by simp [hj])).2
        refine ⟨by omega, ?_⟩
        simp [List.length_drop]; omega)]
    -- right-hand side
    rw [spliceSpec_skip f (i :: rest) (i - k) xs k (by omega)
      (fun j hj => by
        rcases List.mem_cons.1 hj with rfl | hj
        · right; omega
        · have := hp'.1 j hj; right; omega)]
    have hxs : xs.drop (i - k) = xs[i - k]'hlt :: xs.drop (i - k + 1) := by
      rw [List.drop_eq_getElem_cons hlt]
    rw [hxs]
    have hik : k + (i - k) = i := by omega
    simp only [spliceSpec, hik, List.mem_cons, true_or, if_true]
    rw [spliceSpec_drop_head f i rest _ (i + 1) (by omega)]
    simp

/-- indices of the elements satisfying `p`, ascending -/
def idxsWhere {α : Type} (p : α → Bool) (l : List α) : List Nat :=
  (List.range l.length).filter fun i => match l[i]? with
    | some x => p x
    | none => false

private theorem spliceSpec_idxsWhere_aux {α : Type} (f : α → List α) (p : α → Bool) (l : List α) :
    ∀ (xs : List α) (k : Nat), l.drop k = xs →
      spliceSpec f xs k (idxsWhere p l) = xs.flatMap (fun x => if p x then f x else [x]) := by
  intro xs
  induction xs with
  | nil => intro k _; rfl
  | cons x xs ih =>
    intro k hk
    have hklt : k < l.length := by
      by_contra hc
      rw [List.drop_eq_nil_of_le (by omega)] at hk; cases hk
    have hx : l[k]? = some x := by
      have := congrArg (·[0]?) hk
      simpa using this
    have hmem : (k ∈ idxsWhere p l) ↔ p x = true := by
      simp only [idxsWhere, List.mem_filter, List.mem_range, hklt, true_and, hx]
    simp only [spliceSpec, List.flatMap_cons]
    rw [ih (k + 1) (by rw [← List.drop_drop, hk]; rfl)]
    by_cases hp : p x = true <;> simp [hmem, hp]

theorem spliceSpec_idxsWhere {α : Type} (f : α → List α) (p : α → Bool) (l : List α) :
    spliceSpec f l 0 (idxsWhere p l) = l.flatMap (fun x => if p x then f x else [x]) :=
  spliceSpec_idxsWhere_aux f p l l 0 (by simp)

theorem idxsWhere_pairwise {α : Type} (p : α → Bool) (l : List α) : (idxsWhere p l).Pairwise (· < ·) := by
  unfold idxsWhere
  exact List.Pairwise.filter _ (List.pairwise_lt_range)

theorem idxsWhere_lt {α : Type} (p : α → Bool) (l : List α) : ∀ i ∈ idxsWhere p l, i < l.length := by
  intro i hi
  simp [idxsWhere, List.mem_filter] at hi
  exact hi.1

/-- running-offset loop over *all* positions satisfying `p` = `flatMap` -/
theorem spliceLoop_all {α : Type} (f : α → List α) (p : α → Bool) (l : List α) :
    spliceLoop f l (idxsWhere p l) 0 = l.flatMap (fun x => if p x then f x else [x]) := by
  have := spliceLoop_eq_spec f (idxsWhere p l) l [] 0 (idxsWhere_pairwise p l)
    (fun i hi => ⟨Nat.zero_le _, by simpa using idxsWhere_lt p l i hi⟩)
  simpa [spliceSpec_idxsWhere] using this

/-! ## T14.1 refinement to a splice -/

theorem placeholderIdxs_eq (l : List Instr) : placeholderIdxs l = idxsWhere isQpd l := by
  unfold placeholderIdxs idxsWhere
  apply List.filter_congr
  intro i _
  cases l[i]? <;> rfl

/-- stage 2 (all placeholders are one-qubit by then) is a `flatMap` -/
theorem stage2_eq_flatMap (bases : List Basis) (l : List Instr) :
    stage2 bases l = l.flatMap (fun g => if isQpd g then opsFor bases g else [g]) := by
  unfold stage2; rw [placeholderIdxs_eq]; exact spliceLoop_all _ _ _

/-- stage 1 under the grouping contract "every two-qubit placeholder is listed exactly once, as a
one-element decomposition" (validation checks the total count; listing one twice is the caller's error). -/
theorem stage1_eq_flatMap (l : List Instr) (ids : List (List Nat))
    (hvalid : twoQubitIds l ids = idxsWhere isQpd2 l) :
    stage1 l ids = l.flatMap (fun g => if isQpd2 g then halvesOf g else [g]) := by
  unfold stage1; rw [hvalid]; exact spliceLoop_all _ _ _

private theorem isQpd_of_isQpd2 (g : Instr) (h : isQpd2 g = true) : isQpd g = true := by
  simp [isQpd, isQpd2] at *; simp [h]

/-- **T14.1** the two index-juggling stages together equal the direct splice:
each placeholder is replaced, in place, by the chosen map's operations for its half on its qubit
(nothing for an empty sequence); every other instruction and all relative order are kept. -/
theorem stages_eq_decomposeSpec (bases : List Basis) (l : List Instr) (ids : List (List Nat))
    (hvalid : twoQubitIds l ids = idxsWhere isQpd2 l) :
    stage2 bases (stage1 l ids) = decomposeSpec bases l := by
  rw [stage2_eq_flatMap, stage1_eq_flatMap l ids hvalid, List.flatMap_assoc]
  unfold decomposeSpec
  apply List.flatMap_congr
  intro g _
  unfold spliceOf
  by_cases h2 : isQpd2 g = true
  · simp only [h2, if_true]
    apply List.flatMap_congr
    intro h hh
    have : isQpd h = true := by
      simp [halvesOf] at hh
      rcases hh with rfl | rfl <;> simp [isQpd]
    simp [this]
  · simp [h2]

/-! ## T14.3 markers -/

theorem markers_length (base : Nat) : ∀ (l : List Instr) (j : Nat), (markersToMeasures base l j).length = l.length := by
  intro l; induction l with
  | nil => intro j; rfl
  | cons i rest ih => intro j; simp only [markersToMeasures]; split <;> simp [ih]

/-- the `n`-th instruction: a marker becomes a measurement of the same qubit into bit
`base + j + (number of markers before it)`; anything else is unchanged. -/
theorem markers_at (base : Nat) : ∀ (l : List Instr) (j n : Nat) (h : n < l.length),
    (markersToMeasures base l j)[n]? = some (if isMarker l[n] then
        { name := "measure", qubits := l[n].qubits, clbits := [base + j + countMarkers (l.take n)] } else l[n]) := by
  intro l
  induction l with
  | nil => intro j n h; simp at h
  | cons i rest ih =>
    intro j n h
    cases n with
    | zero =>
      simp only [markersToMeasures, List.getElem_cons_zero, List.take_zero, countMarkers, List.filter_nil, List.length_nil, Nat.add_zero]
      split <;> simp
    | succ n =>
      have hn : n < rest.length := by simpa using h
      simp only [markersToMeasures, List.getElem_cons_succ, List.take_succ_cons, countMarkers]
      by_cases hm : isMarker i = true
      · simp only [hm, if_true, List.getElem?_cons_succ, List.filter_cons_of_pos]
        rw [ih (j + 1) n hn]
        simp [countMarkers]; split <;> simp; omega
      · have hm' : isMarker i = false := by simpa using hm
        simp only [hm', Bool.false_eq_true, if_false, List.getElem?_cons_succ]
        rw [ih j n hn]
        simp [countMarkers, hm']

theorem markers_none_left (base : Nat) : ∀ (l : List Instr) (j : Nat), ∀ i ∈ markersToMeasures base l j, isMarker i = false := by
  intro l; induction l with
  | nil => intro j i hi; simp [markersToMeasures] at hi
  | cons x rest ih =>
    intro j i hi
    simp only [markersToMeasures] at hi
    split at hi
    · rcases List.mem_cons.1 hi with rfl | hi
      · simp [isMarker]
      · exact ih _ i hi
    · rename_i hx
      rcases List.mem_cons.1 hi with rfl | hi
      · simpa using hx
      · exact ih _ i hi

/-! ## T14.2 no placeholder remains -/

/-- `OpsClean`: no operation stored in a basis is itself a placeholder (true of every basis the package builds) -/
def OpsClean (bases : List Basis) : Prop :=
  ∀ b ∈ bases, ∀ m ∈ b.maps, ∀ side ∈ m, ∀ op ∈ side, op.name ≠ "qpd_1q" ∧ op.name ≠ "qpd_2q"

private theorem getD_mem_or_nil {α : Type} (l : List (List α)) (n : Nat) : l.getD n [] = [] ∨ l.getD n [] ∈ l := by
  by_cases h : n < l.length
  · right; simp [List.getD_eq_getElem?_getD, List.getElem?_eq_getElem h]
  · left; simp [List.getD_eq_getElem?_getD, List.getElem?_eq_none (Nat.le_of_not_lt h)]

theorem opsFor_clean (bases : List Basis) (hc : OpsClean bases) (g : Instr) : ∀ i ∈ opsFor bases g, isQpd i = false := by
  intro i hi
  unfold opsFor at hi
  split at hi
  · rename_i b m h hb _ _
    simp only [List.mem_map] at hi
    obtain ⟨op, hop, rfl⟩ := hi
    have hbm : b ∈ bases := by
      unfold basisOfInstr at hb
      cases hbi : g.basis with
      | none => simp [hbi] at hb
      | some k => simp [hbi] at hb; exact List.mem_of_getElem? hb
    rcases getD_mem_or_nil b.maps m with h1 | h1
    · rw [h1] at hop; simp at hop
    · rcases getD_mem_or_nil (b.maps.getD m []) h with h2 | h2
      · rw [h2] at hop; simp at hop
      · have := hc b hbm _ h1 _ h2 op hop
        simp [isQpd, this.1, this.2]
  · simp at hi

theorem decomposeSpec_no_placeholder (bases : List Basis) (hc : OpsClean bases) (l : List Instr) :
    ∀ i ∈ decomposeSpec bases l, isQpd i = false := by
  intro i hi
  simp only [decomposeSpec, List.mem_flatMap] at hi
  obtain ⟨g, _, hig⟩ := hi
  unfold spliceOf at hig
  split at hig
  · simp only [List.mem_flatMap] at hig
    obtain ⟨h, _, hih⟩ := hig
    exact opsFor_clean bases hc h i hih
  · split at hig
    · exact opsFor_clean bases hc g i hig
    · rename_i h1 h2
      simp at hig; subst hig
      simpa using h2

/-! ## T14.4 acceptance implies a consistent request -/

theorem forM'_ok {α : Type} (f : α → R Unit) : ∀ l : List α, forM' f l = .ok () ↔ ∀ a ∈ l, f a = .ok () := by
  intro l
  induction l with
  | nil => simp [forM']
  | cons a as ih =>
    simp only [forM', List.mem_cons, forall_eq_or_imp]
    cases h : f a with
    | ok u => cases u; simp [ih]
    | error e => simp

/-- whatever validation accepts is a consistent grouping: every decomposition has one or two
members, every member is a placeholder whose basis equals the first member's, and the number of
listed indices equals the number of placeholders in the circuit. -/
theorem validate_ok (instrs : List Instr) (bases : List Basis) (ids : List (List Nat))
    (h : validateDecomp instrs bases ids = .ok ()) :
    (∀ d ∈ ids, (d.length = 1 ∨ d.length = 2) ∧
        ∀ gid ∈ d, ∃ g, instrs[gid]? = some g ∧ isQpd g = true) ∧
    (ids.map List.length).sum = (instrs.filter isQpd).length := by
  unfold validateDecomp at h
  split at h
  · cases h
  · rename_i hf
    split at h
    · cases h
    · rename_i hc
      refine ⟨?_, by simpa using hc⟩
      rw [forM'_ok] at hf
      intro d hd
      have hd' := hf d hd
      unfold checkDecomp at hd'
      split at hd'
      · cases hd'
      · rename_i hlen
        refine ⟨by simp at hlen; omega, ?_⟩
        split at hd'
        · cases hd'
        · split at hd'
          · cases hd'
          · rw [forM'_ok] at hd'
            intro gid hg
            have := hd' gid hg
            unfold checkGate at this
            split at this
            · cases this
            · rename_i g hgg
              split at this
              · cases this
              · rename_i hq
                exact ⟨g, hgg, by simpa using hq⟩

/-- **D13**: in an accepted grouping a decomposition with two members consists of one-qubit placeholders only (a two-qubit
placeholder is a decomposition of its own) -/
theorem validate_pairs_one_qubit (instrs : List Instr) (bases : List Basis) (ids : List (List Nat))
    (h : validateDecomp instrs bases ids = .ok ()) :
    ∀ d ∈ ids, d.length = 2 → ∀ gid ∈ d, ∀ g, instrs[gid]? = some g → isQpd2 g = false := by
  unfold validateDecomp at h
  split at h
  · cases h
  · rename_i hf
    rw [forM'_ok] at hf
    intro d hd hlen2 gid hg g hgg
    have hd' := hf d hd
    unfold checkDecomp at hd'
    split at hd'
    · cases hd'
    · split at hd'
      · cases hd'
      · split at hd'
        · cases hd'
        · rw [forM'_ok] at hd'
          have := hd' gid hg
          unfold checkGate at this
          rw [hgg] at this
          simp only [hlen2, beq_self_eq_true, Bool.true_and] at this
          split at this
          · cases this
          · split at this
            · cases this
            · rename_i h2
              simpa using h2

/-- an accepted map id is in range for the gate's basis -/
theorem setBasisId_ok (bases : List Basis) (g g' : Instr) (m : Int) (h : setBasisId bases g m = .ok g') :
    ∃ b, basisOfInstr bases g = some b ∧ 0 ≤ m ∧ m < b.maps.length ∧ g' = { g with basisId := some m.toNat } := by
  unfold setBasisId at h
  split at h
  · cases h
  · rename_i b hb
    split at h
    · rename_i hr; injection h with h; exact ⟨b, hb, hr.1, hr.2, h.symm⟩
    · cases h

theorem assignMapIds_refuses_length (bases : List Basis) (instrs : List Instr) (ids : List (List Nat)) (ms : List Int)
    (h : ids.length ≠ ms.length) : ∃ e, assignMapIds bases instrs ids ms = .error (.value e) := by
  unfold assignMapIds; simp [h]

/-- the whole function refuses whenever validation refuses -/
theorem decompose_refuses_invalid (c : Circuit) (bases : List Basis) (ids : List (List Nat)) (ms : Option (List Int)) (e : Err)
    (h : validateDecomp c.instrs bases ids = .error e) : decomposeQpd c bases ids ms = .error e := by
  unfold decomposeQpd; simp [h]

/-- shape of every successful result: splice, then marker rewrite into a new final register of size `max 1 #markers` -/
theorem decompose_ok_shape (c : Circuit) (bases : List Basis) (ids : List (List Nat)) (ms : List Int) (out : Circuit)
    (h : decomposeQpd c bases ids (some ms) = .ok out) :
    ∃ instrs, assignMapIds bases c.instrs ids ms = .ok instrs ∧
      out.instrs = markersToMeasures c.ncl (stage2 bases (stage1 instrs ids)) 0 ∧
      out.cregs = c.cregs ++ [("qpd_measurements", max 1 (countMarkers (stage2 bases (stage1 instrs ids))))] ∧
      out.nq = c.nq := by
  unfold decomposeQpd at h
  split at h
  · cases h
  · simp only at h
    split at h
    · cases h
    · rename_i instrs hi
      injection h with h
      subst h
      exact ⟨instrs, hi, rfl, rfl, rfl⟩

/-! non-vacuity -/
private def exBasis : Basis := { maps := [[[⟨"x", []⟩], [⟨"qpd_measure", []⟩, ⟨"h", []⟩]], [[], [⟨"z", []⟩]]], coeffs := [1, -1] }
private def exCirc : List Instr := [
  { name := "h", qubits := [0] },
  { name := "qpd_2q", qubits := [0, 1], basis := some 0, basisId := some 0 },
  { name := "cx", qubits := [1, 2] },
  { name := "qpd_1q", qubits := [2], basis := some 0, half := some 1, basisId := some 1 } ]

example : twoQubitIds exCirc [[3], [1]] = idxsWhere isQpd2 exCirc := by decide
example : (stage2 [exBasis] (stage1 exCirc [[3], [1]])).map (·.name) = ["h", "x", "qpd_measure", "h", "cx", "z"] := by decide
example : OpsClean [exBasis] := by
  intro b hb m hm side hs op ho
  simp [exBasis] at hb; subst hb
  simp at hm
  rcases hm with rfl | rfl <;> simp at hs <;> rcases hs with rfl | rfl <;> simp at ho <;> (try rcases ho with rfl | rfl) <;> decide

end CKT.C14
