import CKT.Props.C07Cnt
/-!
# C07 — T07.3 (second half): wire-cut markers are inserted directly before the gate they belong to

`export_items_spec`: the running-offset insertion loop of `find_cuts` (wire-cut actions sorted by instruction id, position
`instruction id + number of markers inserted so far`) yields the instruction list in which, directly before instruction `i`,
stand exactly the markers of the wire-cut action recorded for `i` — each on a qubit of that instruction (`markersOf`) — and
nothing else is added.  `reachable_export_items_spec` discharges its side conditions (distinct, in-range instruction ids,
sortedness of `sortByGate`) for every state reachable in the search tree.
-/
namespace CKT.C07
open CKT CKT.CF

/-- markers contributed to instruction `i` by a list of wire-cut actions -/
def MF (instrs : List CInstr) (P : List Act) (i : Nat) : List OutItem :=
  (P.filter (fun a => a.gate == i)).flatMap (markersOf instrs)

/-- the output with the markers of `P` in place: before instruction `i` come exactly the markers of the actions on `i` -/
def specItems (instrs : List CInstr) (base : Nat → OutItem) (n : Nat) (P : List Act) : List OutItem :=
  (List.range n).flatMap fun i => MF instrs P i ++ [base i]

def offOf (instrs : List CInstr) (P : List Act) : Nat := (P.flatMap (markersOf instrs)).length

theorem MF_append (instrs : List CInstr) (P Q : List Act) (i : Nat) : MF instrs (P ++ Q) i = MF instrs P i ++ MF instrs Q i := by
  simp [MF, List.filter_append, List.flatMap_append]

theorem MF_single (instrs : List CInstr) (a : Act) (i : Nat) : MF instrs [a] i = if a.gate = i then markersOf instrs a else [] := by
  by_cases h : a.gate = i <;> simp [MF, List.filter_cons, h]

theorem MF_nil_of_lt (instrs : List CInstr) (P : List Act) (g i : Nat) (h : ∀ a ∈ P, a.gate < g) (hi : g ≤ i) : MF instrs P i = [] := by
  unfold MF
  have : P.filter (fun a => a.gate == i) = [] := by
    rw [List.filter_eq_nil_iff]
    intro a ha
    have := h a ha
    simp; omega
  rw [this]; rfl

/-- number of items before instruction `g` when all actions of `P` concern earlier instructions -/
theorem prefix_length (instrs : List CInstr) (base : Nat → OutItem) (P : List Act) :
    ∀ g, (∀ a ∈ P, a.gate < g) →
      ((List.range g).flatMap fun i => MF instrs P i ++ [base i]).length = g + offOf instrs P := by
  induction P with
  | nil =>
    intro g _
    simp [MF, offOf, List.length_flatMap]
  | cons b P ih =>
    intro g h
    have hb : b.gate < g := h b (by simp)
    have hP : ∀ a ∈ P, a.gate < g := fun a ha => h a (List.mem_cons_of_mem _ ha)
    have ihg := ih g hP
    simp only [List.length_flatMap, List.length_append, List.length_cons, List.length_nil] at ihg ⊢
    have e : ∀ i, (MF instrs (b :: P) i).length = (if b.gate = i then (markersOf instrs b).length else 0) + (MF instrs P i).length := by
      intro i
      have := MF_append instrs [b] P i
      simp only [List.singleton_append] at this
      rw [this, List.length_append, MF_single]
      split <;> simp
    have hsum : ((List.range g).map fun i => (MF instrs (b :: P) i).length + (0 + 1)).sum =
        ((List.range g).map fun i => if b.gate = i then (markersOf instrs b).length else 0).sum +
        ((List.range g).map fun i => (MF instrs P i).length + (0 + 1)).sum := by
      rw [← List.sum_map_add]
      congr 1
      apply List.map_congr_left
      intro i _
      rw [e i]; omega
    have hind : ((List.range g).map fun i => if b.gate = i then (markersOf instrs b).length else 0).sum = (markersOf instrs b).length := by
      clear ihg hsum e ih h hP
      induction g with
      | zero => omega
      | succ g ihg =>
        rw [List.range_succ, List.map_append, List.sum_append]
        by_cases hbg : b.gate = g
        · have : ((List.range g).map fun i => if b.gate = i then (markersOf instrs b).length else 0).sum = 0 := by
            apply List.sum_eq_zero
            intro x hx
            simp only [List.mem_map, List.mem_range] at hx
            obtain ⟨i, hi, rfl⟩ := hx
            have : b.gate ≠ i := by omega
            simp [this]
          rw [this]; simp [hbg]
        · have := ihg (by omega)
          simp [this, hbg]
    have hoff : offOf instrs (b :: P) = (markersOf instrs b).length + offOf instrs P := by
      simp [offOf, List.flatMap_cons]
    rw [hsum, hind, ihg, hoff]; omega

theorem range_split (n g : Nat) (h : g < n) :
    List.range n = List.range g ++ g :: (List.range (n - g - 1)).map (fun j => g + 1 + j) := by
  have e : n = g + (1 + (n - g - 1)) := by omega
  conv_lhs => rw [e, List.range_add, List.range_add]
  simp [List.map_map, Function.comp_def, Nat.add_assoc]

theorem insertAt_length (X Y ms : List OutItem) : insertAt (X ++ Y) X.length ms = X ++ ms ++ Y := by
  simp [insertAt, List.take_left', List.drop_left']

/-- inserting the markers of the next action (whose instruction comes after those of all earlier actions) at the running
position puts them directly before that instruction -/
theorem step_spec (instrs : List CInstr) (base : Nat → OutItem) (n : Nat) (P : List Act) (a : Act)
    (hP : ∀ b ∈ P, b.gate < a.gate) (ha : a.gate < n) :
    insertAt (specItems instrs base n P) (a.gate + offOf instrs P) (markersOf instrs a) = specItems instrs base n (P ++ [a]) := by
  unfold specItems
  rw [range_split n a.gate ha]
  simp only [List.flatMap_append, List.flatMap_cons]
  have hX : ∀ (Q : List Act), (∀ b ∈ Q, b.gate < a.gate) →
      ((List.range a.gate).flatMap fun i => MF instrs (Q ++ [a]) i ++ [base i]) =
      ((List.range a.gate).flatMap fun i => MF instrs Q i ++ [base i]) := by
    intro Q _
    apply List.flatMap_congr
    intro i hi
    have : a.gate ≠ i := by have := List.mem_range.1 hi; omega
    rw [MF_append, MF_single]; simp [this]
  have hY : ((List.range (n - a.gate - 1)).map (fun j => a.gate + 1 + j)).flatMap (fun i => MF instrs (P ++ [a]) i ++ [base i]) =
      ((List.range (n - a.gate - 1)).map (fun j => a.gate + 1 + j)).flatMap (fun i => MF instrs P i ++ [base i]) := by
    apply List.flatMap_congr
    intro i hi
    simp only [List.mem_map, List.mem_range] at hi
    obtain ⟨j, _, rfl⟩ := hi
    have : a.gate ≠ a.gate + 1 + j := by omega
    rw [MF_append, MF_single]; simp [this]
  rw [hX P hP, hY]
  have hg : MF instrs P a.gate = [] := MF_nil_of_lt instrs P a.gate a.gate hP (le_refl _)
  have hg' : MF instrs (P ++ [a]) a.gate = markersOf instrs a := by rw [MF_append, MF_single, hg]; simp
  rw [hg, hg']
  have hlen := prefix_length instrs base P a.gate hP
  rw [← hlen]
  simp only [List.nil_append, List.append_assoc]
  rw [insertAt_length]
  simp [List.append_assoc]

theorem offOf_snoc (instrs : List CInstr) (P : List Act) (a : Act) :
    offOf instrs (P ++ [a]) = offOf instrs P + (markersOf instrs a).length := by
  simp [offOf, List.flatMap_append]

/-- the running-offset loop of `find_cuts` over wire-cut actions sorted by instruction -/
theorem fold_spec (instrs : List CInstr) (base : Nat → OutItem) (n : Nat) :
    ∀ (ws P : List Act), ((P ++ ws).map (·.gate)).Pairwise (· < ·) → (∀ a ∈ ws, a.gate < n) →
      ws.foldl (fun (acc : List OutItem × Nat) a =>
        (insertAt acc.1 (a.gate + acc.2) (markersOf instrs a), acc.2 + (markersOf instrs a).length))
        (specItems instrs base n P, offOf instrs P) = (specItems instrs base n (P ++ ws), offOf instrs (P ++ ws)) := by
  intro ws
  induction ws with
  | nil => intro P _ _; simp
  | cons a ws ih =>
    intro P hs hn
    simp only [List.foldl_cons]
    have hP : ∀ b ∈ P, b.gate < a.gate := by
      intro b hb
      rw [List.map_append, List.pairwise_append] at hs
      exact hs.2.2 b.gate (List.mem_map.2 ⟨b, hb, rfl⟩) a.gate (by simp)
    rw [step_spec instrs base n P a hP (hn a (by simp)), ← offOf_snoc]
    have := ih (P ++ [a]) (by simpa [List.append_assoc] using hs) (fun b hb => hn b (List.mem_cons_of_mem _ hb))
    simpa [List.append_assoc] using this

/-- **T07.3 (second half)** the output is the input instruction list in which, directly before instruction `i`, stand exactly
the markers of the wire-cut action(s) recorded for `i` (on qubits of that instruction: `markersOf`), and nothing else is added. -/
theorem export_items_spec (instrs : List CInstr) (best : St) (b : Bool)
    (hs : ((sortByGate (best.actions.filter (·.kind ≠ .gateCut))).map (·.gate)).Pairwise (· < ·))
    (hn : ∀ a ∈ sortByGate (best.actions.filter (·.kind ≠ .gateCut)), a.gate < instrs.length) :
    (exportCuts instrs best b).items =
      specItems instrs (fun i => if i ∈ (best.actions.filter (·.kind = .gateCut)).map (·.gate) then OutItem.cut i else OutItem.orig i)
        instrs.length (sortByGate (best.actions.filter (·.kind ≠ .gateCut))) := by
  unfold exportCuts
  simp only
  generalize hbase : (fun i => if i ∈ (best.actions.filter (·.kind = .gateCut)).map (·.gate) then OutItem.cut i else OutItem.orig i) = base
  generalize sortByGate (best.actions.filter (·.kind ≠ .gateCut)) = wires at hs hn ⊢
  have h0 : (List.range instrs.length).map base = specItems instrs base instrs.length [] := by
    simp [specItems, MF, List.map_eq_flatMap]
  rw [h0]
  have := fold_spec instrs base instrs.length wires [] (by simpa using hs) hn
  simp only [offOf, List.flatMap_nil, List.length_nil, List.nil_append] at this
  rw [this]

/-! ### in reachable states the hypotheses of `export_items_spec` hold -/

/-- an action recorded by a step concerns the gate of the current level -/
theorem step_gate (cfg : Settings) (gates : List Gate) (W : Nat)
    (s t : St) (ns : List St) (h : nextStates cfg gates W s = .ok ns) (ht : t ∈ ns) :
    ∃ g, gates[s.level]? = some g ∧ t.level = s.level + 1 ∧
      (t.actions = s.actions ∨ ∃ a, t.actions = s.actions ++ [a] ∧ a.gate = g.idx) := by
  unfold nextStates at h
  cases hg : gates[s.level]? with
  | none => rw [hg] at h; injection h with h; subst h; cases ht
  | some g =>
    rw [hg] at h
    simp only at h
    split at h
    · cases h
    · injection h with h; subst h
      refine ⟨g, rfl, ?_⟩
      simp only [List.mem_filterMap] at ht
      obtain ⟨a, ha, hat⟩ := ht
      simp only [actionList, List.mem_append, List.mem_cons, List.not_mem_nil, or_false] at ha
      rcases ha with (rfl | ha) | ha
      · unfold applyGate at hat
        simp only at hat
        split at hat
        · cases hat
        · split at hat
          · cases hat
          · injection hat with hat; subst hat
            refine ⟨rfl, Or.inl ?_⟩
            split <;> simp [merge_actions]
      · split at ha
        · simp only [List.mem_cons, List.not_mem_nil, or_false] at ha; subst ha
          unfold cutGate at hat
          split at hat
          · cases hat
          · simp only at hat
            split at hat
            · cases hat
            · injection hat with hat; subst hat
              exact ⟨rfl, Or.inr ⟨_, rfl, rfl⟩⟩
        · cases ha
      · split at ha
        · simp only [List.mem_cons, List.not_mem_nil, or_false] at ha
          rcases ha with rfl | rfl | rfl
          · unfold cutLeft at hat
            split at hat
            · cases hat
            · simp only at hat
              split at hat
              · cases hat
              · split at hat
                · cases hat
                · injection hat with hat; subst hat
                  exact ⟨rfl, Or.inr ⟨⟨.left, g.idx, [(1, s.wire (g.qubits.getD 0 0), (s.newWire (g.qubits.getD 0 0)).2)]⟩,
                    by simp [merge_actions, newWire_fields], rfl⟩⟩
          · unfold cutRight at hat
            split at hat
            · cases hat
            · simp only at hat
              split at hat
              · cases hat
              · split at hat
                · cases hat
                · injection hat with hat; subst hat
                  exact ⟨rfl, Or.inr ⟨⟨.right, g.idx, [(2, s.wire (g.qubits.getD 1 0), (s.newWire (g.qubits.getD 1 0)).2)]⟩,
                    by simp [merge_actions, newWire_fields], rfl⟩⟩
          · unfold cutBoth at hat
            split at hat
            · cases hat
            · split at hat
              · cases hat
              · simp only at hat
                injection hat with hat; subst hat
                exact ⟨rfl, Or.inr ⟨⟨.both, g.idx, [(1, s.wire (g.qubits.getD 0 0), (s.newWire (g.qubits.getD 0 0)).2),
                  (2, s.wire (g.qubits.getD 1 0), ((s.newWire (g.qubits.getD 0 0)).1.newWire (g.qubits.getD 1 0)).2)]⟩,
                  by simp [merge_actions, newWire_fields], rfl⟩⟩
        · cases ha

/-- the instructions of the recorded actions form a subsequence of the instructions of the gates passed so far -/
theorem path_gates_sublist (cfg : Settings) (gates : List Gate) (W n k : Nat) (t : St)
    (h : Path cfg gates W (St.init n k) t) :
    (t.actions.map (·.gate)).Sublist ((gates.take t.level).map (·.idx)) := by
  induction h with
  | refl => simp [St.init]
  | step t u ns _ hnext hu ih =>
    obtain ⟨g, hg, hl, hact⟩ := step_gate cfg gates W t u ns hnext hu
    have htake : gates.take u.level = gates.take t.level ++ [g] := by
      rw [hl, List.take_succ, hg]; rfl
    rw [htake, List.map_append]
    rcases hact with e | ⟨a, e, ha⟩
    · rw [e]; exact ih.trans (List.sublist_append_left _ _)
    · rw [e, List.map_append]
      simp only [List.map_cons, List.map_nil, ha]
      exact ih.append (List.Sublist.refl _)

theorem insertByGate_perm (a : Act) : ∀ l : List Act, (insertByGate a l).Perm (a :: l) := by
  intro l
  induction l with
  | nil => exact List.Perm.refl _
  | cons b bs ih =>
    unfold insertByGate
    split
    · exact List.Perm.refl _
    · exact (List.Perm.cons b ih).trans (List.Perm.swap a b bs)

theorem insertByGate_sorted (a : Act) : ∀ l : List Act, (l.map (·.gate)).Pairwise (· ≤ ·) →
    ((insertByGate a l).map (·.gate)).Pairwise (· ≤ ·) := by
  intro l
  induction l with
  | nil => intro _; simp [insertByGate]
  | cons b bs ih =>
    intro h
    simp only [List.map_cons, List.pairwise_cons] at h
    unfold insertByGate
    split
    · rename_i hlt
      simp only [List.map_cons, List.pairwise_cons]
      refine ⟨?_, h⟩
      intro x hx
      rcases List.mem_cons.1 hx with rfl | hx
      · omega
      · have := h.1 x hx; omega
    · rename_i hge
      simp only [List.map_cons, List.pairwise_cons]
      refine ⟨?_, ih h.2⟩
      intro x hx
      obtain ⟨c, hc, rfl⟩ := List.mem_map.1 hx
      have := (insertByGate_perm a bs).mem_iff.1 hc
      rcases List.mem_cons.1 this with rfl | hc'
      · omega
      · exact h.1 c.gate (List.mem_map.2 ⟨c, hc', rfl⟩)

theorem sortByGate_spec (l : List Act) : (sortByGate l).Perm l ∧ ((sortByGate l).map (·.gate)).Pairwise (· ≤ ·) := by
  unfold sortByGate
  have gen : ∀ (l acc : List Act), (acc.map (·.gate)).Pairwise (· ≤ ·) →
      (l.foldl (fun acc a => insertByGate a acc) acc).Perm (acc ++ l) ∧
      ((l.foldl (fun acc a => insertByGate a acc) acc).map (·.gate)).Pairwise (· ≤ ·) := by
    intro l
    induction l with
    | nil => intro acc h; simpa using h
    | cons a l ih =>
      intro acc h
      simp only [List.foldl_cons]
      obtain ⟨p, s⟩ := ih (insertByGate a acc) (insertByGate_sorted a acc h)
      refine ⟨p.trans ?_, s⟩
      have := (insertByGate_perm a acc).append_right l
      refine this.trans ?_
      simp only [List.cons_append]
      exact (List.perm_middle).symm
  have := gen l [] (by simp)
  simpa using this

/-- **T07.3 for every reachable state** (instruction ids pairwise distinct and in range, as `multiqubitGates` guarantees) -/
theorem reachable_export_items_spec (cfg : Settings) (instrs : List CInstr) (gates : List Gate) (W n k : Nat) (best : St) (b : Bool)
    (hn : (gates.map (·.idx)).Nodup) (hlt : ∀ g ∈ gates, g.idx < instrs.length)
    (h : Path cfg gates W (St.init n k) best) :
    (exportCuts instrs best b).items =
      specItems instrs (fun i => if i ∈ (best.actions.filter (·.kind = .gateCut)).map (·.gate) then OutItem.cut i else OutItem.orig i)
        instrs.length (sortByGate (best.actions.filter (·.kind ≠ .gateCut))) := by
  have hsub := path_gates_sublist cfg gates W n k best h
  have hsub2 : (best.actions.map (·.gate)).Sublist (gates.map (·.idx)) :=
    hsub.trans ((List.take_sublist _ _).map _)
  have hnd : (best.actions.map (·.gate)).Nodup := hn.sublist hsub2
  obtain ⟨hperm, hsorted⟩ := sortByGate_spec (best.actions.filter (·.kind ≠ .gateCut))
  have hfsub : ((best.actions.filter (·.kind ≠ .gateCut)).map (·.gate)).Sublist (best.actions.map (·.gate)) :=
    (List.filter_sublist).map _
  have hnd2 : ((sortByGate (best.actions.filter (·.kind ≠ .gateCut))).map (·.gate)).Nodup :=
    ((hperm.map _).nodup_iff).2 (hnd.sublist hfsub)
  apply export_items_spec instrs best b
  · exact (List.pairwise_and_iff.2 ⟨hsorted, hnd2⟩).imp (fun hab => lt_of_le_of_ne hab.1 hab.2)
  · intro a ha
    have ha' : a ∈ best.actions.filter (·.kind ≠ .gateCut) := hperm.mem_iff.1 ha
    have : a.gate ∈ gates.map (·.idx) := hsub2.subset (List.mem_map.2 ⟨a, (List.mem_filter.1 ha').1, rfl⟩)
    obtain ⟨g, hg, e⟩ := List.mem_map.1 this
    rw [← e]; exact hlt g hg

end CKT.C07
