import CKT.Props.C19
import CKT.Props.C12Sem
import CKT.Props.C14
import CKT.Model.Gates
import CKT.Model.NoReuse
/-!
# C19 — T19.1: wire cuts without qubit re-use yield reset-free subexperiments

Layers, each a theorem for all inputs:
* wire level (`reset_free_of_shape`): if every wire reads "resets, then no reset, then resets", the three passes delete
  every reset (uses the per-wire characterisation `optimizeResets_wire` of `Props/C19`);
* splice level (`spliced_shape`, `no_reuse_reset_free`, `no_reuse_reset_free_dummy`): a subcircuit whose placeholders are
  Move-like (`MoveLike1`), whose other instructions are no resets and which re-uses no qubit (`Cond`: a preparation half is
  the first thing on its wire, nothing follows a measurement half on its wire) has such wires after
  `decompose_qpd_instructions` (spec `decomposeSpec`, refinement proved in `Props/C14`);
* model level (`experimentFor_reset_free`): for the model of `generate_cutting_experiments` with the *decidable* form of the
  hypotheses (`Model/NoReuse.noReuseExpB`), which the driver evaluates on every generated workflow — the harness requires
  it to be `true` on workflows that re-use no qubit and then sees no reset in the real subexperiments;
* `moveNameBasis_moveLike`: the Move basis of the model (`Gates.moveBasis`, tied to `decompositions.py` by C02) is Move-like;
* `no_reuse_reset_free_and_same_statistics`: both clauses of C19 together (reset-free; statistics unchanged for every
  semantics obeying the reset laws of `C12Sem`).
-/
namespace CKT.C19
open CKT CKT.ResetsAux CKT.C12

/-! ## wires of the no-re-use shape are cleaned completely -/

/-- resets, then no reset at all, then resets -/
def Shape (w : List Instr) : Prop :=
  ∃ a b c, w = a ++ b ++ c ∧ (∀ x ∈ a, isReset x = true) ∧ (∀ x ∈ b, isReset x = false) ∧ (∀ x ∈ c, isReset x = true)

theorem dropWhile_all_append (p : Instr → Bool) : ∀ (a r : List Instr), (∀ x ∈ a, p x = true) → (a ++ r).dropWhile p = r.dropWhile p := by
  intro a
  induction a with
  | nil => intro r _; rfl
  | cons x a ih =>
    intro r h
    simp only [List.cons_append, List.dropWhile_cons, h x (by simp), if_true]
    exact ih r (fun y hy => h y (List.mem_cons_of_mem _ hy))

theorem dropWhile_all (p : Instr → Bool) (a : List Instr) (h : ∀ x ∈ a, p x = true) : a.dropWhile p = [] := by
  have := dropWhile_all_append p a [] h
  simpa using this

theorem collapse_noreset : ∀ (b : List Instr) (f : Bool), (∀ x ∈ b, isReset x = false) → collapseFrom f b = b := by
  intro b
  induction b with
  | nil => intro f _; rfl
  | cons x b ih =>
    intro f h
    have hx := h x (by simp)
    simp only [collapseFrom, hx, Bool.false_eq_true, if_false]
    rw [ih false (fun y hy => h y (List.mem_cons_of_mem _ hy))]

theorem shape_clean (w : List Instr) (h : Shape w) :
    ∀ x ∈ collapseResets (rdropWhile' isReset (w.dropWhile isReset)), isReset x = false := by
  obtain ⟨a, b, c, rfl, ha, hb, hc⟩ := h
  rw [List.append_assoc, dropWhile_all_append isReset a _ ha]
  cases b with
  | nil =>
    simp only [List.nil_append, dropWhile_all isReset c hc]
    intro x hx; simp [rdropWhile', collapseResets, collapseFrom] at hx
  | cons b0 b' =>
    have hb0 := hb b0 (by simp)
    have h1 : ((b0 :: b') ++ c).dropWhile isReset = (b0 :: b') ++ c := by
      simp [List.dropWhile_cons, hb0]
    rw [h1]
    have h2 : rdropWhile' isReset ((b0 :: b') ++ c) = b0 :: b' := by
      unfold rdropWhile'
      rw [List.reverse_append, dropWhile_all_append isReset c.reverse _ (fun x hx => hc x (List.mem_reverse.1 hx))]
      have hne : (b0 :: b').reverse ≠ [] := by simp
      obtain ⟨y, ys, hy⟩ := List.exists_cons_of_ne_nil hne
      have hymem : y ∈ b0 :: b' := by
        have : y ∈ (b0 :: b').reverse := by rw [hy]; simp
        exact List.mem_reverse.1 this
      rw [hy, List.dropWhile_cons, hb y hymem]
      simp only [Bool.false_eq_true, if_false]
      rw [← hy, List.reverse_reverse]
    rw [h2]
    unfold collapseResets
    rw [collapse_noreset _ false hb]
    exact hb

/-- **T19.1 (wire level)** if every wire consists of resets, then reset-free instructions, then resets, the three passes
remove every reset of the circuit. -/
theorem reset_free_of_shape (nq : Nat) (l : List Instr) (hwf : WF nq l) (hs : ∀ q < nq, Shape (wire q l)) :
    ∀ i ∈ optimizeResets nq l, isReset i = false := by
  intro i hi
  by_contra hr
  have hr' : isReset i = true := by simpa using hr
  have hwf' := WF_of_only (optimizeResets_only nq l) hwf
  obtain ⟨hlt, hone⟩ := hwf' i hi
  obtain ⟨q, hq⟩ := hone hr'
  have hqn : q < nq := hlt q (by simp [hq])
  have hmem : i ∈ wire q (optimizeResets nq l) := by
    simp [wire, List.mem_filter, hi, hq]
  rw [optimizeResets_wire nq q hqn l hwf] at hmem
  have := shape_clean (wire q l) (hs q hqn) i hmem
  rw [this] at hr'; cases hr'

/-! ## circuits without qubit re-use have wires of that shape -/

def NoReset (w : List Instr) : Prop := ∀ x ∈ w, isReset x = false
/-- preparation side of a Move: one reset, then no reset -/
def DstShape (w : List Instr) : Prop := ∃ r post, w = r :: post ∧ isReset r = true ∧ NoReset post
/-- measurement side of a Move: no reset, then one reset -/
def SrcShape (w : List Instr) : Prop := ∃ pre r, w = pre ++ [r] ∧ isReset r = true ∧ NoReset pre

/-- no re-use on wire `q`, scanning the subcircuit from the left (`seen` = something already happened on the wire):
a destination half must be the first thing on its wire, after a source half nothing may touch the wire -/
def Cond (q : Nat) (kind : Instr → Kind) : Bool → List Instr → Prop
  | _, [] => True
  | seen, g :: rest =>
    if q ∈ g.qubits then
      match kind g with
      | .plain => Cond q kind true rest
      | .dst => seen = false ∧ Cond q kind true rest
      | .src => ∀ g' ∈ rest, q ∉ g'.qubits
    else Cond q kind seen rest

section expansion
variable (q : Nat) (expand : Instr → List Instr) (kind : Instr → Kind)

theorem wire_flatMap (l : List Instr) : wire q (l.flatMap expand) = l.flatMap (fun g => wire q (expand g)) := by
  induction l with
  | nil => rfl
  | cons g rest ih => simp [wire, List.flatMap_cons, List.filter_append] at ih ⊢; rw [ih]

/-- what the expansion of `g` must look like on wire `q` -/
structure Good (g : Instr) : Prop where
  un : q ∉ g.qubits → wire q (expand g) = []
  plain : q ∈ g.qubits → kind g = .plain → NoReset (wire q (expand g))
  dst : q ∈ g.qubits → kind g = .dst → DstShape (wire q (expand g))
  src : q ∈ g.qubits → kind g = .src → SrcShape (wire q (expand g))

theorem untouched_nil (l : List Instr) (hg : ∀ g ∈ l, Good q expand kind g) (h : ∀ g ∈ l, q ∉ g.qubits) :
    l.flatMap (fun g => wire q (expand g)) = [] := by
  induction l with
  | nil => rfl
  | cons g rest ih =>
    simp only [List.flatMap_cons, (hg g (by simp)).un (h g (by simp)), List.nil_append]
    exact ih (fun g' hg' => hg g' (List.mem_cons_of_mem _ hg')) (fun g' hg' => h g' (List.mem_cons_of_mem _ hg'))

/-- after something happened on the wire: reset-free part, then resets -/
theorem cond_seen : ∀ (l : List Instr), (∀ g ∈ l, Good q expand kind g) → Cond q kind true l →
    ∃ b c, l.flatMap (fun g => wire q (expand g)) = b ++ c ∧ NoReset b ∧ (∀ x ∈ c, isReset x = true) := by
  intro l
  induction l with
  | nil => intro _ _; exact ⟨[], [], rfl, (fun x hx => by cases hx), (fun x hx => by cases hx)⟩
  | cons g rest ih =>
    intro hg hc
    have hg0 := hg g (by simp)
    have hgr : ∀ g' ∈ rest, Good q expand kind g' := fun g' h' => hg g' (List.mem_cons_of_mem _ h')
    unfold Cond at hc
    by_cases hq : q ∈ g.qubits
    · simp only [hq, if_true] at hc
      cases hk : kind g with
      | plain =>
        simp only [hk] at hc
        obtain ⟨b, c, e, hb, hcc⟩ := ih hgr hc
        refine ⟨wire q (expand g) ++ b, c, by simp [List.flatMap_cons, e], ?_, hcc⟩
        intro x hx
        rcases List.mem_append.1 hx with hx | hx
        · exact hg0.plain hq hk x hx
        · exact hb x hx
      | dst => simp only [hk] at hc; exact absurd hc.1 (by simp)
      | src =>
        simp only [hk] at hc
        obtain ⟨pre, r, e, hr, hpre⟩ := hg0.src hq hk
        refine ⟨pre, [r], ?_, hpre, by intro x hx; simp at hx; rw [hx]; exact hr⟩
        simp [List.flatMap_cons, e, untouched_nil q expand kind rest hgr hc]
    · simp only [hq, if_false] at hc
      obtain ⟨b, c, e, hb, hcc⟩ := ih hgr hc
      exact ⟨b, c, by simp [List.flatMap_cons, hg0.un hq, e], hb, hcc⟩

theorem cond_shape : ∀ (l : List Instr), (∀ g ∈ l, Good q expand kind g) → Cond q kind false l →
    Shape (l.flatMap (fun g => wire q (expand g))) := by
  intro l
  induction l with
  | nil => intro _ _; exact ⟨[], [], [], rfl, by simp, by simp, by simp⟩
  | cons g rest ih =>
    intro hg hc
    have hg0 := hg g (by simp)
    have hgr : ∀ g' ∈ rest, Good q expand kind g' := fun g' h' => hg g' (List.mem_cons_of_mem _ h')
    unfold Cond at hc
    by_cases hq : q ∈ g.qubits
    · simp only [hq, if_true] at hc
      cases hk : kind g with
      | plain =>
        simp only [hk] at hc
        obtain ⟨b, c, e, hb, hcc⟩ := cond_seen q expand kind rest hgr hc
        refine ⟨[], wire q (expand g) ++ b, c, by simp [List.flatMap_cons, e], by simp, ?_, hcc⟩
        intro x hx
        rcases List.mem_append.1 hx with hx | hx
        · exact hg0.plain hq hk x hx
        · exact hb x hx
      | dst =>
        simp only [hk] at hc
        obtain ⟨b, c, e, hb, hcc⟩ := cond_seen q expand kind rest hgr hc.2
        obtain ⟨r, post, e2, hr, hpost⟩ := hg0.dst hq hk
        refine ⟨[r], post ++ b, c, by simp [List.flatMap_cons, e, e2], by intro x hx; simp at hx; rw [hx]; exact hr, ?_, hcc⟩
        intro x hx
        rcases List.mem_append.1 hx with hx | hx
        · exact hpost x hx
        · exact hb x hx
      | src =>
        simp only [hk] at hc
        obtain ⟨pre, r, e, hr, hpre⟩ := hg0.src hq hk
        refine ⟨[], pre, [r], ?_, by simp, hpre, by intro x hx; simp at hx; rw [hx]; exact hr⟩
        simp [List.flatMap_cons, e, untouched_nil q expand kind rest hgr hc]
    · simp only [hq, if_false] at hc
      have := ih hgr hc
      simpa [List.flatMap_cons, hg0.un hq] using this

end expansion

/-! ## instantiation: the splice of `decompose_qpd_instructions` with Move-like bases -/

/-- a one-qubit placeholder whose selected map is Move-like: the measurement side (half 0) ends with its only reset,
the preparation side (half 1) starts with its only reset -/
structure MoveLike1 (bases : List Basis) (g : Instr) : Prop where
  one : ∃ p, g.qubits = [p]
  half : g.half = some 0 ∨ g.half = some 1
  src : g.half = some 0 → SrcShape (opsFor bases g)
  dst : g.half = some 1 → DstShape (opsFor bases g)

/-- what the no-re-use theorem asks of every instruction of the subcircuit (measurement tail included) -/
structure Admissible (bases : List Basis) (g : Instr) : Prop where
  plain : isQpd g = false → isReset g = false
  one : isQpd g = true → isQpd2 g = false → MoveLike1 bases g
  two : isQpd2 g = true → (∃ p0 p1, g.qubits = [p0, p1] ∧ p0 ≠ p1) ∧ ∀ h ∈ halvesOf g, MoveLike1 bases h

theorem opsFor_qubits (bases : List Basis) (g : Instr) : ∀ x ∈ opsFor bases g, x.qubits = [g.qubits.getD 0 0] := by
  intro x hx
  unfold opsFor at hx
  split at hx
  · simp only [List.mem_map] at hx
    obtain ⟨op, _, rfl⟩ := hx
    rfl
  · cases hx

theorem wire_opsFor_self (bases : List Basis) (g : Instr) : wire (g.qubits.getD 0 0) (opsFor bases g) = opsFor bases g := by
  unfold wire
  rw [List.filter_eq_self]
  intro x hx
  simp [opsFor_qubits bases g x hx]

theorem wire_opsFor_other (bases : List Basis) (g : Instr) (q : Nat) (h : q ≠ g.qubits.getD 0 0) : wire q (opsFor bases g) = [] := by
  unfold wire
  rw [List.filter_eq_nil_iff]
  intro x hx
  rw [opsFor_qubits bases g x hx]
  simpa using h

theorem good_of_admissible (bases : List Basis) (q : Nat) (g : Instr) (ha : Admissible bases g) :
    Good q (spliceOf bases) (kindOf q) g := by
  by_cases h2 : isQpd2 g = true
  · obtain ⟨⟨p0, p1, hqs, hne⟩, hh⟩ := ha.two h2
    have hs : spliceOf bases g = opsFor bases { g with name := "qpd_1q", qubits := [p0], half := some 0 } ++
        opsFor bases { g with name := "qpd_1q", qubits := [p1], half := some 1 } := by
      simp [spliceOf, h2, halvesOf, hqs]
    have m0 := hh { g with name := "qpd_1q", qubits := [p0], half := some 0 } (by simp [halvesOf, hqs])
    have m1 := hh { g with name := "qpd_1q", qubits := [p1], half := some 1 } (by simp [halvesOf, hqs])
    have w0 : ∀ q', wire q' (opsFor bases { g with name := "qpd_1q", qubits := [p0], half := some 0 }) =
        if q' = p0 then opsFor bases { g with name := "qpd_1q", qubits := [p0], half := some 0 } else [] := by
      intro q'
      by_cases e : q' = p0
      · subst e; simp only [if_true]
        simpa using wire_opsFor_self bases { g with name := "qpd_1q", qubits := [q'], half := some 0 }
      · simp only [e, if_false]; exact wire_opsFor_other bases _ q' (by simpa using e)
    have w1 : ∀ q', wire q' (opsFor bases { g with name := "qpd_1q", qubits := [p1], half := some 1 }) =
        if q' = p1 then opsFor bases { g with name := "qpd_1q", qubits := [p1], half := some 1 } else [] := by
      intro q'
      by_cases e : q' = p1
      · subst e; simp only [if_true]
        simpa using wire_opsFor_self bases { g with name := "qpd_1q", qubits := [q'], half := some 1 }
      · simp only [e, if_false]; exact wire_opsFor_other bases _ q' (by simpa using e)
    have hw : wire q (spliceOf bases g) =
        (if q = p0 then opsFor bases { g with name := "qpd_1q", qubits := [p0], half := some 0 } else []) ++
        (if q = p1 then opsFor bases { g with name := "qpd_1q", qubits := [p1], half := some 1 } else []) := by
      rw [hs]; unfold wire; rw [List.filter_append]; exact congrArg₂ _ (w0 q) (w1 q)
    have hk : kindOf q g = if p0 = q then .src else .dst := by simp [kindOf, h2, hqs]
    refine ⟨?_, ?_, ?_, ?_⟩
    · intro hq
      have : q ≠ p0 ∧ q ≠ p1 := by simpa [hqs, not_or] using hq
      rw [hw]; simp [this.1, this.2]
    · intro _ hk'; rw [hk] at hk'; split at hk' <;> cases hk'
    · intro hq hk'
      rw [hk] at hk'
      have hq0 : q ≠ p0 := by intro e; simp [e] at hk'
      have hq1 : q = p1 := by
        have : q = p0 ∨ q = p1 := by simpa [hqs] using hq
        exact this.resolve_left hq0
      have hne' : ¬ p1 = p0 := fun e => hne e.symm
      rw [hw, hq1]; simp only [hne', if_false, List.nil_append, if_true]
      exact m1.dst rfl
    · intro hq hk'
      rw [hk] at hk'
      have hq0 : q = p0 := by
        by_contra e
        have : ¬ p0 = q := fun e' => e e'.symm
        simp [this] at hk'
      have hq1 : q ≠ p1 := by rw [hq0]; exact hne
      rw [hw]; simp only [hq0, if_true, hne, if_false, List.append_nil]
      exact m0.src rfl
  · have h2' : isQpd2 g = false := by simpa using h2
    by_cases h1 : isQpd g = true
    · have m := ha.one h1 h2'
      obtain ⟨p, hp⟩ := m.one
      have hs : spliceOf bases g = opsFor bases g := by simp [spliceOf, h2', h1]
      have hp0 : g.qubits.getD 0 0 = p := by simp [hp]
      have hk : kindOf q g = if g.half = some 0 then .src else .dst := by simp [kindOf, h2', h1]
      refine ⟨?_, ?_, ?_, ?_⟩
      · intro hq
        have : q ≠ p := by simpa [hp] using hq
        rw [hs]; exact wire_opsFor_other bases g q (by rw [hp0]; exact this)
      · intro _ hk'; rw [hk] at hk'; split at hk' <;> cases hk'
      · intro hq hk'
        have hqp : q = p := by simpa [hp] using hq
        rw [hk] at hk'
        have hh : g.half = some 1 := by
          rcases m.half with e | e
          · simp [e] at hk'
          · exact e
        rw [hs, hqp, ← hp0, wire_opsFor_self]
        exact m.dst hh
      · intro hq hk'
        have hqp : q = p := by simpa [hp] using hq
        rw [hk] at hk'
        have hh : g.half = some 0 := by
          by_contra e
          simp [e] at hk'
        rw [hs, hqp, ← hp0, wire_opsFor_self]
        exact m.src hh
    · have h1' : isQpd g = false := by simpa using h1
      have hs : spliceOf bases g = [g] := by simp [spliceOf, h2', h1']
      have hk : kindOf q g = .plain := by simp [kindOf, h2', h1']
      refine ⟨?_, ?_, ?_, ?_⟩
      · intro hq; rw [hs]; simp [wire, hq]
      · intro hq _ x hx
        rw [hs] at hx
        have : x = g := by
          have := (List.mem_filter.1 hx).1
          simpa using this
        rw [this]; exact ha.plain h1'
      · intro _ hk'; rw [hk] at hk'; cases hk'
      · intro _ hk'; rw [hk] at hk'; cases hk'

/-- **T19.1 (splice level)** in a subcircuit (measurement tail included) whose placeholders are Move-like, whose other
instructions are not resets, and in which no qubit is re-used (`Cond`: a preparation half is the first thing on its wire,
nothing follows a measurement half on its wire), every wire of the spliced circuit has the clean shape. -/
theorem spliced_shape (bases : List Basis) (l : List Instr) (q : Nat)
    (hadm : ∀ g ∈ l, Admissible bases g) (hcond : Cond q (kindOf q) false l) :
    Shape (wire q (decomposeSpec bases l)) := by
  unfold decomposeSpec
  rw [wire_flatMap]
  exact cond_shape q (spliceOf bases) (kindOf q) l (fun g hg => good_of_admissible bases q g (hadm g hg)) hcond

/-! ## from the spliced list to the circuit the passes actually see -/

/-- same qubits, same reset-ness (what the wire shapes depend on) -/
def SameSk (a b : Instr) : Prop := a.qubits = b.qubits ∧ isReset a = isReset b

theorem forall2_wire (q : Nat) {l l' : List Instr} (h : List.Forall₂ SameSk l l') :
    List.Forall₂ SameSk (wire q l) (wire q l') := by
  induction h with
  | nil => exact List.Forall₂.nil
  | @cons a b l l' hab _ ih =>
    unfold wire at ih ⊢
    simp only [List.filter_cons, hab.1]
    split
    · exact List.Forall₂.cons hab ih
    · exact ih

theorem forall2_append_split {R : Instr → Instr → Prop} : ∀ (a b l' : List Instr), List.Forall₂ R (a ++ b) l' →
    ∃ a' b', l' = a' ++ b' ∧ List.Forall₂ R a a' ∧ List.Forall₂ R b b' := by
  intro a
  induction a with
  | nil => intro b l' h; exact ⟨[], l', rfl, List.Forall₂.nil, h⟩
  | cons x a ih =>
    intro b l' h
    cases h with
    | cons hxy hrest =>
      obtain ⟨a', b', e, ha, hb⟩ := ih b _ hrest
      exact ⟨_ :: a', b', by rw [e]; rfl, List.Forall₂.cons hxy ha, hb⟩

theorem forall2_isReset {a a' : List Instr} (h : List.Forall₂ SameSk a a') (v : Bool) (ha : ∀ x ∈ a, isReset x = v) :
    ∀ x ∈ a', isReset x = v := by
  induction h with
  | nil => intro x hx; cases hx
  | @cons x y l l' hxy _ ih =>
    intro z hz
    rcases List.mem_cons.1 hz with rfl | hz
    · rw [← hxy.2]; exact ha x (by simp)
    · exact ih (fun w hw => ha w (List.mem_cons_of_mem _ hw)) z hz

theorem shape_transfer {w w' : List Instr} (h : List.Forall₂ SameSk w w') (hs : Shape w) : Shape w' := by
  obtain ⟨a, b, c, rfl, ha, hb, hc⟩ := hs
  obtain ⟨ab', c', e1, hab, hcc⟩ := forall2_append_split (a ++ b) c w' h
  obtain ⟨a', b', e2, haa, hbb⟩ := forall2_append_split a b ab' hab
  exact ⟨a', b', c', by rw [e1, e2], forall2_isReset haa true ha, forall2_isReset hbb false hb, forall2_isReset hcc true hc⟩

theorem markers_sameSk (base : Nat) : ∀ (l : List Instr) (j : Nat), List.Forall₂ SameSk l (markersToMeasures base l j) := by
  intro l
  induction l with
  | nil => intro j; exact List.Forall₂.nil
  | cons i rest ih =>
    intro j
    unfold markersToMeasures
    split
    · rename_i hm
      refine List.Forall₂.cons ⟨rfl, ?_⟩ (ih (j + 1))
      have : i.name = "qpd_measure" := by simpa [isMarker] using hm
      simp [isReset, this]
    · exact List.Forall₂.cons ⟨rfl, rfl⟩ (ih j)

/-- **T19.1** wire cuts without qubit re-use yield reset-free subexperiments: if the circuit `L` handed to the three passes
is, instruction by instruction (same qubits, same reset-ness), the splice of a subcircuit `l` (measurement tail included)
that is admissible and re-uses no qubit, then no reset is left. -/
theorem no_reuse_reset_free (nq : Nat) (bases : List Basis) (l L : List Instr)
    (hrel : List.Forall₂ SameSk (decomposeSpec bases l) L) (hwf : WF nq L)
    (hadm : ∀ g ∈ l, Admissible bases g) (hcond : ∀ q < nq, Cond q (kindOf q) false l) :
    ∀ i ∈ optimizeResets nq L, isReset i = false :=
  reset_free_of_shape nq L hwf fun q hq =>
    shape_transfer (forall2_wire q hrel) (spliced_shape bases l q hadm (hcond q hq))

/-- … in particular for what the model of `decompose_qpd_instructions` produces (markers turned into measurements) -/
theorem no_reuse_reset_free_model (nq base : Nat) (bases : List Basis) (l : List Instr)
    (hwf : WF nq (markersToMeasures base (decomposeSpec bases l) 0))
    (hadm : ∀ g ∈ l, Admissible bases g) (hcond : ∀ q < nq, Cond q (kindOf q) false l) :
    ∀ i ∈ optimizeResets nq (markersToMeasures base (decomposeSpec bases l) 0), isReset i = false :=
  no_reuse_reset_free nq bases l _ (markers_sameSk base _ 0) hwf hadm hcond

/-! ### the branch with only a placeholder measurement: trailing resets are stripped *before* the dummy measurement -/

theorem shape_rdrop_append (w t : List Instr) (hs : Shape w) (ht : NoReset t) : Shape (rdropWhile' isReset w ++ t) := by
  obtain ⟨a, b, c, rfl, ha, hb, hc⟩ := hs
  unfold rdropWhile'
  rw [List.reverse_append, dropWhile_all_append isReset c.reverse _ (fun x hx => hc x (List.mem_reverse.1 hx))]
  cases hbb : b.reverse with
  | nil =>
    have hbn : b = [] := by simpa using hbb
    subst hbn
    simp only [List.append_nil]
    rw [dropWhile_all isReset a.reverse (fun x hx => ha x (List.mem_reverse.1 hx))]
    exact ⟨[], t, [], by simp, by simp, ht, by simp⟩
  | cons y ys =>
    have hy : isReset y = false := hb y (List.mem_reverse.1 (by rw [hbb]; simp))
    rw [List.reverse_append, hbb, List.cons_append, List.dropWhile_cons, hy]
    simp only [Bool.false_eq_true, if_false]
    refine ⟨a, b ++ t, [], ?_, ha, ?_, by simp⟩
    · have : (y :: (ys ++ a.reverse)).reverse = a ++ b := by
        rw [← List.cons_append, ← hbb]; simp
      rw [this]; simp
    · intro x hx
      rcases List.mem_append.1 hx with hx | hx
      · exact hb x hx
      · exact ht x hx

/-- **T19.1, dummy-measurement branch** (`cog.pauli_indices` empty: `_remove_final_resets` runs before the placeholder
measurement is appended; here the tail may touch any wire) -/
theorem no_reuse_reset_free_dummy (nq : Nat) (bases : List Basis) (l X t : List Instr)
    (hrel : List.Forall₂ SameSk (decomposeSpec bases l) X) (hwfX : WF nq X) (hwf : WF nq (removeFinalResets nq X ++ t))
    (ht : NoReset t) (hadm : ∀ g ∈ l, Admissible bases g) (hcond : ∀ q < nq, Cond q (kindOf q) false l) :
    ∀ i ∈ optimizeResets nq (removeFinalResets nq X ++ t), isReset i = false := by
  apply reset_free_of_shape nq _ hwf
  intro q hq
  have hw : wire q (removeFinalResets nq X ++ t) = rdropWhile' isReset (wire q X) ++ wire q t := by
    unfold wire; rw [List.filter_append]
    exact congrArg (· ++ _) (removeFinal_wire nq q hq X hwfX)
  rw [hw]
  apply shape_rdrop_append
  · exact shape_transfer (forall2_wire q hrel) (spliced_shape bases l q hadm (hcond q hq))
  · intro x hx; exact ht x (List.mem_filter.1 hx).1

/-! ### the Move basis is Move-like -/

/-- every map of the basis has a measurement side ending in its only reset and a preparation side starting with its only reset -/
def MoveLikeBasis (b : Basis) : Prop :=
  ∀ m < b.maps.length, srcNamesB (((b.maps.getD m []).getD 0 []).map (·.name)) = true ∧
    dstNamesB (((b.maps.getD m []).getD 1 []).map (·.name)) = true

/-- the op names of the model's Move basis (`Gates.moveBasis`, tied to `decompositions.py` by the C02 correspondence) -/
def moveNameBasis : Basis :=
  { maps := moveBasis.maps.map fun m => [m.1.map (fun o => ({ name := o.name } : Op)), m.2.map (fun o => ({ name := o.name } : Op))],
    coeffs := [] }

theorem moveNameBasis_moveLike : MoveLikeBasis moveNameBasis := by
  intro m hm
  have : m < 8 := by simpa [moveNameBasis, moveBasis] using hm
  have h8 : m = 0 ∨ m = 1 ∨ m = 2 ∨ m = 3 ∨ m = 4 ∨ m = 5 ∨ m = 6 ∨ m = 7 := by omega
  rcases h8 with rfl | rfl | rfl | rfl | rfl | rfl | rfl | rfl <;> decide

theorem srcShape_of_names (w : List Instr) (h : srcNamesB (w.map (·.name)) = true) : SrcShape w := by
  rcases List.eq_nil_or_concat w with rfl | ⟨pre, r, hw⟩
  · simp [srcNamesB] at h
  · rw [List.concat_eq_append] at hw
    subst hw
    simp only [srcNamesB, List.map_append, List.map_cons, List.map_nil, Bool.and_eq_true, Bool.not_eq_true'] at h
    have h1 : r.name = "reset" := by simpa using h.1
    have h2 : (pre.map (·.name)).contains "reset" = false := by simpa using h.2
    refine ⟨pre, r, rfl, by simp [isReset, h1], ?_⟩
    intro x hx
    have : x.name ≠ "reset" := by
      intro e
      have : (pre.map (·.name)).contains "reset" = true := by
        simp only [List.contains_eq_mem, List.mem_map, decide_eq_true_eq]; exact ⟨x, hx, e⟩
      rw [h2] at this; cases this
    simp [isReset, this]

theorem dstShape_of_names (w : List Instr) (h : dstNamesB (w.map (·.name)) = true) : DstShape w := by
  cases w with
  | nil => simp [dstNamesB] at h
  | cons r post =>
    simp only [dstNamesB, List.map_cons, List.head?_cons, List.tail_cons, Bool.and_eq_true, Bool.not_eq_true'] at h
    have h1 : r.name = "reset" := by simpa using h.1
    refine ⟨r, post, rfl, by simp [isReset, h1], ?_⟩
    intro x hx
    have : x.name ≠ "reset" := by
      intro e
      have : (post.map (·.name)).contains "reset" = true := by
        simp only [List.contains_eq_mem, List.mem_map, decide_eq_true_eq]; exact ⟨x, hx, e⟩
      rw [h.2] at this; cases this
    simp [isReset, this]

/-- a one-qubit placeholder that refers to a Move-like basis (with a valid map id) is Move-like -/
theorem moveLike1_of_basis (bases : List Basis) (g : Instr) (b : Basis) (m h p : Nat)
    (hb : basisOfInstr bases g = some b) (hml : MoveLikeBasis b) (hm : g.basisId = some m) (hlt : m < b.maps.length)
    (hh : g.half = some h) (h01 : h = 0 ∨ h = 1) (hq : g.qubits = [p]) : MoveLike1 bases g := by
  have hops : (opsFor bases g).map (·.name) = ((b.maps.getD m []).getD h []).map (·.name) := by
    simp [opsFor, hb, hm, hh, List.map_map, Function.comp_def]
  refine ⟨⟨p, hq⟩, by rcases h01 with rfl | rfl <;> simp [hh], ?_, ?_⟩
  · intro h0
    have : h = 0 := by rw [hh] at h0; injection h0
    subst this
    exact srcShape_of_names _ (by rw [hops]; exact (hml m hlt).1)
  · intro h1
    have : h = 1 := by rw [hh] at h1; injection h1
    subst this
    exact dstShape_of_names _ (by rw [hops]; exact (hml m hlt).2)

/-! non-vacuity: a Move onto a fresh qubit, unseparated form -/
private def exl : List Instr := [
  { name := "h", qubits := [0] },
  { name := "qpd_2q", qubits := [0, 1], basis := some 0, basisId := some 2 },
  { name := "h", qubits := [1] }, { name := "measure", qubits := [1], clbits := [0] } ]

example : (decomposeSpec [moveNameBasis] exl).map (·.name) = ["h", "h", "qpd_measure", "reset", "reset", "h", "h", "measure"] := by decide
example : (optimizeResets 2 (markersToMeasures 1 (decomposeSpec [moveNameBasis] exl) 0)).map (·.name) =
    ["h", "h", "measure", "h", "h", "measure"] := by decide
example : Cond 0 (kindOf 0) false exl ∧ Cond 1 (kindOf 1) false exl := by
  simp [Cond, kindOf, exl, isQpd2, isQpd]
example : ∀ g ∈ exl, Admissible [moveNameBasis] g := by
  intro g hg
  simp only [exl, List.mem_cons, List.mem_nil_iff, or_false] at hg
  rcases hg with rfl | rfl | rfl | rfl
  · exact ⟨fun _ => by decide, fun h => by simp [isQpd] at h, fun h => by simp [isQpd2] at h⟩
  · refine ⟨fun h => by simp [isQpd] at h, fun _ h => by simp [isQpd2] at h, fun _ => ⟨⟨0, 1, rfl, by decide⟩, ?_⟩⟩
    intro h hh
    simp only [halvesOf, List.mem_cons, List.mem_nil_iff, or_false] at hh
    rcases hh with rfl | rfl
    · exact moveLike1_of_basis _ _ moveNameBasis 2 0 0 rfl moveNameBasis_moveLike rfl (by decide) rfl (Or.inl rfl) rfl
    · exact moveLike1_of_basis _ _ moveNameBasis 2 1 1 rfl moveNameBasis_moveLike rfl (by decide) rfl (Or.inr rfl) rfl
  · exact ⟨fun _ => by decide, fun h => by simp [isQpd] at h, fun h => by simp [isQpd2] at h⟩
  · exact ⟨fun _ => by decide, fun h => by simp [isQpd] at h, fun h => by simp [isQpd2] at h⟩
/-- … whereas re-using qubit 0 after the Move violates the condition -/
example : ¬ Cond 0 (kindOf 0) false (exl ++ [{ name := "h", qubits := [0] }]) := by
  simp [Cond, kindOf, exl, isQpd2, isQpd]

/-! ### together with C12Sem: the removals are invisible -/

/-- **C19, both clauses**: in a no-re-use workflow the circuit after the passes contains no reset at all, *and* (for every
semantics obeying the reset laws of `C12Sem`) has the measurement statistics of the circuit before the passes. -/
theorem no_reuse_reset_free_and_same_statistics {S O : Type} (M : C12Sem.ResetSem S O)
    (nq : Nat) (bases : List Basis) (l L : List Instr)
    (hrel : List.Forall₂ SameSk (decomposeSpec bases l) L) (hwf : WF nq L)
    (hadm : ∀ g ∈ l, Admissible bases g) (hcond : ∀ q < nq, Cond q (kindOf q) false l) :
    (∀ i ∈ optimizeResets nq L, isReset i = false) ∧
    M.obs (C12Sem.run M (optimizeResets nq L) M.init) = M.obs (C12Sem.run M L M.init) :=
  ⟨no_reuse_reset_free nq bases l L hrel hwf hadm hcond, C12Sem.optimizeResets_obs M nq L hwf⟩

/-! ## the decidable hypotheses (`Model/NoReuse`) imply the propositional ones -/

theorem condB_sound (q : Nat) (kind : Instr → Kind) : ∀ (l : List Instr) (seen : Bool),
    condB q kind seen l = true → Cond q kind seen l := by
  intro l
  induction l with
  | nil => intro seen _; trivial
  | cons g rest ih =>
    intro seen h
    unfold condB at h
    unfold Cond
    by_cases hq : q ∈ g.qubits
    · have hq' : g.qubits.contains q = true := by simpa using hq
      simp only [hq', if_true] at h
      simp only [hq, if_true]
      cases hk : kind g with
      | plain => simp only [hk] at h ⊢; exact ih true h
      | dst =>
        simp only [hk, Bool.and_eq_true, Bool.not_eq_true'] at h ⊢
        exact ⟨h.1, ih true h.2⟩
      | src =>
        simp only [hk, List.all_eq_true, Bool.not_eq_true'] at h ⊢
        intro g' hg'
        have := h g' hg'
        simpa using this
    · have hq' : g.qubits.contains q = false := by simpa using hq
      simp only [hq', Bool.false_eq_true, if_false] at h
      simp only [hq, if_false]
      exact ih seen h

theorem moveLikeBasisB_sound (b : Basis) (h : moveLikeBasisB b = true) : MoveLikeBasis b := by
  intro m hm
  unfold moveLikeBasisB at h
  rw [List.all_eq_true] at h
  have := h m (List.mem_range.2 hm)
  simpa using this

theorem moveLike1B_sound (bases : List Basis) (g : Instr) (h : moveLike1B bases g = true) : MoveLike1 bases g := by
  unfold moveLike1B at h
  simp only [Bool.and_eq_true, Bool.or_eq_true, beq_iff_eq] at h
  obtain ⟨⟨hb, hlen⟩, hhalf⟩ := h
  cases hbo : basisOfInstr bases g with
  | none => rw [hbo] at hb; cases hb
  | some b =>
    cases hm : g.basisId with
    | none => rw [hbo, hm] at hb; cases hb
    | some m =>
      rw [hbo, hm] at hb
      simp only [Bool.and_eq_true, decide_eq_true_eq] at hb
      obtain ⟨p, hp⟩ : ∃ p, g.qubits = [p] := by
        rcases hq : g.qubits with _ | ⟨p, _ | ⟨_, _⟩⟩
        · rw [hq] at hlen; simp at hlen
        · exact ⟨p, rfl⟩
        · rw [hq] at hlen; simp at hlen
      rcases hhalf with h0 | h1
      · exact moveLike1_of_basis bases g b m 0 p hbo (moveLikeBasisB_sound b hb.1) hm hb.2 h0 (Or.inl rfl) hp
      · exact moveLike1_of_basis bases g b m 1 p hbo (moveLikeBasisB_sound b hb.1) hm hb.2 h1 (Or.inr rfl) hp

theorem admissibleB_sound (bases : List Basis) (g : Instr) (h : admissibleB bases g = true) : Admissible bases g := by
  unfold admissibleB at h
  by_cases h2 : isQpd2 g = true
  · simp only [h2, if_true, Bool.and_eq_true, List.all_eq_true] at h
    have hq1 : isQpd g = true := by simp [isQpd, isQpd2] at h2 ⊢; simp [h2]
    refine ⟨(fun hn => by rw [hq1] at hn; cases hn), (fun _ hn => by rw [h2] at hn; cases hn), (fun _ => ⟨?_, fun x hx => moveLike1B_sound bases x (h.2 x hx)⟩)⟩
    rcases hq : g.qubits with _ | ⟨p0, _ | ⟨p1, _ | ⟨_, _⟩⟩⟩ <;> rw [hq] at h <;> simp at h
    exact ⟨p0, p1, rfl, h.1⟩
  · have h2' : isQpd2 g = false := by simpa using h2
    by_cases h1 : isQpd g = true
    · simp only [h2', Bool.false_eq_true, if_false, h1, if_true] at h
      exact ⟨(fun hn => by rw [h1] at hn; cases hn), (fun _ _ => moveLike1B_sound bases g h), (fun hn => by rw [h2'] at hn; cases hn)⟩
    · have h1' : isQpd g = false := by simpa using h1
      simp only [h2', h1', Bool.false_eq_true, if_false, Bool.not_eq_true'] at h
      exact ⟨(fun _ => h), (fun hn => by rw [h1'] at hn; cases hn), (fun hn => by rw [h2'] at hn; cases hn)⟩

theorem wfB_sound (nq : Nat) (l : List Instr) (h : wfB nq l = true) : WF nq l := by
  intro i hi
  unfold wfB at h
  rw [List.all_eq_true] at h
  have := h i hi
  simp only [Bool.and_eq_true, List.all_eq_true, decide_eq_true_eq, Bool.or_eq_true, Bool.not_eq_true', beq_iff_eq] at this
  refine ⟨this.1, fun hr => ?_⟩
  rcases this.2 with h0 | h1
  · rw [hr] at h0; cases h0
  · rcases hq : i.qubits with _ | ⟨p, _ | ⟨_, _⟩⟩
    · rw [hq] at h1; simp at h1
    · exact ⟨p, rfl⟩
    · rw [hq] at h1; simp at h1

theorem noReuseB_sound (nq : Nat) (bases : List Basis) (l : List Instr) (h : noReuseB nq bases l = true) :
    (∀ g ∈ l, Admissible bases g) ∧ ∀ q < nq, Cond q (kindOf q) false l := by
  unfold noReuseB at h
  simp only [Bool.and_eq_true, List.all_eq_true] at h
  exact ⟨fun g hg => admissibleB_sound bases g (h.2 g hg),
    fun q hq => condB_sound q (kindOf q) l false (h.1 q (List.mem_range.2 hq))⟩

theorem measurementInstrs_plain (general : PauliStr) (indices : List Nat) (loc : Nat → Nat) (base : Nat) :
    ∀ t ∈ measurementInstrs general indices loc base, isQpd t = false ∧ isReset t = false := by
  intro t ht
  unfold measurementInstrs at ht
  simp only [List.mem_flatMap] at ht
  obtain ⟨sq, _, ht⟩ := ht
  simp only [List.mem_append, List.mem_cons, List.mem_nil_iff, or_false] at ht
  rcases ht with ht | rfl
  · split at ht
    · simp at ht; subst ht; exact ⟨by simp [isQpd], by simp [isReset]⟩
    · simp at ht; subst ht; exact ⟨by simp [isQpd], by simp [isReset]⟩
    · cases ht
  · exact ⟨by simp [isQpd], by simp [isReset]⟩

theorem decomposeSpec_append_plain (bases : List Basis) (l t : List Instr) (ht : ∀ x ∈ t, isQpd x = false) :
    decomposeSpec bases (l ++ t) = decomposeSpec bases l ++ t := by
  unfold decomposeSpec
  rw [List.flatMap_append]
  congr 1
  induction t with
  | nil => rfl
  | cons x t ih =>
    have hx := ht x (by simp)
    have hx2 : isQpd2 x = false := by
      simp [isQpd, isQpd2] at hx ⊢; exact hx.2
    simp only [List.flatMap_cons, spliceOf, hx, hx2, Bool.false_eq_true, if_false, List.cons_append, List.nil_append]
    rw [ih (fun y hy => ht y (List.mem_cons_of_mem _ hy))]

theorem forall2_refl_sameSk : ∀ (t : List Instr), List.Forall₂ SameSk t t := by
  intro t; induction t with
  | nil => exact List.Forall₂.nil
  | cons x t ih => exact List.Forall₂.cons ⟨rfl, rfl⟩ ih

theorem forall2_append_sameSk {a a' b b' : List Instr} (h1 : List.Forall₂ SameSk a a') (h2 : List.Forall₂ SameSk b b') :
    List.Forall₂ SameSk (a ++ b) (a' ++ b') := by
  induction h1 with
  | nil => exact h2
  | cons hxy _ ih => exact List.Forall₂.cons hxy ih

theorem idxsWhere_eq {α : Type} (p : α → Bool) (l : List α) : CKT.idxsWhere p l = C14.idxsWhere p l := rfl

/-- **T19.1 for the model of `generate_cutting_experiments`**: whenever the decidable no-re-use hypotheses hold for a
subexperiment (they are evaluated by the driver on every generated workflow), the generated subexperiment contains no reset. -/
theorem experimentFor_reset_free (bases : List Basis) (c : Circuit) (ids : List (List Nat)) (mapIds : List Int) (g : Group)
    (out : Circuit) (hno : noReuseExpB bases c ids mapIds g = true) (h : experimentFor bases c ids mapIds g = .ok out) :
    ∀ i ∈ out.instrs, isReset i = false := by
  unfold experimentFor at h
  simp only at h
  split at h
  · cases h
  · rename_i c2 hdec
    split at h
    · cases h
    · injection h with h
      subst h
      simp only
      obtain ⟨instrs, hassign, hinstrs, _, hnq⟩ := C14.decompose_ok_shape _ bases ids mapIds c2 hdec
      unfold noReuseExpB at hno
      simp only [hassign, Bool.and_eq_true, decide_eq_true_eq] at hno
      obtain ⟨⟨hvalid, hwfX⟩, hrest⟩ := hno
      rw [idxsWhere_eq] at hvalid
      rw [C14.stages_eq_decomposeSpec bases instrs ids hvalid] at hinstrs
      have hnq' : c2.nq = c.nq := hnq
      rw [hnq', hinstrs]
      have hplain := measurementInstrs_plain g.general g.indices id c.ncl
      by_cases he : g.indices.isEmpty = true
      · simp only [he, if_true, Bool.and_eq_true] at hrest ⊢
        obtain ⟨hadm, hcond⟩ := noReuseB_sound c.nq bases instrs hrest.1
        exact no_reuse_reset_free_dummy c.nq bases instrs _ _ (markers_sameSk _ _ 0) (wfB_sound _ _ hwfX)
          (wfB_sound _ _ hrest.2) (fun x hx => (hplain x hx).2) hadm hcond
      · have he' : g.indices.isEmpty = false := by simpa using he
        simp only [he', Bool.false_eq_true, if_false, Bool.and_eq_true] at hrest ⊢
        obtain ⟨hadm, hcond⟩ := noReuseB_sound c.nq bases _ hrest.1
        apply no_reuse_reset_free c.nq bases (instrs ++ measurementInstrs g.general g.indices id c.ncl) _ ?_ (wfB_sound _ _ hrest.2) hadm hcond
        rw [decomposeSpec_append_plain bases instrs _ (fun x hx => (hplain x hx).1)]
        exact forall2_append_sameSk (markers_sameSk _ _ 0) (forall2_refl_sameSk _)

end CKT.C19
