import CKT.Props.C08Prune
/-!
# C08 / C07 — with wire cuts: every state of the search tree is a plan prefix; the reported minimum **is** the minimum

Converse of `C08Wire` for all five actions: a state reached in the model's search tree is the prefix of a plan (`Link2W`): its wire map and
wire count are the specification's bookkeeping `wsAt`, its union-find classes are exactly the classes of wires joined by the gates applied
so far (`ConnUpToP`), its recorded widths are the class sizes, its cost is the product of the factors of the cuts made so far
(`child_linkW`, `desc_linkW`).  Hence what `optimize` returns — a goal of the tree or the greedy incumbent — is a width-feasible plan with
exactly the reported overhead, using only the permitted kinds of cut (`optimize_result_is_planW`: the returned cuts respect the width limit
in the specification, C07), and with `C08Prune.optimize_min_over_all_plans`:

  `optimize_is_minimumW` — flag set ⇒ the reported overhead is attained by a width-feasible plan and no width-feasible plan costs less.
-/
namespace CKT.C08Wire
open CKT CKT.CF CKT.C07 CKT.C08 CKT.C08Link

/-- wires joined through the gates among the first `m` that are not gate-cut -/
def ConnUpToP (gates : List Gate) (p : Nat → Choice) (n m : Nat) : Nat → Nat → Prop :=
  Relation.EqvGen fun x y => ∃ j g, j < m ∧ gates[j]? = some g ∧ p j ≠ .gcut ∧
    (wsAt gates p n (j + 1)).wire (g.qubits.getD 0 0) = x ∧ (wsAt gates p n (j + 1)).wire (g.qubits.getD 1 0) = y

section
variable {gates : List Gate} {n : Nat}

theorem cup_refl (p : Nat → Choice) (m x : Nat) : ConnUpToP gates p n m x x := Relation.EqvGen.refl x
theorem cup_symm {p : Nat → Choice} {m x y : Nat} (h : ConnUpToP gates p n m x y) : ConnUpToP gates p n m y x := Relation.EqvGen.symm _ _ h
theorem cup_trans {p : Nat → Choice} {m x y z : Nat} (h1 : ConnUpToP gates p n m x y) (h2 : ConnUpToP gates p n m y z) :
    ConnUpToP gates p n m x z := Relation.EqvGen.trans _ _ _ h1 h2

/-- a longer prefix of a plan that agrees on the shorter prefix joins at least as much -/
theorem cup_mono (p p' : Nat → Choice) (m m' : Nat) (hm : m ≤ m') (hag : ∀ j, j < m → p' j = p j) (x y : Nat)
    (h : ConnUpToP gates p n m x y) : ConnUpToP gates p' n m' x y := by
  induction h with
  | rel x y hxy =>
    obtain ⟨j, g, hj, hg, hne, h1, h2⟩ := hxy
    have hw : wsAt gates p' n (j + 1) = wsAt gates p n (j + 1) := wsAt_congr gates p p' n (j + 1) (fun k hk => hag k (by omega))
    exact Relation.EqvGen.rel _ _ ⟨j, g, by omega, hg, by rw [hag j hj]; exact hne, by rw [hw]; exact h1, by rw [hw]; exact h2⟩
  | refl x => exact cup_refl _ _ _
  | symm x y _ ih => exact cup_symm ih
  | trans x y z _ _ ih1 ih2 => exact cup_trans ih1 ih2

theorem cup_full (p : Nat → Choice) (m : Nat) (hm : gates.length ≤ m) (x y : Nat) : ConnUpToP gates p n m x y ↔ ConnP gates p n x y := by
  constructor
  · intro h
    induction h with
    | rel x y hxy =>
      obtain ⟨j, g, _, hg, hne, h1, h2⟩ := hxy
      exact Relation.EqvGen.rel _ _ ⟨j, g, hg, hne, h1, h2⟩
    | refl x => exact connP_refl _
    | symm x y _ ih => exact connP_symm ih
    | trans x y z _ _ ih1 ih2 => exact connP_trans ih1 ih2
  · intro h
    induction h with
    | rel x y hxy =>
      obtain ⟨j, g, hg, hne, h1, h2⟩ := hxy
      have hj : j < gates.length := by
        by_contra hh
        rw [List.getElem?_eq_none (not_lt.mp hh)] at hg
        cases hg
      exact Relation.EqvGen.rel _ _ ⟨j, g, by omega, hg, hne, h1, h2⟩
    | refl x => exact cup_refl _ _ _
    | symm x y _ ih => exact cup_symm ih
    | trans x y z _ _ ih1 ih2 => exact cup_trans ih1 ih2

end

/-- the state is the plan prefix of its level -/
structure Link2W (cfg : Settings) (gates : List Gate) (p : Nat → Choice) (n W : Nat) (s : St) : Prop where
  wm : s.wiremap = (wsAt gates p n s.level).wm
  nw : s.numWires = (wsAt gates p n s.level).nw
  inv : Inv W n s
  inv2 : Inv2 s
  cnt : CntS s
  fwd : ∀ w1 w2, w1 < s.numWires → w2 < s.numWires → rootL s.root w1 = rootL s.root w2 → ConnUpToP gates p n s.level w1 w2
  bwd : ∀ w1 w2, ConnUpToP gates p n s.level w1 w2 → rootL s.root w1 = rootL s.root w2
  cost : s.gammaUB = costUpTo gates p s.level
  rest : ∀ j, s.level ≤ j → p j = .app
  al : ∀ j, j < s.level → (p j = .gcut → cfg.gateLO = true) ∧ (p j = .left ∨ p j = .right ∨ p j = .both → cfg.wireLO = true)

theorem link2W_init (cfg : Settings) (gates : List Gate) (n W K : Nat) (hW : 1 ≤ W) :
    Link2W cfg gates (fun _ => .app) n W (St.init n K) := by
  refine ⟨rfl, rfl, init_inv W n K hW, init_inv2 n K, init_cnt n K, ?_, ?_, rfl, fun _ _ => rfl, fun j hj => by simp [St.init] at hj⟩
  · intro w1 w2 _ _ h
    simp only [St.init, rootL_range] at h
    subst h
    exact cup_refl _ _ _
  · intro w1 w2 h
    induction h with
    | rel x y hxy =>
      obtain ⟨j, g, hj, _⟩ := hxy
      simp [St.init] at hj
    | refl x => rfl
    | symm x y _ ih => exact ih.symm
    | trans x y z _ _ ih1 ih2 => exact ih1.trans ih2

/-! ### merging roots -/

theorem merge_pres (root : List Nat) (mw nw : Nat) (nm : List (Nat × Nat)) (hi : Inv2' root mw nw nm) (a b : Nat) (hlt : max a b < nw)
    (x y : Nat) (h : rootL root x = rootL root y) :
    rootL (root.map fun r => if r = max a b then min a b else r) x = rootL (root.map fun r => if r = max a b then min a b else r) y := by
  rw [rootL_merge root mw nw nm hi a b x hlt, rootL_merge root mw nw nm hi a b y hlt, h]

theorem merge_joins (root : List Nat) (mw nw : Nat) (nm : List (Nat × Nat)) (hi : Inv2' root mw nw nm) (a b : Nat) (hlt : max a b < nw)
    (x y : Nat) (hx : rootL root x = a) (hy : rootL root y = b) :
    rootL (root.map fun r => if r = max a b then min a b else r) x = rootL (root.map fun r => if r = max a b then min a b else r) y := by
  rw [rootL_merge root mw nw nm hi a b x hlt, rootL_merge root mw nw nm hi a b y hlt, hx, hy]
  rcases le_total a b with h | h
  · rw [max_eq_right h, min_eq_left h]
    by_cases e : a = b
    · subst e; simp
    · simp [e]
  · rw [max_eq_left h, min_eq_right h]
    by_cases e : b = a
    · subst e; simp
    · simp [e]

/-! ### what a successful action returns -/

theorem applyGate_some (s : St) (g : Gate) (W : Nat) (t : St) (h : applyGate s g W = some t) : t = appSt s g := by
  unfold applyGate at h
  simp only at h
  split at h
  · cases h
  · split at h
    · cases h
    · injection h with h; exact h.symm

theorem cutGate_some (s : St) (g : Gate) (W : Nat) (t : St) (h : cutGate s g W = some t) :
    ∃ γ, g.gamma = some γ ∧ t = cutSt s g γ := by
  unfold cutGate at h
  cases hγ : g.gamma with
  | none => rw [hγ] at h; cases h
  | some γ =>
    rw [hγ] at h
    simp only at h
    split at h
    · cases h
    · injection h with h; exact ⟨γ, rfl, h.symm⟩

theorem cutLeft_some (s : St) (g : Gate) (W : Nat) (t : St) (h : cutLeft s g W = some t) :
    t = leftSt s g ∧ s.numWires + 1 ≤ s.maxWires := by
  unfold cutLeft at h
  split at h
  · cases h
  · rename_i hcap
    simp only at h
    split at h
    · cases h
    · split at h
      · cases h
      · injection h with h
        refine ⟨h.symm, ?_⟩
        simpa [St.canAddWires] using hcap

theorem cutRight_some (s : St) (g : Gate) (W : Nat) (t : St) (h : cutRight s g W = some t) :
    t = rightSt s g ∧ s.numWires + 1 ≤ s.maxWires := by
  unfold cutRight at h
  split at h
  · cases h
  · rename_i hcap
    simp only at h
    split at h
    · cases h
    · split at h
      · cases h
      · injection h with h
        refine ⟨h.symm, ?_⟩
        simpa [St.canAddWires] using hcap

theorem cutBoth_some (s : St) (g : Gate) (W : Nat) (t : St) (h : cutBoth s g W = some t) :
    t = bothSt s g ∧ s.numWires + 2 ≤ s.maxWires := by
  unfold cutBoth at h
  split at h
  · cases h
  · rename_i hcap
    split at h
    · cases h
    · injection h with h
      refine ⟨h.symm, ?_⟩
      simpa [St.canAddWires] using hcap

theorem costUpTo_congr (gates : List Gate) (p p1 : Nat → Choice) : ∀ m, (∀ j, j < m → p1 j = p j) → costUpTo gates p1 m = costUpTo gates p m
  | 0, _ => rfl
  | m + 1, h => by
    simp only [costUpTo]
    rw [costUpTo_congr gates p p1 m (fun j hj => h j (by omega)), h m (by omega)]

/-! ### one step, converse direction -/

section
variable {cfg : Settings} {gates : List Gate} {p : Nat → Choice} {n W : Nat}

/-- what has to be shown about the successor `t` of a plan prefix `s` under decision `c` -/
theorem child_generic (s t : St) (g : Gate) (c : Choice) (hl : Link2W cfg gates p n W s) (hg : gates[s.level]? = some g)
    (hinv : Inv W n t) (hinv2 : Inv2 t) (hcnt : CntS t) (hlev : t.level = s.level + 1)
    (hwm : t.wiremap = (wsStep (wsAt gates p n s.level) g c).wm) (hnw : t.numWires = (wsStep (wsAt gates p n s.level) g c).nw)
    (hgam : t.gammaUB = s.gammaUB * factor g c)
    (hal : (c = .gcut → cfg.gateLO = true) ∧ (c = .left ∨ c = .right ∨ c = .both → cfg.wireLO = true))
    (hfwd : ∀ w1 w2, w1 < t.numWires → w2 < t.numWires → rootL t.root w1 = rootL t.root w2 →
      ConnUpToP gates (Function.update p s.level c) n (s.level + 1) w1 w2)
    (hpres : ∀ x y, rootL s.root x = rootL s.root y → rootL t.root x = rootL t.root y)
    (hedge : c ≠ .gcut → rootL t.root ((wsStep (wsAt gates p n s.level) g c).wire (g.qubits.getD 0 0)) =
      rootL t.root ((wsStep (wsAt gates p n s.level) g c).wire (g.qubits.getD 1 0))) :
    Link2W cfg gates (Function.update p s.level c) n W t := by
  have hsucc := upd_succ p s.level c gates n g hg
  refine ⟨by rw [hlev, hsucc]; exact hwm, by rw [hlev, hsucc]; exact hnw, hinv, hinv2, hcnt, by rw [hlev]; exact hfwd, ?_, ?_, ?_, ?_⟩
  · rw [hlev]
    intro w1 w2 h
    induction h with
    | rel x y hxy =>
      obtain ⟨j, g', hj, hg', hne, rfl, rfl⟩ := hxy
      by_cases hjm : j = s.level
      · subst hjm
        rw [hg] at hg'
        injection hg' with e
        subst e
        rw [Function.update_self] at hne
        rw [hsucc]
        exact hedge hne
      · have hjlt : j < s.level := by omega
        rw [Function.update_of_ne hjm] at hne
        have hw : wsAt gates (Function.update p s.level c) n (j + 1) = wsAt gates p n (j + 1) :=
          wsAt_congr gates p _ n (j + 1) (fun k (hk : k < j + 1) => Function.update_of_ne (show k ≠ s.level by omega) _ _)
        rw [hw]
        exact hpres _ _ (hl.bwd _ _ (Relation.EqvGen.rel _ _ ⟨j, g', hjlt, hg', hne, rfl, rfl⟩))
    | refl x => rfl
    | symm x y _ ih => exact ih.symm
    | trans x y z _ _ ih1 ih2 => exact ih1.trans ih2
  · rw [hlev, hgam, hl.cost]
    simp only [costUpTo, hg, Function.update_self]
    rw [costUpTo_congr gates p (Function.update p s.level c) s.level (fun j (hj : j < s.level) => Function.update_of_ne (show j ≠ s.level by omega) _ _)]
  · intro j hj
    rw [hlev] at hj
    rw [Function.update_of_ne (by omega)]
    exact hl.rest j (by omega)
  · intro j hj
    rw [hlev] at hj
    by_cases hjm : j = s.level
    · subst hjm; rw [Function.update_self]; exact hal
    · rw [Function.update_of_ne hjm]; exact hl.al j (by omega)

/-- the old classes stay inside the new prefix relation -/
theorem lift_fwd (s : St) (c : Choice) (hl : Link2W cfg gates p n W s) :
    ∀ w1 w2, w1 < s.numWires → w2 < s.numWires → rootL s.root w1 = rootL s.root w2 →
      ConnUpToP gates (Function.update p s.level c) n (s.level + 1) w1 w2 :=
  fun w1 w2 h1 h2 h => cup_mono p _ s.level (s.level + 1) (by omega) (fun j (hj : j < s.level) => Function.update_of_ne (show j ≠ s.level by omega) _ _) w1 w2
    (hl.fwd w1 w2 h1 h2 h)

theorem new_edge (s : St) (g : Gate) (c : Choice) (hg : gates[s.level]? = some g) (hc : c ≠ .gcut) :
    ConnUpToP gates (Function.update p s.level c) n (s.level + 1)
      ((wsStep (wsAt gates p n s.level) g c).wire (g.qubits.getD 0 0)) ((wsStep (wsAt gates p n s.level) g c).wire (g.qubits.getD 1 0)) := by
  rw [← upd_succ p s.level c gates n g hg]
  exact Relation.EqvGen.rel _ _ ⟨s.level, g, by omega, hg, by rw [Function.update_self]; exact hc, rfl, rfl⟩

theorem Link2W.wire_eq (s : St) (hl : Link2W cfg gates p n W s) (q : Nat) : s.wire q = (wsAt gates p n s.level).wire q := by
  simp [St.wire, WS.wire, hl.wm]

theorem Link2W.wire_lt (s : St) (hl : Link2W cfg gates p n W s) (q : Nat) (hq : q < n) : s.wire q < s.numWires := by
  rw [hl.wire_eq s q, hl.nw]; exact wsAt_wire_lt gates p n s.level q hq

theorem Link2W.to_root (s : St) (c : Choice) (hl : Link2W cfg gates p n W s) (w : Nat) (hw : w < s.numWires) :
    ConnUpToP gates (Function.update p s.level c) n (s.level + 1) w (rootL s.root w) :=
  lift_fwd s c hl w (rootL s.root w) hw (lt_of_le_of_lt (hl.inv2.root_le w) hw) (hl.inv2.root_idem w).symm

end

section
variable {cfg : Settings} {gates : List Gate} {p : Nat → Choice} {n W : Nat}

theorem child_app (hc : CircOKW gates n) (s : St) (g : Gate) (hl : Link2W cfg gates p n W s) (hg : gates[s.level]? = some g)
    (hinv : Inv W n (appSt s g)) (hinv2 : Inv2 (appSt s g)) (hcnt : CntS (appSt s g)) :
    Link2W cfg gates (Function.update p s.level .app) n W (appSt s g) := by
  have hmem : g ∈ gates := List.mem_of_getElem? hg
  obtain ⟨hq1, hq2⟩ := hc.lt g hmem
  have ho1 := hl.wire_lt s _ hq1
  have ho2 := hl.wire_lt s _ hq2
  have hw1 : (wsStep (wsAt gates p n s.level) g .app).wire (g.qubits.getD 0 0) = s.wire (g.qubits.getD 0 0) := (hl.wire_eq s _).symm
  have hw2 : (wsStep (wsAt gates p n s.level) g .app).wire (g.qubits.getD 1 0) = s.wire (g.qubits.getD 1 0) := (hl.wire_eq s _).symm
  have hedge := new_edge (p := p) (n := n) s g .app hg (by decide)
  rw [hw1, hw2] at hedge
  by_cases hne : s.qroot (g.qubits.getD 0 0) ≠ s.qroot (g.qubits.getD 1 0)
  · rw [appSt_ne s g hne] at hinv hinv2 hcnt ⊢
    have hmax : max (s.qroot (g.qubits.getD 0 0)) (s.qroot (g.qubits.getD 1 0)) < s.numWires :=
      max_lt (lt_of_le_of_lt (hl.inv2.root_le _) ho1) (lt_of_le_of_lt (hl.inv2.root_le _) ho2)
    refine child_generic s _ g .app hl hg hinv hinv2 hcnt rfl hl.wm hl.nw (by simp [factor, St.merge]) ⟨(by intro e; cases e), (by rintro (e | e | e) <;> cases e)⟩ ?_ ?_ ?_
    · exact merge_same _ (cup_refl _ _) (fun _ _ => cup_symm) (fun _ _ _ => cup_trans) s.root s.maxWires s.numWires s.noMerge hl.inv2 _ _ hmax
        (cup_trans (cup_symm (hl.to_root s .app _ ho1)) (cup_trans hedge (hl.to_root s .app _ ho2))) (lift_fwd s .app hl)
    · exact fun x y h => merge_pres s.root s.maxWires s.numWires s.noMerge hl.inv2 _ _ hmax x y h
    · intro _
      rw [hw1, hw2]
      exact merge_joins s.root s.maxWires s.numWires s.noMerge hl.inv2 _ _ hmax _ _ rfl rfl
  · rw [appSt_eq s g hne] at hinv hinv2 hcnt ⊢
    refine child_generic s _ g .app hl hg hinv hinv2 hcnt rfl hl.wm hl.nw (by simp [factor]) ⟨(by intro e; cases e), (by rintro (e | e | e) <;> cases e)⟩
      (lift_fwd s .app hl) (fun _ _ h => h) ?_
    intro _
    rw [hw1, hw2]
    exact not_not.mp hne

theorem child_gcut (s : St) (g : Gate) (γ : Rat) (hγ : g.gamma = some γ) (hglo : cfg.gateLO = true) (hl : Link2W cfg gates p n W s)
    (hg : gates[s.level]? = some g) (hinv : Inv W n (cutSt s g γ)) (hinv2 : Inv2 (cutSt s g γ)) (hcnt : CntS (cutSt s g γ)) :
    Link2W cfg gates (Function.update p s.level .gcut) n W (cutSt s g γ) :=
  child_generic s _ g .gcut hl hg hinv hinv2 hcnt rfl hl.wm hl.nw (by simp [factor, hγ, cutSt]) ⟨fun _ => hglo, (by rintro (e | e | e) <;> cases e)⟩
    (lift_fwd s .gcut hl) (fun _ _ h => h) (fun h => absurd rfl h)

theorem child_left (hc : CircOKW gates n) (s : St) (g : Gate) (hwlo : cfg.wireLO = true) (hl : Link2W cfg gates p n W s)
    (hg : gates[s.level]? = some g) (hcap : s.numWires + 1 ≤ s.maxWires)
    (hinv : Inv W n (leftSt s g)) (hinv2 : Inv2 (leftSt s g)) (hcnt : CntS (leftSt s g)) :
    Link2W cfg gates (Function.update p s.level .left) n W (leftSt s g) := by
  have hmem : g ∈ gates := List.mem_of_getElem? hg
  obtain ⟨hq1, hq2⟩ := hc.lt g hmem
  have hq12 := hc.ne g hmem
  have hlen := wsAt_len gates p n s.level
  have ho2 := hl.wire_lt s _ hq2
  have hw1 : (wsStep (wsAt gates p n s.level) g .left).wire (g.qubits.getD 0 0) = s.numWires := by
    rw [hl.nw]; exact wire_set_same _ _ _ (by rw [hlen]; exact hq1)
  have hw2 : (wsStep (wsAt gates p n s.level) g .left).wire (g.qubits.getD 1 0) = s.wire (g.qubits.getD 1 0) := by
    rw [hl.wire_eq]; exact wire_set_other _ _ _ _ hq12
  have hedge := new_edge (p := p) (n := n) s g .left hg (by decide)
  rw [hw1, hw2] at hedge
  have hi2 := newWire_inv2' s.root s.maxWires s.numWires s.noMerge hl.inv2 hcap
  have hmax : max s.numWires (s.qroot (g.qubits.getD 1 0)) < s.numWires + 1 :=
    max_lt (by omega) (by have := lt_of_le_of_lt (hl.inv2.root_le _) ho2; simp only [St.qroot, rootOf_eq]; omega)
  refine child_generic s _ g .left hl hg hinv hinv2 hcnt rfl ?_ ?_ (by show s.gammaUB * 4 = _; simp [factor]) ⟨(by intro e; cases e), fun _ => hwlo⟩ ?_ ?_ ?_
  · show s.wiremap.set (g.qubits.getD 0 0) s.numWires = _
    rw [hl.wm, hl.nw]; rfl
  · show s.numWires + 1 = _
    rw [hl.nw]; rfl
  · exact merge_same _ (cup_refl _ _) (fun _ _ => cup_symm) (fun _ _ _ => cup_trans) s.root s.maxWires (s.numWires + 1) s.noMerge hi2 _ _ hmax
      (cup_trans hedge (hl.to_root s .left _ ho2))
      (fresh_same _ (cup_refl _ _) s.root s.maxWires s.numWires s.noMerge hl.inv2 1 (lift_fwd s .left hl))
  · exact fun x y h => merge_pres s.root s.maxWires (s.numWires + 1) s.noMerge hi2 _ _ hmax x y h
  · intro _
    rw [hw1, hw2]
    exact merge_joins s.root s.maxWires (s.numWires + 1) s.noMerge hi2 _ _ hmax _ _ (hl.inv2.fresh_root _ (le_refl _)) rfl

theorem child_right (hc : CircOKW gates n) (s : St) (g : Gate) (hwlo : cfg.wireLO = true) (hl : Link2W cfg gates p n W s)
    (hg : gates[s.level]? = some g) (hcap : s.numWires + 1 ≤ s.maxWires)
    (hinv : Inv W n (rightSt s g)) (hinv2 : Inv2 (rightSt s g)) (hcnt : CntS (rightSt s g)) :
    Link2W cfg gates (Function.update p s.level .right) n W (rightSt s g) := by
  have hmem : g ∈ gates := List.mem_of_getElem? hg
  obtain ⟨hq1, hq2⟩ := hc.lt g hmem
  have hq12 := hc.ne g hmem
  have hlen := wsAt_len gates p n s.level
  have ho1 := hl.wire_lt s _ hq1
  have hw2 : (wsStep (wsAt gates p n s.level) g .right).wire (g.qubits.getD 1 0) = s.numWires := by
    rw [hl.nw]; exact wire_set_same _ _ _ (by rw [hlen]; exact hq2)
  have hw1 : (wsStep (wsAt gates p n s.level) g .right).wire (g.qubits.getD 0 0) = s.wire (g.qubits.getD 0 0) := by
    rw [hl.wire_eq]; exact wire_set_other _ _ _ _ (fun e => hq12 e.symm)
  have hedge := new_edge (p := p) (n := n) s g .right hg (by decide)
  rw [hw1, hw2] at hedge
  have hi2 := newWire_inv2' s.root s.maxWires s.numWires s.noMerge hl.inv2 hcap
  have hmax : max (s.qroot (g.qubits.getD 0 0)) s.numWires < s.numWires + 1 :=
    max_lt (by have := lt_of_le_of_lt (hl.inv2.root_le _) ho1; simp only [St.qroot, rootOf_eq]; omega) (by omega)
  refine child_generic s _ g .right hl hg hinv hinv2 hcnt rfl ?_ ?_ (by show s.gammaUB * 4 = _; simp [factor]) ⟨(by intro e; cases e), fun _ => hwlo⟩ ?_ ?_ ?_
  · show s.wiremap.set (g.qubits.getD 1 0) s.numWires = _
    rw [hl.wm, hl.nw]; rfl
  · show s.numWires + 1 = _
    rw [hl.nw]; rfl
  · exact merge_same _ (cup_refl _ _) (fun _ _ => cup_symm) (fun _ _ _ => cup_trans) s.root s.maxWires (s.numWires + 1) s.noMerge hi2 _ _ hmax
      (cup_trans (cup_symm (hl.to_root s .right _ ho1)) hedge)
      (fresh_same _ (cup_refl _ _) s.root s.maxWires s.numWires s.noMerge hl.inv2 1 (lift_fwd s .right hl))
  · exact fun x y h => merge_pres s.root s.maxWires (s.numWires + 1) s.noMerge hi2 _ _ hmax x y h
  · intro _
    rw [hw1, hw2]
    exact merge_joins s.root s.maxWires (s.numWires + 1) s.noMerge hi2 _ _ hmax _ _ rfl (hl.inv2.fresh_root _ (le_refl _))

theorem child_both (hc : CircOKW gates n) (s : St) (g : Gate) (hwlo : cfg.wireLO = true) (hl : Link2W cfg gates p n W s)
    (hg : gates[s.level]? = some g) (hcap : s.numWires + 2 ≤ s.maxWires)
    (hinv : Inv W n (bothSt s g)) (hinv2 : Inv2 (bothSt s g)) (hcnt : CntS (bothSt s g)) :
    Link2W cfg gates (Function.update p s.level .both) n W (bothSt s g) := by
  have hmem : g ∈ gates := List.mem_of_getElem? hg
  obtain ⟨hq1, hq2⟩ := hc.lt g hmem
  have hq12 := hc.ne g hmem
  have hlen := wsAt_len gates p n s.level
  have hw1 : (wsStep (wsAt gates p n s.level) g .both).wire (g.qubits.getD 0 0) = s.numWires := by
    rw [hl.nw]
    show (((wsAt gates p n s.level).wm.set (g.qubits.getD 0 0) (wsAt gates p n s.level).nw).set (g.qubits.getD 1 0)
      ((wsAt gates p n s.level).nw + 1)).getD (g.qubits.getD 0 0) 0 = _
    rw [wire_set_other _ _ _ _ (fun e => hq12 e.symm)]
    exact wire_set_same _ _ _ (by rw [hlen]; exact hq1)
  have hw2 : (wsStep (wsAt gates p n s.level) g .both).wire (g.qubits.getD 1 0) = s.numWires + 1 := by
    rw [hl.nw]
    exact wire_set_same _ _ _ (by rw [List.length_set, hlen]; exact hq2)
  have hedge := new_edge (p := p) (n := n) s g .both hg (by decide)
  rw [hw1, hw2] at hedge
  have hi2 := newWire_inv2' s.root s.maxWires (s.numWires + 1) s.noMerge
    (newWire_inv2' s.root s.maxWires s.numWires s.noMerge hl.inv2 (by omega)) hcap
  have hmax : max s.numWires (s.numWires + 1) < s.numWires + 1 + 1 := max_lt (by omega) (by omega)
  refine child_generic s _ g .both hl hg hinv hinv2 hcnt rfl ?_ ?_ (by show s.gammaUB * 16 = _; simp [factor]) ⟨(by intro e; cases e), fun _ => hwlo⟩ ?_ ?_ ?_
  · show (s.wiremap.set (g.qubits.getD 0 0) s.numWires).set (g.qubits.getD 1 0) (s.numWires + 1) = _
    rw [hl.wm, hl.nw]; rfl
  · show s.numWires + 1 + 1 = _
    rw [hl.nw]; rfl
  · exact merge_same _ (cup_refl _ _) (fun _ _ => cup_symm) (fun _ _ _ => cup_trans) s.root s.maxWires (s.numWires + 1 + 1) s.noMerge hi2 _ _ hmax
      hedge (fresh_same _ (cup_refl _ _) s.root s.maxWires s.numWires s.noMerge hl.inv2 2 (lift_fwd s .both hl))
  · exact fun x y h => merge_pres s.root s.maxWires (s.numWires + 1 + 1) s.noMerge hi2 _ _ hmax x y h
  · intro _
    rw [hw1, hw2]
    exact merge_joins s.root s.maxWires (s.numWires + 1 + 1) s.noMerge hi2 _ _ hmax _ _ (hl.inv2.fresh_root _ (le_refl _))
      (hl.inv2.fresh_root _ (by omega))

end

/-! ### every state of the tree is a plan prefix -/

section
variable {cfg : Settings} {gates : List Gate} {n W : Nat}

theorem child_linkW (hc : CircOKW gates n) (p : Nat → Choice) (s t : St) (ns : List St) (hl : Link2W cfg gates p n W s)
    (hns : nextStates cfg gates W s = .ok ns) (ht : t ∈ ns) : ∃ c, Link2W cfg gates (Function.update p s.level c) n W t := by
  have hi' := step_inv cfg gates W n hc.lt s t ns hl.inv hns ht
  have hi2' := step_inv2 cfg gates W n hc.lt s t ns hl.inv hl.inv2 hns ht
  have hc' := step_cnt cfg gates W n hc.lt s t ns hl.inv hl.inv2 hl.cnt hns ht
  unfold nextStates at hns
  cases hg : gates[s.level]? with
  | none => rw [hg] at hns; injection hns with hns; subst hns; cases ht
  | some g =>
    rw [hg] at hns
    have hmem : g ∈ gates := List.mem_of_getElem? hg
    have htwo := hc.two g hmem
    simp only [htwo, ne_eq, not_true_eq_false, if_false] at hns
    injection hns with hns
    subst hns
    simp only [List.mem_filterMap] at ht
    obtain ⟨act, hact, hat⟩ := ht
    simp only [actionList, List.mem_append, List.mem_singleton, List.mem_ite_nil_right, List.mem_cons, List.not_mem_nil, or_false] at hact
    rcases hact with (rfl | ⟨hglo, rfl⟩) | ⟨hwlo, rfl | rfl | rfl⟩
    · have e := applyGate_some s g W t hat
      subst e
      exact ⟨.app, child_app hc s g hl hg hi' hi2' hc'⟩
    · obtain ⟨γ, hγ, e⟩ := cutGate_some s g W t hat
      subst e
      exact ⟨.gcut, child_gcut s g γ hγ hglo hl hg hi' hi2' hc'⟩
    · obtain ⟨e, hcap⟩ := cutLeft_some s g W t hat
      subst e
      exact ⟨.left, child_left hc s g hwlo hl hg hcap hi' hi2' hc'⟩
    · obtain ⟨e, hcap⟩ := cutRight_some s g W t hat
      subst e
      exact ⟨.right, child_right hc s g hwlo hl hg hcap hi' hi2' hc'⟩
    · obtain ⟨e, hcap⟩ := cutBoth_some s g W t hat
      subst e
      exact ⟨.both, child_both hc s g hwlo hl hg hcap hi' hi2' hc'⟩

theorem desc_linkW (hc : CircOKW gates n) (s t : St) (hd : Desc (cutFns cfg gates W) s t) :
    ∀ p, Link2W cfg gates p n W s → ∃ p', Link2W cfg gates p' n W t := by
  induction hd with
  | refl s => exact fun p h => ⟨p, h⟩
  | head s c g hch _ ih =>
    intro p hl
    obtain ⟨ns, hns, hmem⟩ := hch
    obtain ⟨ch, hl'⟩ := child_linkW hc p s c ns hl hns hmem
    exact ih _ hl'

open Classical in
/-- a goal state that is a plan prefix is a width-feasible plan with the state's cost, using only permitted kinds of cut -/
theorem goal_feasibleW (p : Nat → Choice) (t : St) (hl : Link2W cfg gates p n W t) (hgoal : isGoal gates t = true) :
    Feasible gates p n W ∧ costUpTo gates p gates.length = t.gammaUB ∧ Allowed cfg p := by
  have hlev : gates.length ≤ t.level := by simpa [isGoal] using hgoal
  have hws : ∀ m, gates.length ≤ m → wsAt gates p n m = wsAt gates p n gates.length := by
    intro m hm
    induction m with
    | zero => have : gates.length = 0 := by omega
              rw [this]
    | succ m ih =>
      by_cases hm' : gates.length = m + 1
      · rw [hm']
      · simp only [wsAt]
        rw [List.getElem?_eq_none (by omega)]
        exact ih (by omega)
  have hcost : ∀ m, gates.length ≤ m → costUpTo gates p m = costUpTo gates p gates.length := by
    intro m hm
    induction m with
    | zero => have : gates.length = 0 := by omega
              rw [this]
    | succ m ih =>
      by_cases hm' : gates.length = m + 1
      · rw [hm']
      · simp only [costUpTo]
        rw [List.getElem?_eq_none (by omega)]
        exact ih (by omega)
  refine ⟨?_, ?_, ?_⟩
  · intro w hw
    rw [← hws t.level hlev, ← hl.nw] at hw
    have hrt : rootL t.root w < t.numWires := lt_of_le_of_lt (hl.inv2.root_le w) hw
    have e := hl.cnt.size _ hrt (hl.inv2.root_idem w)
    have hwd := hl.inv.width_le (rootL t.root w)
    simp only [St.widthOf] at hwd
    rw [e, classSize] at hwd
    refine le_trans (le_of_eq ?_) hwd
    unfold compSizeP
    rw [← hws t.level hlev, ← hl.nw]
    apply List.countP_congr
    intro x hx
    have hxn : x < t.numWires := List.mem_range.1 hx
    simp only [decide_eq_true_eq]
    constructor
    · intro h
      exact (hl.bwd w x ((cup_full p t.level hlev w x).2 h)).symm
    · intro h
      exact (cup_full p t.level hlev w x).1 (hl.fwd w x hw hxn h.symm)
  · rw [hl.cost, hcost t.level hlev]
  · intro j
    by_cases hj : j < t.level
    · exact hl.al j hj
    · rw [hl.rest j (by omega)]
      exact ⟨(by intro e; cases e), (by rintro (e | e | e) <;> cases e)⟩

/-- **the returned state is a plan** (C07 at specification level, all kinds of cut): whatever the limits and the random stream, what
`optimize` returns is a width-feasible plan with the reported overhead that uses only the permitted kinds of cut -/
theorem optimize_result_is_planW (cfg : Settings) (gates : List Gate) (n W : Nat) (hW : 1 ≤ W) (rnds : List Rat) (fuel : Nat) (r : Result)
    (hc : CircOKW gates n) (hn : (gates.map (·.idx)).Nodup) (hγ : ∀ g ∈ gates, ∀ x, g.gamma = some x → 1 ≤ x)
    (h : optimize cfg gates n W rnds fuel = .ok r) :
    ∃ p, Feasible gates p n W ∧ costUpTo gates p gates.length = r.best.gammaUB ∧ Allowed cfg p := by
  obtain ⟨g0, hgr, hor, _⟩ := optimize_origin cfg gates n W rnds fuel r hn hγ h
  rcases hor with ⟨hd, hgoal⟩ | hg0
  · obtain ⟨p, hl⟩ := desc_linkW hc _ _ hd (fun _ => .app) (link2W_init cfg gates n W _ hW)
    exact ⟨p, goal_feasibleW p _ hl hgoal⟩
  · rw [hg0] at hgr
    obtain ⟨hd, hgoal⟩ := greedy_desc cfg gates W _ _ _ hgr
    obtain ⟨p, hl⟩ := desc_linkW hc _ _ hd (fun _ => .app) (link2W_init cfg gates n W _ hW)
    exact ⟨p, goal_feasibleW p _ hl hgoal⟩

end

/-- **C08 in full, all kinds of cut**: if the minimum is reported as reached (and the greedy pass found an incumbent), the reported
overhead is the overhead of a width-feasible plan, and no width-feasible plan the settings permit costs less -/
theorem optimize_is_minimumW (cfg : Settings) (gates : List Gate) (n W : Nat) (hW : 1 ≤ W) (rnds : List Rat) (fuel : Nat) (r : Result)
    (hc : CircOKW gates n) (hn : (gates.map (·.idx)).Nodup) (hγ : ∀ g ∈ gates, ∀ x, g.gamma = some x → 1 ≤ x)
    (h : optimize cfg gates n W rnds fuel = .ok r) (hflag : r.minReached = true) (gs : St)
    (hg0 : greedy cfg gates W (gates.length + 1) (St.init n (gates.map (·.qubits.length)).sum) = .ok (some gs))
    (hbig : gs.gammaUB + 1 ≤ (2 : Rat) ^ 4096) :
    (∃ p, Feasible gates p n W ∧ costUpTo gates p gates.length = r.best.gammaUB ∧ Allowed cfg p) ∧
    ∀ p, Allowed cfg p → Feasible gates p n W → r.best.gammaUB ≤ costUpTo gates p gates.length :=
  ⟨optimize_result_is_planW cfg gates n W hW rnds fuel r hc hn hγ h,
   fun p hal hf => optimize_min_over_all_plans cfg gates n W hW rnds fuel r hn hγ h hflag p hal gs hg0 hbig hc hf⟩

/-- **C08, gate cuts permitted** (with or without wire cuts): the greedy pass then always finds an incumbent, so the hypothesis about it
disappears — flag set ⇒ the reported overhead is attained by a width-feasible plan and no width-feasible plan the settings permit costs
less (`hbig`: the incumbent's cost is below the range of the model's `ceilLog2`) -/
theorem optimize_is_minimum_gate_lo (cfg : Settings) (hlo : cfg.gateLO = true) (gates : List Gate) (n W : Nat) (hW : 1 ≤ W)
    (rnds : List Rat) (fuel : Nat) (r : Result)
    (hc : CircOKW gates n) (hn : (gates.map (·.idx)).Nodup) (hγ : ∀ g ∈ gates, ∀ x, g.gamma = some x → 1 ≤ x)
    (h : optimize cfg gates n W rnds fuel = .ok r) (hflag : r.minReached = true)
    (hbig : ∀ gs, greedy cfg gates W (gates.length + 1) (St.init n (gates.map (·.qubits.length)).sum) = .ok (some gs) →
      gs.gammaUB + 1 ≤ (2 : Rat) ^ 4096) :
    (∃ p, Feasible gates p n W ∧ costUpTo gates p gates.length = r.best.gammaUB ∧ Allowed cfg p) ∧
    ∀ p, Allowed cfg p → Feasible gates p n W → r.best.gammaUB ≤ costUpTo gates p gates.length := by
  obtain ⟨gs, hgs⟩ := greedy_some_gate_cut cfg gates W n hlo hn hc.lt
    (fun g hg => ⟨hc.two g hg, Option.isSome_iff_exists.1 (hc.gam g hg)⟩) (gates.length + 1)
    (St.init n (gates.map (·.qubits.length)).sum) (init_inv W n _ hW) (init_inv2 n _) (by simp [St.init])
  exact optimize_is_minimumW cfg gates n W hW rnds fuel r hc hn hγ h hflag gs hgs (hbig gs hgs)

end CKT.C08Wire
