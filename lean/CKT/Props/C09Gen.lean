import CKT.Props.C09
import CKT.Props.C07Gen
/-!
# C09 — the search actions of the model are the translated source

The C09 theorems speak about the model of `find_cuts`; its search actions and their order are what `harness/translate/actions.py` reads off
`cut_finding/cutting_actions.py` on every run (`C07Gen.run_eq_model`, `C07Gen.actionList_translated`).  In particular the translated action
bodies read and write nothing but the state they are given — the IR has no operation that touches anything else — which is the part of
"independent of call history" that concerns the actions.
-/
namespace CKT.C09Gen
open CKT CKT.CF CKT.CutIR CKT.Generated

/-- the children of a state depend on the settings, the gate and the state only: two calls with equal arguments give equal results -/
theorem actions_pure (cfg : Settings) (s : St) (g : Gate) (W : Nat) :
    (actionList cfg).map (fun act => act s g W) = (cutActions.filter (enabled cfg)).map (fun a => run a s g W) :=
  C07Gen.actionList_translated cfg s g W

end CKT.C09Gen
