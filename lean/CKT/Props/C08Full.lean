import CKT.Props.C08Spec
import CKT.Props.C08
/-!
# C08, second sentence — an unrestricted search always reports the minimum, and the returned overhead does not depend on the seed
-/
namespace CKT.C08
open CKT CKT.CF CKT.C07

variable {S : Type}

/-- nodes of a complete `b`-ary tree of height `h` -/
def tree (b : Nat) : Nat → Nat
  | 0 => 1
  | h + 1 => 1 + b * tree b h

theorem tree_pos (b h : Nat) : 1 ≤ tree b h := by cases h <;> simp [tree]

/-- the search tree is ranked: levels go up by one along every edge, states that are not goals lie strictly below level `D`, and no state
has more than `b` children -/
structure Ranked (f : Fns S) (start : S) (lvl : S → Nat) (D b : Nat) : Prop where
  nongoal : ∀ s, Desc f start s → f.goal s = false → lvl s < D
  child : ∀ s t, Desc f start s → Child f s t → lvl t = lvl s + 1
  branch : ∀ s ns, Desc f start s → f.next s = .ok ns → ns.length ≤ b

/-- an upper bound on the number of tree nodes at or below a state -/
def wt (lvl : S → Nat) (D b : Nat) (s : S) : Nat := tree b (D - lvl s)

/-- potential of a frontier -/
def phi (lvl : S → Nat) (D b : Nat) (queue : List (Key × S)) : Nat := (queue.map (fun e => wt lvl D b e.2)).sum

theorem phi_insertKey (lvl : S → Nat) (D b : Nat) (e : Key × S) (l : List (Key × S)) :
    phi lvl D b (insertKey e l) = wt lvl D b e.2 + phi lvl D b l := by
  induction l with
  | nil => simp [insertKey, phi]
  | cons x xs ih =>
    unfold insertKey
    split
    · simp [phi]
    · have : phi lvl D b (x :: insertKey e xs) = wt lvl D b x.2 + phi lvl D b (insertKey e xs) := by simp [phi]
      rw [this, ih]
      simp [phi]; omega

theorem phi_put1 (lvl : S → Nat) (D b : Nat) (cost : S → Rat) (d : Nat) (q : Search S) (a : S) :
    phi lvl D b (q.put1 cost d a).queue ≤ phi lvl D b q.queue + wt lvl D b a := by
  unfold Search.put1
  split
  · split
    · show phi lvl D b (insertKey _ q.queue) ≤ _
      rw [phi_insertKey]; simp only; omega
    · omega
  · show phi lvl D b (insertKey _ q.queue) ≤ _
    rw [phi_insertKey]; simp only; omega

theorem phi_put (lvl : S → Nat) (D b : Nat) (cost : S → Rat) (d : Nat) : ∀ (states : List S) (q : Search S),
    phi lvl D b (q.put cost states d).queue ≤ phi lvl D b q.queue + (states.map (wt lvl D b)).sum := by
  intro states
  induction states with
  | nil => intro q; simp [Search.put]
  | cons a rest ih =>
    intro q
    simp only [Search.put, List.foldl_cons, List.map_cons, List.sum_cons]
    have h1 := phi_put1 lvl D b cost d q a
    have h2 := ih (q.put1 cost d a)
    simp only [Search.put] at h2
    omega

/-- the children of a state that is not a goal weigh, together, at least one less than the state -/
theorem children_wt (f : Fns S) (start : S) (lvl : S → Nat) (D b : Nat) (R : Ranked f start lvl D b) (s : S) (ns : List S)
    (hs : Desc f start s) (hg : f.goal s = false) (hn : f.next s = .ok ns) :
    (ns.map (wt lvl D b)).sum + 1 ≤ wt lvl D b s := by
  have hl := R.nongoal s hs hg
  have hb := R.branch s ns hs hn
  have hw : ∀ t ∈ ns, wt lvl D b t = tree b (D - lvl s - 1) := by
    intro t ht
    have := R.child s t hs ⟨ns, hn, ht⟩
    unfold wt
    rw [this]
    congr 1
  have hsum : (ns.map (wt lvl D b)).sum = ns.length * tree b (D - lvl s - 1) := by
    have : ns.map (wt lvl D b) = List.replicate ns.length (tree b (D - lvl s - 1)) := by
      apply List.ext_getElem
      · simp
      · intro n h1 h2
        simp only [List.getElem_map, List.getElem_replicate]
        exact hw _ (List.getElem_mem _)
    rw [this, List.sum_replicate]
    simp
  have hs' : wt lvl D b s = 1 + b * tree b (D - lvl s - 1) := by
    unfold wt
    have : D - lvl s = (D - lvl s - 1) + 1 := by omega
    conv_lhs => rw [this]
    rfl
  rw [hsum, hs']
  have := Nat.mul_le_mul_right (tree b (D - lvl s - 1)) hb
  omega

/-- expanding a popped state that is not a goal keeps the frontier invariant (the step inside `loop_good`) -/
theorem expand_good (f : Fns S) (start : S) (hm : Mono f start) (q : Search S) (k : Key) (s : S) (rest : List (Key × S))
    (prev : Option Nat) (ns : List S) (hg : Good f start q) (hq : q.queue = (k, s) :: rest)
    (hgoal : ¬ f.goal s = true) (hnext : f.next s = .ok ns) :
    Good f start ((((q.withQueue rest).updMin k.cost).visit prev (depthOf k)).put f.cost ns (depthOf k + 1)) := by
  have hmem : (k, s) ∈ q.queue := by rw [hq]; simp
  have hsr : Desc f start s := hg.wf.reach _ hmem
  have hrestsub : ∀ e ∈ rest, e ∈ q.queue := fun e he => by rw [hq]; exact List.mem_cons_of_mem _ he
  have hsorted := hg.wf.sorted
  rw [hq, List.pairwise_cons] at hsorted
  have hwrest : WF f start rest :=
    ⟨fun e he => hg.wf.key e (hrestsub e he), hsorted.2, fun e he => hg.wf.reach e (hrestsub e he)⟩
  obtain ⟨hbq, hbu, _⟩ := updMin_fields (q.withQueue rest) k.cost
  have hbq' : ((q.withQueue rest).updMin k.cost).queue = rest := hbq
  have hbu' : ((q.withQueue rest).updMin k.cost).ub = q.ub := hbu
  have hflagB : ((q.withQueue rest).updMin k.cost).minReached = true → LB f start q.ub :=
    good_flag_of_popped f start hm q k s rest hg hq
  have hchild : ∀ c ∈ ns, Desc f start c := fun c hc => desc_snoc f start s c hsr ⟨ns, hnext, hc⟩
  have hvis_ub : (((q.withQueue rest).updMin k.cost).visit prev (depthOf k)).ub = q.ub := hbu'
  have hvis_q : (((q.withQueue rest).updMin k.cost).visit prev (depthOf k)).queue = rest := hbq'
  have hvis_m : (((q.withQueue rest).updMin k.cost).visit prev (depthOf k)).minReached
      = ((q.withQueue rest).updMin k.cost).minReached := rfl
  obtain ⟨w2, u2, m2, o2, n2⟩ := put_spec f start ns (depthOf k + 1)
    (((q.withQueue rest).updMin k.cost).visit prev (depthOf k)) (by rw [hvis_q]; exact hwrest) hchild
  refine ⟨w2, ?_, ?_⟩
  · rw [u2, hvis_ub]
    intro g hd hgl hlt
    obtain ⟨e, he, hde⟩ := hg.cover g hd hgl hlt
    rw [hq] at he
    rcases List.mem_cons.1 he with rfl | he
    · cases hde with
      | refl => exact absurd hgl hgoal
      | head _ c _ hc hcg =>
        obtain ⟨ns', hns', hcns⟩ := hc
        rw [hnext] at hns'; injection hns' with hns'; subst hns'
        have hcr := hchild c hcns
        have hcost : ∀ u, q.ub = some u → f.cost c ≤ u := fun u hu =>
          le_of_lt (lt_of_le_of_lt (desc_cost f start hm c g hcr hcg) (hlt u hu))
        obtain ⟨x, hx, hxc⟩ := n2 c hcns (by rw [hvis_ub]; exact hcost)
        exact ⟨x, hx, by rw [hxc]; exact hcg⟩
    · exact ⟨e, o2 e (by rw [hvis_q]; exact he), hde⟩
  · rw [m2, hvis_m, u2, hvis_ub]; exact hflagB

theorem updMin_flag_of_le (q : Search S) (c u : Rat) (hu : q.ub = some u) (hle : u ≤ c) : (q.updMin c).minReached = true := by
  unfold Search.updMin
  rw [hu]
  simp [hle]

/-- **an unrestricted loop ends with the flag set or with a goal.**  Without a backjump limit, with a cost limit that some goal of the tree
meets, and with more fuel than the potential of the frontier, the `while` loop of a pass never runs out of fuel: it returns a goal, or
it stops with `minReached` set; the potential of the frontier never grows and drops when a goal is returned. -/
theorem loop_complete (f : Fns S) (start : S) (hm : Mono f start) (M : Rat) (lvl : S → Nat) (D b : Nat) (R : Ranked f start lvl D b)
    (hopt : ∃ g, Desc f start g ∧ f.goal g = true ∧ f.cost g ≤ M) :
    ∀ (fuel : Nat) (q : Search S) (prev : Option Nat) (q' : Search S) (r : Option (S × Rat)),
      Good f start q → phi lvl D b q.queue < fuel → Search.loop f (some M) none fuel q prev = .ok (q', r) →
      phi lvl D b q'.queue ≤ phi lvl D b q.queue ∧ (r ≠ none → phi lvl D b q'.queue < phi lvl D b q.queue) ∧
      (r = none → q'.minReached = true) := by
  intro fuel
  induction fuel with
  | zero => intro q prev q' r _ hphi _; omega
  | succ fuel ih =>
    intro q prev q' r hg hphi h
    unfold Search.loop at h
    split at h
    · injection h with h; injection h with h1 h2; subst h1; subst h2
      exact ⟨le_refl _, fun hh => absurd rfl hh, fun _ => rfl⟩
    · rename_i k s rest hq
      by_cases hstop : (q.minReached || bjExceeded none q.backjumps) = true
      · rw [if_pos hstop] at h
        injection h with h; injection h with h1 h2; subst h1; subst h2
        refine ⟨le_refl _, fun hh => absurd rfl hh, fun _ => ?_⟩
        simpa [bjExceeded] using hstop
      · rw [if_neg hstop] at h
        simp only at h
        have hmem : (k, s) ∈ q.queue := by rw [hq]; simp
        have hk : k.cost = f.cost s := hg.wf.key _ hmem
        have hsr : Desc f start s := hg.wf.reach _ hmem
        have hsorted := hg.wf.sorted
        rw [hq, List.pairwise_cons] at hsorted
        obtain ⟨hbq, hbu, _⟩ := updMin_fields (q.withQueue rest) k.cost
        have hbq' : ((q.withQueue rest).updMin k.cost).queue = rest := hbq
        have hbu' : ((q.withQueue rest).updMin k.cost).ub = q.ub := hbu
        have hphiq : phi lvl D b q.queue = wt lvl D b s + phi lvl D b rest := by rw [hq]; simp [phi]
        by_cases hex : boundsExceeded (some M) ((q.withQueue rest).updMin k.cost).ub k.cost = true
        · rw [if_pos hex] at h
          injection h with h; injection h with h1 h2; subst h1; subst h2
          refine ⟨?_, fun hh => absurd rfl hh, fun _ => ?_⟩
          · rw [(push_fields _ _ _ _).2.2, hbq', phi_insertKey, hphiq]
          · rw [(push_fields _ _ _ _).2.1]
            -- either the incumbent does not exceed the popped cost (then `updMin` has set the flag), or the cost limit cuts off
            -- a frontier that still covers a goal within the limit: impossible
            obtain ⟨g, hgd, hgg, hgc⟩ := hopt
            rw [hbu'] at hex
            by_cases hub : ∃ u, q.ub = some u ∧ u ≤ k.cost
            · obtain ⟨u, hu, hle⟩ := hub
              exact updMin_flag_of_le (q.withQueue rest) k.cost u hu hle
            · exfalso
              have hlt : ∀ u, q.ub = some u → k.cost < u := by
                intro u hu
                by_contra hh
                exact hub ⟨u, hu, not_lt.mp hh⟩
              have hM : M < k.cost := by
                unfold boundsExceeded at hex
                simp only [Bool.or_eq_true, decide_eq_true_eq] at hex
                rcases hex with h1 | h1
                · exact h1
                · cases hu : q.ub with
                  | none => rw [hu] at h1; simp at h1
                  | some u => rw [hu] at h1; simp at h1; exact absurd h1 (not_lt.mpr (le_of_lt (hlt u hu)))
              obtain ⟨e, he, hde⟩ := hg.cover g hgd hgg (fun u hu => lt_of_le_of_lt hgc (lt_trans hM (hlt u hu)))
              have h1 : e.1.cost = f.cost e.2 := hg.wf.key e he
              have h2 := desc_cost f start hm e.2 g (hg.wf.reach e he) hde
              have h3 : k.cost ≤ e.1.cost := by
                rw [hq] at he
                rcases List.mem_cons.1 he with rfl | he
                · exact le_refl _
                · exact hsorted.1 e he
              linarith
        · rw [if_neg hex] at h
          by_cases hgoal : f.goal s = true
          · rw [if_pos hgoal] at h
            injection h with h; injection h with h1 h2; subst h1; subst h2
            obtain ⟨huq, _, _⟩ := updUb_fields (((q.withQueue rest).updMin k.cost).visit prev (depthOf k)) (f.cost s)
            obtain ⟨hfq, _, _⟩ := updMin_fields ((((q.withQueue rest).updMin k.cost).visit prev (depthOf k)).updUb (f.cost s)) k.cost
            have hvis_q : (((q.withQueue rest).updMin k.cost).visit prev (depthOf k)).queue = rest := hbq'
            have hfinal_q : (((((q.withQueue rest).updMin k.cost).visit prev (depthOf k)).updUb (f.cost s)).updMin k.cost).queue = rest := by
              rw [hfq, huq, hvis_q]
            have hpos := tree_pos b (D - lvl s)
            refine ⟨?_, fun _ => ?_, fun hh => by cases hh⟩
            · rw [hfinal_q, hphiq]; omega
            · rw [hfinal_q, hphiq]; unfold wt; omega
          · rw [if_neg hgoal] at h
            cases hnext : f.next s with
            | error e => rw [hnext] at h; cases h
            | ok ns =>
              rw [hnext] at h
              simp only [bind, Except.bind] at h
              have hgood := expand_good f start hm q k s rest prev ns hg hq hgoal hnext
              have hvis_q : (((q.withQueue rest).updMin k.cost).visit prev (depthOf k)).queue = rest := hbq'
              have hp := phi_put lvl D b f.cost (depthOf k + 1) ns (((q.withQueue rest).updMin k.cost).visit prev (depthOf k))
              rw [hvis_q] at hp
              have hc := children_wt f start lvl D b R s ns hsr (by simpa using hgoal) hnext
              have hlt : phi lvl D b ((((q.withQueue rest).updMin k.cost).visit prev (depthOf k)).put f.cost ns (depthOf k + 1)).queue < fuel := by
                omega
              obtain ⟨g1, g2, g3⟩ := ih _ _ _ _ hgood hlt h
              refine ⟨by omega, fun hr => by have := g2 hr; omega, g3⟩

theorem pass_complete (f : Fns S) (start : S) (hm : Mono f start) (M : Rat) (lvl : S → Nat) (D b : Nat) (R : Ranked f start lvl D b)
    (hopt : ∃ g, Desc f start g ∧ f.goal g = true ∧ f.cost g ≤ M) (fuel : Nat) (q q' : Search S) (r : Option (S × Rat))
    (hg : Good f start q) (hphi : phi lvl D b q.queue < fuel) (h : Search.pass f (some M) none fuel q = .ok (q', r)) :
    phi lvl D b q'.queue ≤ phi lvl D b q.queue ∧ (r ≠ none → phi lvl D b q'.queue < phi lvl D b q.queue) ∧
    (r = none → q'.minReached = true) := by
  unfold Search.pass at h
  cases hl : Search.loop f (some M) none fuel q none with
  | error e => rw [hl] at h; cases h
  | ok qr =>
    obtain ⟨q1, r1⟩ := qr
    rw [hl] at h
    simp only [bind, Except.bind] at h
    obtain ⟨g1, g2, g3⟩ := loop_complete f start hm M lvl D b R hopt fuel q none q1 r1 hg hphi hl
    cases r1 with
    | some x =>
      simp only at h
      injection h with h; injection h with h1 h2; subst h1; subst h2
      exact ⟨g1, g2, fun hh => by cases hh⟩
    | none =>
      simp only at h
      injection h with h; injection h with h1 h2; subst h2
      by_cases he : q1.queue.isEmpty = true
      · rw [if_pos he] at h1; subst h1
        exact ⟨g1, fun hh => absurd rfl hh, fun _ => rfl⟩
      · rw [if_neg he] at h1; subst h1
        exact ⟨g1, fun hh => absurd rfl hh, fun _ => g3 rfl⟩

/-! ### the cut-finding tree is ranked: one level per gate, at most five choices per gate -/

theorem actionList_length (cfg : Settings) : (actionList cfg).length ≤ 5 := by
  unfold actionList
  cases cfg.gateLO <;> cases cfg.wireLO <;> simp

theorem cut_ranked (cfg : Settings) (gates : List Gate) (W : Nat) (hn : (gates.map (·.idx)).Nodup) (start : St) :
    Ranked (cutFns cfg gates W) start (·.level) gates.length 5 := by
  refine ⟨?_, ?_, ?_⟩
  · intro s _ hg
    have : isGoal gates s = false := hg
    simpa [isGoal] using this
  · intro s t _ hc
    obtain ⟨ns, hns, ht⟩ := hc
    exact (step_accounting cfg gates W hn s t ns hns ht).2
  · intro s ns _ hns
    have hns' : nextStates cfg gates W s = .ok ns := hns
    unfold nextStates at hns'
    cases hg : gates[s.level]? with
    | none => rw [hg] at hns'; injection hns' with h; subst h; simp
    | some g =>
      rw [hg] at hns'
      simp only at hns'
      split at hns'
      · cases hns'
      · injection hns' with h; subst h
        exact le_trans (List.length_filterMap_le _ _) (actionList_length cfg)

/-- the driver loop: with enough passes and enough fuel per pass, the frontier ends flagged -/
theorem passes_complete (f : Fns St) (start : St) (hm : Mono f start) (cfg : Settings) (hbj : cfg.maxBackjumps = none)
    (lvl : St → Nat) (D b : Nat) (R : Ranked f start lvl D b)
    (hopt : ∃ g, Desc f start g ∧ f.goal g = true ∧ f.cost g ≤ cfg.maxGamma) (greedyState : Option St) (fuel : Nat) :
    ∀ (n : Nat) (q : Search St) (returned : Bool) (out : List (Rat × St)) (q' : Search St) (out' : List (Rat × St)),
      Good f start q → phi lvl D b q.queue < fuel → phi lvl D b q.queue + (if returned then 1 else 2) ≤ n →
      passes f cfg greedyState fuel n q returned out = .ok (q', out') → q'.minReached = true := by
  intro n
  induction n with
  | zero =>
    intro q returned out q' out' _ _ hn _
    cases returned <;> simp at hn
  | succ n ih =>
    intro q returned out q' out' hg hphi hn h
    simp only [passes] at h
    rw [hbj] at h
    cases hp : Search.pass f (some cfg.maxGamma) none fuel q with
    | error e => rw [hp] at h; cases h
    | ok qr =>
      obtain ⟨q1, r1⟩ := qr
      rw [hp] at h
      simp only [bind, Except.bind] at h
      obtain ⟨g1, _, _⟩ := pass_good f start hm _ _ fuel q q1 r1 hg hp
      obtain ⟨c1, c2, c3⟩ := pass_complete f start hm cfg.maxGamma lvl D b R hopt fuel q q1 r1 hg hphi hp
      cases r1 with
      | some sc =>
        obtain ⟨s, c⟩ := sc
        simp only at h
        have hlt := c2 (by simp)
        apply ih q1 true (out ++ [(c, s)]) q' out' g1 (by omega) _ h
        simp only [if_true]
        cases returned <;> simp at hn <;> omega
      | none =>
        simp only at h
        cases hret : returned with
        | true =>
          rw [hret] at h
          simp only [Bool.not_true, Bool.false_eq_true, if_false] at h
          injection h with h; injection h with h1 h2; subst h1
          exact c3 rfl
        | false =>
          rw [hret] at h hn
          simp only [Bool.not_false, if_true] at h
          cases hgr : greedyState with
          | none => rw [hgr] at h; cases h
          | some gs =>
            rw [hgr] at h
            simp only at h
            rw [← hgr] at h
            apply ih q1 true (out ++ [(gs.gammaUB, gs)]) q' out' g1 (by omega) _ h
            simp only [if_true]
            simp at hn
            omega

theorem phi_startSearch (f : Fns St) (start : St) (g : Option St) (rnds : List Rat) (lvl : St → Nat) (D b : Nat) :
    phi lvl D b (startSearch f start g rnds).queue ≤ wt lvl D b start := by
  have h := phi_put lvl D b f.cost 0 [start] (emptySearch rnds)
  have h0 : phi lvl D b (emptySearch rnds).queue = 0 := by simp [emptySearch, phi]
  simp only [List.map_cons, List.map_nil, List.sum_cons, List.sum_nil, add_zero] at h
  unfold startSearch
  cases g with
  | none => simp only; omega
  | some gs =>
    simp only
    rw [(updUb_fields _ _).1]; omega

/-- **C08, "an unrestricted search always reports the minimum as reached"**: without a backjump limit and with a gamma limit that at least
one complete assignment of the search tree meets, `optimize` ends with the flag set (fuel: any number of at least `tree 5 #gates + 2`,
the size of the complete five-way tree — the real loop has no fuel, the bound only says that the model's never runs out). -/
theorem optimize_complete (cfg : Settings) (gates : List Gate) (numQubits W : Nat) (rnds : List Rat) (fuel : Nat) (r : Result)
    (hn : (gates.map (·.idx)).Nodup) (hγ : ∀ g ∈ gates, ∀ x, g.gamma = some x → 1 ≤ x)
    (hbj : cfg.maxBackjumps = none) (hfuel : tree 5 gates.length + 2 ≤ fuel)
    (hopt : ∀ g0, greedy cfg gates W (gates.length + 1) (St.init numQubits (gates.map (·.qubits.length)).sum) = .ok g0 →
      ∃ t, Desc (cutFns cfg gates W) (St.init numQubits (wireBudget cfg (gates.map (·.qubits.length)).sum g0)) t ∧
        isGoal gates t = true ∧ t.gammaUB ≤ cfg.maxGamma)
    (h : optimize cfg gates numQubits W rnds fuel = .ok r) : r.minReached = true := by
  unfold optimize at h
  simp only [bind, Except.bind] at h
  cases hgr : greedy cfg gates W (gates.length + 1) (St.init numQubits (gates.map (·.qubits.length)).sum) with
  | error e => rw [hgr] at h; cases h
  | ok g0 =>
    rw [hgr] at h
    simp only at h
    set start := St.init numQubits (wireBudget cfg (gates.map (·.qubits.length)).sum g0) with hstart
    set f := searchFns cfg gates W with hfdef
    have hmono : Mono f start := cut_mono cfg gates W hn hγ start (by simp [hstart, St.init])
    obtain ⟨hgood, _⟩ := startSearch_good f start g0 rnds
    have hR : Ranked f start (·.level) gates.length 5 := cut_ranked cfg gates W hn start
    have hphi0 := phi_startSearch f start g0 rnds (·.level) gates.length 5
    have hwt : wt (·.level) gates.length 5 start = tree 5 gates.length := by simp [wt, hstart, St.init]
    cases hp : passes f cfg g0 fuel fuel (startSearch f start g0 rnds) false [] with
    | error e => rw [hp] at h; cases h
    | ok qo =>
      obtain ⟨q, out⟩ := qo
      rw [hp] at h
      simp only at h
      have hflag := passes_complete f start hmono cfg hbj (·.level) gates.length 5 hR (hopt g0 hgr) g0 fuel fuel _ false [] q out
        hgood (by omega) (by simp only [Bool.false_eq_true, if_false]; omega) hp
      cases hfm : firstMin out with
      | none => rw [hfm] at h; cases h
      | some cb =>
        obtain ⟨c, best⟩ := cb
        rw [hfm] at h
        simp only at h
        injection h with h; subst h
        exact hflag

/-! ### where the returned state comes from, and seed independence -/

theorem pass_ub (f : Fns S) (start : S) (hm : Mono f start) (mincost : Option Rat) (maxBJ : Option Nat) (fuel : Nat)
    (q q' : Search S) (r : Option (S × Rat)) (hg : Good f start q) (h : Search.pass f mincost maxBJ fuel q = .ok (q', r)) :
    ∀ u, q.ub = some u → ∃ u', q'.ub = some u' ∧ u' ≤ u := by
  unfold Search.pass at h
  cases hl : Search.loop f mincost maxBJ fuel q none with
  | error e => rw [hl] at h; cases h
  | ok qr =>
    obtain ⟨q1, r1⟩ := qr
    rw [hl] at h
    simp only [bind, Except.bind] at h
    obtain ⟨_, g2, _, _⟩ := loop_good f start hm mincost maxBJ fuel q none q1 r1 hg hl
    cases r1 with
    | some x =>
      simp only at h
      injection h with h; injection h with h1 h2; subst h1
      exact g2
    | none =>
      simp only at h
      injection h with h; injection h with h1 h2
      by_cases he : q1.queue.isEmpty = true
      · rw [if_pos he] at h1; subst h1; exact g2
      · rw [if_neg he] at h1; subst h1; exact g2

structure Origin (f : Fns St) (start : St) (greedyState : Option St) (q : Search St) (out : List (Rat × St)) : Prop where
  src : ∀ x ∈ out, (Desc f start x.2 ∧ f.goal x.2 = true) ∨ greedyState = some x.2
  ubg : ∀ gs, greedyState = some gs → ∃ u, q.ub = some u ∧ u ≤ gs.gammaUB
  le : ∀ gs, greedyState = some gs → ∀ x ∈ out, x.1 ≤ gs.gammaUB

theorem passes_origin (f : Fns St) (start : St) (hm : Mono f start) (cfg : Settings) (greedyState : Option St) (fuel : Nat) :
    ∀ (n : Nat) (q : Search St) (returned : Bool) (out : List (Rat × St)) (q' : Search St) (out' : List (Rat × St)),
      Good f start q → Origin f start greedyState q out →
      passes f cfg greedyState fuel n q returned out = .ok (q', out') → Origin f start greedyState q' out' := by
  intro n
  induction n with
  | zero =>
    intro q returned out q' out' _ ho h
    simp only [passes] at h
    injection h with h; injection h with h1 h2; subst h1; subst h2
    exact ho
  | succ n ih =>
    intro q returned out q' out' hg ho h
    simp only [passes] at h
    cases hp : Search.pass f (some cfg.maxGamma) cfg.maxBackjumps fuel q with
    | error e => rw [hp] at h; cases h
    | ok qr =>
      obtain ⟨q1, r1⟩ := qr
      rw [hp] at h
      simp only [bind, Except.bind] at h
      obtain ⟨g1, g2, g3⟩ := pass_good f start hm _ _ fuel q q1 r1 hg hp
      have hub := pass_ub f start hm _ _ fuel q q1 r1 hg hp
      have hubg : ∀ gs, greedyState = some gs → ∃ u, q1.ub = some u ∧ u ≤ gs.gammaUB := by
        intro gs hgs
        obtain ⟨u, hu, hle⟩ := ho.ubg gs hgs
        obtain ⟨u', hu', hle'⟩ := hub u hu
        exact ⟨u', hu', le_trans hle' hle⟩
      cases r1 with
      | some sc =>
        obtain ⟨s, c⟩ := sc
        simp only at h
        obtain ⟨_, hgoal, hd, hubc⟩ := g2 s c rfl
        apply ih q1 true (out ++ [(c, s)]) q' out' g1 _ h
        refine ⟨?_, hubg, ?_⟩
        · intro x hx
          rcases List.mem_append.1 hx with hx | hx
          · exact ho.src x hx
          · simp at hx; subst hx; exact Or.inl ⟨hd, hgoal⟩
        · intro gs hgs x hx
          rcases List.mem_append.1 hx with hx | hx
          · exact ho.le gs hgs x hx
          · simp at hx; subst hx
            obtain ⟨u, hu, hle⟩ := hubg gs hgs
            rw [hubc] at hu; injection hu with hu; subst hu
            exact hle
      | none =>
        simp only at h
        cases hret : returned with
        | true =>
          rw [hret] at h
          simp only [Bool.not_true, Bool.false_eq_true, if_false] at h
          injection h with h; injection h with h1 h2; subst h1; subst h2
          exact ⟨ho.src, hubg, ho.le⟩
        | false =>
          rw [hret] at h
          simp only [Bool.not_false, if_true] at h
          cases hgr : greedyState with
          | none => rw [hgr] at h; cases h
          | some gs =>
            rw [hgr] at h
            simp only at h
            rw [← hgr] at h ⊢
            apply ih q1 true (out ++ [(gs.gammaUB, gs)]) q' out' g1 _ h
            refine ⟨?_, hubg, ?_⟩
            · intro x hx
              rcases List.mem_append.1 hx with hx | hx
              · exact ho.src x hx
              · simp at hx; subst hx; exact Or.inr hgr
            · intro gs' hgs' x hx
              rcases List.mem_append.1 hx with hx | hx
              · exact ho.le gs' hgs' x hx
              · simp at hx; subst hx
                rw [hgr] at hgs'; injection hgs' with e; subst e
                exact le_refl _

/-- the state `optimize` returns is a complete assignment of the search tree or the greedy incumbent, and never costs more than the
greedy incumbent -/
theorem optimize_origin (cfg : Settings) (gates : List Gate) (numQubits W : Nat) (rnds : List Rat) (fuel : Nat) (r : Result)
    (hn : (gates.map (·.idx)).Nodup) (hγ : ∀ g ∈ gates, ∀ x, g.gamma = some x → 1 ≤ x)
    (h : optimize cfg gates numQubits W rnds fuel = .ok r) :
    ∃ g0, greedy cfg gates W (gates.length + 1) (St.init numQubits (gates.map (·.qubits.length)).sum) = .ok g0 ∧
      ((Desc (cutFns cfg gates W) (St.init numQubits (wireBudget cfg (gates.map (·.qubits.length)).sum g0)) r.best ∧
          isGoal gates r.best = true) ∨ g0 = some r.best) ∧
      ∀ gs, g0 = some gs → r.best.gammaUB ≤ gs.gammaUB := by
  unfold optimize at h
  simp only [bind, Except.bind] at h
  cases hgr : greedy cfg gates W (gates.length + 1) (St.init numQubits (gates.map (·.qubits.length)).sum) with
  | error e => rw [hgr] at h; cases h
  | ok g0 =>
    rw [hgr] at h
    simp only at h
    refine ⟨g0, rfl, ?_⟩
    set start := St.init numQubits (wireBudget cfg (gates.map (·.qubits.length)).sum g0) with hstart
    set f := searchFns cfg gates W with hfdef
    have hmono : Mono f start := cut_mono cfg gates W hn hγ start (by simp [hstart, St.init])
    obtain ⟨hgood, hub0⟩ := startSearch_good f start g0 rnds
    cases hp : passes f cfg g0 fuel fuel (startSearch f start g0 rnds) false [] with
    | error e => rw [hp] at h; cases h
    | ok qo =>
      obtain ⟨q, out⟩ := qo
      rw [hp] at h
      simp only at h
      have hinv : DriverInv f start g0 (startSearch f start g0 rnds) false [] :=
        ⟨hgood, (fun x hx => by cases hx), fun hh => absurd rfl hh, fun _ => ⟨rfl, hub0⟩⟩
      obtain ⟨_, hcosts, _⟩ := passes_inv f (fun s => rfl) start hmono cfg g0 fuel fuel _ false [] q out hinv hp
      have ho0 : Origin f start g0 (startSearch f start g0 rnds) [] :=
        ⟨(fun x hx => by cases hx), fun gs hgs => ⟨gs.gammaUB, hub0 gs hgs, le_refl _⟩, fun _ _ x hx => by cases hx⟩
      have ho := passes_origin f start hmono cfg g0 fuel fuel _ false [] q out hgood ho0 hp
      cases hfm : firstMin out with
      | none => rw [hfm] at h; cases h
      | some cb =>
        obtain ⟨c, best⟩ := cb
        rw [hfm] at h
        simp only at h
        injection h with h; subst h
        simp only
        obtain ⟨hbmem, _⟩ := firstMin_spec out (c, best) hfm
        refine ⟨ho.src (c, best) hbmem, ?_⟩
        intro gs hgs
        have h1 := ho.le gs hgs (c, best) hbmem
        have h2 := hcosts (c, best) hbmem
        simp only at h1 h2
        rw [← h2]; exact h1

/-- **C08, "the returned overhead never depends on the seed"**: two runs on the same problem — any two random streams — that both report
the minimum as reached return the same overhead. -/
theorem optimize_seed_independent (cfg : Settings) (gates : List Gate) (numQubits W : Nat) (rnds1 rnds2 : List Rat) (fuel1 fuel2 : Nat)
    (r1 r2 : Result) (hn : (gates.map (·.idx)).Nodup) (hγ : ∀ g ∈ gates, ∀ x, g.gamma = some x → 1 ≤ x)
    (h1 : optimize cfg gates numQubits W rnds1 fuel1 = .ok r1) (h2 : optimize cfg gates numQubits W rnds2 fuel2 = .ok r2)
    (hf1 : r1.minReached = true) (hf2 : r2.minReached = true) : r1.best.gammaUB = r2.best.gammaUB := by
  obtain ⟨g0, hg0, hs1⟩ := optimize_flag_sound cfg gates numQubits W rnds1 fuel1 r1 hn hγ h1 hf1
  obtain ⟨g0', hg0', hs2⟩ := optimize_flag_sound cfg gates numQubits W rnds2 fuel2 r2 hn hγ h2 hf2
  obtain ⟨a, ha, ho1, hl1⟩ := optimize_origin cfg gates numQubits W rnds1 fuel1 r1 hn hγ h1
  obtain ⟨b, hb, ho2, hl2⟩ := optimize_origin cfg gates numQubits W rnds2 fuel2 r2 hn hγ h2
  have e1 : g0' = g0 := by rw [hg0] at hg0'; injection hg0' with e; exact e.symm
  have e2 : a = g0 := by rw [hg0] at ha; injection ha with e; exact e.symm
  have e3 : b = g0 := by rw [hg0] at hb; injection hb with e; exact e.symm
  subst e1; subst e2; subst e3
  apply le_antisymm
  · rcases ho2 with ⟨hd, hg⟩ | hgr
    · exact hs1 r2.best hd hg
    · rcases ho1 with ⟨hd1, hg1⟩ | hgr1
      · rw [hgr] at hl1; exact hl1 r2.best rfl
      · rw [hgr] at hgr1; injection hgr1 with e; rw [e]
  · rcases ho1 with ⟨hd, hg⟩ | hgr
    · exact hs2 r1.best hd hg
    · rcases ho2 with ⟨hd2, hg2⟩ | hgr2
      · rw [hgr] at hl2; exact hl2 r1.best rfl
      · rw [hgr] at hgr2; injection hgr2 with e; rw [e]

/-- the two halves together: an unrestricted search (no backjump limit, gamma limit met by some complete assignment of the tree, enough
fuel for the model's loop) reports the minimum and returns the same overhead for every seed -/
theorem unrestricted_seed_independent (cfg : Settings) (gates : List Gate) (numQubits W : Nat) (rnds1 rnds2 : List Rat) (fuel1 fuel2 : Nat)
    (r1 r2 : Result) (hn : (gates.map (·.idx)).Nodup) (hγ : ∀ g ∈ gates, ∀ x, g.gamma = some x → 1 ≤ x)
    (hbj : cfg.maxBackjumps = none) (hfuel1 : tree 5 gates.length + 2 ≤ fuel1) (hfuel2 : tree 5 gates.length + 2 ≤ fuel2)
    (hopt : ∀ g0, greedy cfg gates W (gates.length + 1) (St.init numQubits (gates.map (·.qubits.length)).sum) = .ok g0 →
      ∃ t, Desc (cutFns cfg gates W) (St.init numQubits (wireBudget cfg (gates.map (·.qubits.length)).sum g0)) t ∧
        isGoal gates t = true ∧ t.gammaUB ≤ cfg.maxGamma)
    (h1 : optimize cfg gates numQubits W rnds1 fuel1 = .ok r1) (h2 : optimize cfg gates numQubits W rnds2 fuel2 = .ok r2) :
    r1.minReached = true ∧ r2.minReached = true ∧ r1.best.gammaUB = r2.best.gammaUB := by
  have f1 := optimize_complete cfg gates numQubits W rnds1 fuel1 r1 hn hγ hbj hfuel1 hopt h1
  have f2 := optimize_complete cfg gates numQubits W rnds2 fuel2 r2 hn hγ hbj hfuel2 hopt h2
  exact ⟨f1, f2, optimize_seed_independent cfg gates numQubits W rnds1 rnds2 fuel1 fuel2 r1 r2 hn hγ h1 h2 f1 f2⟩

/-- non-vacuity: the two-gate instance of `Props/C08` under two different random streams -/
example : ((optimize ⟨1024, none, true, true⟩ [⟨0, [0, 1], some 3⟩, ⟨1, [1, 2], some 3⟩] 3 2 [] 1000).toOption.map
      (fun r => (r.minReached, r.best.gammaUB)) = some (true, 3)) ∧
    ((optimize ⟨1024, none, true, true⟩ [⟨0, [0, 1], some 3⟩, ⟨1, [1, 2], some 3⟩] 3 2 [1/2, 1/3, 1/7, 1/5, 3/4] 1000).toOption.map
      (fun r => (r.minReached, r.best.gammaUB)) = some (true, 3)) ∧ tree 5 2 + 2 ≤ 1000 := by
  decide +kernel

end CKT.C08
