import Mathlib.Algebra.BigOperators.Group.List.Basic
import Mathlib.Algebra.Module.Pi
import Mathlib.Algebra.BigOperators.Pi
import Mathlib.Tactic.Abel
import CKT.Props.C01
import CKT.Sem.Instr
/-!
# C01 — the round trip in the Pauli-expectation semantics: tensor structure proved, not assumed

`C01.round_trip` is stated in an abstract algebra with a multiplicative value functional.  Here the same statement is
proved for the concrete semantics `CKT.Sem` (vectors of Pauli expectations, operations acting through transfer
matrices), for **any number of partitions**:

* `expansion_run` — a circuit whose positions ("slots") are linear combinations `Σᵢ cᵢ • (sequence of local operations)`
  equals the sum over all joint choices of one term per slot of `Π c` times the circuit of the chosen operations
  (multilinearity, in circuit order);
* `apply_prodV`, `runOps_prodV` — the *product-vector invariant*: an operation on qubits of partition `p` applied to a
  vector that is a product over partitions changes factor `p` only (this is the tensor-product structure);
* `init0_prod` — the all-zero state is such a product;
* `product_run` — hence the value of a circuit of partition-local operations on a product observable is the product
  over partitions of the values of the per-partition circuits on the restricted observables;
* `round_trip_ptm` — the uncut value is `Σ_choices (Π c) · Π_p E_p(choice)`: exactly what
  `generate_cutting_experiments(∞)` + `reconstruct_expectation_values` compute (C05 `exact_coeff`, C06
  `reconstructImpl_eq_spec`);
* `applyL_tensor` — a two-qubit transfer matrix that is the combination `Σᵢ cᵢ Aᵢ ⊗ Bᵢ` (the statement the C02 theorems
  establish for every supported gate) makes the two-qubit operation the combination of the local operations.
-/
namespace CKT.C01PTM
open CKT CKT.Sem CKT.C01 Finset

variable {K : Type} [CommRing K]

/-! ### linearity -/

theorem applyL_add (qs : List Nat) (M : TM K) (v w : Vec K) : applyL qs M (v + w) = applyL qs M v + applyL qs M w := by
  funext P
  simp only [applyL, Pi.add_apply, mul_add]
  exact sumL_add _ _ _

theorem applyL_smul (qs : List Nat) (M : TM K) (c : K) (v : Vec K) : applyL qs M (c • v) = c • applyL qs M v := by
  funext P
  simp only [applyL, Pi.smul_apply, smul_eq_mul]
  rw [← sumL_mul_left]
  apply sumL_congr
  intro bs _
  ring

theorem applyL_zero (qs : List Nat) (M : TM K) : applyL qs M (0 : Vec K) = 0 := by
  funext P
  simp only [applyL, Pi.zero_apply, mul_zero]
  exact sumL_zero _

abbrev LOp (K : Type) := List Nat × TM K

def runOps (ops : List (LOp K)) (v : Vec K) : Vec K := ops.foldl (fun v o => applyL o.1 o.2 v) v

@[simp] theorem runOps_nil (v : Vec K) : runOps ([] : List (LOp K)) v = v := rfl
@[simp] theorem runOps_cons (o : LOp K) (ops : List (LOp K)) (v : Vec K) : runOps (o :: ops) v = runOps ops (applyL o.1 o.2 v) := rfl
theorem runOps_append (a b : List (LOp K)) (v : Vec K) : runOps (a ++ b) v = runOps b (runOps a v) := by
  simp [runOps, List.foldl_append]

theorem runOps_add : ∀ (ops : List (LOp K)) (v w : Vec K), runOps ops (v + w) = runOps ops v + runOps ops w
  | [], _, _ => rfl
  | o :: ops, v, w => by simp only [runOps_cons, applyL_add, runOps_add ops]

theorem runOps_smul : ∀ (ops : List (LOp K)) (c : K) (v : Vec K), runOps ops (c • v) = c • runOps ops v
  | [], _, _ => rfl
  | o :: ops, c, v => by simp only [runOps_cons, applyL_smul, runOps_smul ops]

theorem runOps_zero : ∀ (ops : List (LOp K)), runOps ops (0 : Vec K) = 0
  | [] => rfl
  | o :: ops => by simp only [runOps_cons, applyL_zero, runOps_zero ops]

theorem runOps_list_sum (ops : List (LOp K)) : ∀ (l : List (Vec K)), runOps ops l.sum = (l.map (runOps ops)).sum
  | [] => by simpa using runOps_zero ops
  | v :: l => by simp only [List.sum_cons, List.map_cons, runOps_add, runOps_list_sum ops l]

/-! ### slots and the multilinear expansion (in circuit order) -/

/-- one term of a slot: coefficient and the sequence of operations (in circuit order) that replaces the slot -/
structure LTerm (K : Type) where
  c : K
  ops : List (LOp K)

/-- the operation at one circuit position: `Σ_t c_t • (operations of t)` (a plain gate is the single term `(1, [gate])`) -/
def slotOp (s : List (LTerm K)) (v : Vec K) : Vec K := (s.map fun t => t.c • runOps t.ops v).sum

def runSlots (slots : List (List (LTerm K))) (v : Vec K) : Vec K := slots.foldl (fun v s => slotOp s v) v

def choiceCoeff (ch : List (LTerm K)) : K := (ch.map (·.c)).prod
def choiceOps (ch : List (LTerm K)) : List (LOp K) := ch.flatMap (·.ops)

theorem list_sum_smul (c : K) (l : List (Vec K)) : c • l.sum = (l.map (c • ·)).sum := by
  induction l with
  | nil => simp
  | cons a l ih => simp [smul_add, ih]

theorem slotOp_add (s : List (LTerm K)) (v w : Vec K) : slotOp s (v + w) = slotOp s v + slotOp s w := by
  unfold slotOp
  induction s with
  | nil => simp
  | cons t s ih =>
    simp only [List.map_cons, List.sum_cons]
    rw [ih]
    simp only [runOps_add, smul_add]
    abel

theorem slotOp_zero (s : List (LTerm K)) : slotOp s (0 : Vec K) = 0 := by
  unfold slotOp
  induction s with
  | nil => simp
  | cons t s ih =>
    simp only [List.map_cons, List.sum_cons]
    rw [ih]
    simp [runOps_zero]

theorem runSlots_add : ∀ (slots : List (List (LTerm K))) (v w : Vec K), runSlots slots (v + w) = runSlots slots v + runSlots slots w
  | [], _, _ => rfl
  | s :: rest, v, w => by
    show runSlots rest (slotOp s (v + w)) = runSlots rest (slotOp s v) + runSlots rest (slotOp s w)
    rw [slotOp_add, runSlots_add rest]

theorem runSlots_zero : ∀ (slots : List (List (LTerm K))), runSlots slots (0 : Vec K) = 0
  | [] => rfl
  | s :: rest => by
    show runSlots rest (slotOp s 0) = 0
    rw [slotOp_zero, runSlots_zero rest]

theorem runSlots_list_sum (slots : List (List (LTerm K))) : ∀ (l : List (Vec K)), runSlots slots l.sum = (l.map (runSlots slots)).sum
  | [] => by simpa using runSlots_zero slots
  | v :: l => by simp only [List.sum_cons, List.map_cons, runSlots_add, runSlots_list_sum slots l]

theorem sum_flatMap_vec {α : Type} (l : List α) (f : α → List (Vec K)) : (l.flatMap f).sum = (l.map fun a => (f a).sum).sum := by
  induction l with
  | nil => simp
  | cons a l ih => simp [List.flatMap_cons, List.sum_append, ih]

/-- **T01.1 in circuit order**: the circuit with slots equals the sum over all joint choices -/
theorem expansion_run : ∀ (slots : List (List (LTerm K))) (v : Vec K),
    runSlots slots v = ((choices slots).map fun ch => choiceCoeff ch • runOps (choiceOps ch) v).sum
  | [], v => by simp [runSlots, choices, choiceCoeff, choiceOps]
  | s :: rest, v => by
    have ih := expansion_run rest
    show runSlots rest (slotOp s v) = _
    unfold slotOp
    rw [runSlots_list_sum, List.map_map, choices, List.map_flatMap, sum_flatMap_vec]
    congr 1
    apply List.map_congr_left
    intro t _
    simp only [Function.comp_def, List.map_map]
    rw [ih]
    congr 1
    apply List.map_congr_left
    intro ch _
    simp only [choiceCoeff, choiceOps, List.map_cons, List.prod_cons, List.flatMap_cons, runOps_append, runOps_smul, smul_smul]
    rw [mul_comm]

/-! ### the tensor-product structure: product vectors over partitions -/

section product
variable (lab : Nat → Nat)

/-- the part of a Pauli string on partition `p` (identity elsewhere) -/
def restr (p : Nat) (P : PStr) : PStr := fun n => if lab n = p then P n else 0
/-- the part of a Pauli string outside the partitions `S` -/
def restrOut (S : Finset Nat) (P : PStr) : PStr := fun n => if lab n ∈ S then 0 else P n

/-- a vector that is a product over the partitions in `S` (and a remainder factor on the other qubits) -/
def prodV (S : Finset Nat) (f : Nat → Vec K) (w : Vec K) : Vec K :=
  fun P => (∏ p ∈ S, f p (restr lab p P)) * w (restrOut lab S P)

theorem restr_updL_same (p : Nat) (P : PStr) : ∀ (qs : List Nat) (bs : List (Fin 4)), (∀ q ∈ qs, lab q = p) →
    restr lab p (updL P qs bs) = updL (restr lab p P) qs bs
  | [], _, _ => by simp [updL]
  | _ :: _, [], _ => by simp [updL]
  | q :: qs, b :: bs, h => by
    simp only [updL]
    rw [← restr_updL_same p P qs bs (fun q' hq' => h q' (by simp [hq']))]
    funext n
    by_cases e : n = q
    · subst e; simp [restr, h n (by simp)]
    · simp [restr, Function.update_of_ne e]

theorem restr_updL_other (p p' : Nat) (hp : p' ≠ p) (P : PStr) (qs : List Nat) (bs : List (Fin 4)) (h : ∀ q ∈ qs, lab q = p) :
    restr lab p' (updL P qs bs) = restr lab p' P := by
  funext n
  unfold restr
  by_cases e : lab n = p'
  · simp only [e, if_true]
    exact updL_of_not_mem P n qs bs (fun hn => hp (by rw [← e, h n hn]))
  · simp [e]

theorem restrOut_updL (S : Finset Nat) (p : Nat) (hp : p ∈ S) (P : PStr) (qs : List Nat) (bs : List (Fin 4))
    (h : ∀ q ∈ qs, lab q = p) : restrOut lab S (updL P qs bs) = restrOut lab S P := by
  funext n
  unfold restrOut
  by_cases e : lab n ∈ S
  · simp [e]
  · simp only [e, if_false]
    exact updL_of_not_mem P n qs bs (fun hn => e (by rw [h n hn]; exact hp))

theorem map_restr (p : Nat) (P : PStr) (qs : List Nat) (h : ∀ q ∈ qs, lab q = p) : qs.map (restr lab p P) = qs.map P := by
  apply List.map_congr_left
  intro q hq
  simp [restr, h q hq]

/-- **product-vector invariant**: an operation on qubits of partition `p` changes factor `p` only -/
theorem apply_prodV (S : Finset Nat) (f : Nat → Vec K) (w : Vec K) (p : Nat) (hp : p ∈ S) (qs : List Nat) (M : TM K)
    (h : ∀ q ∈ qs, lab q = p) :
    applyL qs M (prodV lab S f w) = prodV lab S (Function.update f p (applyL qs M (f p))) w := by
  funext P
  simp only [applyL, prodV]
  have e : ∀ bs, M (qs.map P) bs * ((∏ p' ∈ S, f p' (restr lab p' (updL P qs bs))) * w (restrOut lab S (updL P qs bs)))
      = ((∏ p' ∈ S.erase p, f p' (restr lab p' P)) * w (restrOut lab S P)) *
          (M (qs.map (restr lab p P)) bs * f p (updL (restr lab p P) qs bs)) := by
    intro bs
    rw [restrOut_updL lab S p hp P qs bs h, ← Finset.mul_prod_erase S _ hp, restr_updL_same lab p P qs bs h, map_restr lab p P qs h]
    have : ∏ p' ∈ S.erase p, f p' (restr lab p' (updL P qs bs)) = ∏ p' ∈ S.erase p, f p' (restr lab p' P) := by
      apply Finset.prod_congr rfl
      intro p' hp'
      rw [restr_updL_other lab p p' (Finset.ne_of_mem_erase hp') P qs bs h]
    rw [this]
    ring
  simp only [e]
  rw [sumL_mul_left, ← Finset.mul_prod_erase S _ hp]
  simp only [Function.update_self]
  have : ∏ p' ∈ S.erase p, Function.update f p (applyL qs M (f p)) p' (restr lab p' P) = ∏ p' ∈ S.erase p, f p' (restr lab p' P) := by
    apply Finset.prod_congr rfl
    intro p' hp'
    rw [Function.update_of_ne (Finset.ne_of_mem_erase hp')]
  rw [this]
  simp only [applyL]
  ring

/-- partition of an operation: the label of its first qubit -/
def blockOf (o : LOp K) : Nat := lab (o.1.headD 0)

def LocalOp (o : LOp K) : Prop := ∀ q ∈ o.1, lab q = blockOf lab o

/-- running partition-local operations on a product vector: factor `p` sees exactly the operations of partition `p` -/
theorem runOps_prodV (S : Finset Nat) (w : Vec K) : ∀ (ops : List (LOp K)) (f : Nat → Vec K),
    (∀ o ∈ ops, LocalOp lab o ∧ blockOf lab o ∈ S) →
    runOps ops (prodV lab S f w) = prodV lab S (fun p => runOps (ops.filter fun o => blockOf lab o == p) (f p)) w
  | [], f, _ => by simp
  | o :: ops, f, h => by
    have ho := h o (by simp)
    simp only [runOps_cons]
    rw [apply_prodV lab S f w (blockOf lab o) ho.2 o.1 o.2 ho.1,
      runOps_prodV S w ops _ (fun x hx => h x (List.mem_cons_of_mem _ hx))]
    congr 1
    funext p
    by_cases e : blockOf lab o = p
    · subst e
      simp [List.filter_cons]
    · have : (blockOf lab o == p) = false := by simpa using e
      simp [List.filter_cons, this, Function.update_of_ne (Ne.symm e)]

end product

/-! ### the initial state is a product -/

/-- all qubits in |0⟩ (no classical register): expectation 1 on the strings of `I` and `Z`, 0 elsewhere -/
noncomputable def init0 : Vec K := fun P => open Classical in if ∀ n, (P n = 0 ∨ P n = 3) then 1 else 0

open Classical in
theorem init0_prod (lab : Nat → Nat) (S : Finset Nat) : (init0 : Vec K) = prodV lab S (fun _ => init0) init0 := by
  funext P
  unfold prodV init0
  by_cases h : ∀ n, (P n = 0 ∨ P n = 3)
  · have h1 : ∀ p, ∀ n, (restr lab p P n = 0 ∨ restr lab p P n = 3) := by
      intro p n; unfold restr; split
      · exact h n
      · exact Or.inl rfl
    have h2 : ∀ n, (restrOut lab S P n = 0 ∨ restrOut lab S P n = 3) := by
      intro n; unfold restrOut; split
      · exact Or.inl rfl
      · exact h n
    simp [h, h1, h2]
  · simp only [h, if_false]
    obtain ⟨n, hn⟩ := not_forall.1 h
    by_cases hS : lab n ∈ S
    · have : ¬ ∀ m, (restr lab (lab n) P m = 0 ∨ restr lab (lab n) P m = 3) := by
        intro hall
        have := hall n
        simp only [restr, if_true] at this
        exact hn this
      rw [← Finset.mul_prod_erase S _ hS]
      simp [this]
    · have : ¬ ∀ m, (restrOut lab S P m = 0 ∨ restrOut lab S P m = 3) := by
        intro hall
        have := hall n
        simp only [restrOut, hS, if_false] at this
        exact hn this
      simp [this]

theorem init0_identity : (init0 : Vec K) (fun _ => 0) = 1 := by
  simp [init0]

/-- **T01.2 (factorisation) in the Pauli-expectation semantics**: for a circuit of partition-local operations started in
|0…0⟩, the expectation of an observable that is the identity outside the partitions `S` is the product over `p ∈ S` of the
expectation of its restriction to `p` under the operations of partition `p` alone -/
theorem product_run (lab : Nat → Nat) (S : Finset Nat) (ops : List (LOp K)) (O : PStr)
    (hops : ∀ o ∈ ops, LocalOp lab o ∧ blockOf lab o ∈ S) (hO : ∀ n, lab n ∉ S → O n = 0) :
    runOps ops init0 O = ∏ p ∈ S, runOps (ops.filter fun o => blockOf lab o == p) init0 (restr lab p O) := by
  conv_lhs => rw [init0_prod lab S, runOps_prodV lab S init0 ops _ hops]
  unfold prodV
  have : restrOut lab S O = fun _ => 0 := by
    funext n
    unfold restrOut
    split
    · rfl
    · next h => exact hO n h
  rw [this, init0_identity, mul_one]

/-- **T01.4 in the Pauli-expectation semantics**, any number of partitions: a circuit whose positions are exact
decompositions `Σ_t c_t • (partition-local operations of t)` has, on every observable that is the identity outside the
partitions, the value `Σ_choices (Π c) · Π_p E_p(choice)`, where `E_p(choice)` is the expectation of the observable's
restriction to `p` under the chosen operations of partition `p` alone (the subexperiment of partition `p`) -/
theorem round_trip_ptm (lab : Nat → Nat) (S : Finset Nat) (slots : List (List (LTerm K))) (O : PStr)
    (hloc : ∀ s ∈ slots, ∀ t ∈ s, ∀ o ∈ t.ops, LocalOp lab o ∧ blockOf lab o ∈ S) (hO : ∀ n, lab n ∉ S → O n = 0) :
    runSlots slots init0 O =
      ((choices slots).map fun ch => choiceCoeff ch *
        ∏ p ∈ S, runOps ((choiceOps ch).filter fun o => blockOf lab o == p) init0 (restr lab p O)).sum := by
  rw [expansion_run]
  have hsum : ∀ (l : List (Vec K)), l.sum O = (l.map fun v => v O).sum := by
    intro l
    induction l with
    | nil => simp
    | cons a l ih => simp [ih]
  rw [hsum, List.map_map]
  congr 1
  apply List.map_congr_left
  intro ch hch
  simp only [Function.comp_def, Pi.smul_apply, smul_eq_mul]
  congr 1
  apply product_run lab S _ O _ hO
  intro o ho
  simp only [choiceOps, List.mem_flatMap] at ho
  obtain ⟨t, ht, hot⟩ := ho
  obtain ⟨s, hs, hts⟩ := mem_choice_slot slots ch (mem_choices slots ch hch) t ht
  exact hloc s hs t hts o hot

/-! ### from a tensor decomposition of the transfer matrix to a decomposition of the operation -/

theorem sum_sum_list_mul {ι : Type} (l : List ι) (g : ι → Fin 4 → Fin 4 → K) (V : Fin 4 → Fin 4 → K) :
    (∑ x : Fin 4, ∑ y : Fin 4, (l.map fun t => g t x y).sum * V x y) = (l.map fun t => ∑ x : Fin 4, ∑ y : Fin 4, g t x y * V x y).sum := by
  induction l with
  | nil => simp
  | cons t l ih =>
    simp only [List.map_cons, List.sum_cons, add_mul, Finset.sum_add_distrib, ih]

/-- **exact basis ⇒ exact operation**: if the transfer matrix of a two-qubit operation on `(a, b)` is `Σ_t c_t · A_t ⊗ B_t`
(which is what `C02.checkBasis_sound` / the `exact_<gate>` theorems state for the bases of `qpd/decompositions.py`), then
the operation is the same combination of the local operations `A_t` on `a` and `B_t` on `b` -/
theorem applyL_tensor (a b : Nat) (hab : a ≠ b) (M2 : TM K) (terms : List (K × TM K × TM K))
    (h : ∀ x y x' y' : Fin 4, M2 [x, y] [x', y'] = (terms.map fun t => t.1 * (t.2.1 [x] [x'] * t.2.2 [y] [y'])).sum) (v : Vec K) :
    applyL [a, b] M2 v = (terms.map fun t => t.1 • applyL [a] t.2.1 (applyL [b] t.2.2 v)).sum := by
  funext P
  have hsum : ∀ (l : List (Vec K)), l.sum P = (l.map fun w => w P).sum := by
    intro l
    induction l with
    | nil => simp
    | cons a l ih => simp [ih]
  rw [hsum, List.map_map]
  simp only [applyL, List.length_cons, List.length_nil, sumL, List.map_cons, List.map_nil, updL, h]
  rw [sum_sum_list_mul]
  congr 1
  apply List.map_congr_left
  intro t _
  simp only [Function.comp_def, Pi.smul_apply, smul_eq_mul, applyL, List.length_cons, List.length_nil, sumL, List.map_cons,
    List.map_nil, updL, Function.update_of_ne hab.symm, Finset.mul_sum]
  apply Finset.sum_congr rfl
  intro x _
  apply Finset.sum_congr rfl
  intro y _
  rw [Function.update_comm hab]
  ring

/-- a cut two-qubit gate as a slot: one term per map of the basis, the `b`-side operation first (they commute) -/
def cutSlot (a b : Nat) (terms : List (K × TM K × TM K)) : List (LTerm K) :=
  terms.map fun t => { c := t.1, ops := [([b], t.2.2), ([a], t.2.1)] }

theorem cutSlot_exact (a b : Nat) (hab : a ≠ b) (M2 : TM K) (terms : List (K × TM K × TM K))
    (h : ∀ x y x' y' : Fin 4, M2 [x, y] [x', y'] = (terms.map fun t => t.1 * (t.2.1 [x] [x'] * t.2.2 [y] [y'])).sum) (v : Vec K) :
    slotOp (cutSlot a b terms) v = applyL [a, b] M2 v := by
  rw [applyL_tensor a b hab M2 terms h v]
  simp [slotOp, cutSlot, List.map_map, Function.comp_def, runOps]

/-- a plain gate as a slot -/
def gateSlot (qs : List Nat) (M : TM K) : List (LTerm K) := [{ c := 1, ops := [(qs, M)] }]

theorem gateSlot_exact (qs : List Nat) (M : TM K) (v : Vec K) : slotOp (gateSlot qs M) v = applyL qs M v := by
  simp [slotOp, gateSlot, runOps]

/-! ### end to end: cut, expand, factorise -/

/-- a gate of the circuit to be cut: a plain gate, or a two-qubit gate marked for cutting together with its basis
(coefficient, transfer matrix on `a`, transfer matrix on `b` per map) -/
inductive CGate (K : Type) where
  | plain (qs : List Nat) (M : TM K)
  | cut (a b : Nat) (M2 : TM K) (terms : List (K × TM K × TM K))

def CGate.op : CGate K → LOp K
  | .plain qs M => (qs, M)
  | .cut a b M2 _ => ([a, b], M2)

def CGate.slot : CGate K → List (LTerm K)
  | .plain qs M => gateSlot qs M
  | .cut a b _ terms => cutSlot a b terms

/-- the basis of a cut gate is an exact decomposition of its transfer matrix (C02) -/
def CGate.Exact : CGate K → Prop
  | .plain _ _ => True
  | .cut a b M2 terms => a ≠ b ∧
      ∀ x y x' y' : Fin 4, M2 [x, y] [x', y'] = (terms.map fun t => t.1 * (t.2.1 [x] [x'] * t.2.2 [y] [y'])).sum

/-- plain gates stay inside one partition of `S`; the two qubits of a cut gate lie in partitions of `S` -/
def CGate.Local (lab : Nat → Nat) (S : Finset Nat) : CGate K → Prop
  | .plain qs M => LocalOp lab (qs, M) ∧ blockOf lab (qs, M) ∈ S
  | .cut a b _ _ => lab a ∈ S ∧ lab b ∈ S

theorem uncut_eq_slots : ∀ (gs : List (CGate K)) (v : Vec K), (∀ g ∈ gs, g.Exact) →
    runOps (gs.map CGate.op) v = runSlots (gs.map CGate.slot) v
  | [], _, _ => rfl
  | g :: gs, v, h => by
    have hg := h g (by simp)
    show runOps (gs.map CGate.op) (applyL g.op.1 g.op.2 v) = runSlots (gs.map CGate.slot) (slotOp g.slot v)
    have : slotOp g.slot v = applyL g.op.1 g.op.2 v := by
      cases g with
      | plain qs M => exact gateSlot_exact qs M v
      | cut a b M2 terms => exact cutSlot_exact a b hg.1 M2 terms hg.2 v
    rw [this]
    exact uncut_eq_slots gs _ (fun x hx => h x (List.mem_cons_of_mem _ hx))

/-- **C01 in the Pauli-expectation semantics** (any number of partitions, any number of cuts, any transfer matrices):
for a circuit started in |0…0⟩ whose plain gates each stay inside one partition and whose other two-qubit gates are cut
with *exact* bases, the expectation value of every observable (identity outside the partitions) on the **uncut**
circuit equals `Σ_choices (Π_cuts c) · Π_p E_p(choice)` — the sum over all joint map choices of the product of the
chosen coefficients times the product over partitions of the subexperiment expectation values — which is the quantity
`generate_cutting_experiments(∞)` + `reconstruct_expectation_values` return (C05 `exact_coeff`, C06
`reconstructImpl_eq_spec`) -/
theorem cut_and_reconstruct (lab : Nat → Nat) (S : Finset Nat) (gs : List (CGate K)) (O : PStr)
    (hex : ∀ g ∈ gs, g.Exact) (hloc : ∀ g ∈ gs, g.Local lab S) (hO : ∀ n, lab n ∉ S → O n = 0) :
    runOps (gs.map CGate.op) init0 O =
      ((choices (gs.map CGate.slot)).map fun ch => choiceCoeff ch *
        ∏ p ∈ S, runOps ((choiceOps ch).filter fun o => blockOf lab o == p) init0 (restr lab p O)).sum := by
  rw [uncut_eq_slots gs init0 hex]
  apply round_trip_ptm lab S _ O _ hO
  intro s hs t ht o ho
  simp only [List.mem_map] at hs
  obtain ⟨g, hg, rfl⟩ := hs
  have hl := hloc g hg
  cases g with
  | plain qs M =>
    simp only [CGate.slot, gateSlot, List.mem_singleton] at ht
    subst ht
    simp only [List.mem_singleton] at ho
    subst ho
    exact hl
  | cut a b M2 terms =>
    simp only [CGate.slot, cutSlot, List.mem_map] at ht
    obtain ⟨tt, _, rfl⟩ := ht
    simp only [List.mem_cons, List.not_mem_nil, or_false] at ho
    rcases ho with rfl | rfl
    · exact ⟨by intro q hq; simp at hq; subst hq; simp [blockOf], by simpa [blockOf] using hl.2⟩
    · exact ⟨by intro q hq; simp at hq; subst hq; simp [blockOf], by simpa [blockOf] using hl.1⟩

end CKT.C01PTM
