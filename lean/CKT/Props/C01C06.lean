import CKT.Props.C01Full
import CKT.Props.C06Sem
/-!
# C01 ∘ C06: what the reconstruction loop computes from exact outcome distributions is the uncut value

`decoded_is_estimator`: for a subexperiment whose classical bits are laid out as the package lays them out (observable
register = the low bits, QPD register above it: a permutation of `bitsDesc`), the parity-decoded outcome distribution
`SubExp.decoded` of `C01Full` **is** the number `groupExpvals` (C06's model of the accumulator loop) returns for that
member on the exact quasi-distribution of the subexperiment.  Together with `C01Full.reconstruction_correct` and
`C06.reconstructImpl_eq_spec` the chain reads: implementation loop = estimator (C06) = signed sums over the semantic outcome
distribution (here) = per-partition expectation values of the signed-channel programs (`Sem.decode_full`) whose weighted
products sum to the uncut value (`C01PTM.cut_and_reconstruct`, bases exact by C02).
-/
namespace CKT.C01PTM
open CKT CKT.Sem CKT.C06Sem

/-- the weight of the identity string in the final state of a subexperiment, per register value: its outcome distribution -/
noncomputable def SubExp.outcomes (G : GateSem ℚ) (x : SubExp ℚ) : Cl → ℚ :=
  fun k => runI G (blocksInstrs x.blocks) (actL x.body init) k (fun _ => 0)

theorem decoded_is_estimator (G : GateSem ℚ) (x : SubExp ℚ) (c : Cog) (j N : Nat) (hN : c.numMeasBits ≤ N)
    (hj : j < c.masks.length)
    (hnd : (((measBits x.body).map fun b => (b, true)) ++ x.blocks.map fun b => (b.c, b.e)).map (·.1) |>.Nodup)
    (hlayout : List.Perm (((measBits x.body).map fun b => (b, true)) ++ x.blocks.map fun b => (b.c, b.e))
      (bitsDesc (flags c.numMeasBits (c.masks.getD j 0)) N)) :
    x.decoded G (fun _ => true) = (groupExpvals c (.v1 (exactDist N (x.outcomes G) allFalse))).getD j 0 := by
  rw [estimator_is_signedSum c N hN _ allFalse j hj, ← signedSum_perm hlayout hnd, signedSum_append]
  rfl

end CKT.C01PTM
