import CKT.Props.C04Law
/-!
# C04 — T04.4 through the permutation wrapper (`genUnsorted`)
-/
namespace CKT.C04
open CKT

/-- caller-order key of a sorted-order key -/
def relab : List (List Nat) → List Nat → List Nat
  | p :: ps, j :: t => p.getD j 0 :: relab ps t
  | _, _ => []

theorem relab_eq : ∀ (s : List Nat) (perms : List (List Nat)), (s.zip perms).map (fun ip => ip.2.getD ip.1 0) = relab perms s := by
  intro s
  induction s with
  | nil => intro perms; cases perms <;> rfl
  | cons j t ih =>
    intro perms
    cases perms with
    | nil => rfl
    | cons p ps =>
      have := ih ps
      simp only [List.zip_cons_cons, List.map_cons, relab]
      rw [this]

/-- indices in range, not more of them than levels -/
def validL : List Nat → List Nat → Prop
  | _, [] => True
  | [], _ :: _ => False
  | n :: ns, j :: t => j < n ∧ validL ns t

def GoodPerms (perms : List (List Nat)) : Prop := ∀ p ∈ perms, p.Perm (List.range p.length)

theorem good_sortPerms (rows : List (List Rat)) : GoodPerms (rows.map sortPerm) := by
  intro p hp
  obtain ⟨r, _, rfl⟩ := List.mem_map.1 hp
  have h := sortPerm_perm r
  have hl : (sortPerm r).length = r.length := by simpa using h.length_eq
  rw [hl]; exact h

theorem perm_getD_inj {p : List Nat} (hp : p.Perm (List.range p.length)) {i j : Nat} (hi : i < p.length) (hj : j < p.length)
    (h : p.getD i 0 = p.getD j 0) : i = j := by
  have hnd : p.Nodup := hp.nodup_iff.2 List.nodup_range
  simp only [List.getD_eq_getElem?_getD, List.getElem?_eq_getElem hi, List.getElem?_eq_getElem hj, Option.getD_some] at h
  exact (hnd.getElem_inj_iff).1 h

theorem perm_getD_lt {p : List Nat} (hp : p.Perm (List.range p.length)) {i : Nat} (hi : i < p.length) : p.getD i 0 < p.length := by
  simp only [List.getD_eq_getElem?_getD, List.getElem?_eq_getElem hi, Option.getD_some]
  have : p[i] ∈ List.range p.length := hp.mem_iff.1 (List.getElem_mem hi)
  exact List.mem_range.1 this

theorem relab_length : ∀ (perms : List (List Nat)) (s : List Nat), validL (perms.map List.length) s → (relab perms s).length = s.length := by
  intro perms
  induction perms with
  | nil => intro s hs; cases s with
    | nil => rfl
    | cons _ _ => simp [validL] at hs
  | cons p ps ih =>
    intro s hs
    cases s with
    | nil => rfl
    | cons j t => simp only [List.map_cons, validL] at hs; simp [relab, ih t hs.2]

theorem relab_inj : ∀ (perms : List (List Nat)), GoodPerms perms → ∀ (a b : List Nat),
    validL (perms.map List.length) a → validL (perms.map List.length) b → relab perms a = relab perms b → a = b := by
  intro perms
  induction perms with
  | nil =>
    intro _ a b ha hb _
    cases a with
    | nil => cases b with
      | nil => rfl
      | cons _ _ => simp [validL] at hb
    | cons _ _ => simp [validL] at ha
  | cons p ps ih =>
    intro hg a b ha hb h
    have hgp : p.Perm (List.range p.length) := hg p (by simp)
    have hgs : GoodPerms ps := fun q hq => hg q (List.mem_cons_of_mem _ hq)
    cases a with
    | nil =>
      cases b with
      | nil => rfl
      | cons j t => simp [relab] at h
    | cons i s =>
      cases b with
      | nil => simp [relab] at h
      | cons j t =>
        simp only [List.map_cons, validL] at ha hb
        simp only [relab, List.cons.injEq] at h
        have := perm_getD_inj hgp ha.1 hb.1 h.1
        subst this
        rw [ih hgs s t ha.2 hb.2 h.2]

theorem validL_append_left : ∀ (lens : List Nat) (a b : List Nat), validL lens (a ++ b) → validL lens a := by
  intro lens
  induction lens with
  | nil => intro a b h; cases a with
    | nil => trivial
    | cons _ _ => simp [validL] at h
  | cons n ns ih =>
    intro a b h
    cases a with
    | nil => trivial
    | cons j t => simp only [List.cons_append, validL] at h ⊢; exact ⟨h.1, ih t b h.2⟩

/-- relabelling a key extended by one index -/
theorem relab_snoc : ∀ (perms : List (List Nat)) (state : List Nat) (j : Nat), validL (perms.map List.length) (state ++ [j]) →
    relab perms (state ++ [j]) = relab perms state ++ [(perms.getD state.length []).getD j 0] := by
  intro perms
  induction perms with
  | nil => intro state j h; cases state <;> simp [validL] at h
  | cons p ps ih =>
    intro state j h
    cases state with
    | nil => simp [relab]
    | cons i t =>
      simp only [List.cons_append, List.map_cons, validL] at h
      simp only [List.cons_append, relab, List.length_cons, ih t j h.2]
      simp

theorem validL_drop : ∀ (lens : List Nat) (a b : List Nat), validL lens (a ++ b) → validL (lens.drop a.length) b := by
  intro lens
  induction lens with
  | nil => intro a b h; cases a with
    | nil => simpa using h
    | cons _ _ => simp [validL] at h
  | cons n ns ih =>
    intro a b h
    cases a with
    | nil => simpa using h
    | cons j t => simp only [List.cons_append, validL] at h; simpa using ih t b h.2

def srt (r : List Rat) : List Rat := applyPerm (sortPerm r) r

theorem srt_getD (row : List Rat) (j : Nat) (hj : j < row.length) : (srt row).getD j 0 = row.getD ((sortPerm row).getD j 0) 0 := by
  unfold srt applyPerm
  have hl : (sortPerm row).length = row.length := by simpa using (sortPerm_perm row).length_eq
  have hj' : j < (sortPerm row).length := by omega
  simp [List.getD_eq_getElem?_getD, List.getElem?_map, List.getElem?_eq_getElem hj']

theorem probOf_relab : ∀ (rows : List (List Rat)) (s : List Nat), validL (rows.map List.length) s →
    probOf rows (relab (rows.map sortPerm) s) = probOf (rows.map srt) s := by
  intro rows
  induction rows with
  | nil => intro s _; cases s <;> simp [relab, probOf]
  | cons row rest ih =>
    intro s hs
    cases s with
    | nil => simp [relab, probOf]
    | cons j t =>
      simp only [List.map_cons, validL] at hs
      simp only [List.map_cons, relab, probOf_cons, ih t hs.2, srt_getD row j hs.1]

theorem unPerm_getD {p : List Nat} (hp : p.Perm (List.range p.length)) (v : List Rat) {j : Nat} (hj : j < p.length) :
    (unPerm p v).getD (p.getD j 0) 0 = v.getD j 0 := by
  have hlt := perm_getD_lt hp hj
  have hnd : p.Nodup := hp.nodup_iff.2 List.nodup_range
  have hlt' : p[j] < p.length := by
    simpa [List.getD_eq_getElem?_getD, List.getElem?_eq_getElem hj] using hlt
  have hpj : p.getD j 0 = p[j] := by simp [List.getD_eq_getElem?_getD, List.getElem?_eq_getElem hj]
  rw [hpj]
  unfold unPerm
  simp only [List.getD_eq_getElem?_getD, List.getElem?_map, List.getElem?_range hlt', Option.map_some, Option.getD_some]
  rw [hnd.idxOf_getElem j hj]

theorem relab_nil (perms : List (List Nat)) : relab perms [] = [] := by cases perms <;> rfl

theorem validL_snoc : ∀ (lens : List Nat) (t : List Nat) (j n : Nat), validL lens t → lens.drop t.length = n :: (lens.drop (t.length + 1)) → j < n →
    validL lens (t ++ [j]) := by
  intro lens
  induction lens with
  | nil => intro t j n _ h _; simp at h
  | cons m ms ih =>
    intro t j n ht h hj
    cases t with
    | nil => simp at h; subst h; simp [validL, hj]
    | cons i t' =>
      simp only [validL] at ht
      simp only [List.cons_append, validL]
      refine ⟨ht.1, ih t' j n ht.2 (by simpa using h) hj⟩

/-- every key yielded beneath a node: the node's prefix followed by in-range indices, at most one per remaining row -/
theorem dfs_valid (thr atol : Rat) : ∀ (rows : List (List Rat)) (top : Bool) (pre : List Nat) (p : Rat), (top = true → pre = []) →
    ∀ y ∈ (dfs thr atol rows top pre p).1, ∃ t, keyOf y = pre ++ t ∧ validL (rows.map List.length) t := by
  intro rows
  induction rows with
  | nil => intro top pre p _ y hy; simp [dfs] at hy
  | cons row rest ih =>
    intro top pre p htop y hy
    obtain ⟨v, hv, hvis⟩ := visited_eq thr p row
    cases rest with
    | nil =>
      simp only [dfs, hvis] at hy
      split at hy
      · rename_i he
        simp at he
        simp [he] at hy
      · rcases finish_keys top pre _ _ htop y hy with h | h
        · simp only [List.map_map, List.mem_map, Function.comp] at h
          obtain ⟨j, hj, rfl⟩ := h
          have := List.mem_range.1 hj
          exact ⟨[j], rfl, by simp [validL]; omega⟩
        · exact ⟨[], by simp [h], trivial⟩
    | cons r2 rest' =>
      simp only [dfs, hvis, List.map_map, Function.comp_def] at hy
      have hk : ∀ y ∈ ((List.range v).map fun j => (j, dfs thr atol (r2 :: rest') false (pre ++ [j]) (p * row.getD j 0))).flatMap (fun k => k.2.1),
          ∃ t, keyOf y = pre ++ t ∧ validL ((row :: r2 :: rest').map List.length) t := by
        intro y hy
        obtain ⟨k, hk, hyk⟩ := List.mem_flatMap.1 hy
        obtain ⟨j, hj, rfl⟩ := List.mem_map.1 hk
        have hjv := List.mem_range.1 hj
        obtain ⟨t, ht, hvt⟩ := ih false (pre ++ [j]) (p * row.getD j 0) (by simp) y hyk
        exact ⟨j :: t, by simp [ht], by simp only [List.map_cons, validL]; exact ⟨by omega, hvt⟩⟩
      split at hy
      · exact hk y hy
      · rcases finish_keys top pre _ _ htop y hy with h | h
        · exact hk y h
        · exact ⟨[], by simp [h], trivial⟩

def relabY (P : List (List Nat)) : Y → Y
  | Y.full s p => Y.full (relab P s) p
  | Y.cond s arr => Y.cond (relab P s) (unPerm (P.getD s.length []) arr)

theorem genUnsorted_eq (rows : List (List Rat)) (thr atol : Rat) :
    genUnsorted rows thr atol = (genSorted (rows.map srt) thr atol).map (relabY (rows.map sortPerm)) := by
  unfold genUnsorted
  simp only
  have h1 : (rows.zip (rows.map sortPerm)).map (fun rp => applyPerm rp.2 rp.1) = rows.map srt := by
    rw [zip_map_self, List.map_map]; rfl
  rw [h1]
  apply List.map_congr_left
  intro y _
  cases y with
  | full s p => simp only [relabY, relab_eq]
  | cond s arr => simp only [relabY, relab_eq]

def relabE (P : List (List Nat)) (e : List Nat × List Rat) : List Nat × List Rat :=
  (relab P e.1, unPerm (P.getD e.1.length []) e.2)

theorem condsOf_relab (P : List (List Nat)) (ys : List Y) : condsOf (ys.map (relabY P)) = (condsOf ys).map (relabE P) := by
  induction ys with
  | nil => rfl
  | cons y ys ih =>
    cases y with
    | full s p =>
      have : condsOf (Y.full s p :: ys) = condsOf ys := rfl
      rw [this, ← ih]; rfl
    | cond s arr =>
      have : condsOf (Y.cond s arr :: ys) = (s, arr) :: condsOf ys := rfl
      rw [this, List.map_cons, List.map_cons, ← ih]; rfl

theorem fullsOf_relab (P : List (List Nat)) (ys : List Y) : fullsOf (ys.map (relabY P)) = (fullsOf ys).map (relab P) := by
  induction ys with
  | nil => rfl
  | cons y ys ih =>
    cases y with
    | full s p =>
      have : fullsOf (Y.full s p :: ys) = s :: fullsOf ys := rfl
      rw [this, List.map_cons, List.map_cons, ← ih]; rfl
    | cond s arr =>
      have : fullsOf (Y.cond s arr :: ys) = fullsOf ys := rfl
      rw [this, ← ih]; rfl

theorem find_relab (P : List (List Nat)) (hP : GoodPerms P) (C : List (List Nat × List Rat))
    (hC : ∀ e ∈ C, validL (P.map List.length) e.1) (st : List Nat) (hst : validL (P.map List.length) st) :
    (C.map (relabE P)).find? (fun e => e.1 == relab P st) = (C.find? (fun e => e.1 == st)).map (relabE P) := by
  rw [List.find?_map]
  congr 1
  have hcg : ∀ (l : List (List Nat × List Rat)), (∀ e ∈ l, validL (P.map List.length) e.1) →
      l.find? ((fun e => e.1 == relab P st) ∘ relabE P) = l.find? (fun e => e.1 == st) := by
    intro l
    induction l with
    | nil => intro _; rfl
    | cons a l ihl =>
      intro hl
      have ha := hl a (by simp)
      have hrest := ihl (fun e he => hl e (List.mem_cons_of_mem _ he))
      simp only [List.find?_cons, Function.comp, relabE]
      by_cases h : a.1 = st
      · simp [h]
      · have : relab P a.1 ≠ relab P st := fun hh => h (relab_inj P hP _ _ ha hst hh)
        simp only [beq_eq_false_iff_ne.2 h, beq_eq_false_iff_ne.2 this]
        exact hrest
  exact hcg C hC

theorem sortPerm_length (r : List Rat) : (sortPerm r).length = r.length := by
  simpa using (sortPerm_perm r).length_eq

theorem lens_eq (rows : List (List Rat)) : (rows.map sortPerm).map List.length = rows.map List.length := by
  rw [List.map_map]
  apply List.map_congr_left
  intro r _
  exact sortPerm_length r

/-- the sampler's law in caller order, through the relabelled tables, is the law in sorted order -/
theorem lawU_eq (rows : List (List Rat)) (C : List (List Nat × List Rat)) (hC : ∀ e ∈ C, validL (rows.map List.length) e.1) :
    ∀ (s state : List Nat), validL (rows.map List.length) (state ++ s) →
      law rows (C.map (relabE (rows.map sortPerm))) (relab (rows.map sortPerm) state) (relab ((rows.map sortPerm).drop state.length) s) =
        law (rows.map srt) C state s := by
  have hP := good_sortPerms rows
  have hl := lens_eq rows
  intro s
  induction s with
  | nil => intro state _; simp [relab_nil, law]
  | cons j s ih =>
    intro state hv
    have hstate : validL (rows.map List.length) state := validL_append_left _ _ _ hv
    have hd := validL_drop _ _ _ hv
    -- the level exists
    have hk : state.length < rows.length := by
      by_contra hcon
      have : (rows.map List.length).drop state.length = [] := by
        apply List.drop_eq_nil_of_le; simp; omega
      rw [this] at hd
      simp [validL] at hd
    have hrow : rows.drop state.length = rows[state.length] :: rows.drop (state.length + 1) := List.drop_eq_getElem_cons hk
    have hPd : (rows.map sortPerm).drop state.length = sortPerm rows[state.length] :: (rows.map sortPerm).drop (state.length + 1) := by
      rw [← List.map_drop, hrow, List.map_cons, List.map_drop]
    have hj : j < rows[state.length].length := by
      rw [← List.map_drop, hrow] at hd
      simp only [List.map_cons, validL] at hd
      exact hd.1
    have hPget : (rows.map sortPerm).getD state.length [] = sortPerm rows[state.length] := by
      simp [List.getD_eq_getElem?_getD, List.getElem?_eq_getElem hk]
    have hgood : (sortPerm rows[state.length]).Perm (List.range (sortPerm rows[state.length]).length) :=
      hP _ (List.mem_map.2 ⟨_, List.getElem_mem hk, rfl⟩)
    have hj' : j < (sortPerm rows[state.length]).length := by rw [sortPerm_length]; exact hj
    have hsn : validL (rows.map List.length) (state ++ [j]) := by
      have : state ++ j :: s = (state ++ [j]) ++ s := by simp
      rw [this] at hv
      exact validL_append_left _ _ _ hv
    rw [hPd]
    simp only [relab]
    unfold law
    rw [find_relab _ hP C (by rw [hl]; exact hC) state (by rw [hl]; exact hstate)]
    cases hf : C.find? (fun e => e.1 == state) with
    | none =>
      simp only [Option.map_none]
      rw [relab_length _ _ (by rw [hl]; exact hstate)]
      have h1 : (sortPerm rows[state.length]).getD j 0 :: relab ((rows.map sortPerm).drop (state.length + 1)) s =
          relab ((rows.drop state.length).map sortPerm) (j :: s) := by
        rw [hrow, List.map_cons]; simp only [relab, List.map_drop]
      rw [h1, probOf_relab (rows.drop state.length) (j :: s) (by rw [List.map_drop]; exact hd), List.map_drop]
    | some e =>
      have hek : e.1 = state := by simpa using List.find?_some hf
      simp only [Option.map_some, relabE, hek, hPget]
      rw [unPerm_getD hgood e.2 hj']
      have h2 : relab (rows.map sortPerm) state ++ [(sortPerm rows[state.length]).getD j 0] = relab (rows.map sortPerm) (state ++ [j]) := by
        rw [relab_snoc _ _ _ (by rw [hl]; exact hsn), hPget]
      have h3 : (rows.map sortPerm).drop (state.length + 1) = (rows.map sortPerm).drop (state ++ [j]).length := by simp
      rw [h2, h3, ih (state ++ [j]) (by simpa using hv)]

def unrelab : List (List Nat) → List Nat → List Nat
  | p :: ps, j :: t => p.idxOf j :: unrelab ps t
  | _, _ => []

theorem relab_unrelab : ∀ (P : List (List Nat)), GoodPerms P → ∀ (m : List Nat), validL (P.map List.length) m →
    relab P (unrelab P m) = m ∧ validL (P.map List.length) (unrelab P m) ∧ (unrelab P m).length = m.length := by
  intro P
  induction P with
  | nil => intro _ m hm; cases m with
    | nil => exact ⟨rfl, trivial, rfl⟩
    | cons _ _ => simp [validL] at hm
  | cons p ps ih =>
    intro hg m hm
    cases m with
    | nil => exact ⟨rfl, trivial, rfl⟩
    | cons j t =>
      simp only [List.map_cons, validL] at hm
      have hgp : p.Perm (List.range p.length) := hg p (by simp)
      have hgs : GoodPerms ps := fun q hq => hg q (List.mem_cons_of_mem _ hq)
      obtain ⟨h1, h2, h3⟩ := ih hgs t hm.2
      have hmem : j ∈ p := hgp.mem_iff.2 (List.mem_range.2 hm.1)
      have hlt : p.idxOf j < p.length := List.idxOf_lt_length_iff.2 hmem
      refine ⟨?_, ?_, ?_⟩
      · simp only [unrelab, relab, h1]
        congr 1
        simp [List.getD_eq_getElem?_getD, List.getElem?_eq_getElem hlt]
      · simp only [unrelab, List.map_cons, validL]; exact ⟨hlt, h2⟩
      · simp [unrelab, h3]

theorem srt_nonneg (rows : List (List Rat)) (h : NonnegRows rows) : NonnegRows (rows.map srt) := by
  intro r hr x hx
  obtain ⟨row, hrow, rfl⟩ := List.mem_map.1 hr
  unfold srt applyPerm at hx
  obtain ⟨i, _, rfl⟩ := List.mem_map.1 hx
  rw [List.getD_eq_getElem?_getD]
  cases hi : row[i]? with
  | none => simp
  | some y => simp; exact h row hrow y (List.mem_of_getElem? hi)

theorem srt_lens (rows : List (List Rat)) : (rows.map srt).map List.length = rows.map List.length := by
  rw [List.map_map]
  apply List.map_congr_left
  intro r _
  simp [srt, applyPerm, sortPerm_length]

theorem genSorted_valid (rows : List (List Rat)) (thr atol : Rat) :
    ∀ y ∈ genSorted rows thr atol, validL (rows.map List.length) (keyOf y) := by
  intro y hy
  obtain ⟨t, ht, hv⟩ := dfs_valid thr atol rows true [] 1 (fun _ => rfl) y hy
  rw [ht]; simpa using hv

/-- **T04.4 in caller order** (any row order, table as yielded): through the permutation wrapper the sampler's law of every joint map is
its probability unless the map received an exact weight, in which case it is never drawn -/
theorem genUnsorted_law (rows : List (List Rat)) (thr : Rat) (hnn : NonnegRows rows) (m : List Nat) (hm : m.length = rows.length)
    (hv : validL (rows.map List.length) m) :
    law rows (condsOf (genUnsorted rows thr 0)) [] m = if m ∈ fullsOf (genUnsorted rows thr 0) then 0 else probOf rows m := by
  have hP := good_sortPerms rows
  have hl := lens_eq rows
  obtain ⟨h1, h2, h3⟩ := relab_unrelab (rows.map sortPerm) hP m (by rw [hl]; exact hv)
  rw [hl] at h2
  set m0 := unrelab (rows.map sortPerm) m with hm0
  have hvalid := genSorted_valid (rows.map srt) thr 0
  rw [srt_lens] at hvalid
  have hC : ∀ e ∈ condsOf (genSorted (rows.map srt) thr 0), validL (rows.map List.length) e.1 := by
    intro e he
    obtain ⟨y, hy, hk⟩ := mem_condsOf he
    rw [← hk]; exact hvalid y hy
  have hlaw := lawU_eq rows _ hC m0 [] (by simpa using h2)
  simp only [relab_nil, List.length_nil, List.drop_zero] at hlaw
  rw [genUnsorted_eq, condsOf_relab, fullsOf_relab, ← h1, hlaw,
    genSorted_law (rows.map srt) thr (srt_nonneg rows hnn) m0 (by rw [h3, hm]; simp), probOf_relab rows m0 h2]
  have hmem : relab (rows.map sortPerm) m0 ∈ (fullsOf (genSorted (rows.map srt) thr 0)).map (relab (rows.map sortPerm)) ↔
      m0 ∈ fullsOf (genSorted (rows.map srt) thr 0) := by
    constructor
    · intro h
      obtain ⟨k, hk, hkk⟩ := List.mem_map.1 h
      obtain ⟨y, hy, hky⟩ := mem_fullsOf hk
      have hkv : validL (rows.map List.length) k := by rw [← hky]; exact hvalid y hy
      have := relab_inj _ hP k m0 (by rw [hl]; exact hkv) (by rw [hl]; exact h2) hkk
      rw [← this]; exact hk
    · intro h; exact List.mem_map.2 ⟨m0, h, rfl⟩
  simp only [hmem]

/-- **T04.4 (as `_generate_qpd_weights` uses it)**: with `w₀` the mass of the top-level table, `needed = ⌈N·w₀⌉` draws of weight
`N·w₀/needed` each, and the top-level table normalised in place, the expected weight `needed · (N·w₀/needed) · law(m)` of every joint
map `m` without an exact weight is `N · p(m)`, and a map with an exact weight is never drawn — in caller order, for rows in any order. -/
theorem tail_unbiased_caller_order (rows : List (List Rat)) (thr n : Rat) (hnn : NonnegRows rows) (e : List Nat × List Rat)
    (hf : (condsOf (genUnsorted rows thr 0)).find? (fun e => e.1 == []) = some e) (hw : e.2.sum ≠ 0)
    (m : List Nat) (hm : m.length = rows.length) (hv : validL (rows.map List.length) m) (hrows : rows ≠ [])
    (needed : Rat) (hneeded : needed ≠ 0) :
    needed * (e.2.sum * n / needed) * law rows (normTop e.2.sum (condsOf (genUnsorted rows thr 0))) [] m =
      if m ∈ fullsOf (genUnsorted rows thr 0) then 0 else n * probOf rows m := by
  obtain ⟨j, s, rfl⟩ : ∃ j s, m = j :: s := by
    cases m with
    | nil => cases rows with
      | nil => exact absurd rfl hrows
      | cons _ _ => simp at hm
    | cons j s => exact ⟨j, s, rfl⟩
  have h1 := law_normTop_top rows _ e.2.sum hw e hf j s
  have h2 := genUnsorted_law rows thr hnn (j :: s) hm hv
  have : needed * (e.2.sum * n / needed) * law rows (normTop e.2.sum (condsOf (genUnsorted rows thr 0))) [] (j :: s) =
      n * (e.2.sum * law rows (normTop e.2.sum (condsOf (genUnsorted rows thr 0))) [] (j :: s)) := by
    field_simp
  rw [this, h1, h2]
  split <;> simp

/-- non-vacuity, unsorted rows: the exact weights, the top-level table and a tail law -/
example : let rows : List (List Rat) := [[1/4, 3/4], [1/2, 1/2]]
    (fullsOf (genUnsorted rows (1/3) 0) = [[1, 1], [1, 0]]) ∧
    (condsOf (genUnsorted rows (1/3) 0)).find? (fun e => e.1 == []) = some ([], [1/4, 0]) ∧
    law rows (normTop (1/4) (condsOf (genUnsorted rows (1/3) 0))) [] [0, 1] = 1/2 := by
  decide +kernel

end CKT.C04
