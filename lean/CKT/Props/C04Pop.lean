import CKT.Props.C04LawU
import Mathlib.Data.List.Dedup
import Mathlib.Data.List.Count
/-!
# C04 — the sampler hands back as many samples as it was asked for (`_populate_samples`)
-/
namespace CKT.C04
open CKT

theorem counter_sum {α : Type} [DecidableEq α] (l : List α) : ((counter l).map (·.2)).sum = l.length := by
  unfold counter
  rw [List.map_map]
  have hp : (uniq l).Perm l.dedup := by
    rw [List.perm_ext_iff_of_nodup (nodup_uniq l) (List.nodup_dedup l)]
    intro a
    rw [mem_uniq, List.mem_dedup]
  have := (hp.map (fun a => l.count a)).sum_eq
  simp only [Function.comp_def]
  rw [this]
  exact List.sum_map_count_dedup_eq_length l

def cnt (l : List (List Nat × Nat)) : Nat := (l.map (·.2)).sum

theorem cnt_append (a b : List (List Nat × Nat)) : cnt (a ++ b) = cnt a + cnt b := by
  simp [cnt, List.map_append, List.sum_append]

theorem transpose_length (cols : List (List Nat)) (n : Nat) : (transpose cols n).length = n := by
  simp [transpose]

def stepO (rows : List (List Rat)) (cond : List (List Nat × List Rat)) (fuel : Nat) (state : List Nat) (acc : Bool × Draws) (oc : Nat × Nat) :
    Bool × Draws :=
  let outcome := state ++ [oc.1]
  if outcome.length == rows.length then acc
  else
    let r := drawsOK rows cond fuel outcome oc.2 acc.2
    (acc.1 && r.1, r.2)

def stepP (rows : List (List Rat)) (cond : List (List Nat × List Rat)) (fuel : Nat) (state : List Nat)
    (acc : List (List Nat × Nat) × Draws) (oc : Nat × Nat) : List (List Nat × Nat) × Draws :=
  let outcome := state ++ [oc.1]
  if outcome.length == rows.length then (acc.1 ++ [(outcome, oc.2)], acc.2)
  else
    let r := populate rows cond fuel outcome oc.2 acc.2
    (acc.1 ++ r.1, r.2)

theorem drawsOK_some (rows : List (List Rat)) (cond : List (List Nat × List Rat)) (fuel : Nat) (state : List Nat) (nd : Nat) (draws : Draws)
    (e : List Nat × List Rat) (hf : cond.find? (fun e => e.1 == state) = some e) :
    drawsOK rows cond (fuel + 1) state nd draws =
      (counter (draws.headD [])).foldl (stepO rows cond fuel state) ((draws.headD []).length == nd, draws.drop 1) := by
  unfold drawsOK
  simp only [hf]
  rfl

theorem populate_some (rows : List (List Rat)) (cond : List (List Nat × List Rat)) (fuel : Nat) (state : List Nat) (nd : Nat) (draws : Draws)
    (e : List Nat × List Rat) (hf : cond.find? (fun e => e.1 == state) = some e) :
    populate rows cond (fuel + 1) state nd draws =
      (counter (draws.headD [])).foldl (stepP rows cond fuel state) ([], draws.drop 1) := by
  unfold populate
  simp only [hf]
  rfl

/-- the flag only ever goes down -/
theorem foldO_flag (rows : List (List Rat)) (cond : List (List Nat × List Rat)) (fuel : Nat) (state : List Nat) :
    ∀ (cs : List (Nat × Nat)) (acc : Bool × Draws), (cs.foldl (stepO rows cond fuel state) acc).1 = true → acc.1 = true := by
  intro cs
  induction cs with
  | nil => intro acc h; exact h
  | cons oc cs ih =>
    intro acc h
    simp only [List.foldl_cons] at h
    have := ih _ h
    unfold stepO at this
    simp only at this
    split at this
    · exact this
    · simp only [Bool.and_eq_true] at this
      exact this.1

/-- **`populate` returns exactly the requested number of samples** whenever the oracle answers every call with an array of the requested
size: the counts of the returned entries add up to `numDesired`, and `populate` consumes the draws exactly as `drawsOK` does. -/
theorem populate_count (rows : List (List Rat)) (cond : List (List Nat × List Rat)) :
    ∀ (fuel : Nat) (state : List Nat) (nd : Nat) (draws : Draws), (drawsOK rows cond fuel state nd draws).1 = true →
      cnt (populate rows cond fuel state nd draws).1 = nd ∧ (populate rows cond fuel state nd draws).2 = (drawsOK rows cond fuel state nd draws).2 := by
  intro fuel
  induction fuel with
  | zero => intro state nd draws h; simp [drawsOK] at h
  | succ fuel ih =>
    intro state nd draws h
    cases hf : cond.find? (fun e => e.1 == state) with
    | none =>
      unfold populate
      unfold drawsOK
      simp only [hf]
      refine ⟨?_, trivial⟩
      simp only [cnt, List.map_map, Function.comp_def]
      have := counter_sum (transpose (draws.take (rows.length - state.length)) nd)
      rw [transpose_length] at this
      simpa [List.map_map, Function.comp_def] using this
    | some e =>
      rw [drawsOK_some rows cond fuel state nd draws e hf] at h ⊢
      rw [populate_some rows cond fuel state nd draws e hf]
      have key : ∀ (cs : List (Nat × Nat)) (accP : List (List Nat × Nat) × Draws) (accO : Bool × Draws), accP.2 = accO.2 →
          (cs.foldl (stepO rows cond fuel state) accO).1 = true →
          cnt (cs.foldl (stepP rows cond fuel state) accP).1 = cnt accP.1 + (cs.map (·.2)).sum ∧
          (cs.foldl (stepP rows cond fuel state) accP).2 = (cs.foldl (stepO rows cond fuel state) accO).2 := by
        intro cs
        induction cs with
        | nil => intro accP accO h2 _; exact ⟨by simp, h2⟩
        | cons oc cs ihc =>
          intro accP accO h2 hok
          simp only [List.foldl_cons] at hok ⊢
          have hflag := foldO_flag rows cond fuel state cs _ hok
          by_cases hlen : ((state ++ [oc.1]).length == rows.length) = true
          · have hO : stepO rows cond fuel state accO oc = accO := by unfold stepO; simp only [hlen, if_true]
            have hP : stepP rows cond fuel state accP oc = (accP.1 ++ [(state ++ [oc.1], oc.2)], accP.2) := by
              unfold stepP; simp only [hlen, if_true]
            rw [hO] at hok ⊢
            rw [hP]
            obtain ⟨hc, hd⟩ := ihc (accP.1 ++ [(state ++ [oc.1], oc.2)], accP.2) accO h2 hok
            refine ⟨?_, hd⟩
            rw [hc, cnt_append]
            simp [cnt]; omega
          · have hlen' : ((state ++ [oc.1]).length == rows.length) = false := by simpa using hlen
            have hO : stepO rows cond fuel state accO oc =
                (accO.1 && (drawsOK rows cond fuel (state ++ [oc.1]) oc.2 accO.2).1, (drawsOK rows cond fuel (state ++ [oc.1]) oc.2 accO.2).2) := by
              unfold stepO; simp only [hlen', Bool.false_eq_true, if_false]
            have hP : stepP rows cond fuel state accP oc =
                (accP.1 ++ (populate rows cond fuel (state ++ [oc.1]) oc.2 accP.2).1, (populate rows cond fuel (state ++ [oc.1]) oc.2 accP.2).2) := by
              unfold stepP; simp only [hlen', Bool.false_eq_true, if_false]
            rw [hO] at hok hflag ⊢
            rw [hP]
            simp only [Bool.and_eq_true] at hflag
            have hr := ih (state ++ [oc.1]) oc.2 accO.2 hflag.2
            rw [h2]
            obtain ⟨hc, hd⟩ := ihc (accP.1 ++ (populate rows cond fuel (state ++ [oc.1]) oc.2 accO.2).1,
                (populate rows cond fuel (state ++ [oc.1]) oc.2 accO.2).2)
              (accO.1 && (drawsOK rows cond fuel (state ++ [oc.1]) oc.2 accO.2).1, (drawsOK rows cond fuel (state ++ [oc.1]) oc.2 accO.2).2) hr.2 hok
            refine ⟨?_, hd⟩
            rw [hc, cnt_append, hr.1]
            simp; omega
      have hflag := foldO_flag rows cond fuel state _ _ h
      have hnd : (draws.headD []).length = nd := by simpa using hflag
      obtain ⟨hc, hd⟩ := key (counter (draws.headD [])) ([], draws.drop 1) _ rfl h
      refine ⟨?_, hd⟩
      rw [hc, counter_sum, hnd]
      simp [cnt]

/-! ### the mass left for the sampler, as `_generate_qpd_weights` reads it off the top-level table -/

theorem no_own_table (ys : List Y) (pre : List Nat) (hkeys : ∀ y ∈ ys, ∃ i, pre ++ [i] <+: keyOf y) :
    (condsOf ys).find? (fun e => e.1 == pre) = none := by
  rw [List.find?_eq_none]
  intro e he hc
  have hk : e.1 = pre := by simpa using hc
  obtain ⟨y, hy, hky⟩ := mem_condsOf he
  obtain ⟨i, hi⟩ := hkeys y hy
  rw [hky, hk] at hi
  have := hi.length_le
  simp at this

theorem zeroSmall_length (atol : Rat) (l : List Rat) : (zeroSmall atol l).length = l.length := by simp [zeroSmall]

/-- a residual mass reported at the top level is the sum of the table found for the empty prefix, which is as long as the first row -/
theorem top_find (thr : Rat) (row : List Rat) (rest : List (List Rat)) (p norm : Rat)
    (h : (dfs thr 0 (row :: rest) true [] p).2 = some norm) :
    ∃ arr, (condsOf (dfs thr 0 (row :: rest) true [] p).1).find? (fun e => e.1 == []) = some ([], arr) ∧ arr.sum = norm ∧
      arr.length = row.length := by
  cases rest with
  | nil =>
    simp only [dfs] at h ⊢
    split at h
    · cases h
    · rename_i hne
      simp only [hne, Bool.false_eq_true, if_false]
      rw [(finish_mass true [] _ _).2] at h
      injection h with h
      refine ⟨_, ?_, h, ?_⟩
      · rw [find_finish_own true [] _ _ (fun _ => rfl) (no_own_table _ [] (by
          intro y hy
          obtain ⟨jx, _, rfl⟩ := List.mem_map.1 hy
          exact ⟨jx.1, by simp [keyOf]⟩))]
        simp
      · simp [zeroSmall_length]
  | cons r2 rest' =>
    simp only [dfs] at h ⊢
    split at h
    · cases h
    · rename_i hne
      simp only [hne, Bool.false_eq_true, if_false]
      rw [(finish_mass true [] _ _).2] at h
      injection h with h
      refine ⟨_, ?_, h, ?_⟩
      · rw [find_finish_own true [] _ _ (fun _ => rfl) (no_own_table _ [] (by
          intro y hy
          obtain ⟨k, hk, hyk⟩ := List.mem_flatMap.1 hy
          obtain ⟨jx, _, rfl⟩ := List.mem_map.1 hk
          exact ⟨jx.1, dfs_keys thr 0 (r2 :: rest') false ([] ++ [jx.1]) _ (by simp) y hyk⟩))]
        simp
      · simp [zeroSmall_length]

theorem map_getD_range (v : List Rat) : (List.range v.length).map (fun i => v.getD i 0) = v := by
  apply List.ext_getElem
  · simp
  · intro n h1 h2
    have hn : n < v.length := by simpa using h1
    simp [List.getD_eq_getElem?_getD, List.getElem?_eq_getElem hn]

theorem unPerm_sum {p : List Nat} (hp : p.Perm (List.range p.length)) (v : List Rat) (hv : v.length = p.length) :
    (unPerm p v).sum = v.sum := by
  have hnd : p.Nodup := hp.nodup_iff.2 List.nodup_range
  unfold unPerm
  have h1 := (hp.symm.map (fun orig => v.getD (p.idxOf orig) 0)).sum_eq
  rw [h1]
  have h2 : p.map (fun orig => v.getD (p.idxOf orig) 0) = (List.range p.length).map (fun i => v.getD i 0) := by
    apply List.ext_getElem
    · simp
    · intro n h1 h2
      have hn : n < p.length := by simpa using h1
      simp [hnd.idxOf_getElem n hn]
  rw [h2, ← hv, map_getD_range]

theorem srt_length (r : List Rat) : (srt r).length = r.length := by simp [srt, applyPerm, sortPerm_length]

/-- what `_generate_qpd_weights` reads as the mass left for the sampler (sum of the top-level table in caller order, or 1 if there is
no table) is the residual mass of the enumeration -/
theorem wts0_unsorted (rows : List (List Rat)) (thr : Rat) :
    (match (condsOf (genUnsorted rows thr 0)).find? (fun e => e.1 == []) with | some e => e.2.sum | none => (1 : Rat)) =
      resid (dfs thr 0 (rows.map srt) true [] 1).2 := by
  have hP := good_sortPerms rows
  have hl := lens_eq rows
  have hvalid := genSorted_valid (rows.map srt) thr 0
  rw [srt_lens] at hvalid
  have hC : ∀ e ∈ condsOf (genSorted (rows.map srt) thr 0), validL ((rows.map sortPerm).map List.length) e.1 := by
    intro e he
    obtain ⟨y, hy, hk⟩ := mem_condsOf he
    rw [hl, ← hk]; exact hvalid y hy
  have hfind := find_relab (rows.map sortPerm) hP _ hC [] (by cases (rows.map sortPerm).map List.length <;> trivial)
  rw [relab_nil] at hfind
  rw [genUnsorted_eq, condsOf_relab, hfind]
  cases hres : (dfs thr 0 (rows.map srt) true [] 1).2 with
  | none =>
    have : genSorted (rows.map srt) thr 0 = [] := dfs_none_nil thr 0 _ _ _ _ hres
    rw [this]
    simp [condsOf, resid]
  | some norm =>
    cases rows with
    | nil => simp [dfs] at hres
    | cons row rest =>
      simp only [List.map_cons] at hres ⊢
      obtain ⟨arr, hf, hs, hlen⟩ := top_find thr (srt row) (rest.map srt) 1 norm hres
      unfold genSorted
      rw [hf]
      simp only [Option.map_some, relabE, List.length_nil, resid]
      have hg : (sortPerm row).Perm (List.range (sortPerm row).length) := hP _ (by simp)
      have : (sortPerm row :: rest.map sortPerm).getD 0 [] = sortPerm row := rfl
      rw [this, unPerm_sum hg arr (by rw [hlen, srt_length, sortPerm_length]), hs]

/-! ### `_generate_qpd_weights`: the weights add up to `N` -/

def exactW (ys : List Y) (n : Rat) : List Weight :=
  ys.filterMap fun
    | Y.full s p => some { key := s, w := p * n, ty := .exact }
    | Y.cond _ _ => none

def tailMass (ys : List Y) : Rat :=
  match (condsOf ys).find? (fun e => e.1 == []) with
  | some e => e.2.sum
  | none => 1

/-- `_generate_qpd_weights` after the all-exact shortcut, with the pieces named -/
def gwTail (rows : List (List Rat)) (n : Rat) (draws : Draws) (ys : List Y) : R (List Weight) :=
  if !(condsOf ys).isEmpty && tailMass ys == 0 then .ok (exactW ys n) else
  if ceilRat (tailMass ys * n) < 1 then .error (.other "AssertionError") else
  match (if (normTop (tailMass ys) (condsOf ys)).isEmpty then none else singleLeftover rows (normTop (tailMass ys) (condsOf ys)) rows.length []) with
  | some key => .ok (exactW ys n ++ [{ key, w := tailMass ys * n, ty := .exact }])
  | none =>
    .ok (exactW ys n ++ ((populate rows (normTop (tailMass ys) (condsOf ys)) (rows.length + 1) [] (ceilRat (tailMass ys * n)).toNat draws).1).map
      fun sc => { key := sc.1, w := (sc.2 : Rat) * (tailMass ys * n / (ceilRat (tailMass ys * n) : Rat)), ty := .sampled })

theorem generateWeights_some (rows : List (List Rat)) (n : Rat) (draws : Draws) :
    generateWeights rows (some n) 0 draws =
      if !(1 ≤ n) then .error (.value "num_samples must be at least 1") else
      if 1 / n ≤ (rows.map fun r => (minNonzero 0 r).getD 0).prod then .ok (allExact rows 0 n) else
      gwTail rows n draws (if 1 / n ≤ (rows.map maxOf).prod then genUnsorted rows (1 / n) 0 else []) := by
  unfold generateWeights gwTail tailMass normTop exactW condsOf
  rfl

/-- `samplerOK` after the all-exact shortcut, with the pieces named -/
def gwOK (rows : List (List Rat)) (n : Rat) (draws : Draws) (ys : List Y) : Bool :=
  if !(condsOf ys).isEmpty && tailMass ys == 0 then true else
  if ceilRat (tailMass ys * n) < 1 then true else
  match (if (normTop (tailMass ys) (condsOf ys)).isEmpty then none else singleLeftover rows (normTop (tailMass ys) (condsOf ys)) rows.length []) with
  | some _ => true
  | none => (drawsOK rows (normTop (tailMass ys) (condsOf ys)) (rows.length + 1) [] (ceilRat (tailMass ys * n)).toNat draws).1

theorem samplerOK_some (rows : List (List Rat)) (n : Rat) (draws : Draws) :
    samplerOK rows (some n) 0 draws =
      if !(1 ≤ n) then true else
      if 1 / n ≤ (rows.map fun r => (minNonzero 0 r).getD 0).prod then true else
      gwOK rows n draws (if 1 / n ≤ (rows.map maxOf).prod then genUnsorted rows (1 / n) 0 else []) := by
  unfold samplerOK gwOK tailMass normTop condsOf
  rfl

theorem exactW_sum (ys : List Y) (n : Rat) : ((exactW ys n).map (·.w)).sum = n * fullMass ys := by
  induction ys with
  | nil => simp [exactW, fullMass]
  | cons y ys ih =>
    cases y with
    | full s p =>
      have h1 : exactW (Y.full s p :: ys) n = { key := s, w := p * n, ty := .exact } :: exactW ys n := rfl
      have h2 : fullMass (Y.full s p :: ys) = p + fullMass ys := by simp [fullMass]
      rw [h1, h2, List.map_cons, List.sum_cons, ih]; ring
    | cond s arr =>
      have h1 : exactW (Y.cond s arr :: ys) n = exactW ys n := rfl
      have h2 : fullMass (Y.cond s arr :: ys) = fullMass ys := by simp [fullMass]
      rw [h1, h2, ih]

/-- exact mass and the mass read off the top-level table add up to one -/
theorem mass_split (rows : List (List Rat)) (n : Rat) (hsum : ∀ r ∈ rows, r.sum = 1) :
    let ys := if 1 / n ≤ (rows.map maxOf).prod then genUnsorted rows (1 / n) 0 else []
    fullMass ys + tailMass ys = 1 := by
  simp only
  split
  · have h1 := genUnsorted_mass rows (1 / n) hsum
    have h2 := wts0_unsorted rows (1 / n)
    have h3 : (rows.zip (rows.map sortPerm)).map (fun rp => applyPerm rp.2 rp.1) = rows.map srt := by
      rw [zip_map_self, List.map_map]; rfl
    rw [h3] at h1
    unfold tailMass
    rw [h2]; exact h1
  · simp [fullMass, tailMass, condsOf]

theorem sum_flatMap_range (v : Nat) (f : Nat → List Rat) :
    ((List.range v).flatMap f).sum = ((List.range v).map (fun i => (f i).sum)).sum := by
  induction v with
  | zero => simp
  | succ v ih => rw [List.range_succ, List.flatMap_append, List.sum_append, ih]; simp

theorem sum_mul_left' {α : Type} (l : List α) (r : Rat) (f : α → Rat) : (l.map (fun x => r * f x)).sum = r * (l.map f).sum := by
  induction l with
  | nil => simp
  | cons a l ih => simp [ih, mul_add]

theorem sum_mul_right' {α : Type} (l : List α) (r : Rat) (f : α → Rat) : (l.map (fun x => f x * r)).sum = (l.map f).sum * r := by
  induction l with
  | nil => simp
  | cons a l ih => simp [ih, add_mul]

theorem sum_productIdx (rows : List (List Rat)) :
    ((productIdx (rows.map List.length)).map (fun key => probOf rows key)).sum = (rows.map List.sum).prod := by
  induction rows with
  | nil => simp [productIdx, probOf]
  | cons row rest ih =>
    simp only [List.map_cons, productIdx, List.prod_cons]
    rw [List.map_flatMap]
    have : ∀ i, ((productIdx (rest.map List.length)).map (fun x => i :: x)).map (fun key => probOf (row :: rest) key) =
        (productIdx (rest.map List.length)).map (fun key => row.getD i 0 * probOf rest key) := by
      intro i
      rw [List.map_map]
      apply List.map_congr_left
      intro key _
      simp [probOf_cons]
    simp only [this]
    rw [sum_flatMap_range]
    have h2 : ∀ i, ((productIdx (rest.map List.length)).map (fun key => row.getD i 0 * probOf rest key)).sum =
        row.getD i 0 * (rest.map List.sum).prod := by
      intro i
      rw [sum_mul_left', ih]
    simp only [h2, List.map_map, Function.comp_def]
    rw [sum_mul_right']
    congr 1
    have := map_getD_range row
    conv_rhs => rw [← this]

theorem probOf_nonneg (rows : List (List Rat)) (hnn : NonnegRows rows) (key : List Nat) : 0 ≤ probOf rows key := by
  unfold probOf
  have hp : ∀ (l : List Rat), (∀ x ∈ l, 0 ≤ x) → 0 ≤ l.prod := by
    intro l
    induction l with
    | nil => intro _; simp
    | cons a l ih => intro h; simp only [List.prod_cons]; exact mul_nonneg (h a (by simp)) (ih (fun x hx => h x (List.mem_cons_of_mem _ hx)))
  apply hp
  intro x hx
  obtain ⟨rk, hrk, rfl⟩ := List.mem_map.1 hx
  have hr : rk.1 ∈ rows := (List.of_mem_zip hrk).1
  rw [List.getD_eq_getElem?_getD]
  cases hi : rk.1[rk.2]? with
  | none => simp
  | some y => exact hnn rk.1 hr y (List.mem_of_getElem? hi)

theorem filterMap_all_some {α β : Type} (f : α → Option β) (g : α → β) (h : ∀ x, f x = some (g x)) : ∀ l : List α, l.filterMap f = l.map g := by
  intro l
  induction l with
  | nil => rfl
  | cons a l ih => simp [List.filterMap_cons, h a, ih]

theorem cast_cnt (l : List (List Nat × Nat)) : ((cnt l : Nat) : Rat) = (l.map (fun sc => (sc.2 : Rat))).sum := by
  induction l with
  | nil => simp [cnt]
  | cons a l ih =>
    have : cnt (a :: l) = a.2 + cnt l := by simp [cnt]
    rw [this]; push_cast; rw [ih]; simp

theorem allExact_sum (rows : List (List Rat)) (n : Rat) (hsum : ∀ r ∈ rows, r.sum = 1) (hnn : NonnegRows rows) :
    ((allExact rows 0 n).map (·.w)).sum = n := by
  have h1 : allExact rows 0 n = (productIdx (rows.map List.length)).map (fun key => ({ key, w := n * probOf rows key, ty := .exact } : Weight)) := by
    unfold allExact
    apply filterMap_all_some
    intro key
    have : ¬ probOf rows key < 0 := not_lt.mpr (probOf_nonneg rows hnn key)
    simp [this]
  rw [h1, List.map_map]
  simp only [Function.comp_def]
  rw [sum_mul_left', sum_productIdx]
  have : (rows.map List.sum).prod = 1 := by
    apply List.prod_eq_one
    intro x hx
    obtain ⟨r, hr, rfl⟩ := List.mem_map.1 hx
    exact hsum r hr
  rw [this, mul_one]

/-- **C04, "the weights sum to N", all branches of `_generate_qpd_weights`** (cut-off 0, probability rows in any order, any budget
`N ≥ 1`, any draws in which every answer array has the requested size): whatever branch is taken — all weights exact, nothing left to
sample, a single leftover map, or a sampled tail through the recursive sampler — the returned weights add up to exactly `N`. -/
theorem generateWeights_total (rows : List (List Rat)) (n : Rat) (draws : Draws) (ws : List Weight)
    (hsum : ∀ r ∈ rows, r.sum = 1) (hnn : NonnegRows rows)
    (h : generateWeights rows (some n) 0 draws = .ok ws) (hok : samplerOK rows (some n) 0 draws = true) :
    (ws.map (·.w)).sum = n := by
  rw [generateWeights_some] at h
  rw [samplerOK_some] at hok
  split at h
  · cases h
  rename_i hc1
  rw [if_neg hc1] at hok
  split at h
  · injection h with h
    rw [← h]; exact allExact_sum rows n hsum hnn
  rename_i hc2
  rw [if_neg hc2] at hok
  have hM := mass_split rows n hsum
  simp only at hM
  generalize (if 1 / n ≤ (rows.map maxOf).prod then genUnsorted rows (1 / n) 0 else []) = ys at h hM hok
  unfold gwTail at h
  unfold gwOK at hok
  split at h
  · rename_i hc
    injection h with h
    simp only [Bool.and_eq_true, beq_iff_eq] at hc
    have : fullMass ys = 1 := by linarith [hM, hc.2]
    rw [← h, exactW_sum, this, mul_one]
  rename_i hc3
  rw [if_neg hc3] at hok
  split at h
  · cases h
  rename_i hneed
  rw [if_neg hneed] at hok
  have hneed' : 1 ≤ ceilRat (tailMass ys * n) := not_lt.mp hneed
  split at h
  · injection h with h
    rw [← h, List.map_append, List.sum_append, exactW_sum]
    simp only [List.map_cons, List.map_nil, List.sum_cons, List.sum_nil, add_zero]
    have : fullMass ys = 1 - tailMass ys := by linarith
    rw [this]; ring
  · injection h with h
    rename_i hsl
    rw [hsl] at hok
    simp only at hok
    have hp := (populate_count rows _ (rows.length + 1) [] _ draws hok).1
    rw [← h, List.map_append, List.sum_append, exactW_sum, List.map_map]
    simp only [Function.comp_def]
    rw [sum_mul_right']
    have hc : ((populate rows (normTop (tailMass ys) (condsOf ys)) (rows.length + 1) [] (ceilRat (tailMass ys * n)).toNat draws).1.map
        (fun sc => (sc.2 : Rat))).sum = ((ceilRat (tailMass ys * n)).toNat : Rat) := by
      rw [← cast_cnt, hp]
    rw [hc]
    have hz : (((ceilRat (tailMass ys * n)).toNat : Nat) : Rat) = ((ceilRat (tailMass ys * n) : Int) : Rat) := by
      have : ((ceilRat (tailMass ys * n)).toNat : Int) = ceilRat (tailMass ys * n) := Int.toNat_of_nonneg (by omega)
      exact_mod_cast this
    rw [hz]
    have hne : ((ceilRat (tailMass ys * n) : Int) : Rat) ≠ 0 := by
      have : (1 : Rat) ≤ ((ceilRat (tailMass ys * n) : Int) : Rat) := by exact_mod_cast hneed'
      linarith
    have : fullMass ys = 1 - tailMass ys := by linarith
    rw [this]
    generalize ((ceilRat (tailMass ys * n) : Int) : Rat) = c at hne ⊢
    have : c * (tailMass ys * n / c) = tailMass ys * n := by field_simp
    rw [this]; ring

/-- non-vacuity: an exact head and a sampled tail of three draws over three sampler calls; the oracle is well formed and the weights add up
to `N = 4`; with a call answered by too few draws the hypothesis fails (and a sample is lost) -/
example : let rows : List (List Rat) := [[1/2, 1/4, 1/4], [3/4, 1/4]]
    samplerOK rows (some 4) 0 [[1, 0, 1], [0, 1], [1]] = true ∧
    ((generateWeights rows (some 4) 0 [[1, 0, 1], [0, 1], [1]]).toOption.map fun ws => (ws.map (·.w)).sum) = some 4 ∧
    samplerOK rows (some 4) 0 [[1, 0, 1], [0, 1, 1]] = false := by
  decide +kernel

end CKT.C04
