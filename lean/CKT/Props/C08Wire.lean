import CKT.Props.C08Conv
/-!
# C08 — T08.4 with wire cuts: every width-feasible plan without useless cuts is a goal of the model's search tree

A *plan* chooses for every gate one of: apply, cut the gate, cut the wire of the first / second / both operands in front of it.
The specification replays only the wire bookkeeping (`wsAt`: a wire cut gives the qubit the next fresh wire), joins the two current
wires of every gate that is not gate-cut (`ConnP`), and calls the plan feasible when every class of wires has at most `W` members and
the number of wires stays within the budget.  A cut is *useless* when the plan's own subcircuits re-join what it separated
(`NoUseless`).  `plan_stepW`: for a feasible plan without useless cuts the model's action for the plan's choice is never refused;
`plan_reachableW`: the plan is a goal state of the tree with exactly its overhead; `optimize_min_over_plans`: with the flag theorem,
the reported minimum is at most the overhead of every such plan.
-/
namespace CKT.C08Wire
open CKT CKT.CF CKT.C07 CKT.C08 CKT.C08Link

inductive Choice | app | gcut | left | right | both
  deriving DecidableEq, Repr

/-- the wire bookkeeping: current wire of every qubit, number of wires allocated -/
structure WS where
  wm : List Nat
  nw : Nat

def WS.wire (ws : WS) (q : Nat) : Nat := ws.wm.getD q 0

def wsStep (ws : WS) (g : Gate) : Choice → WS
  | .app => ws
  | .gcut => ws
  | .left => { wm := ws.wm.set (g.qubits.getD 0 0) ws.nw, nw := ws.nw + 1 }
  | .right => { wm := ws.wm.set (g.qubits.getD 1 0) ws.nw, nw := ws.nw + 1 }
  | .both => { wm := (ws.wm.set (g.qubits.getD 0 0) ws.nw).set (g.qubits.getD 1 0) (ws.nw + 1), nw := ws.nw + 2 }

/-- the bookkeeping after the first `m` gates -/
def wsAt (gates : List Gate) (p : Nat → Choice) (n : Nat) : Nat → WS
  | 0 => { wm := List.range n, nw := n }
  | m + 1 => match gates[m]? with
    | some g => wsStep (wsAt gates p n m) g (p m)
    | none => wsAt gates p n m

/-- two wires lie in the same subcircuit of the plan: joined through gates that are not gate-cut (on the wires they act on) -/
def ConnP (gates : List Gate) (p : Nat → Choice) (n : Nat) : Nat → Nat → Prop :=
  Relation.EqvGen fun x y => ∃ i g, gates[i]? = some g ∧ p i ≠ .gcut ∧
    (wsAt gates p n (i + 1)).wire (g.qubits.getD 0 0) = x ∧ (wsAt gates p n (i + 1)).wire (g.qubits.getD 1 0) = y

def factor (g : Gate) : Choice → Rat
  | .app => 1
  | .gcut => g.gamma.getD 1
  | .left => 4
  | .right => 4
  | .both => 16

/-- overhead factor of the first `m` decisions -/
def costUpTo (gates : List Gate) (p : Nat → Choice) : Nat → Rat
  | 0 => 1
  | m + 1 => match gates[m]? with
    | some g => costUpTo gates p m * factor g (p m)
    | none => costUpTo gates p m

section
variable (gates : List Gate) (p : Nat → Choice) (n W K : Nat)

open Classical in
noncomputable def compSizeP (w : Nat) : Nat :=
  (List.range (wsAt gates p n gates.length).nw).countP fun w' => decide (ConnP gates p n w w')

/-- no cut of the plan is useless: what a cut separates is not re-joined by the plan's own subcircuits -/
structure NoUseless : Prop where
  gcut : ∀ i g, gates[i]? = some g → p i = .gcut →
    ¬ ConnP gates p n ((wsAt gates p n i).wire (g.qubits.getD 0 0)) ((wsAt gates p n i).wire (g.qubits.getD 1 0))
  left : ∀ i g, gates[i]? = some g → p i = .left →
    ¬ ConnP gates p n ((wsAt gates p n i).wire (g.qubits.getD 0 0)) ((wsAt gates p n i).wire (g.qubits.getD 1 0))
  right : ∀ i g, gates[i]? = some g → p i = .right →
    ¬ ConnP gates p n ((wsAt gates p n i).wire (g.qubits.getD 0 0)) ((wsAt gates p n i).wire (g.qubits.getD 1 0))
  both1 : ∀ i g, gates[i]? = some g → p i = .both →
    ¬ ConnP gates p n ((wsAt gates p n i).wire (g.qubits.getD 0 0)) ((wsAt gates p n (i + 1)).wire (g.qubits.getD 0 0))
  both2 : ∀ i g, gates[i]? = some g → p i = .both →
    ¬ ConnP gates p n ((wsAt gates p n i).wire (g.qubits.getD 1 0)) ((wsAt gates p n (i + 1)).wire (g.qubits.getD 1 0))

structure CircOKW : Prop where
  two : ∀ g ∈ gates, g.qubits.length = 2
  lt : ∀ g ∈ gates, g.qubits.getD 0 0 < n ∧ g.qubits.getD 1 0 < n
  ne : ∀ g ∈ gates, g.qubits.getD 0 0 ≠ g.qubits.getD 1 0
  gam : ∀ g ∈ gates, g.gamma.isSome = true

structure PlanOKW : Prop where
  circ : CircOKW gates n
  nou : NoUseless gates p n
  feasible : ∀ w, w < (wsAt gates p n gates.length).nw → compSizeP gates p n w ≤ W
  budget : (wsAt gates p n gates.length).nw ≤ n + K

end

/-! ### the bookkeeping -/

theorem wsStep_nw_le (ws : WS) (g : Gate) (c : Choice) : ws.nw ≤ (wsStep ws g c).nw := by
  cases c <;> simp [wsStep]

theorem wsAt_nw_mono (gates : List Gate) (p : Nat → Choice) (n : Nat) : ∀ m k, m ≤ k → (wsAt gates p n m).nw ≤ (wsAt gates p n k).nw := by
  intro m k h
  induction k with
  | zero => have : m = 0 := by omega
            subst this; exact le_refl _
  | succ k ih =>
    by_cases hm : m = k + 1
    · subst hm; exact le_refl _
    · have := ih (by omega)
      refine le_trans this ?_
      simp only [wsAt]
      cases gates[k]? with
      | none => exact le_refl _
      | some g => exact wsStep_nw_le _ g _

theorem wsAt_len (gates : List Gate) (p : Nat → Choice) (n : Nat) : ∀ m, (wsAt gates p n m).wm.length = n
  | 0 => by simp [wsAt]
  | m + 1 => by
    simp only [wsAt]
    cases gates[m]? with
    | none => exact wsAt_len gates p n m
    | some g => cases p m <;> simp [wsStep, wsAt_len gates p n m]

/-- every current wire is allocated -/
theorem wsAt_wire_lt (gates : List Gate) (p : Nat → Choice) (n : Nat) : ∀ m q, q < n → (wsAt gates p n m).wire q < (wsAt gates p n m).nw
  | 0, q, hq => by simp [wsAt, WS.wire, List.getD_eq_getElem?_getD, List.getElem?_range hq, hq]
  | m + 1, q, hq => by
    have ih := wsAt_wire_lt gates p n m q hq
    have hl := wsAt_len gates p n m
    simp only [wsAt]
    cases gates[m]? with
    | none => exact ih
    | some g =>
      simp only [WS.wire] at ih ⊢
      cases p m <;> simp only [wsStep, getD_set] <;> (try exact ih) <;> (repeat' split) <;> omega

theorem ws_succ (gates : List Gate) (p : Nat → Choice) (n m : Nat) (g : Gate) (hg : gates[m]? = some g) :
    wsAt gates p n (m + 1) = wsStep (wsAt gates p n m) g (p m) := by
  simp [wsAt, hg]

theorem wire_set_same (wm : List Nat) (q v : Nat) (hq : q < wm.length) : (wm.set q v).getD q 0 = v := by
  rw [getD_set]; simp [hq]

theorem wire_set_other (wm : List Nat) (q q' v : Nat) (hne : q ≠ q') : (wm.set q v).getD q' 0 = wm.getD q' 0 := by
  rw [getD_set]; simp [hne]

/-! ### connectivity -/

section
variable {gates : List Gate} {p : Nat → Choice} {n : Nat}

theorem connP_refl (x : Nat) : ConnP gates p n x x := Relation.EqvGen.refl x
theorem connP_symm {x y : Nat} (h : ConnP gates p n x y) : ConnP gates p n y x := Relation.EqvGen.symm _ _ h
theorem connP_trans {x y z : Nat} (h1 : ConnP gates p n x y) (h2 : ConnP gates p n y z) : ConnP gates p n x z :=
  Relation.EqvGen.trans _ _ _ h1 h2

/-- the edge of a gate that is not gate-cut -/
theorem connP_edge (i : Nat) (g : Gate) (hg : gates[i]? = some g) (hne : p i ≠ .gcut) :
    ConnP gates p n ((wsAt gates p n (i + 1)).wire (g.qubits.getD 0 0)) ((wsAt gates p n (i + 1)).wire (g.qubits.getD 1 0)) :=
  Relation.EqvGen.rel _ _ ⟨i, g, hg, hne, rfl, rfl⟩

end

/-- merging two roots that the relation `R` joins keeps "same root ⇒ related" -/
theorem merge_same (R : Nat → Nat → Prop) (hr : ∀ x, R x x) (hs : ∀ x y, R x y → R y x) (ht : ∀ x y z, R x y → R y z → R x z)
    (root : List Nat) (mw nw : Nat) (nm : List (Nat × Nat)) (hi : Inv2' root mw nw nm) (a b : Nat) (hlt : max a b < nw) (hab : R a b)
    (hsame : ∀ w1 w2, w1 < nw → w2 < nw → rootL root w1 = rootL root w2 → R w1 w2) :
    ∀ w1 w2, w1 < nw → w2 < nw →
      rootL (root.map fun r => if r = max a b then min a b else r) w1 = rootL (root.map fun r => if r = max a b then min a b else r) w2 →
      R w1 w2 := by
  intro w1 w2 hw1 hw2 heq
  rw [rootL_merge root mw nw nm hi a b w1 hlt, rootL_merge root mw nw nm hi a b w2 hlt] at heq
  have toroot : ∀ w, w < nw → R w (rootL root w) := fun w hw =>
    hsame w (rootL root w) hw (lt_of_le_of_lt (hi.root_le w) hw) (hi.root_idem w).symm
  have hmm : R (max a b) (min a b) := by
    rcases le_total a b with h | h
    · rw [max_eq_right h, min_eq_left h]; exact hs _ _ hab
    · rw [max_eq_left h, min_eq_right h]; exact hab
  have t1 := toroot w1 hw1
  have t2 := toroot w2 hw2
  by_cases c1 : rootL root w1 = max a b <;> by_cases c2 : rootL root w2 = max a b
  · exact ht _ _ _ t1 (by rw [c1, ← c2]; exact hs _ _ t2)
  · simp only [c1, c2, if_true, if_false] at heq
    exact ht _ _ _ t1 (by rw [c1]; exact ht _ _ _ hmm (by rw [heq]; exact hs _ _ t2))
  · simp only [c1, c2, if_true, if_false] at heq
    exact ht _ _ _ t1 (by rw [heq]; exact ht _ _ _ (hs _ _ hmm) (by rw [← c2]; exact hs _ _ t2))
  · simp only [c1, c2, if_false] at heq
    exact ht _ _ _ t1 (by rw [heq]; exact hs _ _ t2)

/-- allocating fresh wires keeps "same root ⇒ related": a fresh wire is alone in its class -/
theorem fresh_same (R : Nat → Nat → Prop) (hr : ∀ x, R x x)
    (root : List Nat) (mw nw : Nat) (nm : List (Nat × Nat)) (hi : Inv2' root mw nw nm) (k : Nat)
    (hsame : ∀ w1 w2, w1 < nw → w2 < nw → rootL root w1 = rootL root w2 → R w1 w2) :
    ∀ w1 w2, w1 < nw + k → w2 < nw + k → rootL root w1 = rootL root w2 → R w1 w2 := by
  intro w1 w2 _ _ heq
  by_cases h1 : w1 < nw <;> by_cases h2 : w2 < nw
  · exact hsame w1 w2 h1 h2 heq
  · have e2 := hi.fresh_root w2 (by omega)
    have := hi.root_le w1
    rw [heq, e2] at this
    omega
  · have e1 := hi.fresh_root w1 (by omega)
    have := hi.root_le w2
    rw [← heq, e1] at this
    omega
  · have e1 := hi.fresh_root w1 (by omega)
    have e2 := hi.fresh_root w2 (by omega)
    rw [e1, e2] at heq
    subst heq
    exact hr _

/-! ### counting -/

theorem countP_range_le (P : Nat → Bool) (a b : Nat) (h : a ≤ b) : (List.range a).countP P ≤ (List.range b).countP P :=
  List.Sublist.countP_le (List.range_sublist.2 h)

theorem countP_range_succ (P : Nat → Bool) (a : Nat) : (List.range (a + 1)).countP P = (List.range a).countP P + (if P a then 1 else 0) := by
  rw [List.range_succ, List.countP_append]
  simp [List.countP_cons]

/-! ### the link between a model state and the plan prefix of its level -/

structure LinkCore (gates : List Gate) (p : Nat → Choice) (n K : Nat) (s : St) : Prop where
  wm : s.wiremap = (wsAt gates p n s.level).wm
  nw : s.numWires = (wsAt gates p n s.level).nw
  mw : s.maxWires = n + K
  same : ∀ w1 w2, w1 < s.numWires → w2 < s.numWires → rootL s.root w1 = rootL s.root w2 → ConnP gates p n w1 w2
  sepC : ∀ c ∈ s.noMerge, ¬ ConnP gates p n c.1 c.2

structure LinkW (gates : List Gate) (p : Nat → Choice) (n W K : Nat) (s : St) : Prop extends LinkCore gates p n K s where
  inv : Inv W n s
  inv2 : Inv2 s
  cnt : CntS s

section
variable {gates : List Gate} {p : Nat → Choice} {n W K : Nat}

theorem LinkW.wire_eq (s : St) (hl : LinkW gates p n W K s) (q : Nat) : s.wire q = (wsAt gates p n s.level).wire q := by
  simp [St.wire, WS.wire, hl.wm]

theorem LinkW.wire_lt (s : St) (hl : LinkW gates p n W K s) (q : Nat) (hq : q < n) : s.wire q < s.numWires := by
  rw [hl.wire_eq s q, hl.nw]; exact wsAt_wire_lt gates p n s.level q hq

theorem LinkW.qroot_eq (s : St) (q : Nat) : s.qroot q = rootL s.root (s.wire q) := rfl

theorem LinkW.to_root (s : St) (hl : LinkW gates p n W K s) (w : Nat) (hw : w < s.numWires) : ConnP gates p n w (rootL s.root w) :=
  hl.same w (rootL s.root w) hw (lt_of_le_of_lt (hl.inv2.root_le w) hw) (hl.inv2.root_idem w).symm

theorem LinkW.root_lt (s : St) (hl : LinkW gates p n W K s) (w : Nat) (hw : w < s.numWires) : rootL s.root w < s.numWires :=
  lt_of_le_of_lt (hl.inv2.root_le w) hw

/-- the recorded width of a class is at most the size of the plan's subcircuit of any wire `u` joined to it -/
theorem LinkW.width_le_comp (s : St) (hl : LinkW gates p n W K s) (hlev : s.level ≤ gates.length) (w u : Nat) (hw : w < s.numWires)
    (hu : ConnP gates p n u w) : s.widthOf (rootL s.root w) ≤ compSizeP gates p n u := by
  have e := hl.cnt.size _ (hl.root_lt s w hw) (hl.inv2.root_idem w)
  simp only [St.widthOf, e, classSize]
  unfold compSizeP
  refine le_trans ?_ (countP_range_le _ s.numWires _ (by rw [hl.nw]; exact wsAt_nw_mono gates p n _ _ hlev))
  apply List.countP_mono_left
  intro x hx hroot
  have hxn : x < s.numWires := List.mem_range.1 hx
  simp only [decide_eq_true_eq] at hroot ⊢
  exact connP_trans hu (hl.same w x hw hxn hroot.symm)

end

/-! ### one step of the plan -/

section
variable {gates : List Gate} {p : Nat → Choice} {n W K : Nat}

theorem level_lt (s : St) (g : Gate) (hg : gates[s.level]? = some g) : s.level < gates.length := by
  by_contra h
  rw [List.getElem?_eq_none (not_lt.mp h)] at hg
  cases hg

theorem PlanOKW.comp_le (hp : PlanOKW gates p n W K) (s : St) (hl : LinkW gates p n W K s) (hlev : s.level ≤ gates.length)
    (w : Nat) (hw : w < s.numWires) : compSizeP gates p n w ≤ W :=
  hp.feasible w (lt_of_lt_of_le hw (by rw [hl.nw]; exact wsAt_nw_mono gates p n _ _ hlev))

open Classical in
theorem step_app (hp : PlanOKW gates p n W K) (s : St) (g : Gate) (hg : gates[s.level]? = some g) (hc : p s.level = .app)
    (hl : LinkW gates p n W K s) :
    applyGate s g W = some (appSt s g) ∧ LinkCore gates p n K (appSt s g) ∧ (appSt s g).level = s.level + 1 ∧
      (appSt s g).gammaUB = s.gammaUB * factor g (p s.level) := by
  have hmem : g ∈ gates := List.mem_of_getElem? hg
  obtain ⟨hq1, hq2⟩ := hp.circ.lt g hmem
  have hlev := level_lt s g hg
  have hws : wsAt gates p n (s.level + 1) = wsAt gates p n s.level := by rw [ws_succ gates p n s.level g hg, hc]; rfl
  have ho1 := hl.wire_lt s _ hq1
  have ho2 := hl.wire_lt s _ hq2
  have hconn : ConnP gates p n (s.wire (g.qubits.getD 0 0)) (s.wire (g.qubits.getD 1 0)) := by
    have := connP_edge (gates := gates) (p := p) (n := n) s.level g hg (by rw [hc]; decide)
    rw [hws, ← hl.wire_eq, ← hl.wire_eq] at this
    exact this
  have t1 := hl.to_root s _ ho1
  have t2 := hl.to_root s _ ho2
  have hr12 : ConnP gates p n (s.qroot (g.qubits.getD 0 0)) (s.qroot (g.qubits.getD 1 0)) :=
    connP_trans (connP_symm t1) (connP_trans hconn t2)
  have hnotforb : s.forbidden (s.qroot (g.qubits.getD 0 0)) (s.qroot (g.qubits.getD 1 0)) = false := by
    rw [forbidden_false_iff]
    intro c hcm hor
    have hclt := hl.inv2.clause_lt c hcm
    apply hl.sepC c hcm
    have tc1 := hl.to_root s c.1 hclt.1
    have tc2 := hl.to_root s c.2 hclt.2
    rcases hor with ⟨h1, h2⟩ | ⟨h1, h2⟩
    · rw [h1] at tc1; rw [h2] at tc2
      exact connP_trans tc1 (connP_trans hr12 (connP_symm tc2))
    · rw [h1] at tc1; rw [h2] at tc2
      exact connP_trans tc1 (connP_trans (connP_symm hr12) (connP_symm tc2))
  have hwidth : s.qroot (g.qubits.getD 0 0) ≠ s.qroot (g.qubits.getD 1 0) →
      s.widthOf (s.qroot (g.qubits.getD 0 0)) + s.widthOf (s.qroot (g.qubits.getD 1 0)) ≤ W := by
    intro hne
    have e1 := hl.cnt.size _ (hl.root_lt s _ ho1) (hl.inv2.root_idem _)
    have e2 := hl.cnt.size _ (hl.root_lt s _ ho2) (hl.inv2.root_idem _)
    simp only [St.widthOf, LinkW.qroot_eq, e1, e2, classSize]
    rw [← countP_or_disjoint (List.range s.numWires) (fun w => decide (rootL s.root w = rootL s.root (s.wire (g.qubits.getD 0 0))))
      (fun w => decide (rootL s.root w = rootL s.root (s.wire (g.qubits.getD 1 0))))
      (by intro x hx; simp only [decide_eq_true_eq] at hx; exact hne (hx.1.symm.trans hx.2))]
    refine le_trans ?_ (hp.comp_le s hl (le_of_lt hlev) _ ho1)
    unfold compSizeP
    refine le_trans ?_ (countP_range_le _ s.numWires _ (by rw [hl.nw]; exact wsAt_nw_mono gates p n _ _ (le_of_lt hlev)))
    apply List.countP_mono_left
    intro w hw hor
    have hwn : w < s.numWires := List.mem_range.1 hw
    simp only [Bool.or_eq_true, decide_eq_true_eq] at hor ⊢
    rcases hor with h | h
    · exact hl.same _ w ho1 hwn h.symm
    · exact connP_trans hconn (hl.same _ w ho2 hwn h.symm)
  have happ : applyGate s g W = some (appSt s g) := by
    unfold applyGate
    have h1 : ¬ (s.qroot (g.qubits.getD 0 0) ≠ s.qroot (g.qubits.getD 1 0) ∧
        s.widthOf (s.qroot (g.qubits.getD 0 0)) + s.widthOf (s.qroot (g.qubits.getD 1 0)) > W) := by
      intro ⟨hne, hgt⟩
      have := hwidth hne
      omega
    unfold appSt
    simp only [if_neg h1, hnotforb, Bool.false_eq_true, if_false]
  refine ⟨happ, ?_, ?_, ?_⟩
  · by_cases hne : s.qroot (g.qubits.getD 0 0) ≠ s.qroot (g.qubits.getD 1 0)
    · rw [appSt_ne s g hne]
      refine ⟨?_, ?_, hl.mw, ?_, hl.sepC⟩
      · show s.wiremap = (wsAt gates p n (s.level + 1)).wm
        rw [hws]; exact hl.wm
      · show s.numWires = (wsAt gates p n (s.level + 1)).nw
        rw [hws]; exact hl.nw
      · have hmax : max (s.qroot (g.qubits.getD 0 0)) (s.qroot (g.qubits.getD 1 0)) < s.numWires :=
          max_lt (hl.root_lt s _ ho1) (hl.root_lt s _ ho2)
        exact merge_same (ConnP gates p n) connP_refl (fun _ _ => connP_symm) (fun _ _ _ => connP_trans) s.root s.maxWires s.numWires s.noMerge
          hl.inv2 _ _ hmax hr12 hl.same
    · rw [appSt_eq s g hne]
      refine ⟨?_, ?_, hl.mw, hl.same, hl.sepC⟩
      · show s.wiremap = (wsAt gates p n (s.level + 1)).wm
        rw [hws]; exact hl.wm
      · show s.numWires = (wsAt gates p n (s.level + 1)).nw
        rw [hws]; exact hl.nw
  · by_cases hne : s.qroot (g.qubits.getD 0 0) ≠ s.qroot (g.qubits.getD 1 0)
    · rw [appSt_ne s g hne]
    · rw [appSt_eq s g hne]
  · by_cases hne : s.qroot (g.qubits.getD 0 0) ≠ s.qroot (g.qubits.getD 1 0)
    · rw [appSt_ne s g hne]; simp [hc, factor, St.merge]
    · rw [appSt_eq s g hne]; simp [hc, factor]

theorem step_gcut (hp : PlanOKW gates p n W K) (s : St) (g : Gate) (hg : gates[s.level]? = some g) (hc : p s.level = .gcut)
    (hl : LinkW gates p n W K s) :
    ∃ γ, g.gamma = some γ ∧ cutGate s g W = some (cutSt s g γ) ∧ LinkCore gates p n K (cutSt s g γ) ∧ (cutSt s g γ).level = s.level + 1 ∧
      (cutSt s g γ).gammaUB = s.gammaUB * factor g (p s.level) := by
  have hmem : g ∈ gates := List.mem_of_getElem? hg
  obtain ⟨hq1, hq2⟩ := hp.circ.lt g hmem
  have hws : wsAt gates p n (s.level + 1) = wsAt gates p n s.level := by rw [ws_succ gates p n s.level g hg, hc]; rfl
  have ho1 := hl.wire_lt s _ hq1
  have ho2 := hl.wire_lt s _ hq2
  obtain ⟨γ, hγ⟩ := Option.isSome_iff_exists.1 (hp.circ.gam g hmem)
  have hnu : ¬ ConnP gates p n (s.wire (g.qubits.getD 0 0)) (s.wire (g.qubits.getD 1 0)) := by
    have := hp.nou.gcut s.level g hg hc
    rw [← hl.wire_eq, ← hl.wire_eq] at this
    exact this
  have hne : ¬ s.qroot (g.qubits.getD 0 0) = s.qroot (g.qubits.getD 1 0) := by
    intro e
    exact hnu (hl.same _ _ ho1 ho2 e)
  have hcut : cutGate s g W = some (cutSt s g γ) := by
    unfold cutGate
    simp only [hγ]
    rw [if_neg hne]; rfl
  refine ⟨γ, hγ, hcut, ⟨?_, ?_, hl.mw, hl.same, ?_⟩, rfl, ?_⟩
  · show s.wiremap = (wsAt gates p n (s.level + 1)).wm
    rw [hws]; exact hl.wm
  · show s.numWires = (wsAt gates p n (s.level + 1)).nw
    rw [hws]; exact hl.nw
  · intro c hcm
    have hcm : c ∈ s.noMerge ++ [(s.qroot (g.qubits.getD 0 0), s.qroot (g.qubits.getD 1 0))] := hcm
    simp only [List.mem_append, List.mem_singleton] at hcm
    rcases hcm with hcm | rfl
    · exact hl.sepC c hcm
    · intro hcon
      exact hnu (connP_trans (hl.to_root s _ ho1) (connP_trans hcon (connP_symm (hl.to_root s _ ho2))))
  · simp [hc, factor, hγ, cutSt]

end

/-! ### the wire-cut actions -/

def leftSt (s : St) (g : Gate) : St :=
  let s1 := (s.newWire (g.qubits.getD 0 0)).1
  let s2 := s1.merge s.numWires (s.qroot (g.qubits.getD 1 0))
  { s2 with noMerge := s2.noMerge ++ [(s.qroot (g.qubits.getD 0 0), s.qroot (g.qubits.getD 1 0))], gammaUB := s2.gammaUB * 4,
            actions := s2.actions ++ [⟨.left, g.idx, [(1, s.wire (g.qubits.getD 0 0), s.numWires)]⟩], level := s.level + 1 }

def rightSt (s : St) (g : Gate) : St :=
  let s1 := (s.newWire (g.qubits.getD 1 0)).1
  let s2 := s1.merge (s.qroot (g.qubits.getD 0 0)) s.numWires
  { s2 with noMerge := s2.noMerge ++ [(s.qroot (g.qubits.getD 0 0), s.qroot (g.qubits.getD 1 0))], gammaUB := s2.gammaUB * 4,
            actions := s2.actions ++ [⟨.right, g.idx, [(2, s.wire (g.qubits.getD 1 0), s.numWires)]⟩], level := s.level + 1 }

def bothSt (s : St) (g : Gate) : St :=
  let s1 := (s.newWire (g.qubits.getD 0 0)).1
  let s2 := (s1.newWire (g.qubits.getD 1 0)).1
  let s3 := s2.merge s.numWires (s.numWires + 1)
  { s3 with noMerge := s3.noMerge ++ [(s.qroot (g.qubits.getD 0 0), s.numWires), (s.qroot (g.qubits.getD 1 0), s.numWires + 1)],
            gammaUB := s3.gammaUB * 16,
            actions := s3.actions ++ [⟨.both, g.idx, [(1, s.wire (g.qubits.getD 0 0), s.numWires), (2, s.wire (g.qubits.getD 1 0), s.numWires + 1)]⟩],
            level := s.level + 1 }

theorem cutLeft_eq (s : St) (g : Gate) (W : Nat) (h1 : s.numWires + 1 ≤ s.maxWires)
    (h2 : s.qroot (g.qubits.getD 0 0) ≠ s.qroot (g.qubits.getD 1 0)) (h3 : s.widthOf (s.qroot (g.qubits.getD 1 0)) + 1 ≤ W) :
    cutLeft s g W = some (leftSt s g) := by
  unfold cutLeft
  have c1 : s.canAddWires 1 = true := by simp [St.canAddWires, h1]
  simp only [c1, Bool.not_true, Bool.false_eq_true, if_false, if_neg h2, decide_eq_true h3]
  rfl

theorem cutRight_eq (s : St) (g : Gate) (W : Nat) (h1 : s.numWires + 1 ≤ s.maxWires)
    (h2 : s.qroot (g.qubits.getD 0 0) ≠ s.qroot (g.qubits.getD 1 0)) (h3 : s.widthOf (s.qroot (g.qubits.getD 0 0)) + 1 ≤ W) :
    cutRight s g W = some (rightSt s g) := by
  unfold cutRight
  have c1 : s.canAddWires 1 = true := by simp [St.canAddWires, h1]
  simp only [c1, Bool.not_true, Bool.false_eq_true, if_false, if_neg h2, decide_eq_true h3]
  rfl

theorem cutBoth_eq (s : St) (g : Gate) (W : Nat) (h1 : s.numWires + 2 ≤ s.maxWires) (h2 : 2 ≤ W) :
    cutBoth s g W = some (bothSt s g) := by
  unfold cutBoth
  have c1 : s.canAddWires 2 = true := by simp [St.canAddWires, h1]
  have c2 : ¬ W < 2 := by omega
  simp only [c1, Bool.not_true, Bool.false_eq_true, if_false, if_neg c2]
  rfl

section
variable {gates : List Gate} {p : Nat → Choice} {n W K : Nat}

open Classical in
/-- a class joined to the fresh wire `s.numWires`: its width plus one is at most the size of the fresh wire's subcircuit -/
theorem LinkW.width_succ_le_comp (s : St) (hl : LinkW gates p n W K s) (w : Nat) (hw : w < s.numWires)
    (hfin : s.numWires + 1 ≤ (wsAt gates p n gates.length).nw) (hu : ConnP gates p n s.numWires w) :
    s.widthOf (rootL s.root w) + 1 ≤ compSizeP gates p n s.numWires := by
  have e := hl.cnt.size _ (hl.root_lt s w hw) (hl.inv2.root_idem w)
  simp only [St.widthOf, e, classSize]
  unfold compSizeP
  refine le_trans ?_ (countP_range_le _ (s.numWires + 1) _ hfin)
  rw [countP_range_succ]
  have h1 : (List.range s.numWires).countP (fun x => decide (rootL s.root x = rootL s.root w)) ≤
      (List.range s.numWires).countP (fun w' => decide (ConnP gates p n s.numWires w')) := by
    apply List.countP_mono_left
    intro x hx hroot
    have hxn : x < s.numWires := List.mem_range.1 hx
    simp only [decide_eq_true_eq] at hroot ⊢
    exact connP_trans hu (hl.same w x hw hxn hroot.symm)
  have h2 : (if decide (ConnP gates p n s.numWires s.numWires) = true then 1 else 0) = 1 := by
    simp [connP_refl]
  omega

theorem step_left (hp : PlanOKW gates p n W K) (s : St) (g : Gate) (hg : gates[s.level]? = some g) (hc : p s.level = .left)
    (hl : LinkW gates p n W K s) :
    cutLeft s g W = some (leftSt s g) ∧ LinkCore gates p n K (leftSt s g) ∧ (leftSt s g).level = s.level + 1 ∧
      (leftSt s g).gammaUB = s.gammaUB * factor g (p s.level) := by
  have hmem : g ∈ gates := List.mem_of_getElem? hg
  obtain ⟨hq1, hq2⟩ := hp.circ.lt g hmem
  have hq12 := hp.circ.ne g hmem
  have hlev := level_lt s g hg
  have hws : wsAt gates p n (s.level + 1) = wsStep (wsAt gates p n s.level) g .left := by rw [ws_succ gates p n s.level g hg, hc]
  have hlen := wsAt_len gates p n s.level
  have ho1 := hl.wire_lt s _ hq1
  have ho2 := hl.wire_lt s _ hq2
  have hnw1 : (wsAt gates p n (s.level + 1)).nw = s.numWires + 1 := by rw [hws, hl.nw]; rfl
  have hfin : s.numWires + 1 ≤ (wsAt gates p n gates.length).nw := by
    rw [← hnw1]; exact wsAt_nw_mono gates p n _ _ hlev
  have hw1 : (wsAt gates p n (s.level + 1)).wire (g.qubits.getD 0 0) = s.numWires := by
    rw [hws, hl.nw]; exact wire_set_same _ _ _ (by rw [hlen]; exact hq1)
  have hw2 : (wsAt gates p n (s.level + 1)).wire (g.qubits.getD 1 0) = s.wire (g.qubits.getD 1 0) := by
    rw [hws, hl.wire_eq]; exact wire_set_other _ _ _ _ hq12
  have hedge : ConnP gates p n s.numWires (s.wire (g.qubits.getD 1 0)) := by
    have := connP_edge (gates := gates) (p := p) (n := n) s.level g hg (by rw [hc]; decide)
    rw [hw1, hw2] at this
    exact this
  have hnu : ¬ ConnP gates p n (s.wire (g.qubits.getD 0 0)) (s.wire (g.qubits.getD 1 0)) := by
    have := hp.nou.left s.level g hg hc
    rw [← hl.wire_eq, ← hl.wire_eq] at this
    exact this
  have hne : s.qroot (g.qubits.getD 0 0) ≠ s.qroot (g.qubits.getD 1 0) := fun e => hnu (hl.same _ _ ho1 ho2 e)
  have t1 := hl.to_root s _ ho1
  have t2 := hl.to_root s _ ho2
  have hcap : s.numWires + 1 ≤ s.maxWires := by rw [hl.mw]; exact le_trans hfin hp.budget
  have hwidth : s.widthOf (s.qroot (g.qubits.getD 1 0)) + 1 ≤ W :=
    le_trans (hl.width_succ_le_comp s _ ho2 hfin hedge) (hp.feasible _ (by omega))
  refine ⟨cutLeft_eq s g W hcap hne hwidth, ⟨?_, ?_, hl.mw, ?_, ?_⟩, rfl, ?_⟩
  · show s.wiremap.set (g.qubits.getD 0 0) s.numWires = (wsAt gates p n (s.level + 1)).wm
    rw [hws, hl.wm, hl.nw]; rfl
  · show s.numWires + 1 = (wsAt gates p n (s.level + 1)).nw
    rw [hnw1]
  · have hi2 := newWire_inv2' s.root s.maxWires s.numWires s.noMerge hl.inv2 hcap
    exact merge_same (ConnP gates p n) connP_refl (fun _ _ => connP_symm) (fun _ _ _ => connP_trans) s.root s.maxWires (s.numWires + 1) s.noMerge
      hi2 s.numWires (s.qroot (g.qubits.getD 1 0)) (max_lt (by omega) (by have := hl.root_lt s _ ho2; simp only [LinkW.qroot_eq]; omega))
      (connP_trans hedge t2)
      (fresh_same (ConnP gates p n) connP_refl s.root s.maxWires s.numWires s.noMerge hl.inv2 1 hl.same)
  · intro c hcm
    have hcm : c ∈ s.noMerge ++ [(s.qroot (g.qubits.getD 0 0), s.qroot (g.qubits.getD 1 0))] := hcm
    simp only [List.mem_append, List.mem_singleton] at hcm
    rcases hcm with hcm | rfl
    · exact hl.sepC c hcm
    · intro hcon
      exact hnu (connP_trans t1 (connP_trans hcon (connP_symm t2)))
  · show s.gammaUB * 4 = _
    simp [hc, factor]

theorem step_right (hp : PlanOKW gates p n W K) (s : St) (g : Gate) (hg : gates[s.level]? = some g) (hc : p s.level = .right)
    (hl : LinkW gates p n W K s) :
    cutRight s g W = some (rightSt s g) ∧ LinkCore gates p n K (rightSt s g) ∧ (rightSt s g).level = s.level + 1 ∧
      (rightSt s g).gammaUB = s.gammaUB * factor g (p s.level) := by
  have hmem : g ∈ gates := List.mem_of_getElem? hg
  obtain ⟨hq1, hq2⟩ := hp.circ.lt g hmem
  have hq12 := hp.circ.ne g hmem
  have hlev := level_lt s g hg
  have hws : wsAt gates p n (s.level + 1) = wsStep (wsAt gates p n s.level) g .right := by rw [ws_succ gates p n s.level g hg, hc]
  have hlen := wsAt_len gates p n s.level
  have ho1 := hl.wire_lt s _ hq1
  have ho2 := hl.wire_lt s _ hq2
  have hnw1 : (wsAt gates p n (s.level + 1)).nw = s.numWires + 1 := by rw [hws, hl.nw]; rfl
  have hfin : s.numWires + 1 ≤ (wsAt gates p n gates.length).nw := by
    rw [← hnw1]; exact wsAt_nw_mono gates p n _ _ hlev
  have hw2 : (wsAt gates p n (s.level + 1)).wire (g.qubits.getD 1 0) = s.numWires := by
    rw [hws, hl.nw]; exact wire_set_same _ _ _ (by rw [hlen]; exact hq2)
  have hw1 : (wsAt gates p n (s.level + 1)).wire (g.qubits.getD 0 0) = s.wire (g.qubits.getD 0 0) := by
    rw [hws, hl.wire_eq]; exact wire_set_other _ _ _ _ (fun e => hq12 e.symm)
  have hedge : ConnP gates p n (s.wire (g.qubits.getD 0 0)) s.numWires := by
    have := connP_edge (gates := gates) (p := p) (n := n) s.level g hg (by rw [hc]; decide)
    rw [hw1, hw2] at this
    exact this
  have hnu : ¬ ConnP gates p n (s.wire (g.qubits.getD 0 0)) (s.wire (g.qubits.getD 1 0)) := by
    have := hp.nou.right s.level g hg hc
    rw [← hl.wire_eq, ← hl.wire_eq] at this
    exact this
  have hne : s.qroot (g.qubits.getD 0 0) ≠ s.qroot (g.qubits.getD 1 0) := fun e => hnu (hl.same _ _ ho1 ho2 e)
  have t1 := hl.to_root s _ ho1
  have t2 := hl.to_root s _ ho2
  have hcap : s.numWires + 1 ≤ s.maxWires := by rw [hl.mw]; exact le_trans hfin hp.budget
  have hwidth : s.widthOf (s.qroot (g.qubits.getD 0 0)) + 1 ≤ W :=
    le_trans (hl.width_succ_le_comp s _ ho1 hfin (connP_symm hedge)) (hp.feasible _ (by omega))
  refine ⟨cutRight_eq s g W hcap hne hwidth, ⟨?_, ?_, hl.mw, ?_, ?_⟩, rfl, ?_⟩
  · show s.wiremap.set (g.qubits.getD 1 0) s.numWires = (wsAt gates p n (s.level + 1)).wm
    rw [hws, hl.wm, hl.nw]; rfl
  · show s.numWires + 1 = (wsAt gates p n (s.level + 1)).nw
    rw [hnw1]
  · have hi2 := newWire_inv2' s.root s.maxWires s.numWires s.noMerge hl.inv2 hcap
    exact merge_same (ConnP gates p n) connP_refl (fun _ _ => connP_symm) (fun _ _ _ => connP_trans) s.root s.maxWires (s.numWires + 1) s.noMerge
      hi2 (s.qroot (g.qubits.getD 0 0)) s.numWires (max_lt (by have := hl.root_lt s _ ho1; simp only [LinkW.qroot_eq]; omega) (by omega))
      (connP_trans (connP_symm t1) hedge)
      (fresh_same (ConnP gates p n) connP_refl s.root s.maxWires s.numWires s.noMerge hl.inv2 1 hl.same)
  · intro c hcm
    have hcm : c ∈ s.noMerge ++ [(s.qroot (g.qubits.getD 0 0), s.qroot (g.qubits.getD 1 0))] := hcm
    simp only [List.mem_append, List.mem_singleton] at hcm
    rcases hcm with hcm | rfl
    · exact hl.sepC c hcm
    · intro hcon
      exact hnu (connP_trans t1 (connP_trans hcon (connP_symm t2)))
  · show s.gammaUB * 4 = _
    simp [hc, factor]

end

section
variable {gates : List Gate} {p : Nat → Choice} {n W K : Nat}

open Classical in
theorem step_both (hp : PlanOKW gates p n W K) (s : St) (g : Gate) (hg : gates[s.level]? = some g) (hc : p s.level = .both)
    (hl : LinkW gates p n W K s) :
    cutBoth s g W = some (bothSt s g) ∧ LinkCore gates p n K (bothSt s g) ∧ (bothSt s g).level = s.level + 1 ∧
      (bothSt s g).gammaUB = s.gammaUB * factor g (p s.level) := by
  have hmem : g ∈ gates := List.mem_of_getElem? hg
  obtain ⟨hq1, hq2⟩ := hp.circ.lt g hmem
  have hq12 := hp.circ.ne g hmem
  have hlev := level_lt s g hg
  have hws : wsAt gates p n (s.level + 1) = wsStep (wsAt gates p n s.level) g .both := by rw [ws_succ gates p n s.level g hg, hc]
  have hlen := wsAt_len gates p n s.level
  have ho1 := hl.wire_lt s _ hq1
  have ho2 := hl.wire_lt s _ hq2
  have hnw2 : (wsAt gates p n (s.level + 1)).nw = s.numWires + 2 := by rw [hws, hl.nw]; rfl
  have hfin : s.numWires + 2 ≤ (wsAt gates p n gates.length).nw := by
    rw [← hnw2]; exact wsAt_nw_mono gates p n _ _ hlev
  have hw1 : (wsAt gates p n (s.level + 1)).wire (g.qubits.getD 0 0) = s.numWires := by
    rw [hws, hl.nw]
    show (((wsAt gates p n s.level).wm.set (g.qubits.getD 0 0) (wsAt gates p n s.level).nw).set (g.qubits.getD 1 0)
      ((wsAt gates p n s.level).nw + 1)).getD (g.qubits.getD 0 0) 0 = _
    rw [wire_set_other _ _ _ _ (fun e => hq12 e.symm)]
    exact wire_set_same _ _ _ (by rw [hlen]; exact hq1)
  have hw2 : (wsAt gates p n (s.level + 1)).wire (g.qubits.getD 1 0) = s.numWires + 1 := by
    rw [hws, hl.nw]
    exact wire_set_same _ _ _ (by rw [List.length_set, hlen]; exact hq2)
  have hedge : ConnP gates p n s.numWires (s.numWires + 1) := by
    have := connP_edge (gates := gates) (p := p) (n := n) s.level g hg (by rw [hc]; decide)
    rw [hw1, hw2] at this
    exact this
  have hnu1 : ¬ ConnP gates p n (s.wire (g.qubits.getD 0 0)) s.numWires := by
    have := hp.nou.both1 s.level g hg hc
    rw [← hl.wire_eq, hw1] at this
    exact this
  have hnu2 : ¬ ConnP gates p n (s.wire (g.qubits.getD 1 0)) (s.numWires + 1) := by
    have := hp.nou.both2 s.level g hg hc
    rw [← hl.wire_eq, hw2] at this
    exact this
  have t1 := hl.to_root s _ ho1
  have t2 := hl.to_root s _ ho2
  have hcap : s.numWires + 2 ≤ s.maxWires := by rw [hl.mw]; exact le_trans hfin hp.budget
  have hW2 : 2 ≤ W := by
    refine le_trans ?_ (hp.feasible s.numWires (by omega))
    unfold compSizeP
    refine le_trans ?_ (countP_range_le _ (s.numWires + 2) _ hfin)
    rw [countP_range_succ, countP_range_succ]
    have h1 : (if decide (ConnP gates p n s.numWires s.numWires) = true then 1 else 0) = 1 := by simp [connP_refl]
    have h2 : (if decide (ConnP gates p n s.numWires (s.numWires + 1)) = true then 1 else 0) = 1 := by simp [hedge]
    omega
  refine ⟨cutBoth_eq s g W hcap hW2, ⟨?_, ?_, hl.mw, ?_, ?_⟩, rfl, ?_⟩
  · show (s.wiremap.set (g.qubits.getD 0 0) s.numWires).set (g.qubits.getD 1 0) (s.numWires + 1) = (wsAt gates p n (s.level + 1)).wm
    rw [hws, hl.wm, hl.nw]; rfl
  · show s.numWires + 1 + 1 = (wsAt gates p n (s.level + 1)).nw
    rw [hnw2]
  · have hi2 := newWire_inv2' s.root s.maxWires (s.numWires + 1) s.noMerge
      (newWire_inv2' s.root s.maxWires s.numWires s.noMerge hl.inv2 (by omega)) hcap
    exact merge_same (ConnP gates p n) connP_refl (fun _ _ => connP_symm) (fun _ _ _ => connP_trans) s.root s.maxWires (s.numWires + 1 + 1) s.noMerge
      hi2 s.numWires (s.numWires + 1) (max_lt (by omega) (by omega)) hedge
      (fresh_same (ConnP gates p n) connP_refl s.root s.maxWires s.numWires s.noMerge hl.inv2 2 hl.same)
  · intro c hcm
    have hcm : c ∈ s.noMerge ++ [(s.qroot (g.qubits.getD 0 0), s.numWires), (s.qroot (g.qubits.getD 1 0), s.numWires + 1)] := hcm
    simp only [List.mem_append, List.mem_cons, List.not_mem_nil, or_false] at hcm
    rcases hcm with hcm | rfl | rfl
    · exact hl.sepC c hcm
    · intro hcon
      exact hnu1 (connP_trans t1 hcon)
    · intro hcon
      exact hnu2 (connP_trans t2 hcon)
  · show s.gammaUB * 16 = _
    simp [hc, factor]

end

/-! ### the plan is a path of the search tree -/

/-- the search settings permit the kinds of cut the plan uses -/
def Allowed (cfg : Settings) (p : Nat → Choice) : Prop :=
  ∀ i, (p i = .gcut → cfg.gateLO = true) ∧ (p i = .left ∨ p i = .right ∨ p i = .both → cfg.wireLO = true)

section
variable {gates : List Gate} {p : Nat → Choice} {n W K : Nat}

theorem plan_stepW (cfg : Settings) (hal : Allowed cfg p) (hp : PlanOKW gates p n W K) (s : St) (g : Gate)
    (hg : gates[s.level]? = some g) (hl : LinkW gates p n W K s) :
    ∃ ns t, nextStates cfg gates W s = .ok ns ∧ t ∈ ns ∧ LinkW gates p n W K t ∧ t.level = s.level + 1 ∧
      t.gammaUB = s.gammaUB * factor g (p s.level) := by
  have hmem : g ∈ gates := List.mem_of_getElem? hg
  have htwo := hp.circ.two g hmem
  have hns : nextStates cfg gates W s = .ok ((actionList cfg).filterMap fun act => act s g W) := by
    unfold nextStates
    rw [hg]
    simp [htwo]
  refine ⟨(actionList cfg).filterMap fun act => act s g W, ?_⟩
  have lift : ∀ (act : St → Gate → Nat → Option St) (t : St), act ∈ actionList cfg → act s g W = some t → LinkCore gates p n K t →
      t.level = s.level + 1 → t.gammaUB = s.gammaUB * factor g (p s.level) →
      ∃ t, nextStates cfg gates W s = .ok ((actionList cfg).filterMap fun act => act s g W) ∧
        t ∈ (actionList cfg).filterMap (fun act => act s g W) ∧ LinkW gates p n W K t ∧ t.level = s.level + 1 ∧
        t.gammaUB = s.gammaUB * factor g (p s.level) := by
    intro act t hact hat hcore hlev hgam
    have hmemt : t ∈ (actionList cfg).filterMap fun act => act s g W := by
      simp only [List.mem_filterMap]
      exact ⟨act, hact, hat⟩
    exact ⟨t, hns, hmemt, ⟨hcore, step_inv cfg gates W n hp.circ.lt s t _ hl.inv hns hmemt,
      step_inv2 cfg gates W n hp.circ.lt s t _ hl.inv hl.inv2 hns hmemt,
      step_cnt cfg gates W n hp.circ.lt s t _ hl.inv hl.inv2 hl.cnt hns hmemt⟩, hlev, hgam⟩
  obtain ⟨c, hc⟩ : ∃ c, p s.level = c := ⟨_, rfl⟩
  cases c with
  | app =>
    obtain ⟨h1, h2, h3, h4⟩ := step_app hp s g hg hc hl
    exact lift applyGate _ (by simp [actionList]) h1 h2 h3 h4
  | gcut =>
    obtain ⟨γ, _, h1, h2, h3, h4⟩ := step_gcut hp s g hg hc hl
    exact lift cutGate _ (by simp [actionList, (hal s.level).1 hc]) h1 h2 h3 h4
  | left =>
    obtain ⟨h1, h2, h3, h4⟩ := step_left hp s g hg hc hl
    exact lift cutLeft _ (by simp [actionList, (hal s.level).2 (Or.inl hc)]) h1 h2 h3 h4
  | right =>
    obtain ⟨h1, h2, h3, h4⟩ := step_right hp s g hg hc hl
    exact lift cutRight _ (by simp [actionList, (hal s.level).2 (Or.inr (Or.inl hc))]) h1 h2 h3 h4
  | both =>
    obtain ⟨h1, h2, h3, h4⟩ := step_both hp s g hg hc hl
    exact lift cutBoth _ (by simp [actionList, (hal s.level).2 (Or.inr (Or.inr hc))]) h1 h2 h3 h4

theorem linkW_init (gates : List Gate) (p : Nat → Choice) (n W K : Nat) (hW : 1 ≤ W) : LinkW gates p n W K (St.init n K) := by
  refine ⟨⟨rfl, rfl, rfl, ?_, ?_⟩, init_inv W n K hW, init_inv2 n K, init_cnt n K⟩
  · intro w1 w2 _ _ h
    simp only [St.init, rootL_range] at h
    subst h
    exact connP_refl _
  · intro c hc
    cases hc

theorem plan_pathW (cfg : Settings) (hal : Allowed cfg p) (hW : 1 ≤ W) (hp : PlanOKW gates p n W K) : ∀ m, m ≤ gates.length →
    ∃ t, Desc (cutFns cfg gates W) (St.init n K) t ∧ LinkW gates p n W K t ∧ t.level = m ∧ t.gammaUB = costUpTo gates p m
  | 0, _ => ⟨St.init n K, Desc.refl _, linkW_init gates p n W K hW, rfl, rfl⟩
  | m + 1, hm => by
    obtain ⟨t, hd, hl, hlev, hcost⟩ := plan_pathW cfg hal hW hp m (by omega)
    have hmlt : m < gates.length := by omega
    have hg : gates[t.level]? = some gates[m] := by rw [hlev]; exact List.getElem?_eq_getElem hmlt
    obtain ⟨ns, t', hns, hmem, hl', hlev', hcost'⟩ := plan_stepW cfg hal hp t gates[m] hg hl
    refine ⟨t', desc_trans _ _ _ _ hd (Desc.head _ _ _ ⟨ns, hns, hmem⟩ (Desc.refl _)), hl', by omega, ?_⟩
    rw [hcost', hcost, hlev]
    simp [costUpTo, List.getElem?_eq_getElem hmlt]

/-- a width-feasible plan without useless cuts, within the wire budget, is a goal state of the search tree with exactly its overhead -/
theorem plan_reachableW (cfg : Settings) (hal : Allowed cfg p) (hW : 1 ≤ W) (hp : PlanOKW gates p n W K) :
    ∃ t, Desc (cutFns cfg gates W) (St.init n K) t ∧ isGoal gates t = true ∧ t.gammaUB = costUpTo gates p gates.length := by
  obtain ⟨t, hd, _, hlev, hcost⟩ := plan_pathW cfg hal hW hp gates.length (le_refl _)
  exact ⟨t, hd, by simp [isGoal, hlev], hcost⟩

end

/-- **T08.4 with wire cuts, for plans without useless cuts**: when `optimize` reports that the minimum was reached, its overhead is at
most that of every plan — any mix of gate cuts and wire cuts the settings permit — whose subcircuits respect the width limit, that
stays within the wire budget of the search (`wireBudget`, derived from the greedy incumbent) and has no useless cut -/
theorem optimize_min_over_plans (cfg : Settings) (gates : List Gate) (n W : Nat) (hW : 1 ≤ W)
    (rnds : List Rat) (fuel : Nat) (r : Result) (hn : (gates.map (·.idx)).Nodup) (hγ : ∀ g ∈ gates, ∀ x, g.gamma = some x → 1 ≤ x)
    (h : optimize cfg gates n W rnds fuel = .ok r) (hflag : r.minReached = true)
    (p : Nat → Choice) (hal : Allowed cfg p) (g0 : Option St)
    (hg0 : greedy cfg gates W (gates.length + 1) (St.init n (gates.map (·.qubits.length)).sum) = .ok g0)
    (hp : PlanOKW gates p n W (wireBudget cfg (gates.map (·.qubits.length)).sum g0)) :
    r.best.gammaUB ≤ costUpTo gates p gates.length := by
  obtain ⟨g0', hg0', hall⟩ := optimize_flag_sound cfg gates n W rnds fuel r hn hγ h hflag
  rw [hg0] at hg0'
  injection hg0' with e
  subst e
  obtain ⟨t, hd, hgoal, hcost⟩ := plan_reachableW cfg hal hW hp
  rw [← hcost]
  exact hall t hd hgoal

/-! ### plans beyond the wire budget cost more than the greedy incumbent -/

theorem wsAt_nw_ge (gates : List Gate) (p : Nat → Choice) (n m : Nat) : n ≤ (wsAt gates p n m).nw :=
  wsAt_nw_mono gates p n 0 m (Nat.zero_le m)

theorem wsAt_nw_le (gates : List Gate) (p : Nat → Choice) (n : Nat) : ∀ m, (wsAt gates p n m).nw ≤ n + 2 * min m gates.length
  | 0 => by simp [wsAt]
  | m + 1 => by
    have ih := wsAt_nw_le gates p n m
    simp only [wsAt]
    cases hg : gates[m]? with
    | none =>
      have : gates.length ≤ m := by
        by_contra h
        rw [List.getElem?_eq_getElem (not_le.mp h)] at hg
        cases hg
      simp only
      omega
    | some g =>
      have hm : m < gates.length := by
        by_contra h
        rw [List.getElem?_eq_none (not_lt.mp h)] at hg
        cases hg
      simp only
      cases p m <;> simp only [wsStep] <;> omega

/-- every wire cut costs a factor four -/
theorem cost_ge_pow (gates : List Gate) (p : Nat → Choice) (n : Nat) (hγ : ∀ g ∈ gates, ∀ x, g.gamma = some x → 1 ≤ x) :
    ∀ m, (4 : Rat) ^ ((wsAt gates p n m).nw - n) ≤ costUpTo gates p m
  | 0 => by simp [wsAt, costUpTo]
  | m + 1 => by
    have ih := cost_ge_pow gates p n hγ m
    have hge := wsAt_nw_ge gates p n m
    simp only [wsAt, costUpTo]
    cases hg : gates[m]? with
    | none => exact ih
    | some g =>
      have hmem : g ∈ gates := List.mem_of_getElem? hg
      have hpos : (0 : Rat) ≤ (4 : Rat) ^ ((wsAt gates p n m).nw - n) := by positivity
      simp only
      cases hc : p m with
      | app => simpa [wsStep, factor] using ih
      | gcut =>
        simp only [wsStep, factor]
        cases hgam : g.gamma with
        | none => simpa using ih
        | some x =>
          have := hγ g hmem x hgam
          simp only [Option.getD_some]
          nlinarith
      | left =>
        simp only [wsStep, factor]
        have : (wsAt gates p n m).nw + 1 - n = ((wsAt gates p n m).nw - n) + 1 := by omega
        rw [this, pow_succ]
        nlinarith
      | right =>
        simp only [wsStep, factor]
        have : (wsAt gates p n m).nw + 1 - n = ((wsAt gates p n m).nw - n) + 1 := by omega
        rw [this, pow_succ]
        nlinarith
      | both =>
        simp only [wsStep, factor]
        have : (wsAt gates p n m).nw + 2 - n = ((wsAt gates p n m).nw - n) + 2 := by omega
        rw [this, pow_add]
        nlinarith

/-- `ceilLog2` finds an exponent that is large enough whenever one exists within the fuel -/
theorem ceilLog2_spec (x : Rat) : ∀ (fuel k : Nat), (∃ j, k ≤ j ∧ j ≤ k + fuel ∧ x ≤ (2 : Rat) ^ j) → x ≤ (2 : Rat) ^ (ceilLog2 x fuel k)
  | 0, k, ⟨j, h1, h2, h3⟩ => by
    have : j = k := by omega
    subst this
    simpa [ceilLog2] using h3
  | fuel + 1, k, ⟨j, h1, h2, h3⟩ => by
    unfold ceilLog2
    by_cases hk : (2 : Rat) ^ k ≥ x
    · simp only [hk, if_true]
    · simp only [hk, if_false]
      apply ceilLog2_spec x fuel (k + 1)
      have : j ≠ k := by
        intro e; subst e; exact hk h3
      exact ⟨j, by omega, by omega, h3⟩

/-- more wire cuts than `max_wire_cuts_gamma γ` cost more than `γ` -/
theorem over_gamma_budget (γ : Rat) (hγ : γ + 1 ≤ (2 : Rat) ^ 4096) (k : Nat) (hk : maxWireCutsGamma γ < k) : γ < (4 : Rat) ^ k := by
  have hspec := ceilLog2_spec (γ + 1) 4096 0 ⟨4096, by omega, by omega, hγ⟩
  have hc : ceilLog2 (γ + 1) 4096 0 ≤ k := by
    unfold maxWireCutsGamma at hk; omega
  have h2 : (2 : Rat) ^ (ceilLog2 (γ + 1) 4096 0) ≤ (2 : Rat) ^ k := pow_le_pow_right₀ (by norm_num) hc
  have h4 : (2 : Rat) ^ k ≤ (4 : Rat) ^ k := pow_le_pow_left₀ (by norm_num) (by norm_num) k
  linarith

theorem sum_two (gates : List Gate) (h : ∀ g ∈ gates, g.qubits.length = 2) : (gates.map (·.qubits.length)).sum = 2 * gates.length := by
  induction gates with
  | nil => rfl
  | cons g rest ih =>
    simp only [List.map_cons, List.sum_cons, List.length_cons]
    rw [ih (fun g' hg' => h g' (List.mem_cons_of_mem _ hg')), h g (by simp)]
    omega

/-- **T08.4 with wire cuts, without a budget hypothesis** (the greedy pass found an incumbent `gs`): when `optimize` reports that the
minimum was reached, its overhead is at most that of every width-feasible plan without useless cuts — plans that need more wires than the
search's wire budget cost more than the incumbent, which the result never exceeds -/
theorem optimize_min_over_plans_any_budget (cfg : Settings) (gates : List Gate) (n W : Nat) (hW : 1 ≤ W)
    (rnds : List Rat) (fuel : Nat) (r : Result) (hn : (gates.map (·.idx)).Nodup) (hγ : ∀ g ∈ gates, ∀ x, g.gamma = some x → 1 ≤ x)
    (h : optimize cfg gates n W rnds fuel = .ok r) (hflag : r.minReached = true)
    (p : Nat → Choice) (hal : Allowed cfg p) (gs : St)
    (hg0 : greedy cfg gates W (gates.length + 1) (St.init n (gates.map (·.qubits.length)).sum) = .ok (some gs))
    (hbig : gs.gammaUB + 1 ≤ (2 : Rat) ^ 4096)
    (hc : CircOKW gates n) (hnou : NoUseless gates p n)
    (hfeas : ∀ w, w < (wsAt gates p n gates.length).nw → compSizeP gates p n w ≤ W) :
    r.best.gammaUB ≤ costUpTo gates p gates.length := by
  by_cases hb : (wsAt gates p n gates.length).nw ≤ n + wireBudget cfg (gates.map (·.qubits.length)).sum (some gs)
  · exact optimize_min_over_plans cfg gates n W hW rnds fuel r hn hγ h hflag p hal (some gs) hg0 ⟨hc, hnou, hfeas, hb⟩
  · obtain ⟨g0', hg0', _, hle⟩ := optimize_origin cfg gates n W rnds fuel r hn hγ h
    rw [hg0] at hg0'
    have e : some gs = g0' := Except.ok.inj hg0'
    have h1 := hle gs e.symm
    have hnwle := wsAt_nw_le gates p n gates.length
    have hnwge := wsAt_nw_ge gates p n gates.length
    rw [Nat.min_self] at hnwle
    have hsum := sum_two gates hc.two
    have hk : maxWireCutsGamma gs.gammaUB < (wsAt gates p n gates.length).nw - n := by
      simp only [wireBudget, hsum] at hb
      omega
    have h2 := over_gamma_budget gs.gammaUB hbig _ hk
    have h3 := cost_ge_pow gates p n hγ gates.length
    linarith

/-! ### non-vacuity: a concrete plan with a wire cut meets `PlanOKW` -/

/-- a colouring that is constant along every edge is constant on every subcircuit -/
theorem connP_colour (gates : List Gate) (p : Nat → Choice) (n : Nat) (f : Nat → Nat)
    (hf : ∀ i g, gates[i]? = some g → p i ≠ .gcut →
      f ((wsAt gates p n (i + 1)).wire (g.qubits.getD 0 0)) = f ((wsAt gates p n (i + 1)).wire (g.qubits.getD 1 0)))
    (x y : Nat) (h : ConnP gates p n x y) : f x = f y := by
  induction h with
  | rel x y hxy =>
    obtain ⟨i, g, hg, hne, rfl, rfl⟩ := hxy
    exact hf i g hg hne
  | refl x => rfl
  | symm x y _ ih => exact ih.symm
  | trans x y z _ _ ih1 ih2 => exact ih1.trans ih2

private def exGates : List Gate := [⟨0, [0, 1], some 3⟩, ⟨1, [1, 2], some 3⟩]
private def exPlan : Nat → Choice := fun i => if i = 1 then .left else .app
private def exColour : Nat → Nat := fun w => if w = 0 ∨ w = 1 then 0 else 1

private theorem ex_edges : ∀ i g, exGates[i]? = some g → exPlan i ≠ .gcut →
    exColour ((wsAt exGates exPlan 3 (i + 1)).wire (g.qubits.getD 0 0)) = exColour ((wsAt exGates exPlan 3 (i + 1)).wire (g.qubits.getD 1 0)) := by
  intro i g hg _
  match i, hg with
  | 0, hg => simp [exGates] at hg; subst hg; decide
  | 1, hg => simp [exGates] at hg; subst hg; decide
  | k + 2, hg => simp [exGates] at hg

open Classical in
/-- cx(0,1); cx(1,2) on three qubits, two qubits per subcircuit: cutting the wire of qubit 1 in front of the second gate is a feasible
plan without useless cuts that needs one extra wire -/
example : PlanOKW exGates exPlan 3 2 1 := by
  have hcol := connP_colour exGates exPlan 3 exColour ex_edges
  have hnw : (wsAt exGates exPlan 3 exGates.length).nw = 4 := by decide
  refine ⟨⟨by decide, by decide, by decide, by decide⟩, ⟨?_, ?_, ?_, ?_, ?_⟩, ?_, by rw [hnw]⟩
  · intro i g hg hc
    match i, hg with
    | 0, hg => simp [exPlan] at hc
    | 1, hg => simp [exPlan] at hc
    | k + 2, hg => simp [exGates] at hg
  · intro i g hg hc
    match i, hg with
    | 0, hg => simp [exPlan] at hc
    | 1, hg =>
      simp [exGates] at hg; subst hg
      intro hcon
      have := hcol _ _ hcon
      revert this
      decide
    | k + 2, hg => simp [exGates] at hg
  · intro i g hg hc
    match i, hg with
    | 0, hg => simp [exPlan] at hc
    | 1, hg => simp [exPlan] at hc
    | k + 2, hg => simp [exGates] at hg
  · intro i g hg hc
    match i, hg with
    | 0, hg => simp [exPlan] at hc
    | 1, hg => simp [exPlan] at hc
    | k + 2, hg => simp [exGates] at hg
  · intro i g hg hc
    match i, hg with
    | 0, hg => simp [exPlan] at hc
    | 1, hg => simp [exPlan] at hc
    | k + 2, hg => simp [exGates] at hg
  · intro w hw
    rw [hnw] at hw
    unfold compSizeP
    rw [hnw]
    refine le_trans (List.countP_mono_left (q := fun w' => decide (exColour w = exColour w')) ?_) ?_
    · intro x _ hx
      simp only [decide_eq_true_eq] at hx ⊢
      exact hcol _ _ hx
    · have : ∀ w, w < 4 → List.countP (fun w' => decide (exColour w = exColour w')) (List.range 4) ≤ 2 := by decide
      exact this w hw

end CKT.C08Wire
