import CKT.Generated.WireCutLoop
import CKT.Props.C03PTM
/-!
# C03 — the instruction loop of the model is the translated source

`CKT.Generated.moveQubits`, `mappingAfterCut`, `otherQubits` are produced on every run from the loop of `_transform_cut_wires` (Python AST → Lean
definitions over `List Nat`).  One step of the model's `transformGo`, which the C03 theorems are about, places the Move, advances the mapping
and re-appends every other instruction exactly as these say.
-/
namespace CKT.C03Gen
open CKT

/-- **one step of the model's loop is the translated source** -/
theorem transformGo_translated (wrap : Bool) (i : Instr) (rest : List Instr) (m : List Nat) (nb : Nat) :
    transformGo wrap (i :: rest) m nb =
      if isCutWire i then
        (if wrap then { name := "qpd_2q", qubits := Generated.moveQubits m (i.qubits.headD 0), label := some "cut_move", basis := some nb }
         else ({ name := "move", qubits := Generated.moveQubits m (i.qubits.headD 0) } : Instr)) ::
          transformGo wrap rest (Generated.mappingAfterCut m (i.qubits.headD 0)) (nb + 1)
      else { i with qubits := Generated.otherQubits m i.qubits } :: transformGo wrap rest m nb := by
  simp only [transformGo, Generated.moveQubits, Generated.mappingAfterCut, Generated.otherQubits]

end CKT.C03Gen
