import CKT.Props.C07Exp
/-!
# C07 — T07.2: wires connected through the gates that are not cut never form a group of more than `W`
-/
namespace CKT.C07
open CKT CKT.CF

/-- a reachable state together with the wire pairs joined so far by two-qubit gates that were *applied* (left uncut, or applied after
wire cuts had moved one or both operands to fresh wires) -/
inductive Trace (cfg : Settings) (gates : List Gate) (W n k : Nat) : St → List (Nat × Nat) → Prop
  | init : Trace cfg gates W n k (St.init n k) []
  | apply (s t : St) (E : List (Nat × Nat)) (g : Gate) : Trace cfg gates W n k s E → gates[s.level]? = some g → g.qubits.length = 2 →
      applyGate s g W = some t → Trace cfg gates W n k t (E ++ [(s.wire (g.qubits.getD 0 0), s.wire (g.qubits.getD 1 0))])
  | cutGate (s t : St) (E : List (Nat × Nat)) (g : Gate) : Trace cfg gates W n k s E → gates[s.level]? = some g → g.qubits.length = 2 →
      cfg.gateLO = true → cutGate s g W = some t → Trace cfg gates W n k t E
  | cutLeft (s t : St) (E : List (Nat × Nat)) (g : Gate) : Trace cfg gates W n k s E → gates[s.level]? = some g → g.qubits.length = 2 →
      cfg.wireLO = true → cutLeft s g W = some t → Trace cfg gates W n k t (E ++ [(s.numWires, s.wire (g.qubits.getD 1 0))])
  | cutRight (s t : St) (E : List (Nat × Nat)) (g : Gate) : Trace cfg gates W n k s E → gates[s.level]? = some g → g.qubits.length = 2 →
      cfg.wireLO = true → cutRight s g W = some t → Trace cfg gates W n k t (E ++ [(s.wire (g.qubits.getD 0 0), s.numWires)])
  | cutBoth (s t : St) (E : List (Nat × Nat)) (g : Gate) : Trace cfg gates W n k s E → gates[s.level]? = some g → g.qubits.length = 2 →
      cfg.wireLO = true → cutBoth s g W = some t → Trace cfg gates W n k t (E ++ [(s.numWires, s.numWires + 1)])

/-- every traced state is reachable in the search tree -/
theorem trace_path (cfg : Settings) (gates : List Gate) (W n k : Nat) (t : St) (E : List (Nat × Nat))
    (h : Trace cfg gates W n k t E) : Path cfg gates W (St.init n k) t := by
  induction h with
  | init => exact Path.refl _
  | apply s t E g _ hg hlen ha ih =>
    refine Path.step _ s t _ ih (by unfold nextStates; rw [hg]; simp only [hlen, ne_eq, not_true_eq_false, if_false]; rfl) ?_
    simp only [List.mem_filterMap]
    exact ⟨applyGate, by simp [actionList], ha⟩
  | cutGate s t E g _ hg hlen hlo ha ih =>
    refine Path.step _ s t _ ih (by unfold nextStates; rw [hg]; simp only [hlen, ne_eq, not_true_eq_false, if_false]; rfl) ?_
    simp only [List.mem_filterMap]
    exact ⟨CF.cutGate, by simp [actionList, hlo], ha⟩
  | cutLeft s t E g _ hg hlen hlo ha ih =>
    refine Path.step _ s t _ ih (by unfold nextStates; rw [hg]; simp only [hlen, ne_eq, not_true_eq_false, if_false]; rfl) ?_
    simp only [List.mem_filterMap]
    exact ⟨CF.cutLeft, by simp [actionList, hlo], ha⟩
  | cutRight s t E g _ hg hlen hlo ha ih =>
    refine Path.step _ s t _ ih (by unfold nextStates; rw [hg]; simp only [hlen, ne_eq, not_true_eq_false, if_false]; rfl) ?_
    simp only [List.mem_filterMap]
    exact ⟨CF.cutRight, by simp [actionList, hlo], ha⟩
  | cutBoth s t E g _ hg hlen hlo ha ih =>
    refine Path.step _ s t _ ih (by unfold nextStates; rw [hg]; simp only [hlen, ne_eq, not_true_eq_false, if_false]; rfl) ?_
    simp only [List.mem_filterMap]
    exact ⟨CF.cutBoth, by simp [actionList, hlo], ha⟩

theorem path_all_inv (cfg : Settings) (gates : List Gate) (W n k : Nat) (hW : 1 ≤ W)
    (hq : ∀ g ∈ gates, g.qubits.getD 0 0 < n ∧ g.qubits.getD 1 0 < n) (t : St)
    (h : Path cfg gates W (St.init n k) t) : Inv W n t ∧ Inv2 t ∧ CntS t := by
  induction h with
  | refl => exact ⟨init_inv W n k hW, init_inv2 n k, init_cnt n k⟩
  | step t u ns _ hnext hu ih =>
    exact ⟨step_inv cfg gates W n hq t u ns ih.1 hnext hu, step_inv2 cfg gates W n hq t u ns ih.1 ih.2.1 hnext hu,
      step_cnt cfg gates W n hq t u ns ih.1 ih.2.1 ih.2.2 hnext hu⟩

/-- the two ends of every recorded edge are allocated wires of one class -/
def EdgeInv (root : List Nat) (nw : Nat) (E : List (Nat × Nat)) : Prop :=
  ∀ e ∈ E, e.1 < nw ∧ e.2 < nw ∧ rootL root e.1 = rootL root e.2

theorem edge_merge (root : List Nat) (mw nw : Nat) (nm : List (Nat × Nat)) (hi : Inv2' root mw nw nm) (a b : Nat)
    (hlt : max a b < nw) (E : List (Nat × Nat)) (h : EdgeInv root nw E) :
    EdgeInv (root.map fun r => if r = max a b then min a b else r) nw E := by
  intro e he
  obtain ⟨h1, h2, h3⟩ := h e he
  refine ⟨h1, h2, ?_⟩
  rw [rootL_merge root mw nw nm hi a b e.1 hlt, rootL_merge root mw nw nm hi a b e.2 hlt, h3]

theorem edge_grow (root : List Nat) (nw nw' : Nat) (hle : nw ≤ nw') (E : List (Nat × Nat)) (h : EdgeInv root nw E) :
    EdgeInv root nw' E := by
  intro e he
  obtain ⟨h1, h2, h3⟩ := h e he
  exact ⟨by omega, by omega, h3⟩

theorem edge_snoc (root : List Nat) (nw : Nat) (E : List (Nat × Nat)) (h : EdgeInv root nw E) (a b : Nat)
    (ha : a < nw) (hb : b < nw) (hab : rootL root a = rootL root b) : EdgeInv root nw (E ++ [(a, b)]) := by
  intro e he
  rcases List.mem_append.1 he with he | he
  · exact h e he
  · simp at he; subst he; exact ⟨ha, hb, hab⟩

/-- after merging the classes of `a` and `b` (both roots), anything whose root was `a` or `b` has the surviving root -/
theorem merged_root (root : List Nat) (mw nw : Nat) (nm : List (Nat × Nat)) (hi : Inv2' root mw nw nm) (a b x y : Nat)
    (hlt : max a b < nw) (hx : rootL root x = a) (hy : rootL root y = b) :
    rootL (root.map fun r => if r = max a b then min a b else r) x = rootL (root.map fun r => if r = max a b then min a b else r) y := by
  rw [rootL_merge root mw nw nm hi a b x hlt, rootL_merge root mw nw nm hi a b y hlt, hx, hy]
  rcases le_total a b with h | h
  · have hmax : max a b = b := max_eq_right h
    have hmin : min a b = a := min_eq_left h
    rw [hmax, hmin]
    by_cases hab : a = b
    · subst hab; simp
    · simp [hab]
  · have hmax : max a b = a := max_eq_left h
    have hmin : min a b = b := min_eq_right h
    rw [hmax, hmin]
    by_cases hab : b = a
    · subst hab; simp
    · simp [hab]

theorem trace_edges (cfg : Settings) (gates : List Gate) (W n k : Nat) (hW : 1 ≤ W)
    (hq : ∀ g ∈ gates, g.qubits.getD 0 0 < n ∧ g.qubits.getD 1 0 < n) (t : St) (E : List (Nat × Nat))
    (h : Trace cfg gates W n k t E) : EdgeInv t.root t.numWires E := by
  induction h with
  | init => intro e he; cases he
  | apply s t E g htr hg _ ha ih =>
    obtain ⟨hi, h2, _⟩ := path_all_inv cfg gates W n k hW hq s (trace_path cfg gates W n k s E htr)
    obtain ⟨hq1, hq2⟩ := hq g (List.mem_of_getElem? hg)
    have hr1 := qroot_lt hi _ hq1
    have hr2 := qroot_lt hi _ hq2
    have hw1 := hi.wire_lt _ hq1
    have hw2 := hi.wire_lt _ hq2
    unfold applyGate at ha
    simp only at ha
    split at ha
    · cases ha
    · split at ha
      · cases ha
      · injection ha with ha; subst ha
        split
        · rename_i hne
          have hlt : max (s.qroot (g.qubits.getD 0 0)) (s.qroot (g.qubits.getD 1 0)) < s.numWires := max_lt hr1 hr2
          have e1 := edge_merge s.root s.maxWires s.numWires s.noMerge h2 _ _ hlt E ih
          have := edge_snoc _ s.numWires E e1 (s.wire (g.qubits.getD 0 0)) (s.wire (g.qubits.getD 1 0)) hw1 hw2
            (merged_root s.root s.maxWires s.numWires s.noMerge h2 _ _ _ _ hlt rfl rfl)
          simpa [St.merge] using this
        · rename_i heq
          have heq' : s.qroot (g.qubits.getD 0 0) = s.qroot (g.qubits.getD 1 0) := by simpa using heq
          exact edge_snoc _ s.numWires E ih _ _ hw1 hw2 heq'
  | cutGate s t E g htr hg _ _ ha ih =>
    unfold CF.cutGate at ha
    split at ha
    · cases ha
    · simp only at ha
      split at ha
      · cases ha
      · injection ha with ha; subst ha
        exact ih
  | cutLeft s t E g htr hg _ _ ha ih =>
    obtain ⟨hi, h2, _⟩ := path_all_inv cfg gates W n k hW hq s (trace_path cfg gates W n k s E htr)
    obtain ⟨hq1, hq2⟩ := hq g (List.mem_of_getElem? hg)
    have hr2 := qroot_lt hi _ hq2
    have hw2 := hi.wire_lt _ hq2
    unfold CF.cutLeft at ha
    split at ha
    · cases ha
    · rename_i hcan
      simp only at ha
      split at ha
      · cases ha
      · split at ha
        · cases ha
        · injection ha with ha; subst ha
          have hcan' : s.numWires + 1 ≤ s.maxWires := by simpa [St.canAddWires] using hcan
          have i1 := newWire_inv2' s.root s.maxWires s.numWires s.noMerge h2 hcan'
          have hfresh : rootL s.root s.numWires = s.numWires := h2.fresh_root _ (le_refl _)
          have hlt : max s.numWires (s.qroot (g.qubits.getD 1 0)) < s.numWires + 1 := by
            rw [max_eq_left (le_of_lt hr2)]; omega
          have e0 := edge_grow s.root s.numWires (s.numWires + 1) (by omega) E ih
          have e1 := edge_merge s.root s.maxWires (s.numWires + 1) s.noMerge i1 _ _ hlt E e0
          have := edge_snoc _ (s.numWires + 1) E e1 s.numWires (s.wire (g.qubits.getD 1 0)) (by omega) (by omega)
            (merged_root s.root s.maxWires (s.numWires + 1) s.noMerge i1 _ _ _ _ hlt hfresh rfl)
          simpa [St.merge, St.newWire] using this
  | cutRight s t E g htr hg _ _ ha ih =>
    obtain ⟨hi, h2, _⟩ := path_all_inv cfg gates W n k hW hq s (trace_path cfg gates W n k s E htr)
    obtain ⟨hq1, hq2⟩ := hq g (List.mem_of_getElem? hg)
    have hr1 := qroot_lt hi _ hq1
    have hw1 := hi.wire_lt _ hq1
    unfold CF.cutRight at ha
    split at ha
    · cases ha
    · rename_i hcan
      simp only at ha
      split at ha
      · cases ha
      · split at ha
        · cases ha
        · injection ha with ha; subst ha
          have hcan' : s.numWires + 1 ≤ s.maxWires := by simpa [St.canAddWires] using hcan
          have i1 := newWire_inv2' s.root s.maxWires s.numWires s.noMerge h2 hcan'
          have hfresh : rootL s.root s.numWires = s.numWires := h2.fresh_root _ (le_refl _)
          have hlt : max (s.qroot (g.qubits.getD 0 0)) s.numWires < s.numWires + 1 := by
            rw [max_eq_right (le_of_lt hr1)]; omega
          have e0 := edge_grow s.root s.numWires (s.numWires + 1) (by omega) E ih
          have e1 := edge_merge s.root s.maxWires (s.numWires + 1) s.noMerge i1 _ _ hlt E e0
          have := edge_snoc _ (s.numWires + 1) E e1 (s.wire (g.qubits.getD 0 0)) s.numWires (by omega) (by omega)
            (merged_root s.root s.maxWires (s.numWires + 1) s.noMerge i1 _ _ _ _ hlt rfl hfresh)
          simpa [St.merge, St.newWire] using this
  | cutBoth s t E g htr hg _ _ ha ih =>
    obtain ⟨hi, h2, _⟩ := path_all_inv cfg gates W n k hW hq s (trace_path cfg gates W n k s E htr)
    unfold CF.cutBoth at ha
    split at ha
    · cases ha
    · rename_i hcan
      split at ha
      · cases ha
      · simp only at ha
        injection ha with ha; subst ha
        have hcan' : s.numWires + 2 ≤ s.maxWires := by simpa [St.canAddWires] using hcan
        have i1 := newWire_inv2' s.root s.maxWires s.numWires s.noMerge h2 (by omega)
        have i1' := newWire_inv2' s.root s.maxWires (s.numWires + 1) s.noMerge i1 (by omega)
        have hf1 : rootL s.root s.numWires = s.numWires := h2.fresh_root _ (le_refl _)
        have hf2 : rootL s.root (s.numWires + 1) = s.numWires + 1 := h2.fresh_root _ (by omega)
        have hlt : max s.numWires (s.numWires + 1) < s.numWires + 1 + 1 := by rw [max_eq_right (by omega)]; omega
        have e0 := edge_grow s.root s.numWires (s.numWires + 1 + 1) (by omega) E ih
        have e1 := edge_merge s.root s.maxWires (s.numWires + 1 + 1) s.noMerge i1' _ _ hlt E e0
        have := edge_snoc _ (s.numWires + 1 + 1) E e1 s.numWires (s.numWires + 1) (by omega) (by omega)
          (merged_root s.root s.maxWires (s.numWires + 1 + 1) s.noMerge i1' _ _ _ _ hlt hf1 hf2)
        simpa [St.merge, St.newWire] using this

/-- connected through recorded edges -/
inductive ConnE (E : List (Nat × Nat)) : Nat → Nat → Prop
  | refl (x : Nat) : ConnE E x x
  | edge (a b : Nat) : (a, b) ∈ E → ConnE E a b
  | symm {a b : Nat} : ConnE E a b → ConnE E b a
  | trans {a b c : Nat} : ConnE E a b → ConnE E b c → ConnE E a c

theorem conn_same_root (root : List Nat) (nw : Nat) (E : List (Nat × Nat)) (h : EdgeInv root nw E) (a b : Nat)
    (hc : ConnE E a b) : rootL root a = rootL root b := by
  induction hc with
  | refl x => rfl
  | edge a b hab => exact (h (a, b) hab).2.2
  | symm _ ih => exact ih.symm
  | trans _ _ ih1 ih2 => exact ih1.trans ih2

/-- **T07.2** in every state the cut finder can reach, any set of distinct allocated wires that are connected to one another through
the two-qubit gates applied so far (i.e. not cut) has at most `W` members: no subcircuit of the cut circuit is wider than the limit. -/
theorem connected_wires_le_width (cfg : Settings) (gates : List Gate) (W n k : Nat) (hW : 1 ≤ W)
    (hq : ∀ g ∈ gates, g.qubits.getD 0 0 < n ∧ g.qubits.getD 1 0 < n) (t : St) (E : List (Nat × Nat))
    (h : Trace cfg gates W n k t E) (w : Nat) (hw : w < t.numWires) (L : List Nat) (hnd : L.Nodup)
    (hL : ∀ x ∈ L, x < t.numWires ∧ ConnE E w x) : L.length ≤ W := by
  have hp := trace_path cfg gates W n k t E h
  obtain ⟨hi, h2, hc⟩ := path_all_inv cfg gates W n k hW hq t hp
  have he := trace_edges cfg gates W n k hW hq t E h
  set r := rootL t.root w with hr
  have hrlt : r < t.numWires := lt_of_le_of_lt (h2.root_le w) hw
  have hroot : rootL t.root r = r := h2.root_idem w
  have hsub : ∀ x ∈ L, x ∈ (List.range t.numWires).filter (fun y => decide (rootL t.root y = r)) := by
    intro x hx
    obtain ⟨hxlt, hcx⟩ := hL x hx
    have := conn_same_root t.root t.numWires E he w x hcx
    simp only [List.mem_filter, List.mem_range, decide_eq_true_eq]
    exact ⟨hxlt, by rw [← this]⟩
  have hlen : L.length ≤ ((List.range t.numWires).filter (fun y => decide (rootL t.root y = r))).length :=
    (List.subperm_of_subset hnd hsub).length_le
  have hcls := (reachable_class_size cfg gates W n k hW hq t hp r hrlt hroot).2
  unfold classSize at hcls
  rw [List.countP_eq_length_filter] at hcls
  exact le_trans hlen hcls

/-- conversely every reachable state carries such a trace -/
theorem path_trace (cfg : Settings) (gates : List Gate) (W n k : Nat) (t : St)
    (h : Path cfg gates W (St.init n k) t) : ∃ E, Trace cfg gates W n k t E := by
  induction h with
  | refl => exact ⟨[], Trace.init⟩
  | step s u ns _ hnext hu ih =>
    obtain ⟨E, hE⟩ := ih
    unfold nextStates at hnext
    cases hg : gates[s.level]? with
    | none => rw [hg] at hnext; injection hnext with hnext; subst hnext; cases hu
    | some g =>
      rw [hg] at hnext
      simp only at hnext
      split at hnext
      · cases hnext
      · rename_i hlen
        have hlen' : g.qubits.length = 2 := by simpa using hlen
        injection hnext with hnext; subst hnext
        simp only [List.mem_filterMap] at hu
        obtain ⟨a, ha, hat⟩ := hu
        simp only [actionList, List.mem_append, List.mem_cons, List.not_mem_nil, or_false] at ha
        rcases ha with (rfl | ha) | ha
        · exact ⟨_, Trace.apply s u E g hE hg hlen' hat⟩
        · split at ha
          · rename_i hlo
            simp only [List.mem_cons, List.not_mem_nil, or_false] at ha; subst ha
            exact ⟨_, Trace.cutGate s u E g hE hg hlen' hlo hat⟩
          · cases ha
        · split at ha
          · rename_i hlo
            simp only [List.mem_cons, List.not_mem_nil, or_false] at ha
            rcases ha with rfl | rfl | rfl
            · exact ⟨_, Trace.cutLeft s u E g hE hg hlen' hlo hat⟩
            · exact ⟨_, Trace.cutRight s u E g hE hg hlen' hlo hat⟩
            · exact ⟨_, Trace.cutBoth s u E g hE hg hlen' hlo hat⟩
          · cases ha

end CKT.C07
