import CKT.Props.C19Moves
import CKT.Props.C12PTM
/-!
# C19 — both clauses in the Pauli-expectation semantics (no assumed laws)

`C19.no_reuse_reset_free_and_same_statistics` holds for every semantics obeying the four reset laws; `C12PTM.ptm` proves the
laws for the concrete semantics `CKT.Sem`.  Hence: for a subexperiment without qubit re-use the circuit after the three
passes is reset free **and** the distribution of its classical register is that of the circuit before the passes,
whatever the gates mean.
-/
namespace CKT.C19PTM
open CKT CKT.Sem CKT.ResetsAux CKT.C19

variable {K : Type} [CommRing K]

theorem no_reuse_reset_free_and_same_statistics_ptm (G : GateSem K) (nq : Nat) (bases : List Basis) (l L : List Instr)
    (hrel : List.Forall₂ SameSk (decomposeSpec bases l) L) (hwf : WF nq L)
    (hadm : ∀ g ∈ l, Admissible bases g) (hcond : ∀ q < nq, Cond q (kindOf q) false l) :
    (∀ i ∈ optimizeResets nq L, isReset i = false) ∧
    obs (C12Sem.run (C12PTM.ptm G) (optimizeResets nq L) init) = obs (C12Sem.run (C12PTM.ptm G) L init) :=
  no_reuse_reset_free_and_same_statistics (C12PTM.ptm G) nq bases l L hrel hwf hadm hcond

end CKT.C19PTM
