import CKT.Props.C01Exact
import CKT.Sem.Measure
import Mathlib.Tactic.FinCases
/-!
# C01 with the maps of a basis as operation *sequences*

A map of a quasi-probability basis is, per side, a **sequence** of one-qubit operations (`[h, qpd_measure, h]`, `[sdg, h, …]`),
and that sequence is what `decompose_qpd_instructions` splices into the subexperiment (C14).  `C01PTM.cut_and_reconstruct` uses
one transfer matrix per side; here the round trip is stated with the sequences themselves:

* `applyL_comp1`, `runOps_seq` — running a sequence of one-qubit operations on a qubit is applying the product of their
  transfer matrices (`seqTM`, first operation first);
* `seqSlot_exact` — the slot built from sequences acts like the slot built from the products;
* `cut_and_reconstruct_seq` — the round trip with every chosen term contributing its operation sequences, in splice order;
* `tmOf1_seqPtm`, `exact_of_exactAt_seq` — the sequence products are the `seqPtm` matrices of the channel model, so the
  exactness statements of C02 (`checkBasis_sound`: stated with `seqPtm` of the map's operation lists) discharge the hypothesis
  for the spliced sequences.
-/
namespace CKT.C01PTM
open CKT CKT.Sem CKT.C01 CKT.Ops Finset

section seq
variable {K : Type} [CommRing K]

/-- `M` after `N` -/
def mulTM (M N : TM K) : TM K := fun a b =>
  match a, b with
  | [x], [z] => ∑ y : Fin 4, M [x] [y] * N [y] [z]
  | _, _ => 0

def idTM : TM K := fun a b =>
  match a, b with
  | [x], [y] => if x = y then 1 else 0
  | _, _ => 0

/-- product of a sequence of one-qubit transfer matrices, first operation first -/
def seqTM (Ms : List (TM K)) : TM K := Ms.foldl (fun acc M => mulTM M acc) idTM

theorem applyL_congr1 (q : Nat) (M N : TM K) (h : ∀ x y : Fin 4, M [x] [y] = N [x] [y]) (v : Vec K) :
    applyL [q] M v = applyL [q] N v := by
  funext P
  simp only [applyL, List.length_cons, List.length_nil, sumL, List.map_cons, List.map_nil, h]

theorem applyL_comp1 (q : Nat) (M N : TM K) (v : Vec K) : applyL [q] M (applyL [q] N v) = applyL [q] (mulTM M N) v := by
  funext P
  simp only [applyL, List.length_cons, List.length_nil, sumL, List.map_cons, List.map_nil, updL, mulTM, Function.update_self,
    Function.update_idem, Finset.mul_sum, Finset.sum_mul]
  rw [Finset.sum_comm]
  apply Finset.sum_congr rfl
  intro z _
  apply Finset.sum_congr rfl
  intro y _
  ring

theorem applyL_idTM (q : Nat) (v : Vec K) : applyL [q] idTM v = v := applyL_id q v

theorem mulTM_congr (M N N' : TM K) (h : ∀ x y : Fin 4, N [x] [y] = N' [x] [y]) : ∀ x y : Fin 4, mulTM M N [x] [y] = mulTM M N' [x] [y] := by
  intro x y
  simp only [mulTM, h]

theorem runOps_seq_acc (q : Nat) : ∀ (Ms : List (TM K)) (acc : TM K) (v : Vec K),
    runOps (Ms.map fun M => (([q], M) : LOp K)) (applyL [q] acc v) = applyL [q] (Ms.foldl (fun a M => mulTM M a) acc) v
  | [], _, _ => rfl
  | M :: Ms, acc, v => by
    simp only [List.map_cons, runOps_cons, List.foldl_cons]
    rw [applyL_comp1]
    exact runOps_seq_acc q Ms (mulTM M acc) v

/-- a sequence of operations on one qubit is the product of their transfer matrices -/
theorem runOps_seq (q : Nat) (Ms : List (TM K)) (v : Vec K) :
    runOps (Ms.map fun M => (([q], M) : LOp K)) v = applyL [q] (seqTM Ms) v := by
  have := runOps_seq_acc q Ms idTM v
  rw [applyL_idTM] at this
  exact this

/-- a cut two-qubit gate as a slot whose terms carry the operation sequences of the two sides (`b`-side first; they commute) -/
def seqSlot (a b : Nat) (terms : List (K × List (TM K) × List (TM K))) : List (LTerm K) :=
  terms.map fun t => { c := t.1, ops := (t.2.2.map fun M => (([b], M) : LOp K)) ++ (t.2.1.map fun M => (([a], M) : LOp K)) }

def prodTerms (terms : List (K × List (TM K) × List (TM K))) : List (K × TM K × TM K) :=
  terms.map fun t => (t.1, seqTM t.2.1, seqTM t.2.2)

theorem seqSlot_eq_cutSlot (a b : Nat) (terms : List (K × List (TM K) × List (TM K))) (v : Vec K) :
    slotOp (seqSlot a b terms) v = slotOp (cutSlot a b (prodTerms terms)) v := by
  simp only [slotOp, seqSlot, cutSlot, prodTerms, List.map_map, Function.comp_def]
  congr 1
  apply List.map_congr_left
  intro t _
  simp only [runOps_append, runOps_seq, runOps_cons, runOps_nil]

/-- gates of a circuit to be cut, the bases given by operation sequences -/
inductive QGate (K : Type) where
  | plain (qs : List Nat) (M : TM K)
  | cut (a b : Nat) (M2 : TM K) (terms : List (K × List (TM K) × List (TM K)))

def QGate.toC : QGate K → CGate K
  | .plain qs M => .plain qs M
  | .cut a b M2 terms => .cut a b M2 (prodTerms terms)

def QGate.slot : QGate K → List (LTerm K)
  | .plain qs M => gateSlot qs M
  | .cut a b _ terms => seqSlot a b terms

theorem qslots_eq : ∀ (gs : List (QGate K)) (v : Vec K), (∀ g ∈ gs, g.toC.Exact) →
    runOps (gs.map fun g => g.toC.op) v = runSlots (gs.map QGate.slot) v
  | [], _, _ => rfl
  | g :: gs, v, h => by
    have hg := h g (by simp)
    show runOps (gs.map fun g => g.toC.op) (applyL g.toC.op.1 g.toC.op.2 v) = runSlots (gs.map QGate.slot) (slotOp g.slot v)
    have : slotOp g.slot v = applyL g.toC.op.1 g.toC.op.2 v := by
      cases g with
      | plain qs M => exact gateSlot_exact qs M v
      | cut a b M2 terms =>
        show slotOp (seqSlot a b terms) v = _
        rw [seqSlot_eq_cutSlot]
        exact cutSlot_exact a b hg.1 M2 (prodTerms terms) hg.2 v
    rw [this]
    exact qslots_eq gs _ (fun x hx => h x (List.mem_cons_of_mem _ hx))

/-- **C01 with spliced sequences**: as `cut_and_reconstruct`, every chosen term contributing its two operation sequences
(the sequences `decompose_qpd_instructions` splices in), each operation on the qubit of its side -/
theorem cut_and_reconstruct_seq (lab : Nat → Nat) (S : Finset Nat) (gs : List (QGate K)) (O : PStr)
    (hex : ∀ g ∈ gs, g.toC.Exact) (hloc : ∀ g ∈ gs, g.toC.Local lab S) (hO : ∀ n, lab n ∉ S → O n = 0) :
    runOps (gs.map fun g => g.toC.op) init0 O =
      ((choices (gs.map QGate.slot)).map fun ch => choiceCoeff ch *
        ∏ p ∈ S, runOps ((choiceOps ch).filter fun o => blockOf lab o == p) init0 (restr lab p O)).sum := by
  rw [qslots_eq gs init0 hex]
  apply round_trip_ptm lab S _ O _ hO
  intro s hs t ht o ho
  simp only [List.mem_map] at hs
  obtain ⟨g, hg, rfl⟩ := hs
  have hl := hloc g hg
  cases g with
  | plain qs M =>
    simp only [QGate.slot, gateSlot, List.mem_singleton] at ht
    subst ht
    simp only [List.mem_singleton] at ho
    subst ho
    exact hl
  | cut a b M2 terms =>
    simp only [QGate.slot, seqSlot, List.mem_map] at ht
    obtain ⟨tt, _, rfl⟩ := ht
    simp only [List.mem_append, List.mem_map] at ho
    rcases ho with ⟨M, _, rfl⟩ | ⟨M, _, rfl⟩
    · exact ⟨by intro q hq; simp at hq; subst hq; simp [blockOf], by simpa [blockOf] using hl.2⟩
    · exact ⟨by intro q hq; simp at hq; subst hq; simp [blockOf], by simpa [blockOf] using hl.1⟩

end seq

/-! ### the sequence products are the `seqPtm` matrices of the channel model -/

section bridge
variable {K : Type} [Field K] [CharZero K]

theorem rget_rmk4 (f : Nat → Nat → K) (x y : Fin 4) : (fieldOps K).rget (rmk 4 f) x.val y.val = f x.val y.val := by
  fin_cases x <;> fin_cases y <;> simp [rmk, Ops.rget]

theorem tmOf1_rmmul (A B : RMat K) (x z : Fin 4) :
    tmOf1 ((fieldOps K).rmmul 4 A B) [x] [z] = ∑ y : Fin 4, tmOf1 A [x] [y] * tmOf1 B [y] [z] := by
  simp only [tmOf1, Ops.rmmul, rget_rmk4, fieldOps_sum]
  simp [Fin.sum_univ_four, List.range, List.range.loop, fieldOps]
  ring

theorem tmOf1_rident (x y : Fin 4) : tmOf1 ((fieldOps K).rident 4) [x] [y] = (idTM : TM K) [x] [y] := by
  simp only [tmOf1, Ops.rident, rget_rmk4, idTM]
  by_cases h : x = y
  · subst h; simp [fieldOps]
  · have : x.val ≠ y.val := fun e => h (Fin.ext e)
    simp [h, this, fieldOps]

/-- the product of the sequence's transfer matrices is the channel model's `seqPtm` of the sequence -/
theorem tmOf1_seqPtm (ops : List (OpSem K)) (x y : Fin 4) :
    tmOf1 ((fieldOps K).seqPtm ops) [x] [y] = seqTM (ops.map fun o => tmOf1 ((fieldOps K).opPtm o)) [x] [y] := by
  unfold Ops.seqPtm seqTM
  have gen : ∀ (ops : List (OpSem K)) (acc : RMat K) (accT : TM K), (∀ x y : Fin 4, tmOf1 acc [x] [y] = accT [x] [y]) →
      ∀ x y : Fin 4, tmOf1 (ops.foldl (fun acc op => (fieldOps K).rmmul 4 ((fieldOps K).opPtm op) acc) acc) [x] [y]
        = ((ops.map fun o => tmOf1 ((fieldOps K).opPtm o)).foldl (fun a M => mulTM M a) accT) [x] [y] := by
    intro ops
    induction ops with
    | nil => intro acc accT h x y; exact h x y
    | cons o rest ih =>
      intro acc accT h x y
      simp only [List.foldl_cons, List.map_cons]
      apply ih
      intro x' y'
      rw [tmOf1_rmmul]
      simp only [mulTM, h]
  exact gen ops _ _ tmOf1_rident x y

/-- the terms of a symbolic basis as operation sequences -/
noncomputable def evalSeqTerms (ρ : Nat → K) (b : SBasis) : List (K × List (TM K) × List (TM K)) :=
  (b.coeffs.zip b.maps).map fun cm =>
    (Poly.eval ρ cm.1, cm.2.1.map (fun o => tmOf1 ((fieldOps K).opPtm (evalOp ρ o))), cm.2.2.map (fun o => tmOf1 ((fieldOps K).opPtm (evalOp ρ o))))

/-- **C02 ⇒ hypothesis of `cut_and_reconstruct_seq`**: with the maps taken as the operation sequences of the basis -/
theorem exact_of_exactAt_seq (ρ : Nat → K) (target : Kraus Poly) (b : SBasis) (h : ExactAt ρ target b) (qa qb : Nat) (hab : qa ≠ qb) :
    (QGate.cut qa qb (tmOf2 ((fieldOps K).ptm2 (evalKraus ρ target))) (evalSeqTerms ρ b)).toC.Exact := by
  have h0 := exact_of_exactAt ρ target b h qa qb hab
  refine ⟨hab, ?_⟩
  intro x y x' y'
  rw [h0.2 x y x' y']
  simp only [prodTerms, evalSeqTerms, evalTerms, List.map_map, Function.comp_def]
  congr 1
  apply List.map_congr_left
  intro cm _
  show _ * (tmOf1 _ [x] [x'] * tmOf1 _ [y] [y']) = _ * (seqTM _ [x] [x'] * seqTM _ [y] [y'])
  rw [tmOf1_seqPtm, tmOf1_seqPtm, List.map_map, List.map_map]
  rfl

end bridge

end CKT.C01PTM
