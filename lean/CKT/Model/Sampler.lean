import CKT.Model.Basic
/-!
# Model of the exact sampler (`utils/simulation.py`)

The branch table of `simulate_statevector_outcomes`, as a flat list of branches `(classical outcome, unnormalised
state)`: the probability of a branch is the squared norm of its state (the implementation stores the pair
`(probability, normalised state)`, the same information).  The quantum part is an explicit `Backend`; the driver
instantiates it with exact Clifford simulation over Gaussian rationals (a common factor `2^(-h/2)` is kept as the
count `h` of Hadamard-type gates, so that every probability is an exact rational).
-/
namespace CKT.Sampler

structure SInstr where
  name : String
  qubits : List Nat
  clbits : List Nat := []
  conditioned : Bool := false
  /-- for the rational rotation `ry_t`: `t = tan(θ/4)`, so that `cos(θ/2) = (1-t²)/(1+t²)`, `sin(θ/2) = 2t/(1+t²)` -/
  param : Rat := 0
  deriving Repr, DecidableEq, Inhabited

structure Backend (V : Type) where
  norm2 : V → Rat
  /-- a unitary instruction; `none` = not a known unitary -/
  apply : SInstr → V → Option V
  /-- unnormalised projection of qubit `q` onto outcome `b` -/
  proj : Nat → Bool → V → V
  /-- the X rotation that completes a reset -/
  flip : Nat → V → V

abbrev Branch (V : Type) := Nat × V

/-- outcome keys of the two children: bit `c` cleared / set (`k ^ (k & f)`, `k | f` with `f = 1 << c`) -/
def key0 (k f : Nat) : Nat := k ^^^ (k &&& f)
def key1 (k f : Nat) : Nat := k ||| f

/-- split every branch on qubit `q`; children of squared norm `≤ tol` are dropped (the implementation's 1e-16) -/
def split {V : Type} (B : Backend V) (tol : Rat) (q : Nat) (f : Nat) (reset : Bool) (bs : List (Branch V)) : List (Branch V) :=
  bs.flatMap fun b =>
    let v0 := B.proj q false b.2
    let v1 := B.proj q true b.2
    (if B.norm2 v0 ≤ tol then [] else [(key0 b.1 f, v0)]) ++
    (if B.norm2 v1 ≤ tol then [] else [(key1 b.1 f, if reset then B.flip q v1 else v1)])

def step {V : Type} (B : Backend V) (tol : Rat) (bs : List (Branch V)) (i : SInstr) : R (List (Branch V)) :=
  if i.conditioned then .error (.value "Operations conditioned on classical bits are currently not supported.")
  else if i.name = "measure" then .ok (split B tol (i.qubits.getD 0 0) (1 <<< (i.clbits.getD 0 0)) false bs)
  else if i.name = "reset" then .ok (split B tol (i.qubits.getD 0 0) 0 true bs)
  else if !i.clbits.isEmpty then .error (.value "Circuit cannot contain a non-measurement operation on classical bit(s).")
  else
    bs.mapM fun b => match B.apply i b.2 with
      | some v => .ok (b.1, v)
      | none => .error (.other ("unsupported gate " ++ i.name))

def run {V : Type} (B : Backend V) (tol : Rat) (init : V) (instrs : List SInstr) : R (List (Branch V)) :=
  instrs.foldlM (step B tol) [(0, init)]

/-- `{outcome: sum(prob ...)}`, keys in increasing order -/
def collect {V : Type} (B : Backend V) (bs : List (Branch V)) : List (Nat × Rat) :=
  let keys := (bs.map (·.1)).foldl (fun acc k => if k ∈ acc then acc else acc ++ [k]) []
  let sorted := keys.foldl (fun acc k => (acc.filter (· < k)) ++ [k] ++ (acc.filter (fun x => !(x < k)))) []
  sorted.map fun k => (k, ((bs.filter (·.1 = k)).map (fun b => B.norm2 b.2)).sum)

def simulate {V : Type} (B : Backend V) (tol : Rat) (init : V) (instrs : List SInstr) : R (List (Nat × Rat)) := do
  let bs ← run B tol init instrs
  .ok (collect B bs)

/-! ### exact Clifford backend -/

abbrev GQ := Rat × Rat   -- Gaussian rational a + bi
def gadd (x y : GQ) : GQ := (x.1 + y.1, x.2 + y.2)
def gmul (x y : GQ) : GQ := (x.1 * y.1 - x.2 * y.2, x.1 * y.2 + x.2 * y.1)
def gabs2 (x : GQ) : Rat := x.1 * x.1 + x.2 * x.2

/-- state `2^(-h/2) · amps`, little endian (qubit `q` is bit `q` of the index) -/
structure CState where
  n : Nat
  h : Nat
  amps : List GQ
  deriving Repr, Inhabited

def CState.norm2 (s : CState) : Rat := (s.amps.map gabs2).sum / (2 : Rat) ^ s.h

def bit (i q : Nat) : Bool := (i >>> q) % 2 = 1

/-- apply the 2×2 matrix `[[a,b],[c,d]]` to qubit `q` -/
def apply1 (s : CState) (q : Nat) (a b c d : GQ) : CState :=
  { s with amps := (List.range s.amps.length).map fun i =>
      let i0 := if bit i q then i - 2 ^ q else i
      let i1 := i0 + 2 ^ q
      let x0 := s.amps.getD i0 (0, 0)
      let x1 := s.amps.getD i1 (0, 0)
      if bit i q then gadd (gmul c x0) (gmul d x1) else gadd (gmul a x0) (gmul b x1) }

def permute (s : CState) (f : Nat → Nat) (ph : Nat → GQ) : CState :=
  { s with amps := (List.range s.amps.length).map fun i => gmul (ph i) (s.amps.getD (f i) (0, 0)) }

def flipBit (i q : Nat) : Nat := if bit i q then i - 2 ^ q else i + 2 ^ q

def one : GQ := (1, 0)
def zero : GQ := (0, 0)
def im : GQ := (0, 1)
def mone : GQ := (-1, 0)
def mim : GQ := (0, -1)

def cliffordApply (ins : SInstr) (s : CState) : Option CState :=
  let q := ins.qubits.getD 0 0
  let t := ins.qubits.getD 1 0
  let p := ins.param
  let c : Rat := (1 - p * p) / (1 + p * p)
  let sn : Rat := 2 * p / (1 + p * p)
  match ins.name with
  | "ry_t" => some (apply1 s q (c, 0) (-sn, 0) (sn, 0) (c, 0))
  | "rx_t" => some (apply1 s q (c, 0) (0, -sn) (0, -sn) (c, 0))
  | "id" => some s
  | "barrier" => some s
  | "x" => some (apply1 s q zero one one zero)
  | "y" => some (apply1 s q zero mim im zero)
  | "z" => some (apply1 s q one zero zero mone)
  | "s" => some (apply1 s q one zero zero im)
  | "sdg" => some (apply1 s q one zero zero mim)
  | "h" => some { apply1 s q one one one mone with h := s.h + 1 }
  | "sx" => some (apply1 s q (1/2, 1/2) (1/2, -1/2) (1/2, -1/2) (1/2, 1/2))
  | "sxdg" => some (apply1 s q (1/2, -1/2) (1/2, 1/2) (1/2, 1/2) (1/2, -1/2))
  | "cx" => some (permute s (fun i => if bit i q then flipBit i t else i) (fun _ => one))
  | "cz" => some (permute s id (fun i => if bit i q && bit i t then mone else one))
  | "cy" => some (permute s (fun i => if bit i q then flipBit i t else i) (fun i => if bit i q then (if bit i t then im else mim) else one))
  | "swap" => some (permute s (fun i => if bit i q != bit i t then flipBit (flipBit i q) t else i) (fun _ => one))
  | _ => none

def cliffordBackend : Backend CState :=
  { norm2 := CState.norm2, apply := cliffordApply,
    proj := fun q b s => { s with amps := (List.range s.amps.length).map fun i => if bit i q = b then s.amps.getD i zero else zero },
    flip := fun q s => apply1 s q zero one one zero }

def cliffordInit (n : Nat) : CState := { n := n, h := 0, amps := one :: List.replicate (2 ^ n - 1) zero }

end CKT.Sampler
