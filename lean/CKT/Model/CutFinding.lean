import CKT.Model.Basic
/-!
# Model of the automatic cut finder (`automated_cut_finding.py`, `cut_finding/*`)

* `St` — `DisjointSubcircuitsState` with the up-tree replaced by the fully compressed root map (path compression
  is unobservable; the merged root is the smaller wire id, as in `merge_roots`).
* the five actions with their guards (`cutting_actions.py`), in registration order;
* `greedy` — `greedy_best_first_search`;
* `Search.pass` — `BestFirstSearch.optimization_pass` (generic in the state type, like the Python), with the
  priority key `(cost, -depth, random, seq)`; the random numbers of the seeded numpy `Generator` are an input list;
* `optimize` — `CutOptimization` + `LOCutsOptimizer.optimize`;
* `findCuts` — the export in `find_cuts` (gate wrapping, marker insertion with running offset, metadata).
Costs are exact rationals (`gamma_UB`; the second cost component is the constant `inf` and is dropped).
-/
namespace CKT.CF

/-- one entry of the circuit list handed to `SimpleGateList` -/
structure CInstr where
  name : String
  qubits : List Nat            -- circuit-level qubit indices
  /-- `none`: no gamma (not a two-qubit `Gate`) -/
  gamma : Option Rat := none
  deriving Repr, DecidableEq, Inhabited

/-- a multi-qubit gate as seen by the search (`GateSpec`) -/
structure Gate where
  idx : Nat                    -- instruction id = position in `circuit.data`
  qubits : List Nat            -- numeric qubit IDs (`NameToIDMap`, order of first use)
  gamma : Option Rat
  deriving Repr, DecidableEq, Inhabited

inductive Kind where
  | gateCut | left | right | both
  deriving Repr, DecidableEq, Inhabited

structure Act where
  kind : Kind
  gate : Nat                   -- instruction id
  /-- `(input, wire, new wire)` per cut wire; for gate cuts `(input, wire, 0)` -/
  args : List (Nat × Nat × Nat)
  deriving Repr, DecidableEq, Inhabited

structure St where
  wiremap : List Nat
  numWires : Nat
  maxWires : Nat
  root : List Nat
  width : List Nat
  noMerge : List (Nat × Nat)
  gammaUB : Rat
  actions : List Act
  level : Nat
  deriving Repr, DecidableEq, Inhabited

def St.init (numQubits maxWireCuts : Nat) : St :=
  { wiremap := List.range numQubits, numWires := numQubits, maxWires := numQubits + maxWireCuts,
    root := List.range (numQubits + maxWireCuts), width := List.replicate (numQubits + maxWireCuts) 1,
    noMerge := [], gammaUB := 1, actions := [], level := 0 }

def St.wire (s : St) (q : Nat) : Nat := s.wiremap.getD q 0
def St.rootOf (s : St) (w : Nat) : Nat := s.root.getD w w
def St.qroot (s : St) (q : Nat) : Nat := s.rootOf (s.wire q)
def St.widthOf (s : St) (r : Nat) : Nat := s.width.getD r 0

/-- `merge_roots`: the smaller root survives and takes the sum of the widths -/
def St.merge (s : St) (r1 r2 : Nat) : St :=
  let m := min r1 r2
  let o := max r1 r2
  { s with root := s.root.map (fun r => if r = o then m else r),
           width := s.width.set m (s.widthOf m + s.widthOf o) }

/-- `check_donot_merge_roots` -/
def St.forbidden (s : St) (r1 r2 : Nat) : Bool :=
  s.noMerge.any fun c => (s.rootOf c.1 == r1 && s.rootOf c.2 == r2) || (s.rootOf c.1 == r2 && s.rootOf c.2 == r1)

def St.newWire (s : St) (q : Nat) : St × Nat :=
  ({ s with wiremap := s.wiremap.set q s.numWires, numWires := s.numWires + 1 }, s.numWires)

def St.canAddWires (s : St) (k : Nat) : Bool := s.numWires + k ≤ s.maxWires

/-! ### the actions (each returns at most one successor) -/

def applyGate (s : St) (g : Gate) (W : Nat) : Option St :=
  let r1 := s.qroot (g.qubits.getD 0 0)
  let r2 := s.qroot (g.qubits.getD 1 0)
  if r1 ≠ r2 ∧ s.widthOf r1 + s.widthOf r2 > W then none
  else if s.forbidden r1 r2 then none
  else
    let s' := if r1 ≠ r2 then s.merge r1 r2 else s
    some { s' with level := s.level + 1 }

def cutGate (s : St) (g : Gate) (_W : Nat) : Option St :=
  match g.gamma with
  | none => none
  | some gam =>
    let q1 := g.qubits.getD 0 0
    let q2 := g.qubits.getD 1 0
    let r1 := s.qroot q1
    let r2 := s.qroot q2
    if r1 = r2 then none
    else some { s with noMerge := s.noMerge ++ [(r1, r2)], gammaUB := s.gammaUB * gam,
                       actions := s.actions ++ [⟨.gateCut, g.idx, [(1, s.wire q1, 0), (2, s.wire q2, 0)]⟩],
                       level := s.level + 1 }

def cutLeft (s : St) (g : Gate) (W : Nat) : Option St :=
  if !s.canAddWires 1 then none
  else
    let q1 := g.qubits.getD 0 0
    let q2 := g.qubits.getD 1 0
    let w1 := s.wire q1
    let r1 := s.qroot q1
    let r2 := s.qroot q2
    if r1 = r2 then none
    else if !(s.widthOf r2 + 1 ≤ W) then none
    else
      let (s1, rnew) := s.newWire q1
      let s2 := s1.merge rnew r2
      some { s2 with noMerge := s2.noMerge ++ [(r1, r2)], gammaUB := s2.gammaUB * 4,
                     actions := s2.actions ++ [⟨.left, g.idx, [(1, w1, rnew)]⟩], level := s.level + 1 }

def cutRight (s : St) (g : Gate) (W : Nat) : Option St :=
  if !s.canAddWires 1 then none
  else
    let q1 := g.qubits.getD 0 0
    let q2 := g.qubits.getD 1 0
    let w2 := s.wire q2
    let r1 := s.qroot q1
    let r2 := s.qroot q2
    if r1 = r2 then none
    else if !(s.widthOf r1 + 1 ≤ W) then none
    else
      let (s1, rnew) := s.newWire q2
      let s2 := s1.merge r1 rnew
      some { s2 with noMerge := s2.noMerge ++ [(r1, r2)], gammaUB := s2.gammaUB * 4,
                     actions := s2.actions ++ [⟨.right, g.idx, [(2, w2, rnew)]⟩], level := s.level + 1 }

def cutBoth (s : St) (g : Gate) (W : Nat) : Option St :=
  if !s.canAddWires 2 then none
  else if W < 2 then none
  else
    let q1 := g.qubits.getD 0 0
    let q2 := g.qubits.getD 1 0
    let w1 := s.wire q1
    let w2 := s.wire q2
    let r1 := s.qroot q1
    let r2 := s.qroot q2
    let (s1, n1) := s.newWire q1
    let (s2, n2) := s1.newWire q2
    let s3 := s2.merge n1 n2
    some { s3 with noMerge := s3.noMerge ++ [(r1, n1), (r2, n2)], gammaUB := s3.gammaUB * 16,
                   actions := s3.actions ++ [⟨.both, g.idx, [(1, w1, n1), (2, w2, n2)]⟩], level := s.level + 1 }

structure Settings where
  maxGamma : Rat
  maxBackjumps : Option Nat
  gateLO : Bool
  wireLO : Bool
  deriving Repr, Inhabited

/-- the actions of group "TwoQubitGates" that survive `ActionNames.copy(cut_groups)`, in registration order -/
def actionList (cfg : Settings) : List (St → Gate → Nat → Option St) :=
  [applyGate] ++ (if cfg.gateLO then [cutGate] else []) ++ (if cfg.wireLO then [cutLeft, cutRight, cutBoth] else [])

/-- `cut_optimization_next_state_func` -/
def nextStates (cfg : Settings) (gates : List Gate) (W : Nat) (s : St) : R (List St) :=
  match gates[s.level]? with
  | none => .ok []
  | some g =>
    if g.qubits.length ≠ 2 then .error (.value "The input circuit must contain only single and two-qubits gates")
    else .ok ((actionList cfg).filterMap fun a => a s g W)

def isGoal (gates : List Gate) (s : St) : Bool := s.level ≥ gates.length

/-- first minimum of `(cost, k)` -/
def argminCost : List St → Option St
  | [] => none
  | s :: rest => match argminCost rest with
    | none => some s
    | some t => if t.gammaUB < s.gammaUB then some t else some s

/-- `greedy_best_first_search` (at most `gates.length` steps are ever needed) -/
def greedy (cfg : Settings) (gates : List Gate) (W : Nat) : Nat → St → R (Option St)
  | 0, s => .ok (if isGoal gates s then some s else none)
  | fuel + 1, s =>
    if isGoal gates s then .ok (some s)
    else do
      let ns ← nextStates cfg gates W s
      match argminCost ns with
      | none => .ok none
      | some t => greedy cfg gates W fuel t

/-! ### best-first search, generic in the state type -/

structure Key where
  cost : Rat
  negDepth : Int
  rnd : Rat
  seq : Nat
  deriving Repr, DecidableEq, Inhabited

def Key.lt (a b : Key) : Bool :=
  if a.cost ≠ b.cost then a.cost < b.cost
  else if a.negDepth ≠ b.negDepth then a.negDepth < b.negDepth
  else if a.rnd ≠ b.rnd then a.rnd < b.rnd
  else a.seq < b.seq

structure Search (S : Type) where
  queue : List (Key × S)         -- kept sorted by `Key.lt`
  rnds : List Rat                -- the rest of the generator's stream
  seq : Nat
  ub : Option Rat
  minReached : Bool
  backjumps : Nat
  visited : Nat
  enqueued : Nat

def insertKey {S : Type} (e : Key × S) : List (Key × S) → List (Key × S)
  | [] => [e]
  | x :: xs => if Key.lt e.1 x.1 then e :: x :: xs else x :: insertKey e xs

def Search.push {S : Type} (q : Search S) (s : S) (depth : Nat) (cost : Rat) : Search S :=
  { q with queue := insertKey (⟨cost, -(depth : Int), q.rnds.headD 0, q.seq⟩, s) q.queue,
           rnds := q.rnds.tail, seq := q.seq + 1 }

/-- one state of `BestFirstSearch.put`: cost pruning against the incumbent -/
def Search.put1 {S : Type} (cost : S → Rat) (depth : Nat) (q : Search S) (s : S) : Search S :=
  match q.ub with
  | some u => if cost s ≤ u then { q.push s depth (cost s) with enqueued := q.enqueued + 1 } else q
  | none => { q.push s depth (cost s) with enqueued := q.enqueued + 1 }

/-- `BestFirstSearch.put` -/
def Search.put {S : Type} (cost : S → Rat) (q : Search S) (states : List S) (depth : Nat) : Search S :=
  states.foldl (Search.put1 cost depth) q

def Search.updMin {S : Type} (q : Search S) (c : Rat) : Search S :=
  match q.ub with
  | some u => if u ≤ c then { q with minReached := true } else q
  | none => q

def Search.updUb {S : Type} (q : Search S) (b : Rat) : Search S :=
  match q.ub with
  | some u => if b < u then { q with ub := some b } else q
  | none => { q with ub := some b }

structure Fns (S : Type) where
  cost : S → Rat
  next : S → R (List S)
  goal : S → Bool

def bjExceeded (maxBJ : Option Nat) (bj : Nat) : Bool :=
  match maxBJ with
  | some m => !(bj < m)
  | none => false

/-- `cost_bounds_exceeded` -/
def boundsExceeded (mincost ub : Option Rat) (c : Rat) : Bool :=
  (match mincost with | some m => c > m | none => false) || (match ub with | some u => c > u | none => false)

def depthOf (k : Key) : Nat := (-k.negDepth).toNat

def Search.withQueue {S : Type} (q : Search S) (l : List (Key × S)) : Search S := { q with queue := l }

/-- bookkeeping of a visited state: visit counter and backjump counter -/
def Search.visit {S : Type} (q : Search S) (prev : Option Nat) (depth : Nat) : Search S :=
  { q with visited := q.visited + 1,
           backjumps := (match prev with | some p => if depth ≤ p then q.backjumps + 1 else q.backjumps | none => q.backjumps) }

/-- the `while` loop of `optimization_pass`; `prev` is `prev_depth` -/
def Search.loop {S : Type} (f : Fns S) (mincost : Option Rat) (maxBJ : Option Nat) :
    Nat → Search S → Option Nat → R (Search S × Option (S × Rat))
  | 0, q, _ => .ok (q, none)
  | fuel + 1, q, prev =>
    match q.queue with
    | [] => .ok ({ q with minReached := true }, none)
    | (k, s) :: rest =>
      if q.minReached || bjExceeded maxBJ q.backjumps then .ok (q, none)
      else
        let qb := (q.withQueue rest).updMin k.cost
        if boundsExceeded mincost qb.ub k.cost then
          -- the popped state goes back to the frontier (a fresh random number and sequence count are drawn)
          .ok (qb.push s (depthOf k) k.cost, none)
        else
          let qc := qb.visit prev (depthOf k)
          if f.goal s then .ok ((qc.updUb (f.cost s)).updMin k.cost, some (s, k.cost))
          else do
            let ns ← f.next s
            Search.loop f mincost maxBJ fuel (qc.put f.cost ns (depthOf k + 1)) (some (depthOf k))

/-- after the loop: an exhausted frontier means the minimum was reached -/
def Search.pass {S : Type} (f : Fns S) (mincost : Option Rat) (maxBJ : Option Nat) (fuel : Nat) (q : Search S) :
    R (Search S × Option (S × Rat)) := do
  let (q, r) ← Search.loop f mincost maxBJ fuel q none
  match r with
  | some x => .ok (q, some x)
  | none => .ok (if q.queue.isEmpty then { q with minReached := true } else q, none)

/-! ### `CutOptimization` and `LOCutsOptimizer.optimize` -/

/-- least `k` with `2^k ≥ x` (`⌈log₂ x⌉` for `x ≥ 1`) -/
def ceilLog2 (x : Rat) : Nat → Nat → Nat
  | 0, k => k
  | fuel + 1, k => if ((2 : Rat) ^ k) ≥ x then k else ceilLog2 x fuel (k + 1)

/-- `max_wire_cuts_gamma`: `int(ceil(log2(γ+1) − 1))` -/
def maxWireCutsGamma (g : Rat) : Nat := (ceilLog2 (g + 1) 4096 0) - 1

structure Result where
  best : St
  minReached : Bool
  passes : Nat
  visited : Nat
  enqueued : Nat
  deriving Repr, Inhabited

def noneStateErr : Err := .value "None state encountered: no cut state satisfying the specified constraints and settings could be found."

/-- repeated `optimization_pass` calls until `None`; `out` collects `(cost, state)`; `returned` is `goal_state_returned` -/
def passes (f : Fns St) (cfg : Settings) (greedyState : Option St) (fuel : Nat) :
    Nat → Search St → Bool → List (Rat × St) → R (Search St × List (Rat × St))
  | 0, q, _, out => .ok (q, out)
  | n + 1, q, returned, out => do
    let (q, r) ← Search.pass f (some cfg.maxGamma) cfg.maxBackjumps fuel q
    match r with
    | some (s, c) => passes f cfg greedyState fuel n q true (out ++ [(c, s)])
    | none =>
      if !returned then
        match greedyState with
        | some g => passes f cfg greedyState fuel n q true (out ++ [(g.gammaUB, g)])
        | none => .error noneStateErr
      else .ok (q, out)

def firstMin : List (Rat × St) → Option (Rat × St)
  | [] => none
  | x :: rest => match firstMin rest with
    | none => some x
    | some y => if y.1 < x.1 then some y else some x

/-- the wire budget of the main search: bounded by the circuit and by the greedy incumbent (or, without one, by `max_gamma`) -/
def wireBudget (cfg : Settings) (mwcCircuit : Nat) (g : Option St) : Nat :=
  match g with
  | some gs => min mwcCircuit (maxWireCutsGamma gs.gammaUB)
  | none => min mwcCircuit (maxWireCutsGamma cfg.maxGamma)

def searchFns (cfg : Settings) (gates : List Gate) (W : Nat) : Fns St :=
  { cost := (·.gammaUB), next := nextStates cfg gates W, goal := isGoal gates }

def emptySearch (rnds : List Rat) : Search St :=
  { queue := [], rnds := rnds, seq := 0, ub := none, minReached := false, backjumps := 0, visited := 0, enqueued := 0 }

/-- `Search.initialize` followed by the incumbent update from the greedy state -/
def startSearch (f : Fns St) (start : St) (g : Option St) (rnds : List Rat) : Search St :=
  let q1 := (emptySearch rnds).put f.cost [start] 0
  match g with | some gs => q1.updUb gs.gammaUB | none => q1

def optimize (cfg : Settings) (gates : List Gate) (numQubits W : Nat) (rnds : List Rat) (fuel : Nat) : R Result := do
  let mwcCircuit := (gates.map (·.qubits.length)).sum
  let g ← greedy cfg gates W (gates.length + 1) (St.init numQubits mwcCircuit)
  let f := searchFns cfg gates W
  let (q, out) ← passes f cfg g fuel fuel (startSearch f (St.init numQubits (wireBudget cfg mwcCircuit g)) g rnds) false []
  match firstMin out with
  | some (_, best) => .ok { best := best, minReached := q.minReached, passes := out.length, visited := q.visited, enqueued := q.enqueued }
  | none => .error noneStateErr

/-! ### `find_cuts`: conversion, validation and export -/

/-- `NameToIDMap`: numeric IDs in order of first use -/
def assignIds (instrs : List CInstr) (nq : Nat) : List Nat :=
  instrs.foldl (fun acc i =>
    if i.name = "barrier" ∧ i.qubits.length = nq then acc
    else i.qubits.foldl (fun acc q => if q ∈ acc then acc else acc ++ [q]) acc) []

def idOf (ids : List Nat) (q : Nat) : Nat := ids.idxOf q

/-- `get_multiqubit_gates` on the converted list -/
def multiqubitGates (instrs : List CInstr) (nq : Nat) : List Gate :=
  let ids := assignIds instrs nq
  (instrs.zipIdx.filter fun (ik : CInstr × Nat) =>
      !(ik.1.name = "barrier" ∧ ik.1.qubits.length = nq) && ik.1.qubits.length > 1 && ik.1.name != "barrier").map
    fun (ik : CInstr × Nat) => { idx := ik.2, qubits := ik.1.qubits.map (idOf ids), gamma := ik.1.gamma }

inductive OutItem where
  | orig (i : Nat)
  | cut (i : Nat)                 -- instruction `i` wrapped as a `TwoQubitQPDGate`
  | marker (qubit : Nat)          -- `CutWire` on this circuit qubit
  deriving Repr, DecidableEq, Inhabited

structure Output where
  items : List OutItem
  cuts : List (String × Nat)
  overhead : Rat
  minReached : Bool
  deriving Repr, Inhabited

/-- markers for one wire-cut action, in insertion order -/
def markersOf (instrs : List CInstr) (a : Act) : List OutItem :=
  a.args.map fun arg => .marker (((instrs.getD a.gate default).qubits).getD (arg.1 - 1) 0)

/-- stable insertion sort of the wire-cut actions by instruction id (`sorted(..., key=instruction_id)`) -/
def insertByGate (a : Act) : List Act → List Act
  | [] => [a]
  | b :: bs => if a.gate < b.gate then a :: b :: bs else b :: insertByGate a bs

def sortByGate (as : List Act) : List Act := as.foldl (fun acc a => insertByGate a acc) []

/-- insert `ms` at position `pos` -/
def insertAt (items : List OutItem) (pos : Nat) (ms : List OutItem) : List OutItem :=
  items.take pos ++ ms ++ items.drop pos

def exportCuts (instrs : List CInstr) (best : St) (minReached : Bool) : Output :=
  let gateIds := (best.actions.filter (·.kind = .gateCut)).map (·.gate)
  let base : List OutItem := (List.range instrs.length).map fun i => if i ∈ gateIds then .cut i else .orig i
  let wires := sortByGate (best.actions.filter (·.kind ≠ .gateCut))
  let (items, _) := wires.foldl (fun (acc : List OutItem × Nat) a =>
      let ms := markersOf instrs a
      (insertAt acc.1 (a.gate + acc.2) ms, acc.2 + ms.length)) (base, 0)
  let cuts := (items.zipIdx.filterMap fun (ik : OutItem × Nat) => match ik.1 with
    | .cut _ => some ("Gate Cut", ik.2)
    | .marker _ => some ("Wire Cut", ik.2)
    | .orig _ => none)
  { items := items, cuts := cuts, overhead := best.gammaUB * best.gammaUB, minReached := minReached }

/-- `OptimizationSettings.__post_init__` / `DeviceConstraints.__post_init__` -/
def validate (cfg : Settings) (W : Int) : R Unit :=
  if cfg.maxGamma < 1 then .error (.value "max_gamma must be a positive definite integer.")
  else if W < 1 then .error (.value "qubits_per_subcircuit must be a positive definite integer.")
  else .ok ()

def findCuts (instrs : List CInstr) (nq : Nat) (cfg : Settings) (W : Nat) (rnds : List Rat) (fuel : Nat) : R Output := do
  let gates := multiqubitGates instrs nq
  let numQubits := (assignIds instrs nq).length
  let r ← optimize cfg gates numQubits W rnds fuel
  .ok (exportCuts instrs r.best r.minReached)

end CKT.CF
