import CKT.Model.Channel
/-!
# Symbolic gate table and the quasi-probability bases of `qpd/decompositions.py`

Variables: `x0 = cos θ'`, `x1 = sin θ'` (θ' as in the source: `-θ/2` for rxx/ryy/rzz, `θ/4` for the controlled
rotations and cp), `x2 = r = √2/2`, `x3..x10 = Re u₀, Im u₀, …, Re u₃, Im u₃` (KAK path).
Rules: `r² = 1/2`, `x1² = 1 - x0²`.

The unitaries are Qiskit's documented matrices (little endian); they are compared numerically with
`Operator(gate).data` on every run of the C02 check, as are the transfer matrices of all one-qubit operations.
-/
namespace CKT
open Poly

def pc (q : Rat) : Poly := Poly.const q
def pv (i : Nat) : Poly := Poly.var i
def X0 : Poly := pv 0
def X1 : Poly := pv 1
def Rr : Poly := pv 2

def stdRules : Rules := [(2, pc (1/2)), (1, Poly.sub (pc 1) (Poly.mul X0 X0))]

/-- polynomial operations that rewrite with the rules after every product -/
def polyOpsR (rules : Rules) (fuel : Nat) : Ops Poly :=
  ⟨Poly.zero, Poly.one, Poly.add, fun p q => Poly.reduce rules fuel (Poly.mul p q), Poly.neg, Poly.scale⟩

def PO : Ops Poly := polyOpsR stdRules 2

def cxp (re im : Poly) : Cx Poly := ⟨re, im⟩
def cq (re im : Rat) : Cx Poly := ⟨pc re, pc im⟩
def Z0 : Cx Poly := cq 0 0
def C1 : Cx Poly := cq 1 0
def CI : Cx Poly := cq 0 1

/-! ### one-qubit operations -/

def uX : Ops.CMat Poly := [[Z0, C1], [C1, Z0]]
def uY : Ops.CMat Poly := [[Z0, cq 0 (-1)], [CI, Z0]]
def uZ : Ops.CMat Poly := [[C1, Z0], [Z0, cq (-1) 0]]
def uH : Ops.CMat Poly := [[cxp Rr [], cxp Rr []], [cxp Rr [], cxp (Poly.neg Rr) []]]
def uS : Ops.CMat Poly := [[C1, Z0], [Z0, CI]]
def uSdg : Ops.CMat Poly := [[C1, Z0], [Z0, cq 0 (-1)]]
def uSX : Ops.CMat Poly := [[cq (1/2) (1/2), cq (1/2) (-1/2)], [cq (1/2) (-1/2), cq (1/2) (1/2)]]
def uSXdg : Ops.CMat Poly := [[cq (1/2) (-1/2), cq (1/2) (1/2)], [cq (1/2) (1/2), cq (1/2) (-1/2)]]
def uT : Ops.CMat Poly := [[C1, Z0], [Z0, cxp Rr Rr]]
def uTdg : Ops.CMat Poly := [[C1, Z0], [Z0, cxp Rr (Poly.neg Rr)]]
def uI : Ops.CMat Poly := [[C1, Z0], [Z0, C1]]
def P0m : Ops.CMat Poly := [[C1, Z0], [Z0, Z0]]
def P1m : Ops.CMat Poly := [[Z0, Z0], [Z0, C1]]
def K01 : Ops.CMat Poly := [[Z0, C1], [Z0, Z0]]

/-- the QPD measurement marker: outcome 0 with sign +, outcome 1 with sign − -/
def krausMeas : Ops.Kraus Poly := [(false, P0m), (true, P1m)]
/-- the reset channel -/
def krausReset : Ops.Kraus Poly := [(false, P0m), (false, K01)]

def fixedUnitary : String → Option (Ops.CMat Poly)
  | "x" => some uX | "y" => some uY | "z" => some uZ | "h" => some uH | "s" => some uS | "sdg" => some uSdg
  | "sx" => some uSX | "sxdg" => some uSXdg | "t" => some uT | "tdg" => some uTdg | "id" => some uI
  | _ => none

def SOp.sem (o : SOp) : OpSem Poly :=
  match o.rot with
  | some (ax, c, s) => .ptm (PO.rotPtm ax c s)
  | none =>
    if o.name = "qpd_measure" then .kraus krausMeas
    else if o.name = "reset" then .kraus krausReset
    else match fixedUnitary o.name with
      | some u => .kraus [(false, u)]
      | none => .ptm (PO.rident 4)   -- never reached for the tables below (checked by `basesWellFormed`)

def g (n : String) : SOp := { name := n }
def rotOp (n : String) (ax : Nat) (c s : Poly) : SOp := { name := n, rot := some (ax, c, s) }
def MEAS : SOp := g "qpd_measure"
def RESET : SOp := g "reset"

structure SBasis where
  maps : List (List SOp × List SOp)
  coeffs : List Poly
  deriving Inhabited

/-! ### two-qubit targets (Kraus lists on 4×4 matrices) -/

def cI2 : Ops.CMat Poly := uI

/-- controlled-`V` with control qubit 0 and target qubit 1: `I ⊗ Π₀ + V ⊗ Π₁` -/
def ctrl (V : Ops.CMat Poly) : Ops.CMat Poly := PO.cmadd 4 (PO.kron2 uI P0m) (PO.kron2 V P1m)

/-- `a·I⊗I + b·σ⊗σ` with complex polynomial `a, b` -/
def twoTerm (a b : Cx Poly) (sig : Ops.CMat Poly) : Ops.CMat Poly :=
  Ops.cmk 4 fun i j => PO.cadd (PO.cmul a (PO.cget (PO.kron2 uI uI) i j)) (PO.cmul b (PO.cget (PO.kron2 sig sig) i j))

/-- the data of an angle θ' needed by the rotation family -/
structure Angle where
  c2 : Poly   -- cos² θ'
  s2 : Poly   -- sin² θ'
  cs : Poly   -- cos θ' sin θ'
  rc : Poly   -- cos 2θ'
  rs : Poly   -- sin 2θ'

def genericAngle : Angle :=
  { c2 := PO.mul X0 X0, s2 := PO.mul X1 X1, cs := PO.mul X0 X1,
    rc := Poly.sub (PO.mul X0 X0) (PO.mul X1 X1), rs := Poly.scale 2 (PO.mul X0 X1) }

/-- θ' = ±π/8 -/
def piOver8 (neg : Bool) : Angle :=
  let sg : Rat := if neg then -1 else 1
  { c2 := Poly.add (pc (1/2)) (Poly.scale (1/2) Rr), s2 := Poly.sub (pc (1/2)) (Poly.scale (1/2) Rr),
    cs := Poly.scale (sg / 2) Rr, rc := Rr, rs := Poly.scale sg Rr }

def axisOf (name : String) : Nat :=
  if name = "rxx" || name = "crx" then 1 else if name = "ryy" || name = "cry" then 2 else 3

def pauliU : Nat → Ops.CMat Poly
  | 1 => uX | 2 => uY | _ => uZ

/-- `cos(φ)·I − i·sin(φ)·σ` : rotation `R_σ(2φ)` -/
def rotU (ax : Nat) (c s : Poly) : Ops.CMat Poly :=
  Ops.cmk 2 fun i j => PO.cadd (PO.cmul ⟨c, []⟩ (PO.cget uI i j)) (PO.cmul ⟨[], Poly.neg s⟩ (PO.cget (pauliU ax) i j))

/-- target of the uncontrolled rotations: `R_σσ(θ) = cos(θ/2) − i sin(θ/2) σσ = x0 + i·x1·σσ` (θ = −2θ') -/
def targetRot2 (ax : Nat) : Ops.Kraus Poly := [(false, twoTerm ⟨X0, []⟩ ⟨[], X1⟩ (pauliU ax))]

/-- target of the controlled rotations: controlled `R_σ(θ)`, θ/2 = 2θ' -/
def targetCRot (ax : Nat) (a : Angle) : Ops.Kraus Poly := [(false, ctrl (rotU ax a.rc a.rs))]

/-- controlled phase `diag(1,1,1,e^{iθ})`, `e^{iθ} = (rc + i rs)²` -/
def targetCP (a : Angle) : Ops.Kraus Poly :=
  let e2 : Cx Poly := ⟨a.rc, a.rs⟩
  [(false, ctrl [[C1, Z0], [Z0, PO.cmul e2 e2]])]

def uECR : Ops.CMat Poly :=
  let r : Cx Poly := ⟨Rr, []⟩; let ir : Cx Poly := ⟨[], Rr⟩; let mir : Cx Poly := ⟨[], Poly.neg Rr⟩
  [[Z0, r, Z0, ir], [r, Z0, mir, Z0], [Z0, ir, Z0, r], [mir, Z0, r, Z0]]

def uSwap : Ops.CMat Poly := [[C1, Z0, Z0, Z0], [Z0, Z0, C1, Z0], [Z0, C1, Z0, Z0], [Z0, Z0, Z0, C1]]
def uISwap : Ops.CMat Poly := [[C1, Z0, Z0, Z0], [Z0, Z0, CI, Z0], [Z0, CI, Z0, Z0], [Z0, Z0, Z0, C1]]
def uDCX : Ops.CMat Poly := [[C1, Z0, Z0, Z0], [Z0, Z0, Z0, C1], [Z0, C1, Z0, Z0], [Z0, Z0, C1, Z0]]

/-- `Σ_α u_α σ_α⊗σ_α` -/
def uKak (u : List (Cx Poly)) : Ops.CMat Poly :=
  Ops.cmk 4 fun i j => PO.csum ((List.range 4).map fun k =>
    PO.cmul (u.getD k Z0) (PO.cget (PO.kron2 (PO.pauli k) (PO.pauli k)) i j))

/-- the generic coefficient vector `u_k = x_{3+2k} + i·x_{4+2k}` -/
def uVars : List (Cx Poly) := (List.range 4).map fun k => ⟨pv (3 + 2 * k), pv (4 + 2 * k)⟩

/-- Move = reset of qubit 1, then swap: Kraus operators `SWAP·(Π₀⊗I)`, `SWAP·(|0⟩⟨1|⊗I)` -/
def targetMove : Ops.Kraus Poly :=
  [(false, PO.cmmul 4 uSwap (PO.kron2 P0m uI)), (false, PO.cmmul 4 uSwap (PO.kron2 K01 uI))]

/-! ### the bases, transcribed from `qpd/decompositions.py` -/

/-- rxx, ryy, rzz, crx, cry, crz (and, through `pre`, cs/csdg/cp/csx/csxdg which prepend one operation on side 0) -/
def rotFamilyBasis (name : String) (a : Angle) (pre : Option SOp := none) : SBasis :=
  let ax := axisOf name
  let controlled := name.startsWith "c"
  let pauli := g (if ax = 1 then "x" else if ax = 2 then "y" else "z")
  let rplus := if ax = 1 then g "sx" else if ax = 2 then rotOp "ry" 2 (pc 0) (pc 1) else g "s"
  let rminus := if ax = 1 then g "sxdg" else if ax = 2 then rotOp "ry" 2 (pc 0) (pc (-1)) else g "sdg"
  let meas := if ax = 1 then [g "h", MEAS, g "h"] else if ax = 2 then [g "sx", MEAS, g "sxdg"] else [MEAS]
  let side0 : List (List SOp) := [[], [pauli], meas, meas, [rplus], [rminus]]
  let side1 : List (List SOp) := [[], [pauli], [rplus], [rminus], meas, meas]
  let dress0 (ops : List SOp) : List SOp :=
    if controlled && !ops.isEmpty && name != "crz" then
      (if name = "cry" then [g "h", g "s"] ++ ops ++ [g "sdg", g "h"] else [g "h"] ++ ops ++ [g "h"])
    else ops
  let rot := rotOp (if ax = 1 then "rx" else if ax = 2 then "ry" else "rz") ax a.rc a.rs
  let dress1 (ops : List SOp) : List SOp := if controlled then ops ++ [rot] else ops
  let pre0 (ops : List SOp) : List SOp := match pre with | some p => p :: ops | none => ops
  let mcs := Poly.neg a.cs
  { maps := (side0.map (fun o => pre0 (dress0 o))).zip (side1.map dress1),
    coeffs := [a.c2, a.s2, mcs, a.cs, mcs, a.cs] }

/-- cx, cy, cz, ch -/
def cxFamilyBasis (name : String) : SBasis :=
  let meas := [g "sdg", MEAS]
  let side0 : List (List SOp) := [[g "sdg"], [g "s"], meas, meas, [], [g "z"]]
  let side1 : List (List SOp) := [[g "sdg"], [g "s"], [], [g "z"], meas, meas]
  let dress1 (ops : List SOp) : List SOp :=
    if name = "cz" || ops.isEmpty then ops
    else if name = "cx" then [g "h"] ++ ops ++ [g "h"]
    else if name = "cy" then [g "sdg", g "h"] ++ ops ++ [g "h", g "s"]
    else [rotOp "ry" 2 Rr (Poly.neg Rr)] ++ ops ++ [rotOp "ry" 2 Rr Rr]
  { maps := side0.zip (side1.map dress1),
    coeffs := [pc (1/2), pc (1/2), pc (1/2), pc (-1/2), pc (1/2), pc (-1/2)] }

def ecrBasis : SBasis :=
  let b := cxFamilyBasis "cx"
  { maps := b.maps.map fun m => ([g "s"] ++ m.1 ++ [g "x"], [g "sx"] ++ m.2), coeffs := b.coeffs }

def moveBasis : SBasis :=
  let im := [RESET]
  let xm := [g "h", MEAS, RESET]
  let ym := [g "sx", MEAS, RESET]
  let zm := [MEAS, RESET]
  let p0 := [RESET]
  let p1 := [RESET, g "x"]
  let pp := [RESET, g "h"]
  let pm := [RESET, g "x", g "h"]
  let pip := [RESET, g "sxdg"]
  let pim := [RESET, g "x", g "sxdg"]
  { maps := [(im, p0), (im, p1), (xm, pp), (xm, pm), (ym, pip), (ym, pim), (zm, p0), (zm, p1)],
    coeffs := [pc (1/2), pc (1/2), pc (1/2), pc (-1/2), pc (1/2), pc (-1/2), pc (1/2), pc (-1/2)] }

/-! ### the KAK table (rows are regenerated from the Python source into `CKT/Generated/KakTable.lean`) -/

/-- coefficient expressions that occur in `_nonlocal_qpd_basis_from_u` -/
inductive KCoef where
  | abs2 (k : Nat)                 -- |u_k|²
  | re (f : Rat) (j k : Nat)       -- f · Re(u_j · conj u_k)
  | im (f : Rat) (j k : Nat)       -- f · Im(u_j · conj u_k)
  deriving Repr, DecidableEq, Inhabited

def KCoef.poly (u : List (Cx Poly)) : KCoef → Poly
  | .abs2 k => let z := u.getD k Z0; Poly.add (PO.mul z.re z.re) (PO.mul z.im z.im)
  | .re f j k => Poly.scale f (PO.cmul (u.getD j Z0) (PO.conj (u.getD k Z0))).re
  | .im f j k => Poly.scale f (PO.cmul (u.getD j Z0) (PO.conj (u.getD k Z0))).im

def lookupList (tbl : List (String × List SOp)) (n : String) : List SOp :=
  match tbl.find? (fun e => e.1 = n) with
  | some e => e.2
  | none => []

def kakBasis (tbl : List (String × List SOp)) (rows : List (KCoef × String × String)) (u : List (Cx Poly)) : SBasis :=
  { maps := rows.map fun r => (lookupList tbl r.2.1, lookupList tbl r.2.2),
    coeffs := rows.map fun r => r.1.poly u }

def dcxDress (b : SBasis) : SBasis :=
  { maps := b.maps.map fun m => ([g "h", g "sdg"] ++ m.1, [g "sdg"] ++ m.2 ++ [g "h"]), coeffs := b.coeffs }

/-! ### the check -/

def SBasis.terms (b : SBasis) : List (Poly × Ops.RMat Poly × Ops.RMat Poly) :=
  (b.coeffs.zip b.maps).map fun cm => (cm.1, PO.seqPtm (cm.2.1.map SOp.sem), PO.seqPtm (cm.2.2.map SOp.sem))

/-- all 256 entries of the target's transfer matrix agree with the basis' tensor-product sum, modulo the rules -/
def checkBasis (target : Ops.Kraus Poly) (b : SBasis) : Bool :=
  let R := PO.ptm2 target
  let ts := b.terms
  (List.range 16).all fun a => (List.range 16).all fun c =>
    Poly.isZero (Poly.reduce stdRules 4 (Poly.sub (PO.rget R a c) (PO.basisEntry ts a c)))

end CKT
