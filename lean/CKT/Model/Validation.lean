import CKT.Model.Basic
/-!
# Argument validation of the public entry points that is not already part of another model

* `generate_cutting_experiments`: argument forms and the sample budget (`not num_samples >= 1`, so NaN is refused);
* `reconstruct_expectation_values`: argument forms, partition keys, phases;
* the QPD gate objects: `basis_id` setter, `SingleQubitQPDGate` half index, `TwoQubitQPDGate` arity;
* `QPDBasis` construction.
The order of the checks is the order in the source.
-/
namespace CKT.Validation

inductive Budget where
  | nan
  | inf
  | fin (q : Rat)
  deriving Repr, DecidableEq, Inhabited

/-- Python's `num_samples >= 1` -/
def Budget.geOne : Budget → Bool
  | .nan => false
  | .inf => true
  | .fin q => 1 ≤ q

inductive Form where
  | single      -- QuantumCircuit / PauliList / SamplerResult|PrimitiveResult
  | dict        -- dict keyed by partition labels
  | other
  deriving Repr, DecidableEq, Inhabited

/-- the argument checks at the top of `generate_cutting_experiments` -/
def checkGenerateArgs (circuits observables : Form) (n : Budget) : R Unit :=
  if circuits = .single ∧ observables ≠ .single then .error (.value "If the input circuits is a QuantumCircuit, the observables must be a PauliList.")
  else if circuits = .dict ∧ observables ≠ .dict then .error (.value "the input observables must also be represented by such a dictionary.")
  else if !n.geOne then .error (.value "num_samples must be at least 1.")
  else .ok ()

/-- the argument checks at the top of `reconstruct_expectation_values`; `phases` = phases of all observables in order,
`obsKeys`/`resKeys` = partition labels (as a set, order irrelevant) -/
def checkReconstructArgs (observables results : Form) (phases : List Nat) (obsKeys resKeys : List Nat) : R Unit :=
  match observables with
  | .single =>
    if results ≠ .single then .error (.value "If observables is a PauliList, results must be a SamplerResult or PrimitiveResult instance.")
    else if phases.any (· ≠ 0) then .error (.value "An input observable has a phase not equal to 1.")
    else .ok ()
  | .dict =>
    if results ≠ .dict then .error (.value "If observables is a dictionary, results must also be a dictionary.")
    else if !(obsKeys.all (· ∈ resKeys) && resKeys.all (· ∈ obsKeys)) then .error (.value "The subsystem labels of the observables and results do not match.")
    else if phases.any (· ≠ 0) then .error (.value "An input observable has a phase not equal to 1.")
    else .ok ()
  | .other => .error (.value "observables must be either a PauliList or dict.")

/-- `BaseQPDGate.basis_id` setter -/
def setBasisId (nmaps : Nat) (id : Option Int) : R (Option Nat) :=
  match id with
  | none => .ok none
  | some i => if 0 ≤ i ∧ i < nmaps then .ok (some i.toNat) else .error (.value "Basis ID out of range")

/-- `SingleQubitQPDGate(basis, qubit_id)` -/
def mkSingleQubitGate (basisQubits : Nat) (qubitId : Nat) : R Nat :=
  if qubitId ≥ basisQubits then .error (.value "'qubit_id' out of range") else .ok qubitId

/-- `TwoQubitQPDGate(basis)` -/
def mkTwoQubitGate (basisQubits : Nat) : R Unit :=
  if basisQubits ≠ 2 then .error (.value "TwoQubitQPDGate requires a two-qubit basis") else .ok ()

/-- `QPDBasis(maps, coeffs)`: `arities` = length of every map tuple -/
def mkBasis (arities : List Nat) (ncoeffs : Nat) : R Unit :=
  match arities with
  | [] => .error (.value "Number of maps passed to QPDBasis must be nonzero.")
  | a :: rest =>
    if a > 2 then .error (.value "QPDBasis supports at most two qubits.")
    else if rest.any (· ≠ a) then .error (.value "All maps passed to QPDBasis must act on the same number of qubits.")
    else if ncoeffs ≠ (a :: rest).length then .error (.value "Coefficients must be same length as maps.")
    else .ok ()

/-- the classical-bit guard of `cut_gates` (hence of `find_cuts`, which marks its gate cuts through it) and of `partition_problem`:
`nregs` = number of classical registers, `nbits` = number of classical bits (registered or not) -/
def checkNoClassical (nregs nbits : Nat) : R Unit :=
  if nregs ≠ 0 ∨ nbits ≠ 0 then .error (.value "Circuits input to cut_gates should contain no classical registers or bits.") else .ok ()

end CKT.Validation
