import CKT.Model.Basic
/-!
# Pauli strings, restriction to a subsystem, expansion onto a larger circuit
Models `observables_restricted_to_subsystem`, `decompose_observables`, `expand_observables`.
Letters are indexed by qubit (the adapter undoes Qiskit's little-endian labels).
-/
namespace CKT

inductive P | I | X | Y | Z
  deriving Repr, DecidableEq, Inhabited

structure PauliStr where
  letters : List P
  /-- exponent of `-i` (Qiskit's group phase), 0..3 -/
  phase   : Nat := 0
  deriving Repr, DecidableEq, Inhabited

/-- `observables_restricted_to_subsystem` for one observable: letters of `qs` in the given order, phase dropped. -/
def restrict (qs : List Nat) (o : PauliStr) : PauliStr :=
  { letters := qs.map (fun q => o.letters.getD q P.I), phase := 0 }

/-- positions carrying label `l`, ascending (`qubits_by_subsystem[l]`) -/
def indicesOf (labels : List Nat) (l : Nat) : List Nat :=
  (List.range labels.length).filter (fun i => labels.getD i 0 == l)

/-- labels in order of first occurrence (dict insertion order) -/
def uniqueLabels (labels : List Nat) : List Nat := labels.eraseDups

/-- `decompose_observables`: one entry per label (first-occurrence order), each the list of restrictions. -/
def decomposeObservables (labels : List Nat) (obs : List PauliStr) : List (Nat × List PauliStr) :=
  (uniqueLabels labels).map fun l => (l, obs.map (restrict (indicesOf labels l)))

/-- Qubit identities are tokens (`Nat`); `find_bit` is `idxOf`. -/
def findBit (final : List Nat) (q : Nat) : Option Nat :=
  let i := final.idxOf q
  if i < final.length then some i else none

def expandMapping : (orig final : List Nat) → Option (List Nat)
  | [], _ => some []
  | q :: qs, final =>
    match findBit final q, expandMapping qs final with
    | some i, some r => some (i :: r)
    | _, _ => none

/-- letters of the expanded observable: position `p` holds the letter of the (last) original qubit mapped to `p`. -/
def scatterLetters (n : Nat) (mapping : List Nat) (letters : List P) : List P :=
  (mapping.zip letters).foldl (fun acc ml => acc.set ml.1 ml.2) (List.replicate n P.I)

/-- `expand_observables` -/
def expandObservables (obs : List PauliStr) (obsNumQubits : Nat) (orig final : List Nat) : R (List PauliStr) :=
  if obsNumQubits != orig.length then .error (.value "qubit count mismatch") else
  match expandMapping orig final with
  | none => .error (.value "qubit not found in final circuit")
  | some m => .ok (obs.map fun o => { letters := scatterLetters final.length m o.letters, phase := o.phase })

end CKT
