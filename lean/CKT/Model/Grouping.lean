import CKT.Model.Basic
import CKT.Model.Pauli
/-!
# Model of `utils/observable_grouping.py` and the measurement-appending helpers of `cutting_experiments.py`
The grouping itself (`PauliList.unique`, `group_commuting`) is Qiskit's; `checkCollection` validates what it returned.
-/
namespace CKT

/-- merge one observable into the running general observable (letter-wise) -/
def mergeLetters : List P → List P → Option (List P)
  | [], [] => some []
  | g :: gs, o :: os =>
    match mergeLetters gs os with
    | none => none
    | some r =>
      if o = P.I then some (g :: r)
      else if g = o then some (g :: r)
      else if g ≠ P.I then none
      else some (o :: r)
  | _, _ => none   -- unreachable: lengths are checked first

/-- `most_general_observable` -/
def mostGeneral (obs : List PauliStr) (numQubits : Option Nat) : R PauliStr :=
  match obs with
  | [] => .error (.value "empty input sequence")
  | o0 :: _ =>
    let n := numQubits.getD o0.letters.length
    let rec go : List PauliStr → List P → R (List P)
      | [], g => .ok g
      | o :: rest, g =>
        if o.letters.length != n then .error (.value "incorrect qubit count")
        else match mergeLetters g o.letters with
          | none => .error (.value "observables are incompatible")
          | some g' => go rest g'
    match go obs (List.replicate n P.I) with
    | .ok g => .ok { letters := g, phase := 0 }
    | .error e => .error e

/-- `pauli_indices`: positions of the non-identity letters of the general observable -/
def pauliIndices (general : PauliStr) : List Nat :=
  (List.range general.letters.length).filter (fun i => general.letters.getD i P.I != P.I)

/-- bitmask of one member: bit `k` is set iff the member is non-identity at `indices[k]` -/
def maskGo (member : PauliStr) : List Nat → Nat → Nat
  | [], _ => 0
  | j :: rest, k => (if member.letters.getD j P.I != P.I then 1 <<< k else 0) ||| maskGo member rest (k + 1)

def maskOf (member : PauliStr) (indices : List Nat) : Nat := maskGo member indices 0

structure Group where
  general : PauliStr
  members : List PauliStr
  indices : List Nat
  masks   : List Nat
  deriving Repr

/-- `CommutingObservableGroup.__post_init__` -/
def mkGroup (general : PauliStr) (members : List PauliStr) : R Group :=
  if members.any (fun m => m.phase != 0) then .error (.value "only phase 0 supported")
  else
    let idx := pauliIndices general
    .ok { general, members, indices := idx, masks := members.map (fun m => maskOf m idx) }

/-- is every member letter-wise `I` or equal to the general observable? -/
def compatible (general : PauliStr) (m : PauliStr) : Bool :=
  m.letters.length == general.letters.length &&
  (List.range m.letters.length).all (fun i => m.letters.getD i P.I == P.I || m.letters.getD i P.I == general.letters.getD i P.I)

/-- validation of a collection produced by the real code (groups + lookup) against the requested observables -/
def checkCollection (obs : List PauliStr) (groups : List Group) (lookup : List (List P × List (Nat × Nat))) : Bool :=
  -- every requested observable is found through `lookup`, and the entry points at itself
  obs.all (fun o => match lookup.find? (fun e => e.1 == o.letters) with
    | none => false
    | some e => !e.2.isEmpty && e.2.all (fun mn =>
        match groups[mn.1]? with
        | some g => (match g.members[mn.2]? with | some m => m.letters == o.letters | none => false)
        | none => false))
  -- every group is compatible with its general observable and records indices / masks correctly
  && groups.all (fun g =>
      g.members.all (compatible g.general) && g.indices == pauliIndices g.general
      && g.masks == g.members.map (fun m => maskOf m g.indices))

/-- `_get_pauli_indices`: a dummy measurement of qubit 0 is forced when nothing needs measuring -/
def measuredIndices (indices : List Nat) : List Nat := if indices.isEmpty then [0] else indices

/-- the rotations + measurements appended for one group; `base` = index of the first bit of the
`observable_measurements` register, `loc` = qubit_locations -/
def measurementInstrs (general : PauliStr) (indices : List Nat) (loc : Nat → Nat) (base : Nat) : List Instr :=
  ((measuredIndices indices).zipIdx).flatMap fun (sq : Nat × Nat) =>
    let q := loc sq.1
    let rot : List Instr := match general.letters.getD sq.1 P.I with
      | P.X => [{ name := "h", qubits := [q] }]
      | P.Y => [{ name := "sx", qubits := [q] }]
      | _ => []
    rot ++ [{ name := "measure", qubits := [q], clbits := [base + sq.2] }]

/-- `_append_measurement_register` followed by `_append_measurement_circuit` (identity qubit map) -/
def appendMeasurement (c : Circuit) (general : PauliStr) (indices : List Nat) : R Circuit :=
  if c.nq != general.letters.length then .error (.value "qubit count does not match")
  else .ok { c with cregs := c.cregs ++ [("observable_measurements", (measuredIndices indices).length)],
                    instrs := c.instrs ++ measurementInstrs general indices id c.ncl }

/-- the same with an explicit `qubit_locations` (observable qubit `i` sits at circuit qubit `locs[i]`; the circuit may be wider) -/
def appendMeasurementLoc (c : Circuit) (general : PauliStr) (indices : List Nat) (locs : Option (List Nat)) : R Circuit :=
  match locs with
  | none => appendMeasurement c general indices
  | some l =>
    if l.length != general.letters.length then .error (.value "qubit_locations has the wrong number of elements")
    else .ok { c with cregs := c.cregs ++ [("observable_measurements", (measuredIndices indices).length)],
                      instrs := c.instrs ++ measurementInstrs general indices (fun i => l.getD i 0) c.ncl }

end CKT
