import CKT.Model.Basic
/-!
# Model of the reset optimisations
`_remove_resets_in_zero_state`, `_remove_final_resets`, `_consolidate_resets` (list scans with
per-qubit state and early exit; deletion by index list = dropping during the scan) and the two
transpiler passes (per-wire view of the DAG).
-/
namespace CKT

def addAll (active : List Nat) : List Nat → List Nat
  | [] => active
  | q :: qs => addAll (if active.contains q then active else q :: active) qs

/-- `_remove_resets_in_zero_state`: drop a reset whose qubit has seen no other instruction yet;
stop scanning once every qubit is active. -/
def removeInitialGo (nq : Nat) : List Instr → List Nat → List Instr
  | [], _ => []
  | i :: rest, active =>
    if isReset i then
      if active.contains (i.qubits.headD 0) then i :: removeInitialGo nq rest active
      else removeInitialGo nq rest active
    else
      let active' := addAll active i.qubits
      if active'.length == nq then i :: rest          -- early exit
      else i :: removeInitialGo nq rest active'

def removeInitialResets (nq : Nat) (l : List Instr) : List Instr := removeInitialGo nq l []

/-- the reverse scan of `_remove_final_resets`, on the reversed list: `ended` starts as all qubits,
a reset on an ended qubit is dropped, any other instruction un-ends its qubits; stop when none is left. -/
def removeFinalGo : List Instr → List Nat → List Instr
  | [], _ => []
  | i :: rest, ended =>
    if isReset i then
      if ended.contains (i.qubits.headD 0) then removeFinalGo rest ended
      else i :: removeFinalGo rest ended
    else
      let ended' := ended.filter (fun q => !i.qubits.contains q)
      if ended'.isEmpty then i :: rest                 -- early exit
      else i :: removeFinalGo rest ended'

def removeFinalResets (nq : Nat) (l : List Instr) : List Instr :=
  (removeFinalGo l.reverse (List.range nq)).reverse

/-- `_consolidate_resets`: `flags` = qubits whose previous instruction was a reset -/
def consolidateGo : List Instr → List Nat → List Instr
  | [], _ => []
  | i :: rest, flags =>
    if isReset i then
      let q := i.qubits.headD 0
      if flags.contains q then consolidateGo rest flags
      else i :: consolidateGo rest (q :: flags)
    else i :: consolidateGo rest (flags.filter (fun q => !i.qubits.contains q))

def consolidateResets (l : List Instr) : List Instr := consolidateGo l []

/-- the three passes in the order `generate_cutting_experiments` applies them -/
def optimizeResets (nq : Nat) (l : List Instr) : List Instr :=
  consolidateResets (removeFinalResets nq (removeInitialResets nq l))

/-! ### per-wire view -/

/-- the instructions touching qubit `q`, in order -/
def wire (q : Nat) (l : List Instr) : List Instr := l.filter (fun i => i.qubits.contains q)

/-- collapse runs of resets to their first element (`prev` = the previous instruction was a reset) -/
def collapseFrom : Bool → List Instr → List Instr
  | _, [] => []
  | prev, i :: rest =>
    if isReset i then (if prev then collapseFrom true rest else i :: collapseFrom true rest)
    else i :: collapseFrom false rest

def collapseResets (l : List Instr) : List Instr := collapseFrom false l

/-- drop trailing elements satisfying `p` -/
def rdropWhile' (p : Instr → Bool) (l : List Instr) : List Instr := (l.reverse.dropWhile p).reverse

/-! ### the transpiler passes (DAG = per-wire successor structure) -/

/-- keep the elements whose index satisfies `p` -/
def keepIdx (l : List Instr) (p : Nat → Bool) : List Instr := (l.zipIdx.filter (fun xi => p xi.2)).map (·.1)

/-- is `k` the last position on the wire of qubit `q`? -/
def isLastOnWire (l : List Instr) (q k : Nat) : Bool :=
  !((l.drop (k + 1)).any (fun j => j.qubits.contains q))

/-- `RemoveFinalReset`: for every qubit whose last operation is a reset, remove that one reset -/
def passRemoveFinalReset (l : List Instr) : List Instr :=
  keepIdx l fun k => match l[k]? with
    | some i => !(isReset i && isLastOnWire l (i.qubits.headD 0) k)
    | none => true

/-- next instruction on the wire of qubit `q` after position `k` -/
def nextOnWire (l : List Instr) (q k : Nat) : Option Instr :=
  (l.drop (k + 1)).find? (fun j => j.qubits.contains q)

/-- `ConsolidateResets`: remove every reset whose successor on the wire is a reset -/
def passConsolidateResets (l : List Instr) : List Instr :=
  keepIdx l fun k => match l[k]? with
    | some i => match nextOnWire l (i.qubits.headD 0) k with
      | some j => !(isReset i && isReset j)
      | none => true
    | none => true

end CKT
