import CKT.Model.Basic
/-!
# Model of `wire_cutting_transforms.py`: wire-cut markers → Move operations on freshly allocated qubits
-/
namespace CKT

def isCutWire (i : Instr) : Bool := i.name == "cut_wire"

/-- `cut_wire_freq[q]` (a `Counter` over the marker instructions' qubits) -/
def markerFreq (l : List Instr) (q : Nat) : Nat :=
  (l.filter (fun i => isCutWire i && i.qubits.headD 0 == q)).length

/-- number of fresh qubits allocated before original qubit `i`'s group = Σ_{j<i} freq j -/
def freshBefore (l : List Instr) (i : Nat) : Nat := ((List.range i).map (markerFreq l)).sum

/-- start position of logical qubit `i`: its first fresh qubit (or itself when it has no marker) -/
def basePos (l : List Instr) (i : Nat) : Nat := i + freshBefore l i

/-- position of the original qubit object `i` in the new circuit -/
def finalPos (l : List Instr) (i : Nat) : Nat := basePos l i + markerFreq l i

/-- new qubit list: `none` = freshly allocated, `some i` = original qubit object `i` -/
def layout (nq : Nat) (l : List Instr) : List (Option Nat) :=
  (List.range nq).flatMap fun i => List.replicate (markerFreq l i) none ++ [some i]

/-- the instruction loop of `_transform_cut_wires`.  `m` is the current mapping, `nb` numbers the bases
of the wrapped Moves (only used by the `cut_wires` factory). -/
def transformGo (wrap : Bool) : List Instr → List Nat → Nat → List Instr
  | [], _, _ => []
  | i :: rest, m, nb =>
    if isCutWire i then
      let q := i.qubits.headD 0
      let p := m.getD q 0
      let mv : Instr := if wrap then
          { name := "qpd_2q", qubits := [p, p + 1], label := some "cut_move", basis := some nb }
        else { name := "move", qubits := [p, p + 1] }
      mv :: transformGo wrap rest (m.set q (p + 1)) (nb + 1)
    else
      { i with qubits := i.qubits.map (fun q => m.getD q 0) } :: transformGo wrap rest m nb

structure WireCutOut where
  nq      : Nat
  layout  : List (Option Nat)
  instrs  : List Instr
  /-- original registers: name and the new positions of their qubits -/
  qregs   : List (String × List Nat)
  cregs   : List (String × Nat)
  deriving Repr

/-- `cut_wires` (`wrap = true`) / `_transform_cuts_to_moves` (`wrap = false`) -/
def transformCutWires (wrap : Bool) (c : Circuit) (qregs : List (String × List Nat)) (nb : Nat) : WireCutOut :=
  let m0 := (List.range c.nq).map (basePos c.instrs)
  { nq := (layout c.nq c.instrs).length, layout := layout c.nq c.instrs,
    instrs := transformGo wrap c.instrs m0 nb,
    qregs := qregs.map (fun r => (r.1, r.2.map (finalPos c.instrs))),
    cregs := c.cregs }

/-- the mapping after processing a prefix: base position plus the markers seen so far on that qubit -/
def mappingAfter (all pre : List Instr) (nq : Nat) : List Nat :=
  (List.range nq).map fun i => basePos all i + markerFreq pre i

end CKT
