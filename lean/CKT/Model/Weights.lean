import CKT.Model.Basic
/-!
# Model of `qpd/weights.py` over exact rationals
`dfs` reproduces the yield sequence of the iterative generator
`_generate_exact_weights_and_conditional_probabilities_assume_sorted`; `generateWeights` is
`_generate_qpd_weights` with the draws of `numpy.random.choice` supplied by an explicit oracle.
The budget `N` is `Option Rat` (`none` = infinity); `atol` is the 1e-14 cut-off.
-/
namespace CKT

inductive Y where
  | full (s : List Nat) (p : Rat)
  | cond (s : List Nat) (arr : List Rat)
  deriving Repr, Inhabited

def absR (x : Rat) : Rat := if x < 0 then -x else x

/-- `arr[isclose(arr, 0, atol)] = 0` -/
def zeroSmall (atol : Rat) (arr : List Rat) : List Rat := arr.map fun x => if absR x ≤ atol then 0 else x

/-- what happens when a level that saw exact weights is popped -/
def finish (top : Bool) (pre : List Nat) (arr : List Rat) (ys : List Y) : List Y × Option Rat :=
  let norm := arr.sum
  if top then (ys ++ [Y.cond [] arr], some norm)
  else if norm != 0 then (ys ++ [Y.cond pre (arr.map (· / norm))], some norm)
  else (ys, some norm)

/-- indices `0,1,…` of `row` visited before the running product drops below the threshold -/
def visited (thr p : Rat) (row : List Rat) : List (Nat × Rat) :=
  (row.zipIdx.map (fun (x : Rat × Nat) => (x.2, x.1))).takeWhile (fun jx => !(p * jx.2 < thr))

/-- depth-first walk over the (sorted) rows.  Returns the yields below this node, in order, and
`some norm` iff an exact weight was found beneath (norm = residual conditional mass). -/
def dfs (thr atol : Rat) : List (List Rat) → Bool → List Nat → Rat → List Y × Option Rat
  | [], _, _, _ => ([], none)
  | [row], top, pre, p =>
    let vis := visited thr p row
    let ys := vis.map fun jx => Y.full (pre ++ [jx.1]) (p * jx.2)
    if vis.isEmpty then (ys, none)
    else
      let arr := zeroSmall atol (row.zipIdx.map fun (x : Rat × Nat) => if x.2 < vis.length then 0 else x.1)
      finish top pre arr ys
  | row :: r2 :: rest, top, pre, p =>
    let vis := visited thr p row
    let kids := vis.map fun jx => (jx.1, dfs thr atol (r2 :: rest) false (pre ++ [jx.1]) (p * jx.2))
    let ys := kids.flatMap fun k => k.2.1
    if kids.all (fun k => k.2.2.isNone) then (ys, none)
    else
      let arr := zeroSmall atol (row.zipIdx.map fun (x : Rat × Nat) =>
        match kids.find? (fun k => k.1 == x.2) with
        | some k => (match k.2.2 with | some norm => x.1 * norm | none => x.1)
        | none => x.1)
      finish top pre arr ys

/-- `_generate_exact_weights_and_conditional_probabilities_assume_sorted` -/
def genSorted (rows : List (List Rat)) (thr atol : Rat) : List Y := (dfs thr atol rows true [] 1).1

/-! ### the wrapper for unsorted rows -/

def insertDesc (x : Nat × Rat) : List (Nat × Rat) → List (Nat × Rat)
  | [] => [x]
  | y :: ys => if y.2 < x.2 then x :: y :: ys else y :: insertDesc x ys

/-- a permutation that sorts `row` in non-increasing order (`argsort()[::-1]`; tie order is numpy's business
and does not influence any value, only the order in which ties are yielded) -/
def sortPerm (row : List Rat) : List Nat :=
  ((row.zipIdx.map (fun (x : Rat × Nat) => (x.2, x.1))).foldr insertDesc []).map (·.1)

def applyPerm (perm : List Nat) (row : List Rat) : List Rat := perm.map (fun i => row.getD i 0)

/-- un-permute a vector given in sorted order back to caller order -/
def unPerm (perm : List Nat) (v : List Rat) : List Rat :=
  (List.range perm.length).map fun orig => v.getD (perm.idxOf orig) 0

/-- `_generate_exact_weights_and_conditional_probabilities` -/
def genUnsorted (rows : List (List Rat)) (thr atol : Rat) : List Y :=
  let perms := rows.map sortPerm
  let sorted := (rows.zip perms).map fun rp => applyPerm rp.2 rp.1
  (genSorted sorted thr atol).map fun
    | Y.full s p => Y.full ((s.zip perms).map fun ip => ip.2.getD ip.1 0) p
    | Y.cond s arr => Y.cond ((s.zip perms).map fun ip => ip.2.getD ip.1 0) (unPerm (perms.getD s.length []) arr)

/-! ### `_generate_qpd_weights` -/

inductive WType | exact | sampled
  deriving Repr, DecidableEq, Inhabited

structure Weight where
  key : List Nat
  w   : Rat
  ty  : WType
  deriving Repr, Inhabited

/-- cartesian product of index ranges, last index fastest (`itertools.product`) -/
def productIdx : List Nat → List (List Nat)
  | [] => [[]]
  | n :: rest => (List.range n).flatMap fun i => (productIdx rest).map (i :: ·)

def probOf (rows : List (List Rat)) (key : List Nat) : Rat :=
  ((rows.zip key).map fun rk => rk.1.getD rk.2 0).prod

/-- `_min_filter_nonzero`: least entry that is not `isclose` to zero (`none`: numpy raises on the empty min) -/
def minNonzero (atol : Rat) (row : List Rat) : Option Rat :=
  ((row.filter (fun x => !(absR x ≤ atol))).foldl (fun (m : Option Rat) x => match m with
    | none => some x
    | some y => some (if x < y then x else y)) none)

def maxOf (row : List Rat) : Rat := row.foldl (fun m x => if m < x then x else m) (row.headD 0)

def ceilRat (x : Rat) : Int := -((-x).floor)

/-- all weights exactly (`multiplier` = N, or 1 for the infinite budget) -/
def allExact (rows : List (List Rat)) (atol mult : Rat) : List Weight :=
  (productIdx (rows.map List.length)).filterMap fun key =>
    let p := probOf rows key
    if p < atol then none else some { key, w := mult * p, ty := .exact }

/-- draws are consumed call by call -/
abbrev Draws := List (List Nat)

/-- counts in order of first occurrence (`collections.Counter`) -/
def counter {α : Type} [DecidableEq α] (l : List α) : List (α × Nat) :=
  (uniq l).map fun a => (a, l.count a)

def transpose (cols : List (List Nat)) (n : Nat) : List (List Nat) :=
  (List.range n).map fun i => cols.map (fun c => c.getD i 0)

/-- `_populate_samples`; fuel = remaining depth -/
def populate (rows : List (List Rat)) (cond : List (List Nat × List Rat)) :
    Nat → List Nat → Nat → Draws → List (List Nat × Nat) × Draws
  | 0, _, _, draws => ([], draws)
  | fuel + 1, state, numDesired, draws =>
    match cond.find? (fun e => e.1 == state) with
    | none =>
      -- sample every remaining basis independently: one call per basis
      let k := rows.length - state.length
      let cols := draws.take k
      let outs := counter (transpose cols numDesired)
      (outs.map fun oc => (state ++ oc.1, oc.2), draws.drop k)
    | some _ =>
      let cur := draws.headD []
      let cs := counter cur
      cs.foldl (fun (acc : List (List Nat × Nat) × Draws) oc =>
        let outcome := state ++ [oc.1]
        if outcome.length == rows.length then (acc.1 ++ [(outcome, oc.2)], acc.2)
        else
          let r := populate rows cond fuel outcome oc.2 acc.2
          (acc.1 ++ r.1, r.2)) ([], draws.drop 1)

/-- the probability vectors handed to the sampler by `_populate_samples`, call by call (same control flow and the same consumption of
draws as `populate`): the table of the state if there is one, otherwise the rows of all remaining bases -/
def populateP (rows : List (List Rat)) (cond : List (List Nat × List Rat)) :
    Nat → List Nat → Nat → Draws → List (List Rat) × Draws
  | 0, _, _, draws => ([], draws)
  | fuel + 1, state, _numDesired, draws =>
    match cond.find? (fun e => e.1 == state) with
    | none => (rows.drop state.length, draws.drop (rows.length - state.length))
    | some e =>
      let cur := draws.headD []
      let cs := counter cur
      cs.foldl (fun (acc : List (List Rat) × Draws) oc =>
        let outcome := state ++ [oc.1]
        if outcome.length == rows.length then acc
        else
          let r := populateP rows cond fuel outcome oc.2 acc.2
          (acc.1 ++ r.1, r.2)) ([e.2], draws.drop 1)

/-- the oracle is well formed along the run of `populate`: every answer array has the requested size (and there is fuel left).
Same recursion and the same consumption of draws as `populate`. -/
def drawsOK (rows : List (List Rat)) (cond : List (List Nat × List Rat)) :
    Nat → List Nat → Nat → Draws → Bool × Draws
  | 0, _, _, draws => (false, draws)
  | fuel + 1, state, numDesired, draws =>
    match cond.find? (fun e => e.1 == state) with
    | none => (true, draws.drop (rows.length - state.length))
    | some _ =>
      let cur := draws.headD []
      (counter cur).foldl (fun (acc : Bool × Draws) oc =>
        let outcome := state ++ [oc.1]
        if outcome.length == rows.length then acc
        else
          let r := drawsOK rows cond fuel outcome oc.2 acc.2
          (acc.1 && r.1, r.2)) (cur.length == numDesired, draws.drop 1)

/-- the single-leftover shortcut: follow the unique non-zero entry at every level, if there is one -/
def singleLeftover (rows : List (List Rat)) (cond : List (List Nat × List Rat)) : Nat → List Nat → Option (List Nat)
  | 0, state => if state.length == rows.length then some state else none
  | fuel + 1, state =>
    if state.length == rows.length then some state else
    let probs := match cond.find? (fun e => e.1 == state) with
      | some e => e.2
      | none => rows.getD state.length []
    match (probs.zipIdx.filter (fun (x : Rat × Nat) => x.1 != 0)).map (·.2) with
    | [j] => singleLeftover rows cond fuel (state ++ [j])
    | _ => none

/-- `_generate_qpd_weights` -/
def generateWeights (rows : List (List Rat)) (N : Option Rat) (atol : Rat) (draws : Draws) : R (List Weight) :=
  match N with
  | none => .ok (allExact rows atol 1)
  | some n =>
    if !(1 ≤ n) then .error (.value "num_samples must be at least 1") else
    let thr := 1 / n
    let smallest := (rows.map fun r => (minNonzero atol r).getD 0).prod
    if thr ≤ smallest then .ok (allExact rows atol n) else
    let largest := (rows.map maxOf).prod
    let ys := if thr ≤ largest then genUnsorted rows thr atol else []
    let exact : List Weight := ys.filterMap fun
      | Y.full s p => some { key := s, w := p * n, ty := .exact }
      | Y.cond _ _ => none
    let conds : List (List Nat × List Rat) := ys.filterMap fun
      | Y.full _ _ => none
      | Y.cond s arr => some (s, arr)
    let wts0 : Rat := match conds.find? (fun e => e.1 == []) with
      | some e => e.2.sum
      | none => 1
    if !conds.isEmpty && wts0 == 0 then .ok exact else
    -- the top-level table is normalised in place
    let conds := conds.map fun e => if e.1 == [] then (e.1, e.2.map (· / wts0)) else e
    let wts := wts0 * n
    let needed := ceilRat wts
    if needed < 1 then .error (.other "AssertionError") else
    let single := wts / (needed : Rat)
    match (if conds.isEmpty then none else singleLeftover rows conds rows.length []) with
    | some key => .ok (exact ++ [{ key, w := wts, ty := .exact }])
    | none =>
      let samples := (populate rows conds (rows.length + 1) [] needed.toNat draws).1
      .ok (exact ++ samples.map fun sc => { key := sc.1, w := (sc.2 : Rat) * single, ty := .sampled })

/-- the sampler calls of `_generate_qpd_weights` (empty when nothing is sampled); same branches as `generateWeights` -/
def samplerCalls (rows : List (List Rat)) (N : Option Rat) (atol : Rat) (draws : Draws) : List (List Rat) :=
  match N with
  | none => []
  | some n =>
    if !(1 ≤ n) then [] else
    let thr := 1 / n
    let smallest := (rows.map fun r => (minNonzero atol r).getD 0).prod
    if thr ≤ smallest then [] else
    let largest := (rows.map maxOf).prod
    let ys := if thr ≤ largest then genUnsorted rows thr atol else []
    let conds : List (List Nat × List Rat) := ys.filterMap fun
      | Y.full _ _ => none
      | Y.cond s arr => some (s, arr)
    let wts0 : Rat := match conds.find? (fun e => e.1 == []) with
      | some e => e.2.sum
      | none => 1
    if !conds.isEmpty && wts0 == 0 then [] else
    let conds := conds.map fun e => if e.1 == [] then (e.1, e.2.map (· / wts0)) else e
    let needed := ceilRat (wts0 * n)
    if needed < 1 then [] else
    match (if conds.isEmpty then none else singleLeftover rows conds rows.length []) with
    | some _ => []
    | none => (populateP rows conds (rows.length + 1) [] needed.toNat draws).1

/-- were the sampler calls of `_generate_qpd_weights` all answered with arrays of the requested size?  (`true` when nothing is sampled;
same branches as `generateWeights`) -/
def samplerOK (rows : List (List Rat)) (N : Option Rat) (atol : Rat) (draws : Draws) : Bool :=
  match N with
  | none => true
  | some n =>
    if !(1 ≤ n) then true else
    let thr := 1 / n
    let smallest := (rows.map fun r => (minNonzero atol r).getD 0).prod
    if thr ≤ smallest then true else
    let largest := (rows.map maxOf).prod
    let ys := if thr ≤ largest then genUnsorted rows thr atol else []
    let conds : List (List Nat × List Rat) := ys.filterMap fun
      | Y.full _ _ => none
      | Y.cond s arr => some (s, arr)
    let wts0 : Rat := match conds.find? (fun e => e.1 == []) with
      | some e => e.2.sum
      | none => 1
    if !conds.isEmpty && wts0 == 0 then true else
    let conds := conds.map fun e => if e.1 == [] then (e.1, e.2.map (· / wts0)) else e
    let needed := ceilRat (wts0 * n)
    if needed < 1 then true else
    match (if conds.isEmpty then none else singleLeftover rows conds rows.length []) with
    | some _ => true
    | none => (drawsOK rows conds (rows.length + 1) [] needed.toNat draws).1

end CKT
