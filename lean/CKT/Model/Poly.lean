/-!
# Multivariate polynomials over `Rat` with a normaliser (core Lean only)

`Mono` is an exponent vector (variable `i` has exponent `m[i]`, missing entries are 0), `Poly` a list of
terms.  All operations are structural recursions so that the kernel can evaluate them (`decide +kernel`).
Soundness (`eval` is a ring homomorphism on these operations, and rule rewriting preserves `eval` in every
environment satisfying the rules) is proved in `CKT/Proofs/Poly.lean`.
-/
namespace CKT

abbrev Mono := List Nat
abbrev Term := Mono × Rat
abbrev Poly := List Term

namespace Mono

def mul : Mono → Mono → Mono
  | [], b => b
  | a, [] => a
  | x :: a, y :: b => (x + y) :: mul a b

/-- strict lexicographic order on (zero-padded) exponent vectors -/
def lt : Mono → Mono → Bool
  | [], [] => false
  | [], y :: b => if y = 0 then lt [] b else true
  | _ :: _, [] => false
  | x :: a, y :: b => if x < y then true else if y < x then false else lt a b

/-- drop trailing zeros -/
def trim : Mono → Mono
  | [] => []
  | x :: a => match trim a with
    | [] => if x = 0 then [] else [x]
    | t => x :: t

/-- subtract `k` from the exponent of variable `i` -/
def dec : Mono → Nat → Nat → Mono
  | [], _, _ => []
  | x :: a, 0, k => (x - k) :: a
  | x :: a, i + 1, k => x :: dec a i k

def var (i : Nat) : Mono := List.replicate i 0 ++ [1]

end Mono

namespace Poly

def zero : Poly := []
def const (q : Rat) : Poly := if q = 0 then [] else [([], q)]
def one : Poly := const 1
def var (i : Nat) : Poly := [(Mono.var i, 1)]

/-- insert one term into a (sorted) polynomial, merging equal monomials and dropping zero sums -/
def insertTerm (t : Term) : Poly → Poly
  | [] => if t.2 = 0 then [] else [t]
  | u :: rest =>
    if t.1 = u.1 then
      (if t.2 + u.2 = 0 then rest else (u.1, t.2 + u.2) :: rest)
    else if Mono.lt t.1 u.1 then
      (if t.2 = 0 then u :: rest else t :: u :: rest)
    else u :: insertTerm t rest

def add (p q : Poly) : Poly := p.foldr insertTerm q

def scale (c : Rat) (p : Poly) : Poly := p.foldr (fun t acc => insertTerm (t.1, c * t.2) acc) []

def neg (p : Poly) : Poly := scale (-1) p

def sub (p q : Poly) : Poly := add p (neg q)

def mulTerm (t : Term) (p : Poly) : Poly :=
  p.foldr (fun u acc => insertTerm (Mono.trim (Mono.mul t.1 u.1), t.2 * u.2) acc) []

def mul (p q : Poly) : Poly := p.foldr (fun t acc => add (mulTerm t q) acc) []

def pow (p : Poly) : Nat → Poly
  | 0 => one
  | n + 1 => mul p (pow p n)

/-- re-insert every term (sorts and merges an arbitrary term list) -/
def norm (p : Poly) : Poly := p.foldr insertTerm []

/-! ### rewriting with rules `xᵢ² ↦ rule` -/

/-- rewrite one occurrence of `xᵢ²` in a term, if there is one -/
def rewriteTerm (i : Nat) (rule : Poly) (t : Term) : Poly :=
  if 2 ≤ t.1.getD i 0 then mulTerm (Mono.trim (Mono.dec t.1 i 2), t.2) rule else [t]

def rewriteStep (i : Nat) (rule : Poly) (p : Poly) : Poly :=
  p.foldr (fun t acc => add (rewriteTerm i rule t) acc) []

def rewriteN (i : Nat) (rule : Poly) : Nat → Poly → Poly
  | 0, p => p
  | n + 1, p => rewriteN i rule n (rewriteStep i rule p)

abbrev Rules := List (Nat × Poly)

/-- apply every rule `fuel` times, in list order (rules for higher variables first) -/
def reduce (rules : Rules) (fuel : Nat) (p : Poly) : Poly :=
  rules.foldl (fun acc r => rewriteN r.1 r.2 fuel acc) p

def isZero (p : Poly) : Bool := p.isEmpty

/-! ### numeric evaluation (driver only) -/

def ratToFloat (q : Rat) : Float := Float.ofInt q.num / Float.ofNat q.den

def evalMonoF (env : Nat → Float) : Nat → Mono → Float
  | _, [] => 1.0
  | k, e :: m => (env k) ^ (Float.ofNat e) * evalMonoF env (k + 1) m

def evalF (env : Nat → Float) (p : Poly) : Float :=
  p.foldr (fun t acc => ratToFloat t.2 * evalMonoF env 0 t.1 + acc) 0.0

end Poly
end CKT
