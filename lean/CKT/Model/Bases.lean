import CKT.Generated.KakTable
/-!
# `qpdbasis_from_instruction` for the explicitly supported names

`basisOf name` returns the symbolic basis together with the channel it has to reproduce; `kak` is the undressed
58-row table at the symbolic vector `uVars` (the path taken by every other two-qubit gate after Qiskit's Weyl
decomposition).  Any other name is refused (`none` = `ValueError`).
-/
namespace CKT
open CKT.Generated

def swapU : List (Cx Poly) := List.replicate 4 ⟨Poly.scale (1/2) Rr, Poly.scale (1/2) Rr⟩
def iswapU : List (Cx Poly) := [cq (1/2) 0, cq 0 (1/2), cq 0 (1/2), cq (1/2) 0]

def kakTableBasis (u : List (Cx Poly)) : SBasis := kakBasis kakLists kakRows u

def supportedNames : List String :=
  ["rxx", "ryy", "rzz", "crx", "cry", "crz", "cp", "cs", "csdg", "csx", "csxdg", "cx", "cy", "cz", "ch", "ecr",
   "swap", "iswap", "dcx", "move", "kak"]

def basisOf (name : String) : Option (SBasis × Ops.Kraus Poly) :=
  let A := genericAngle
  match name with
  | "rxx" => some (rotFamilyBasis "rxx" A, targetRot2 1)
  | "ryy" => some (rotFamilyBasis "ryy" A, targetRot2 2)
  | "rzz" => some (rotFamilyBasis "rzz" A, targetRot2 3)
  | "crx" => some (rotFamilyBasis "crx" A, targetCRot 1 A)
  | "cry" => some (rotFamilyBasis "cry" A, targetCRot 2 A)
  | "crz" => some (rotFamilyBasis "crz" A, targetCRot 3 A)
  | "cp" => some (rotFamilyBasis "crz" A (some (rotOp "p" 3 A.rc A.rs)), targetCP A)
  | "cs" => some (rotFamilyBasis "crz" (piOver8 false) (some (g "t")), [(false, ctrl uS)])
  | "csdg" => some (rotFamilyBasis "crz" (piOver8 true) (some (g "tdg")), [(false, ctrl uSdg)])
  | "csx" => some (rotFamilyBasis "crx" (piOver8 false) (some (g "t")), [(false, ctrl uSX)])
  | "csxdg" => some (rotFamilyBasis "crx" (piOver8 true) (some (g "tdg")), [(false, ctrl uSXdg)])
  | "cx" => some (cxFamilyBasis "cx", [(false, ctrl uX)])
  | "cy" => some (cxFamilyBasis "cy", [(false, ctrl uY)])
  | "cz" => some (cxFamilyBasis "cz", [(false, ctrl uZ)])
  | "ch" => some (cxFamilyBasis "ch", [(false, ctrl uH)])
  | "ecr" => some (ecrBasis, [(false, uECR)])
  | "swap" => some (kakTableBasis swapU, [(false, uSwap)])
  | "iswap" => some (kakTableBasis iswapU, [(false, uISwap)])
  | "dcx" => some (dcxDress (kakTableBasis iswapU), [(false, uDCX)])
  | "move" => some (moveBasis, targetMove)
  | "kak" => some (kakTableBasis uVars, [(false, uKak uVars)])
  | _ => none

/-- the model's statement of exactness for one supported name -/
def checkName (name : String) : Bool :=
  match basisOf name with
  | some (b, t) => checkBasis t b
  | none => false

end CKT
