import CKT.Model.Experiments
/-!
# Decidable form of the no-re-use hypotheses of T19.1 (evaluated by the driver on every generated workflow)
-/
namespace CKT

/-- what one instruction of the subcircuit contributes to wire `q` once the placeholders are spliced -/
inductive Kind | plain | dst | src
  deriving DecidableEq, Repr

def kindOf (q : Nat) (g : Instr) : Kind :=
  if isQpd2 g then (if g.qubits.getD 0 0 = q then .src else .dst)
  else if isQpd g then (if g.half = some 0 then .src else .dst)
  else .plain

def srcNamesB (ns : List String) : Bool := ns.getLast? == some "reset" && !(ns.dropLast.contains "reset")
def dstNamesB (ns : List String) : Bool := ns.head? == some "reset" && !(ns.tail.contains "reset")

/-- every map: measurement side ends with its only reset, preparation side starts with its only reset -/
def moveLikeBasisB (b : Basis) : Bool :=
  (List.range b.maps.length).all fun m =>
    srcNamesB (((b.maps.getD m []).getD 0 []).map (·.name)) && dstNamesB (((b.maps.getD m []).getD 1 []).map (·.name))

def moveLike1B (bases : List Basis) (g : Instr) : Bool :=
  (match basisOfInstr bases g, g.basisId with
    | some b, some m => moveLikeBasisB b && decide (m < b.maps.length)
    | _, _ => false) &&
  g.qubits.length == 1 && (g.half == some 0 || g.half == some 1)

def admissibleB (bases : List Basis) (g : Instr) : Bool :=
  if isQpd2 g then
    (match g.qubits with | [p0, p1] => p0 != p1 | _ => false) && (halvesOf g).all (moveLike1B bases)
  else if isQpd g then moveLike1B bases g
  else !isReset g

/-- no re-use on wire `q`, scanning from the left (`seen` = something already happened on the wire) -/
def condB (q : Nat) (kind : Instr → Kind) : Bool → List Instr → Bool
  | _, [] => true
  | seen, g :: rest =>
    if g.qubits.contains q then
      match kind g with
      | .plain => condB q kind true rest
      | .dst => !seen && condB q kind true rest
      | .src => rest.all fun g' => !g'.qubits.contains q
    else condB q kind seen rest

def wfB (nq : Nat) (l : List Instr) : Bool :=
  l.all fun i => i.qubits.all (fun q => decide (q < nq)) && (!isReset i || i.qubits.length == 1)

def noReuseB (nq : Nat) (bases : List Basis) (l : List Instr) : Bool :=
  (List.range nq).all (fun q => condB q (kindOf q) false l) && l.all (admissibleB bases)

/-- indices of the elements satisfying `p`, ascending -/
def idxsWhere {α : Type} (p : α → Bool) (l : List α) : List Nat :=
  (List.range l.length).filter fun i => match l[i]? with
    | some x => p x
    | none => false

/-- the decidable hypotheses of T19.1 for one subexperiment (same arguments as `experimentFor`) -/
def noReuseExpB (bases : List Basis) (c : Circuit) (ids : List (List Nat)) (mapIds : List Int) (g : Group) : Bool :=
  let m := measuredIndices g.indices
  let c1 : Circuit := { c with cregs := c.cregs ++ [("observable_measurements", m.length)] }
  match assignMapIds bases c1.instrs ids mapIds with
  | .error _ => false
  | .ok instrs =>
    let tail := measurementInstrs g.general g.indices id c.ncl
    let X := markersToMeasures c1.ncl (decomposeSpec bases instrs) 0
    decide (twoQubitIds instrs ids = idxsWhere isQpd2 instrs) && wfB c.nq X &&
    (if g.indices.isEmpty then
       noReuseB c.nq bases instrs && wfB c.nq (removeFinalResets c.nq X ++ tail)
     else noReuseB c.nq bases (instrs ++ tail) && wfB c.nq (X ++ tail))

end CKT
