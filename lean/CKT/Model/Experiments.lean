import CKT.Model.Basic
import CKT.Model.Decompose
import CKT.Model.Grouping
import CKT.Model.Resets
import CKT.Model.Weights
/-!
# Model of `cutting_experiments.generate_cutting_experiments`
The joint weights (`generate_qpd_weights`, C04) and the commuting groups (Qiskit's grouping, C11) are inputs.
-/
namespace CKT

/-- `int(label.split("_")[-1])` -/
def suffixId (label : Option String) : R Nat :=
  match label with
  | none => .error (.value "label missing")
  | some s =>
    match (s.splitOn "_").getLast? with
    | none => .error (.value "label has no suffix")
    | some t => match t.toNat? with
      | some n => .ok n
      | none => .error (.value "label suffix is not a number")

def isQpd1 (i : Instr) : Bool := i.name == "qpd_1q"

/-- `_get_mapping_ids_by_partition` for one subcircuit: positions of the one-qubit placeholders and their cut ids -/
def mappingIds (instrs : List Instr) : R (List (List Nat) × List Nat) :=
  let rec go : List (Instr × Nat) → R (List (List Nat) × List Nat)
    | [] => .ok ([], [])
    | (i, k) :: rest =>
      if isQpd1 i then
        match suffixId i.label with
        | .error e => .error e
        | .ok d => match go rest with
          | .ok (a, b) => .ok ([k] :: a, d :: b)
          | .error e => .error e
      else go rest
  go instrs.zipIdx

/-- `_get_bases`: an unseparated circuit -/
def basesOfSingle (instrs : List Instr) : R (List (Option Nat) × List (List Nat)) :=
  if instrs.any isQpd1 then .error (.value "SingleQubitQPDGates are not supported in unseparable circuits")
  else .ok (((instrs.filter isQpd2).map (·.basis)),
            ((instrs.zipIdx.filter (fun (x : Instr × Nat) => isQpd2 x.1)).map (fun x => [x.2])))

def kappaOf (b : Basis) : Rat := (b.coeffs.map absR).sum

def signR (x : Rat) : Rat := if x < 0 then -1 else if x = 0 then 0 else 1

/-- product of the chosen maps' coefficients -/
def actualCoeff (bases : List Basis) (key : List Nat) : Rat :=
  ((bases.zip key).map fun bk => bk.1.coeffs.getD bk.2 0).prod

/-- stable sort by weight, largest first (`sorted(..., reverse=True)` keeps the order of ties) -/
def insertByWeight (x : Weight) : List Weight → List Weight
  | [] => [x]
  | y :: ys => if x.w < y.w then y :: insertByWeight x ys else x :: y :: ys

def sortByWeight (ws : List Weight) : List Weight := ws.foldr insertByWeight []

/-- the coefficient attached to one sampled joint map -/
def coeffOf (bases : List Basis) (total kappa : Rat) (w : Weight) : Rat :=
  (w.w / total) * (kappa * signR (actualCoeff bases w.key))

structure PartIn where
  label   : Nat
  circuit : Circuit
  groups  : List Group
  deriving Repr

/-- one subexperiment: register, decomposition, measurements, reset passes -/
def experimentFor (bases : List Basis) (c : Circuit) (ids : List (List Nat)) (mapIds : List Int) (g : Group) : R Circuit :=
  let m := measuredIndices g.indices
  let c1 : Circuit := { c with cregs := c.cregs ++ [("observable_measurements", m.length)] }
  match decomposeQpd c1 bases ids (some mapIds) with
  | .error e => .error e
  | .ok c2 =>
    if c.nq != g.general.letters.length then .error (.value "qubit count does not match observable") else
    let body := if g.indices.isEmpty then removeFinalResets c2.nq c2.instrs else c2.instrs
    let full := body ++ measurementInstrs g.general g.indices id c.ncl
    .ok { c2 with instrs := optimizeResets c2.nq full }

structure ExperimentsOut where
  experiments  : List (Nat × List Circuit)
  coefficients : List (Rat × WType)
  deriving Repr

def forMR {α β : Type} (f : α → R β) : List α → R (List β)
  | [] => .ok []
  | a :: as => match f a with
    | .error e => .error e
    | .ok b => match forMR f as with
      | .ok bs => .ok (b :: bs)
      | .error e => .error e

/-- separated form.  `weights` = the dict returned by `generate_qpd_weights(bases, N)`, in dict order. -/
def generateExperiments (basisTable : List Basis) (parts : List PartIn) (separated : Bool) (weights : List Weight) : R ExperimentsOut :=
  -- 1. placeholders, cut ids, bases
  let prep : R (List (PartIn × List (List Nat) × List Nat) × List Nat) :=
    if separated then
      match forMR (fun (p : PartIn) => match mappingIds p.circuit.instrs with
          | .ok (ids, ds) => .ok (p, ids, ds)
          | .error e => .error e) parts with
      | .error e => .error e
      | .ok ps =>
        -- bases_dict[decomp_id] = basis; ordered by decomp id
        let pairs : List (Nat × Nat) := ps.flatMap fun x =>
          (x.2.1.zip x.2.2).filterMap fun idd => match x.1.circuit.instrs[idd.1.headD 0]? with
            | some i => i.basis.map (fun b => (idd.2, b))
            | none => none
        let keys := sortNat (uniq (pairs.map (·.1)))
        -- a later entry for the same id overwrites an earlier one
        let bases := keys.map fun k => ((pairs.filter (fun p => p.1 == k)).getLast?.map (·.2)).getD 0
        .ok (ps, bases)
    else
      match parts with
      | [p] => match basesOfSingle p.circuit.instrs with
        | .error e => .error e
        | .ok (bs, ids) => .ok ([(p, ids, List.range ids.length)], bs.map (·.getD 0))
      | _ => .error (.other "single form needs one circuit")
  match prep with
  | .error e => .error e
  | .ok (ps, baseRefs) =>
    let bases := baseRefs.map (fun r => basisTable.getD r default)
    let kappa := (bases.map kappaOf).prod
    let total := (weights.map (·.w)).sum
    let sorted := sortByWeight weights
    let coeffs := sorted.map fun w => (coeffOf bases total kappa w, w.ty)
    -- sample-major, group-minor, per partition
    match forMR (fun (x : PartIn × List (List Nat) × List Nat) =>
        match forMR (fun (w : Weight) =>
            let mapIds : List Int := if separated then x.2.2.map (fun d => Int.ofNat (w.key.getD d 0)) else w.key.map (fun (k : Nat) => Int.ofNat k)
            forMR (fun g => experimentFor basisTable x.1.circuit x.2.1 mapIds g) x.1.groups) sorted with
        | .ok css => .ok (x.1.label, css.flatten)
        | .error e => .error e) ps with
    | .error e => .error e
    | .ok exps => .ok { experiments := exps, coefficients := coeffs }

end CKT
