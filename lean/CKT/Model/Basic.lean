/-!
# Shared data model (core Lean only)

Circuits are instruction lists over qubit / clbit *indices*; everything that is a
Python object identity in the implementation (Qubit, QPDBasis, operation objects)
is an explicit index here.
-/
namespace CKT

/-- One circuit instruction.  `params` are canonical strings produced by the adapter
(the model never computes with them; symbolic gate semantics lives in `Model/Channel`). -/
structure Instr where
  name    : String
  qubits  : List Nat
  clbits  : List Nat := []
  params  : List String := []
  label   : Option String := none
  /-- reference into the case's basis table (QPD gates only) -/
  basis   : Option Nat := none
  /-- `qubit_id` of a one-qubit placeholder -/
  half    : Option Nat := none
  /-- `basis_id` of a placeholder -/
  basisId : Option Nat := none
  deriving Repr, DecidableEq, Inhabited

/-- An operation inside a basis map: name + params, placed on a qubit when spliced. -/
structure Op where
  name   : String
  params : List String := []
  deriving Repr, DecidableEq, Inhabited

/-- A quasi-probability basis: `maps[i]` is the tuple (one op list per side). -/
structure Basis where
  maps   : List (List (List Op))
  coeffs : List Rat
  deriving Repr, Inhabited

def Basis.numQubits (b : Basis) : Nat := (b.maps.headD []).length

structure Circuit where
  nq     : Nat
  /-- classical registers (name, size) in order; unregistered clbits are not modelled -/
  cregs  : List (String × Nat) := []
  instrs : List Instr
  deriving Repr, Inhabited

def Circuit.ncl (c : Circuit) : Nat := (c.cregs.map (·.2)).sum

/-- Error classes, as compared with the implementation (a small enum). -/
inductive Err where
  | value (msg : String)      -- Python `ValueError`
  | other (msg : String)      -- anything else (never expected on the unchanged tree)
  deriving Repr, DecidableEq, Inhabited

abbrev R := Except Err

def isReset (i : Instr) : Bool := i.name == "reset"
def isBarrier (i : Instr) : Bool := i.name == "barrier"
def isPlaceholder (i : Instr) : Bool := i.name == "qpd_1q" || i.name == "qpd_2q"

/-- distinct elements in order of first occurrence (Python dict / `unique_by_eq` order) -/
def uniq {α : Type} [DecidableEq α] : List α → List α
  | [] => []
  | a :: as => a :: (uniq as).filter (fun b => b ≠ a)

theorem mem_uniq {α : Type} [DecidableEq α] (x : α) : ∀ l : List α, x ∈ uniq l ↔ x ∈ l := by
  intro l
  induction l with
  | nil => simp [uniq]
  | cons a as ih =>
    simp only [uniq, List.mem_cons, List.mem_filter, ih]
    by_cases h : x = a <;> simp [h]

theorem nodup_uniq {α : Type} [DecidableEq α] : ∀ l : List α, (uniq l).Nodup := by
  intro l
  induction l with
  | nil => simp [uniq]
  | cons a as ih =>
    simp only [uniq, List.nodup_cons]
    exact ⟨by simp [List.mem_filter], ih.filter _⟩

end CKT
