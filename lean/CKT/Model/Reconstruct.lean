import CKT.Model.Basic
/-!
# Model of `cutting_reconstruction.py` (+ `utils/bitwise.py`)

`reconstructImpl` mirrors the accumulator loops of `reconstruct_expectation_values`;
`reconstructSpec` is the estimator of property C06 written as sums and products.
-/
namespace CKT

/-- `bit_count`: number of set bits. -/
def bitCount : Nat → Nat
  | 0 => 0
  | n + 1 => (n + 1) % 2 + bitCount ((n + 1) / 2)
decreasing_by omega

/-- `1 - 2 * (bit_count(x) & 1)` -/
def paritySign (x : Nat) : Int := 1 - 2 * ((bitCount x &&& 1 : Nat) : Int)

/-- A commuting observable group as far as reconstruction sees it:
`nIdx = len(cog.pauli_indices)`, `masks = cog.pauli_bitmasks`. -/
structure Cog where
  nIdx  : Nat
  masks : List Nat
  deriving Repr, Inhabited

/-- `len(_get_pauli_indices(cog))`: a dummy bit is forced when nothing is measured. -/
def Cog.numMeasBits (c : Cog) : Nat := if c.nIdx = 0 then 1 else c.nIdx

/-- `_process_outcome_v2` -/
def processOutcomeV2 (c : Cog) (obs qpd : Nat) : List Int :=
  c.masks.map fun m => paritySign qpd * paritySign (obs &&& m)

/-- `_process_outcome` on an integer outcome -/
def processOutcome (c : Cog) (outcome : Nat) : List Int :=
  let nb := c.numMeasBits
  processOutcomeV2 c (outcome &&& ((1 <<< nb) - 1)) (outcome >>> nb)

/-! ### `_outcome_to_int` -/

def digitVal (c : Char) : Option Nat :=
  if '0' ≤ c ∧ c ≤ '9' then some (c.toNat - '0'.toNat)
  else if 'a' ≤ c ∧ c ≤ 'f' then some (c.toNat - 'a'.toNat + 10)
  else if 'A' ≤ c ∧ c ≤ 'F' then some (c.toNat - 'A'.toNat + 10)
  else none

/-- digits in `base`, most significant first; Python also allows single underscores
between digits, which no sampler produces — rejected here. -/
def parseDigits (base : Nat) (cs : List Char) : Option Nat :=
  if cs.isEmpty then none else
  cs.foldl (fun acc c => match acc, digitVal c with
    | some a, some d => if d < base then some (a * base + d) else none
    | _, _ => none) (some 0)

/-- `_outcome_to_int` on the characters of a string key.  `none` = Python raises. -/
def outcomeToIntChars (cs0 : List Char) : Option Nat :=
  let cs := cs0.filter (· != ' ')
  match cs with
  | [] => none
  | [c] => parseDigits 2 [c]
  | c0 :: c1 :: rest =>
    if c1 = '0' ∨ c1 = '1' then parseDigits 2 cs
    else if c0 = '0' ∧ (c1 = 'x' ∨ c1 = 'X') then parseDigits 16 rest
    else if c0 = '0' ∧ (c1 = 'b' ∨ c1 = 'B') then parseDigits 2 rest
    else if c0 = '0' ∧ (c1 = 'o' ∨ c1 = 'O') then parseDigits 8 rest
    else if c0 = '0' then none
    else parseDigits 10 cs

def outcomeToInt (s : String) : Option Nat := outcomeToIntChars s.toList

/-- digit characters as produced by Python's `format(n, "b")`, `hex(n)` (lower case) -/
def digitChar (d : Nat) : Char := if d < 10 then Char.ofNat (48 + d) else Char.ofNat (87 + d)

/-- base-`b` digits of `n`, least significant first -/
def digitsRev (b : Nat) (n : Nat) : List Char :=
  if h : n < b ∨ b < 2 then [digitChar n] else digitChar (n % b) :: digitsRev b (n / b)
decreasing_by
  have : ¬ (n < b ∨ b < 2) := h
  exact Nat.div_lt_self (by omega) (by omega)

/-- base-`b` digits, most significant first (what the key strings contain) -/
def digits (b n : Nat) : List Char := (digitsRev b n).reverse

/-! ### estimator -/

def vadd (a b : List Rat) : List Rat := List.zipWith (· + ·) a b
def vscale (p : Rat) (v : List Int) : List Rat := v.map fun (x : Int) => p * ((x : Int) : Rat)
def vzero (n : Nat) : List Rat := List.replicate n 0

/-- data of one subexperiment -/
inductive ExpData where
  | v1 (dist : List (Nat × Rat))        -- quasi-distribution: outcome ↦ quasi-probability
  | v2 (shots : List (Nat × Nat))       -- per shot: (observable register, qpd register)
  deriving Repr, Inhabited

/-- accumulator loop over outcomes / shots (`subsystem_expvals[k] += …`) -/
def groupExpvals (c : Cog) : ExpData → List Rat
  | .v1 dist => dist.foldl (fun acc op => vadd acc (vscale op.2 (processOutcome c op.1))) (vzero c.masks.length)
  | .v2 shots =>
    let w : Rat := 1 / (shots.length : Rat)
    shots.foldl (fun acc s => vadd acc (vscale w (processOutcomeV2 c s.1 s.2))) (vzero c.masks.length)

def mean (l : List Rat) : Rat := l.sum / (l.length : Rat)

/-- One partition, as reconstruction sees it. -/
structure Subsystem where
  groups  : List Cog
  /-- for sub-observable `k`: the `(group, position)` pairs of `lookup` -/
  lookup  : List (List (Nat × Nat))
  results : List ExpData
  deriving Repr, Inhabited

def getD2 (t : List (List Rat)) (m n : Nat) : Rat := (t.getD m []).getD n 0

/-- contribution of partition `s` to sample `i`: one factor per observable `k` -/
def subsystemFactors (s : Subsystem) (i : Nat) : List Rat :=
  let G := s.groups.length
  let ev : List (List Rat) := (List.range G).map fun k =>
    groupExpvals (s.groups.getD k default) (s.results.getD (i * G + k) (.v1 []))
  s.lookup.map fun locs => mean (locs.map fun mn => getD2 ev mn.1 mn.2)

def vmul (a b : List Rat) : List Rat := List.zipWith (· * ·) a b

/-- count validation performed before reconstruction -/
def validateCounts (subs : List Subsystem) (ncoeff : Nat) : Bool :=
  subs.all fun s => s.results.length == ncoeff * s.groups.length

/-- the accumulator loops of `reconstruct_expectation_values` -/
def reconstructImpl (subs : List Subsystem) (coeffs : List Rat) (nobs : Nat) : R (List Rat) :=
  if !validateCounts subs coeffs.length then .error (.value "count mismatch") else
  .ok <| (coeffs.zipIdx).foldl (fun expvals ci =>
      let cur := subs.foldl (fun cur s => vmul cur (subsystemFactors s ci.2)) (List.replicate nobs 1)
      vadd expvals (cur.map (ci.1 * ·)))
    (vzero nobs)

/-- the estimator of C06: `Σ_i coeff_i · Π_partitions E_{i,p}[k]` -/
def reconstructSpec (subs : List Subsystem) (coeffs : List Rat) (nobs : Nat) : List Rat :=
  (List.range nobs).map fun k =>
    ((List.range coeffs.length).map fun i =>
      coeffs.getD i 0 * (subs.map fun s => (subsystemFactors s i).getD k 1).prod).sum

/-- V1 data describing the same shots as V2 data: key `obs + qpd·2^nb`, weight `1/shots`. -/
def distOfShots (nb : Nat) (shots : List (Nat × Nat)) : List (Nat × Rat) :=
  shots.map fun s => (s.1 + s.2 * 2 ^ nb, 1 / (shots.length : Rat))

end CKT
