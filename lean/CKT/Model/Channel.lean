import CKT.Model.Poly
/-!
# Pauli-transfer semantics of one- and two-qubit operations, generic in the scalar type

Everything here is written once over an explicit operation record `Ops α` and used at two instances:
`polyOps` (symbolic, computable: the kernel evaluates it) and, in `CKT/Proofs/Channel.lean`, the operations
of an arbitrary field of characteristic 0 (the meaning).  A quantum operation is a *signed Kraus list*
`ρ ↦ Σₖ sₖ Kₖ ρ Kₖ†` (a unitary is one Kraus operator with sign +; the QPD measurement marker is
`+Π₀, −Π₁`; reset is `|0⟩⟨0|, |0⟩⟨1|`), or is given directly by its real transfer matrix (rotations by an
angle whose half-angle is not available symbolically).  Transfer matrices: `R[a][b] = 2⁻ⁿ Tr(σ_a E(σ_b))`.
Qubit order is Qiskit's: in a two-qubit matrix the index is `2*q1 + q0`.
-/
namespace CKT

structure Ops (α : Type) where
  zero : α
  one : α
  add : α → α → α
  mul : α → α → α
  neg : α → α
  scale : Rat → α → α

def polyOps : Ops Poly := ⟨Poly.zero, Poly.one, Poly.add, Poly.mul, Poly.neg, Poly.scale⟩

structure Cx (α : Type) where
  re : α
  im : α
  deriving Repr, Inhabited

namespace Ops
/-! matrices are row lists; entries are read with a default so that every function is total -/
abbrev CMat (α : Type) := List (List (Cx α))
abbrev RMat (α : Type) := List (List α)
def cmk {α : Type} (n : Nat) (f : Nat → Nat → Cx α) : CMat α := (List.range n).map fun i => (List.range n).map fun j => f i j
def rmk {α : Type} (n : Nat) (f : Nat → Nat → α) : RMat α := (List.range n).map fun i => (List.range n).map fun j => f i j

variable {α : Type} (O : Ops α)

def sum (l : List α) : α := l.foldr O.add O.zero
def sub (a b : α) : α := O.add a (O.neg b)

def c0 : Cx α := ⟨O.zero, O.zero⟩
def c1 : Cx α := ⟨O.one, O.zero⟩
def ci : Cx α := ⟨O.zero, O.one⟩
def cadd (a b : Cx α) : Cx α := ⟨O.add a.re b.re, O.add a.im b.im⟩
def cneg (a : Cx α) : Cx α := ⟨O.neg a.re, O.neg a.im⟩
def cmul (a b : Cx α) : Cx α := ⟨O.sub (O.mul a.re b.re) (O.mul a.im b.im), O.add (O.mul a.re b.im) (O.mul a.im b.re)⟩
def conj (a : Cx α) : Cx α := ⟨a.re, O.neg a.im⟩
def cscale (q : Rat) (a : Cx α) : Cx α := ⟨O.scale q a.re, O.scale q a.im⟩
def csum (l : List (Cx α)) : Cx α := l.foldr O.cadd O.c0

def cget (A : CMat α) (i j : Nat) : Cx α := (A.getD i []).getD j O.c0
def rget (A : RMat α) (i j : Nat) : α := (A.getD i []).getD j O.zero


def cmmul (n : Nat) (A B : CMat α) : CMat α :=
  cmk n fun i j => O.csum ((List.range n).map fun k => O.cmul (O.cget A i k) (O.cget B k j))

def rmmul (n : Nat) (A B : RMat α) : RMat α :=
  rmk n fun i j => O.sum ((List.range n).map fun k => O.mul (O.rget A i k) (O.rget B k j))

def dagger (n : Nat) (A : CMat α) : CMat α := cmk n fun i j => O.conj (O.cget A j i)

def cmadd (n : Nat) (A B : CMat α) : CMat α := cmk n fun i j => O.cadd (O.cget A i j) (O.cget B i j)

/-- `A ⊗ B` for 2×2 blocks; `A` acts on qubit 1 (most significant), `B` on qubit 0 -/
def kron2 (A B : CMat α) : CMat α :=
  cmk 4 fun i j => O.cmul (O.cget A (i / 2) (j / 2)) (O.cget B (i % 2) (j % 2))

def ctrace (n : Nat) (A : CMat α) : Cx α := O.csum ((List.range n).map fun i => O.cget A i i)

def ident (n : Nat) : CMat α := cmk n fun i j => if i = j then O.c1 else O.c0
def rident (n : Nat) : RMat α := rmk n fun i j => if i = j then O.one else O.zero

/-- the four Pauli matrices `I, X, Y, Z` -/
def pauli : Nat → CMat α
  | 0 => [[O.c1, O.c0], [O.c0, O.c1]]
  | 1 => [[O.c0, O.c1], [O.c1, O.c0]]
  | 2 => [[O.c0, O.cneg O.ci], [O.ci, O.c0]]
  | _ => [[O.c1, O.c0], [O.c0, O.cneg O.c1]]

/-- a signed Kraus list: `(negative?, K)` -/
abbrev Kraus (α : Type) := List (Bool × CMat α)

def signed (s : Bool) (x : α) : α := if s then O.neg x else x

/-- `E(M) = Σₖ sₖ K M K†` on `n×n` matrices -/
def applyKraus (n : Nat) (ks : Kraus α) (M : CMat α) : List (Bool × CMat α) :=
  ks.map fun k => (k.1, O.cmmul n (O.cmmul n k.2 M) (O.dagger n k.2))

/-- one-qubit transfer matrix `R[a][b] = ½ Σₖ sₖ Re Tr(σ_a K σ_b K†)` -/
def ptm1 (ks : Kraus α) : RMat α :=
  let imgs := (List.range 4).map fun b => O.applyKraus 2 ks (O.pauli b)
  rmk 4 fun a b =>
    O.scale (1/2) (O.sum ((imgs.getD b []).map fun sk => O.signed sk.1 (O.ctrace 2 (O.cmmul 2 (O.pauli a) sk.2)).re))

/-- two-qubit Pauli `σ_{a1} ⊗ σ_{a0}` with index `a = 4*a1 + a0` -/
def pauli2 (a : Nat) : CMat α := O.kron2 (O.pauli (a / 4)) (O.pauli (a % 4))

/-- two-qubit transfer matrix, index `4*a1 + a0` (qubit 0 = least significant) -/
def ptm2 (ks : Kraus α) : RMat α :=
  let imgs := (List.range 16).map fun b => O.applyKraus 4 ks (O.pauli2 b)
  rmk 16 fun a b =>
    O.scale (1/4) (O.sum ((imgs.getD b []).map fun sk => O.signed sk.1 (O.ctrace 4 (O.cmmul 4 (O.pauli2 a) sk.2)).re))

/-- rotation about axis `ax` (1 = X, 2 = Y, 3 = Z) by an angle with the given cosine and sine -/
def rotPtm (ax : Nat) (c s : α) : RMat α :=
  let z := O.zero; let o := O.one; let ns := O.neg s
  match ax with
  | 1 => [[o, z, z, z], [z, o, z, z], [z, z, c, ns], [z, z, s, c]]
  | 2 => [[o, z, z, z], [z, c, z, s], [z, z, o, z], [z, ns, z, c]]
  | _ => [[o, z, z, z], [z, c, ns, z], [z, s, c, z], [z, z, z, o]]

end Ops

/-! ## Symbolic operations (entries are polynomials) -/

/-- semantics of a one-qubit operation -/
inductive OpSem (α : Type) where
  | kraus (ks : Ops.Kraus α)
  | ptm (R : Ops.RMat α)

/-- a symbolic one-qubit operation as it appears in a basis map -/
structure SOp where
  name : String
  /-- for rotations: axis and (cos φ, sin φ) of the rotation angle -/
  rot : Option (Nat × Poly × Poly) := none
  deriving Repr, Inhabited

def Ops.opPtm {α : Type} (O : Ops α) : OpSem α → Ops.RMat α
  | .kraus ks => O.ptm1 ks
  | .ptm R => R

/-- transfer matrix of a sequence (first operation acts first) -/
def Ops.seqPtm {α : Type} (O : Ops α) (ops : List (OpSem α)) : Ops.RMat α :=
  ops.foldl (fun acc op => O.rmmul 4 (O.opPtm op) acc) (O.rident 4)

/-- `Σᵢ cᵢ · A_i[a0][b0] · B_i[a1][b1]` — the tensor-product channel of a basis, entry `(4a1+a0, 4b1+b0)` -/
def Ops.basisEntry {α : Type} (O : Ops α) (terms : List (α × Ops.RMat α × Ops.RMat α)) (a b : Nat) : α :=
  O.sum (terms.map fun t => O.mul t.1 (O.mul (O.rget t.2.1 (a % 4) (b % 4)) (O.rget t.2.2 (a / 4) (b / 4))))

end CKT
