import Lean.Data.Json
import CKT.Model.Basic
/-! JSON codec for the line protocol (driver only; no theorem depends on it). -/
namespace CKT
open Lean

def parseRat (s : String) : Except String Rat :=
  match s.splitOn "/" with
  | [p] => match p.toInt? with
    | some n => pure (n : Rat)
    | none => throw s!"bad rational {s}"
  | [p, q] => match p.toInt?, q.toNat? with
    | some n, some d => if d = 0 then throw "zero denominator" else pure (mkRat n d)
    | _, _ => throw s!"bad rational {s}"
  | _ => throw s!"bad rational {s}"

def ratStr (r : Rat) : String := s!"{r.num}/{r.den}"

def jRat (r : Rat) : Json := Json.str (ratStr r)

def getRat (j : Json) : Except String Rat := do
  match j with
  | Json.str s => parseRat s
  | _ => match j.getInt? with
    | .ok n => pure (n : Rat)
    | .error e => throw e

def getList (j : Json) (f : Json → Except String α) : Except String (List α) := do
  let a ← j.getArr?
  a.toList.mapM f

def field (j : Json) (k : String) : Except String Json := j.getObjVal? k

def fieldD (j : Json) (k : String) (d : Json) : Json :=
  match j.getObjVal? k with
  | .ok v => v
  | .error _ => d

def getOpt (j : Json) (f : Json → Except String α) : Except String (Option α) :=
  match j with
  | Json.null => pure none
  | _ => some <$> f j

def getNatList (j : Json) : Except String (List Nat) := getList j Json.getNat?
def getStrList (j : Json) : Except String (List String) := getList j Json.getStr?
def getRatList (j : Json) : Except String (List Rat) := getList j getRat

def getInstr (j : Json) : Except String Instr := do
  let name ← (← field j "name").getStr?
  let qubits ← getNatList (← field j "qubits")
  let clbits ← getNatList (fieldD j "clbits" (Json.arr #[]))
  let params ← getStrList (fieldD j "params" (Json.arr #[]))
  let label ← getOpt (fieldD j "label" Json.null) Json.getStr?
  let basis ← getOpt (fieldD j "basis" Json.null) Json.getNat?
  let half ← getOpt (fieldD j "half" Json.null) Json.getNat?
  let basisId ← getOpt (fieldD j "basis_id" Json.null) Json.getNat?
  pure { name, qubits, clbits, params, label, basis, half, basisId }

def jOpt (f : α → Json) : Option α → Json
  | none => Json.null
  | some a => f a

def jNat (n : Nat) : Json := Json.num (JsonNumber.fromNat n)
def jInt (n : Int) : Json := Json.num (JsonNumber.fromInt n)
def jList (f : α → Json) (l : List α) : Json := Json.arr (l.map f).toArray

def jInstr (i : Instr) : Json :=
  Json.mkObj [("name", Json.str i.name), ("qubits", jList jNat i.qubits),
    ("clbits", jList jNat i.clbits), ("params", jList Json.str i.params),
    ("label", jOpt Json.str i.label), ("basis", jOpt jNat i.basis),
    ("half", jOpt jNat i.half), ("basis_id", jOpt jNat i.basisId)]

def getOp (j : Json) : Except String Op := do
  let name ← (← field j "name").getStr?
  let params ← getStrList (fieldD j "params" (Json.arr #[]))
  pure { name, params }

def jOp (o : Op) : Json := Json.mkObj [("name", Json.str o.name), ("params", jList Json.str o.params)]

def getBasis (j : Json) : Except String Basis := do
  let maps ← getList (← field j "maps") (fun m => getList m (fun side => getList side getOp))
  let coeffs ← getRatList (← field j "coeffs")
  pure { maps, coeffs }

def getCircuit (j : Json) : Except String Circuit := do
  let nq ← (← field j "nq").getNat?
  let cregs ← getList (fieldD j "cregs" (Json.arr #[])) (fun r => do
    let a ← r.getArr?
    if h : a.size = 2 then
      pure ((← a[0].getStr?), (← a[1].getNat?))
    else throw "bad creg")
  let instrs ← getList (← field j "instrs") getInstr
  pure { nq, cregs, instrs }

def jCircuit (c : Circuit) : Json :=
  Json.mkObj [("nq", jNat c.nq),
    ("cregs", jList (fun (r : String × Nat) => Json.arr #[Json.str r.1, jNat r.2]) c.cregs),
    ("instrs", jList jInstr c.instrs)]

def jErr : Err → Json
  | .value _ => Json.mkObj [("error", Json.str "ValueError")]
  | .other m => Json.mkObj [("error", Json.str ("Other:" ++ m))]

def jResult (f : α → Json) : R α → Json
  | .ok a => Json.mkObj [("ok", f a)]
  | .error e => jErr e

end CKT
