import CKT.Model.Basic
/-!
# `QPDBasis` bookkeeping over exact rationals: the coefficient setter and the derived quantities
`kappa = Σ|cᵢ|`, `probabilities = |cᵢ|/kappa`, `overhead = kappa²`, recomputed on every assignment; an
assignment of the wrong length is refused and leaves the object unchanged.
-/
namespace CKT

def qabs (x : Rat) : Rat := if x < 0 then -x else x

structure BasisState where
  nmaps : Nat
  coeffs : List Rat
  kappa : Rat
  probs : List Rat
  deriving Repr, DecidableEq, Inhabited

def kappa1 (cs : List Rat) : Rat := (cs.map qabs).sum

/-- the `coeffs` setter -/
def BasisState.setCoeffs (b : BasisState) (cs : List Rat) : R BasisState :=
  if cs.length ≠ b.nmaps then .error (.value "Coefficients must be same length as maps.")
  else .ok { b with coeffs := cs, kappa := kappa1 cs, probs := cs.map fun c => qabs c / kappa1 cs }

/-- `QPDBasis(maps, coeffs)` with `nmaps = len(maps) > 0` -/
def BasisState.mk' (nmaps : Nat) (cs : List Rat) : R BasisState :=
  if nmaps = 0 then .error (.value "Number of maps passed to QPDBasis must be nonzero.")
  else BasisState.setCoeffs { nmaps := nmaps, coeffs := [], kappa := 0, probs := [] } cs

def BasisState.overhead (b : BasisState) : Rat := b.kappa * b.kappa

/-- a history of assignments; a refused assignment leaves the state as it was -/
def BasisState.run (b : BasisState) : List (List Rat) → BasisState
  | [] => b
  | cs :: rest => match b.setCoeffs cs with
    | .ok b' => BasisState.run b' rest
    | .error _ => BasisState.run b rest

end CKT
