import CKT.Model.CutFinding
/-!
# A small IR for the bodies of the cut finder's search actions

`harness/translate/actions.py` turns every `next_state_primitive` of `cut_finding/cutting_actions.py` into a program over this IR
(`CKT/Generated/CutActions.lean`); `interp` executes a program on a search state.  `CKT.Props.C07Gen` proves that the translated programs
are the hand-written model actions.
-/
namespace CKT.CutIR
open CKT CKT.CF

/-- the names the action bodies use for roots: of the two operands (read in the original state), and of the wires they allocate -/
inductive Ref | r1 | r2 | n1 | n2
  deriving DecidableEq, Repr

inductive Op
  /-- `if not state.can_add_wires(k): return []` -/
  | gCap (k : Nat)
  /-- `if max_width < m: return []` -/
  | gMinW (m : Nat)
  /-- `if r1 == r2: return []` -/
  | gSame
  /-- `if not state.can_expand_subcircuit(r, 1, max_width): return []` -/
  | gExpand (r : Ref)
  /-- `if r1 != r2 and state.width[r1] + state.width[r2] > max_width: return []` -/
  | gWidthSum
  /-- `if state.check_donot_merge_roots(r1, r2): return []` -/
  | gForbid
  /-- `if gamma_LB is None: return []` -/
  | gNoGamma
  /-- `rnew(_slot) = new_state.new_wire(q<operand+1>)` -/
  | eNew (slot : Nat) (operand : Nat)
  /-- `new_state.merge_roots(a, b)` -/
  | eMerge (a b : Ref)
  /-- `if r1 != r2: new_state.merge_roots(r1, r2)` -/
  | eCondMerge
  /-- `new_state.assert_donot_merge_roots(a, b)` -/
  | eClause (a b : Ref)
  /-- `new_state.gamma_UB *= c` -/
  | eCost (c : Nat)
  /-- `new_state.gamma_UB *= gamma_UB` (the gate's own gamma) -/
  | eCostGamma
  /-- `new_state.add_action(self, gate_spec, (num, w<num>[, new root]) ...)` -/
  | eAction (kind : Kind) (args : List (Nat × Option Ref))
  deriving Repr

structure ActionDef where
  cls : String
  name : Option String
  groups : List (Option String)
  prog : List Op
  deriving Repr, Inhabited

structure Env where
  s0 : St
  g : Gate
  W : Nat
  cur : St
  n1 : Nat
  n2 : Nat
  gam : Rat

def Env.ref (e : Env) : Ref → Nat
  | .r1 => e.s0.qroot (e.g.qubits.getD 0 0)
  | .r2 => e.s0.qroot (e.g.qubits.getD 1 0)
  | .n1 => e.n1
  | .n2 => e.n2

def interp : List Op → Env → Option St
  | [], e => some { e.cur with level := e.s0.level + 1 }
  | .gCap k :: rest, e => if !e.s0.canAddWires k then none else interp rest e
  | .gMinW m :: rest, e => if e.W < m then none else interp rest e
  | .gSame :: rest, e => if e.ref .r1 = e.ref .r2 then none else interp rest e
  | .gExpand r :: rest, e => if !(e.s0.widthOf (e.ref r) + 1 ≤ e.W) then none else interp rest e
  | .gWidthSum :: rest, e =>
    if e.ref .r1 ≠ e.ref .r2 ∧ e.s0.widthOf (e.ref .r1) + e.s0.widthOf (e.ref .r2) > e.W then none else interp rest e
  | .gForbid :: rest, e => if e.s0.forbidden (e.ref .r1) (e.ref .r2) then none else interp rest e
  | .gNoGamma :: rest, e => match e.g.gamma with
    | none => none
    | some gam => interp rest { e with gam := gam }
  | .eNew slot operand :: rest, e =>
    let sw := e.cur.newWire (e.g.qubits.getD operand 0)
    interp rest (if slot = 1 then { e with cur := sw.1, n1 := sw.2 } else { e with cur := sw.1, n2 := sw.2 })
  | .eMerge a b :: rest, e => interp rest { e with cur := e.cur.merge (e.ref a) (e.ref b) }
  | .eCondMerge :: rest, e =>
    interp rest { e with cur := if e.ref .r1 ≠ e.ref .r2 then e.cur.merge (e.ref .r1) (e.ref .r2) else e.cur }
  | .eClause a b :: rest, e => interp rest { e with cur := { e.cur with noMerge := e.cur.noMerge ++ [(e.ref a, e.ref b)] } }
  | .eCost c :: rest, e => interp rest { e with cur := { e.cur with gammaUB := e.cur.gammaUB * c } }
  | .eCostGamma :: rest, e => interp rest { e with cur := { e.cur with gammaUB := e.cur.gammaUB * e.gam } }
  | .eAction kind args :: rest, e =>
    interp rest { e with cur := { e.cur with actions := e.cur.actions ++
      [⟨kind, e.g.idx, args.map fun a => (a.1, e.s0.wire (e.g.qubits.getD (a.1 - 1) 0), match a.2 with | none => 0 | some r => e.ref r)⟩] } }

/-- run the translated body of an action on state `s` for gate `g` under the width limit `W` -/
def run (a : ActionDef) (s : St) (g : Gate) (W : Nat) : Option St :=
  interp a.prog { s0 := s, g := g, W := W, cur := s, n1 := 0, n2 := 0, gam := 1 }

/-- `ActionNames.copy(cut_groups)`: the unnamed action always, the others when one of their groups is switched on -/
def enabled (cfg : Settings) (a : ActionDef) : Bool :=
  a.name.isNone || (a.groups.contains (some "GateCut") && cfg.gateLO) || (a.groups.contains (some "WireCut") && cfg.wireLO)

end CKT.CutIR
