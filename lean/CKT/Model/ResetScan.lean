import CKT.Model.Resets
/-!
# The common shape of the three reset optimisations

One scan over the instruction list with a set of qubits: a reset is dropped depending on whether its qubit is in the set, a kept reset may add
its qubit, any other instruction adds or removes all its qubits, the scan may stop early; a reversed scan runs on the reversed list.
`harness/translate/resets.py` reads the three functions of `cutting_experiments.py` into `ScanSpec`s (`CKT/Generated/ResetScans.lean`);
`CKT.Props.C12Gen` proves that `scan` on those specs is the hand-written model pass.
-/
namespace CKT

structure ScanSpec where
  /-- the scan runs over `reversed(circuit.data)` -/
  reversed : Bool
  /-- the set starts as all qubits (`set(range(num_qubits))`) / empty -/
  initAll : Bool
  /-- a reset is deleted when its qubit is in the set (`true`) / is not in the set (`false`) -/
  removeWhenIn : Bool
  /-- a reset that is kept adds its qubit to the set -/
  resetAdds : Bool
  /-- another instruction adds all its qubits to the set (`true`) / removes all of them (`false`) -/
  otherAdds : Bool
  /-- stop when the set holds every qubit (`some true`) / is empty (`some false`) / never (`none`) -/
  exitWhen : Option Bool
  deriving Repr, DecidableEq

def scanGo (sp : ScanSpec) (nq : Nat) : List Instr → List Nat → List Instr
  | [], _ => []
  | i :: rest, set =>
    if isReset i then
      let q := i.qubits.headD 0
      if set.contains q = sp.removeWhenIn then scanGo sp nq rest set
      else i :: scanGo sp nq rest (if sp.resetAdds then q :: set else set)
    else
      let set' := if sp.otherAdds then addAll set i.qubits else set.filter (fun q => !i.qubits.contains q)
      match sp.exitWhen with
      | some true => if set'.length == nq then i :: rest else i :: scanGo sp nq rest set'
      | some false => if set'.isEmpty then i :: rest else i :: scanGo sp nq rest set'
      | none => i :: scanGo sp nq rest set'

/-- the pass described by `sp` on a circuit with `nq` qubits -/
def scan (sp : ScanSpec) (nq : Nat) (l : List Instr) : List Instr :=
  let init := if sp.initAll then List.range nq else []
  if sp.reversed then (scanGo sp nq l.reverse init).reverse else scanGo sp nq l init

end CKT
