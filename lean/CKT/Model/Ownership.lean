/-!
# Ownership skeletons of the public transformations (C16)

A tiny heap model: objects are either reachable from the *arguments* of a call or *fresh* (allocated during the
call).  A function is a skeleton — the list of its allocation, write and reference-sharing sites, transcribed from
the source (copy sites, constructor sites, attribute writes) with Qiskit's observed copy semantics
(`QuantumCircuit.copy()` / `compose` give new circuit and instruction containers and new standard-gate operations, but
keep (a) the `QPDBasis` object referenced by a placeholder, (b) the ndarray payload of a `UnitaryGate`-like operation and,
when an instruction is appended again, (c) the Python-side operation object itself).
-/
namespace CKT.Own

/-- what a call can touch -/
inductive Obj where
  | arg (name : String)      -- an object reachable from the arguments
  | fresh (n : Nat)          -- allocated during the call
  deriving Repr, DecidableEq, Inhabited

/-- classes of argument-reachable mutable objects that a result may keep referencing -/
inductive Share where
  | S1   -- the basis object of a pre-placed placeholder (with its maps, lists, operations, coefficient list)
  | S2   -- the ndarray payload of an input gate
  | S3   -- operation objects of an input basis' maps, reused as circuit operations
  | S4   -- a Python-side operation object appended again
  deriving Repr, DecidableEq, Inhabited

/-- features of the input that make a class possible -/
structure Features where
  preplaced : Bool    -- the circuit holds a TwoQubitQPDGate / SingleQubitQPDGate
  payload : Bool      -- some gate carries an ndarray parameter (UnitaryGate)
  mapOps : Bool       -- some basis map holds a mutable (parametrised) operation
  paramOps : Bool     -- some instruction holds a Python-side mutable operation object with parameters
  deriving Repr, DecidableEq, Inhabited

inductive Step where
  | alloc (n : Nat)                         -- allocate `fresh n`
  | write (o : Obj)                         -- mutate `o` (attribute assignment, list edit, in-place array edit)
  | keep (s : Share)                        -- the result keeps a reference of class `s` (when the input has the feature)
  deriving Repr, DecidableEq, Inhabited

abbrev Skeleton := List Step

/-- every write goes to an object allocated earlier in the same call -/
def framedFrom : List Nat → Skeleton → Bool
  | _, [] => true
  | al, .alloc n :: rest => framedFrom (n :: al) rest
  | al, .write (.fresh n) :: rest => al.contains n && framedFrom al rest
  | _, .write (.arg _) :: _ => false
  | al, .keep _ :: rest => framedFrom al rest

def framed (sk : Skeleton) : Bool := framedFrom [] sk

/-- heap = version counter per object; a write bumps the version -/
def exec (h : Obj → Nat) : Skeleton → (Obj → Nat)
  | [] => h
  | .write o :: rest => exec (fun x => if x = o then h x + 1 else h x) rest
  | _ :: rest => exec h rest

def possible (f : Features) : Share → Bool
  | .S1 => f.preplaced
  | .S2 => f.payload
  | .S3 => f.mapOps
  | .S4 => f.payload || f.paramOps

/-- the sharing classes a skeleton can produce on an input with the given features -/
def shares (sk : Skeleton) (f : Features) : List Share :=
  (sk.filterMap fun s => match s with | .keep c => some c | _ => none).filter (possible f) |>.eraseDups

/-! ### the skeletons (source sites in comments) -/

/-- `cut_gates`: circuit.copy(); each chosen gate replaced by a new TwoQubitQPDGate over a new basis -/
def cutGates : Skeleton :=
  [.alloc 0,                       -- circuit.copy()
   .keep .S1, .keep .S2,           -- copy keeps basis references and payload arrays
   .alloc 1, .alloc 2,             -- QPDBasis.from_instruction, TwoQubitQPDGate(...)
   .write (.fresh 0)]              -- circuit.data[gate_id] = ...  (on the copy)

/-- `partition_circuit_qubits(inplace=False)` -/
def partitionCircuitQubits : Skeleton :=
  [.alloc 0, .keep .S1, .keep .S2, .alloc 1, .alloc 2, .write (.fresh 0)]

/-- `partition_problem`: partition_circuit_qubits (copy), relabel the placeholders of the copy, decompose, separate -/
def partitionProblem : Skeleton :=
  partitionCircuitQubits ++
  [.write (.fresh 0),              -- inst.operation.label = f"{label}_{cut_num}" on the copy's operations
   .alloc 3,                       -- decompose_qpd_instructions(...): new circuit with SingleQubitQPDGates over the same bases
   .alloc 4,                       -- separate_circuit: new subcircuits
   .alloc 5]                       -- decompose_observables: new PauliLists

/-- `cut_wires`: a new circuit; non-marker instructions are appended again (operation objects are reused) -/
def cutWires : Skeleton :=
  [.alloc 0, .keep .S4, .keep .S2, .alloc 1, .write (.fresh 0)]

def expandObservables : Skeleton := [.alloc 0, .write (.fresh 0)]

/-- `find_cuts`: cut_gates on a copy, markers inserted into the copy -/
def findCuts : Skeleton := [.alloc 0, .keep .S2, .alloc 1, .alloc 2, .write (.fresh 0), .write (.fresh 0)]

/-- `generate_cutting_experiments`: per sample decompose a copy, append registers and measurements, reset passes -/
def generateExperiments : Skeleton :=
  [.alloc 0,                       -- decompose_qpd_instructions(circuit, ..., inplace=False) -> copy
   .write (.fresh 0),              -- basis_id set on the copy's gates; halves/ops spliced into the copy
   .keep .S3, .keep .S2,           -- the spliced operations are the objects stored in basis.maps
   .alloc 1, .write (.fresh 0)]    -- measurement registers and circuits appended to the copy

def decomposeQpd : Skeleton := [.alloc 0, .write (.fresh 0), .keep .S3, .keep .S2]

def reconstruct : Skeleton := [.alloc 0, .write (.fresh 0)]

def table : List (String × Skeleton) :=
  [("cut_gates", cutGates), ("partition_circuit_qubits", partitionCircuitQubits), ("partition_problem", partitionProblem),
   ("cut_wires", cutWires), ("expand_observables", expandObservables), ("find_cuts", findCuts),
   ("generate_cutting_experiments", generateExperiments), ("decompose_qpd_instructions", decomposeQpd),
   ("reconstruct_expectation_values", reconstruct)]

def skeletonOf (name : String) : Skeleton := ((table.find? (·.1 = name)).map (·.2)).getD []

end CKT.Own
