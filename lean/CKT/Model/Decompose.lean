import CKT.Model.Basic
/-!
# Model of `qpd/decompose.py`
Validation, map-id assignment, the two index-juggling stages (running offset) and the
marker → measurement rewrite.  `spliceLoop` is the shape both stages share:
"for ascending indices `i`, replace the single element at `i + offset` by a list and move the offset".
-/
namespace CKT

def isQpd (i : Instr) : Bool := i.name == "qpd_1q" || i.name == "qpd_2q"
def isQpd2 (i : Instr) : Bool := i.name == "qpd_2q"
def isMarker (i : Instr) : Bool := i.name == "qpd_measure"

instance : BEq Op := ⟨fun a b => a.name == b.name && a.params == b.params⟩
/-- structural basis equality (`QPDBasis.__eq__`) -/
def Basis.beq (a b : Basis) : Bool := a.maps == b.maps && a.coeffs == b.coeffs

def basisOfInstr (bases : List Basis) (i : Instr) : Option Basis := i.basis.bind (bases[·]?)

/-- run `f` on every element, stop at the first error (a Python `for` loop that may raise) -/
def forM' {α : Type} (f : α → R Unit) : List α → R Unit
  | [] => .ok ()
  | a :: as => match f a with
    | .ok () => forM' f as
    | .error e => .error e

def foldM' {α β : Type} (f : β → α → R β) : β → List α → R β
  | b, [] => .ok b
  | b, a :: as => match f b a with
    | .ok b' => foldM' f b' as
    | .error e => .error e

def checkGate (instrs : List Instr) (bases : List Basis) (pair : Bool) (g0 : Instr) (gid : Nat) : R Unit :=
  match instrs[gid]? with
  | none => .error (.other "IndexError")
  | some g =>
    if !isQpd g then .error (.value "index corresponds to a non-QPDGate") else
    if pair && isQpd2 g then .error (.value "a decomposition with two elements must consist of two one-qubit placeholders") else
    match basisOfInstr bases g0, basisOfInstr bases g with
    | some b0, some b => if b0.beq b then .ok () else .error (.value "gates must share an equivalent basis")
    | _, _ => .error (.other "dangling basis reference")

def checkDecomp (instrs : List Instr) (bases : List Basis) (d : List Nat) : R Unit :=
  if d.length != 1 && d.length != 2 then .error (.value "decomposition must have one or two elements") else
  match instrs[d.headD 0]? with
  | none => .error (.other "IndexError")
  | some g0 =>
    if !isQpd g0 then .error (.value "index corresponds to a non-QPDGate") else
    forM' (checkGate instrs bases (d.length == 2) g0) d

/-- `_validate_qpd_instructions` -/
def validateDecomp (instrs : List Instr) (bases : List Basis) (ids : List (List Nat)) : R Unit :=
  match forM' (checkDecomp instrs bases) ids with
  | .error e => .error e
  | .ok () =>
    if (ids.map List.length).sum != (instrs.filter isQpd).length then .error (.value "number of QPD gates does not match")
    else .ok ()

/-- the `basis_id` setter: range check against the gate's basis -/
def setBasisId (bases : List Basis) (g : Instr) (m : Int) : R Instr :=
  match basisOfInstr bases g with
  | none => .error (.other "dangling basis reference")
  | some b => if 0 ≤ m ∧ m < b.maps.length then .ok { g with basisId := some m.toNat } else .error (.value "Basis ID out of range")

def assignOne (bases : List Basis) (m : Int) (cur : List Instr) (gid : Nat) : R (List Instr) :=
  match cur[gid]? with
  | none => .error (.other "IndexError")
  | some g => match setBasisId bases g m with
    | .ok g' => .ok (cur.set gid g')
    | .error e => .error e

/-- `circuit.data[gate_id].operation.basis_id = map_ids[i]` for every gate of every decomposition -/
def assignMapIds (bases : List Basis) (instrs : List Instr) (ids : List (List Nat)) (mapIds : List Int) : R (List Instr) :=
  if ids.length != mapIds.length then .error (.value "number of map IDs must equal the number of decompositions") else
  foldM' (fun cur (dm : List Nat × Int) => foldM' (assignOne bases dm.2) cur dm.1) instrs (ids.zip mapIds)

/-- without map ids every listed gate must already carry one -/
def requireMapIds (instrs : List Instr) (ids : List (List Nat)) : R Unit :=
  forM' (fun d => forM' (fun gid => match instrs[gid]? with
    | none => .error (.other "IndexError")
    | some g => if g.basisId.isNone then .error (.value "no map ID") else .ok ()) d) ids

/-- The running-offset loop shared by both stages. `off` is `data_id_offset`. -/
def spliceLoop {α : Type} (f : α → List α) : List α → List Nat → Int → List α
  | cur, [], _ => cur
  | cur, i :: rest, off =>
    let p := ((i : Int) + off).toNat
    match cur[p]? with
    | none => cur            -- unreachable on validated input
    | some x =>
      let new := f x
      spliceLoop f (cur.take p ++ new ++ cur.drop (p + 1)) rest (off + (new.length : Int) - 1)

/-- the two one-qubit halves a two-qubit placeholder is defined by -/
def halvesOf (g : Instr) : List Instr :=
  [ { g with name := "qpd_1q", qubits := [g.qubits.getD 0 0], half := some 0 },
    { g with name := "qpd_1q", qubits := [g.qubits.getD 1 0], half := some 1 } ]

/-- ascending insertion sort (Python `sorted`) -/
def insertSorted (x : Nat) : List Nat → List Nat
  | [] => [x]
  | y :: ys => if x ≤ y then x :: y :: ys else y :: insertSorted x ys
def sortNat (l : List Nat) : List Nat := l.foldr insertSorted []

/-- indices of the two-qubit placeholders listed as one-element decompositions, sorted -/
def twoQubitIds (instrs : List Instr) (ids : List (List Nat)) : List Nat :=
  sortNat ((ids.filter (fun d => d.length == 1)).filterMap fun d =>
    match instrs[d.headD 0]? with
    | some g => if isQpd2 g then some (d.headD 0) else none
    | none => none)

def stage1 (instrs : List Instr) (ids : List (List Nat)) : List Instr :=
  spliceLoop halvesOf instrs (twoQubitIds instrs ids) 0

/-- the chosen map's operation sequence for this half, placed on the placeholder's qubit -/
def opsFor (bases : List Basis) (g : Instr) : List Instr :=
  match basisOfInstr bases g, g.basisId, g.half with
  | some b, some m, some h =>
    (((b.maps.getD m []).getD h []).map fun (op : Op) =>
      ({ name := op.name, qubits := [g.qubits.getD 0 0], params := op.params } : Instr))
  | _, _, _ => []

def placeholderIdxs (instrs : List Instr) : List Nat :=
  (List.range instrs.length).filter fun i => match instrs[i]? with
    | some g => isQpd g
    | none => false

def stage2 (bases : List Basis) (instrs : List Instr) : List Instr :=
  spliceLoop (opsFor bases) instrs (placeholderIdxs instrs) 0

/-- `_decompose_qpd_measurements`: the j-th marker becomes a measurement into bit `base + j` -/
def markersToMeasures (base : Nat) : List Instr → Nat → List Instr
  | [], _ => []
  | i :: rest, j =>
    if isMarker i then
      { name := "measure", qubits := i.qubits, clbits := [base + j] } :: markersToMeasures base rest (j + 1)
    else i :: markersToMeasures base rest j

def countMarkers (l : List Instr) : Nat := (l.filter isMarker).length

/-- `decompose_qpd_instructions` -/
def decomposeQpd (c : Circuit) (bases : List Basis) (ids : List (List Nat)) (mapIds : Option (List Int)) : R Circuit :=
  match validateDecomp c.instrs bases ids with
  | .error e => .error e
  | .ok () =>
    let assigned : R (List Instr) := match mapIds with
      | some ms => assignMapIds bases c.instrs ids ms
      | none => match requireMapIds c.instrs ids with
        | .ok () => .ok c.instrs
        | .error e => .error e
    match assigned with
    | .error e => .error e
    | .ok instrs =>
      let s2 := stage2 bases (stage1 instrs ids)
      .ok { c with instrs := markersToMeasures c.ncl s2 0,
                   cregs := c.cregs ++ [("qpd_measurements", max 1 (countMarkers s2))] }

/-! ### specification -/

/-- what a placeholder is replaced by (two-qubit ones first become their halves) -/
def spliceOf (bases : List Basis) (g : Instr) : List Instr :=
  if isQpd2 g then (halvesOf g).flatMap (opsFor bases)
  else if isQpd g then opsFor bases g
  else [g]

def decomposeSpec (bases : List Basis) (instrs : List Instr) : List Instr :=
  instrs.flatMap (spliceOf bases)

end CKT
