import CKT.Model.Basic
import CKT.Model.Pauli
/-!
# Model of `utils/transforms.py` and `cutting_decomposition.py`
Partition labels are `Option Nat` (`none` = Python `None`); arbitrary hashable labels are mapped to
numbers by the adapter (first occurrence, `==`-equivalence).
-/
namespace CKT

abbrev Label := Option Nat

/-- `_split_barriers`: every multi-qubit barrier becomes one-qubit barriers tagged `_uuid=<k>`
(`k` = running number of the split barrier, standing for the uuid). -/
def splitBarriersGo : List Instr → Nat → List Instr
  | [], _ => []
  | i :: rest, k =>
    if isBarrier i && i.qubits.length != 1 then
      (i.qubits.map fun q => ({ name := "barrier", qubits := [q], label := some s!"_uuid={k}" } : Instr))
        ++ splitBarriersGo rest (k + 1)
    else i :: splitBarriersGo rest k

def splitBarriers (l : List Instr) : List Instr := splitBarriersGo l 0

/-! ### automatic labels: connected components of the qubit graph -/

/-- one sweep: every instruction pulls the component ids of its qubits down to their minimum -/
def sweep (instrs : List (List Nat)) (comp : List Nat) : List Nat :=
  instrs.foldl (fun comp qs =>
    let ids := qs.map (fun q => comp.getD q q)
    match ids.min? with
    | none => comp
    | some m => comp.map (fun c => if ids.contains c then m else c)) comp

/-- component id (= least qubit of the component) per qubit; `n` sweeps suffice for `n` qubits -/
def components (n : Nat) (instrs : List (List Nat)) : List Nat :=
  (List.range n).foldl (fun comp _ => sweep instrs comp) (List.range n)

/-- `_partition_labels_from_circuit`: components numbered by least qubit; idle single-qubit components dropped -/
def autoLabels (n : Nat) (instrs : List Instr) (ignore : Instr → Bool) : List Label :=
  let comp := components n ((instrs.filter (fun i => !ignore i)).map (·.qubits))
  let used : List Nat := (instrs.map (·.qubits)).flatten
  -- a component survives unless it is a single idle qubit
  let roots := (List.range n).filter fun r =>
    comp.getD r r == r && !(((List.range n).filter (fun q => comp.getD q q == r)).length == 1 && !used.contains r)
  (List.range n).map fun q =>
    let r := comp.getD q q
    match roots.idxOf? r with
    | some k => some k
    | none => none

/-- `_qubit_map_from_partition_labels` (second component) -/
def qubitsOf (labels : List Label) (l : Nat) : List Nat :=
  (List.range labels.length).filter (fun i => labels.getD i none == some l)

/-- first component: `(label, index within the label's qubits)` or `(None, None)` -/
def qmEntry (labels : List Label) (i : Nat) : Option (Nat × Nat) :=
  match labels.getD i none with
  | none => none
  | some l => some (l, ((List.range i).filter (fun j => labels.getD j none == some l)).length)

def qubitMap (labels : List Label) : List (Option (Nat × Nat)) :=
  (List.range labels.length).map (qmEntry labels)

/-- non-`None` labels in order of first occurrence (`unique_by_eq`) -/
def labelOrder (labels : List Label) : List Nat := uniq (labels.filterMap id)

/-- the label an instruction belongs to, or the reason separation fails -/
def instrLabel (labels : List Label) (i : Instr) : R Nat :=
  if i.qubits.any (fun q => (labels.getD q none).isNone) then .error (.value "acts on a qubit labelled None")
  else match uniq (i.qubits.filterMap (fun q => labels.getD q none)) with
    | [l] => .ok l
    | _ => .error (.value "spans more than one partition")

def checkAllLabels (labels : List Label) : List Instr → R Unit
  | [] => .ok ()
  | i :: rest => match instrLabel labels i with
    | .ok _ => checkAllLabels labels rest
    | .error e => .error e

/-- instructions of partition `l`, qubits renumbered to the partition's own indices -/
def subInstrs (labels : List Label) (l : Nat) (instrs : List Instr) : List Instr :=
  let qs := qubitsOf labels l
  (instrs.filter (fun i => match instrLabel labels i with | .ok l' => l' == l | .error _ => false)).map
    fun i => { i with qubits := i.qubits.map (fun q => qs.idxOf q) }

def isTagged (i : Instr) : Bool :=
  isBarrier i && i.qubits.length == 1 && (match i.label with | some s => s.startsWith "_uuid=" | none => false)

/-- `_combine_barriers`: the first tagged barrier of each tag becomes a barrier over all of the tag's qubits
(in order of appearance); the others disappear. -/
def combineBarriersGo (all : List Instr) : List Instr → List String → List Instr
  | [], _ => []
  | i :: rest, seen =>
    if isTagged i then
      let tag := i.label.getD ""
      if seen.contains tag then combineBarriersGo all rest seen
      else
        let qs := (all.filter (fun j => isTagged j && j.label == i.label)).map (fun j => j.qubits.headD 0)
        ({ name := "barrier", qubits := qs } : Instr) :: combineBarriersGo all rest (tag :: seen)
    else i :: combineBarriersGo all rest seen

def combineBarriers (l : List Instr) : List Instr := combineBarriersGo l l []

structure Separated where
  subcircuits : List (Nat × Circuit)
  qubitMap    : List (Option (Nat × Nat))
  deriving Repr

/-- `separate_circuit` -/
def separateCircuit (c : Circuit) (labels? : Option (List Label)) : R Separated :=
  let split := splitBarriers c.instrs
  let labels := match labels? with
    | some ls => ls
    | none => autoLabels c.nq split (fun _ => false)
  if labels.length != c.nq then .error (.value "number of partition labels must equal number of qubits") else
  match checkAllLabels labels split with
  | .error e => .error e
  | .ok () =>
    .ok { subcircuits := (labelOrder labels).map fun l =>
            (l, { nq := (qubitsOf labels l).length, cregs := c.cregs,
                  instrs := combineBarriers (subInstrs labels l split) }),
          qubitMap := qubitMap labels }

/-! ### `partition_circuit_qubits`, `partition_problem` -/

/-- which two-qubit instruction names can be cut (the registered ones plus any other two-qubit *gate*);
the adapter passes the verdict of the real `QPDBasis.from_instruction` for names outside the table. -/
structure CutOracle where
  /-- can this instruction be wrapped?  (`false` = `from_instruction` raises `ValueError`) -/
  supported : Instr → Bool

def spansCut (labels : List Label) (i : Instr) : Bool :=
  !isBarrier i && i.qubits.length > 1 && (uniq (i.qubits.map (fun q => labels.getD q none))).length != 1

/-- `partition_circuit_qubits`: the `k`-th newly wrapped gate gets basis reference `nb + k` -/
def partitionCircuitQubitsGo (o : CutOracle) (labels : List Label) : List Instr → Nat → R (List Instr)
  | [], _ => .ok []
  | i :: rest, nb =>
    if spansCut labels i then
      if i.qubits.length > 2 then .error (.value "decomposition only supported for two-qubit gates")
      else if isQpd2' i then
        match partitionCircuitQubitsGo o labels rest nb with
        | .ok r => .ok (i :: r)
        | .error e => .error e
      else if !o.supported i then .error (.value "instruction not supported")
      else
        match partitionCircuitQubitsGo o labels rest (nb + 1) with
        | .ok r => .ok ({ name := "qpd_2q", qubits := i.qubits, label := some ("cut_" ++ i.name),
                          basis := some nb, params := [] } :: r)
        | .error e => .error e
    else
      match partitionCircuitQubitsGo o labels rest nb with
      | .ok r => .ok (i :: r)
      | .error e => .error e
where isQpd2' (i : Instr) : Bool := i.name == "qpd_2q"

/-- number the two-qubit placeholders in order: label suffix `_<k>` -/
def numberCuts : List Instr → Nat → List Instr
  | [], _ => []
  | i :: rest, k =>
    if i.name == "qpd_2q" then
      { i with label := some (s!"{i.label.getD "None"}_{k}") } :: numberCuts rest (k + 1)
    else i :: numberCuts rest k

/-- `decompose(TwoQubitQPDGate)`: each two-qubit placeholder becomes its two halves -/
def splitHalves (l : List Instr) : List Instr :=
  l.flatMap fun i =>
    if i.name == "qpd_2q" then
      [ { i with name := "qpd_1q", qubits := [i.qubits.getD 0 0], half := some 0 },
        { i with name := "qpd_1q", qubits := [i.qubits.getD 1 0], half := some 1 } ]
    else [i]

structure Partitioned where
  subcircuits    : List (Nat × Circuit)
  /-- basis reference of cut `d` -/
  bases          : List (Option Nat)
  subobservables : Option (List (Nat × List PauliStr))
  deriving Repr

/-- `partition_problem`.  `nbases` = number of basis objects already referenced by the input circuit. -/
def partitionProblem (o : CutOracle) (c : Circuit) (nbases : Nat) (labels? : Option (List Label))
    (obs : Option (List PauliStr)) : R Partitioned :=
  match labels? with
  | some ls => if ls.length != c.nq then .error (.value "number of partition labels") else go ls
  | none => go (autoLabels c.nq c.instrs (fun i => i.name == "qpd_2q"))
where
  go (labels : List Label) : R Partitioned :=
    match obs with
    | some os =>
      if os.any (fun ob => ob.letters.length != c.nq) then .error (.value "observable size")
      else if os.any (fun ob => ob.phase != 0) then .error (.value "observable phase")
      else go2 labels
    | none => go2 labels
  go2 (labels : List Label) : R Partitioned :=
    if c.ncl != 0 || !c.cregs.isEmpty then .error (.value "classical bits") else
    if labels.length != c.nq then .error (.value "number of partition labels") else
    match partitionCircuitQubitsGo o labels c.instrs nbases with
    | .error e => .error e
    | .ok qpd =>
      let numbered := numberCuts qpd 0
      let bases := (numbered.filter (fun i => i.name == "qpd_2q")).map (·.basis)
      match separateCircuit { c with instrs := splitHalves numbered } (some labels) with
      | .error e => .error e
      | .ok sep =>
        match obs with
        | none => .ok { subcircuits := sep.subcircuits, bases := bases, subobservables := none }
        | some [] => .ok { subcircuits := sep.subcircuits, bases := bases, subobservables := none }
        | some os =>
          -- restrictions per label; the idle (None) block must carry identities only
          let idle := (List.range labels.length).filter (fun i => (labels.getD i none).isNone)
          if os.any (fun ob => idle.any (fun i => ob.letters.getD i P.I != P.I)) then
            .error (.value "observable acts on an idle qubit")
          else
            .ok { subcircuits := sep.subcircuits, bases := bases,
                  subobservables := some ((labelOrder labels).map fun l =>
                    (l, os.map (restrict (qubitsOf labels l)))) }

end CKT
