import CKT.Model.Bases
/-! kernel evaluation of the symbolic exactness check (split over several modules so that they build in parallel) -/
namespace CKT.C02
open CKT
theorem check_cp : checkName "cp" = true := by decide +kernel
theorem check_cs : checkName "cs" = true := by decide +kernel
theorem check_csdg : checkName "csdg" = true := by decide +kernel
end CKT.C02
