import CKT.Model.Bases
/-! kernel evaluation of the symbolic exactness check (split over several modules so that they build in parallel) -/
namespace CKT.C02
open CKT
theorem check_csx : checkName "csx" = true := by decide +kernel
theorem check_csxdg : checkName "csxdg" = true := by decide +kernel
theorem check_cx : checkName "cx" = true := by decide +kernel
theorem check_cy : checkName "cy" = true := by decide +kernel
end CKT.C02
