import CKT.Model.Bases
/-! kernel evaluation of the symbolic exactness check (split over several modules so that they build in parallel) -/
namespace CKT.C02
open CKT
theorem check_rxx : checkName "rxx" = true := by decide +kernel
theorem check_ryy : checkName "ryy" = true := by decide +kernel
theorem check_rzz : checkName "rzz" = true := by decide +kernel
end CKT.C02
