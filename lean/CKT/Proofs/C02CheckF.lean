import CKT.Model.Bases
/-! kernel evaluation of the symbolic exactness check (split over several modules so that they build in parallel) -/
namespace CKT.C02
open CKT
theorem check_swap : checkName "swap" = true := by decide +kernel
theorem check_iswap : checkName "iswap" = true := by decide +kernel
theorem check_dcx : checkName "dcx" = true := by decide +kernel
end CKT.C02
