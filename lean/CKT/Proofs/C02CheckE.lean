import CKT.Model.Bases
/-! kernel evaluation of the symbolic exactness check (split over several modules so that they build in parallel) -/
namespace CKT.C02
open CKT
theorem check_cz : checkName "cz" = true := by decide +kernel
theorem check_ch : checkName "ch" = true := by decide +kernel
theorem check_ecr : checkName "ecr" = true := by decide +kernel
theorem check_move : checkName "move" = true := by decide +kernel
end CKT.C02
