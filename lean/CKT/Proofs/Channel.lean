import CKT.Model.Gates
import CKT.Proofs.Poly
/-!
# The symbolic channel computation means what it says

Every generic function of `CKT.Model.Channel` commutes with a homomorphism of operation records.
`eval ρ` is such a homomorphism from the rewriting polynomial operations `PO` to the operations of a field,
for every environment `ρ` satisfying the rules.  Consequently `checkBasis target b = true` implies the
real statement: for every such `ρ`, the transfer matrix of the evaluated target equals the coefficient-weighted
sum of tensor products of the evaluated operation sequences (`checkBasis_sound`).
-/
set_option linter.unusedSectionVars false
namespace CKT
open Ops

structure Hom {α β : Type} (O₁ : Ops α) (O₂ : Ops β) (f : α → β) : Prop where
  zero : f O₁.zero = O₂.zero
  one : f O₁.one = O₂.one
  add : ∀ a b, f (O₁.add a b) = O₂.add (f a) (f b)
  mul : ∀ a b, f (O₁.mul a b) = O₂.mul (f a) (f b)
  neg : ∀ a, f (O₁.neg a) = O₂.neg (f a)
  scale : ∀ q a, f (O₁.scale q a) = O₂.scale q (f a)

def mapCx {α β : Type} (f : α → β) (z : Cx α) : Cx β := ⟨f z.re, f z.im⟩
def mapCM {α β : Type} (f : α → β) (A : CMat α) : CMat β := A.map (List.map (mapCx f))
def mapRM {α β : Type} (f : α → β) (A : RMat α) : RMat β := A.map (List.map f)
def mapKraus {α β : Type} (f : α → β) (ks : Kraus α) : Kraus β := ks.map fun k => (k.1, mapCM f k.2)

section
variable {α β : Type} {O₁ : Ops α} {O₂ : Ops β} {f : α → β} (h : Hom O₁ O₂ f)
include h

theorem Hom.sum (l : List α) : f (O₁.sum l) = O₂.sum (l.map f) := by
  induction l with
  | nil => simpa [Ops.sum] using h.zero
  | cons a l ih => simp only [Ops.sum, List.foldr_cons, List.map_cons] at ih ⊢; rw [h.add, ih]

theorem Hom.sub (a b : α) : f (O₁.sub a b) = O₂.sub (f a) (f b) := by simp [Ops.sub, h.add, h.neg]

theorem Hom.c0 : mapCx f O₁.c0 = O₂.c0 := by simp [mapCx, Ops.c0, h.zero]
theorem Hom.c1 : mapCx f O₁.c1 = O₂.c1 := by simp [mapCx, Ops.c1, h.zero, h.one]
theorem Hom.ci : mapCx f O₁.ci = O₂.ci := by simp [mapCx, Ops.ci, h.zero, h.one]
theorem Hom.cadd (a b : Cx α) : mapCx f (O₁.cadd a b) = O₂.cadd (mapCx f a) (mapCx f b) := by
  simp [mapCx, Ops.cadd, h.add]
theorem Hom.cneg (a : Cx α) : mapCx f (O₁.cneg a) = O₂.cneg (mapCx f a) := by simp [mapCx, Ops.cneg, h.neg]
theorem Hom.cmul (a b : Cx α) : mapCx f (O₁.cmul a b) = O₂.cmul (mapCx f a) (mapCx f b) := by
  simp [mapCx, Ops.cmul, h.add, h.mul, h.sub]
theorem Hom.conj (a : Cx α) : mapCx f (O₁.conj a) = O₂.conj (mapCx f a) := by simp [mapCx, Ops.conj, h.neg]

theorem Hom.csum (l : List (Cx α)) : mapCx f (O₁.csum l) = O₂.csum (l.map (mapCx f)) := by
  induction l with
  | nil => simpa [Ops.csum] using h.c0
  | cons a l ih => simp only [Ops.csum, List.foldr_cons, List.map_cons] at ih ⊢; rw [h.cadd, ih]

theorem Hom.cget (A : CMat α) (i j : Nat) : mapCx f (O₁.cget A i j) = O₂.cget (mapCM f A) i j := by
  unfold Ops.cget mapCM
  rw [← h.c0]
  have : (List.map (List.map (mapCx f)) A).getD i [] = List.map (mapCx f) (A.getD i []) := by
    simp [List.getD_eq_getElem?_getD, List.getElem?_map]
    cases A[i]? <;> simp
  rw [this]
  simp [List.getD_eq_getElem?_getD, List.getElem?_map]

theorem Hom.rget (A : RMat α) (i j : Nat) : f (O₁.rget A i j) = O₂.rget (mapRM f A) i j := by
  unfold Ops.rget mapRM
  rw [← h.zero]
  have : (List.map (List.map f) A).getD i [] = List.map f (A.getD i []) := by
    simp [List.getD_eq_getElem?_getD, List.getElem?_map]
    cases A[i]? <;> simp
  rw [this]
  simp [List.getD_eq_getElem?_getD, List.getElem?_map]

end

theorem mapCM_cmk {α β : Type} (f : α → β) (n : Nat) (g : Nat → Nat → Cx α) :
    mapCM f (cmk n g) = cmk n (fun i j => mapCx f (g i j)) := by
  simp [mapCM, cmk, List.map_map, Function.comp_def]

theorem mapRM_rmk {α β : Type} (f : α → β) (n : Nat) (g : Nat → Nat → α) :
    mapRM f (rmk n g) = rmk n (fun i j => f (g i j)) := by
  simp [mapRM, rmk, List.map_map, Function.comp_def]

section
variable {α β : Type} {O₁ : Ops α} {O₂ : Ops β} {f : α → β} (h : Hom O₁ O₂ f)
include h

theorem Hom.cmmul (n : Nat) (A B : CMat α) :
    mapCM f (O₁.cmmul n A B) = O₂.cmmul n (mapCM f A) (mapCM f B) := by
  unfold Ops.cmmul
  rw [mapCM_cmk]
  congr 1; funext i j
  rw [h.csum, List.map_map]
  congr 1
  apply List.map_congr_left
  intro k _
  simp only [Function.comp_def, h.cmul, h.cget]

theorem Hom.rmmul (n : Nat) (A B : RMat α) :
    mapRM f (O₁.rmmul n A B) = O₂.rmmul n (mapRM f A) (mapRM f B) := by
  unfold Ops.rmmul
  rw [mapRM_rmk]
  congr 1; funext i j
  rw [h.sum, List.map_map]
  congr 1
  apply List.map_congr_left
  intro k _
  simp only [Function.comp_def, h.mul, h.rget]

theorem Hom.dagger (n : Nat) (A : CMat α) : mapCM f (O₁.dagger n A) = O₂.dagger n (mapCM f A) := by
  unfold Ops.dagger
  rw [mapCM_cmk]
  congr 1; funext i j
  rw [h.conj, h.cget]

theorem Hom.cmadd (n : Nat) (A B : CMat α) : mapCM f (O₁.cmadd n A B) = O₂.cmadd n (mapCM f A) (mapCM f B) := by
  unfold Ops.cmadd
  rw [mapCM_cmk]
  congr 1; funext i j
  rw [h.cadd, h.cget, h.cget]

theorem Hom.kron2 (A B : CMat α) : mapCM f (O₁.kron2 A B) = O₂.kron2 (mapCM f A) (mapCM f B) := by
  unfold Ops.kron2
  rw [mapCM_cmk]
  congr 1; funext i j
  rw [h.cmul, h.cget, h.cget]

theorem Hom.ctrace (n : Nat) (A : CMat α) : mapCx f (O₁.ctrace n A) = O₂.ctrace n (mapCM f A) := by
  unfold Ops.ctrace
  rw [h.csum, List.map_map]
  congr 1
  apply List.map_congr_left
  intro k _
  simp only [Function.comp_def, h.cget]

theorem Hom.pauli (k : Nat) : mapCM f (O₁.pauli k) = O₂.pauli k := by
  unfold Ops.pauli
  split <;> simp [mapCM, h.c0, h.c1, h.ci, h.cneg]

theorem Hom.pauli2 (k : Nat) : mapCM f (O₁.pauli2 k) = O₂.pauli2 k := by
  unfold Ops.pauli2
  rw [h.kron2, h.pauli, h.pauli]

theorem Hom.signed (s : Bool) (x : α) : f (O₁.signed s x) = O₂.signed s (f x) := by
  unfold Ops.signed
  split <;> simp [h.neg]

theorem Hom.applyKraus (n : Nat) (ks : Kraus α) (M : CMat α) :
    mapKraus f (O₁.applyKraus n ks M) = O₂.applyKraus n (mapKraus f ks) (mapCM f M) := by
  unfold Ops.applyKraus mapKraus
  simp only [List.map_map, Function.comp_def, h.cmmul, h.dagger]

theorem Hom.ptm1 (ks : Kraus α) : mapRM f (O₁.ptm1 ks) = O₂.ptm1 (mapKraus f ks) := by
  unfold Ops.ptm1
  simp only
  rw [mapRM_rmk]
  congr 1; funext a b
  rw [h.scale, h.sum, List.map_map]
  congr 2
  have e : ∀ (l : List (List (Bool × CMat α))) , (l.map (mapKraus f)).getD b [] = mapKraus f (l.getD b []) := by
    intro l
    simp [List.getD_eq_getElem?_getD, List.getElem?_map]
    cases l[b]? <;> simp [mapKraus]
  have e2 : (List.map (fun b => O₂.applyKraus 2 (mapKraus f ks) (O₂.pauli b)) (List.range 4))
      = (List.map (fun b => O₁.applyKraus 2 ks (O₁.pauli b)) (List.range 4)).map (mapKraus f) := by
    rw [List.map_map]
    apply List.map_congr_left
    intro k _
    simp only [Function.comp_def, h.applyKraus, h.pauli]
  rw [e2, e]
  unfold mapKraus
  rw [List.map_map]
  apply List.map_congr_left
  intro sk _
  simp only [Function.comp_def]
  rw [h.signed]
  congr 1
  have := h.ctrace 2 (O₁.cmmul 2 (O₁.pauli a) sk.2)
  rw [h.cmmul, h.pauli] at this
  rw [← this]
  rfl

theorem Hom.ptm2 (ks : Kraus α) : mapRM f (O₁.ptm2 ks) = O₂.ptm2 (mapKraus f ks) := by
  unfold Ops.ptm2
  simp only
  rw [mapRM_rmk]
  congr 1; funext a b
  rw [h.scale, h.sum, List.map_map]
  congr 2
  have e : ∀ (l : List (List (Bool × CMat α))) , (l.map (mapKraus f)).getD b [] = mapKraus f (l.getD b []) := by
    intro l
    simp [List.getD_eq_getElem?_getD, List.getElem?_map]
    cases l[b]? <;> simp [mapKraus]
  have e2 : (List.map (fun b => O₂.applyKraus 4 (mapKraus f ks) (O₂.pauli2 b)) (List.range 16))
      = (List.map (fun b => O₁.applyKraus 4 ks (O₁.pauli2 b)) (List.range 16)).map (mapKraus f) := by
    rw [List.map_map]
    apply List.map_congr_left
    intro k _
    simp only [Function.comp_def, h.applyKraus, h.pauli2]
  rw [e2, e]
  unfold mapKraus
  rw [List.map_map]
  apply List.map_congr_left
  intro sk _
  simp only [Function.comp_def]
  rw [h.signed]
  congr 1
  have := h.ctrace 4 (O₁.cmmul 4 (O₁.pauli2 a) sk.2)
  rw [h.cmmul, h.pauli2] at this
  rw [← this]
  rfl

theorem Hom.rident (n : Nat) : mapRM f (O₁.rident n) = O₂.rident n := by
  unfold Ops.rident
  rw [mapRM_rmk]
  congr 1; funext i j
  split <;> simp [h.one, h.zero]

theorem Hom.rotPtm (ax : Nat) (c s : α) : mapRM f (O₁.rotPtm ax c s) = O₂.rotPtm ax (f c) (f s) := by
  unfold Ops.rotPtm
  simp only
  split <;> simp [mapRM, h.one, h.zero, h.neg]

end

def mapOpSem {α β : Type} (f : α → β) : OpSem α → OpSem β
  | .kraus ks => .kraus (mapKraus f ks)
  | .ptm R => .ptm (mapRM f R)

section
variable {α β : Type} {O₁ : Ops α} {O₂ : Ops β} {f : α → β} (h : Hom O₁ O₂ f)
include h

theorem Hom.opPtm (o : OpSem α) : mapRM f (O₁.opPtm o) = O₂.opPtm (mapOpSem f o) := by
  cases o with
  | kraus ks => simp [Ops.opPtm, mapOpSem, h.ptm1]
  | ptm R => simp [Ops.opPtm, mapOpSem]

theorem Hom.seqPtm (ops : List (OpSem α)) : mapRM f (O₁.seqPtm ops) = O₂.seqPtm (ops.map (mapOpSem f)) := by
  unfold Ops.seqPtm
  have : ∀ (acc : RMat α), mapRM f (ops.foldl (fun acc op => O₁.rmmul 4 (O₁.opPtm op) acc) acc)
      = (ops.map (mapOpSem f)).foldl (fun acc op => O₂.rmmul 4 (O₂.opPtm op) acc) (mapRM f acc) := by
    induction ops with
    | nil => intro acc; rfl
    | cons o ops ih =>
      intro acc
      simp only [List.foldl_cons, List.map_cons]
      rw [ih, h.rmmul, h.opPtm]
  rw [this, h.rident]

theorem Hom.basisEntry (terms : List (α × RMat α × RMat α)) (a b : Nat) :
    f (O₁.basisEntry terms a b)
      = O₂.basisEntry (terms.map fun t => (f t.1, mapRM f t.2.1, mapRM f t.2.2)) a b := by
  unfold Ops.basisEntry
  rw [h.sum, List.map_map, List.map_map]
  congr 1
  apply List.map_congr_left
  intro t _
  simp only [Function.comp_def, h.mul, h.rget]

end

/-! ## The field instance and `eval` as a homomorphism -/

def fieldOps (K : Type) [Field K] : Ops K := ⟨0, 1, (· + ·), (· * ·), (- ·), fun q x => (q : K) * x⟩

theorem evalHom {K : Type} [Field K] [CharZero K] (ρ : Nat → K) (rules : Poly.Rules) (fuel : Nat)
    (hs : Poly.Sat ρ rules) : Hom (polyOpsR rules fuel) (fieldOps K) (Poly.eval ρ) where
  zero := rfl
  one := Poly.eval_one ρ
  add := fun a b => Poly.eval_add ρ a b
  mul := fun a b => by
    show Poly.eval ρ (Poly.reduce rules fuel (Poly.mul a b)) = _
    rw [Poly.eval_reduce ρ fuel rules hs, Poly.eval_mul]; rfl
  neg := fun a => Poly.eval_neg ρ a
  scale := fun q a => Poly.eval_scale ρ q a

/-- evaluation of symbolic data -/
def evalKraus {K : Type} [Field K] [CharZero K] (ρ : Nat → K) (ks : Kraus Poly) : Kraus K := mapKraus (Poly.eval ρ) ks
def evalOp {K : Type} [Field K] [CharZero K] (ρ : Nat → K) (o : SOp) : OpSem K := mapOpSem (Poly.eval ρ) o.sem

/-- the meaning of "basis `b` is an exact decomposition of `target`" in the field `K` under `ρ`:
entry by entry, the two-qubit transfer matrix of the target equals `Σᵢ cᵢ · PTM(Aᵢ) ⊗ PTM(Bᵢ)` -/
def ExactAt {K : Type} [Field K] [CharZero K] (ρ : Nat → K) (target : Kraus Poly) (b : SBasis) : Prop :=
  ∀ a c : Nat, a < 16 → c < 16 →
    (fieldOps K).rget ((fieldOps K).ptm2 (evalKraus ρ target)) a c
      = (fieldOps K).basisEntry ((b.coeffs.zip b.maps).map fun cm =>
          (Poly.eval ρ cm.1, (fieldOps K).seqPtm (cm.2.1.map (evalOp ρ)), (fieldOps K).seqPtm (cm.2.2.map (evalOp ρ)))) a c

theorem checkBasis_sound {K : Type} [Field K] [CharZero K] (ρ : Nat → K) (hs : Poly.Sat ρ stdRules)
    (target : Kraus Poly) (b : SBasis) (hc : checkBasis target b = true) : ExactAt ρ target b := by
  intro a c ha hc'
  have h : Hom PO (fieldOps K) (Poly.eval ρ) := evalHom ρ stdRules 2 hs
  unfold checkBasis at hc
  simp only [List.all_eq_true, List.mem_range] at hc
  have hz := hc a ha c hc'
  have := Poly.eq_of_isZero ρ stdRules hs 4 _ _ hz
  have e1 := h.rget (PO.ptm2 target) a c
  have e2 := h.basisEntry b.terms a c
  change Poly.eval ρ (PO.rget (PO.ptm2 target) a c) = _ at e1
  change Poly.eval ρ (PO.basisEntry b.terms a c) = _ at e2
  rw [e1, e2, h.ptm2] at this
  unfold evalKraus
  rw [this]
  congr 1
  unfold SBasis.terms
  rw [List.map_map]
  apply List.map_congr_left
  intro cm _
  simp only [Function.comp_def]
  rw [h.seqPtm, h.seqPtm, List.map_map, List.map_map]
  rfl

end CKT
