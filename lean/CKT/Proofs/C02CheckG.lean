import CKT.Model.Bases
/-! kernel evaluation of the symbolic exactness check (split over several modules so that they build in parallel) -/
namespace CKT.C02
open CKT
theorem check_kak : checkName "kak" = true := by decide +kernel
end CKT.C02
