import CKT.Model.Bases
/-! kernel evaluation of the symbolic exactness check (split over several modules so that they build in parallel) -/
namespace CKT.C02
open CKT
theorem check_crx : checkName "crx" = true := by decide +kernel
theorem check_cry : checkName "cry" = true := by decide +kernel
theorem check_crz : checkName "crz" = true := by decide +kernel
end CKT.C02
