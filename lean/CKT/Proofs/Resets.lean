import CKT.Model.Resets
import Mathlib.Data.List.Basic
import Mathlib.Data.List.Perm.Subperm
import Mathlib.Data.List.Range
/-! Helper lemmas for the reset scans (used by Props/C12 and Props/C19). -/
namespace CKT.ResetsAux
open CKT

/-- well-formed instruction list: qubit indices in range, resets act on exactly one qubit -/
def WF (nq : Nat) (l : List Instr) : Prop :=
  ∀ i ∈ l, (∀ q ∈ i.qubits, q < nq) ∧ (isReset i = true → ∃ q, i.qubits = [q])

theorem WF.tail {nq : Nat} {i : Instr} {l : List Instr} (h : WF nq (i :: l)) : WF nq l :=
  fun j hj => h j (List.mem_cons_of_mem _ hj)

theorem WF.reverse {nq : Nat} {l : List Instr} (h : WF nq l) : WF nq l.reverse :=
  fun j hj => h j (List.mem_reverse.1 hj)

theorem mem_addAll (q : Nat) : ∀ (qs A : List Nat), q ∈ addAll A qs ↔ q ∈ A ∨ q ∈ qs := by
  intro qs
  induction qs with
  | nil => intro A; simp [addAll]
  | cons a qs ih =>
    intro A
    simp only [addAll]
    rw [ih]
    by_cases h : A.contains a = true
    · simp only [h, if_true, List.mem_cons]
      have : a ∈ A := by simpa using h
      constructor
      · rintro (h | h); exact Or.inl h; exact Or.inr (Or.inr h)
      · rintro (h | h | h); exact Or.inl h; exact Or.inl (h ▸ this); exact Or.inr h
    · have hf : A.contains a = false := by simpa using h
      simp only [hf, Bool.false_eq_true, if_false, List.mem_cons]
      tauto

theorem nodup_addAll : ∀ (qs A : List Nat), A.Nodup → (addAll A qs).Nodup := by
  intro qs
  induction qs with
  | nil => intro A h; simpa [addAll]
  | cons a qs ih =>
    intro A h
    simp only [addAll]
    apply ih
    by_cases hc : A.contains a = true
    · simp only [hc, if_true]; exact h
    · have hf : A.contains a = false := by simpa using hc
      simp only [hf, Bool.false_eq_true, if_false]
      exact List.nodup_cons.2 ⟨by simpa using hc, h⟩

/-- pigeonhole: a duplicate-free list of `nq` numbers below `nq` contains every number below `nq` -/
theorem full_of_length (nq : Nat) (A : List Nat) (hn : A.Nodup) (hlt : ∀ a ∈ A, a < nq) (hlen : A.length = nq)
    (q : Nat) (hq : q < nq) : q ∈ A := by
  have hsub : A ⊆ List.range nq := fun a ha => List.mem_range.2 (hlt a ha)
  have hsp : A.Subperm (List.range nq) := List.subperm_of_subset hn hsub
  have hperm : A.Perm (List.range nq) := hsp.perm_of_length_le (by simp [hlen])
  exact hperm.mem_iff.2 (List.mem_range.2 hq)

theorem wire_cons (q : Nat) (i : Instr) (l : List Instr) :
    wire q (i :: l) = if q ∈ i.qubits then i :: wire q l else wire q l := by
  simp [wire, List.filter_cons]

theorem wire_reset_self {q : Nat} {i : Instr} (h : i.qubits = [q]) (l : List Instr) : wire q (i :: l) = i :: wire q l := by
  rw [wire_cons]; simp [h]

theorem wire_reset_other {q q0 : Nat} {i : Instr} (h : i.qubits = [q0]) (hne : q ≠ q0) (l : List Instr) :
    wire q (i :: l) = wire q l := by
  rw [wire_cons]
  have : q ∉ i.qubits := by simp [h, hne]
  simp [this]

/-! ### removeInitial -/

theorem removeInitialGo_wire (nq q : Nat) (hq : q < nq) : ∀ (l : List Instr) (A : List Nat),
    WF nq l → A.Nodup → (∀ a ∈ A, a < nq) →
    wire q (removeInitialGo nq l A) = if q ∈ A then wire q l else (wire q l).dropWhile isReset := by
  intro l
  induction l with
  | nil => intro A _ _ _; simp [removeInitialGo, wire]
  | cons i rest ih =>
    intro A hwf hn hlt
    have hwf' := hwf.tail
    have hi := hwf i (by simp)
    by_cases hr : isReset i = true
    · obtain ⟨q0, hq0⟩ := hi.2 hr
      have hhd : i.qubits.headD 0 = q0 := by simp [hq0]
      simp only [removeInitialGo, hr, if_true, hhd]
      by_cases hA : A.contains q0 = true
      · have hq0A : q0 ∈ A := by simpa using hA
        simp only [hA, if_true]
        by_cases hqq : q = q0
        · subst hqq
          rw [wire_reset_self hq0, wire_reset_self hq0, ih A hwf' hn hlt]
          simp [hq0A]
        · rw [wire_reset_other hq0 hqq, wire_reset_other hq0 hqq, ih A hwf' hn hlt]
      · have hq0A : q0 ∉ A := by simpa using hA
        simp only [hA, Bool.false_eq_true, if_false]
        rw [ih A hwf' hn hlt]
        by_cases hqq : q = q0
        · subst hqq
          rw [wire_reset_self hq0]
          simp [hq0A, List.dropWhile_cons, hr]
        · rw [wire_reset_other hq0 hqq]
    · have hr' : isReset i = false := by simpa using hr
      simp only [removeInitialGo, hr', Bool.false_eq_true, if_false]
      have hn' := nodup_addAll i.qubits A hn
      have hlt' : ∀ a ∈ addAll A i.qubits, a < nq := by
        intro a ha
        rcases (mem_addAll a i.qubits A).1 ha with h | h
        · exact hlt a h
        · exact hi.1 a h
      by_cases hb : (addAll A i.qubits).length == nq
      · simp only [hb, if_true]
        have hfull := full_of_length nq _ hn' hlt' (by simpa using hb) q hq
        rcases (mem_addAll q i.qubits A).1 hfull with h | h
        · simp [h]
        · rw [wire_cons]; simp only [h, if_true, List.dropWhile_cons, hr', Bool.false_eq_true, if_false]
          split <;> rfl
      · simp only [hb, Bool.false_eq_true, if_false]
        rw [wire_cons, wire_cons, ih _ hwf' hn' hlt']
        by_cases hc : q ∈ i.qubits
        · have hm : q ∈ addAll A i.qubits := (mem_addAll q i.qubits A).2 (Or.inr hc)
          simp only [hc, hm, if_true, List.dropWhile_cons, hr', Bool.false_eq_true, if_false]
          split <;> rfl
        · have hm : q ∈ addAll A i.qubits ↔ q ∈ A := by rw [mem_addAll]; tauto
          simp only [hc, if_false]
          by_cases hA : q ∈ A
          · simp [hA, hm.2 hA]
          · have : q ∉ addAll A i.qubits := fun h => hA (hm.1 h)
            simp [hA, this]

/-! ### removeFinal (on the reversed list) -/

theorem removeFinalGo_wire (nq q : Nat) : ∀ (l : List Instr) (E : List Nat),
    WF nq l →
    wire q (removeFinalGo l E) = if q ∈ E then (wire q l).dropWhile isReset else wire q l := by
  intro l
  induction l with
  | nil => intro E _; simp [removeFinalGo, wire]
  | cons i rest ih =>
    intro E hwf
    have hwf' := hwf.tail
    have hi := hwf i (by simp)
    by_cases hr : isReset i = true
    · obtain ⟨q0, hq0⟩ := hi.2 hr
      have hhd : i.qubits.headD 0 = q0 := by simp [hq0]
      simp only [removeFinalGo, hr, if_true, hhd]
      by_cases hE : E.contains q0 = true
      · have hq0E : q0 ∈ E := by simpa using hE
        simp only [hE, if_true]
        rw [ih E hwf']
        by_cases hqq : q = q0
        · subst hqq; rw [wire_reset_self hq0]; simp [hq0E, List.dropWhile_cons, hr]
        · rw [wire_reset_other hq0 hqq]
      · have hq0E : q0 ∉ E := by simpa using hE
        simp only [hE, Bool.false_eq_true, if_false]
        by_cases hqq : q = q0
        · subst hqq; rw [wire_reset_self hq0, wire_reset_self hq0, ih E hwf']; simp [hq0E]
        · rw [wire_reset_other hq0 hqq, wire_reset_other hq0 hqq, ih E hwf']
    · have hr' : isReset i = false := by simpa using hr
      simp only [removeFinalGo, hr', Bool.false_eq_true, if_false]
      by_cases hb : (E.filter (fun q => !i.qubits.contains q)).isEmpty = true
      · simp only [hb, if_true]
        by_cases hqE : q ∈ E
        · have hc : q ∈ i.qubits := by
            by_contra hc
            have : q ∈ E.filter (fun q => !i.qubits.contains q) := by
              simp [List.mem_filter, hqE, hc]
            rw [List.isEmpty_iff] at hb; rw [hb] at this; cases this
          rw [wire_cons]; simp only [hqE, hc, if_true, List.dropWhile_cons, hr', Bool.false_eq_true, if_false]
        · simp [hqE]
      · simp only [hb, Bool.false_eq_true, if_false]
        rw [wire_cons, wire_cons, ih _ hwf']
        by_cases hc : q ∈ i.qubits
        · have hm : q ∉ E.filter (fun q => !i.qubits.contains q) := by simp [List.mem_filter, hc]
          simp only [hc, hm, if_true, if_false, List.dropWhile_cons, hr', Bool.false_eq_true]
          split <;> rfl
        · have hm : q ∈ E.filter (fun q => !i.qubits.contains q) ↔ q ∈ E := by
            simp [List.mem_filter, hc]
          simp only [hc, if_false]
          by_cases hE : q ∈ E
          · simp only [hE, hm.2 hE, if_true]
          · have : q ∉ E.filter (fun q => !i.qubits.contains q) := fun h => hE (hm.1 h)
            simp only [hE, this, if_false]

/-! ### consolidate -/

theorem consolidateGo_wire (nq q : Nat) : ∀ (l : List Instr) (F : List Nat),
    WF nq l → wire q (consolidateGo l F) = collapseFrom (F.contains q) (wire q l) := by
  intro l
  induction l with
  | nil => intro F _; simp [consolidateGo, wire, collapseFrom]
  | cons i rest ih =>
    intro F hwf
    have hwf' := hwf.tail
    have hi := hwf i (by simp)
    by_cases hr : isReset i = true
    · obtain ⟨q0, hq0⟩ := hi.2 hr
      have hhd : i.qubits.headD 0 = q0 := by simp [hq0]
      simp only [consolidateGo, hr, if_true, hhd]
      by_cases hF : F.contains q0 = true
      · simp only [hF, if_true]
        rw [ih F hwf']
        by_cases hqq : q = q0
        · subst hqq; rw [wire_reset_self hq0]; simp only [collapseFrom, hr, hF, if_true]
        · rw [wire_reset_other hq0 hqq]
      · have hF' : F.contains q0 = false := by simpa using hF
        simp only [hF', Bool.false_eq_true, if_false]
        by_cases hqq : q = q0
        · subst hqq
          rw [wire_reset_self hq0, wire_reset_self hq0, ih _ hwf']
          have hnm : q ∉ F := by simpa using hF
          simp [collapseFrom, hr, hnm]
        · rw [wire_reset_other hq0 hqq, wire_reset_other hq0 hqq, ih _ hwf']
          have : (q0 :: F).contains q = F.contains q := by simp [hqq]
          rw [this]
    · have hr' : isReset i = false := by simpa using hr
      simp only [consolidateGo, hr', Bool.false_eq_true, if_false]
      rw [wire_cons, wire_cons, ih _ hwf']
      by_cases hc : q ∈ i.qubits
      · have : (F.filter (fun q => !i.qubits.contains q)).contains q = false := by
          simp [List.mem_filter, hc]
        simp only [hc, if_true, this, collapseFrom, hr', Bool.false_eq_true, if_false]
      · have : (F.filter (fun q => !i.qubits.contains q)).contains q = F.contains q := by
          rw [Bool.eq_iff_iff]; simp [List.mem_filter, hc]
        simp only [hc, if_false, this]

/-! ### only resets are removed -/

/-- `out` arises from `l` by deleting reset instructions only -/
def OnlyResetsRemoved (out l : List Instr) : Prop :=
  out.Sublist l ∧ out.filter (fun i => !isReset i) = l.filter (fun i => !isReset i)

theorem OnlyResetsRemoved.refl (l : List Instr) : OnlyResetsRemoved l l := ⟨List.Sublist.refl l, rfl⟩

theorem OnlyResetsRemoved.cons_keep {out l : List Instr} (i : Instr) (h : OnlyResetsRemoved out l) :
    OnlyResetsRemoved (i :: out) (i :: l) :=
  ⟨h.1.cons_cons i, by simp [List.filter_cons, h.2]⟩

theorem OnlyResetsRemoved.cons_drop {out l : List Instr} (i : Instr) (hr : isReset i = true) (h : OnlyResetsRemoved out l) :
    OnlyResetsRemoved out (i :: l) :=
  ⟨h.1.cons i, by simp [List.filter_cons, hr, h.2]⟩

theorem OnlyResetsRemoved.trans {a b c : List Instr} (h1 : OnlyResetsRemoved a b) (h2 : OnlyResetsRemoved b c) :
    OnlyResetsRemoved a c := ⟨h1.1.trans h2.1, h1.2.trans h2.2⟩

theorem OnlyResetsRemoved.reverse {a b : List Instr} (h : OnlyResetsRemoved a b) : OnlyResetsRemoved a.reverse b.reverse :=
  ⟨List.reverse_sublist.2 h.1, by rw [List.filter_reverse, List.filter_reverse, h.2]⟩

theorem removeInitialGo_only (nq : Nat) : ∀ (l : List Instr) (A : List Nat), OnlyResetsRemoved (removeInitialGo nq l A) l := by
  intro l
  induction l with
  | nil => intro A; exact OnlyResetsRemoved.refl _
  | cons i rest ih =>
    intro A
    simp only [removeInitialGo]
    split
    · rename_i hr
      split
      · exact (ih A).cons_keep i
      · exact (ih A).cons_drop i hr
    · split
      · exact OnlyResetsRemoved.refl _
      · exact (ih _).cons_keep i

theorem removeFinalGo_only : ∀ (l : List Instr) (E : List Nat), OnlyResetsRemoved (removeFinalGo l E) l := by
  intro l
  induction l with
  | nil => intro E; exact OnlyResetsRemoved.refl _
  | cons i rest ih =>
    intro E
    simp only [removeFinalGo]
    split
    · rename_i hr
      split
      · exact (ih E).cons_drop i hr
      · exact (ih E).cons_keep i
    · split
      · exact OnlyResetsRemoved.refl _
      · exact (ih _).cons_keep i

theorem consolidateGo_only : ∀ (l : List Instr) (F : List Nat), OnlyResetsRemoved (consolidateGo l F) l := by
  intro l
  induction l with
  | nil => intro F; exact OnlyResetsRemoved.refl _
  | cons i rest ih =>
    intro F
    simp only [consolidateGo]
    split
    · rename_i hr
      split
      · exact (ih F).cons_drop i hr
      · exact (ih _).cons_keep i
    · exact (ih _).cons_keep i

theorem keepIdx_only (l : List Instr) (p : Nat → Bool)
    (h : ∀ k x, l[k]? = some x → p k = false → isReset x = true) : OnlyResetsRemoved (keepIdx l p) l := by
  constructor
  · unfold keepIdx
    have : l = l.zipIdx.map (·.1) := by simp
    conv_rhs => rw [this]
    exact (List.filter_sublist).map _
  · unfold keepIdx
    have hl : l.filter (fun i => !isReset i) = ((l.zipIdx).filter (fun xi => !isReset xi.1)).map (·.1) := by
      conv_lhs => rw [show l = l.zipIdx.map (·.1) by simp]
      rw [List.filter_map]; rfl
    rw [hl, List.filter_map, List.filter_filter]
    congr 1
    apply List.filter_congr
    intro xi hxi
    have hk := List.mem_zipIdx hxi
    simp only [Function.comp]
    by_cases hp : p xi.2 = true
    · simp [hp]
    · have hp' : p xi.2 = false := by simpa using hp
      have := h xi.2 xi.1 (by
        have h3 := hk.2.2
        simp at h3
        rw [List.getElem?_eq_getElem (by omega)]
        simp [h3]) hp'
      simp [hp', this]

end CKT.ResetsAux
