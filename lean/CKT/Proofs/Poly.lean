import CKT.Model.Poly
import Mathlib.Algebra.Field.Basic
import Mathlib.Algebra.Order.Field.Basic
import Mathlib.Data.Rat.Cast.CharZero
import Mathlib.Tactic.Ring
import Mathlib.Tactic.Linarith
import Mathlib.Tactic.LinearCombination
/-!
# Soundness of the polynomial normaliser

`eval ρ` interprets a `Poly` in any field of characteristic zero.  Every operation of `CKT.Model.Poly`
commutes with `eval`, and rewriting with rules `xᵢ² ↦ rule` preserves `eval` in every environment that
satisfies the rules.  Hence `isZero (reduce rules fuel (sub p q)) = true → eval ρ p = eval ρ q`.
-/
namespace CKT
namespace Poly
variable {K : Type} [Field K] [CharZero K]

def evalMono (ρ : Nat → K) : Nat → Mono → K
  | _, [] => 1
  | k, e :: m => ρ k ^ e * evalMono ρ (k + 1) m

def evalTerm (ρ : Nat → K) (t : Term) : K := (t.2 : K) * evalMono ρ 0 t.1

def eval (ρ : Nat → K) : Poly → K
  | [] => 0
  | t :: p => evalTerm ρ t + eval ρ p

@[simp] theorem eval_nil (ρ : Nat → K) : eval ρ [] = 0 := rfl
@[simp] theorem eval_cons (ρ : Nat → K) (t : Term) (p : Poly) : eval ρ (t :: p) = evalTerm ρ t + eval ρ p := rfl

theorem evalMono_mul (ρ : Nat → K) : ∀ (a b : Mono) (k : Nat),
    evalMono ρ k (Mono.mul a b) = evalMono ρ k a * evalMono ρ k b := by
  intro a
  induction a with
  | nil => intro b k; simp [Mono.mul, evalMono]
  | cons x a ih =>
    intro b k
    cases b with
    | nil => simp [Mono.mul, evalMono]
    | cons y b =>
      simp only [Mono.mul, evalMono, ih b (k + 1), pow_add]
      ring

theorem evalMono_trim (ρ : Nat → K) : ∀ (a : Mono) (k : Nat), evalMono ρ k (Mono.trim a) = evalMono ρ k a := by
  intro a
  induction a with
  | nil => intro k; rfl
  | cons x a ih =>
    intro k
    have h := ih (k + 1)
    simp only [Mono.trim]
    cases ht : Mono.trim a with
    | nil =>
      rw [ht] at h
      by_cases hx : x = 0
      · simp [hx, evalMono] at h ⊢; exact h
      · simp [hx, evalMono] at h ⊢; rw [← h]; simp
    | cons y t =>
      rw [ht] at h
      simp only [evalMono] at h ⊢
      rw [h]

theorem eval_insertTerm (ρ : Nat → K) (t : Term) : ∀ p : Poly, eval ρ (insertTerm t p) = evalTerm ρ t + eval ρ p := by
  intro p
  induction p with
  | nil =>
    simp only [insertTerm]
    split
    · rename_i h; simp [evalTerm, h]
    · simp
  | cons u rest ih =>
    simp only [insertTerm]
    split
    · rename_i h
      split
      · rename_i h2
        have : ((t.2 + u.2 : Rat) : K) = 0 := by rw [h2]; simp
        simp only [eval_cons, evalTerm, h]
        have h3 : (t.2 : K) + (u.2 : K) = 0 := by rw [← Rat.cast_add]; exact this
        linear_combination (-(evalMono ρ 0 u.1)) * h3
      · simp only [eval_cons, evalTerm, h, Rat.cast_add]; ring
    · split
      · split
        · rename_i h; simp [evalTerm, h]
        · simp
      · simp only [eval_cons, ih]; ring

theorem eval_add (ρ : Nat → K) (p q : Poly) : eval ρ (add p q) = eval ρ p + eval ρ q := by
  unfold add
  induction p with
  | nil => simp
  | cons t p ih => simp only [List.foldr_cons, eval_insertTerm, ih, eval_cons]; ring

theorem eval_scale (ρ : Nat → K) (c : Rat) (p : Poly) : eval ρ (scale c p) = (c : K) * eval ρ p := by
  unfold scale
  induction p with
  | nil => simp
  | cons t p ih => simp only [List.foldr_cons, eval_insertTerm, ih, eval_cons, evalTerm, Rat.cast_mul]; ring

theorem eval_neg (ρ : Nat → K) (p : Poly) : eval ρ (neg p) = - eval ρ p := by
  simp [neg, eval_scale]

theorem eval_sub (ρ : Nat → K) (p q : Poly) : eval ρ (sub p q) = eval ρ p - eval ρ q := by
  simp [sub, eval_add, eval_neg, sub_eq_add_neg]

theorem eval_mulTerm (ρ : Nat → K) (t : Term) (p : Poly) : eval ρ (mulTerm t p) = evalTerm ρ t * eval ρ p := by
  unfold mulTerm
  induction p with
  | nil => simp
  | cons u p ih =>
    simp only [List.foldr_cons, eval_insertTerm, ih, eval_cons, evalTerm, evalMono_trim, evalMono_mul, Rat.cast_mul]
    ring

theorem eval_mul (ρ : Nat → K) (p q : Poly) : eval ρ (mul p q) = eval ρ p * eval ρ q := by
  unfold mul
  induction p with
  | nil => simp
  | cons t p ih => simp only [List.foldr_cons, eval_add, eval_mulTerm, ih, eval_cons]; ring

theorem eval_const (ρ : Nat → K) (q : Rat) : eval ρ (const q) = (q : K) := by
  unfold const
  split
  · rename_i h; simp [h]
  · simp [evalTerm, evalMono]

theorem eval_one (ρ : Nat → K) : eval ρ one = 1 := by simp [one, eval_const]

theorem eval_zero (ρ : Nat → K) : eval ρ zero = 0 := rfl

theorem eval_pow (ρ : Nat → K) (p : Poly) (n : Nat) : eval ρ (pow p n) = eval ρ p ^ n := by
  induction n with
  | zero => simp [pow, eval_one]
  | succ n ih => simp [pow, eval_mul, ih, pow_succ, mul_comm]

theorem evalMono_replicate (ρ : Nat → K) (m : Mono) : ∀ (i k : Nat),
    evalMono ρ k (List.replicate i 0 ++ m) = evalMono ρ (k + i) m := by
  intro i
  induction i with
  | zero => intro k; simp
  | succ i ih =>
    intro k
    simp only [List.replicate_succ, List.cons_append, evalMono, pow_zero, one_mul, ih]
    congr 1; omega

theorem eval_var (ρ : Nat → K) (i : Nat) : eval ρ (var i) = ρ i := by
  simp [var, evalTerm, Mono.var, evalMono_replicate, evalMono]

theorem eval_norm (ρ : Nat → K) (p : Poly) : eval ρ (norm p) = eval ρ p := by
  unfold norm
  induction p with
  | nil => rfl
  | cons t p ih => simp [eval_insertTerm, ih]

/-! ### rules -/

theorem evalMono_dec (ρ : Nat → K) : ∀ (m : Mono) (i k : Nat), 2 ≤ m.getD i 0 →
    evalMono ρ k m = ρ (k + i) ^ 2 * evalMono ρ k (Mono.dec m i 2) := by
  intro m
  induction m with
  | nil => intro i k h; simp at h
  | cons x m ih =>
    intro i k h
    cases i with
    | zero =>
      simp only [List.getD_cons_zero] at h
      simp only [Mono.dec, evalMono, Nat.add_zero]
      rw [← mul_assoc, ← pow_add]
      congr 2; omega
    | succ i =>
      simp only [List.getD_cons_succ] at h
      simp only [Mono.dec, evalMono]
      rw [ih i (k + 1) h]
      have : k + 1 + i = k + (i + 1) := by omega
      rw [this]; ring

theorem eval_rewriteTerm (ρ : Nat → K) (i : Nat) (rule : Poly) (h : ρ i ^ 2 = eval ρ rule) (t : Term) :
    eval ρ (rewriteTerm i rule t) = evalTerm ρ t := by
  unfold rewriteTerm
  split
  · rename_i hd
    rw [eval_mulTerm]
    simp only [evalTerm, evalMono_trim]
    rw [evalMono_dec ρ t.1 i 0 hd, ← h]
    simp only [Nat.zero_add]
    ring
  · simp

theorem eval_rewriteStep (ρ : Nat → K) (i : Nat) (rule : Poly) (h : ρ i ^ 2 = eval ρ rule) (p : Poly) :
    eval ρ (rewriteStep i rule p) = eval ρ p := by
  unfold rewriteStep
  induction p with
  | nil => rfl
  | cons t p ih => simp only [List.foldr_cons, eval_add, eval_rewriteTerm ρ i rule h, ih, eval_cons]

theorem eval_rewriteN (ρ : Nat → K) (i : Nat) (rule : Poly) (h : ρ i ^ 2 = eval ρ rule) :
    ∀ (n : Nat) (p : Poly), eval ρ (rewriteN i rule n p) = eval ρ p := by
  intro n
  induction n with
  | zero => intro p; rfl
  | succ n ih => intro p; simp only [rewriteN, ih, eval_rewriteStep ρ i rule h]

/-- the environment satisfies every rule `xᵢ² = rule` -/
def Sat (ρ : Nat → K) (rules : Rules) : Prop := ∀ r ∈ rules, ρ r.1 ^ 2 = eval ρ r.2

theorem eval_reduce (ρ : Nat → K) (fuel : Nat) : ∀ (rules : Rules), Sat ρ rules → ∀ p : Poly,
    eval ρ (reduce rules fuel p) = eval ρ p := by
  intro rules
  unfold reduce
  induction rules with
  | nil => intro _ p; rfl
  | cons r rules ih =>
    intro hs p
    simp only [List.foldl_cons]
    rw [ih (fun r' hr' => hs r' (List.mem_cons_of_mem _ hr'))]
    exact eval_rewriteN ρ r.1 r.2 (hs r (by simp)) fuel p

/-- the decision procedure: if `p - q` rewrites to the empty polynomial, `p` and `q` agree in every model of the rules -/
theorem eq_of_isZero (ρ : Nat → K) (rules : Rules) (hs : Sat ρ rules) (fuel : Nat) (p q : Poly)
    (h : isZero (reduce rules fuel (sub p q)) = true) : eval ρ p = eval ρ q := by
  have h1 : eval ρ (reduce rules fuel (sub p q)) = 0 := by
    have : reduce rules fuel (sub p q) = [] := by
      cases hh : reduce rules fuel (sub p q) with
      | nil => rfl
      | cons a b => rw [hh] at h; simp [isZero] at h
    rw [this]; rfl
  rw [eval_reduce ρ fuel rules hs, eval_sub] at h1
  exact sub_eq_zero.mp h1

end Poly
end CKT
