import CKT.Sem.Measure
/-!
# Signed sums over the measured bits of a whole program

`signed_run`: for a program of primitives whose measurements write pairwise distinct, initially unwritten classical bits,
the sum over all outcomes of those bits — each outcome weighted with `(−1)^{bit}` for the bits selected by `e` — of the final
state is the *linear* program in which every measurement `q → c` is replaced by the operation with transfer matrix
`proj₀ + proj₁` (`e c = false`: the outcome is ignored) or `proj₀ − proj₁` (`e c = true`: the signed Kraus pair `+Π₀, −Π₁` of
the `qpd_measure` marker), applied to the initial state at the cleared register.  This is what makes the *signed-channel*
reading of the quasi-probability bases (C02, C01) and the *parity-sign* bookkeeping of the reconstruction (C06) two
descriptions of the same number.  `decode_full` combines it with the Walsh identity of `Sem/Measure` for the final
measurement blocks.
-/
namespace CKT.Sem
open Finset CKT

variable {K : Type} [CommRing K]

/-- the signed projector combination -/
def signedProj (pr : Bool → TM K) (e : Bool) : TM K := fun a b => pr false a b + sgn e true * pr true a b

/-- a primitive with its measurement replaced by the signed combination (`e c` = is the sign of bit `c` applied?) -/
def linPrim (e : Nat → Bool) : Prim K → Vec K → Vec K
  | .gate qs M, v => applyL qs M v
  | .meas q c pr, v => applyL [q] (signedProj pr (e c)) v

def linRun (e : Nat → Bool) (ps : List (Prim K)) (v : Vec K) : Vec K := ps.foldl (fun v p => linPrim e p v) v

@[simp] theorem linRun_nil (e : Nat → Bool) (v : Vec K) : linRun e ([] : List (Prim K)) v = v := rfl
@[simp] theorem linRun_cons (e : Nat → Bool) (p : Prim K) (ps : List (Prim K)) (v : Vec K) :
    linRun e (p :: ps) v = linRun e ps (linPrim e p v) := rfl

theorem applyL_lin2 (qs : List Nat) (M : TM K) (a b : K) (v w : Vec K) :
    applyL qs M (fun P => a * v P + b * w P) = fun P => a * applyL qs M v P + b * applyL qs M w P := by
  funext P
  simp only [applyL]
  rw [← sumL_mul_left, ← sumL_mul_left, ← sumL_add]
  apply sumL_congr
  intro bs _
  ring

theorem linPrim_lin2 (e : Nat → Bool) (p : Prim K) (a b : K) (v w : Vec K) :
    linPrim e p (fun P => a * v P + b * w P) = fun P => a * linPrim e p v P + b * linPrim e p w P := by
  cases p <;> exact applyL_lin2 _ _ a b v w

theorem linRun_lin2 (e : Nat → Bool) : ∀ (ps : List (Prim K)) (a b : K) (v w : Vec K),
    linRun e ps (fun P => a * v P + b * w P) = fun P => a * linRun e ps v P + b * linRun e ps w P
  | [], _, _, _, _ => rfl
  | p :: ps, a, b, v, w => by
    simp only [linRun_cons, linPrim_lin2]
    exact linRun_lin2 e ps a b _ _

/-- the classical bits written by the program, in program order -/
def measBits (ps : List (Prim K)) : List Nat := ps.flatMap Prim.clbits

def clearL : List Nat → Cl → Cl
  | [], k => k
  | c :: rest, k => Function.update (clearL rest k) c false

theorem clearL_update (c : Nat) (bit : Bool) : ∀ (cs : List Nat) (k : Cl), c ∉ cs →
    clearL cs (Function.update k c bit) = Function.update (clearL cs k) c bit
  | [], _, _ => rfl
  | x :: xs, k, h => by
    have hx : c ≠ x := by intro e; apply h; simp [e]
    have hxs : c ∉ xs := by intro hm; apply h; simp [hm]
    simp only [clearL, clearL_update c bit xs k hxs]
    rw [Function.update_comm hx]

theorem fresh_act (p : Prim K) (c : Nat) (hc : c ∉ p.clbits) (σ : St K) (hf : Fresh c σ) : Fresh c (p.act σ) := by
  cases p with
  | gate qs M =>
    intro k hk
    show applyL qs M (σ k) = _
    rw [hf k hk, applyL_zero_vec]
  | meas q c' pr =>
    have hne : c ≠ c' := by simpa [Prim.clbits] using hc
    intro k hk
    funext P
    simp only [Prim.act]
    apply Finset.sum_eq_zero
    intro o _
    have : Function.update k c' o c = true := by rw [Function.update_of_ne hne]; exact hk
    rw [hf _ this, applyL_zero_vec]

/-- **signed sums of a whole program** -/
theorem signed_run (e : Nat → Bool) : ∀ (ps : List (Prim K)) (σ : St K) (k : Cl) (P : PStr),
    (measBits ps).Nodup → (∀ c ∈ measBits ps, Fresh c σ) →
    signedSum ((measBits ps).map fun c => (c, e c)) (fun k' => actL ps σ k' P) k
      = linRun e ps (σ (clearL (measBits ps) k)) P
  | [], _, _, _, _, _ => rfl
  | p :: ps, σ, k, P, hnd, hfr => by
    cases p with
    | gate qs M =>
      have hmb : measBits (Prim.gate qs M :: ps) = measBits ps := by simp [measBits, Prim.clbits]
      rw [hmb] at hnd hfr ⊢
      simp only [actL_cons, linRun_cons, linPrim]
      have := signed_run e ps ((Prim.gate qs M).act σ) k P hnd
        (fun c hc => fresh_act _ c (by simp [Prim.clbits]) σ (hfr c hc))
      rw [this]
      rfl
    | meas q c pr =>
      have hmb : measBits (Prim.meas q c pr :: ps) = c :: measBits ps := by simp [measBits, Prim.clbits]
      rw [hmb] at hnd hfr ⊢
      have hnd' := List.nodup_cons.1 hnd
      simp only [List.map_cons, signedSum, actL_cons, linRun_cons, linPrim, clearL]
      have ih := fun k' => signed_run e ps ((Prim.meas q c pr).act σ) k' P hnd'.2
        (fun c' hc' => fresh_act _ c' (by
          simp only [Prim.clbits, List.mem_singleton]
          intro e'; exact hnd'.1 (e' ▸ hc')) σ (hfr c' (List.mem_cons_of_mem _ hc')))
      simp only [ih, clearL_update c _ (measBits ps) k hnd'.1, Fintype.sum_bool]
      have hlin := linRun_lin2 e ps (sgn (e c) true) (sgn (e c) false)
        ((Prim.meas q c pr).act σ (Function.update (clearL (measBits ps) k) c true))
        ((Prim.meas q c pr).act σ (Function.update (clearL (measBits ps) k) c false))
      have hms := meas_signed q c pr σ (hfr c (by simp)) (clearL (measBits ps) k) (e c)
      simp only [Fintype.sum_bool] at hms
      have hv : (fun P => sgn (e c) true * (Prim.meas q c pr).act σ (Function.update (clearL (measBits ps) k) c true) P +
          sgn (e c) false * (Prim.meas q c pr).act σ (Function.update (clearL (measBits ps) k) c false) P)
          = applyL [q] (signedProj pr (e c)) (σ (Function.update (clearL (measBits ps) k) c false)) := by
        funext P'
        exact hms P'
      rw [← hv, hlin]

/-! ### a subexperiment: body with QPD measurements, then the measurement blocks of a commuting group -/

theorem clearBits_eq_clearL (bl : List Block) (k : Cl) : clearBits bl k = clearL (bl.map (·.c)) k := by
  induction bl with
  | nil => rfl
  | cons b rest ih => simp only [clearBits, List.map_cons, clearL, ih]

theorem signedSum_congr' (l : List (Nat × Bool)) (f g : Cl → K) (h : ∀ k, f k = g k) (k : Cl) :
    signedSum l f k = signedSum l g k := by
  have : f = g := funext h
  rw [this]

/-- **decoding a whole subexperiment**: body (gates and QPD measurements into fresh, distinct bits) followed by the
measurement blocks of a commuting group (distinct qubits, fresh distinct bits disjoint from the QPD bits).  Summing the
final distribution's weight of `P` over all outcomes with the sign `(−1)^{parity of the QPD bits and of the masked
observable bits}` gives the weight of the member string in the *linear* body (every QPD measurement replaced by the signed
pair) applied to the initial state at the cleared register. -/
theorem decode_full (G : GateSem K) (ms : MeasSem G) (body : List (Prim K)) (bl : List Block) (σ : St K) (k : Cl) (P : PStr)
    (e : Nat → Bool)
    (hbody : (measBits body).Nodup) (hq : (bl.map (·.q)).Nodup) (hc : (bl.map (·.c)).Nodup)
    (hdisj : ∀ b ∈ bl, b.c ∉ measBits body)
    (hl : ∀ b ∈ bl, b.e = true → b.l ≠ 0)
    (hfr1 : ∀ c ∈ measBits body, Fresh c σ) (hfr2 : ∀ b ∈ bl, Fresh b.c σ) (hP : ∀ b ∈ bl, P b.q = 0) :
    signedSum ((measBits body).map fun c => (c, e c))
        (fun k1 => signedSum (bl.map fun b => (b.c, b.e)) (fun k2 => runI G (blocksInstrs bl) (actL body σ) k2 P) k1) k
      = linRun e body (σ (clearL (measBits body) (clearBits bl k))) (memberStr bl P) := by
  have hfr2' : ∀ b ∈ bl, Fresh b.c (actL body σ) := by
    intro b hb
    have hnot := hdisj b hb
    have hf := hfr2 b hb
    clear hbody hfr1 hdisj hfr2
    induction body generalizing σ with
    | nil => exact hf
    | cons p ps ih =>
      have hp : b.c ∉ p.clbits := by intro h; apply hnot; simp [measBits, h]
      have hps : b.c ∉ measBits ps := by intro h; apply hnot; simp only [measBits, List.flatMap_cons, List.mem_append]; exact Or.inr h
      exact ih (p.act σ) hps (fresh_act p b.c hp σ hf)
  have h1 : ∀ k1, signedSum (bl.map fun b => (b.c, b.e)) (fun k2 => runI G (blocksInstrs bl) (actL body σ) k2 P) k1
      = actL body σ (clearBits bl k1) (memberStr bl P) :=
    fun k1 => decode_blocks G ms bl (actL body σ) k1 P hq hc hl hfr2' hP
  rw [signedSum_congr' _ _ _ h1]
  -- move `clearBits bl` out of the signed sum over the QPD bits: they are different bits
  have hcomm : ∀ (cs : List Nat) (f : Cl → K) (k0 : Cl), (∀ b ∈ bl, b.c ∉ cs) →
      signedSum (cs.map fun c => (c, e c)) (fun k1 => f (clearBits bl k1)) k0
        = signedSum (cs.map fun c => (c, e c)) f (clearBits bl k0) := by
    intro cs
    induction cs with
    | nil => intro f k0 _; rfl
    | cons c rest ih =>
      intro f k0 hd
      have hc' : c ∉ bl.map (·.c) := by
        intro hm
        simp only [List.mem_map] at hm
        obtain ⟨b, hb, rfl⟩ := hm
        exact hd b hb (by simp)
      simp only [List.map_cons, signedSum]
      apply Finset.sum_congr rfl
      intro bit _
      rw [ih f _ (fun b hb hm => hd b hb (List.mem_cons_of_mem _ hm))]
      rw [clearBits_eq_clearL, clearBits_eq_clearL, clearL_update c bit _ k0 hc']
  rw [hcomm (measBits body) (fun k1 => actL body σ k1 (memberStr bl P)) k hdisj]
  exact signed_run e body σ (clearBits bl k) (memberStr bl P) hbody hfr1

end CKT.Sem
