import Mathlib.Algebra.BigOperators.Ring.Finset
import Mathlib.Data.Fintype.BigOperators
import Mathlib.Algebra.BigOperators.Fin
import Mathlib.Tactic.Ring
import CKT.Model.Basic
import CKT.Model.WireCut
/-!
# A concrete semantics of dynamic circuits: Pauli-expectation vectors (`CKT.Sem`)

The state of a quantum register together with a classical register is given, for every value `k` of the classical
register, by the (unnormalised) vector of Pauli expectations `P ↦ Tr(ρ_k P)`, where `P` ranges over Pauli strings
(`PStr`: one letter `0=I, 1=X, 2=Y, 3=Z` per qubit position).  A quantum operation on the qubits `qs` acts through its
transfer matrix `M` (`applyL`): `(applyL qs M v)(P) = Σ_b M (P|qs) b · v (P[qs ↦ b])` — a *finite* sum whatever the size of
the register, which is why qubits and classical bits can simply be indexed by `Nat`.  A measurement `q → c` adds, for
each new value of bit `c`, the two branches coming from the old values of `c`, each projected with the transfer matrix
`proj (k c)`.

Everything here holds for **any** choice of transfer matrices for the named gates and for the two measurement
projectors (`GateSem`): the laws used by `C03Sem`, `C10Sem`, `C12Sem` are consequences of locality and of the concrete
matrices of `reset` and `swap` only.  The physical semantics is the instance in which `mat`/`proj` are the transfer
matrices of the corresponding channels (every channel on `k` qubits has one).
-/
namespace CKT.Sem
open Finset

abbrev PStr := Nat → Fin 4
abbrev Cl := Nat → Bool
abbrev Vec (K : Type) := PStr → K
abbrev St (K : Type) := Cl → PStr → K
abbrev TM (K : Type) := List (Fin 4) → List (Fin 4) → K

variable {K : Type} [CommRing K]

/-! ### sums over letter lists of a given length -/

def sumL : (n : Nat) → (List (Fin 4) → K) → K
  | 0, f => f []
  | n + 1, f => ∑ b : Fin 4, sumL n (fun bs => f (b :: bs))

theorem sumL_congr : ∀ (n : Nat) (f g : List (Fin 4) → K), (∀ bs, bs.length = n → f bs = g bs) → sumL n f = sumL n g
  | 0, f, g, h => h [] rfl
  | n + 1, f, g, h => by
    simp only [sumL]
    exact Finset.sum_congr rfl (fun b _ => sumL_congr n _ _ (fun bs hbs => h (b :: bs) (by simp [hbs])))

theorem sumL_add : ∀ (n : Nat) (f g : List (Fin 4) → K), sumL n (fun bs => f bs + g bs) = sumL n f + sumL n g
  | 0, _, _ => rfl
  | n + 1, f, g => by
    simp only [sumL]
    rw [← Finset.sum_add_distrib]
    exact Finset.sum_congr rfl (fun b _ => sumL_add n _ _)

theorem sumL_zero : ∀ (n : Nat), sumL n (fun _ => (0 : K)) = 0
  | 0 => rfl
  | n + 1 => by simp only [sumL, sumL_zero n, Finset.sum_const_zero]

theorem sumL_mul_left (c : K) : ∀ (n : Nat) (f : List (Fin 4) → K), sumL n (fun bs => c * f bs) = c * sumL n f
  | 0, _ => rfl
  | n + 1, f => by
    simp only [sumL]
    rw [Finset.mul_sum]
    exact Finset.sum_congr rfl (fun b _ => sumL_mul_left c n _)

theorem sumL_sum {ι : Type} (s : Finset ι) : ∀ (n : Nat) (f : ι → List (Fin 4) → K),
    sumL n (fun bs => ∑ o ∈ s, f o bs) = ∑ o ∈ s, sumL n (f o)
  | 0, _ => rfl
  | n + 1, f => by
    simp only [sumL]
    rw [Finset.sum_comm]
    exact Finset.sum_congr rfl (fun b _ => sumL_sum s n _)

theorem sumL_comm : ∀ (n m : Nat) (f : List (Fin 4) → List (Fin 4) → K),
    sumL n (fun bs => sumL m (fun cs => f bs cs)) = sumL m (fun cs => sumL n (fun bs => f bs cs))
  | 0, _, _ => rfl
  | n + 1, m, f => by
    show (∑ b : Fin 4, sumL n (fun bs => sumL m (fun cs => f (b :: bs) cs)))
      = sumL m (fun cs => ∑ b : Fin 4, sumL n (fun bs => f (b :: bs) cs))
    rw [sumL_sum]
    exact Finset.sum_congr rfl (fun b _ => sumL_comm n m _)

/-! ### writing letters into a string -/

def updL (P : PStr) : List Nat → List (Fin 4) → PStr
  | q :: qs, b :: bs => Function.update (updL P qs bs) q b
  | _, _ => P

theorem updL_of_not_mem (P : PStr) (n : Nat) : ∀ (qs : List Nat) (bs : List (Fin 4)), n ∉ qs → updL P qs bs n = P n
  | [], _, _ => by simp [updL]
  | _ :: _, [], _ => by simp [updL]
  | q :: qs, b :: bs, h => by
    have h' : n ≠ q ∧ n ∉ qs := by simpa using h
    simp only [updL]
    rw [Function.update_of_ne h'.1]
    exact updL_of_not_mem P n qs bs h'.2

theorem updL_update_comm (q : Nat) (b : Fin 4) : ∀ (rs : List Nat) (cs : List (Fin 4)) (P : PStr), q ∉ rs →
    updL (Function.update P q b) rs cs = Function.update (updL P rs cs) q b
  | [], _, _, _ => by simp [updL]
  | _ :: _, [], _, _ => by simp [updL]
  | r :: rs, c :: cs, P, h => by
    have h' : q ≠ r ∧ q ∉ rs := by simpa using h
    simp only [updL]
    rw [updL_update_comm q b rs cs P h'.2, Function.update_comm h'.1.symm]

theorem updL_comm : ∀ (qs : List Nat) (bs : List (Fin 4)) (rs : List Nat) (cs : List (Fin 4)) (P : PStr),
    (∀ q ∈ qs, q ∉ rs) → updL (updL P qs bs) rs cs = updL (updL P rs cs) qs bs
  | [], _, _, _, _, _ => by simp [updL]
  | _ :: _, [], _, _, _, _ => by simp [updL]
  | q :: qs, b :: bs, rs, cs, P, h => by
    simp only [updL]
    rw [updL_update_comm q b rs cs _ (h q (by simp)), updL_comm qs bs rs cs P (fun q' hq' => h q' (by simp [hq']))]

/-! ### the action of a transfer matrix on the qubits `qs` -/

def applyL (qs : List Nat) (M : TM K) (v : Vec K) : Vec K :=
  fun P => sumL qs.length (fun bs => M (qs.map P) bs * v (updL P qs bs))

theorem map_updL_disjoint (P : PStr) (qs rs : List Nat) (bs : List (Fin 4)) (h : ∀ q ∈ qs, q ∉ rs) :
    rs.map (updL P qs bs) = rs.map P := by
  apply List.map_congr_left
  intro r hr
  exact updL_of_not_mem P r qs bs (fun hq => h r hq hr)

/-- operations on disjoint sets of qubits commute -/
theorem applyL_comm (qs rs : List Nat) (M N : TM K) (v : Vec K) (h : ∀ q ∈ qs, q ∉ rs) :
    applyL qs M (applyL rs N v) = applyL rs N (applyL qs M v) := by
  have h' : ∀ r ∈ rs, r ∉ qs := fun r hr hq => h r hq hr
  funext P
  simp only [applyL]
  have e1 : ∀ bs, M (qs.map P) bs * sumL rs.length (fun cs => N (rs.map (updL P qs bs)) cs * v (updL (updL P qs bs) rs cs))
      = sumL rs.length (fun cs => M (qs.map P) bs * (N (rs.map P) cs * v (updL (updL P qs bs) rs cs))) := by
    intro bs
    rw [map_updL_disjoint P qs rs bs h, sumL_mul_left]
  have e2 : ∀ cs, N (rs.map P) cs * sumL qs.length (fun bs => M (qs.map (updL P rs cs)) bs * v (updL (updL P rs cs) qs bs))
      = sumL qs.length (fun bs => M (qs.map P) bs * (N (rs.map P) cs * v (updL (updL P qs bs) rs cs))) := by
    intro cs
    rw [map_updL_disjoint P rs qs cs h', ← sumL_mul_left]
    apply sumL_congr
    intro bs _
    rw [updL_comm qs bs rs cs P h]
    ring
  simp only [e1, e2]
  exact sumL_comm _ _ _

theorem applyL_sum {ι : Type} (s : Finset ι) (qs : List Nat) (M : TM K) (f : ι → Vec K) :
    applyL qs M (fun P => ∑ o ∈ s, f o P) = fun P => ∑ o ∈ s, applyL qs M (f o) P := by
  funext P
  simp only [applyL, Finset.mul_sum]
  exact sumL_sum s _ _

end CKT.Sem
