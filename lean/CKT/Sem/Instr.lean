import CKT.Sem.PTM
/-!
# Semantics of instruction lists in the Pauli-expectation model

Every instruction is a short list of *primitives*: a transfer matrix applied to a list of qubits, or a measurement
`q → c`.  `reset` and `swap` have their concrete matrices; `Move` is `reset` of the destination followed by `swap`
(a placeholder `qpd_2q` labelled `cut_move` stands for the Move it wraps); barriers do nothing; every other name takes
its transfer matrix from the parameter `G : GateSem K` (any choice).  Instructions other than `measure` that carry
classical bits are given the semantics of the bare operation (the package refuses or never produces them).
-/
namespace CKT.Sem
open Finset CKT

variable {K : Type} [CommRing K]

/-- transfer matrices of the named operations and of the two measurement projectors — arbitrary -/
structure GateSem (K : Type) where
  mat  : String → List String → TM K
  proj : Bool → TM K

/-- `reset`: `v'(P) = [P q ∈ {I,Z}] · v(P[q ↦ I])` -/
def resetM : TM K := fun a b =>
  match a, b with
  | [x], [y] => if y = 0 ∧ (x = 0 ∨ x = 3) then 1 else 0
  | _, _ => 0

/-- `swap`: exchanges the two letters -/
def swapM : TM K := fun a b =>
  match a, b with
  | [x, y], [x', y'] => if x' = y ∧ y' = x then 1 else 0
  | _, _ => 0

theorem sum_fin4_ite_eq (c : Fin 4) (f : Fin 4 → K) : (∑ b : Fin 4, if b = c then f b else 0) = f c := by
  simp

theorem applyL_reset (q : Nat) (v : Vec K) (P : PStr) :
    applyL [q] resetM v P = if P q = 0 ∨ P q = 3 then v (Function.update P q 0) else 0 := by
  simp only [applyL, List.length_cons, List.length_nil, sumL, List.map_cons, List.map_nil, resetM, updL]
  by_cases h : P q = 0 ∨ P q = 3
  · simp only [h, and_true, if_true]
    rw [Finset.sum_eq_single (0 : Fin 4)]
    · simp
    · intro b _ hb; simp [hb]
    · simp
  · simp only [h, and_false, if_false]
    simp

theorem applyL_swap (a b : Nat) (v : Vec K) (P : PStr) :
    applyL [a, b] swapM v P = v (Function.update (Function.update P b (P a)) a (P b)) := by
  simp only [applyL, List.length_cons, List.length_nil, sumL, List.map_cons, List.map_nil, swapM, updL]
  rw [Finset.sum_eq_single (P b)]
  · rw [Finset.sum_eq_single (P a)]
    · simp
    · intro y _ hy; simp [hy]
    · simp
  · intro x _ hx
    apply Finset.sum_eq_zero
    intro y _
    simp [hx]
  · simp

/-! ### primitives -/

inductive Prim (K : Type) where
  | gate (qs : List Nat) (M : TM K)
  | meas (q c : Nat) (pr : Bool → TM K)

def Prim.qubits : Prim K → List Nat
  | .gate qs _ => qs
  | .meas q _ _ => [q]

def Prim.clbits : Prim K → List Nat
  | .gate _ _ => []
  | .meas _ c _ => [c]

def Prim.act : Prim K → St K → St K
  | .gate qs M, σ => fun k => applyL qs M (σ k)
  | .meas q c pr, σ => fun k P => ∑ o : Bool, applyL [q] (pr (k c)) (σ (Function.update k c o)) P

def Prim.Indep (p p' : Prim K) : Prop := (∀ q ∈ p.qubits, q ∉ p'.qubits) ∧ (∀ c ∈ p.clbits, c ∉ p'.clbits)

omit [CommRing K] in
theorem Prim.Indep.symm {p p' : Prim K} (h : p.Indep p') : p'.Indep p :=
  ⟨fun q hq hq' => h.1 q hq' hq, fun c hc hc' => h.2 c hc' hc⟩

theorem gate_meas_comm (qs : List Nat) (M : TM K) (q c : Nat) (pr : Bool → TM K) (h : q ∉ qs) (σ : St K) :
    (Prim.gate qs M).act ((Prim.meas q c pr).act σ) = (Prim.meas q c pr).act ((Prim.gate qs M).act σ) := by
  funext k
  simp only [Prim.act]
  have := applyL_sum (K := K) Finset.univ qs M (fun o => applyL [q] (pr (k c)) (σ (Function.update k c o)))
  rw [this]
  funext P
  apply Finset.sum_congr rfl
  intro o _
  rw [applyL_comm qs [q] M (pr (k c)) _ (by intro q' hq'; simp; rintro rfl; exact h hq')]

/-- primitives on disjoint qubits and disjoint classical bits commute -/
theorem prim_comm (p p' : Prim K) (h : p.Indep p') (σ : St K) : p.act (p'.act σ) = p'.act (p.act σ) := by
  cases p with
  | gate qs M =>
    cases p' with
    | gate rs N =>
      funext k
      exact applyL_comm qs rs M N (σ k) h.1
    | meas q c pr =>
      exact gate_meas_comm qs M q c pr (fun hq => h.1 q hq (by simp [Prim.qubits])) σ
  | meas q c pr =>
    cases p' with
    | gate rs N =>
      exact (gate_meas_comm rs N q c pr (fun hq => h.1 q (by simp [Prim.qubits]) hq) σ).symm
    | meas q' c' pr' =>
      have hq : q ≠ q' := by
        intro e; exact h.1 q (by simp [Prim.qubits]) (by simp [Prim.qubits, e])
      have hc : c ≠ c' := by
        intro e; exact h.2 c (by simp [Prim.clbits]) (by simp [Prim.clbits, e])
      funext k P
      simp only [Prim.act]
      have e1 : ∀ o : Bool, applyL [q] (pr (k c)) (fun P => ∑ o' : Bool,
            applyL [q'] (pr' (Function.update k c o c')) (σ (Function.update (Function.update k c o) c' o')) P) P
          = ∑ o' : Bool, applyL [q] (pr (k c)) (applyL [q'] (pr' (k c')) (σ (Function.update (Function.update k c o) c' o'))) P := by
        intro o
        rw [applyL_sum]
        simp only [Function.update_of_ne hc.symm]
      have e2 : ∀ o' : Bool, applyL [q'] (pr' (k c')) (fun P => ∑ o : Bool,
            applyL [q] (pr (Function.update k c' o' c)) (σ (Function.update (Function.update k c' o') c o)) P) P
          = ∑ o : Bool, applyL [q] (pr (k c)) (applyL [q'] (pr' (k c')) (σ (Function.update (Function.update k c o) c' o'))) P := by
        intro o'
        rw [applyL_sum]
        simp only [Function.update_of_ne hc]
        apply Finset.sum_congr rfl
        intro o _
        rw [applyL_comm [q] [q'] _ _ _ (by simpa using hq), Function.update_comm hc]
      simp only [e1, e2]
      exact Finset.sum_comm

def actL (ps : List (Prim K)) (σ : St K) : St K := ps.foldl (fun σ p => p.act σ) σ

@[simp] theorem actL_nil (σ : St K) : actL ([] : List (Prim K)) σ = σ := rfl
@[simp] theorem actL_cons (p : Prim K) (ps : List (Prim K)) (σ : St K) : actL (p :: ps) σ = actL ps (p.act σ) := rfl

theorem act_actL_comm (p : Prim K) : ∀ (ps : List (Prim K)) (σ : St K), (∀ p' ∈ ps, p.Indep p') →
    p.act (actL ps σ) = actL ps (p.act σ)
  | [], _, _ => rfl
  | p' :: ps, σ, h => by
    simp only [actL_cons]
    rw [act_actL_comm p ps _ (fun x hx => h x (List.mem_cons_of_mem _ hx)), prim_comm p p' (h p' (by simp))]

theorem actL_comm : ∀ (ps rs : List (Prim K)) (σ : St K), (∀ p ∈ ps, ∀ r ∈ rs, p.Indep r) →
    actL ps (actL rs σ) = actL rs (actL ps σ)
  | [], _, _, _ => rfl
  | p :: ps, rs, σ, h => by
    simp only [actL_cons]
    rw [act_actL_comm p rs σ (fun r hr => h p (by simp) r hr)]
    exact actL_comm ps rs _ (fun x hx r hr => h x (List.mem_cons_of_mem _ hx) r hr)

/-! ### instructions -/

def isMoveLike (i : Instr) : Bool := i.name == "move" || (i.name == "qpd_2q" && i.label == some "cut_move")

/-- the primitives of an instruction; `d` = the qubit a `reset` without qubit argument is taken to act on (`none`: it does nothing) -/
def prims (G : GateSem K) (d : Option Nat) (i : Instr) : List (Prim K) :=
  if isBarrier i then []
  else if isReset i then
    (match i.qubits.head?.or d with
     | some q => [Prim.gate [q] resetM]
     | none => [])
  else if i.name == "measure" then
    (match i.qubits, i.clbits with
     | [q], [c] => [Prim.meas q c G.proj]
     | _, _ => [])
  else if isMoveLike i then
    (match i.qubits with
     | [a, b] => [Prim.gate [b] resetM, Prim.gate [a, b] swapM]
     | _ => [])
  else [Prim.gate i.qubits (G.mat i.name i.params)]

def ap (G : GateSem K) (d : Option Nat) (i : Instr) (σ : St K) : St K := actL (prims G d i) σ

theorem prims_support (G : GateSem K) (i : Instr) :
    ∀ p ∈ prims G none i, (∀ q ∈ p.qubits, q ∈ i.qubits) ∧ (∀ c ∈ p.clbits, c ∈ i.clbits) := by
  intro p hp
  unfold prims at hp
  split at hp
  · cases hp
  · split at hp
    · cases hq : i.qubits with
      | nil => simp [hq] at hp
      | cons q qs =>
        simp [hq] at hp
        subst hp
        simp [Prim.qubits, Prim.clbits]
    · split at hp
      · split at hp
        · rename_i q c hqs hcs
          simp at hp; subst hp
          simp [Prim.qubits, Prim.clbits, hqs, hcs]
        · cases hp
      · split at hp
        · split at hp
          · rename_i a b hqs
            simp at hp
            rcases hp with rfl | rfl <;> simp [Prim.qubits, Prim.clbits, hqs]
          · cases hp
        · simp at hp; subst hp
          simp [Prim.qubits, Prim.clbits]

/-- instructions on disjoint qubits and disjoint classical bits commute -/
theorem ap_comm (G : GateSem K) (i j : Instr) (σ : St K) (hq : ∀ q ∈ i.qubits, q ∉ j.qubits)
    (hc : ∀ c ∈ i.clbits, c ∉ j.clbits) : ap G none i (ap G none j σ) = ap G none j (ap G none i σ) := by
  apply actL_comm
  intro p hp r hr
  have h1 := prims_support G i p hp
  have h2 := prims_support G j r hr
  exact ⟨fun q hq1 hq2 => hq q (h1.1 q hq1) (h2.1 q hq2), fun c hc1 hc2 => hc c (h1.2 c hc1) (h2.2 c hc2)⟩

theorem ap_barrier (G : GateSem K) (d : Option Nat) (i : Instr) (σ : St K) (h : isBarrier i = true) : ap G d i σ = σ := by
  simp [ap, prims, h]

/-- all qubits in |0⟩, classical register zero: expectation 1 for the strings made of `I` and `Z`, 0 otherwise -/
noncomputable def init : St K := fun k P =>
  open Classical in if k = (fun _ => false) ∧ ∀ n, (P n = 0 ∨ P n = 3) then 1 else 0

/-- the distribution of the classical register: the trace (expectation of the identity string) per value -/
def obs (σ : St K) : Cl → K := fun k => σ k (fun _ => 0)

end CKT.Sem
